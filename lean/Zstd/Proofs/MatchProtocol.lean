import Zstd.Proofs.MatchTop
/-
Helper lemmas for C17, part 9: what the calls of the documented protocol do to the retained window
and to the capacities (the proofs behind the property theorems of the same names in `Props/C17.lean`;
kept here so that `Proofs/MatchValid.lean` can use them).
-/
namespace Zstd.Proofs.MG
open Zstd Zstd.Model.MG

variable (key : KeyFn) (sl n : Nat) (d d' : Driver) (seqs : List Seq)

theorem matching_keeps_window_core (hr : Reachable key sl n d) (h : d.startMatching key = .ok (d', seqs)) :
    d'.windowBytes = d.windowBytes ∧ d'.block = d.block ∧ d'.mg.processed = true := by
  obtain ⟨last, hl, _, _, _, _, _, hsh, ⟨last', hl', hd⟩, hend⟩ := start_core key sl n d d' seqs hr h
  refine ⟨by rw [windowBytes_eq, windowBytes_eq, hsh], by rw [block_eq d last hl, block_eq d' last' hl', hd], ?_⟩
  simp [MatchGenerator.processed, hl', hend, hd]

theorem commit_fresh_core (hr : Reachable key sl n d) (space : Array Byte) (cap : Nat)
    (h : d.commitSpace space cap = .ok d') :
    d'.mg.suffixIdx = 0 ∧ d'.block = space.toList ∧
    (∃ k, d'.windowBytes = d.windowBytes.drop k ++ space.toList) ∧
    d'.windowBytes.length ≤ d'.windowSize ∧ d'.windowSize = d.windowSize := by
  obtain ⟨hwf, _⟩ := reachable_wf key sl n d hr
  unfold Driver.commitSpace at h
  split at h
  · simp at h
  · rename_i g released hadd
    simp only [Except.ok.injEq] at h
    subst h
    obtain ⟨hwf', hm, hs, ⟨kept, hw, hw'⟩, _⟩ := addData_spec _ _ _ _ _ _ hwf hadd
    have hflatShift : flat (shape (shiftBases kept)) = flat (shape kept) := by
      unfold shiftBases
      split
      · rfl
      · simp [flat, shape, List.flatMap_map]
    refine ⟨hs, ?_, ⟨(flat (shape released)).length, ?_⟩, ?_, hm⟩
    · simp [Driver.block, Driver.recycle, hw']
    · rw [windowBytes_eq, windowBytes_eq]
      simp only [Driver.recycle, hw', hw, shape_append, flat_append, hflatShift]
      simp [flat]
    · rw [windowBytes_eq]
      simp only [flat_length, Driver.recycle, Driver.windowSize]
      rw [← hwf'.size]
      exact hwf'.le_max

theorem skip_keeps_window_core (hr : Reachable key sl n d) (h : d.skipMatching key = .ok d') :
    d'.windowBytes = d.windowBytes ∧ d'.mg.processed = true := by
  obtain ⟨hwf, _⟩ := reachable_wf key sl n d hr
  unfold Driver.skipMatching at h
  split at h
  · simp at h
  · rename_i g hg
    simp only [Except.ok.injEq] at h
    subst h
    obtain ⟨_, hsh, _, last', hl', hend⟩ := skipMatching_spec key _ _ hwf hg
    refine ⟨by rw [windowBytes_eq, windowBytes_eq, hsh], ?_⟩
    simp [MatchGenerator.processed, hl', hend]

theorem reset_empties_window_core : d.reset.windowBytes = [] ∧ d.reset.mg.processed = true := by
  simp [Driver.reset, Driver.recycle, MatchGenerator.reset, Driver.windowBytes, MatchGenerator.processed]

theorem slice_size_const_core (hr : Reachable key sl n d) : d.sliceSize = sl := by
  induction hr with
  | init => rfl
  | step op _ hs ih =>
    rename_i d0 d1
    cases op with
    | reset => simp only [Driver.step, Except.ok.injEq] at hs; subst hs; simpa [Driver.reset, Driver.recycle] using ih
    | getNextSpace =>
      simp only [Driver.step, Except.ok.injEq] at hs
      subst hs
      unfold Driver.getNextSpace
      split <;> simpa using ih
    | commitSpace space cap =>
      simp only [Driver.step] at hs
      unfold Driver.commitSpace at hs
      split at hs
      · simp at hs
      · simp only [Except.ok.injEq] at hs; subst hs; simpa [Driver.recycle] using ih
    | startMatching =>
      simp only [Driver.step] at hs
      split at hs
      · simp at hs
      · rename_i d2 sq hst
        simp only [Except.ok.injEq] at hs
        subst hs
        unfold Driver.startMatching at hst
        split at hst
        · simp at hst
        · simp only [Except.ok.injEq, Prod.mk.injEq] at hst
          obtain ⟨rfl, _⟩ := hst
          simpa using ih
    | skipMatching =>
      simp only [Driver.step] at hs
      unfold Driver.skipMatching at hs
      split at hs
      · simp at hs
      · simp only [Except.ok.injEq] at hs; subst hs; simpa using ih

theorem protocol_caps_preserved_core (hc : CapsOk d) (op : Op) (h : d.step key op = .ok d')
    (hop : ∀ space cap, op = .commitSpace space cap → space.size ≤ cap ∧ cap = d.sliceSize) :
    CapsOk d' ∧ d'.sliceSize = d.sliceSize := by
  obtain ⟨hc1, hc2⟩ := hc
  cases op with
  | reset =>
    simp only [Driver.step, Except.ok.injEq] at h
    subst h
    refine ⟨⟨capsOk_recycle { d with mg := d.mg.reset.1 } d.mg.window hc1 hc2, ?_⟩, rfl⟩
    intro p hp
    simp [Driver.reset, Driver.recycle, MatchGenerator.reset, caps] at hp
  | getNextSpace =>
    simp only [Driver.step, Except.ok.injEq] at h
    subst h
    unfold Driver.getNextSpace
    split
    · exact ⟨⟨fun v hv => hc1 v (List.dropLast_subset _ hv), hc2⟩, rfl⟩
    · exact ⟨⟨hc1, hc2⟩, rfl⟩
  | commitSpace space cap =>
    obtain ⟨hs1, hs2⟩ := hop space cap rfl
    simp only [Driver.step] at h
    unfold Driver.commitSpace at h
    split at h
    · simp at h
    · rename_i g released hadd
      simp only [Except.ok.injEq] at h
      subst h
      unfold MatchGenerator.addData at hadd
      split at hadd
      · simp at hadd
      · split at hadd
        · simp at hadd
        · rename_i g1 ev hres
          simp only [Except.ok.injEq, Prod.mk.injEq] at hadd
          obtain ⟨rfl, rfl⟩ := hadd
          unfold MatchGenerator.reserve at hres
          split at hres
          · simp at hres
          · split at hres
            · simp at hres
            · rename_i w ws ev2 hloop
              simp only [Except.ok.injEq, Prod.mk.injEq] at hres
              obtain ⟨rfl, rfl⟩ := hres
              obtain ⟨hw, _, _⟩ := reserveLoop_spec _ _ _ _ _ _ _ hloop
              have hcw : caps d.mg.window = caps ev2 ++ caps w := by rw [hw]; simp [caps]
              refine ⟨⟨?_, ?_⟩, rfl⟩
              · apply capsOk_recycle _ ev2 hc1
                intro p hp
                exact hc2 p (by rw [hcw]; simp [hp])
              · intro p hp
                have hsh : caps (shiftBases w) = caps w := by
                  unfold shiftBases
                  split
                  · rfl
                  · simp [caps, List.map_map, Function.comp_def]
                simp only [Driver.recycle, caps, List.map_append, List.map_cons, List.map_nil, List.mem_append,
                  List.mem_singleton] at hp
                rcases hp with hp | hp
                · exact hc2 p (by rw [hcw]; simp only [List.mem_append]; right; rw [← hsh]; simpa [caps] using hp)
                · subst hp; exact ⟨hs1, hs2⟩
  | startMatching =>
    simp only [Driver.step] at h
    split at h
    · simp at h
    · rename_i d2 sq hst
      simp only [Except.ok.injEq] at h
      subst h
      unfold Driver.startMatching at hst
      split at hst
      · simp at hst
      · rename_i g sq' hg
        simp only [Except.ok.injEq, Prod.mk.injEq] at hst
        obtain ⟨rfl, _⟩ := hst
        have := caps_startLoop key _ _ _ _ hg
        exact ⟨⟨hc1, by simp only [this]; exact hc2⟩, rfl⟩
  | skipMatching =>
    simp only [Driver.step] at h
    unfold Driver.skipMatching at h
    split at h
    · simp at h
    · rename_i g hg
      simp only [Except.ok.injEq] at h
      subst h
      have := caps_skipMatching key _ _ hg
      exact ⟨⟨hc1, by simp only [this]; exact hc2⟩, rfl⟩

theorem protocol_next_space_core (hc : CapsOk d) : d.getNextSpace.2.size = d.sliceSize := by
  unfold Driver.getNextSpace
  split
  · rename_i v hv
    exact hc.1 v (List.mem_of_getLast? hv)
  · simp

end Zstd.Proofs.MG
