import Zstd.Proofs.RingRun
import Zstd.Proofs.OverlapCopy
/-
Helper lemmas for C04, layer 6a: `DecodeBuffer::{push, reset, repeat, repeat_in_chunks, repeat_from_dict}`.
-/
namespace Zstd.Model
open Zstd RingBuffer

namespace DecodeBuffer

/-- the decode buffer's invariant is the ring's -/
def Inv (d : DecodeBuffer) : Prop := d.buffer.Inv

/-- the decode buffer's abstract content is the ring's -/
def abs (d : DecodeBuffer) : List Byte := d.buffer.abs

variable {d : DecodeBuffer}

theorem inv_new (ws : Nat) : (DecodeBuffer.new ws).Inv ∧ (DecodeBuffer.new ws).abs = [] :=
  ⟨RingBuffer.inv_new, RingBuffer.abs_new⟩

theorem reset_ok (hI : d.Inv) (ws : Nat) :
    ∃ d', d.reset ws = .ok d' ∧ d'.Inv ∧ d'.abs = [] ∧ d'.dict = [] ∧ d'.windowSize = ws ∧
      d'.total = 0 ∧ d'.hash = [] ∧ ws ≤ d'.buffer.free ∧ CapStep d.buffer d'.buffer ws := by
  unfold reset
  obtain ⟨b, e, hR⟩ := reserve_ok (clear_ok hI).1 ws
  rw [e, ok_bind, pure_eq_ok]
  refine ⟨_, rfl, hR.inv, ?_, rfl, rfl, rfl, rfl, hR.free, ?_⟩
  · show b.abs = []
    rw [hR.abs, (clear_ok hI).2.1]
  · have h1 := hR.capMono; have h2 := hR.capBound
    have hc : d.buffer.clear.cap = d.buffer.cap := rfl
    have hl : d.buffer.clear.len = 0 := by simp [RingBuffer.len, RingBuffer.clear]
    exact ⟨by show d.buffer.cap ≤ b.cap; omega, by show b.cap = d.buffer.cap ∨ b.cap ≤ _; omega⟩

theorem push_ok (hI : d.Inv) (data : List Byte) :
    ∃ d', d.push data = .ok d' ∧ d'.Inv ∧ d'.abs = d.abs ++ data ∧ d'.total = d.total + data.length ∧
      d'.dict = d.dict ∧ d'.windowSize = d.windowSize ∧ d'.hash = d.hash ∧
      CapStep d.buffer d'.buffer data.length := by
  unfold push
  obtain ⟨b, e, hI', ha, _, hcs⟩ := extend_ok hI data
  rw [e, ok_bind, pure_eq_ok]
  exact ⟨_, rfl, hI', ha, rfl, rfl, rfl, rfl, hcs⟩

/-- the chunk loop: with `0 < offset ≤ len`, `start_idx = len - offset` and the whole length reserved,
every call satisfies the `SAFETY` requirements and the result is the byte-by-byte overlapping copy -/
theorem repeatInChunks_ok {C : Nat} (hC : 0 < C) {offset : Nat} (ho : 0 < offset) :
    ∀ (fuel : Nat) {b : RingBuffer} {left startIdx : Nat}, b.Inv → offset ≤ b.len →
      startIdx = b.len - offset → left ≤ b.free → left ≤ fuel →
      ∃ b', repeatInChunks C fuel b offset left startIdx = .ok b' ∧ b'.Inv ∧
        b'.abs = overlapCopy b.abs offset left ∧ b'.len = b.len + left ∧ b'.cap = b.cap
  | 0, b, left, startIdx, hI, _, _, _, hfu => by
    have : left = 0 := by omega
    subst this
    exact ⟨b, by simp [repeatInChunks], hI, rfl, rfl, rfl⟩
  | fuel + 1, b, left, startIdx, hI, hol, hs, hfr, hfu => by
    unfold repeatInChunks
    by_cases hl : left > 0
    · simp only [hl, ↓reduceIte]
      have hc : 0 < b.cap := hI.cap_pos_of_len (by omega)
      obtain ⟨b1, e1, hI1, ha1, hl1, hc1, _⟩ := efwu_ok hC hI hc (start := startIdx) (len := min offset left)
        (by omega) (by omega)
      rw [e1, ok_bind]
      have hlf := hI.len_free hc
      have hlf1 := hI1.len_free (by omega)
      obtain ⟨b', e', hI', ha', hl', hc'⟩ := repeatInChunks_ok hC ho fuel (b := b1)
        (left := left - min offset left) (startIdx := startIdx + min offset left) hI1
        (by omega) (by omega) (by omega) (by omega)
      refine ⟨b', e', hI', ?_, by omega, by omega⟩
      rw [ha', ha1, hs, ← abs_length (r := b), ← overlapCopy_le b.abs offset (by rw [abs_length]; exact hol)
        (min offset left) (by omega), ← overlapCopy_add]
      congr 1; omega
    · have : left = 0 := by omega
      subst this
      simp only [Nat.lt_irrefl, ↓reduceIte]
      exact ⟨b, rfl, hI, rfl, rfl, rfl⟩

/-- the non-dictionary branch of `repeat` (`0 < offset ≤ len`), at any recursion depth ≥ 1 -/
theorem repeatF_local {C : Nat} (hC : 0 < C) (hI : d.Inv) (fuel : Nat) {offset ml : Nat}
    (ho : 0 < offset) (hol : offset ≤ d.buffer.len) :
    ∃ d', repeatF C (fuel + 1) d offset ml = .ok (d', .ok ()) ∧ d'.Inv ∧
      d'.abs = overlapCopy d.abs offset ml ∧ d'.total = d.total + ml ∧
      d'.dict = d.dict ∧ d'.windowSize = d.windowSize ∧ d'.hash = d.hash ∧
      CapStep d.buffer d'.buffer ml := by
  unfold repeatF
  rw [RingBuffer.Inv.lenC_eq hI, ok_bind]
  have hno : ¬ offset > d.buffer.len := by omega
  simp only [hno, ↓reduceIte]
  obtain ⟨b, eb, hR⟩ := reserve_ok hI ml
  rw [eb, ok_bind]
  have hc : 0 < b.cap := hR.inv.cap_pos_of_len (by rw [hR.len]; omega)
  by_cases hch : d.buffer.len - offset + ml > d.buffer.len
  · simp only [hch, ↓reduceIte]
    obtain ⟨b', e', hI', ha', _, hcap'⟩ := repeatInChunks_ok hC ho ml (b := b) (left := ml)
      (startIdx := d.buffer.len - offset) hR.inv (by rw [hR.len]; exact hol) (by rw [hR.len]) hR.free
      (Nat.le_refl _)
    rw [e', ok_bind, pure_eq_ok]
    refine ⟨_, rfl, hI', ?_, rfl, rfl, rfl, rfl, hR.capStep.trans_eq hcap'⟩
    show b'.abs = _
    rw [ha', hR.abs]; rfl
  · simp only [hch, ↓reduceIte]
    obtain ⟨b', e', hI', ha', _, hcap', _⟩ := efwu_ok hC hR.inv hc (start := d.buffer.len - offset) (len := ml)
      (by rw [hR.len]; omega) hR.free
    rw [e', ok_bind, pure_eq_ok]
    refine ⟨_, rfl, hI', ?_, rfl, rfl, rfl, rfl, hR.capStep.trans_eq hcap'⟩
    show b'.abs = _
    rw [ha', hR.abs]
    show Queue.copyWithin d.buffer.abs _ _ = overlapCopy d.buffer.abs offset ml
    rw [overlapCopy_le d.buffer.abs offset (by rw [abs_length]; exact hol) ml (by omega), abs_length]

/-- `repeat(offset, match_length)` with `0 < offset ≤ len` -/
theorem repeat_ok {C : Nat} (hC : 0 < C) (hI : d.Inv) {offset ml : Nat}
    (ho : 0 < offset) (hol : offset ≤ d.buffer.len) :
    ∃ d', d.repeat C offset ml = .ok (d', .ok ()) ∧ d'.Inv ∧
      d'.abs = overlapCopy d.abs offset ml ∧ d'.total = d.total + ml ∧
      d'.dict = d.dict ∧ d'.windowSize = d.windowSize ∧ d'.hash = d.hash ∧
      CapStep d.buffer d'.buffer ml :=
  repeatF_local hC hI 1 ho hol

/-- `repeat` with `offset > len`: the two error arms of `repeat_from_dict` leave the buffer alone -/
theorem repeat_dict_err {C : Nat} (hI : d.Inv) {offset ml : Nat} (hol : offset > d.buffer.len) :
    (d.total > d.windowSize →
      d.repeat C offset ml = .ok (d, .error (.offsetTooBig offset d.buffer.len))) ∧
    (d.total ≤ d.windowSize → offset - d.buffer.len > d.dict.length →
      d.repeat C offset ml =
        .ok (d, .error (.notEnoughBytesInDictionary d.dict.length (offset - d.buffer.len)))) := by
  constructor
  · intro ht
    unfold DecodeBuffer.repeat repeatF
    rw [RingBuffer.Inv.lenC_eq hI, ok_bind]
    have : ¬ d.total ≤ d.windowSize := by omega
    simp only [hol, this, ↓reduceIte, pure_eq_ok]
  · intro ht hb
    unfold DecodeBuffer.repeat repeatF
    rw [RingBuffer.Inv.lenC_eq hI, ok_bind]
    simp only [hol, ht, hb, ↓reduceIte, pure_eq_ok]

/-- `repeat` with `offset > len` and enough dictionary: the bytes come from `dict ++ content` by the
same byte-by-byte copy; the counter is advanced by `match_length` only when the match continues into
the buffer (exactly as written in `repeat_from_dict`) -/
theorem repeat_dict_ok {C : Nat} (hC : 0 < C) (hI : d.Inv) {offset ml : Nat}
    (hol : offset > d.buffer.len) (ht : d.total ≤ d.windowSize)
    (hb : offset - d.buffer.len ≤ d.dict.length) :
    ∃ d', d.repeat C offset ml = .ok (d', .ok ()) ∧ d'.Inv ∧
      d'.abs = (overlapCopy (d.dict ++ d.abs) offset ml).drop d.dict.length ∧
      d'.total = (if offset - d.buffer.len < ml then d.total + ml else d.total) ∧
      d'.dict = d.dict ∧ d'.windowSize = d.windowSize ∧ d'.hash = d.hash ∧
      CapStep d.buffer d'.buffer ml := by
  have hlabs : d.abs.length = d.buffer.len := abs_length
  have hoff : offset ≤ (d.dict ++ d.abs).length := by rw [List.length_append, hlabs]; omega
  unfold DecodeBuffer.repeat repeatF
  rw [RingBuffer.Inv.lenC_eq hI, ok_bind]
  have hnb : ¬ offset - d.buffer.len > d.dict.length := by omega
  simp only [hol, ht, hnb, ↓reduceIte]
  by_cases hlt : offset - d.buffer.len < ml
  · simp only [hlt, ↓reduceIte]
    obtain ⟨b, eb, hIb, hab, hlb, hcs1⟩ := extend_ok hI (d.dict.drop (d.dict.length - (offset - d.buffer.len)))
    rw [eb, ok_bind]
    have hsl : (d.dict.drop (d.dict.length - (offset - d.buffer.len))).length = offset - d.buffer.len := by
      rw [List.length_drop]; omega
    rw [hsl] at hlb hcs1
    rw [RingBuffer.Inv.lenC_eq hIb, ok_bind]
    obtain ⟨d', e', hI', ha', ht', hd', hw', hh', hcs2⟩ := repeatF_local hC
      (d := { d with buffer := b, total := d.total + (offset - d.buffer.len) }) hIb 0
      (offset := b.len) (ml := ml - (offset - d.buffer.len)) (by omega) (Nat.le_refl _)
    rw [e']
    refine ⟨d', rfl, hI', ?_, by rw [ht']; show d.total + _ + _ = _; omega, hd', hw', hh', ?_⟩
    rotate_left
    · have m1 := hcs1.mono; have b1 := hcs1.bound
      have m2 := hcs2.mono; have b2 := hcs2.bound
      have e1 : ({ d with buffer := b, total := d.total + (offset - d.buffer.len) } : DecodeBuffer).buffer = b := rfl
      rw [e1] at m2 b2
      exact ⟨by omega, by omega⟩
    rw [ha']
    show overlapCopy b.abs b.len _ = _
    have hbl : b.len = offset := by omega
    rw [hbl, hab]
    -- the specification side
    have h1 : overlapCopy (d.dict ++ d.abs) offset ml =
        overlapCopy (overlapCopy (d.dict ++ d.abs) offset (offset - d.buffer.len)) offset
          (ml - (offset - d.buffer.len)) := by
      rw [← overlapCopy_add]; congr 1; omega
    have h2 : overlapCopy (d.dict ++ d.abs) offset (offset - d.buffer.len) =
        d.dict ++ (d.abs ++ d.dict.drop (d.dict.length - (offset - d.buffer.len))) := by
      rw [overlapCopy_le _ _ hoff _ (by omega)]
      simp only [Queue.copyWithin, List.length_append, hlabs]
      rw [List.append_assoc]
      congr 2
      rw [show d.dict.length + d.buffer.len - offset = d.dict.length - (offset - d.buffer.len) by omega,
        List.drop_append_of_le_length (by omega), List.take_append_of_le_length (by rw [hsl]; omega)]
      rw [List.take_of_length_le (by rw [hsl]; omega)]
    rw [h1, h2, overlapCopy_append_left d.dict
      (d.abs ++ d.dict.drop (d.dict.length - (offset - d.buffer.len))) offset
      (by rw [List.length_append, hlabs, hsl]; omega), List.drop_left]
    rfl
  · simp only [hlt, ↓reduceIte]
    obtain ⟨b, eb, hIb, hab, hlb, hcs1⟩ := extend_ok hI
      ((d.dict.drop (d.dict.length - (offset - d.buffer.len))).take ml)
    rw [eb, ok_bind, pure_eq_ok]
    have hsl0 : ((d.dict.drop (d.dict.length - (offset - d.buffer.len))).take ml).length = ml := by
      rw [List.length_take, List.length_drop]; omega
    rw [hsl0] at hcs1
    refine ⟨_, rfl, hIb, ?_, rfl, rfl, rfl, rfl, hcs1⟩
    show b.abs = _
    rw [hab, overlapCopy_le _ _ hoff _ (by omega)]
    simp only [Queue.copyWithin, List.length_append, hlabs]
    rw [List.append_assoc, List.drop_left]
    show d.buffer.abs ++ _ = d.buffer.abs ++ _
    congr 1
    have hsl : (d.dict.drop (d.dict.length - (offset - d.buffer.len))).length = offset - d.buffer.len := by
      rw [List.length_drop]; omega
    rw [show d.dict.length + d.buffer.len - offset = d.dict.length - (offset - d.buffer.len) by omega,
      List.drop_append_of_le_length (by omega), List.take_append_of_le_length (by rw [hsl]; omega)]

end DecodeBuffer

end Zstd.Model
