import Zstd.Proofs.BlkLitRefines
import Zstd.Proofs.BlkSeqTables
import Zstd.Proofs.BlkSeqStream
import Zstd.Proofs.DictCopy
/-
C01 at block level: `Blk.decompressBlock` (the faithful mirror of `decompress_block`) refines
`Spec.decodeCompressedBlock` (RFC 8878 §3.1.1.3), composed from
  * `decodeSequences_refines`   sequences section (tables: `Proofs/BlkSeqTables`, bitstream: `Proofs/BlkSeqStream`)
  * `decodeLiterals_refines_raw_rle`  Raw and RLE literals (header: `Proofs/BlkLitRefines`)
  * `Proofs.DictCopy.executeSequences_refines`  sequence execution on the decode buffer
The literals stage enters the composition as the predicate `LitStage`; it is proved here for Raw and
RLE sections and in `Proofs/BlkLitFull` for Compressed/Treeless sections (`decodeLiterals_refines_full_proved`,
`decompressBlock_refines_full_proved`).
-/
namespace Zstd.Proofs.Blk
open Zstd Zstd.Model Zstd.Model.Blk Zstd.Proofs.BitIO Zstd.Proofs.DictCopy

/-! ## sequences section -/

/-- **`decode_sequences` refines `Spec.decodeSequences`** (all four modes per table: Predefined, RLE,
FSE_Compressed, Repeat; the three-state interleaved bitstream).  The Spec's function starts at the
sequence count; the code parses the header (`parseSeqHeader`) in `decompress_block` and hands the rest
to `decode_sequences`. -/
theorem decodeSequences_refines {bytes : List Nat} (hb : Bytes bytes) {e e' : Spec.Entropy} {s : FseScratch}
    {seqs : List Spec.Seq} (hc : FseCoupled e s)
    (hs : Spec.decodeSequences bytes e = some (seqs, e')) :
    ∃ n modes shLen, parseSeqHeader bytes = .ok (n, modes, shLen) ∧
      (n = 0 → seqs = [] ∧ e' = e ∧ (bytes.drop shLen).isEmpty = true) ∧
      (n ≠ 0 → ∃ s', Blk.decodeSequences n modes (bytes.drop shLen) s = (s', .ok seqs) ∧ FseCoupled e' s' ∧
        e'.huf = e.huf ∧ e'.hist = e.hist) := by
  unfold Spec.decodeSequences at hs
  have hhdr := Zstd.Props.C14.seqnum_parse_eq_rfc bytes
  cases hcnt : Spec.parseSeqCount bytes with
  | none => rw [hcnt] at hs; cases hs
  | some p =>
    obtain ⟨n, used⟩ := p
    rw [hcnt] at hs hhdr
    simp only [] at hs hhdr
    by_cases hn : n = 0
    · subst hn
      simp only [if_true] at hs hhdr
      split at hs
      · rename_i hlen
        simp only [Option.some.injEq, Prod.mk.injEq] at hs
        refine ⟨0, none, used, hhdr, fun _ => ⟨hs.1.symm, hs.2.symm, ?_⟩, fun h => absurd rfl h⟩
        simp [List.drop_eq_nil_iff.mpr (by omega : bytes.length ≤ used)]
      · cases hs
    · rw [if_neg hn] at hs hhdr
      cases hdrop : bytes.drop used with
      | nil => rw [hdrop] at hs; cases hs
      | cons m rest =>
        rw [hdrop] at hs
        simp only [] at hs
        have hm : bytes[used]? = some m := by
          have := congrArg (fun l => l[0]?) hdrop
          simpa using this
        rw [hm] at hhdr
        simp only [] at hhdr
        have hrest : bytes.drop (used + 1) = rest := by
          rw [← List.drop_drop, hdrop]; rfl
        have hbm : Bytes (m :: rest) := by rw [← hdrop]; exact Zstd.Proofs.Blk.bytes_drop hb _
        have hm256 : m < 256 := hbm m List.mem_cons_self
        have hbr : Bytes rest := fun x hx => hbm x (List.mem_cons_of_mem _ hx)
        refine ⟨n, some m, used + 1, hhdr, fun h => absurd h hn, fun _ => ?_⟩
        rw [hrest]
        split at hs
        · cases hs
        · cases h1 : Spec.readSeqTable (m / 64) rest 9 35 (Spec.llDefaultLog, Spec.llDefaultDist) e.ll with
          | none => rw [h1] at hs; cases hs
          | some p1 =>
            obtain ⟨llT, u1⟩ := p1
            rw [h1] at hs; simp only [] at hs
            cases h2 : Spec.readSeqTable (m / 16 % 4) (rest.drop u1) 8 31 (Spec.ofDefaultLog, Spec.ofDefaultDist) e.of with
            | none => rw [h2] at hs; cases hs
            | some p2 =>
              obtain ⟨ofT, u2⟩ := p2
              rw [h2] at hs; simp only [] at hs
              cases h3 : Spec.readSeqTable (m / 4 % 4) (rest.drop (u1 + u2)) 9 52 (Spec.mlDefaultLog, Spec.mlDefaultDist) e.ml with
              | none => rw [h3] at hs; cases hs
              | some p3 =>
                obtain ⟨mlT, u3⟩ := p3
                rw [h3] at hs; simp only [] at hs
                obtain ⟨s', hU, cll, cof, cml, hwf', hule⟩ := maybeUpdateFseTables_refines hm256 hbr hc h1 h2 h3
                cases h0 : Spec.backwardStream (rest.drop (u1 + u2 + u3)) with
                | none => rw [h0] at hs; cases hs
                | some bits =>
                  rw [h0] at hs; simp only [] at hs
                  cases i1 : Spec.Fse.initState llT bits with
                  | none => rw [i1] at hs; cases hs
                  | some q1 =>
                    obtain ⟨sLL, b1⟩ := q1
                    rw [i1] at hs; simp only [] at hs
                    cases i2 : Spec.Fse.initState ofT b1 with
                    | none => rw [i2] at hs; cases hs
                    | some q2 =>
                      obtain ⟨sOF, b2⟩ := q2
                      rw [i2] at hs; simp only [] at hs
                      cases i3 : Spec.Fse.initState mlT b2 with
                      | none => rw [i3] at hs; cases hs
                      | some q3 =>
                        obtain ⟨sML, b3⟩ := q3
                        rw [i3] at hs; simp only [] at hs
                        cases hl : Spec.decodeSeqLoop llT ofT mlT n sLL sOF sML b3 [] with
                        | none => rw [hl] at hs; cases hs
                        | some q4 =>
                          obtain ⟨sq, left⟩ := q4
                          rw [hl] at hs; simp only [] at hs
                          split at hs
                          · rename_i hemp
                            simp only [Option.some.injEq, Prod.mk.injEq] at hs
                            obtain ⟨rfl, rfl⟩ := hs
                            have hsrc : (rest.toArray.extract (u1 + u2 + u3) rest.toArray.size)
                                = (rest.drop (u1 + u2 + u3)).toArray := toArray_extract_drop rest _
                            have hstream := decodeSeqStream_refines (s := s') cll cof cml
                              (src := (rest.drop (u1 + u2 + u3)).toArray)
                              (by simpa using Zstd.Proofs.Blk.bytes_drop hbr (u1 + u2 + u3)) hn
                              (by simpa using h0) i1 i2 i3 hl hemp
                            refine ⟨s', ?_, ⟨⟨hwf'.ll, fun T' hT => ?_⟩, ⟨hwf'.of, fun T' hT => ?_⟩,
                              ⟨hwf'.ml, fun T' hT => ?_⟩⟩, rfl, rfl⟩
                            · unfold Blk.decodeSequences
                              simp only [hU]
                              rw [if_neg (by simp; omega), hsrc, hstream]
                            · simp only [Option.some.injEq] at hT; subst hT; exact cll
                            · simp only [Option.some.injEq] at hT; subst hT; exact cof
                            · simp only [Option.some.injEq] at hT; subst hT; exact cml
                          · cases hs

/-! ## literals section -/

/-- Huffman part of the entropy state: the model's table is well formed, and if the Spec has a table
in force the model's is built and has the same cells -/
def HufCoupled (T : Option Spec.Huffman.Table) (t : Huf.DecTable) : Prop :=
  HufWF t ∧ ∀ T', T = some T' → HufBuilt t ∧ t.maxNumBits = T'.maxBits ∧
    t.decode.toList.map (fun e => (e.symbol, e.numBits)) = T'.entries.toList.map (fun e => (e.symbol, e.nbBits))

/-- the whole entropy state -/
structure Coupled (e : Spec.Entropy) (s : Scratch) : Prop where
  huf : HufCoupled e.huf s.huf
  fse : FseCoupled e s.fse
  hist : s.hist = (e.hist.r1, e.hist.r2, e.hist.r3)

/-- a fresh scratch is coupled with the Spec's initial entropy state -/
theorem coupled_fresh : Coupled {} {} :=
  ⟨⟨Or.inl rfl, fun _ h => by cases h⟩, fseCoupled_fresh, rfl⟩

/-- what the body of `decompress_block` needs from the literals stage when the Spec decodes the
literals section of `bytes` to `lits` (consuming `used` bytes, Huffman table `huf'` in force afterwards) -/
def LitStage (bytes : List Nat) (t : Huf.DecTable) (lits : List Nat) (used : Nat)
    (huf' : Option Spec.Huffman.Table) : Prop :=
  ∃ sec hdrLen upper t', Hdr.parseLitHeader Hdr.LitSection.new bytes = .ok (sec, hdrLen) ∧
    sec.regen = lits.length ∧ upperLimit sec = .ok upper ∧ upper ≤ (bytes.drop hdrLen).length ∧
    used = hdrLen + upper ∧
    Huf.decodeLiterals { lsType := litTypeOf sec.ty, regeneratedSize := sec.regen, compressedSize := sec.comp,
                         numStreams := sec.streams } t ((bytes.drop hdrLen).take upper) [] = (t', .ok (lits, upper)) ∧
    HufCoupled huf' t'

/-- **Raw and RLE literals: the code refines the Spec** (every size format) -/
theorem decodeLiterals_refines_raw_rle {bytes : List Nat} (hb : Bytes bytes) {prev huf' : Option Spec.Huffman.Table}
    {lits : List Nat} {used : Nat} {t : Huf.DecTable} (hc : HufCoupled prev t)
    (hs : Spec.decodeLiterals bytes prev = some (lits, used, huf'))
    (hty : ∀ H, Spec.parseLitHeader bytes = some H → H.ltype < 2) :
    LitStage bytes t lits used huf' := by
  unfold Spec.decodeLiterals at hs
  cases hH : Spec.parseLitHeader bytes with
  | none => rw [hH] at hs; cases hs
  | some H =>
    rw [hH] at hs
    simp only [] at hs
    have hlt := hty H hH
    obtain ⟨sec, hp, hsty, hsreg, hcomp, _⟩ := parseLitHeader_refines hb hH
    have hcn := hcomp hlt
    by_cases h0 : H.ltype = 0
    · rw [if_pos h0] at hs
      split at hs
      · cases hs
      · rename_i hlen
        simp only [Option.some.injEq, Prod.mk.injEq] at hs
        obtain ⟨rfl, rfl, rfl⟩ := hs
        have hl : ((bytes.drop H.hdrLen).take H.regen).length = H.regen := by rw [List.length_take]; omega
        refine ⟨sec, H.hdrLen, H.regen, t, hp, by rw [hsreg, hl], ?_, by omega, rfl, ?_, hc⟩
        · simp [upperLimit, hcn, hsty, h0, hsreg]
        · have : litTypeOf sec.ty = .raw := by simp [litTypeOf, hsty, h0]
          simp only [Huf.decodeLiterals, this, hsreg, hl, Nat.lt_irrefl, if_false, List.nil_append, List.take_take, Nat.min_self]
    · have h1 : H.ltype = 1 := by omega
      rw [if_neg h0, if_pos h1] at hs
      cases hbody : bytes.drop H.hdrLen with
      | nil => rw [hbody] at hs; cases hs
      | cons b tl =>
        rw [hbody] at hs
        simp only [Option.some.injEq, Prod.mk.injEq] at hs
        obtain ⟨rfl, rfl, rfl⟩ := hs
        refine ⟨sec, H.hdrLen, 1, t, hp, by rw [hsreg]; simp, ?_, by rw [hbody]; simp, rfl, ?_, hc⟩
        · simp [upperLimit, hcn, hsty, h1]
        · have : litTypeOf sec.ty = .rle := by simp [litTypeOf, hsty, h1]
          rw [hbody]
          simp only [Huf.decodeLiterals, this, hsreg, List.take_succ_cons, List.take_zero, List.nil_append]

/-- the full literals refinement (all four section types); proved for Raw/RLE above and for
Compressed/Treeless in `Proofs/BlkLitFull` (`decodeLiterals_refines_full_proved`) -/
def decodeLiterals_refines_full : Prop :=
  ∀ (bytes : List Nat) (prev huf' : Option Spec.Huffman.Table) (lits : List Nat) (used : Nat) (t : Huf.DecTable),
    Bytes bytes → HufCoupled prev t → Spec.decodeLiterals bytes prev = some (lits, used, huf') →
    LitStage bytes t lits used huf'

/-! ## the block -/

/-- every literal is copied to the output -/
theorem execSequences_size_lits (window : Nat) (dict : Array Nat) :
    ∀ (seqs : List Spec.Seq) (lits : List Nat) (hist : Spec.OffHist) (out out' : Array Nat) (h' : Spec.OffHist),
      Spec.execSequences window dict seqs lits hist out = some (out', h') → out.size + lits.length ≤ out'.size := by
  intro seqs
  induction seqs with
  | nil =>
    intro lits hist out out' h' h
    simp only [Spec.execSequences, Option.some.injEq, Prod.mk.injEq] at h
    rw [← h.1]; simp
  | cons s rest ih =>
    intro lits hist out out' h' h
    unfold Spec.execSequences at h
    split at h
    · cases h
    · rename_i hll
      simp only [] at h
      have hlen : (lits.take s.ll).length + (lits.drop s.ll).length = lits.length := by
        rw [List.length_take, List.length_drop]; omega
      split at h
      · cases h
      · split at h
        · split at h
          · cases h
          · split at h
            · cases h
            · rename_i out2 hm
              have h1 := matchCopy_size _ _ _ _ _ hm
              have h2 := ih _ _ _ _ _ h
              simp only [Array.size_append, List.size_toArray] at h1; omega
        · split at h
          · cases h
          · split at h
            · cases h
            · rename_i out2 hm
              have h1 := matchCopy_size _ _ _ _ _ hm
              have h2 := ih _ _ _ _ _ h
              simp only [Array.size_append, List.size_toArray] at h1; omega

/-- **`decompress_block` refines `Spec.decodeCompressedBlock`**, given the literals stage: whenever
the RFC semantics decodes the block `bytes` in entropy state `e` on top of the output `out`, the code —
in a coupled state, with a buffer that retains enough history — succeeds, appends the same bytes,
leaves the same offset history and again a coupled entropy state. -/
theorem decompressBlock_refines_of_litStage {window : Nat} {dict : Array Nat} {bytes : List Nat}
    {e e' : Spec.Entropy} {out out' : Array Nat} {s : Scratch} {b : DBuf}
    (hb : Bytes bytes) (hc : Coupled e s)
    (hd : b.dict = dict) (hw : b.window = window) (hout : b.hashed ++ b.content = out)
    (hco : CounterOk b) (hre : Retained b)
    (hs : Spec.decodeCompressedBlock window dict bytes e out = some (out', e'))
    (hlit : ∀ lits used huf', Spec.decodeLiterals bytes e.huf = some (lits, used, huf') →
      LitStage bytes s.huf lits used huf') :
    ∃ s' b' lits seqs, Blk.decompressBlock bytes s b = ((s', b', lits, seqs), .ok) ∧ Coupled e' s' ∧
      b'.hashed = b.hashed ∧ b.hashed ++ b'.content = out' ∧ b'.dict = dict ∧ b'.window = window ∧
      CounterOk b' ∧ Retained b' := by
  unfold Spec.decodeCompressedBlock at hs
  cases hL : Spec.decodeLiterals bytes e.huf with
  | none => rw [hL] at hs; cases hs
  | some pL =>
    obtain ⟨lits, used, huf'⟩ := pL
    rw [hL] at hs; simp only [] at hs
    obtain ⟨sec, hdrLen, upper, t', hp, hreg, hup, hule, hused, hdl, hhc⟩ := hlit lits used huf' hL
    cases hS : Spec.decodeSequences (bytes.drop used) { e with huf := huf' } with
    | none => rw [hS] at hs; cases hs
    | some pS =>
      obtain ⟨seqs, e1⟩ := pS
      rw [hS] at hs; simp only [] at hs
      cases hX : Spec.execSequences window dict seqs lits e1.hist out with
      | none => rw [hX] at hs; cases hs
      | some pX =>
        obtain ⟨out2, h2⟩ := pX
        rw [hX] at hs; simp only [] at hs
        split at hs
        · cases hs
        · rename_i hgrow
          simp only [Option.some.injEq, Prod.mk.injEq] at hs
          obtain ⟨rfl, rfl⟩ := hs
          have hsz := execSequences_size_lits window dict _ _ _ _ _ _ hX
          have hbm : Spec.blockMaxSize = Gen.maxBlockSize := rfl
          have hgrow' : out2.size - out.size ≤ Gen.maxBlockSize := by
            have : min window Spec.blockMaxSize ≤ Spec.blockMaxSize := Nat.min_le_right _ _
            omega
          have hfc : FseCoupled { e with huf := huf' } s.fse := ⟨hc.fse.ll, hc.fse.of, hc.fse.ml⟩
          obtain ⟨n, modes, shLen, hsh, hn0, hn1⟩ :=
            decodeSequences_refines (Zstd.Proofs.Blk.bytes_drop hb used) hfc hS
          have hdrop : (bytes.drop hdrLen).drop upper = bytes.drop used := by
            rw [List.drop_drop, hused]
          unfold Blk.decompressBlock
          rw [hp]
          simp only []
          rw [if_neg (by omega), hup]
          simp only []
          unfold Blk.decompressBody
          rw [if_neg (by omega)]
          simp only [hdl]
          rw [if_neg (by omega), if_neg (by omega), hdrop, hsh]
          simp only []
          by_cases hn : n = 0
          · obtain ⟨hse, hee, hemp⟩ := hn0 hn
            subst hse
            rw [if_neg (by omega)]
            simp only [hemp, Bool.not_true, Bool.false_eq_true, if_false]
            simp only [Spec.execSequences, Option.some.injEq, Prod.mk.injEq] at hX
            obtain ⟨hX1, hX2⟩ := hX
            refine ⟨_, _, _, _, rfl, ?_, rfl, ?_, hd, hw, counterOk_push _ _ hco,
              retained_grow b _ rfl rfl (by simp [DBuf.push]) hre⟩
            · rw [hee]
              exact ⟨hhc, ⟨hfc.ll, hfc.of, hfc.ml⟩, by rw [← hX2, hee]; exact hc.hist⟩
            · rw [← hX1, ← hout]; simp [DBuf.push]
          · obtain ⟨fse', hds, hfc', hhuf, hhist⟩ := hn1 hn
            rw [if_pos hn]
            simp only [hds]
            have hov : ∀ q ∈ seqs, q.ov ≥ 1 := by
              have := (decodeSequences_ok n modes (Zstd.Proofs.Blk.bytes_drop (Zstd.Proofs.Blk.bytes_drop hb used) shLen)
                ⟨hc.fse.ll.1, hc.fse.of.1, hc.fse.ml.1⟩).2 fse' seqs hds
              exact this.2
            obtain ⟨b', hex, hh1, hh2, hh3, hh4, hh5, hh6⟩ :=
              executeSequences_refines window dict seqs lits e1.hist out out2 h2 0 b hX hov hd hw hout hco hre
                (by omega)
            have hhist' : s.hist = (e1.hist.r1, e1.hist.r2, e1.hist.r3) := by rw [hhist]; exact hc.hist
            rw [hhist', hex]
            refine ⟨_, b', _, _, rfl, ⟨?_, ⟨hfc'.ll, hfc'.of, hfc'.ml⟩, rfl⟩, hh1, hh2, hh3, hh4, hh5, hh6⟩
            simp only [hhuf]; exact hhc

/-- the full block theorem: no hypothesis on the literals stage -/
def decompressBlock_refines_full : Prop :=
  ∀ (window : Nat) (dict : Array Nat) (bytes : List Nat) (e e' : Spec.Entropy) (out out' : Array Nat)
    (s : Scratch) (b : DBuf),
    Bytes bytes → Coupled e s → b.dict = dict → b.window = window → b.hashed ++ b.content = out →
    CounterOk b → Retained b →
    Spec.decodeCompressedBlock window dict bytes e out = some (out', e') →
    ∃ s' b' lits seqs, Blk.decompressBlock bytes s b = ((s', b', lits, seqs), .ok) ∧ Coupled e' s' ∧
      b'.hashed = b.hashed ∧ b.hashed ++ b'.content = out' ∧ b'.dict = dict ∧ b'.window = window ∧
      CounterOk b' ∧ Retained b'

/-- the only missing piece is the Huffman-coded literals stage -/
theorem decompressBlock_refines_full_of_literals (h : decodeLiterals_refines_full) : decompressBlock_refines_full := by
  intro window dict bytes e e' out out' s b hb hc hd hw hout hco hre hs
  exact decompressBlock_refines_of_litStage hb hc hd hw hout hco hre hs
    (fun lits used huf' hL => h bytes e.huf huf' lits used s.huf hb hc.huf hL)

/-- **blocks with Raw or RLE literals: unconditional** -/
theorem decompressBlock_refines_raw_rle {window : Nat} {dict : Array Nat} {bytes : List Nat}
    {e e' : Spec.Entropy} {out out' : Array Nat} {s : Scratch} {b : DBuf}
    (hb : Bytes bytes) (hc : Coupled e s)
    (hd : b.dict = dict) (hw : b.window = window) (hout : b.hashed ++ b.content = out)
    (hco : CounterOk b) (hre : Retained b)
    (hs : Spec.decodeCompressedBlock window dict bytes e out = some (out', e'))
    (hty : ∀ H, Spec.parseLitHeader bytes = some H → H.ltype < 2) :
    ∃ s' b' lits seqs, Blk.decompressBlock bytes s b = ((s', b', lits, seqs), .ok) ∧ Coupled e' s' ∧
      b'.hashed = b.hashed ∧ b.hashed ++ b'.content = out' ∧ b'.dict = dict ∧ b'.window = window ∧
      CounterOk b' ∧ Retained b' :=
  decompressBlock_refines_of_litStage hb hc hd hw hout hco hre hs
    (fun _ _ _ hL => decodeLiterals_refines_raw_rle hb hc.huf hL hty)

end Zstd.Proofs.Blk
