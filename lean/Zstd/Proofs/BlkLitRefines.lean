import Zstd.Proofs.BlockNoFault
import Zstd.Proofs.Headers
/-
C01 at block level, literals section: the two RFC transcriptions of the literals header agree
(`Spec.parseLitHeader` of Spec/Block.lean, used by `Spec.decodeLiterals`, and `Spec.Hdr.parseLitHeader`
of Spec/Headers.lean, which C14 proves equal to the code's parser), hence the model's
`Hdr.parseLitHeader` refines the Spec's; Raw and RLE literals are decoded to the Spec's bytes.
-/
namespace Zstd.Proofs.Blk
open Zstd Zstd.Model Zstd.Model.Blk Zstd.Model.Hdr Zstd.Proofs.BitIO Zstd.Proofs.Headers

/-- the Spec/Block view of a Spec/Headers literals header -/
def litConv (h : Spec.Hdr.LitHeader) : Spec.LitHeader :=
  ⟨h.ltype, h.regen, h.comp.getD 0, h.streams.getD 0, h.size⟩

/-- the two transcriptions of RFC 8878 §3.1.1.3.1.1 agree on every byte string -/
theorem specLitHeader_agree (bs : List Nat) (hb : Bytes bs) :
    Spec.parseLitHeader bs = (Spec.Hdr.parseLitHeader bs).map litConv := by
  cases bs with
  | nil => rfl
  | cons b0 tl =>
    have h0 : b0 < 256 := hb b0 List.mem_cons_self
    have e0 : byteAt (b0 :: tl) 0 = b0 := by simp [byteAt]
    have r1 := byteAt_lt (b0 :: tl) hb 1
    have r2 := byteAt_lt (b0 :: tl) hb 2
    have r3 := byteAt_lt (b0 :: tl) hb 3
    have r4 := byteAt_lt (b0 :: tl) hb 4
    generalize hr1 : byteAt (b0 :: tl) 1 = c1 at r1
    generalize hr2 : byteAt (b0 :: tl) 2 = c2 at r2
    generalize hr3 : byteAt (b0 :: tl) 3 = c3 at r3
    generalize hr4 : byteAt (b0 :: tl) 4 = c4 at r4
    simp only [Spec.parseLitHeader, Spec.Hdr.parseLitHeader]
    by_cases ht : b0 % 4 < 2
    · simp only [ht, if_true]
      by_cases hs0 : b0 / 4 % 4 % 2 = 0
      · have hn : Spec.Hdr.litHeaderSize b0 = 1 := by simp [Spec.Hdr.litHeaderSize, ht, hs0]
        rw [hn, if_pos hs0, if_neg (by simp), leNat_take1 _ (by simp), e0]
        simp [litConv, Spec.Hdr.litHeaderOfValue, ht, hs0]
        omega
      · rw [if_neg hs0]
        by_cases hs1 : b0 / 4 % 4 = 1
        · have hn : Spec.Hdr.litHeaderSize b0 = 2 := by simp [Spec.Hdr.litHeaderSize, ht, hs1]
          rw [hn, if_pos hs1]
          by_cases hl : (b0 :: tl).length < 2
          · rw [if_pos hl, if_pos hl]; rfl
          · rw [if_neg hl, if_neg hl, leNat_take2 _ (by omega), e0, hr1]
            have a1 : (b0 + 256 * c1) % 4 = b0 % 4 := by omega
            have a2 : (b0 + 256 * c1) / 4 % 4 = 1 := by omega
            simp [litConv, Spec.Hdr.litHeaderOfValue, a1, a2, ht]
            omega
        · have hn : Spec.Hdr.litHeaderSize b0 = 3 := by
            simp only [Spec.Hdr.litHeaderSize, ht, hs0, hs1, if_true, if_false]
          rw [hn, if_neg hs1]
          by_cases hl : (b0 :: tl).length < 3
          · rw [if_pos hl, if_pos hl]; rfl
          · rw [if_neg hl, if_neg hl, leNat_take3 _ (by omega), e0, hr1, hr2]
            have a1 : (b0 + 256 * c1 + 65536 * c2) % 4 = b0 % 4 := by omega
            have a2 : (b0 + 256 * c1 + 65536 * c2) / 4 % 4 = 3 := by omega
            simp [litConv, Spec.Hdr.litHeaderOfValue, a1, a2, ht]
            omega
    · simp only [ht, if_false]
      by_cases hs0 : b0 / 4 % 4 = 0
      · have hn : Spec.Hdr.litHeaderSize b0 = 3 := by simp [Spec.Hdr.litHeaderSize, ht, hs0]
        simp only [hn, hs0, if_true]
        by_cases hl : (b0 :: tl).length < 3
        · rw [if_pos hl, if_pos hl]; rfl
        · rw [if_neg hl, if_neg hl, leNat_take3 _ (by omega), e0, hr1, hr2]
          have a1 : (b0 + 256 * c1 + 65536 * c2) % 4 = b0 % 4 := by omega
          have a2 : (b0 + 256 * c1 + 65536 * c2) / 4 % 4 = 0 := by omega
          simp [litConv, Spec.Hdr.litHeaderOfValue, a1, a2, ht]
          omega
      · by_cases hs1 : b0 / 4 % 4 = 1
        · have hn : Spec.Hdr.litHeaderSize b0 = 3 := by simp [Spec.Hdr.litHeaderSize, ht, hs1]
          simp only [hn, hs1, if_true, if_false, show ¬ (1 = 0) by omega]
          by_cases hl : (b0 :: tl).length < 3
          · rw [if_pos hl, if_pos hl]; rfl
          · rw [if_neg hl, if_neg hl, leNat_take3 _ (by omega), e0, hr1, hr2]
            have a1 : (b0 + 256 * c1 + 65536 * c2) % 4 = b0 % 4 := by omega
            have a2 : (b0 + 256 * c1 + 65536 * c2) / 4 % 4 = 1 := by omega
            simp [litConv, Spec.Hdr.litHeaderOfValue, a1, a2, ht]
            omega
        · by_cases hs2 : b0 / 4 % 4 = 2
          · have hn : Spec.Hdr.litHeaderSize b0 = 4 := by simp [Spec.Hdr.litHeaderSize, ht, hs2]
            simp only [hn, hs2, if_true, if_false, show ¬ (2 = 0) by omega, show ¬ (2 = 1) by omega]
            by_cases hl : (b0 :: tl).length < 4
            · rw [if_pos hl, if_pos hl]; rfl
            · rw [if_neg hl, if_neg hl, leNat_take4 _ (by omega), e0, hr1, hr2, hr3]
              have a1 : (b0 + 256 * c1 + 65536 * c2 + 16777216 * c3) % 4 = b0 % 4 := by omega
              have a2 : (b0 + 256 * c1 + 65536 * c2 + 16777216 * c3) / 4 % 4 = 2 := by omega
              simp [litConv, Spec.Hdr.litHeaderOfValue, a1, a2, ht]
              omega
          · have hs3 : b0 / 4 % 4 = 3 := by omega
            have hn : Spec.Hdr.litHeaderSize b0 = 5 := by simp [Spec.Hdr.litHeaderSize, ht, hs3]
            simp only [hn, hs3, if_false, show ¬ (3 = 0) by omega, show ¬ (3 = 1) by omega, show ¬ (3 = 2) by omega]
            by_cases hl : (b0 :: tl).length < 5
            · rw [if_pos hl, if_pos hl]; rfl
            · rw [if_neg hl, if_neg hl, leNat_take5 _ (by omega), e0, hr1, hr2, hr3, hr4]
              have a1 : (b0 + 256 * c1 + 65536 * c2 + 16777216 * c3 + 4294967296 * c4) % 4 = b0 % 4 := by omega
              have a2 : (b0 + 256 * c1 + 65536 * c2 + 16777216 * c3 + 4294967296 * c4) / 4 % 4 = 3 := by omega
              simp [litConv, Spec.Hdr.litHeaderOfValue, a1, a2, ht]
              omega

/-- Raw/RLE headers carry no sizes for Huffman coding, Compressed/Treeless headers carry both -/
theorem specHdr_shape {bs : List Nat} {h : Spec.Hdr.LitHeader} (hh : Spec.Hdr.parseLitHeader bs = some h) :
    (h.ltype < 2 → h.comp = none) ∧ (¬ h.ltype < 2 → ∃ c st, h.comp = some c ∧ h.streams = some st) := by
  unfold Spec.Hdr.parseLitHeader at hh
  cases bs with
  | nil => cases hh
  | cons b0 tl =>
    simp only [] at hh
    split at hh
    · cases hh
    · simp only [Option.some.injEq] at hh
      subst hh
      unfold Spec.Hdr.litHeaderOfValue
      simp only []
      split
      · rename_i ht
        repeat' split
        all_goals exact ⟨fun _ => rfl, fun h => absurd ht h⟩
      · rename_i ht
        repeat' split
        all_goals exact ⟨fun h => absurd h ht, fun _ => ⟨_, _, rfl, rfl⟩⟩

/-- **the code's literals-header parser refines the Spec's** (Spec/Block.lean's transcription) -/
theorem parseLitHeader_refines {bs : List Nat} (hb : Bytes bs) {H : Spec.LitHeader}
    (h : Spec.parseLitHeader bs = some H) :
    ∃ sec, Hdr.parseLitHeader LitSection.new bs = .ok (sec, H.hdrLen) ∧ sec.ty = H.ltype ∧ sec.regen = H.regen ∧
      (H.ltype < 2 → sec.comp = none) ∧
      (¬ H.ltype < 2 → sec.comp = some H.comp ∧ sec.streams = some H.streams) := by
  rw [specLitHeader_agree bs hb] at h
  cases hh : Spec.Hdr.parseLitHeader bs with
  | none => rw [hh] at h; cases h
  | some h' =>
    rw [hh] at h
    simp only [Option.map_some, Option.some.injEq] at h
    subst h
    obtain ⟨s1, s2⟩ := specHdr_shape hh
    have hp := Zstd.Props.C14.literalsHeader_parse_eq_rfc LitSection.new bs hb
    cases bs with
    | nil => cases hh
    | cons b0 tl =>
      simp only [hh] at hp
      refine ⟨_, hp, rfl, rfl, ?_, ?_⟩
      · intro hlt; exact s1 hlt
      · intro hge
        obtain ⟨c, st, hc, hst⟩ := s2 hge
        simp only [litConv, hc, hst, Option.getD_some] at hge ⊢
        simp [hge]

end Zstd.Proofs.Blk
