import Zstd.Model.Fse
import Zstd.Spec.Fse
import Zstd.Proofs.FseFin
/-
FSE decoding table: definitions shared by the refinement proofs, and the list combinatorics of a
normalised distribution (slot list, "less than one" list, their lengths and symbol counts).
Core Lean only.
-/
namespace Zstd.Proofs.FseDecTable
open Zstd Zstd.Model.Fse Zstd.Proofs.FseFin

/-- probability mass of one entry -/
def massF (p : Int) : Nat := if p = -1 then 1 else if p > 0 then p.toNat else 0

/-- probability mass, the expression `Spec.Fse.buildTable` uses -/
def mass (probs : List Int) : Nat :=
  probs.foldl (fun (a : Nat) p => a + (if p = -1 then 1 else if p > 0 then p.toNat else 0)) 0

/-- a valid normalised distribution for accuracy log `al` (what the format allows) -/
def ValidDist (al : Nat) (probs : List Int) : Prop :=
  5 ≤ al ∧ al ≤ 9 ∧ probs.length ≤ 256 ∧ (∀ p ∈ probs, -1 ≤ p) ∧ mass probs = 2 ^ al

def toSpecEntry (e : Model.Fse.DEntry) : Spec.Fse.Entry :=
  { symbol := e.symbol, nbBits := e.numBits, baseline := e.baseLine }

/-- number of states of symbol `s` -/
def nStates (probs : List Int) (s : Nat) : Nat :=
  let p := probs.getD s 0; if p = -1 then 1 else p.toNat

/-- rank of cell `i` among the cells that carry the same symbol -/
def rank (dec : Array DEntry) (i : Nat) : Nat :=
  ((List.range i).filter fun j => (dec.getD j {}).symbol = (dec.getD i {}).symbol).length

/-! ## slot lists -/

/-- the cells one `(probability, symbol)` pair receives in the spreading loop -/
def slotF (ps : Int × Nat) : List Nat := if ps.1 > 0 then List.replicate ps.1.toNat (ps.2 % 256) else []

/-- the cell one `(probability, symbol)` pair receives in the "less than one" loop -/
def negF (ps : Int × Nat) : List Nat := if ps.1 = -1 then [ps.2 % 256] else []

/-- symbols in the order in which the spreading loop hands out cells -/
def slotSyms (ps : List (Int × Nat)) : List Nat := ps.flatMap slotF

/-- "less than one" symbols in the order in which the first loop places them (from the top down) -/
def negSyms (ps : List (Int × Nat)) : List Nat := ps.flatMap negF

theorem slotSyms_cons (x : Int × Nat) (ps : List (Int × Nat)) : slotSyms (x :: ps) = slotF x ++ slotSyms ps := by
  simp [slotSyms]

theorem negSyms_cons (x : Int × Nat) (ps : List (Int × Nat)) : negSyms (x :: ps) = negF x ++ negSyms ps := by
  simp [negSyms]

theorem mass_foldl (probs : List Int) : ∀ (k a : Nat),
    probs.foldl (fun (a : Nat) p => a + (if p = -1 then 1 else if p > 0 then p.toNat else 0)) a
      = a + ((slotSyms (probs.zipIdx k)).length + (negSyms (probs.zipIdx k)).length) := by
  induction probs with
  | nil => intro k a; simp [slotSyms, negSyms]
  | cons p rest ih =>
    intro k a
    rw [List.foldl_cons, ih (k + 1), List.zipIdx_cons, slotSyms_cons, negSyms_cons]
    simp only [List.length_append, slotF, negF]
    by_cases h1 : p = -1
    · subst h1; simp; omega
    · by_cases h2 : p > 0
      · simp [h1, h2]; omega
      · simp [h1, h2]

theorem mass_eq (probs : List Int) :
    mass probs = (slotSyms probs.zipIdx).length + (negSyms probs.zipIdx).length := by
  unfold mass; rw [mass_foldl probs 0 0]; omega

theorem count_slotSyms (probs : List Int) : ∀ (k s : Nat), k + probs.length ≤ 256 →
    (slotSyms (probs.zipIdx k)).count s
      = if k ≤ s then (if probs.getD (s - k) 0 > 0 then (probs.getD (s - k) 0).toNat else 0) else 0 := by
  induction probs with
  | nil => intro k s _; simp [slotSyms]
  | cons p rest ih =>
    intro k s hk
    simp only [List.length_cons] at hk
    rw [List.zipIdx_cons, slotSyms_cons, List.count_append, ih (k + 1) s (by omega)]
    have hkm : k % 256 = k := Nat.mod_eq_of_lt (by omega)
    simp only [slotF, hkm]
    by_cases hs : s = k
    · subst hs
      simp only [Nat.sub_self, List.getD_cons_zero, Nat.le_refl, if_true]
      have : ¬ (s + 1 ≤ s) := by omega
      simp only [this, if_false]
      by_cases hp : p > 0
      · simp [hp]
      · simp [hp]
    · by_cases hlt : k < s
      · have h1 : k + 1 ≤ s := hlt
        have h2 : k ≤ s := by omega
        have h3 : s - k = (s - (k + 1)) + 1 := by omega
        simp only [h1, h2, if_true]
        rw [h3, List.getD_cons_succ]
        have : List.count s (if p > 0 then List.replicate p.toNat k else []) = 0 := by
          split
          · rw [List.count_replicate]; simp; omega
          · simp
        omega
      · have h1 : ¬ (k + 1 ≤ s) := by omega
        have h2 : ¬ (k ≤ s) := by omega
        simp only [h1, h2, if_false]
        have : List.count s (if p > 0 then List.replicate p.toNat k else []) = 0 := by
          split
          · rw [List.count_replicate]; simp; omega
          · simp
        omega

theorem count_negSyms (probs : List Int) : ∀ (k s : Nat), k + probs.length ≤ 256 →
    (negSyms (probs.zipIdx k)).count s
      = if k ≤ s then (if probs.getD (s - k) 0 = -1 then 1 else 0) else 0 := by
  induction probs with
  | nil => intro k s _; simp [negSyms]
  | cons p rest ih =>
    intro k s hk
    simp only [List.length_cons] at hk
    rw [List.zipIdx_cons, negSyms_cons, List.count_append, ih (k + 1) s (by omega)]
    have hkm : k % 256 = k := Nat.mod_eq_of_lt (by omega)
    simp only [negF, hkm]
    by_cases hs : s = k
    · subst hs
      simp only [Nat.sub_self, List.getD_cons_zero, Nat.le_refl, if_true]
      have : ¬ (s + 1 ≤ s) := by omega
      simp only [this, if_false]
      by_cases hp : p = -1
      · simp [hp]
      · simp [hp]
    · by_cases hlt : k < s
      · have h1 : k + 1 ≤ s := hlt
        have h2 : k ≤ s := by omega
        have h3 : s - k = (s - (k + 1)) + 1 := by omega
        simp only [h1, h2, if_true]
        rw [h3, List.getD_cons_succ]
        have : List.count s (if p = -1 then [k] else []) = 0 := by
          split
          · simp [List.count_cons]; omega
          · simp
        omega
      · have h1 : ¬ (k + 1 ≤ s) := by omega
        have h2 : ¬ (k ≤ s) := by omega
        simp only [h1, h2, if_false]
        have : List.count s (if p = -1 then [k] else []) = 0 := by
          split
          · simp [List.count_cons]; omega
          · simp
        omega

/-- a duplicate-free list of `n` numbers below `n` is a permutation of `range n` -/
theorem perm_range_of_nodup {l : List Nat} {n : Nat} (hn : l.Nodup) (hlen : l.length = n)
    (hlt : ∀ p ∈ l, p < n) : l.Perm (List.range n) := by
  rw [List.perm_ext_iff_of_nodup hn List.nodup_range]
  intro a
  constructor
  · intro ha; exact List.mem_range.mpr (hlt a ha)
  · intro ha
    apply Classical.byContradiction
    intro hna
    have hnd : (a :: l).Nodup := List.nodup_cons.mpr ⟨hna, hn⟩
    have hsub : (a :: l) ⊆ List.range n := by
      intro x hx
      rw [List.mem_cons] at hx
      rcases hx with rfl | hx
      · exact ha
      · exact List.mem_range.mpr (hlt x hx)
    have := List.Nodup.length_le_of_subset hnd hsub
    simp only [List.length_cons, List.length_range] at this
    omega

end Zstd.Proofs.FseDecTable
