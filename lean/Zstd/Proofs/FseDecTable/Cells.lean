import Zstd.Proofs.FseDecTable.Model
/-
Phases 1 and 2 of the model on a valid distribution: both succeed, the spreading loop ends at
position 0, and the symbols of the cells are a rearrangement of the slot list (below `neg`) followed by
the reversed "less than one" list.
-/
namespace Zstd.Proofs.FseDecTable
open Zstd Zstd.Model.Fse Zstd.Proofs.FseFin

def negsOf (probs : List Int) : List Nat := negSyms probs.zipIdx
def slotsOf (probs : List Int) : List Nat := slotSyms probs.zipIdx
/-- first cell of the "less than one" zone -/
def negIdx (al : Nat) (probs : List Int) : Nat := 2 ^ al - (negsOf probs).length

theorem count_take_lt {l : List Nat} {i : Nat} (h : i < l.length) :
    (l.take i).count (l.getD i 0) < l.count (l.getD i 0) := by
  have h1 : l.getD i 0 = l[i] := by simp [List.getD_eq_getElem?_getD, h]
  have h3 : l.drop i = l.getD i 0 :: l.drop (i + 1) := by rw [h1]; exact List.drop_eq_getElem_cons h
  generalize l.getD i 0 = a at *
  have h2 : l.count a = (l.take i ++ l.drop i).count a := by rw [List.take_append_drop]
  rw [h2, h3, List.count_append, List.count_cons_self]
  omega

theorem slots_length {al : Nat} {probs : List Int} (hv : ValidDist al probs) :
    (slotsOf probs).length = negIdx al probs ∧ (negsOf probs).length ≤ 2 ^ al := by
  obtain ⟨_, _, _, _, hmass⟩ := hv
  have hm := mass_eq probs
  unfold negIdx negsOf slotsOf
  omega

theorem cells_exist (al : Nat) (probs : List Int) (hv : ValidDist al probs) :
    ∃ (dec1 dec2 : Array DEntry) (syms : List Nat),
      placeNegatives al probs.zipIdx (Array.replicate (2 ^ al) {}) (2 ^ al) = .ok (dec1, negIdx al probs) ∧
      spreadAll (2 ^ al) (negIdx al probs) probs.zipIdx dec1 0 = .ok (dec2, 0) ∧
      dec2.size = 2 ^ al ∧ syms.length = 2 ^ al ∧
      (∀ i, i < 2 ^ al → (dec2.getD i {}).symbol = syms.getD i 0) ∧
      (∀ s, syms.count s = (slotsOf probs).count s + (negsOf probs).count s) ∧
      (∀ i, negIdx al probs ≤ i → i < 2 ^ al → dec2[i]? = some (negEntry al (syms.getD i 0))) ∧
      (∀ i, i < negIdx al probs → syms.getD i 0 ∈ slotsOf probs) ∧
      (∀ i, negIdx al probs ≤ i → i < 2 ^ al → syms.getD i 0 ∈ negsOf probs) := by
  obtain ⟨hsl, hnl⟩ := slots_length hv
  obtain ⟨h5, h9, hlen, hge, hmass⟩ := hv
  have hnegle : negIdx al probs ≤ 2 ^ al := by unfold negIdx; omega
  have hsplit : 2 ^ al = negIdx al probs + (negsOf probs).length := by unfold negIdx; omega
  -- phase 1
  obtain ⟨dec1, hp1, hs1, hout1, hin1⟩ := placeNegatives_ok al probs.zipIdx (Array.replicate (2 ^ al) {}) (2 ^ al)
    hnl (by simp)
  have hs1' : dec1.size = 2 ^ al := by rw [hs1]; simp
  have hin1' : ∀ j, j < (negsOf probs).length →
      dec1[2 ^ al - 1 - j]? = ((negsOf probs)[j]?).map (negEntry al) := hin1
  -- phase 2
  obtain ⟨l, hw, hll, hnd, hlt⟩ := walk_perm h5 h9 hnegle
  have hp2 := spreadAll_walk probs.zipIdx dec1 0 l 0 (by rw [show slotSyms probs.zipIdx = slotsOf probs from rfl, hsl]; exact hw)
    (fun p hp => by have := hlt p hp; omega)
  obtain ⟨hout2, hin2⟩ := writeSyms_spec l (slotsOf probs) dec1 hnd (by rw [hll, hsl])
  have hs2 : (writeSyms dec1 l (slotsOf probs)).size = 2 ^ al := by rw [writeSyms_size, hs1']
  rw [show slotSyms probs.zipIdx = slotsOf probs from rfl] at hp2
  generalize writeSyms dec1 l (slotsOf probs) = dec2 at *
  -- the symbol of cell i
  have hF1 : ∀ j (h : j < l.length), (dec2.getD l[j] {}).symbol = (slotsOf probs).getD j 0 := by
    intro j h
    have hlj := hlt l[j] (List.getElem_mem h)
    have := hin2 j h
    rw [Array.getElem?_eq_getElem (by omega : l[j] < dec1.size)] at this
    rw [Array.getD_eq_getD_getElem?, this]
    rfl
  have hF2 : ∀ i, i < (negsOf probs).length →
      dec2[negIdx al probs + i]? = some (negEntry al ((negsOf probs).getD ((negsOf probs).length - 1 - i) 0)) := by
    intro i hi
    have hnot : negIdx al probs + i ∉ l := by
      intro hmem
      have := hlt _ hmem
      omega
    rw [hout2 _ hnot]
    have := hin1' ((negsOf probs).length - 1 - i) (by omega)
    have hidx : 2 ^ al - 1 - ((negsOf probs).length - 1 - i) = negIdx al probs + i := by
      unfold negIdx; omega
    rw [hidx] at this
    rw [this]
    rw [List.getD_eq_getElem?_getD, List.getElem?_eq_getElem (by omega)]
    rfl
  refine ⟨dec1, dec2, (List.range (2 ^ al)).map (fun i => (dec2.getD i {}).symbol), ?_, ?_, hs2, by simp, ?_, ?_, ?_, ?_, ?_⟩
  · rw [hp1]; rfl
  · exact hp2
  · intro i hi
    simp [List.getD_eq_getElem?_getD, hi]
  · intro s
    have hmapl : l.map (fun i => (dec2.getD i {}).symbol) = slotsOf probs := by
      apply List.ext_getElem
      · rw [List.length_map, hll, hsl]
      · intro j h1 h2
        rw [List.getElem_map, hF1 j (by simpa using h1), List.getD_eq_getElem?_getD,
          List.getElem?_eq_getElem h2]
        rfl
    have hperm := (perm_range_of_nodup hnd hll hlt).map (fun i => (dec2.getD i {}).symbol)
    rw [hmapl] at hperm
    have hneg : ((List.range (negsOf probs).length).map (fun x => negIdx al probs + x)).map
        (fun i => (dec2.getD i {}).symbol) = (negsOf probs).reverse := by
      apply List.ext_getElem
      · simp
      · intro j h1 h2
        have hj : j < (negsOf probs).length := by simpa using h2
        simp only [List.getElem_map, List.getElem_range]
        rw [Array.getD_eq_getD_getElem?, hF2 j hj, List.getElem_reverse]
        rw [List.getD_eq_getElem?_getD, List.getElem?_eq_getElem (by omega)]
        rfl
    rw [hsplit, List.range_add, List.map_append, List.count_append, hneg, List.count_reverse,
      hperm.symm.count_eq]
  · intro i h1 h2
    have hi : i = negIdx al probs + (i - negIdx al probs) := by omega
    have hlt' : i - negIdx al probs < (negsOf probs).length := by omega
    have hsym : ((List.range (2 ^ al)).map (fun i => (dec2.getD i {}).symbol)).getD i 0 = (dec2.getD i {}).symbol := by
      simp [List.getD_eq_getElem?_getD, h2]
    rw [hsym]
    have := hF2 _ hlt'
    rw [← hi] at this
    rw [Array.getD_eq_getD_getElem?, this]
    rfl
  · intro i hi
    have hsym : ((List.range (2 ^ al)).map (fun i => (dec2.getD i {}).symbol)).getD i 0 = (dec2.getD i {}).symbol := by
      simp [List.getD_eq_getElem?_getD, show i < 2 ^ al by omega]
    rw [hsym]
    have hperm := (perm_range_of_nodup hnd hll hlt).map (fun i => (dec2.getD i {}).symbol)
    have hmem : (dec2.getD i {}).symbol ∈ (List.range (negIdx al probs)).map (fun i => (dec2.getD i {}).symbol) :=
      List.mem_map.mpr ⟨i, List.mem_range.mpr hi, rfl⟩
    have hmem2 := hperm.symm.subset hmem
    obtain ⟨q, hq, hqe⟩ := List.mem_map.mp hmem2
    obtain ⟨j, hj, rfl⟩ := List.getElem_of_mem hq
    rw [← hqe, hF1 j hj, List.getD_eq_getElem?_getD, List.getElem?_eq_getElem (by omega)]
    exact List.getElem_mem _
  · intro i h1 h2
    have hi : i = negIdx al probs + (i - negIdx al probs) := by omega
    have hlt' : i - negIdx al probs < (negsOf probs).length := by omega
    have hsym : ((List.range (2 ^ al)).map (fun i => (dec2.getD i {}).symbol)).getD i 0 = (dec2.getD i {}).symbol := by
      simp [List.getD_eq_getElem?_getD, h2]
    rw [hsym]
    have := hF2 _ hlt'
    rw [← hi] at this
    rw [Array.getD_eq_getD_getElem?, this, List.getD_eq_getElem?_getD, List.getElem?_eq_getElem (by omega)]
    exact List.getElem_mem _

end Zstd.Proofs.FseDecTable
