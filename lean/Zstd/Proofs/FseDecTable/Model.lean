import Zstd.Proofs.FseDecTable.Defs
/-
The three loops of the model's `buildDecodingTableCore`, each with a success + characterisation lemma.
-/
namespace Zstd.Proofs.FseDecTable
open Zstd Zstd.Model.Fse Zstd.Proofs.FseFin

/-! ## phase 1: `placeNegatives` -/

def negEntry (al s : Nat) : DEntry := { symbol := s, baseLine := 0, numBits := al }

theorem placeNegatives_ok (al : Nat) : ∀ (ps : List (Int × Nat)) (dec : Array DEntry) (neg : Nat),
    (negSyms ps).length ≤ neg → neg ≤ dec.size →
    ∃ dec1, placeNegatives al ps dec neg = .ok (dec1, neg - (negSyms ps).length) ∧ dec1.size = dec.size ∧
      (∀ q, q < neg - (negSyms ps).length ∨ neg ≤ q → dec1[q]? = dec[q]?) ∧
      (∀ j, j < (negSyms ps).length → dec1[neg - 1 - j]? = ((negSyms ps)[j]?).map (negEntry al)) := by
  intro ps
  induction ps with
  | nil =>
    intro dec neg _ _
    exact ⟨dec, by simp [placeNegatives, negSyms], rfl, fun _ _ => rfl, by simp [negSyms]⟩
  | cons x rest ih =>
    obtain ⟨p, s⟩ := x
    intro dec neg hlen hsz
    rw [negSyms_cons] at hlen ⊢
    by_cases hp : p = -1
    · have hnf : negF (p, s) = [s % 256] := by simp [negF, hp]
      rw [hnf] at hlen ⊢
      simp only [List.length_append, List.length_cons, List.length_nil] at hlen ⊢
      have h0 : ¬ (neg = 0) := by omega
      have h1 : neg - 1 < dec.size := by omega
      obtain ⟨dec1, he, hs, hout, hin⟩ := ih (dec.set! (neg - 1) { symbol := s % 256, baseLine := 0, numBits := al })
        (neg - 1) (by omega) (by simp only [Array.set!_eq_setIfInBounds, Array.size_setIfInBounds]; omega)
      refine ⟨dec1, ?_, ?_, ?_, ?_⟩
      · simp only [placeNegatives, hp, if_true, h0, if_false, h1]
        rw [he]
        have : neg - 1 - (negSyms rest).length = neg - (0 + 1 + (negSyms rest).length) := by omega
        rw [this]
      · rw [hs]; simp only [Array.set!_eq_setIfInBounds, Array.size_setIfInBounds]
      · intro q hq
        rw [hout q (by omega)]
        simp only [Array.set!_eq_setIfInBounds, Array.getElem?_setIfInBounds]
        have : ¬ (neg - 1 = q) := by omega
        simp only [this, if_false]
      · intro j hj
        cases j with
        | zero =>
          rw [Nat.sub_zero, hout (neg - 1) (by omega)]
          simp only [Array.set!_eq_setIfInBounds, Array.getElem?_setIfInBounds, if_true, h1]
          simp [negEntry]
        | succ j =>
          have := hin j (by omega)
          have he2 : neg - 1 - (j + 1) = neg - 1 - 1 - j := by omega
          rw [he2, this]
          simp
    · have hnf : negF (p, s) = [] := by simp [negF, hp]
      rw [hnf] at hlen ⊢
      simp only [List.nil_append] at hlen ⊢
      obtain ⟨dec1, he, hs, hout, hin⟩ := ih dec neg hlen hsz
      refine ⟨dec1, ?_, hs, hout, hin⟩
      simp only [placeNegatives, hp, if_false]
      exact he

/-! ## phase 2: `spreadAll` = one walk -/

/-- write symbol `s` into cell `p` (keeping the other fields) -/
def setSym (d : Array DEntry) (p s : Nat) : Array DEntry := d.set! p { d.getD p {} with symbol := s }

/-- write `syms` along the positions `l` -/
def writeSyms : Array DEntry → List Nat → List Nat → Array DEntry
  | d, p :: ps, s :: ss => writeSyms (setSym d p s) ps ss
  | d, _, _ => d

theorem setSym_size (d : Array DEntry) (p s : Nat) : (setSym d p s).size = d.size := by
  simp [setSym]

theorem setSym_getElem? (d : Array DEntry) (p s q : Nat) :
    (setSym d p s)[q]? = if p = q then (d[p]?).map (fun e => { e with symbol := s }) else d[q]? := by
  simp only [setSym, Array.set!_eq_setIfInBounds, Array.getElem?_setIfInBounds]
  by_cases hpq : p = q
  · subst hpq
    simp only [if_true]
    by_cases hp : p < d.size
    · simp [hp, Array.getD_eq_getD_getElem?]
    · simp [hp]
  · simp [hpq]

theorem writeSyms_size : ∀ (l syms : List Nat) (d : Array DEntry), (writeSyms d l syms).size = d.size := by
  intro l
  induction l with
  | nil => intro syms d; simp [writeSyms]
  | cons p ps ih =>
    intro syms d
    cases syms with
    | nil => simp [writeSyms]
    | cons s ss => simp only [writeSyms]; rw [ih, setSym_size]

theorem writeSyms_append : ∀ (l1 s1 : List Nat) (l2 s2 : List Nat) (d : Array DEntry), l1.length = s1.length →
    writeSyms d (l1 ++ l2) (s1 ++ s2) = writeSyms (writeSyms d l1 s1) l2 s2 := by
  intro l1
  induction l1 with
  | nil =>
    intro s1 l2 s2 d h
    cases s1 with
    | nil => simp [writeSyms]
    | cons _ _ => simp at h
  | cons p ps ih =>
    intro s1 l2 s2 d h
    cases s1 with
    | nil => simp at h
    | cons s ss =>
      simp only [List.cons_append, writeSyms]
      exact ih ss l2 s2 _ (by simpa using h)

theorem writeSyms_spec : ∀ (l syms : List Nat) (d : Array DEntry), l.Nodup → l.length = syms.length →
    (∀ q, q ∉ l → (writeSyms d l syms)[q]? = d[q]?) ∧
    (∀ j (h : j < l.length), (writeSyms d l syms)[l[j]]? = (d[l[j]]?).map (fun e => { e with symbol := syms.getD j 0 })) := by
  intro l
  induction l with
  | nil => intro syms d _ _; simp [writeSyms]
  | cons p ps ih =>
    intro syms d hnd hlen
    cases syms with
    | nil => simp at hlen
    | cons s ss =>
      rw [List.nodup_cons] at hnd
      obtain ⟨h1, h2⟩ := ih ss (setSym d p s) hnd.2 (by simpa using hlen)
      simp only [writeSyms]
      refine ⟨?_, ?_⟩
      · intro q hq
        rw [List.mem_cons, not_or] at hq
        rw [h1 q hq.2, setSym_getElem?]
        have : ¬ (p = q) := fun h => hq.1 h.symm
        simp only [this, if_false]
      · intro j hj
        cases j with
        | zero =>
          simp only [List.getElem_cons_zero, List.getD_cons_zero]
          rw [h1 p hnd.1, setSym_getElem?]
          simp
        | succ j =>
          simp only [List.getElem_cons_succ, List.getD_cons_succ]
          have hj' : j < ps.length := by simpa using hj
          rw [h2 j hj', setSym_getElem?]
          have : ¬ (p = ps[j]) := fun h => hnd.1 (h ▸ List.getElem_mem hj')
          simp only [this, if_false]

theorem walk_append {size neg : Nat} : ∀ (a b pos : Nat) (l : List Nat) (e : Nat),
    walk size neg (a + b) pos = .ok (l, e) →
    ∃ l1 l2 m, walk size neg a pos = .ok (l1, m) ∧ walk size neg b m = .ok (l2, e) ∧ l = l1 ++ l2 := by
  intro a
  induction a with
  | zero =>
    intro b pos l e h
    rw [Nat.zero_add] at h
    exact ⟨[], l, pos, rfl, h, rfl⟩
  | succ a ih =>
    intro b pos l e h
    have : a + 1 + b = (a + b) + 1 := by omega
    rw [this] at h
    simp only [walk] at h ⊢
    split at h
    · cases h
    · rename_i pos' hsk
      split at h
      · cases h
      · rename_i l' e' hw
        simp only [Except.ok.injEq, Prod.mk.injEq] at h
        obtain ⟨l1, l2, m, hw1, hw2, hl⟩ := ih b pos' l' e' hw
        refine ⟨pos :: l1, l2, m, ?_, ?_, ?_⟩
        · rw [hw1]
        · rw [hw2, h.2]
        · rw [← h.1, hl]; rfl

theorem spreadSymbol_walk {size neg : Nat} (sym : Nat) : ∀ (n : Nat) (dec : Array DEntry) (pos : Nat) (l : List Nat) (e : Nat),
    walk size neg n pos = .ok (l, e) → (∀ p ∈ l, p < dec.size) →
    spreadSymbol size neg sym n dec pos = .ok (writeSyms dec l (List.replicate n sym), e) := by
  intro n
  induction n with
  | zero =>
    intro dec pos l e h _
    simp only [walk, Except.ok.injEq, Prod.mk.injEq] at h
    simp only [spreadSymbol, List.replicate_zero]
    rw [← h.1, ← h.2]; simp [writeSyms]
  | succ n ih =>
    intro dec pos l e h hlt
    simp only [walk] at h
    split at h
    · cases h
    · rename_i pos' hsk
      split at h
      · cases h
      · rename_i l' e' hw
        simp only [Except.ok.injEq, Prod.mk.injEq] at h
        obtain ⟨hl, he⟩ := h
        subst hl; subst he
        have hpos : pos < dec.size := hlt pos (List.mem_cons_self ..)
        have hget : dec[pos]? = some dec[pos] := Array.getElem?_eq_getElem hpos
        simp only [spreadSymbol, hget, hsk, List.replicate_succ, writeSyms]
        have hset : dec.set! pos { dec[pos] with symbol := sym } = setSym dec pos sym := by
          simp [setSym, Array.getD_eq_getD_getElem?, hget]
        rw [hset]
        exact ih (setSym dec pos sym) pos' l' e' hw
          (fun p hp => by rw [setSym_size]; exact hlt p (List.mem_cons_of_mem _ hp))

theorem spreadAll_walk {size neg : Nat} : ∀ (ps : List (Int × Nat)) (dec : Array DEntry) (pos : Nat) (l : List Nat) (e : Nat),
    walk size neg (slotSyms ps).length pos = .ok (l, e) → (∀ p ∈ l, p < dec.size) →
    spreadAll size neg ps dec pos = .ok (writeSyms dec l (slotSyms ps), e) := by
  intro ps
  induction ps with
  | nil =>
    intro dec pos l e h _
    simp only [slotSyms, List.flatMap_nil, List.length_nil, walk, Except.ok.injEq, Prod.mk.injEq] at h
    simp only [spreadAll, slotSyms, List.flatMap_nil]
    rw [← h.1, ← h.2]; simp [writeSyms]
  | cons x rest ih =>
    obtain ⟨p, s⟩ := x
    intro dec pos l e h hlt
    rw [slotSyms_cons] at h ⊢
    by_cases hp : p ≤ 0
    · have hsf : slotF (p, s) = [] := by simp [slotF]; omega
      rw [hsf] at h ⊢
      simp only [List.nil_append] at h ⊢
      simp only [spreadAll, hp, if_true]
      exact ih dec pos l e h hlt
    · have hsf : slotF (p, s) = List.replicate p.toNat (s % 256) := by
        simp only [slotF]; rw [if_pos (by omega)]
      rw [hsf] at h ⊢
      rw [List.length_append, List.length_replicate] at h
      obtain ⟨l1, l2, m, hw1, hw2, hl⟩ := walk_append _ _ _ _ _ h
      subst hl
      have h1 := spreadSymbol_walk (s % 256) p.toNat dec pos l1 m hw1
        (fun q hq => hlt q (List.mem_append_left _ hq))
      simp only [spreadAll, hp, if_false, h1]
      rw [ih (writeSyms dec l1 (List.replicate p.toNat (s % 256))) m l2 e hw2
        (fun q hq => by rw [writeSyms_size]; exact hlt q (List.mem_append_right _ hq))]
      rw [writeSyms_append _ _ _ _ _ (by rw [walk_length hw1, List.length_replicate])]

/-! ## phase 3: `assignStates` -/

/-- the final entry of cell `i`, given the symbols of all cells -/
def finEntry (al : Nat) (probs : List Int) (syms : List Nat) (i : Nat) : DEntry :=
  { symbol := syms.getD i 0,
    baseLine := (rfcEntry al (nStates probs (syms.getD i 0)) ((syms.take i).count (syms.getD i 0))).1,
    numBits := (rfcEntry al (nStates probs (syms.getD i 0)) ((syms.take i).count (syms.getD i 0))).2 }

theorem asU32_pos {p : Int} (hp : 0 < p) : asU32 p = p.toNat := by
  unfold asU32; split
  · omega
  · rfl

theorem assignStates_ok (al : Nat) (hal : al ≤ 9) (probs : List Int) (syms : List Nat) (neg : Nat)
    (hneg : neg ≤ syms.length)
    (hsym : ∀ i, i < neg → 0 < probs.getD (syms.getD i 0) 0 ∧
      (syms.take i).count (syms.getD i 0) < (probs.getD (syms.getD i 0) 0).toNat ∧
      (probs.getD (syms.getD i 0) 0).toNat ≤ 2 ^ al) :
    ∀ (n idx : Nat) (dec : Array DEntry) (ctr : Array Nat), idx + n = neg → dec.size = syms.length →
      (∀ i, i < syms.length → (dec.getD i {}).symbol = syms.getD i 0) →
      ctr.size = probs.length → (∀ s, s < probs.length → ctr.getD s 0 = (syms.take idx).count s) →
      ∃ dec' ctr', assignStates al (2 ^ al) probs.toArray n idx dec ctr = .ok (dec', ctr') ∧ dec'.size = dec.size ∧
        (∀ i, i < idx ∨ neg ≤ i → dec'[i]? = dec[i]?) ∧
        (∀ i, idx ≤ i → i < neg → dec'[i]? = some (finEntry al probs syms i)) := by
  intro n
  induction n with
  | zero =>
    intro idx dec ctr hidx _ _ _ _
    exact ⟨dec, ctr, by simp [assignStates], rfl, fun _ _ => rfl, fun i h1 h2 => by omega⟩
  | succ n ih =>
    intro idx dec ctr hidx hsz hsymd hcsz hctr
    have hi : idx < neg := by omega
    have hidx' : idx < dec.size := by omega
    obtain ⟨hp0, hcnt, hple⟩ := hsym idx hi
    have hget : dec[idx]? = some dec[idx] := Array.getElem?_eq_getElem hidx'
    have hes : dec[idx].symbol = syms.getD idx 0 := by
      have := hsymd idx (by omega)
      rwa [Array.getD_eq_getD_getElem?, hget] at this
    generalize hs : syms.getD idx 0 = s at *
    have hslt : s < probs.length := by
      apply Classical.byContradiction
      intro hge
      rw [List.getD_eq_getElem?_getD, List.getElem?_eq_none (by omega)] at hp0
      simp at hp0
    have hpget : probs.toArray[s]? = some (probs.getD s 0) := by
      simp [List.getD_eq_getElem?_getD, hslt]
    have hcget : ctr[s]? = some ((syms.take idx).count s) := by
      have := hctr s hslt
      rw [Array.getD_eq_getD_getElem?, Array.getElem?_eq_getElem (by omega)] at this
      rw [Array.getElem?_eq_getElem (by omega)]
      simpa using this
    generalize hpv : probs.getD s 0 = p at *
    generalize hcv : (syms.take idx).count s = c at *
    have hcf := closedForm (al := al) (p := p.toNat) (k := c) hal (by omega) hple hcnt
    have hnb : ¬ ((rfcEntry al p.toNat c).2 > al) := by simp only [rfcEntry]; omega
    have hns : nStates probs s = p.toNat := by
      simp only [nStates, hpv]
      have : ¬ (p = -1) := by omega
      simp only [this, if_false]
    have hfin : { dec[idx] with baseLine := (rfcEntry al p.toNat c).1, numBits := (rfcEntry al p.toNat c).2 }
        = finEntry al probs syms idx := by
      simp only [finEntry, hs, hns, hcv, hes]
    obtain ⟨dec', ctr', he, hs', hout, hin⟩ := ih (idx + 1)
      (dec.set! idx { dec[idx] with baseLine := (rfcEntry al p.toNat c).1, numBits := (rfcEntry al p.toNat c).2 })
      (ctr.set! s (c + 1)) (by omega)
      (by simp only [Array.set!_eq_setIfInBounds, Array.size_setIfInBounds]; exact hsz)
      (by
        intro i hi'
        simp only [Array.set!_eq_setIfInBounds, Array.getD_eq_getD_getElem?, Array.getElem?_setIfInBounds]
        by_cases hii : idx = i
        · subst hii; simp only [if_true, hidx', Option.getD_some]; rw [hes, hs]
        · simp only [hii, if_false]
          have := hsymd i hi'
          rwa [Array.getD_eq_getD_getElem?] at this)
      (by simp only [Array.set!_eq_setIfInBounds, Array.size_setIfInBounds]; exact hcsz)
      (by
        intro s' hs'
        simp only [Array.set!_eq_setIfInBounds, Array.getD_eq_getD_getElem?, Array.getElem?_setIfInBounds]
        rw [List.take_add_one, List.count_append]
        have hsl : syms[idx]? = some s := by
          rw [← hs, List.getD_eq_getElem?_getD, List.getElem?_eq_getElem (by omega)]; simp
        rw [hsl]
        by_cases hss : s = s'
        · subst hss
          simp only [if_true, hcsz, hslt, Option.getD_some, Option.toList_some, List.count_singleton_self, hcv]
        · simp only [hss, if_false]
          have := hctr s' hs'
          rw [Array.getD_eq_getD_getElem?] at this
          rw [this]
          simp [hss])
    refine ⟨dec', ctr', ?_, ?_, ?_, ?_⟩
    · simp only [hes] at he
      simp only [assignStates, hget, hes, hpget, hcget, asU32_pos hp0, hcf, hnb, if_false]
      exact he
    · rw [hs']; simp only [Array.set!_eq_setIfInBounds, Array.size_setIfInBounds]
    · intro i hi'
      rw [hout i (by omega)]
      simp only [Array.set!_eq_setIfInBounds, Array.getElem?_setIfInBounds]
      have : ¬ (idx = i) := by omega
      simp only [this, if_false]
    · intro i h1 h2
      by_cases hii : idx = i
      · subst hii
        rw [hout idx (by omega)]
        simp only [Array.set!_eq_setIfInBounds, Array.getElem?_setIfInBounds, if_true, hidx']
        rw [hfin]
      · exact hin i (by omega) h2

end Zstd.Proofs.FseDecTable
