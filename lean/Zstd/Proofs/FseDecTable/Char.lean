import Zstd.Proofs.FseDecTable.Cells
/-
The model's `buildDecodingTableCore` on a valid distribution: success and the characterisation of the
table (`model_table`, `dec_table_char`).
-/
namespace Zstd.Proofs.FseDecTable
open Zstd Zstd.Model.Fse Zstd.Proofs.FseFin

theorem getD_ge {probs : List Int} (hge : ∀ p ∈ probs, -1 ≤ p) (s : Nat) : -1 ≤ probs.getD s 0 := by
  rw [List.getD_eq_getElem?_getD]
  by_cases h : s < probs.length
  · rw [List.getElem?_eq_getElem h]
    exact hge _ (List.getElem_mem h)
  · rw [List.getElem?_eq_none (by omega)]; simp

theorem count_slotsOf {probs : List Int} (hlen : probs.length ≤ 256) (s : Nat) :
    (slotsOf probs).count s = if probs.getD s 0 > 0 then (probs.getD s 0).toNat else 0 := by
  have := count_slotSyms probs 0 s (by omega)
  simpa [slotsOf] using this

theorem count_negsOf {probs : List Int} (hlen : probs.length ≤ 256) (s : Nat) :
    (negsOf probs).count s = if probs.getD s 0 = -1 then 1 else 0 := by
  have := count_negSyms probs 0 s (by omega)
  simpa [negsOf] using this

theorem count_sum {al : Nat} {probs : List Int} (hv : ValidDist al probs) (s : Nat) :
    (slotsOf probs).count s + (negsOf probs).count s = nStates probs s := by
  obtain ⟨_, _, hlen, hge, _⟩ := hv
  rw [count_slotsOf hlen, count_negsOf hlen]
  have := getD_ge hge s
  unfold nStates
  generalize probs.getD s 0 = p at *
  by_cases h1 : p = -1
  · subst h1; simp
  · by_cases h2 : p > 0
    · simp [h1, h2]
    · have : p = 0 := by omega
      subst this; simp

theorem mem_slotsOf {probs : List Int} (hlen : probs.length ≤ 256) {s : Nat} (h : s ∈ slotsOf probs) :
    0 < probs.getD s 0 := by
  have h1 := List.count_pos_iff.mpr h
  rw [count_slotsOf hlen] at h1
  split at h1
  · assumption
  · omega

theorem mem_negsOf {probs : List Int} (hlen : probs.length ≤ 256) {s : Nat} (h : s ∈ negsOf probs) :
    probs.getD s 0 = -1 := by
  have h1 := List.count_pos_iff.mpr h
  rw [count_negsOf hlen] at h1
  split at h1
  · assumption
  · omega

theorem log2_one : Nat.log2 1 = 0 := by decide

theorem rfcEntry_one (al : Nat) : rfcEntry al 1 0 = (0, al) := by
  simp [rfcEntry, log2_one]

theorem zipIdx_toArray (probs : List Int) : zipIdx probs.toArray = probs.zipIdx := by simp [zipIdx]

/-- the model succeeds on every valid distribution; `syms` = the symbols of the cells after the
spreading loop, every final entry is given by `finEntry` -/
theorem model_table (al : Nat) (probs : List Int) (maxSymbol : Nat)
    (hv : ValidDist al probs) (hms : probs.length ≤ maxSymbol + 1) :
    ∃ (dec1 dec2 dec : Array DEntry) (ctr : Array Nat) (syms : List Nat),
      placeNegatives al probs.zipIdx (Array.replicate (2 ^ al) {}) (2 ^ al) = .ok (dec1, negIdx al probs) ∧
      spreadAll (2 ^ al) (negIdx al probs) probs.zipIdx dec1 0 = .ok (dec2, 0) ∧
      buildDecodingTableCore al probs.toArray maxSymbol = .ok (dec, ctr) ∧
      dec2.size = 2 ^ al ∧ dec.size = 2 ^ al ∧ syms.length = 2 ^ al ∧
      (∀ i, i < 2 ^ al → (dec2.getD i {}).symbol = syms.getD i 0) ∧
      (∀ s, syms.count s = nStates probs s) ∧
      (∀ i, i < 2 ^ al → dec[i]? = some (finEntry al probs syms i)) := by
  obtain ⟨dec1, dec2, syms, hp1, hp2, hs2, hsl, hsym, hcnt, hnegE, hlow, hhigh⟩ := cells_exist al probs hv
  have hcount : ∀ s, syms.count s = nStates probs s := fun s => by rw [hcnt, count_sum hv]
  obtain ⟨h5, h9, hlen, hge, hmass⟩ := hv
  have hnegle : negIdx al probs ≤ 2 ^ al := by unfold negIdx; omega
  have hns_pos : ∀ s, 0 < probs.getD s 0 → nStates probs s = (probs.getD s 0).toNat := by
    intro s h
    unfold nStates
    have : ¬ (probs.getD s 0 = -1) := by omega
    simp only [this, if_false]
  obtain ⟨dec, ctr, hp3, hs3, hout3, hin3⟩ := assignStates_ok al h9 probs syms (negIdx al probs) (by omega)
    (by
      intro i hi
      have hpos := mem_slotsOf hlen (hlow i hi)
      refine ⟨hpos, ?_, ?_⟩
      · rw [← hns_pos _ hpos, ← hcount]
        exact count_take_lt (by omega)
      · rw [← hns_pos _ hpos, ← hcount, ← hsl]
        exact List.count_le_length)
    (negIdx al probs) 0 dec2 (Array.replicate probs.length 0) (by omega) (by omega)
    (fun i hi => hsym i (by omega)) (by simp)
    (by intro s hs; simp [Array.getD_eq_getD_getElem?, hs])
  refine ⟨dec1, dec2, dec, ctr, syms, hp1, hp2, ?_, hs2, by omega, hsl, hsym, hcount, ?_⟩
  · have h1 : ¬ (probs.length > maxSymbol + 1) := by omega
    have h2 : ¬ (al ≥ 64) := by omega
    simp only [buildDecodingTableCore, List.size_toArray, h1, h2, if_false, Nat.one_shiftLeft,
      zipIdx_toArray, hp1, hp2, hp3]
  · intro i hi
    by_cases hlt : i < negIdx al probs
    · exact hin3 i (by omega) hlt
    · rw [hout3 i (by omega), hnegE i (by omega) hi]
      have hm := mem_negsOf hlen (hhigh i (by omega) hi)
      have hns : nStates probs (syms.getD i 0) = 1 := by
        show (if probs.getD (syms.getD i 0) 0 = -1 then 1 else _) = 1
        rw [if_pos hm]
      have hc := count_take_lt (l := syms) (i := i) (by omega)
      rw [hcount, hns] at hc
      have hc0 : (syms.take i).count (syms.getD i 0) = 0 := by omega
      simp only [finEntry, hns, hc0, rfcEntry_one, negEntry]

/-! ## the characterisation in terms of the table itself -/

theorem finEntry_symbol (al : Nat) (probs : List Int) (syms : List Nat) (i : Nat) :
    (finEntry al probs syms i).symbol = syms.getD i 0 := rfl

/-- `rank` of a table whose symbols are `syms` -/
theorem rank_eq_count {dec : Array DEntry} {syms : List Nat} (_hs : dec.size = syms.length)
    (hsym : ∀ i, i < syms.length → (dec.getD i {}).symbol = syms.getD i 0) {i : Nat} (hi : i < syms.length) :
    rank dec i = (syms.take i).count (syms.getD i 0) := by
  unfold rank
  rw [hsym i hi]
  have htake : syms.take i = (List.range i).map (fun j => syms.getD j 0) := by
    apply List.ext_getElem
    · simp; omega
    · intro j h1 h2
      have hj : j < i := by simpa using h2
      simp [List.getD_eq_getElem?_getD, show j < syms.length by omega]
  rw [htake, List.count_eq_length_filter, List.filter_map, List.length_map]
  congr 1
  apply List.filter_congr
  intro j hj
  have hj' : j < i := List.mem_range.mp hj
  rw [hsym j (by omega)]
  show decide (syms.getD j 0 = syms.getD i 0) = (syms.getD j 0 == syms.getD i 0)
  generalize syms.getD j 0 = a
  generalize syms.getD i 0 = b
  by_cases h : a = b <;> simp [h]

theorem dec_toList_symbols {dec : Array DEntry} {syms : List Nat} (hs : dec.size = syms.length)
    (hsym : ∀ i, i < syms.length → (dec.getD i {}).symbol = syms.getD i 0) :
    dec.toList.map (·.symbol) = syms := by
  apply List.ext_getElem
  · simp [hs]
  · intro i h1 h2
    have := hsym i h2
    rw [Array.getD_eq_getD_getElem?, Array.getElem?_eq_getElem (by omega),
      List.getD_eq_getElem?_getD, List.getElem?_eq_getElem h2] at this
    simpa using this

/-- the built table: size, symbols, number of cells per symbol, and every entry's
`(baseline, nbBits)` as the RFC formula of the cell's rank among the cells of its symbol -/
theorem dec_table_char (al : Nat) (probs : List Int) (maxSymbol : Nat)
    (hv : ValidDist al probs) (hms : probs.length ≤ maxSymbol + 1)
    (dec : Array DEntry) (ctr : Array Nat)
    (hb : buildDecodingTableCore al probs.toArray maxSymbol = .ok (dec, ctr)) :
    dec.size = 2 ^ al ∧
    (∀ i, i < 2 ^ al → (dec.getD i {}).symbol < probs.length ∧ probs.getD (dec.getD i {}).symbol 0 ≠ 0) ∧
    (∀ s, s < probs.length → (dec.toList.filter (·.symbol = s)).length = nStates probs s) ∧
    (∀ i, i < 2 ^ al → ((dec.getD i {}).baseLine, (dec.getD i {}).numBits)
        = rfcEntry al (nStates probs (dec.getD i {}).symbol) (rank dec i)) ∧
    (∀ i, i < 2 ^ al → rank dec i < nStates probs (dec.getD i {}).symbol) := by
  obtain ⟨dec1, dec2, dec', ctr', syms, _, _, hb', _, hs, hsl, _, hcount, hfin⟩ := model_table al probs maxSymbol hv hms
  rw [hb] at hb'
  simp only [Except.ok.injEq, Prod.mk.injEq] at hb'
  obtain ⟨rfl, rfl⟩ := hb'
  have hget : ∀ i, i < 2 ^ al → dec.getD i {} = finEntry al probs syms i := by
    intro i hi
    rw [Array.getD_eq_getD_getElem?, hfin i hi]; rfl
  have hsym : ∀ i, i < syms.length → (dec.getD i {}).symbol = syms.getD i 0 := by
    intro i hi
    rw [hget i (by omega)]; rfl
  have hsz : dec.size = syms.length := by omega
  have hrank : ∀ i, i < 2 ^ al → rank dec i = (syms.take i).count (syms.getD i 0) :=
    fun i hi => rank_eq_count hsz hsym (by omega)
  have hnz : ∀ i, i < 2 ^ al → 0 < nStates probs (syms.getD i 0) := by
    intro i hi
    rw [← hcount]
    have := count_take_lt (l := syms) (i := i) (by omega)
    omega
  refine ⟨hs, ?_, ?_, ?_, ?_⟩
  · intro i hi
    rw [hsym i (by omega)]
    have h := hnz i hi
    unfold nStates at h
    generalize syms.getD i 0 = s at *
    by_cases hlt : s < probs.length
    · refine ⟨hlt, ?_⟩
      intro h0
      rw [h0] at h
      simp at h
    · rw [List.getD_eq_getElem?_getD, List.getElem?_eq_none (by omega)] at h
      simp at h
  · intro s _
    rw [← hcount s, ← dec_toList_symbols hsz hsym, List.count_eq_length_filter, List.filter_map, List.length_map]
    congr 1
  · intro i hi
    rw [hrank i hi, hget i hi]
    rfl
  · intro i hi
    rw [hrank i hi, hsym i (by omega), ← hcount]
    exact count_take_lt (by omega)

end Zstd.Proofs.FseDecTable
