import Zstd.Proofs.FseDecTable.Char
/-
Ranks of the cells of one symbol are exactly `0 … nStates − 1`, each once; hence the state intervals
of one symbol partition `[0, 2^al)`.
-/
namespace Zstd.Proofs.FseDecTable
open Zstd Zstd.Model.Fse Zstd.Proofs.FseFin

/-- every rank below the number of occurrences is taken -/
theorem exists_rank (s : Nat) : ∀ (l : List Nat) (k : Nat), k < l.count s →
    ∃ i, i < l.length ∧ l.getD i 0 = s ∧ (l.take i).count s = k := by
  intro l
  induction l with
  | nil => intro k h; simp at h
  | cons a rest ih =>
    intro k h
    by_cases ha : a = s
    · subst ha
      cases k with
      | zero => exact ⟨0, by simp, by simp, by simp⟩
      | succ k =>
        rw [List.count_cons_self] at h
        obtain ⟨i, h1, h2, h3⟩ := ih k (by omega)
        refine ⟨i + 1, by simp only [List.length_cons]; omega, by simpa using h2, ?_⟩
        rw [List.take_succ_cons, List.count_cons_self, h3]
    · rw [List.count_cons_of_ne (by simpa using ha)] at h
      obtain ⟨i, h1, h2, h3⟩ := ih k h
      refine ⟨i + 1, by simp only [List.length_cons]; omega, by simpa using h2, ?_⟩
      rw [List.take_succ_cons, List.count_cons_of_ne (by simpa using ha), h3]

/-- ranks of two different cells with the same symbol differ -/
theorem rank_lt_of_lt {l : List Nat} {i j : Nat} (hij : i < j) (hj : j ≤ l.length) :
    (l.take i).count (l.getD i 0) < (l.take j).count (l.getD i 0) := by
  have hi : i < (l.take j).length := by rw [List.length_take]; omega
  have h1 := count_take_lt hi
  have h2 : (l.take j).getD i 0 = l.getD i 0 := by
    simp only [List.getD_eq_getElem?_getD, List.getElem?_take, hij, if_true]
  have h3 : (l.take j).take i = l.take i := by
    rw [List.take_take]; congr 1; omega
  rw [h2, h3] at h1
  exact h1

/-- what `model_table` says about the table returned by `buildDecodingTableCore` -/
theorem table_syms (al : Nat) (probs : List Int) (maxSymbol : Nat)
    (hv : ValidDist al probs) (hms : probs.length ≤ maxSymbol + 1)
    (dec : Array DEntry) (ctr : Array Nat)
    (hb : buildDecodingTableCore al probs.toArray maxSymbol = .ok (dec, ctr)) :
    ∃ syms : List Nat, syms.length = 2 ^ al ∧ dec.size = 2 ^ al ∧
      (∀ i, i < 2 ^ al → dec.getD i {} = finEntry al probs syms i) ∧
      (∀ s, syms.count s = nStates probs s) ∧
      (∀ i, i < 2 ^ al → rank dec i = (syms.take i).count (syms.getD i 0)) := by
  obtain ⟨dec1, dec2, dec', ctr', syms, _, _, hb', _, hs, hsl, _, hcount, hfin⟩ := model_table al probs maxSymbol hv hms
  rw [hb] at hb'
  simp only [Except.ok.injEq, Prod.mk.injEq] at hb'
  obtain ⟨rfl, rfl⟩ := hb'
  have hget : ∀ i, i < 2 ^ al → dec.getD i {} = finEntry al probs syms i := by
    intro i hi
    rw [Array.getD_eq_getD_getElem?, hfin i hi]; rfl
  have hsym : ∀ i, i < syms.length → (dec.getD i {}).symbol = syms.getD i 0 := by
    intro i hi
    rw [hget i (by omega)]; rfl
  exact ⟨syms, hsl, hs, hget, hcount, fun i hi => rank_eq_count (by omega) hsym (by omega)⟩

/-- the ranks of the cells of a symbol are exactly `0 … nStates − 1`, each once -/
theorem dec_rank_bij (al : Nat) (probs : List Int) (maxSymbol : Nat)
    (hv : ValidDist al probs) (hms : probs.length ≤ maxSymbol + 1)
    (dec : Array DEntry) (ctr : Array Nat)
    (hb : buildDecodingTableCore al probs.toArray maxSymbol = .ok (dec, ctr)) :
    (∀ s k, k < nStates probs s → ∃ i, i < 2 ^ al ∧ (dec.getD i {}).symbol = s ∧ rank dec i = k) ∧
    (∀ i j, i < 2 ^ al → j < 2 ^ al → (dec.getD i {}).symbol = (dec.getD j {}).symbol →
      rank dec i = rank dec j → i = j) := by
  obtain ⟨syms, hsl, _, hget, hcount, hrank⟩ := table_syms al probs maxSymbol hv hms dec ctr hb
  refine ⟨?_, ?_⟩
  · intro s k hk
    rw [← hcount] at hk
    obtain ⟨i, h1, h2, h3⟩ := exists_rank s syms k hk
    refine ⟨i, by omega, ?_, ?_⟩
    · rw [hget i (by omega)]; exact h2
    · rw [hrank i (by omega), h2, h3]
  · intro i j hi hj hsym hr
    rw [hget i hi, hget j hj] at hsym
    rw [hrank i hi, hrank j hj] at hr
    have hsym' : syms.getD i 0 = syms.getD j 0 := hsym
    apply Classical.byContradiction
    intro hne
    rcases Nat.lt_or_gt_of_ne hne with hlt | hgt
    · have := rank_lt_of_lt (l := syms) hlt (by omega)
      rw [hsym'] at this hr
      omega
    · have := rank_lt_of_lt (l := syms) hgt (by omega)
      rw [← hsym'] at this hr
      omega

/-- for every symbol the intervals `[baseline, baseline + 2^bits)` of its states are pairwise disjoint
and cover `[0, 2^al)` -/
theorem fse_ranges_partition (al : Nat) (probs : List Int) (maxSymbol : Nat)
    (hv : ValidDist al probs) (hms : probs.length ≤ maxSymbol + 1)
    (dec : Array DEntry) (ctr : Array Nat)
    (hb : buildDecodingTableCore al probs.toArray maxSymbol = .ok (dec, ctr)) :
    ∀ s, s < probs.length → probs.getD s 0 ≠ 0 →
      (∀ x, x < 2 ^ al → ∃ i, i < 2 ^ al ∧ (dec.getD i {}).symbol = s ∧
        (dec.getD i {}).baseLine ≤ x ∧ x < (dec.getD i {}).baseLine + 2 ^ (dec.getD i {}).numBits) ∧
      (∀ i j, i < 2 ^ al → j < 2 ^ al → i ≠ j → (dec.getD i {}).symbol = s → (dec.getD j {}).symbol = s →
        (dec.getD i {}).baseLine + 2 ^ (dec.getD i {}).numBits ≤ (dec.getD j {}).baseLine ∨
        (dec.getD j {}).baseLine + 2 ^ (dec.getD j {}).numBits ≤ (dec.getD i {}).baseLine) := by
  intro s hs hne
  obtain ⟨hsz, hsymb, hcnt, hent, hrk⟩ := dec_table_char al probs maxSymbol hv hms dec ctr hb
  obtain ⟨hsurj, hinj⟩ := dec_rank_bij al probs maxSymbol hv hms dec ctr hb
  obtain ⟨h5, h9, hlen, hge, hmass⟩ := hv
  have hp1 : 1 ≤ nStates probs s := by
    have := getD_ge hge s
    unfold nStates
    generalize probs.getD s 0 = p at *
    by_cases h : p = -1
    · simp [h]
    · simp only [h, if_false]; omega
  have hple : nStates probs s ≤ 2 ^ al := by
    rw [← hcnt s hs]
    have := List.length_filter_le (fun e : DEntry => decide (e.symbol = s)) dec.toList
    simp only [Array.length_toList] at this
    omega
  refine ⟨?_, ?_⟩
  · intro x hx
    obtain ⟨k, hk, h1, h2⟩ := interval_cover h9 hp1 hple hx
    obtain ⟨i, hi, hsi, hri⟩ := hsurj s k hk
    have he := hent i hi
    rw [hsi, hri] at he
    simp only [interval] at h1 h2
    rw [← he] at h1 h2
    exact ⟨i, hi, hsi, h1, h2⟩
  · intro i j hi hj hij hsi hsj
    have hei := hent i hi
    have hej := hent j hj
    rw [hsi] at hei
    rw [hsj] at hej
    have hri := hrk i hi
    have hrj := hrk j hj
    rw [hsi] at hri
    rw [hsj] at hrj
    have hrne : rank dec i ≠ rank dec j := fun h => hij (hinj i j hi hj (by rw [hsi, hsj]) h)
    have := interval_disjoint h9 hp1 hple hri hrj hrne
    simp only [interval] at this
    rw [← hei, ← hej] at this
    exact this

/-- every entry's interval lies inside the table (so `update_state` never indexes out of bounds)
and no entry reads more than `al` bits -/
theorem dec_entry_within (al : Nat) (probs : List Int) (maxSymbol : Nat)
    (hv : ValidDist al probs) (hms : probs.length ≤ maxSymbol + 1)
    (dec : Array DEntry) (ctr : Array Nat)
    (hb : buildDecodingTableCore al probs.toArray maxSymbol = .ok (dec, ctr)) :
    ∀ i, i < 2 ^ al → (dec.getD i {}).numBits ≤ al ∧
      (dec.getD i {}).baseLine + 2 ^ (dec.getD i {}).numBits ≤ 2 ^ al := by
  intro i hi
  obtain ⟨hsz, hsymb, hcnt, hent, hrk⟩ := dec_table_char al probs maxSymbol hv hms dec ctr hb
  obtain ⟨h5, h9, hlen, hge, hmass⟩ := hv
  have he := hent i hi
  have hk := hrk i hi
  have hs := (hsymb i hi).1
  generalize (dec.getD i {}).symbol = s at *
  have hple : nStates probs s ≤ 2 ^ al := by
    rw [← hcnt s hs]
    have := List.length_filter_le (fun e : DEntry => decide (e.symbol = s)) dec.toList
    simp only [Array.length_toList] at this
    omega
  have hw := (interval_within h9 (by omega) hple hk).1
  simp only [interval] at hw
  rw [← he] at hw
  refine ⟨?_, hw⟩
  have : (dec.getD i {}).numBits = (rfcEntry al (nStates probs s) (rank dec i)).2 := by rw [← he]
  rw [this]
  simp only [rfcEntry]
  omega

end Zstd.Proofs.FseDecTable
