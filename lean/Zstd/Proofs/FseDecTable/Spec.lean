import Zstd.Proofs.FseDecTable.Char
/-
`Spec.Fse.buildTable` follows the model loop by loop (simulation lemmas), and the final tables agree.
-/
namespace Zstd.Proofs.FseDecTable
open Zstd Zstd.Model.Fse Zstd.Proofs.FseFin

/-! ## the Spec's folds, named -/

def negStep (acc : Array Nat × Nat) (ps : Int × Nat) : Array Nat × Nat :=
  if ps.1 = -1 ∧ acc.2 > 0 then (acc.1.setIfInBounds (acc.2 - 1) ps.2, acc.2 - 1) else acc

def spreadStep (size high : Nat) (acc : Array Nat × Nat) (ps : Int × Nat) : Array Nat × Nat :=
  if ps.1 > 0 then Spec.Fse.spreadSym ps.1.toNat size high ps.2 acc.2 acc.1 else acc

theorem spread_unfold (al : Nat) (probs : List Int) : Spec.Fse.spread al probs =
    (let r1 := probs.zipIdx.foldl negStep (Array.replicate (2 ^ al) 0, 2 ^ al)
     let r2 := probs.zipIdx.foldl (spreadStep (2 ^ al) r1.2) (r1.1, 0)
     if r2.2 = 0 then some r2.1 else none) := rfl

def mkE (al sym next : Nat) : Spec.Fse.Entry :=
  { symbol := sym, nbBits := al - Spec.Fse.log2 next, baseline := next * 2 ^ (al - Spec.Fse.log2 next) - 2 ^ al }

def entStep (al : Nat) (acc : Array Spec.Fse.Entry × Array Nat) (sym : Nat) : Array Spec.Fse.Entry × Array Nat :=
  (acc.1.push (mkE al sym (acc.2.getD sym 1)), acc.2.setIfInBounds sym (acc.2.getD sym 1 + 1))

def initOf (probs : List Int) : Array Nat :=
  (probs.map fun p => if p = -1 then 1 else if p > 0 then p.toNat else 0).toArray

theorem buildTable_unfold (al : Nat) (probs : List Int) : Spec.Fse.buildTable al probs =
    if mass probs ≠ 2 ^ al ∨ probs.any (fun p => p < -1) then none
    else
      match Spec.Fse.spread al probs with
      | none => none
      | some cells => some { accLog := al, entries := (cells.foldl (entStep al) (#[], initOf probs)).1 } := rfl

/-! ## loop 1 -/

theorem placeNegatives_sim (al : Nat) : ∀ (ps : List (Int × Nat)) (dec : Array DEntry) (neg : Nat)
    (dec1 : Array DEntry) (neg1 : Nat), (∀ x ∈ ps, x.2 < 256) →
    placeNegatives al ps dec neg = .ok (dec1, neg1) →
    ps.foldl negStep (dec.map (·.symbol), neg) = (dec1.map (·.symbol), neg1) := by
  intro ps
  induction ps with
  | nil =>
    intro dec neg dec1 neg1 _ h
    simp only [placeNegatives, Except.ok.injEq, Prod.mk.injEq] at h
    rw [List.foldl_nil, h.1, h.2]
  | cons x rest ih =>
    obtain ⟨p, s⟩ := x
    intro dec neg dec1 neg1 hlt h
    have hs : s < 256 := hlt (p, s) (List.mem_cons_self ..)
    have hrest : ∀ x ∈ rest, x.2 < 256 := fun x hx => hlt x (List.mem_cons_of_mem _ hx)
    rw [List.foldl_cons]
    simp only [placeNegatives] at h
    by_cases hp : p = -1
    · simp only [hp, if_true] at h
      by_cases h0 : neg = 0
      · simp only [h0, if_true] at h; cases h
      · simp only [h0, if_false] at h
        by_cases h1 : neg - 1 < dec.size
        · simp only [h1, if_true] at h
          have := ih _ _ _ _ hrest h
          rw [← this]
          congr 1
          have hpos : neg > 0 := by omega
          simp only [negStep, hp, hpos, and_self, if_true, Array.set!_eq_setIfInBounds, Array.map_setIfInBounds,
            Nat.mod_eq_of_lt hs]
        · simp only [h1, if_false] at h; cases h
    · simp only [hp, if_false] at h
      have := ih _ _ _ _ hrest h
      rw [← this]
      congr 1
      simp only [negStep, hp, false_and, if_false]

/-! ## loop 2: the walk step -/

/-- `k`-fold iterate of the Spec's step, in closed form -/
def it (size pos k : Nat) : Nat := (pos + k * (size / 2 + size / 8 + 3)) % size

theorem step_it (size pos k : Nat) : Spec.Fse.step size (it size pos k) = it size pos (k + 1) := by
  unfold Spec.Fse.step it
  rw [Nat.add_assoc (_ % size), Nat.add_assoc (_ % size), Nat.mod_add_mod, Nat.succ_mul]
  congr 1
  omega

theorem it_one (size pos : Nat) : it size pos 1 = Spec.Fse.step size pos := by
  unfold Spec.Fse.step it
  congr 1
  omega

theorem it_period (size pos k : Nat) : it size pos (k + size) = it size pos k := by
  unfold it
  rw [Nat.add_mul, ← Nat.add_assoc, Nat.add_mul_mod_self_left]

section
variable {size neg : Nat} (hstep : ∀ p, nextPosition p size = Spec.Fse.step size p)
include hstep

theorem skipHigh_it (pos : Nat) : ∀ (f k r : Nat), skipHigh size neg f (it size pos k) = .ok r →
    ∃ j, k ≤ j ∧ j < k + f ∧ r = it size pos j ∧ r < neg ∧ ∀ i, k ≤ i → i < j → neg ≤ it size pos i := by
  intro f
  induction f with
  | zero => intro k r h; simp [skipHigh] at h
  | succ f ih =>
    intro k r h
    simp only [skipHigh] at h
    by_cases hge : it size pos k ≥ neg
    · simp only [hge, if_true] at h
      rw [hstep, step_it] at h
      obtain ⟨j, h1, h2, h3, h4, h5⟩ := ih (k + 1) r h
      refine ⟨j, by omega, by omega, h3, h4, ?_⟩
      intro i hi1 hi2
      by_cases hik : i = k
      · subst hik; exact hge
      · exact h5 i (by omega) hi2
    · simp only [hge, if_false, Except.ok.injEq] at h
      exact ⟨k, by omega, by omega, h.symm, by omega, fun i h1 h2 => by omega⟩

omit hstep in
theorem nextPos_it (pos : Nat) : ∀ (f k j x : Nat), Spec.Fse.step size x = it size pos (k + 1) → k + 1 ≤ j → j ≤ k + f →
    (∀ i, k + 1 ≤ i → i < j → neg ≤ it size pos i) → it size pos j < neg →
    Spec.Fse.nextPos f size neg x = it size pos j := by
  intro f
  induction f with
  | zero => intro k j x _ h1 h2; omega
  | succ f ih =>
    intro k j x hx h1 h2 hall hj
    simp only [Spec.Fse.nextPos, hx]
    by_cases hjk : j = k + 1
    · subst hjk
      simp only [hj, if_true]
    · have hge := hall (k + 1) (by omega) (by omega)
      have : ¬ (it size pos (k + 1) < neg) := by omega
      simp only [this, if_false]
      exact ih (k + 1) j _ (step_it size pos (k + 1)) (by omega) (by omega)
        (fun i hi1 hi2 => hall i (by omega) hi2) hj

/-- the model's `while position >= negative_idx` loop and the Spec's `nextPos` agree
(the model's extra unit of fuel is never needed: the step has period `size`) -/
theorem skip_sim (hsize : 0 < size) (pos r : Nat)
    (h : skipHigh size neg (size + 1) (nextPosition pos size) = .ok r) :
    Spec.Fse.nextPos size size neg pos = r := by
  rw [hstep, ← it_one] at h
  obtain ⟨j, h1, h2, h3, h4, h5⟩ := skipHigh_it hstep pos (size + 1) 1 r h
  have hj : j ≤ size := by
    apply Classical.byContradiction
    intro hgt
    have hje : j = 1 + size := by omega
    have h6 := h5 1 (by omega) (by omega)
    rw [hje, it_period] at h3
    omega
  rw [h3]
  exact nextPos_it pos size 0 j pos (it_one size pos).symm h1 (by omega)
    (fun i hi1 hi2 => h5 i hi1 hi2) (h3 ▸ h4)

theorem spreadSymbol_sim (hsize : 0 < size) (sym : Nat) : ∀ (n : Nat) (dec : Array DEntry) (pos : Nat)
    (dec' : Array DEntry) (pos' : Nat), spreadSymbol size neg sym n dec pos = .ok (dec', pos') →
    Spec.Fse.spreadSym n size neg sym pos (dec.map (·.symbol)) = (dec'.map (·.symbol), pos') := by
  intro n
  induction n with
  | zero =>
    intro dec pos dec' pos' h
    simp only [spreadSymbol, Except.ok.injEq, Prod.mk.injEq] at h
    simp only [Spec.Fse.spreadSym, h.1, h.2]
  | succ n ih =>
    intro dec pos dec' pos' h
    simp only [spreadSymbol] at h
    split at h
    · cases h
    · rename_i e he
      split at h
      · cases h
      · rename_i pos1 hsk
        have := ih _ _ _ _ h
        simp only [Spec.Fse.spreadSym, skip_sim hstep hsize pos pos1 hsk]
        rw [← this]
        simp only [Array.set!_eq_setIfInBounds, Array.map_setIfInBounds]

theorem spreadAll_sim (hsize : 0 < size) : ∀ (ps : List (Int × Nat)) (dec : Array DEntry) (pos : Nat)
    (dec' : Array DEntry) (pos' : Nat), (∀ x ∈ ps, x.2 < 256) →
    spreadAll size neg ps dec pos = .ok (dec', pos') →
    ps.foldl (spreadStep size neg) (dec.map (·.symbol), pos) = (dec'.map (·.symbol), pos') := by
  intro ps
  induction ps with
  | nil =>
    intro dec pos dec' pos' _ h
    simp only [spreadAll, Except.ok.injEq, Prod.mk.injEq] at h
    rw [List.foldl_nil, h.1, h.2]
  | cons x rest ih =>
    obtain ⟨p, s⟩ := x
    intro dec pos dec' pos' hlt h
    have hs : s < 256 := hlt (p, s) (List.mem_cons_self ..)
    have hrest : ∀ x ∈ rest, x.2 < 256 := fun x hx => hlt x (List.mem_cons_of_mem _ hx)
    rw [List.foldl_cons]
    simp only [spreadAll] at h
    by_cases hp : p ≤ 0
    · simp only [hp, if_true] at h
      have := ih _ _ _ _ hrest h
      rw [← this]
      congr 1
      have : ¬ (p > 0) := by omega
      simp only [spreadStep, this, if_false]
    · simp only [hp, if_false] at h
      split at h
      · cases h
      · rename_i dm pm hsp
        have h1 := spreadSymbol_sim hstep hsize _ _ _ _ _ _ hsp
        rw [Nat.mod_eq_of_lt hs] at h1
        have := ih _ _ _ _ hrest h
        rw [← this]
        congr 1
        have : p > 0 := by omega
        simp only [spreadStep, this, if_true, h1]

end

theorem nextPosition_eq_step (al p : Nat) : nextPosition p (2 ^ al) = Spec.Fse.step (2 ^ al) p := by
  unfold nextPosition Spec.Fse.step Gen.fseDecStepShrA Gen.fseDecStepShrB Gen.fseDecStepAdd
  rw [Nat.and_two_pow_sub_one_eq_mod, Nat.shiftRight_eq_div_pow, Nat.shiftRight_eq_div_pow]

theorem zipIdx_lt {probs : List Int} (hlen : probs.length ≤ 256) : ∀ x ∈ probs.zipIdx, x.2 < 256 := by
  intro x hx
  obtain ⟨p, s⟩ := x
  have := List.mem_zipIdx' hx
  simp only at this ⊢
  omega

/-! ## loop 3 -/

theorem entFold (al : Nat) (init : Array Nat) : ∀ (rest pre : List Nat) (acc : Array Spec.Fse.Entry) (nx : Array Nat),
    nx.size = init.size → (∀ s ∈ rest, s < init.size) →
    (∀ s, s < init.size → nx.getD s 1 = init.getD s 1 + pre.count s) →
    (rest.foldl (entStep al) (acc, nx)).1.size = acc.size + rest.length ∧
    (∀ i, i < acc.size → (rest.foldl (entStep al) (acc, nx)).1[i]? = acc[i]?) ∧
    (∀ i, i < rest.length → (rest.foldl (entStep al) (acc, nx)).1[acc.size + i]? =
      some (mkE al (rest.getD i 0) (init.getD (rest.getD i 0) 1 + (pre ++ rest.take i).count (rest.getD i 0)))) := by
  intro rest
  induction rest with
  | nil =>
    intro pre acc nx _ _ _
    simp
  | cons s rest ih =>
    intro pre acc nx hsz hlt hnx
    have hs : s < init.size := hlt s (List.mem_cons_self ..)
    rw [List.foldl_cons]
    obtain ⟨h1, h2, h3⟩ := ih (pre ++ [s]) (acc.push (mkE al s (nx.getD s 1))) (nx.setIfInBounds s (nx.getD s 1 + 1))
      (by rw [Array.size_setIfInBounds]; exact hsz)
      (fun x hx => hlt x (List.mem_cons_of_mem _ hx))
      (by
        intro s' hs'
        rw [Array.getD_eq_getD_getElem?, Array.getElem?_setIfInBounds, List.count_append]
        by_cases hss : s = s'
        · subst hss
          have : s < nx.size := by omega
          simp only [if_true, this, Option.getD_some, hnx s hs, List.count_singleton_self]
          omega
        · simp only [hss, if_false]
          have := hnx s' hs'
          rw [Array.getD_eq_getD_getElem?] at this
          rw [this]
          simp [hss])
    simp only [entStep]
    refine ⟨?_, ?_, ?_⟩
    · rw [h1]; simp only [Array.size_push, List.length_cons]; omega
    · intro i hi
      rw [h2 i (by simp only [Array.size_push]; omega), Array.getElem?_push]
      have : ¬ (i = acc.size) := by omega
      simp only [this, if_false]
    · intro i hi
      cases i with
      | zero =>
        have he0 : acc.size + 0 = acc.size := rfl
        rw [he0, h2 acc.size (by simp only [Array.size_push]; omega), Array.getElem?_push]
        simp only [if_true, List.getD_cons_zero, List.take_zero, List.append_nil, hnx s hs]
      | succ i =>
        have := h3 i (by simpa using hi)
        simp only [Array.size_push] at this
        have he : acc.size + (i + 1) = acc.size + 1 + i := by omega
        rw [he, this]
        simp only [List.getD_cons_succ, List.take_succ_cons, List.append_assoc, List.singleton_append]

theorem initOf_getD {probs : List Int} (hge : ∀ p ∈ probs, -1 ≤ p) {s : Nat} (hs : s < probs.length) :
    (initOf probs).getD s 1 = nStates probs s := by
  unfold initOf nStates
  have h1 := hge _ (List.getElem_mem hs)
  simp only [Array.getD_eq_getD_getElem?, List.getElem?_toArray, List.getElem?_map, List.getD_eq_getElem?_getD,
    List.getElem?_eq_getElem hs, Option.map_some, Option.getD_some]
  generalize probs[s] = p at *
  by_cases hp1 : p = -1
  · simp [hp1]
  · by_cases hp2 : p > 0
    · simp [hp1, hp2]
    · have : p = 0 := by omega
      subst this; simp

/-! ## the theorem -/

/-- the decoder's table is the Spec's table, entry for entry, for every valid distribution -/
theorem fse_build_refines (al : Nat) (probs : List Int) (maxSymbol : Nat)
    (hv : ValidDist al probs) (hms : probs.length ≤ maxSymbol + 1) :
    ∃ dec ctr, Model.Fse.buildDecodingTableCore al probs.toArray maxSymbol = .ok (dec, ctr) ∧
      Spec.Fse.buildTable al probs = some { accLog := al, entries := dec.map toSpecEntry } := by
  obtain ⟨dec1, dec2, dec, ctr, syms, hp1, hp2, hb, hs2, hs, hsl, hsym2, hcount, hfin⟩ :=
    model_table al probs maxSymbol hv hms
  refine ⟨dec, ctr, hb, ?_⟩
  obtain ⟨h5, h9, hlen, hge, hmass⟩ := hv
  have hsize : 0 < 2 ^ al := Nat.two_pow_pos al
  -- loops 1 and 2
  have hsim1 := placeNegatives_sim al _ _ _ _ _ (zipIdx_lt hlen) hp1
  have hsim2 := spreadAll_sim (nextPosition_eq_step al) hsize _ _ _ _ _ (zipIdx_lt hlen) hp2
  have hrep : (Array.replicate (2 ^ al) ({} : DEntry)).map (·.symbol) = Array.replicate (2 ^ al) 0 := by
    rw [Array.map_replicate]
  rw [hrep] at hsim1
  have hcells : dec2.map (·.symbol) = syms.toArray := by
    have := dec_toList_symbols (dec := dec2) (syms := syms) (by omega) (fun i hi => hsym2 i (by omega))
    apply Array.ext'
    rw [← this]
    simp
  have hspread : Spec.Fse.spread al probs = some syms.toArray := by
    rw [spread_unfold]
    simp only [hsim1, hsim2, if_true, hcells]
  -- loop 3
  have hmem : ∀ s ∈ syms, s < (initOf probs).size := by
    intro s hs'
    have hpos := List.count_pos_iff.mpr hs'
    rw [hcount] at hpos
    have hsz : (initOf probs).size = probs.length := by simp [initOf]
    rw [hsz]
    apply Classical.byContradiction
    intro hge'
    unfold nStates at hpos
    rw [List.getD_eq_getElem?_getD, List.getElem?_eq_none (by omega)] at hpos
    simp at hpos
  obtain ⟨he1, _, he3⟩ := entFold al (initOf probs) syms [] #[] (initOf probs) rfl hmem (by intro s _; simp)
  rw [buildTable_unfold]
  have hc1 : ¬ (mass probs ≠ 2 ^ al ∨ probs.any (fun p => p < -1) = true) := by
    intro h
    rcases h with h | h
    · exact h hmass
    · rw [List.any_eq_true] at h
      obtain ⟨p, hp, hlt⟩ := h
      have := hge p hp
      simp only [decide_eq_true_eq] at hlt
      omega
  simp only [hc1, if_false, hspread, List.foldl_toArray]
  congr 2
  apply Array.ext_getElem?
  intro i
  by_cases hi : i < 2 ^ al
  · have h3 := he3 i (by omega)
    simp only [List.size_toArray, List.length_nil, Nat.zero_add, List.nil_append] at h3
    rw [h3, Array.getElem?_map, hfin i hi]
    have hsi : syms.getD i 0 < probs.length := by
      have := hmem (syms.getD i 0) (by
        rw [List.getD_eq_getElem?_getD, List.getElem?_eq_getElem (by omega)]
        exact List.getElem_mem _)
      simpa [initOf] using this
    rw [initOf_getD hge hsi]
    rfl
  · rw [Array.getElem?_eq_none (by simp only [List.size_toArray, List.length_nil] at he1; omega),
      Array.getElem?_eq_none (by rw [Array.size_map]; omega)]

end Zstd.Proofs.FseDecTable
