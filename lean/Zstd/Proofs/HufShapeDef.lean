import Zstd.Model.Huffman
/-
The check that the finite shape table (`Zstd/Proofs/HufShape/B??.lean`, kernel evaluation) performs
for one alphabet size, and what it means.
-/
namespace Zstd.Proofs.HufShape
open Zstd Zstd.Model.Huf

def allGe1 : List Nat → Bool
  | [] => true
  | w :: ws => decide (1 ≤ w) && allGe1 ws

def isSortedAsc : List Nat → Bool
  | a :: b :: r => decide (a ≤ b) && isSortedAsc (b :: r)
  | _ => true

/-- `shape n` does not fault, has `n` weights, all ≥ 1, ascending and starting with 1, Σ 2^(w−1) is
a power of two 2^m with m ≤ 11 (so every code length m + 1 − w is at most 11, and the longest is m) -/
def shapeOk (n : Nat) : Bool :=
  match shape n with
  | .ok ws =>
    ws.length == n && allGe1 ws && isSortedAsc ws && ws.head? == some 1 && isPow2 (weightSum ws)
      && decide (Nat.log2 (weightSum ws) ≤ Gen.hufMaxNumBits)
  | .error _ => false

end Zstd.Proofs.HufShape
