import Zstd.Model.FseCore
/-
Finite cores of the FSE table theorems: definitions of the checks that are evaluated by the kernel
(`decide +kernel`) in `Zstd/Proofs/FseFin/*.lean` (one module per accuracy log, the big ones split
into ranges so that they build in parallel and stay cached), and the lemmas that lift a successful
check to a statement with quantifiers.  Imports only `Model.FseCore` (+ `Gen.Fse`); no Mathlib.
The loops are written as plain structural recursion over `Nat` with `Bool` results because that is
what the kernel evaluates fastest.
-/
namespace Zstd.Proofs.FseFin
open Zstd Zstd.Model.Fse

/-! ## 1. closed form of `calc_baseline_and_numbits` = the RFC procedure (`next = p + k`) -/

/-- the Spec's entry for the `k`-th state (in table order) of a symbol with probability `p`:
`next = p + k`, `nbBits = AL − ⌊log₂ next⌋`, `baseline = (next << nbBits) − 2^AL`
(this is literally what `Spec.Fse.buildTable` computes from its `next` counter) -/
def rfcEntry (al p k : Nat) : Nat × Nat :=
  let next := p + k
  let nb := al - Nat.log2 next
  (next * 2 ^ nb - 2 ^ al, nb)

def okEq (r : Except Fault (Nat × Nat)) (e : Nat × Nat) : Bool :=
  match r with
  | .ok (a, b) => Nat.beq a e.1 && Nat.beq b e.2
  | .error _ => false

theorem okEq_eq {r : Except Fault (Nat × Nat)} {e : Nat × Nat} (h : okEq r e = true) : r = .ok e := by
  unfold okEq at h
  split at h
  · rename_i a b
    simp only [Bool.and_eq_true] at h
    obtain ⟨h1, h2⟩ := h
    have h1 := Nat.eq_of_beq_eq_true h1
    have h2 := Nat.eq_of_beq_eq_true h2
    cases e; simp_all
  · cases h

/-- states `k < n` of a symbol with probability `p` -/
def closedRow (al p : Nat) : Nat → Bool
  | 0 => true
  | k + 1 => okEq (calcBaselineAndNumbits (2 ^ al) p k) (rfcEntry al p k) && closedRow al p k

/-- probabilities `lo < p ≤ lo + n`, all their states -/
def closedRows (al lo : Nat) : Nat → Bool
  | 0 => true
  | n + 1 => closedRow al (lo + n + 1) (lo + n + 1) && closedRows al lo n

theorem closedRow_lift {al p : Nat} : ∀ {n}, closedRow al p n = true → ∀ {k}, k < n →
    calcBaselineAndNumbits (2 ^ al) p k = .ok (rfcEntry al p k) := by
  intro n
  induction n with
  | zero => intro _ k hk; omega
  | succ n ih =>
    intro h k hk
    simp only [closedRow, Bool.and_eq_true] at h
    by_cases hkn : k = n
    · subst hkn; exact okEq_eq h.1
    · exact ih h.2 (by omega)

theorem closedRows_lift {al lo : Nat} : ∀ {n}, closedRows al lo n = true → ∀ {p}, lo < p → p ≤ lo + n →
    closedRow al p p = true := by
  intro n
  induction n with
  | zero => intro _ p h1 h2; omega
  | succ n ih =>
    intro h p h1 h2
    simp only [closedRows, Bool.and_eq_true] at h
    by_cases hp : p = lo + n + 1
    · subst hp; exact h.1
    · exact ih h.2 h1 (by omega)

/-! ## 2. the spreading walk visits every free cell exactly once and returns to 0 -/

/-- the positions written by the second loop of `build_decoding_table` when `n` slots are handed out
starting at `pos`, and the position after the last advance -/
def walk (size neg : Nat) : Nat → Nat → Except Fault (List Nat × Nat)
  | 0, pos => .ok ([], pos)
  | n + 1, pos =>
    match skipHigh size neg (size + 1) (nextPosition pos size) with
    | .error f => .error f
    | .ok pos' =>
      match walk size neg n pos' with
      | .error f => .error f
      | .ok (l, e) => .ok (pos :: l, e)

/-- pack `i` at digit `l[i]` (base 2^12) -/
def packInv : List Nat → Nat → Nat → Nat
  | [], _, acc => acc
  | p :: rest, i, acc => packInv rest (i + 1) (acc ||| (i <<< (12 * p)))

def unpackAt (packed p : Nat) : Nat := (packed >>> (12 * p)) &&& 4095

/-- every element is below `neg`, and reading the packed table back gives the element's index -/
def checkInv (packed neg : Nat) : List Nat → Nat → Bool
  | [], _ => true
  | p :: rest, i => Nat.blt p neg && Nat.beq (unpackAt packed p) i && checkInv packed neg rest (i + 1)

/-- `walk size neg neg 0` succeeds, ends at 0, stays below `neg`, and has a left inverse, hence is injective -/
def walkOk (size neg : Nat) : Bool :=
  match walk size neg neg 0 with
  | .error _ => false
  | .ok (l, e) => Nat.beq e 0 && checkInv (packInv l 0 0) neg l 0

/-- `neg ∈ [lo, lo + n)` -/
def walkRange (size lo : Nat) : Nat → Bool
  | 0 => true
  | n + 1 => walkOk size (lo + n) && walkRange size lo n

theorem walkRange_lift {size lo : Nat} : ∀ {n}, walkRange size lo n = true → ∀ {neg}, lo ≤ neg → neg < lo + n →
    walkOk size neg = true := by
  intro n
  induction n with
  | zero => intro _ neg h1 h2; omega
  | succ n ih =>
    intro h neg h1 h2
    simp only [walkRange, Bool.and_eq_true] at h
    by_cases hp : neg = lo + n
    · subst hp; exact h.1
    · exact ih h.2 h1 (by omega)

theorem walk_length {size neg : Nat} : ∀ {n pos l e}, walk size neg n pos = .ok (l, e) → l.length = n := by
  intro n
  induction n with
  | zero => intro pos l e h; simp only [walk, Except.ok.injEq, Prod.mk.injEq] at h; rw [← h.1]; rfl
  | succ n ih =>
    intro pos l e h
    simp only [walk] at h
    split at h
    · cases h
    · rename_i pos' _
      split at h
      · cases h
      · rename_i l' e' h'
        simp only [Except.ok.injEq, Prod.mk.injEq] at h
        rw [← h.1, List.length_cons, ih h']

theorem checkInv_spec {packed neg : Nat} : ∀ {l : List Nat} {i : Nat}, checkInv packed neg l i = true →
    ∀ (j : Nat) (hj : j < l.length), l[j] < neg ∧ unpackAt packed l[j] = i + j := by
  intro l
  induction l with
  | nil => intro i _ j hj; simp at hj
  | cons p rest ih =>
    intro i h j hj
    simp only [checkInv, Bool.and_eq_true, Nat.blt_eq] at h
    have h0 := Nat.eq_of_beq_eq_true h.1.2
    cases j with
    | zero => simp only [List.getElem_cons_zero]; exact ⟨h.1.1, by omega⟩
    | succ j =>
      simp only [List.getElem_cons_succ]
      have := ih h.2 j (by simpa using hj)
      exact ⟨this.1, by omega⟩

/-- what a successful check means -/
theorem walkOk_spec {size neg : Nat} (h : walkOk size neg = true) :
    ∃ l, walk size neg neg 0 = .ok (l, 0) ∧ l.length = neg ∧ l.Nodup ∧ ∀ p ∈ l, p < neg := by
  unfold walkOk at h
  split at h
  · cases h
  · rename_i l e hw
    simp only [Bool.and_eq_true] at h
    obtain ⟨he, hinv⟩ := h
    have he := Nat.eq_of_beq_eq_true he
    subst he
    have hs := checkInv_spec hinv
    refine ⟨l, hw, walk_length hw, ?_, ?_⟩
    · rw [List.nodup_iff_pairwise_ne, List.pairwise_iff_getElem]
      intro i j hi hj hij heq
      have h1 := (hs i hi).2
      have h2 := (hs j hj).2
      rw [heq] at h1
      omega
    · intro p hp
      obtain ⟨j, hj, rfl⟩ := List.getElem_of_mem hp
      exact (hs j hj).1

/-! ## 3. the state intervals of one symbol tile `[0, 2^al)` -/

/-- `(baseline, width)` of state number `k` -/
def interval (al p k : Nat) : Nat × Nat := ((rfcEntry al p k).1, 2 ^ (rfcEntry al p k).2)

/-- `dbl = 2^⌈log₂ p⌉ − p`: the number of states that get the double-width slice -/
def dblOf (p : Nat) : Nat := (if 1 <<< Nat.log2 p = p then p else 1 <<< (Nat.log2 p + 1)) - p

/-- state numbers in order of increasing baseline: first `k ≥ dbl` (single width, from 0), then `k < dbl` -/
def orderedKs (p : Nat) : List Nat := (List.range' (dblOf p) (p - dblOf p)) ++ List.range (dblOf p)

/-- consecutive tiling from `start` (each interval begins where the previous one ended, ends at `2^al`),
and the search start of `SymbolStates::get` never skips the containing state: for the `j`-th interval in
baseline order every `x` in it has `x * p / 2^al ≤ j` (tested on its last element) -/
def tileLoop (al p : Nat) : List Nat → Nat → Nat → Bool
  | [], start, _ => Nat.beq start (2 ^ al)
  | k :: rest, start, j =>
    match rfcEntry al p k with
    | (b, nb) =>
      Nat.beq b start && Nat.ble ((start + 2 ^ nb - 1) * p / 2 ^ al) j && tileLoop al p rest (start + 2 ^ nb) (j + 1)

def tileRow (al p : Nat) : Bool := Nat.ble (dblOf p) p && tileLoop al p (orderedKs p) 0 0

/-- probabilities `lo < p ≤ lo + n` -/
def tileRows (al lo : Nat) : Nat → Bool
  | 0 => true
  | n + 1 => tileRow al (lo + n + 1) && tileRows al lo n

theorem tileRows_lift {al lo : Nat} : ∀ {n}, tileRows al lo n = true → ∀ {p}, lo < p → p ≤ lo + n →
    tileRow al p = true := by
  intro n
  induction n with
  | zero => intro _ p h1 h2; omega
  | succ n ih =>
    intro h p h1 h2
    simp only [tileRows, Bool.and_eq_true] at h
    by_cases hp : p = lo + n + 1
    · subst hp; exact h.1
    · exact ih h.2 h1 (by omega)

/-- the abstract content of `tileLoop` -/
def tilesFrom (al : Nat) : Nat → List (Nat × Nat) → Prop
  | start, [] => start = 2 ^ al
  | start, (b, w) :: rest => b = start ∧ 0 < w ∧ tilesFrom al (start + w) rest

theorem tileLoop_spec {al p : Nat} : ∀ {ks : List Nat} {start j : Nat}, tileLoop al p ks start j = true →
    tilesFrom al start (ks.map (interval al p)) ∧
    ∀ (i : Nat) (hi : i < ks.length),
      ((interval al p ks[i]).1 + (interval al p ks[i]).2 - 1) * p / 2 ^ al ≤ j + i := by
  intro ks
  induction ks with
  | nil =>
    intro start j h
    simp only [tileLoop] at h
    exact ⟨Nat.eq_of_beq_eq_true h, fun i hi => by simp at hi⟩
  | cons k rest ih =>
    intro start j h
    simp only [tileLoop, Bool.and_eq_true, Nat.ble_eq] at h
    obtain ⟨⟨hb, hs⟩, hrest⟩ := h
    have hb := Nat.eq_of_beq_eq_true hb
    obtain ⟨h1, h2⟩ := ih hrest
    have hiv : interval al p k = (start, 2 ^ (rfcEntry al p k).2) := by
      simp only [interval, hb]
    refine ⟨?_, ?_⟩
    · simp only [List.map_cons, hiv, tilesFrom]
      exact ⟨trivial, Nat.two_pow_pos _, h1⟩
    · intro i hi
      cases i with
      | zero => simp only [List.getElem_cons_zero, hiv]; omega
      | succ i =>
        simp only [List.getElem_cons_succ]
        have := h2 i (by simpa using hi)
        omega

end Zstd.Proofs.FseFin
