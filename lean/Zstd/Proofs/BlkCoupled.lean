import Zstd.Proofs.BlkSeq
import Zstd.Proofs.FseDecTable
/-
Coupling between the entropy state of the Spec (`Spec.Entropy`: the FSE table in force per channel,
an RLE table being a one-state table) and the model's scratch (`Blk.FseScratch`: a decoder table plus
an optional RLE symbol per channel).  Definitions for the C01 block-level refinement
(`Proofs/BlkSeqTables`, `Proofs/BlkSeqStream`, `Proofs/BlockRefines`).
-/
namespace Zstd.Proofs.Blk
open Zstd Zstd.Model Zstd.Model.Fse Zstd.Model.Blk

/-- the Spec table a built model table stands for -/
def specOf (t : DTable) : Spec.Fse.Table :=
  { accLog := t.accuracyLog, entries := t.decode.map Zstd.Proofs.FseDecTable.toSpecEntry }

/-- one channel: the Spec's table in force `T` against the model's (table, RLE symbol) -/
def ChanCoupled (maxLog maxCode : Nat) (T : Spec.Fse.Table) (t : DTable) (rle : Option Nat) : Prop :=
  match rle with
  | some b => T = Spec.Fse.rleTable b ∧ b ≤ maxCode
  | none => FseBuilt maxLog t ∧ t.maxSymbol = maxCode ∧ T = specOf t

/-- a channel before the table update: well formed (`ChanPre`), and coupled if the Spec has a table -/
def ChanCoupledOpt (maxLog maxCode : Nat) (T : Option Spec.Fse.Table) (t : DTable) (rle : Option Nat) : Prop :=
  ChanPre maxLog maxCode t rle ∧ ∀ T', T = some T' → ChanCoupled maxLog maxCode T' t rle

/-- the FSE part of the entropy state -/
structure FseCoupled (e : Spec.Entropy) (s : FseScratch) : Prop where
  ll : ChanCoupledOpt Gen.llMaxLog Gen.maxLiteralLengthCode e.ll s.literalLengths s.llRle
  of : ChanCoupledOpt Gen.ofMaxLog Gen.maxOffsetCode e.of s.offsets s.ofRle
  ml : ChanCoupledOpt Gen.mlMaxLog Gen.maxMatchLengthCode e.ml s.matchLengths s.mlRle

theorem ChanCoupled.pre {maxLog maxCode : Nat} {T : Spec.Fse.Table} {t : DTable} {rle : Option Nat}
    (hwf : FseWF maxLog t) (hms : t.maxSymbol = maxCode)
    (h : ChanCoupled maxLog maxCode T t rle) : ChanPre maxLog maxCode t rle := by
  cases rle with
  | some b => exact ⟨hwf, hms, fun b' hb' => by cases hb'; exact h.2⟩
  | none => exact ⟨Or.inr h.1, h.2.1, fun b hb => by cases hb⟩

end Zstd.Proofs.Blk
