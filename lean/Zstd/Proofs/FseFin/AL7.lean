import Zstd.Proofs.FseFinDef
/- kernel-evaluated finite core (cached by lake; depends only on Model.FseCore / Gen.Fse) -/
namespace Zstd.Proofs.FseFin
theorem closed_7 : closedRows 7 0 128 = true := by decide +kernel
theorem walk_7 : walkRange 128 0 129 = true := by decide +kernel
theorem tile_7 : tileRows 7 0 128 = true := by decide +kernel
end Zstd.Proofs.FseFin
