import Zstd.Proofs.FseFinDef
/- kernel-evaluated finite core (cached by lake; depends only on Model.FseCore / Gen.Fse) -/
namespace Zstd.Proofs.FseFin
theorem closed_8 : closedRows 8 0 256 = true := by decide +kernel
end Zstd.Proofs.FseFin
