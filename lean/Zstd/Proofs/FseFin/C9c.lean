import Zstd.Proofs.FseFinDef
/- kernel-evaluated finite core (cached by lake; depends only on Model.FseCore / Gen.Fse) -/
namespace Zstd.Proofs.FseFin
theorem closed_9c : closedRows 9 362 81 = true := by decide +kernel
end Zstd.Proofs.FseFin
