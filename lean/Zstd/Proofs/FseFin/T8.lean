import Zstd.Proofs.FseFinDef
/- kernel-evaluated finite core (cached by lake; depends only on Model.FseCore / Gen.Fse) -/
namespace Zstd.Proofs.FseFin
theorem tile_8 : tileRows 8 0 256 = true := by decide +kernel
end Zstd.Proofs.FseFin
