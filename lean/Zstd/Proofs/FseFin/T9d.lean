import Zstd.Proofs.FseFinDef
/- kernel-evaluated finite core (cached by lake; depends only on Model.FseCore / Gen.Fse) -/
namespace Zstd.Proofs.FseFin
theorem tile_9d : tileRows 9 443 69 = true := by decide +kernel
end Zstd.Proofs.FseFin
