import Zstd.Proofs.FseFinDef
/- kernel-evaluated finite core (cached by lake; depends only on Model.FseCore / Gen.Fse) -/
namespace Zstd.Proofs.FseFin
theorem closed_9d : closedRows 9 443 69 = true := by decide +kernel
end Zstd.Proofs.FseFin
