import Zstd.Proofs.FseFinDef
/- kernel-evaluated finite core (cached by lake; depends only on Model.FseCore / Gen.Fse) -/
namespace Zstd.Proofs.FseFin
theorem tile_9b : tileRows 9 256 106 = true := by decide +kernel
end Zstd.Proofs.FseFin
