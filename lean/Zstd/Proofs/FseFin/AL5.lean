import Zstd.Proofs.FseFinDef
/- kernel-evaluated finite core (cached by lake; depends only on Model.FseCore / Gen.Fse) -/
namespace Zstd.Proofs.FseFin
theorem closed_5 : closedRows 5 0 32 = true := by decide +kernel
theorem walk_5 : walkRange 32 0 33 = true := by decide +kernel
theorem tile_5 : tileRows 5 0 32 = true := by decide +kernel
end Zstd.Proofs.FseFin
