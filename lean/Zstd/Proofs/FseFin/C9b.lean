import Zstd.Proofs.FseFinDef
/- kernel-evaluated finite core (cached by lake; depends only on Model.FseCore / Gen.Fse) -/
namespace Zstd.Proofs.FseFin
theorem closed_9b : closedRows 9 256 106 = true := by decide +kernel
end Zstd.Proofs.FseFin
