import Zstd.Proofs.FseFinDef
/- kernel-evaluated finite core (cached by lake; depends only on Model.FseCore / Gen.Fse) -/
namespace Zstd.Proofs.FseFin
theorem walk_9a : walkRange 512 0 129 = true := by decide +kernel
end Zstd.Proofs.FseFin
