import Zstd.Proofs.FseFinDef
/- kernel-evaluated finite core (cached by lake; depends only on Model.FseCore / Gen.Fse) -/
namespace Zstd.Proofs.FseFin
theorem walk_9c : walkRange 512 258 128 = true := by decide +kernel
end Zstd.Proofs.FseFin
