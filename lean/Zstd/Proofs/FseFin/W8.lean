import Zstd.Proofs.FseFinDef
/- kernel-evaluated finite core (cached by lake; depends only on Model.FseCore / Gen.Fse) -/
namespace Zstd.Proofs.FseFin
theorem walk_8 : walkRange 256 0 257 = true := by decide +kernel
end Zstd.Proofs.FseFin
