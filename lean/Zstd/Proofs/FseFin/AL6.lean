import Zstd.Proofs.FseFinDef
/- kernel-evaluated finite core (cached by lake; depends only on Model.FseCore / Gen.Fse) -/
namespace Zstd.Proofs.FseFin
theorem closed_6 : closedRows 6 0 64 = true := by decide +kernel
theorem walk_6 : walkRange 64 0 65 = true := by decide +kernel
theorem tile_6 : tileRows 6 0 64 = true := by decide +kernel
end Zstd.Proofs.FseFin
