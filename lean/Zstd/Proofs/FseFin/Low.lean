import Zstd.Proofs.FseFinDef
/- kernel-evaluated finite core (cached by lake; depends only on Model.FseCore / Gen.Fse) -/
namespace Zstd.Proofs.FseFin
theorem closed_0 : closedRows 0 0 1 = true := by decide +kernel
theorem closed_1 : closedRows 1 0 2 = true := by decide +kernel
theorem closed_2 : closedRows 2 0 4 = true := by decide +kernel
theorem closed_3 : closedRows 3 0 8 = true := by decide +kernel
theorem closed_4 : closedRows 4 0 16 = true := by decide +kernel
theorem tile_0 : tileRows 0 0 1 = true := by decide +kernel
theorem tile_1 : tileRows 1 0 2 = true := by decide +kernel
theorem tile_2 : tileRows 2 0 4 = true := by decide +kernel
theorem tile_3 : tileRows 3 0 8 = true := by decide +kernel
theorem tile_4 : tileRows 4 0 16 = true := by decide +kernel
end Zstd.Proofs.FseFin
