import Zstd.Proofs.SeqSection
import Zstd.Model.BlockDecode
/-
The sequences section of a compressed block against the FAITHFUL decoder mirror `Blk.decodeSequences`
(`decode_sequences` / `maybe_update_fse_tables` / `decode_sequences_without_rle` of
decoding/sequence_section_decoder.rs, Model/BlockDecode.lean): the bytes `encodeSeqSectionReal` writes
(modes byte 168, the LL/OF/ML table descriptions of `build_table_from_data(codes, 9/9/8, true)`, the
interleaved three-state bitstream of `encode_sequences`) are decoded to exactly the sequences, without a
fault, with `bits_remaining = 0` at the end (neither the `< 0` nor the `> 0` check fires), whatever the three
tables of the scratch held before.  Same theorem as `SeqSection.encode_decode_sequences(_coded)`, with the
real reader (`BitReaderRev` under `RevInv`), the real decoder tables (`DTable.buildDecoder`) and the real
`FSEDecoder`s in place of the strict Spec.  All FULL (no residual hypotheses); axioms `propext`,
`Classical.choice`, `Quot.sound`.

  1. `readBEPad_field`, `triple_reads`   : `get_bits_triple` reads back three consecutive fields
  2. `blk_iter`                           : symbols, `lookup_ll/ml_code`, extra bits, the pushed sequence
  3. `blk_step`, `blk_loop`, `init_reads` : one `seqStep` of the encoder vs one decoder iteration; the loop
  4. `seq_stream_decodes_blk`             : the whole bitstream, for ANY three `FseStream.Coupled` pairs
  5. `seq_table_bridge_blk(_gen)`         : built encoder table `Coupled` with the table `build_decoder` builds
                                            from the written description, for any old table content
  6. `maybeUpdate_ok`, `encode_decode_sequences_blk_coded`, `encode_decode_sequences_blk` (task form),
     `encode_decode_sequences_blk_header` (with `encode_seqnum` / `parseSeqHeader`),
     `encode_decode_sequences_blk_rust` (from Rust sequences with in-range values)
-/
set_option autoImplicit false

namespace Zstd.Proofs.SeqSectionBlk
open Zstd Zstd.Spec Zstd.Model Zstd.Model.Fse Zstd.Model.BitIO
open Zstd.Proofs.BitIO Zstd.Proofs.FseStream Zstd.Proofs.SeqStream Zstd.Proofs.SeqSection

/-! ### 1. reading fields back -/

/-- the value the reversed reader sees in front of an already consumed suffix `post` -/
theorem readBEPad_field {out : Array Nat} {pre post : List Bool} {n v : Nat}
    (hbits : bitsLE out.toList = pre ++ bitsOfLE n v ++ post) (hv : v < 2 ^ n) :
    (readBEPad n ((stream out).drop post.length)).1 = v := by
  have hdrop : (stream out).drop post.length = (bitsOfLE n v).reverse ++ pre.reverse := by
    rw [stream, hbits, List.reverse_append, List.reverse_append,
      List.drop_left' (List.length_reverse)]
  rw [hdrop, readBEPad_def, if_neg (by simp)]
  simp only []
  rw [List.take_left' (by simp), valBE_reverse_bitsOfLE hv]

/-- `get_bits_triple` reads back three fields written one after the other (in reverse order) -/
theorem triple_reads {out : Array Nat} {r : BitReaderRev} {pre post : List Bool} {n1 n2 n3 v1 v2 v3 : Nat}
    (hbits : bitsLE out.toList = pre ++ (bitsOfLE n1 v1 ++ (bitsOfLE n2 v2 ++ bitsOfLE n3 v3)) ++ post)
    (hv1 : v1 < 2 ^ n1) (hv2 : v2 < 2 ^ n2) (hv3 : v3 < 2 ^ n3)
    (hn1 : n1 ≤ 56) (hn2 : n2 ≤ 56) (hn3 : n3 ≤ 56) (h : RevInv out r post.length) :
    ∃ r', r.getBitsTriple n3 n2 n1 = .ok ((v3, v2, v1), r') ∧ RevInv out r' (post.length + (n1 + (n2 + n3))) := by
  obtain ⟨r', hr', hinv⟩ := getBitsTriple_eq_three_gets h hn3 hn2 hn1
  refine ⟨r', ?_, ?_⟩
  · rw [hr']
    have e3 := readBEPad_field (out := out) (pre := pre ++ bitsOfLE n1 v1 ++ bitsOfLE n2 v2) (post := post)
      (n := n3) (v := v3) (by rw [hbits]; simp only [List.append_assoc]) hv3
    have e2 := readBEPad_field (out := out) (pre := pre ++ bitsOfLE n1 v1) (post := bitsOfLE n3 v3 ++ post)
      (n := n2) (v := v2) (by rw [hbits]; simp only [List.append_assoc]) hv2
    have e1 := readBEPad_field (out := out) (pre := pre) (post := bitsOfLE n2 v2 ++ (bitsOfLE n3 v3 ++ post))
      (n := n1) (v := v1) (by rw [hbits]; simp only [List.append_assoc]) hv1
    simp only [List.length_append, length_bitsOfLE] at e1 e2
    rw [show post.length + n3 = n3 + post.length by omega,
      show n3 + post.length + n2 = n2 + (n3 + post.length) by omega, e1, e2, e3]
  · rw [show post.length + (n1 + (n2 + n3)) = post.length + n3 + n2 + n1 by omega]
    exact hinv

/-! ### 2. one iteration of the faithful sequence loop -/

/-- the scratch holds the three decoder tables and no RLE symbol -/
structure ScratchIs (s : Blk.FseScratch) (dtL dtM dtO : DTable) : Prop where
  ll : s.literalLengths = dtL
  ml : s.matchLengths = dtM
  of : s.offsets = dtO
  llR : s.llRle = none
  mlR : s.mlRle = none
  ofR : s.ofRle = none

/-- what `Blk.seqLoop` does in one iteration after the sequence has been pushed, when no table is
in RLE mode: the three state updates (unless this was the last sequence), the `bits_remaining < 0` check, the next iteration -/
def afterPush (s : Blk.FseScratch) (total n : Nat) (llD mlD ofD : Fse.Decoder) (br : BitReaderRev)
    (acc : List Spec.Seq) : Except Blk.SeqErr (List Spec.Seq × BitReaderRev) :=
  let upd : Except Blk.SeqErr (Fse.Decoder × Fse.Decoder × Fse.Decoder × BitReaderRev) :=
    if acc.length < total then
      match Blk.liftFse (llD.updateState s.literalLengths br) with
      | .error e => .error e
      | .ok (llD, br) =>
        match Blk.liftFse (mlD.updateState s.matchLengths br) with
        | .error e => .error e
        | .ok (mlD, br) =>
          match Blk.liftFse (ofD.updateState s.offsets br) with
          | .error e => .error e
          | .ok (ofD, br) => .ok (llD, mlD, ofD, br)
    else .ok (llD, mlD, ofD, br)
  match upd with
  | .error e => .error e
  | .ok (llD, mlD, ofD, br) =>
    if br.bitsRemaining < 0 then .error .notEnoughBytesForNumSequences
    else Blk.seqLoop s total n llD mlD ofD br acc

variable {uL uM uO : Nat → Prop}

theorem lookupLL_row {c base bits : Nat} (h : Spec.llCodeTable[c]? = some (base, bits)) :
    lookupLL c = .ok (base, bits) := by
  have hlt := (List.getElem?_eq_some_iff.mp h).1
  rw [llCodeTable_length] at hlt
  rw [Props.C14.ll_dec_eq_rfc c hlt, List.getD_eq_getElem?_getD, h]
  rfl

theorem lookupML_row {c base bits : Nat} (h : Spec.mlCodeTable[c]? = some (base, bits)) :
    lookupML c = .ok (base, bits) := by
  have hlt := (List.getElem?_eq_some_iff.mp h).1
  rw [mlCodeTable_length] at hlt
  rw [Props.C14.ml_dec_eq_rfc c hlt, List.getD_eq_getElem?_getD, h]
  rfl

/-- the first half of an iteration: symbols, code lookups, the extra bits, the sequence -/
theorem blk_iter {s : Blk.FseScratch} {dtL dtM dtO : DTable} (hs : ScratchIs s dtL dtM dtO)
    {x : Enc.CodedSeq} {sq : Spec.Seq} (hx : CodedOk uL uM uO x sq) (a b c : EState)
    {src : Array Nat} {r : BitReaderRev} {pre post : List Bool}
    (hbits : bitsLE src.toList = pre ++ extras x ++ post) (hr : RevInv src r post.length)
    (total n : Nat) (acc : List Spec.Seq) :
    ∃ r', RevInv src r' (post.length + (extras x).length) ∧
      Blk.seqLoop s total (n + 1) ⟨entryOf x.ll.1 a⟩ ⟨entryOf x.ml.1 b⟩ ⟨entryOf x.of.1 c⟩ r acc
        = afterPush s total n ⟨entryOf x.ll.1 a⟩ ⟨entryOf x.ml.1 b⟩ ⟨entryOf x.of.1 c⟩ r' (sq :: acc) := by
  obtain ⟨bl, hbl, hsl⟩ := hx.llRow
  obtain ⟨bm, hbm, hsm⟩ := hx.mlRow
  obtain ⟨ho1, ho2, hso⟩ := hx.ofRow
  have hofit : x.of.2.1 < 2 ^ x.of.1 := by have := hx.ofFit; rwa [ho1] at this
  have hbits' : bitsLE src.toList = pre ++ (bitsOfLE x.ll.2.2 x.ll.2.1 ++ (bitsOfLE x.ml.2.2 x.ml.2.1 ++
      bitsOfLE x.of.1 x.of.2.1)) ++ post := by
    rw [hbits, extras, ho1]
  obtain ⟨r', hget, hinv⟩ := triple_reads hbits' hx.llFit.1 hx.mlFit.1 hofit
    (by have := hx.llFit.2; omega) (by have := hx.mlFit.2; omega) (by omega) hr
  refine ⟨r', ?_, ?_⟩
  · simpa only [extras, List.length_append, length_bitsOfLE, ho1] using hinv
  · have hp31 : 2 ^ x.of.1 ≤ 2 ^ 31 := Nat.pow_le_pow_right (by omega) ho2
    have hpl : 2 ^ x.ll.2.2 ≤ 2 ^ 16 := Nat.pow_le_pow_right (by omega) hx.llFit.2
    have hpm : 2 ^ x.ml.2.2 ≤ 2 ^ 16 := Nat.pow_le_pow_right (by omega) hx.mlFit.2
    have hpos : 0 < 2 ^ x.of.1 := Nat.two_pow_pos _
    have hm1 : x.of.2.1 % 2 ^ 32 = x.of.2.1 := Nat.mod_eq_of_lt (by omega)
    have hm2 : x.ll.2.1 % 2 ^ 32 = x.ll.2.1 := Nat.mod_eq_of_lt (by have := hx.llFit.1; omega)
    have hm3 : x.ml.2.1 % 2 ^ 32 = x.ml.2.1 := Nat.mod_eq_of_lt (by have := hx.mlFit.1; omega)
    have hsq : sq = ⟨bl + x.ll.2.1, bm + x.ml.2.1, x.of.2.1 + 2 ^ x.of.1⟩ := by
      cases sq
      simp only [Spec.offsetValue] at hsl hsm hso
      simp only [Spec.Seq.mk.injEq]
      omega
    rw [Blk.seqLoop]
    simp only [hs.llR, hs.mlR, hs.ofR, Option.getD_none, Decoder.decodeSymbol, entryOf,
      lookupLL_row hbl, lookupML_row hbm, Blk.liftFault, Gen.maxOffsetCode,
      if_neg (show ¬ x.of.1 > 31 by omega), hget, hm1, hm2, hm3,
      if_neg (show ¬ x.of.2.1 + 2 ^ x.of.1 ≥ 2 ^ 32 by omega),
      if_neg (show ¬ x.of.2.1 + 2 ^ x.of.1 = 0 by omega), ← hsq, Option.isNone_none, if_true]
    rfl

/-! ### 3. one encoder step and the decoder iteration that undoes it -/

variable {llT mlT ofT : ETable} {dtL dtM dtO : DTable} {alL alM alO : Nat}

theorem blk_step (hL : Coupled llT dtL alL uL) (hM : Coupled mlT dtM alM uM) (hO : Coupled ofT dtO alO uO)
    {x : Enc.CodedSeq} {sq : Spec.Seq} (hx : CodedOk uL uM uO x sq)
    {cl cm co : Nat} {a b c : EState} {w : BitWriter} {L : List Bool} (hw : WInv w L)
    (ha : Good dtL alL cl a) (hb : Good dtM alM cm b) (hc : Good dtO alO co c) :
    ∃ w' a' b' c' F, Enc.seqStep llT mlT ofT w a b c x = .ok (w', a', b', c') ∧ WInv w' (L ++ F) ∧
      Good dtL alL x.ll.1 a' ∧ Good dtM alM x.ml.1 b' ∧ Good dtO alO x.of.1 c' ∧
      ∀ (s : Blk.FseScratch) (src : Array Nat) (r : BitReaderRev) (pre post : List Bool) (total m : Nat)
        (acc : List Spec.Seq), ScratchIs s dtL dtM dtO →
        bitsLE src.toList = pre ++ F ++ post → RevInv src r post.length → m ≠ 0 → acc.length + (m + 1) = total →
        ∃ r', RevInv src r' (post.length + F.length) ∧
          Blk.seqLoop s total (m + 1) ⟨entryOf x.ll.1 a'⟩ ⟨entryOf x.ml.1 b'⟩ ⟨entryOf x.of.1 c'⟩ r acc
            = Blk.seqLoop s total m ⟨entryOf cl a⟩ ⟨entryOf cm b⟩ ⟨entryOf co c⟩ r' (sq :: acc) := by
  obtain ⟨c', hc', hc1, hc2, hgc⟩ := hO.next x.of.1 c.index hx.uo hc.1
  obtain ⟨w1, hw1, i1⟩ := bitWriter_refines (v := c.index - c'.baseline) (n := c'.numBits) hw (by omega)
    (by have := hgc.2.2; have := hO.al_le; omega)
  obtain ⟨b', hb', hb1, hb2, hgb⟩ := hM.next x.ml.1 b.index hx.um hb.1
  obtain ⟨w2, hw2, i2⟩ := bitWriter_refines (v := b.index - b'.baseline) (n := b'.numBits) i1 (by omega)
    (by have := hgb.2.2; have := hM.al_le; omega)
  obtain ⟨a', ha', ha1, ha2, hga⟩ := hL.next x.ll.1 a.index hx.ul ha.1
  obtain ⟨w3, hw3, i3⟩ := bitWriter_refines (v := a.index - a'.baseline) (n := a'.numBits) i2 (by omega)
    (by have := hga.2.2; have := hL.al_le; omega)
  obtain ⟨w4, w5, w6, hw4, hw5, hw6, i6⟩ := write_extras hx i3
  refine ⟨w6, a', b', c', bitsOfLE c'.numBits (c.index - c'.baseline) ++ (bitsOfLE b'.numBits (b.index - b'.baseline) ++
    (bitsOfLE a'.numBits (a.index - a'.baseline) ++ extras x)), ?_, ?_, hga, hgb, hgc, ?_⟩
  · simp only [Enc.seqStep, encStep, hc', if_neg (show ¬ c.index < c'.baseline by omega), hw1,
      hb', if_neg (show ¬ b.index < b'.baseline by omega), hw2,
      ha', if_neg (show ¬ a.index < a'.baseline by omega), hw3, hw4, hw5, hw6]
  · simpa only [List.append_assoc] using i6
  · intro s src r pre post total m acc hs hbits hr hm hlen
    obtain ⟨r1, hr1, hit⟩ := blk_iter hs hx a' b' c'
      (pre := pre ++ bitsOfLE c'.numBits (c.index - c'.baseline) ++ bitsOfLE b'.numBits (b.index - b'.baseline) ++
        bitsOfLE a'.numBits (a.index - a'.baseline)) (post := post)
      (by rw [hbits]; simp only [List.append_assoc]) hr total m acc
    obtain ⟨r2, hu2, hr2⟩ := update_reads (dt := dtL) (s := x.ll.1) (c := cl) hL.al_le ha hga ha1 ha2
      (pre := pre ++ bitsOfLE c'.numBits (c.index - c'.baseline) ++ bitsOfLE b'.numBits (b.index - b'.baseline))
      (post := extras x ++ post) (src := src) (r := r1)
      (by rw [hbits]; simp only [List.append_assoc])
      (by simpa only [List.length_append, Nat.add_comm] using hr1)
    obtain ⟨r3, hu3, hr3⟩ := update_reads (dt := dtM) (s := x.ml.1) (c := cm) hM.al_le hb hgb hb1 hb2
      (pre := pre ++ bitsOfLE c'.numBits (c.index - c'.baseline))
      (post := bitsOfLE a'.numBits (a.index - a'.baseline) ++ (extras x ++ post)) (src := src) (r := r2)
      (by rw [hbits]; simp only [List.append_assoc])
      (by simpa only [List.length_append, length_bitsOfLE, Nat.add_comm] using hr2)
    obtain ⟨r4, hu4, hr4⟩ := update_reads (dt := dtO) (s := x.of.1) (c := co) hO.al_le hc hgc hc1 hc2
      (pre := pre)
      (post := bitsOfLE b'.numBits (b.index - b'.baseline) ++ (bitsOfLE a'.numBits (a.index - a'.baseline) ++
        (extras x ++ post))) (src := src) (r := r3)
      (by rw [hbits]; simp only [List.append_assoc])
      (by simpa only [List.length_append, length_bitsOfLE, Nat.add_comm] using hr3)
    have hpos : RevInv src r4 (post.length + (bitsOfLE c'.numBits (c.index - c'.baseline) ++
        (bitsOfLE b'.numBits (b.index - b'.baseline) ++
        (bitsOfLE a'.numBits (a.index - a'.baseline) ++ extras x))).length) := by
      simp only [List.length_append, length_bitsOfLE] at hr4 ⊢
      rw [show post.length + (c'.numBits + (b'.numBits + (a'.numBits + (extras x).length)))
        = b'.numBits + (a'.numBits + ((extras x).length + post.length)) + c'.numBits by omega]
      exact hr4
    refine ⟨r4, hpos, ?_⟩
    have hrem := RevInv_bitsRemaining hpos
    have hsz := congrArg List.length hbits
    simp only [length_bitsLE, Array.length_toList, List.length_append] at hsz
    rw [hit]
    simp only [afterPush, List.length_cons, if_pos (show acc.length + 1 < total by omega),
      hs.ll, hs.ml, hs.of, hu2, hu3, hu4, Blk.liftFse]
    rw [if_neg (by rw [hrem]; simp only [List.length_append] at *; omega)]

/-- the backward loop of `encode_sequences` over the pairs `ps`, and the iterations of the faithful
decoder loop that undo it (continuation style, `m ≥ 1` sequences still to come afterwards) -/
theorem blk_loop (hL : Coupled llT dtL alL uL) (hM : Coupled mlT dtM alM uM) (hO : Coupled ofT dtO alO uO) :
    ∀ (ps : List (Enc.CodedSeq × Spec.Seq)), (∀ p ∈ ps, CodedOk uL uM uO p.1 p.2) →
    ∀ (cl cm co : Nat) (a b c : EState) (w : BitWriter) (L : List Bool), WInv w L →
      Good dtL alL cl a → Good dtM alM cm b → Good dtO alO co c →
      ∃ w' a' b' c' cl' cm' co' F, Enc.seqLoop llT mlT ofT (ps.map (·.1)) w a b c = .ok (w', a', b', c') ∧
        WInv w' (L ++ F) ∧ Good dtL alL cl' a' ∧ Good dtM alM cm' b' ∧ Good dtO alO co' c' ∧
        ∀ (s : Blk.FseScratch) (src : Array Nat) (r : BitReaderRev) (pre post : List Bool) (total m : Nat)
          (acc : List Spec.Seq), ScratchIs s dtL dtM dtO →
          bitsLE src.toList = pre ++ F ++ post → RevInv src r post.length → 1 ≤ m →
          acc.length + (ps.length + m) = total →
          ∃ r', RevInv src r' (post.length + F.length) ∧
            Blk.seqLoop s total (ps.length + m) ⟨entryOf cl' a'⟩ ⟨entryOf cm' b'⟩ ⟨entryOf co' c'⟩ r acc
              = Blk.seqLoop s total m ⟨entryOf cl a⟩ ⟨entryOf cm b⟩ ⟨entryOf co c⟩ r' (ps.map (·.2) ++ acc) := by
  intro ps
  induction ps with
  | nil =>
    intro _ cl cm co a b c w L hw ha hb hc
    refine ⟨w, a, b, c, cl, cm, co, [], rfl, by simpa using hw, ha, hb, hc, ?_⟩
    intro s src r pre post total m acc _ _ hr _ _
    exact ⟨r, by simpa using hr, by simp⟩
  | cons p ps ih =>
    intro hps cl cm co a b c w L hw ha hb hc
    obtain ⟨w1, a1, b1, c1, F1, hstep, i1, hga, hgb, hgc, hdec1⟩ :=
      blk_step hL hM hO (hps p (List.mem_cons_self ..)) hw ha hb hc
    obtain ⟨w', a', b', c', cl', cm', co', F', hloop, i', hla, hlb, hlc, hdec'⟩ :=
      ih (fun q hq => hps q (List.mem_cons_of_mem _ hq)) _ _ _ a1 b1 c1 w1 _ i1 hga hgb hgc
    refine ⟨w', a', b', c', cl', cm', co', F1 ++ F', ?_, by simpa only [List.append_assoc] using i',
      hla, hlb, hlc, ?_⟩
    · simp only [List.map_cons, Enc.seqLoop, hstep, hloop]
    · intro s src r pre post total m acc hs hbits hr hm hlen
      simp only [List.length_cons] at hlen
      obtain ⟨r1, hr1, hd1⟩ := hdec' s src r (pre ++ F1) post total (m + 1) acc hs
        (by rw [hbits]; simp only [List.append_assoc]) hr (by omega) (by omega)
      obtain ⟨r2, hr2, hd2⟩ := hdec1 s src r1 pre (F' ++ post) total m (ps.map (·.2) ++ acc) hs
        (by rw [hbits]; simp only [List.append_assoc])
        (by simpa only [List.length_append, Nat.add_comm] using hr1) (by omega)
        (by simp only [List.length_append, List.length_map]; omega)
      refine ⟨r2, ?_, ?_⟩
      · simp only [List.length_append] at hr2 ⊢
        rw [show post.length + (F1.length + F'.length) = F'.length + post.length + F1.length by omega]
        exact hr2
      · rw [show (p :: ps).length + m = ps.length + (m + 1) by simp only [List.length_cons]; omega, hd1, hd2]
        simp

/-- `init_state` reads back a final state index -/
theorem init_reads {et : ETable} {dt : DTable} {al : Nat} {usable : Nat → Prop} (hc : Coupled et dt al usable)
    {sym : Nat} {st : EState} (hg : Good dt al sym st)
    {src : Array Nat} {r : BitReaderRev} {pre post : List Bool}
    (hbits : bitsLE src.toList = pre ++ bitsOfLE al st.index ++ post) (hr : RevInv src r post.length)
    (d : Fse.Decoder) :
    ∃ r', d.initState dt r = .ok (⟨entryOf sym st⟩, r') ∧ RevInv src r' (post.length + al) := by
  obtain ⟨r', hget, hinv⟩ := revReader_reads_field hbits hg.1 (by have := hc.al_le; omega) hr
  refine ⟨r', ?_, hinv⟩
  have hal0 : ¬ al = 0 := by have := hc.al_pos; omega
  simp only [Decoder.initState, hc.decLog, if_neg hal0, hget, hg.2.1]

/-! ### 4. the whole sequence bitstream -/

/-- **The sequence bitstream of `encode_sequences` is decoded by the faithful decoder loop.**  For any
three coupled (encoder table, decoder table) pairs and any non-empty list of (coded sequence, Spec sequence)
pairs related by `CodedOk`: `encode_sequences` succeeds on any writer and leaves it byte aligned, and on what
it wrote (`S`, as a byte string of its own) the reversed reader finds the end mark, `init_state` LL, OF, ML
succeed, and `Blk.seqLoop` (for any scratch that holds the three tables and no RLE symbol) returns exactly
the sequences with `bits_remaining = 0`. -/
theorem seq_stream_decodes_blk (hL : Coupled llT dtL alL uL) (hM : Coupled mlT dtM alM uM)
    (hO : Coupled ofT dtO alO uO)
    (ps : List (Enc.CodedSeq × Spec.Seq)) (hne : ps ≠ [])
    (hrel : ∀ p ∈ ps, CodedOk uL uM uO p.1 p.2)
    {w : BitWriter} {L : List Bool} (hw : WInv w L) :
    ∃ w' S, Enc.encodeSequences llT mlT ofT w (ps.map (·.1)) = .ok w' ∧ WInv w' (L ++ S) ∧
      (L.length + S.length) % 8 = 0 ∧ S ≠ [] ∧
      ∀ (src : Array Nat) (s : Blk.FseScratch) (d1 d2 d3 : Fse.Decoder), Bytes src.toList → bitsLE src.toList = S →
        ScratchIs s dtL dtM dtO →
        ∃ br llD br1 ofD br2 mlD br3 brEnd, skipEndMark (BitReaderRev.new src) = .ok (some br) ∧
          d1.initState dtL br = .ok (llD, br1) ∧ d2.initState dtO br1 = .ok (ofD, br2) ∧
          d3.initState dtM br2 = .ok (mlD, br3) ∧
          Blk.seqLoop s ps.length ps.length llD mlD ofD br3 [] = .ok (ps.map (·.2), brEnd) ∧
          brEnd.bitsRemaining = 0 := by
  obtain ⟨ini, pl, rfl⟩ : ∃ ini pl, ps = ini ++ [pl] :=
    ⟨ps.dropLast, ps.getLast hne, (List.dropLast_concat_getLast hne).symm⟩
  have hxl : CodedOk uL uM uO pl.1 pl.2 := hrel pl (by simp)
  obtain ⟨a0, ha0, hga0⟩ := hL.start pl.1.ll.1 hxl.ul
  obtain ⟨b0, hb0, hgb0⟩ := hM.start pl.1.ml.1 hxl.um
  obtain ⟨c0, hc0, hgc0⟩ := hO.start pl.1.of.1 hxl.uo
  obtain ⟨w1, w2, w3, hw1, hw2, hw3, i3⟩ := write_extras hxl hw
  obtain ⟨w4, a', b', c', cl', cm', co', F, hloop, i4, hla, hlb, hlc, hdec⟩ :=
    blk_loop hL hM hO ini.reverse (fun q hq => hrel q (by simp at hq ⊢; exact Or.inl hq))
      _ _ _ a0 b0 c0 w3 _ i3 hga0 hgb0 hgc0
  obtain ⟨w5, hw5, i5⟩ := bitWriter_refines (v := b'.index) (n := alM) i4 hlb.1 (by have := hM.al_le; omega)
  obtain ⟨w6, hw6, i6⟩ := bitWriter_refines (v := c'.index) (n := alO) i5 hlc.1 (by have := hO.al_le; omega)
  obtain ⟨w7, hw7, i7⟩ := bitWriter_refines (v := a'.index) (n := alL) i6 hla.1 (by have := hL.al_le; omega)
  obtain ⟨w8, m, hw8, hm1, hm8, i8, hal8⟩ := FseStream.writeEndMark_ok i7
  refine ⟨w8, (extras pl.1 ++ (F ++ (bitsOfLE alM b'.index ++ (bitsOfLE alO c'.index ++ bitsOfLE alL a'.index)))) ++
    bitsOfLE m 1, ?_, by simpa only [List.append_assoc] using i8, ?_, ?_, ?_⟩
  · rw [List.map_reverse] at hloop
    simp only [Enc.encodeSequences, List.map_append, List.map_cons, List.map_nil,
      List.getLast?_append, List.getLast?_singleton, Option.some_or, ha0, hb0, hc0, hw1, hw2, hw3,
      List.dropLast_concat, hloop, hM.encLog, hO.encLog, hL.encLog, hw5, hw6, hw7, hw8]
  · simp only [List.length_append, length_bitsOfLE] at hal8 ⊢; omega
  · intro h
    have := congrArg List.length h
    simp only [List.length_append, length_bitsOfLE, List.length_nil] at this
    omega
  · intro src s d1 d2 d3 hb hbits hs
    obtain ⟨br, hskip, hr0⟩ := skipEndMark_ok
      (P := extras pl.1 ++ (F ++ (bitsOfLE alM b'.index ++ (bitsOfLE alO c'.index ++ bitsOfLE alL a'.index))))
      hm1 hm8 hb (by rw [hbits])
    obtain ⟨br1, hi1, hr1⟩ := init_reads hL hla (src := src) (r := br)
      (pre := extras pl.1 ++ F ++ bitsOfLE alM b'.index ++ bitsOfLE alO c'.index) (post := bitsOfLE m 1)
      (by rw [hbits]; simp only [List.append_assoc]) (by simpa using hr0) d1
    obtain ⟨br2, hi2, hr2⟩ := init_reads hO hlc (src := src) (r := br1)
      (pre := extras pl.1 ++ F ++ bitsOfLE alM b'.index) (post := bitsOfLE alL a'.index ++ bitsOfLE m 1)
      (by rw [hbits]; simp only [List.append_assoc])
      (by simpa only [List.length_append, length_bitsOfLE, Nat.add_comm] using hr1) d2
    obtain ⟨br3, hi3, hr3⟩ := init_reads hM hlb (src := src) (r := br2)
      (pre := extras pl.1 ++ F) (post := bitsOfLE alO c'.index ++ (bitsOfLE alL a'.index ++ bitsOfLE m 1))
      (by rw [hbits]; simp only [List.append_assoc])
      (by simpa only [List.length_append, length_bitsOfLE, Nat.add_comm] using hr2) d3
    obtain ⟨br4, hr4, hd4⟩ := hdec s src br3 (extras pl.1)
      (bitsOfLE alM b'.index ++ (bitsOfLE alO c'.index ++ (bitsOfLE alL a'.index ++ bitsOfLE m 1)))
      (ini ++ [pl]).length 1 [] hs
      (by rw [hbits]; simp only [List.append_assoc])
      (by simpa only [List.length_append, length_bitsOfLE, Nat.add_comm] using hr3) (by omega) (by simp)
    obtain ⟨br5, hr5, hd5⟩ := blk_iter hs hxl a0 b0 c0 (src := src) (r := br4) (pre := [])
      (post := F ++ (bitsOfLE alM b'.index ++ (bitsOfLE alO c'.index ++ (bitsOfLE alL a'.index ++ bitsOfLE m 1))))
      (by rw [hbits]; simp only [List.append_assoc, List.nil_append])
      (by simpa only [List.length_append, length_bitsOfLE, Nat.add_comm] using hr4)
      (ini ++ [pl]).length 0 (ini.reverse.map (·.2) ++ [])
    have hrem := RevInv_bitsRemaining hr5
    have hsz := congrArg List.length hbits
    simp only [length_bitsLE, Array.length_toList, List.length_append, length_bitsOfLE] at hsz
    simp only [List.length_append, length_bitsOfLE] at hrem
    have hrem0 : br5.bitsRemaining = 0 := by omega
    refine ⟨br, _, br1, _, br2, _, br3, br5, hskip, hi1, hi2, hi3, ?_, hrem0⟩
    have hlen : (ini ++ [pl]).length = ini.reverse.length + 1 := by simp
    rw [show Blk.seqLoop s (ini ++ [pl]).length (ini ++ [pl]).length = Blk.seqLoop s (ini ++ [pl]).length (ini.reverse.length + 1) by rw [← hlen]]
    rw [hd4]
    refine hd5.trans ?_
    simp only [afterPush, List.length_cons, List.length_append, List.length_map, List.length_reverse,
      List.length_nil, Nat.add_zero, Nat.lt_irrefl, if_false, hrem0, Blk.seqLoop]
    simp

/-! ### 5. the tables -/

theorem coupled_mono {et : ETable} {dt : DTable} {al : Nat} {usable usable' : Nat → Prop}
    (hu : ∀ s, usable' s → usable s) (hc : Coupled et dt al usable) : Coupled et dt al usable' :=
  ⟨hc.al_pos, hc.al_le, hc.encLog, hc.decLog, fun s hs => hc.start s (hu s hs),
    fun s idx hs hidx => hc.next s idx (hu s hs) hidx⟩

open Zstd.Proofs.SeqTables in
/-- model-level analogue of `SeqTables.seq_table_bridge_gen`: the encoder table built from the codes is
coupled with a decoder table `dt`, and `build_decoder` on ANY table with the right `max_symbol`, over any
source that starts with the written description, returns exactly `dt` and the length of the description. -/
theorem seq_table_bridge_blk_gen (codes : List Nat) (maxLog maxSym : Nat)
    (hlog5 : 5 ≤ maxLog) (hlog9 : maxLog ≤ 9) (hsym1 : 1 ≤ maxSym) (hsym255 : maxSym ≤ 255)
    (hfit : maxSym + 1 ≤ 2 ^ maxLog)
    (hne : codes ≠ []) (hc : ∀ c ∈ codes, c ≤ maxSym) :
    ∃ et al dt, buildTableFromData codes maxLog true = .ok et ∧ dt.maxSymbol = maxSym ∧
      Coupled et dt al (fun s => s ∈ codes) ∧
      ∀ {w : BitWriter} {L : List Bool}, WInv w L → L.length % 8 = 0 →
        ∃ w' D, et.writeTable w = .ok w' ∧ WInv w' (L ++ D) ∧ D.length % 8 = 0 ∧
          ∀ (src : Array Nat) (rest : List Bool) (t : DTable), Bytes src.toList →
            bitsLE src.toList = D ++ rest → t.maxSymbol = maxSym →
            t.buildDecoder src maxLog = (dt, .ok (D.length / 8)) := by
  have hh := histogram_ok codes maxSym hsym1 hsym255 hne hc
  obtain ⟨c0, hc0⟩ := List.exists_mem_of_ne_nil codes hne
  have hposx : ∃ c ∈ histogram codes, c > 0 := by
    have hp := hh.pos c0 hc0
    have hlt : c0 < (histogram codes).length := by
      apply Classical.byContradiction
      intro hge
      rw [List.getD_eq_getElem?_getD, List.getElem?_eq_none (by omega)] at hp
      exact absurd hp (by decide)
    refine ⟨(histogram codes)[c0], List.getElem_mem hlt, ?_⟩
    rw [List.getD_eq_getElem?_getD, List.getElem?_eq_getElem hlt] at hp
    exact hp
  obtain ⟨probs, al, hnorm, hnok⟩ := FseNormalize.normalize_valid_partial (histogram codes) maxLog true
    (by show 5 ≤ maxLog; exact hlog5) hh.len2 (by have := hh.lenMax; omega)
    (by have := hh.lenMax; omega) hposx
  have hd := distOk_of_normOk hh hnok
  have hb := validDist_of_distOk hlog9 hsym255 hd
  obtain ⟨et, dec, ctr, het, hdec, hts, hsz, hdsz, _, _, hprob, _⟩ :=
    FseEncTable.enc_table_eq_dec_table (maxSymbol := maxSym) hb hd.len
  have hcoupled := FseCoupled.coupled_of_buildable
    (dt := { maxSymbol := maxSym, decode := dec, accuracyLog := al, probs := probs.toArray,
             symbolCounter := ctr }) hb hd.len het hdec rfl rfl
  refine ⟨et, al, _, ?_, rfl, coupled_mono (fun s hs => hd.usable s hs) hcoupled, ?_⟩
  · show buildTableFromCounts (histogram codes) maxLog true = .ok et
    unfold buildTableFromCounts
    rw [hnorm]
    exact het
  · intro w L hw hL
    have hcar : FseTableDesc.Carries et al probs := ⟨hts, hsz, fun i _ => hprob i⟩
    obtain ⟨w', D, h1, h2, h3, h4⟩ := FseTableDesc.write_read_table et al probs hd.al5 (by have := hd.alMax; omega)
      (by have := hd.len; omega) (fun p hp => by have := hd.nonneg p hp; omega) hd.mass hd.last hcar hw hL
    refine ⟨w', D, h1, h2, h3, ?_⟩
    intro src rest t hby hbits ht
    have hrd := h4 src rest { t with accuracyLog := 0 } maxLog hby hbits hd.alMax
      (by show probs.length ≤ t.maxSymbol + 1; rw [ht]; exact hd.len)
      (by
        intro hl
        have := hd.nonneg (-1) (List.mem_of_getLast? hl)
        omega)
    have := FseEndToEnd.buildDecoder_of_read (t := t) hrd (by rw [ht]; exact hdec)
    rw [this, ht]

theorem seq_table_bridge_blk (codes : List Nat) (maxLog maxSym : Nat)
    (hprod : (maxLog = 9 ∧ maxSym = 35) ∨ (maxLog = 9 ∧ maxSym = 52) ∨ (maxLog = 8 ∧ maxSym = 31))
    (hne : codes ≠ []) (hc : ∀ c ∈ codes, c ≤ maxSym) :
    ∃ et al dt, buildTableFromData codes maxLog true = .ok et ∧ dt.maxSymbol = maxSym ∧
      Coupled et dt al (fun s => s ∈ codes) ∧
      ∀ {w : BitWriter} {L : List Bool}, WInv w L → L.length % 8 = 0 →
        ∃ w' D, et.writeTable w = .ok w' ∧ WInv w' (L ++ D) ∧ D.length % 8 = 0 ∧
          ∀ (src : Array Nat) (rest : List Bool) (t : DTable), Bytes src.toList →
            bitsLE src.toList = D ++ rest → t.maxSymbol = maxSym →
            t.buildDecoder src maxLog = (dt, .ok (D.length / 8)) := by
  rcases hprod with ⟨rfl, rfl⟩ | ⟨rfl, rfl⟩ | ⟨rfl, rfl⟩
  · exact seq_table_bridge_blk_gen codes 9 35 (by decide) (by decide) (by decide) (by decide) (by decide) hne hc
  · exact seq_table_bridge_blk_gen codes 9 52 (by decide) (by decide) (by decide) (by decide) (by decide) hne hc
  · exact seq_table_bridge_blk_gen codes 8 31 (by decide) (by decide) (by decide) (by decide) (by decide) hne hc

/-! ### 6. the section -/

theorem modeOf_two : Blk.modeOf 2 = 2 := by decide

/-- the scratch after a section with three `FSE_Compressed` tables -/
def installed (dtL dtO dtM : DTable) : Blk.FseScratch :=
  { offsets := dtO, ofRle := none, literalLengths := dtL, llRle := none, matchLengths := dtM, mlRle := none }

theorem scratchIs_installed (dtL dtO dtM : DTable) : ScratchIs (installed dtL dtO dtM) dtL dtM dtO :=
  ⟨rfl, rfl, rfl, rfl, rfl, rfl⟩

/-- `maybe_update_fse_tables` for the modes byte 168 (three `FSE_Compressed` tables) -/
theorem maybeUpdate_ok {src : Array Nat} {s : Blk.FseScratch} {dtL dtO dtM : DTable} {k1 k2 k3 : Nat}
    (h1 : s.literalLengths.buildDecoder src 9 = (dtL, .ok k1))
    (h2 : s.offsets.buildDecoder (src.extract k1 src.size) 8 = (dtO, .ok k2))
    (h3 : s.matchLengths.buildDecoder (src.extract (k1 + k2) src.size) 9 = (dtM, .ok k3))
    (hle : k1 + k2 ≤ src.size) :
    Blk.maybeUpdateFseTables (some 168) src s = (installed dtL dtO dtM, .ok (k1 + k2 + k3)) := by
  simp only [Blk.maybeUpdateFseTables, Nat.reduceDiv, Nat.reduceMod, modeOf_two, Blk.updateOne, if_true, Gen.llMaxLog, Gen.ofMaxLog,
    Gen.mlMaxLog, h1, h2, h3, if_neg (show ¬ k1 > src.size by omega),
    if_neg (show ¬ k1 + k2 > src.size by omega), installed]

theorem suffix_bits' {out : Array Nat} {D S : List Bool} {k : Nat} (hb : Bytes out.toList)
    (hbits : bitsLE out.toList = D ++ S) (hk : D.length = 8 * k) :
    Bytes (out.extract k out.size).toList ∧ bitsLE (out.extract k out.size).toList = S := by
  have := FseEndToEnd.suffix_bits hb hbits (by omega)
  rwa [show D.length / 8 = k by omega] at this

/-- **`encode_decode_sequences` against the faithful decoder mirror, coded form.**  For every non-empty list
of coded sequences with the C14 facts and every scratch whose three tables have the `max_symbol`s of
`FSEScratch::new`: `encodeSeqSectionReal` writes the modes byte 168 followed by bytes `rest`, and
`Blk.decodeSequences` (the mirror of `decode_sequences`) on `rest` returns exactly the sequences — no fault,
stream exactly consumed — and leaves the three freshly built tables (no RLE symbol) in the scratch; these have
the same `max_symbol`s again, so the theorem applies to the next block with the scratch it leaves. -/
theorem encode_decode_sequences_blk_coded (ps : List (Enc.CodedSeq × Spec.Seq)) (hne : ps ≠ [])
    (hf : ∀ p ∈ ps, CodedFacts p.1 p.2) (s : Blk.FseScratch)
    (hs : s.literalLengths.maxSymbol = Gen.maxLiteralLengthCode ∧ s.offsets.maxSymbol = Gen.maxOffsetCode ∧
          s.matchLengths.maxSymbol = Gen.maxMatchLengthCode) :
    ∃ rest dtL dtO dtM, Enc.encodeSeqSectionReal (ps.map (·.1)) = .ok (168 :: rest) ∧ Bytes rest ∧
      (dtL.maxSymbol = Gen.maxLiteralLengthCode ∧ dtO.maxSymbol = Gen.maxOffsetCode ∧
        dtM.maxSymbol = Gen.maxMatchLengthCode) ∧
      Blk.decodeSequences ps.length (some 168) rest s = (installed dtL dtO dtM, .ok (ps.map (·.2))) := by
  obtain ⟨hsL, hsO, hsM⟩ := hs
  -- the three tables
  have hcne : ∀ (f : Enc.CodedSeq → Nat), (ps.map (·.1)).map f ≠ [] := by
    intro f h
    simp at h
    exact hne h
  obtain ⟨llT, alL, dtL, hbl, hmsL, hcL, hdL⟩ := seq_table_bridge_blk ((ps.map (·.1)).map (·.ll.1)) 9 35
    (Or.inl ⟨rfl, rfl⟩) (hcne _) (by
      intro c hc
      simp only [List.mem_map] at hc
      obtain ⟨_, ⟨p, hp, rfl⟩, rfl⟩ := hc
      exact (hf p hp).ll_le)
  obtain ⟨mlT, alM, dtM, hbm, hmsM, hcM, hdM⟩ := seq_table_bridge_blk ((ps.map (·.1)).map (·.ml.1)) 9 52
    (Or.inr (Or.inl ⟨rfl, rfl⟩)) (hcne _) (by
      intro c hc
      simp only [List.mem_map] at hc
      obtain ⟨_, ⟨p, hp, rfl⟩, rfl⟩ := hc
      exact (hf p hp).ml_le)
  obtain ⟨ofT, alO, dtO, hbo, hmsO, hcO, hdO⟩ := seq_table_bridge_blk ((ps.map (·.1)).map (·.of.1)) 8 31
    (Or.inr (Or.inr ⟨rfl, rfl⟩)) (hcne _) (by
      intro c hc
      simp only [List.mem_map] at hc
      obtain ⟨_, ⟨p, hp, rfl⟩, rfl⟩ := hc
      exact (hf p hp).ofRow.2.1)
  -- the writer chain
  obtain ⟨w0, hw0, hi0⟩ := bitWriter_refines (v := 168) (n := 8) WInv_new (by decide) (by decide)
  simp only [List.nil_append] at hi0
  obtain ⟨w1, D1, hw1, hi1, ha1, hr1⟩ := hdL hi0 (by simp)
  obtain ⟨w2, D2, hw2, hi2, ha2, hr2⟩ := hdO hi1 (by simp [List.length_append]; omega)
  obtain ⟨w3, D3, hw3, hi3, ha3, hr3⟩ := hdM hi2 (by simp [List.length_append]; omega)
  obtain ⟨w4, S, hw4, hi4, ha4, hSne, hdec⟩ := seq_stream_decodes_blk hcL hcM hcO ps hne (by
    intro p hp
    have h := hf p hp
    exact ⟨List.mem_map.mpr ⟨p.1, List.mem_map.mpr ⟨p, hp, rfl⟩, rfl⟩,
           List.mem_map.mpr ⟨p.1, List.mem_map.mpr ⟨p, hp, rfl⟩, rfl⟩,
           List.mem_map.mpr ⟨p.1, List.mem_map.mpr ⟨p, hp, rfl⟩, rfl⟩,
           h.llRow, h.mlRow, h.ofRow, h.llFit, h.mlFit, h.ofFit⟩) hi3
  obtain ⟨out, hdump, hbits, hbytes⟩ := bitWriter_dump hi4 (by
    simp only [List.length_append, length_bitsOfLE] at ha4 ⊢; omega)
  -- the bytes
  have hbody : Enc.encodeSeqSectionReal (ps.map (·.1)) = .ok out.toList := by
    simp only [Enc.encodeSeqSectionReal, Gen.llEncMaxLog, Gen.mlEncMaxLog, Gen.ofEncMaxLog, Gen.seqEncAvoidZeroBits, hbl, hbm, hbo]
    show Enc.dumpBytes _ = _
    have h168 : (2 * 64 + 2 * 16 + 2 * 4 : Nat) = 168 := by decide
    simp only [h168, hw0, hw1, hw2, hw3, hw4, Enc.dumpBytes, hdump]
  obtain ⟨rest, hout, hbrest, hrestbits⟩ := head_byte (v := 168) (B := D1 ++ D2 ++ D3 ++ S) hbytes (by decide)
    (by simp only [hbits, List.append_assoc])
  refine ⟨rest, dtL, dtO, dtM, by rw [hbody, hout], hbrest, ⟨hmsL, hmsO, hmsM⟩, ?_⟩
  -- the source array and its suffixes
  obtain ⟨k1, hk1⟩ : ∃ k, D1.length = 8 * k := ⟨D1.length / 8, by omega⟩
  obtain ⟨k2, hk2⟩ : ∃ k, D2.length = 8 * k := ⟨D2.length / 8, by omega⟩
  obtain ⟨k3, hk3⟩ : ∃ k, D3.length = 8 * k := ⟨D3.length / 8, by omega⟩
  have hu1 : D1.length / 8 = k1 := by omega
  have hu2 : D2.length / 8 = k2 := by omega
  have hu3 : D3.length / 8 = k3 := by omega
  generalize hsrc : rest.toArray = src
  have hsl : src.toList = rest := by rw [← hsrc]
  have hb0 : Bytes src.toList := by rw [hsl]; exact hbrest
  have hbits0 : bitsLE src.toList = D1 ++ D2 ++ D3 ++ S := by rw [hsl]; exact hrestbits
  have hsz := congrArg List.length hbits0
  simp only [length_bitsLE, Array.length_toList, List.length_append] at hsz
  obtain ⟨hb1, hbits1⟩ := suffix_bits' (D := D1) (S := D2 ++ D3 ++ S) hb0
    (by simp only [hbits0, List.append_assoc]) hk1
  obtain ⟨hb2, hbits2⟩ := suffix_bits' (D := D1 ++ D2) (S := D3 ++ S) (k := k1 + k2) hb0
    (by simp only [hbits0, List.append_assoc]) (by simp only [List.length_append]; omega)
  obtain ⟨hb3, hbits3⟩ := suffix_bits' (D := D1 ++ D2 ++ D3) (S := S) (k := k1 + k2 + k3) hb0
    hbits0 (by simp only [List.length_append]; omega)
  have hd1 := hr1 src (D2 ++ D3 ++ S) s.literalLengths hb0 (by simp only [hbits0, List.append_assoc]) hsL
  have hd2 := hr2 _ (D3 ++ S) s.offsets hb1 (by simp only [hbits1, List.append_assoc]) hsO
  have hd3 := hr3 _ S s.matchLengths hb2 hbits2 hsM
  rw [hu1] at hd1; rw [hu2] at hd2; rw [hu3] at hd3
  have hupd := maybeUpdate_ok hd1 hd2 hd3 (by omega)
  obtain ⟨br, llD, br1, ofD, br2, mlD, br3, brEnd, hskip, hiL, hiO, hiM, hloop, hrem⟩ :=
    hdec _ (installed dtL dtO dtM) (Fse.Decoder.new dtL) (Fse.Decoder.new dtO) (Fse.Decoder.new dtM)
      hb3 hbits3 (scratchIs_installed dtL dtO dtM)
  simp only [Blk.decodeSequences, Blk.decodeSeqStream, hsrc, hupd, if_neg (show ¬ k1 + k2 + k3 > src.size by omega), hskip]
  simp only [installed, Option.isNone_none, if_true, hiL, hiO, hiM, Blk.liftFse] at hloop ⊢
  simp only [hloop, hrem, Int.lt_irrefl, if_false]

/-- **`encode_decode_sequences_blk`** (the form of the task): all sequences, exactly consumed, no fault. -/
theorem encode_decode_sequences_blk (ps : List (Enc.CodedSeq × Spec.Seq)) (hne : ps ≠ [])
    (hf : ∀ p ∈ ps, CodedFacts p.1 p.2) (s : Blk.FseScratch)
    (hs : s.literalLengths.maxSymbol = Gen.maxLiteralLengthCode ∧ s.offsets.maxSymbol = Gen.maxOffsetCode ∧
          s.matchLengths.maxSymbol = Gen.maxMatchLengthCode) :
    ∃ rest, Enc.encodeSeqSectionReal (ps.map (·.1)) = .ok (168 :: rest) ∧
      (Blk.decodeSequences ps.length (some 168) rest s).2 = .ok (ps.map (·.2)) := by
  obtain ⟨rest, dtL, dtO, dtM, h1, _, _, h2⟩ := encode_decode_sequences_blk_coded ps hne hf s hs
  exact ⟨rest, h1, by rw [h2]⟩

/-- the scratch left by the theorem satisfies its hypothesis again … -/
theorem installed_maxSymbols {dtL dtO dtM : DTable} (hL : dtL.maxSymbol = Gen.maxLiteralLengthCode)
    (hO : dtO.maxSymbol = Gen.maxOffsetCode) (hM : dtM.maxSymbol = Gen.maxMatchLengthCode) :
    (installed dtL dtO dtM).literalLengths.maxSymbol = Gen.maxLiteralLengthCode ∧
      (installed dtL dtO dtM).offsets.maxSymbol = Gen.maxOffsetCode ∧
      (installed dtL dtO dtM).matchLengths.maxSymbol = Gen.maxMatchLengthCode := ⟨hL, hO, hM⟩

/-- … and so does `FSEScratch::new()` -/
theorem new_maxSymbols : ({} : Blk.FseScratch).literalLengths.maxSymbol = Gen.maxLiteralLengthCode ∧
    ({} : Blk.FseScratch).offsets.maxSymbol = Gen.maxOffsetCode ∧
    ({} : Blk.FseScratch).matchLengths.maxSymbol = Gen.maxMatchLengthCode := ⟨rfl, rfl, rfl⟩

/-- **With the section header.**  Count (`encode_seqnum`) + body: `SequencesHeader::parse_from_header`
(`parseSeqHeader`) returns the count, the modes byte 168 and the header length, and `decode_sequences` on
what follows the header — exactly the call `decompress_block` makes — returns the sequences. -/
theorem encode_decode_sequences_blk_header (ps : List (Enc.CodedSeq × Spec.Seq)) (hne : ps ≠ [])
    (hn : ps.length ≤ 0xFFFF + 0x7F00) (hf : ∀ p ∈ ps, CodedFacts p.1 p.2) (s : Blk.FseScratch)
    (hs : s.literalLengths.maxSymbol = Gen.maxLiteralLengthCode ∧ s.offsets.maxSymbol = Gen.maxOffsetCode ∧
          s.matchLengths.maxSymbol = Gen.maxMatchLengthCode) :
    ∃ cnt body shLen dtL dtO dtM, encodeSeqnum ps.length = .ok cnt ∧
      Enc.encodeSeqSectionReal (ps.map (·.1)) = .ok body ∧ Bytes (cnt ++ body) ∧
      parseSeqHeader (cnt ++ body) = .ok (ps.length, some 168, shLen) ∧
      (dtL.maxSymbol = Gen.maxLiteralLengthCode ∧ dtO.maxSymbol = Gen.maxOffsetCode ∧
        dtM.maxSymbol = Gen.maxMatchLengthCode) ∧
      Blk.decodeSequences ps.length (some 168) ((cnt ++ body).drop shLen) s
        = (installed dtL dtO dtM, .ok (ps.map (·.2))) := by
  have hlen1 : 1 ≤ ps.length := by
    cases ps with
    | nil => exact absurd rfl hne
    | cons _ _ => simp
  obtain ⟨cnt, hcnt, hcb, _, hparse⟩ := Props.C14.seqnum_roundtrip ps.length 168 hlen1 hn
  obtain ⟨rest, dtL, dtO, dtM, hbody, hbr, hms, hdec⟩ := encode_decode_sequences_blk_coded ps hne hf s hs
  have hp : Spec.parseSeqCount (cnt ++ 168 :: rest) = some (ps.length, cnt.length) := by
    have := parseSeqCount_append hparse rest
    simpa [List.append_assoc] using this
  have hhdr : parseSeqHeader (cnt ++ 168 :: rest) = .ok (ps.length, some 168, cnt.length + 1) := by
    have h := Props.C14.seqnum_parse_eq_rfc (cnt ++ 168 :: rest)
    rw [hp] at h
    simp only [if_neg (show ¬ ps.length = 0 by omega)] at h
    rw [List.getElem?_append_right (Nat.le_refl _), Nat.sub_self] at h
    exact h
  refine ⟨cnt, 168 :: rest, cnt.length + 1, dtL, dtO, dtM, hcnt, hbody, ?_, hhdr, hms, ?_⟩
  · refine Bytes_append.mpr ⟨hcb, Bytes_cons.mpr ⟨by decide, hbr⟩⟩
  · rw [show (cnt ++ 168 :: rest).drop (cnt.length + 1) = rest by
      rw [← List.drop_drop, List.drop_left]; rfl]
    exact hdec

open Zstd.Model.Enc Zstd.Proofs.Enc in
/-- **From Rust sequences.**  For every non-empty list of Rust sequences with in-range values (literal
length ≤ 131071, 3 ≤ match length ≤ 131074, 1 ≤ offset value < 2^32): the three code mappings succeed, and
what `compress_block` appends after the sequence count — the modes byte 168, the LL/OF/ML table descriptions
and the `encode_sequences` bitstream — is decoded by the faithful mirror of `decode_sequences` to exactly
those sequences. -/
theorem encode_decode_sequences_blk_rust (rseqs : List RSeq) (hne : rseqs ≠ [])
    (hr : ∀ r ∈ rseqs, InRange r) (s : Blk.FseScratch)
    (hs : s.literalLengths.maxSymbol = Gen.maxLiteralLengthCode ∧ s.offsets.maxSymbol = Gen.maxOffsetCode ∧
          s.matchLengths.maxSymbol = Gen.maxMatchLengthCode) :
    ∃ lls mls ofs rest dtL dtO dtM,
      mapMExcept (fun s : RSeq => encodeLL s.ll) rseqs = .ok lls ∧
      mapMExcept (fun s : RSeq => encodeML s.ml) rseqs = .ok mls ∧
      mapMExcept (fun s : RSeq => encodeOffset s.of) rseqs = .ok ofs ∧
      Enc.encodeSeqSectionReal ((lls.zip (mls.zip ofs)).map (fun (a, b, c) => Enc.CodedSeq.mk a b c))
        = .ok (168 :: rest) ∧ Bytes rest ∧
      (dtL.maxSymbol = Gen.maxLiteralLengthCode ∧ dtO.maxSymbol = Gen.maxOffsetCode ∧
        dtM.maxSymbol = Gen.maxMatchLengthCode) ∧
      Blk.decodeSequences rseqs.length (some 168) rest s
        = (installed dtL dtO dtM, .ok (rseqs.map specSeq)) := by
  obtain ⟨lls, h1, _⟩ := mapMExcept_ok (fun s : RSeq => encodeLL s.ll) rseqs (fun r hrm => by
    obtain ⟨c, x, b, h, _⟩ := encodeLL_ok r.ll (by have := (hr r hrm).1; omega)
    exact ⟨_, h⟩)
  obtain ⟨mls, h2, _⟩ := mapMExcept_ok (fun s : RSeq => encodeML s.ml) rseqs (fun r hrm => by
    obtain ⟨c, x, b, h, _⟩ := encodeML_ok r.ml (hr r hrm).2.1 (by have := (hr r hrm).2.2.1; omega)
    exact ⟨_, h⟩)
  obtain ⟨ofs, h3, _⟩ := mapMExcept_ok (fun s : RSeq => encodeOffset s.of) rseqs (fun r hrm => by
    obtain ⟨c, x, h, _⟩ := encodeOffset_ok r.of (hr r hrm).2.2.2.1 (hr r hrm).2.2.2.2
    exact ⟨_, h⟩)
  obtain ⟨ps, p1, p2, p3, p4⟩ := coded_pairs rseqs lls mls ofs hr h1 h2 h3
  have hpne : ps ≠ [] := by
    intro h; rw [h] at p3; simp at p3
    exact hne (List.eq_nil_of_length_eq_zero p3.symm)
  obtain ⟨rest, dtL, dtO, dtM, hb, hby, hms, hd⟩ := encode_decode_sequences_blk_coded ps hpne p4 s hs
  rw [p1] at hb; rw [p2, p3] at hd
  exact ⟨lls, mls, ofs, rest, dtL, dtO, dtM, h1, h2, h3, hb, hby, hms, hd⟩

end Zstd.Proofs.SeqSectionBlk

