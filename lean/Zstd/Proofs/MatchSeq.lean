import Zstd.Proofs.MatchBasics
/-
Helper lemmas for C17, part 2: what one call of `next_sequence` reports and how it moves the
indices; independent of the hash function and of the content of the suffix stores.
-/
namespace Zstd.Proofs.MG
open Zstd Zstd.Model.MG

/-- the meaning of the optional sequence returned by one `next_sequence` call that started with
`last_idx_in_sequence = lastIdx` on the block `data` inside the window `w` and ended with
`suffix_idx = sEnd` -/
def StepOut (data : Array Byte) (w : Shape) (lastIdx sEnd : Nat) : Option Seq → Prop
  | none => sEnd = lastIdx ∧ lastIdx = data.size
  | some (.literals l) => l = lits data lastIdx data.size ∧ sEnd = data.size ∧ lastIdx < data.size
  | some (.triple l off ml) =>
    ∃ s', lastIdx ≤ s' ∧ l = lits data lastIdx s' ∧ sEnd = s' + ml ∧ GoodIn data s' w (off, ml)

theorem nextLoop_spec (key : KeyFn) (older : List Entry) (last : Entry) (lastIdx : Nat) :
    ∀ (fuel : Nat) (st : SuffixStore) (s : Nat) (o : LoopOut), lastIdx ≤ s → s ≤ last.data.size →
      nextLoop key older last lastIdx fuel st s = .ok o →
      o.lastIdx = o.suffixIdx ∧ o.suffixIdx ≤ last.data.size ∧ s ≤ o.suffixIdx ∧
      StepOut last.data (shape (older ++ [last])) lastIdx o.suffixIdx o.seq := by
  intro fuel
  induction fuel with
  | zero => intro st s o _ _ h; simp [nextLoop] at h
  | succ fuel ih =>
    intro st s o hl hs h
    unfold nextLoop at h
    simp only [Zstd.Gen.mgAtEnd, Zstd.Gen.mgPendingLits, Zstd.Gen.mgTailShort, decide_eq_true_eq] at h
    split at h
    · rename_i hend
      split at h
      · rename_i hne
        split at h
        · simp at h
        · simp only [Except.ok.injEq] at h
          subst h
          refine ⟨rfl, by simp; omega, by simp, ?_⟩
          simp only [StepOut]
          refine ⟨trivial, by omega, by omega⟩
      · rename_i hne
        simp only [Except.ok.injEq] at h
        subst h
        refine ⟨by simp; omega, by simp; omega, by simp, ?_⟩
        simp only [StepOut]
        omega
    · rename_i hend
      split at h
      · split at h
        · simp at h
        · simp only [Except.ok.injEq] at h
          subst h
          refine ⟨rfl, by simp, by simp; omega, ?_⟩
          simp only [StepOut]
          exact ⟨trivial, trivial, by omega⟩
      · split at h
        · simp at h
        · rename_i offset ml hfc
          split at h
          · simp at h
          · split at h
            · simp at h
            · simp only [Except.ok.injEq] at h
              subst h
              have hg := findCandidate_sound key last.data s (keyAt last.data s) hs _ none (offset, ml) hfc
              rcases hg with hg | hg
              · simp at hg
              · have hsh : shape (older ++ [{ last with suffixes := st }]) = shape (older ++ [last]) := by
                  simp [shape]
                rw [hsh] at hg
                have hml : s + ml ≤ last.data.size := by
                  obtain ⟨_, _, _, _, _, hgc⟩ := hg
                  obtain ⟨_, _, _, _, _, _, h6, _⟩ := hgc
                  exact h6
                refine ⟨rfl, hml, by simp, ?_⟩
                simp only [StepOut]
                exact ⟨s, by omega, rfl, rfl, hg⟩
        · split at h
          · simp at h
          · rename_i st' _
            have := ih st' (s + 1) o (by omega) (by omega) h
            obtain ⟨h1, h2, h3, h4⟩ := this
            exact ⟨h1, h2, by omega, h4⟩

end Zstd.Proofs.MG

namespace Zstd.Proofs.MG
open Zstd Zstd.Model.MG

theorem eq_dropLast_append_of_getLast? {α} : ∀ (l : List α) (a : α), l.getLast? = some a → l = l.dropLast ++ [a]
  | [], a, h => by simp at h
  | [x], a, h => by simp at h; simp [h]
  | x :: y :: r, a, h => by
    rw [List.getLast?_cons_cons] at h
    have := eq_dropLast_append_of_getLast? (y :: r) a h
    simp only [List.dropLast_cons_cons, List.cons_append]
    rw [← this]

/-! ### well-formedness of the generator state (what the soundness of the reported sequences needs) -/

def total (w : Shape) : Nat := (w.map (fun e => e.1.size)).sum

@[simp] theorem total_nil : total [] = 0 := rfl
@[simp] theorem total_cons (e : Array Byte × Nat) (w : Shape) : total (e :: w) = e.1.size + total w := by
  simp [total]
@[simp] theorem total_append (a b : Shape) : total (a ++ b) = total a + total b := by
  simp [total]

/-- `base_offset` of every entry = number of bytes from the start of that entry to the start of the
last entry (the block being matched) -/
def BaseOk : Shape → Prop
  | [] => True
  | e :: r => e.2 = total (e :: r).dropLast ∧ BaseOk r

structure WF (g : MatchGenerator) : Prop where
  base : BaseOk (shape g.window)
  size : g.windowSize = total (shape g.window)
  le_max : g.windowSize ≤ g.maxWindowSize
  idx_eq : g.lastIdxInSequence = g.suffixIdx
  idx_le : ∀ last, g.window.getLast? = some last → g.suffixIdx ≤ last.data.size

theorem nextSequence_spec (key : KeyFn) (g g' : MatchGenerator) (r : Option Seq) (hwf : WF g)
    (h : g.nextSequence key = .ok (g', r)) :
    ∃ last, g.window.getLast? = some last ∧ shape g'.window = shape g.window ∧
      (∃ last', g'.window.getLast? = some last' ∧ last'.data = last.data) ∧
      g'.maxWindowSize = g.maxWindowSize ∧ g'.windowSize = g.windowSize ∧
      g'.lastIdxInSequence = g'.suffixIdx ∧ g'.suffixIdx ≤ last.data.size ∧ g.suffixIdx ≤ g'.suffixIdx ∧
      StepOut last.data (shape g.window) g.suffixIdx g'.suffixIdx r := by
  unfold MatchGenerator.nextSequence at h
  split at h
  · simp at h
  · rename_i last hlast
    split at h
    · simp at h
    · rename_i o ho
      simp only [Except.ok.injEq, Prod.mk.injEq] at h
      obtain ⟨hg, hr⟩ := h
      subst hg hr
      have hw := eq_dropLast_append_of_getLast? g.window last hlast
      have hs := hwf.idx_le last hlast
      obtain ⟨h1, h2, h3, h4⟩ := nextLoop_spec key g.window.dropLast last g.lastIdxInSequence _ _ _ o
        (by rw [hwf.idx_eq]; exact Nat.le_refl _) hs ho
      rw [← hw, hwf.idx_eq] at h4
      refine ⟨last, hlast, ?_, ?_, rfl, rfl, h1, h2, h3, h4⟩
      · simp only [MatchGenerator.setLast]
        conv => rhs; rw [hw]
        simp [shape]
      · exact ⟨{ last with suffixes := o.store }, by simp [MatchGenerator.setLast], rfl⟩

theorem nextSequence_wf (key : KeyFn) (g g' : MatchGenerator) (r : Option Seq) (hwf : WF g)
    (h : g.nextSequence key = .ok (g', r)) : WF g' := by
  obtain ⟨last, hl, hsh, ⟨last', hl', hd⟩, hm, hws, hi, hle, _, _⟩ := nextSequence_spec key g g' r hwf h
  refine ⟨by rw [hsh]; exact hwf.base, by rw [hws, hsh]; exact hwf.size, by rw [hws, hm]; exact hwf.le_max, hi, ?_⟩
  intro l hl2
  rw [hl'] at hl2
  cases hl2
  rw [hd]; exact hle

/-- index-level meaning of the sequences reported for the block `data` from position `pos` on -/
def Parse (data : Array Byte) (w : Shape) : Nat → List Seq → Prop
  | pos, [] => pos = data.size
  | pos, .literals l :: rest => l = lits data pos data.size ∧ pos < data.size ∧ rest = []
  | pos, .triple l off ml :: rest =>
    ∃ s', pos ≤ s' ∧ l = lits data pos s' ∧ s' + ml ≤ data.size ∧ GoodIn data s' w (off, ml) ∧
      Parse data w (s' + ml) rest

theorem goodIn_len {cur : Array Byte} {s : Nat} {w : Shape} {c : Nat × Nat} (h : GoodIn cur s w c) :
    minMatchLen ≤ c.2 ∧ s + c.2 ≤ cur.size := by
  obtain ⟨_, _, _, _, _, _, _, _, h3, _, _, h6, _⟩ := h
  exact ⟨h3, h6⟩

theorem parse_at_end (data : Array Byte) (w : Shape) : ∀ seqs, Parse data w data.size seqs → seqs = [] := by
  intro seqs h
  cases seqs with
  | nil => rfl
  | cons sq rest =>
    cases sq with
    | literals l => simp only [Parse] at h; omega
    | triple l off ml =>
      simp only [Parse] at h
      obtain ⟨s', h1, _, h3, h4, _⟩ := h
      have := (goodIn_len h4).1
      have := minMatchLen_pos
      simp only [] at *
      omega

theorem startLoop_spec (key : KeyFn) : ∀ (fuel : Nat) (g g' : MatchGenerator) (seqs : List Seq), WF g →
    MatchGenerator.startLoop key fuel g = .ok (g', seqs) →
    ∃ last, g.window.getLast? = some last ∧ shape g'.window = shape g.window ∧
      (∃ last', g'.window.getLast? = some last' ∧ last'.data = last.data) ∧
      g'.maxWindowSize = g.maxWindowSize ∧ WF g' ∧
      g'.suffixIdx = last.data.size ∧ Parse last.data (shape g.window) g.suffixIdx seqs := by
  intro fuel
  induction fuel with
  | zero => intro g g' seqs _ h; simp [MatchGenerator.startLoop] at h
  | succ fuel ih =>
    intro g g' seqs hwf h
    unfold MatchGenerator.startLoop at h
    split at h
    · simp at h
    · rename_i g1 hns
      simp only [Except.ok.injEq, Prod.mk.injEq] at h
      obtain ⟨hg, hs⟩ := h
      subst hg hs
      have hwf1 := nextSequence_wf key g g1 none hwf hns
      obtain ⟨last, hl, hsh, hl', hm, _, _, _, _, hso⟩ := nextSequence_spec key g g1 none hwf hns
      simp only [StepOut] at hso
      refine ⟨last, hl, hsh, hl', hm, hwf1, by omega, ?_⟩
      simp only [Parse]; omega
    · rename_i g1 sq hns
      split at h
      · simp at h
      · rename_i g2 rest hrest
        simp only [Except.ok.injEq, Prod.mk.injEq] at h
        obtain ⟨hg, hs⟩ := h
        subst hg hs
        have hwf1 := nextSequence_wf key g g1 (some sq) hwf hns
        obtain ⟨last, hl, hsh, ⟨last1, hl1, hd1⟩, hm, _, _, _, _, hso⟩ := nextSequence_spec key g g1 (some sq) hwf hns
        obtain ⟨last1', hl1', hsh2, ⟨last2, hl2, hd2⟩, hm2, hwf2, hend, hp⟩ := ih g1 g2 rest hwf1 hrest
        rw [hl1] at hl1'
        cases hl1'
        rw [hd1] at hend hp hd2
        rw [hsh] at hp hsh2
        refine ⟨last, hl, hsh2, ⟨last2, hl2, hd2⟩, by rw [hm2, hm], hwf2, hend, ?_⟩
        cases sq with
        | literals l =>
          simp only [StepOut] at hso
          obtain ⟨h1, h2, h3⟩ := hso
          rw [h2] at hp
          simp only [Parse]
          exact ⟨h1, h3, parse_at_end _ _ _ hp⟩
        | triple l off ml =>
          simp only [StepOut] at hso
          obtain ⟨s', h1, h2, h3, h4⟩ := hso
          simp only [Parse]
          rw [h3] at hp
          exact ⟨s', h1, h2, (goodIn_len h4).2, h4, hp⟩

end Zstd.Proofs.MG
