import Zstd.Proofs.SeqCoupled
import Zstd.Proofs.FseCoupled
import Zstd.Proofs.FseNormalize
import Zstd.Proofs.FseTableDesc
import Zstd.Proofs.FseReadDesc
/-
The FSE tables of the sequence section: what the compressor builds and writes is what the STRICT decoder
of the specification reads and builds, and the two are coupled in the form the sequence-stream proof needs.

Per block the compressor calls `build_table_from_data(codes, max_log, true)` three times (literal-length,
match-length and offset codes; `max_log` 9 / 9 / 8, codes `≤ 35 / 52 / 31`) and writes the tables with
`write_table`.  Main result (FULL, no extra hypotheses; depends only on `propext`, `Classical.choice`, `Quot.sound`):

* `seq_table_bridge` : for non-empty `codes` with all codes `≤ maxSym`, `buildTableFromData codes maxLog true`
  succeeds with an encoder table `et`; there are `al`, `probs` and a Spec table `T` with
  `Spec.Fse.buildTable al probs = some T`, `SCoupled et T al (· ∈ codes)`, and `et.writeTable` after any
  byte-aligned prefix writes a whole number of bytes `D` such that `Spec.Fse.readDescription` on any byte
  string that starts with `D` returns `(al, probs, D.length / 8)`.
* `seq_table_bridge_gen` : the same for every `5 ≤ maxLog ≤ 9`, `1 ≤ maxSym ≤ 255`, `maxSym + 1 ≤ 2^maxLog`.
* `seq_table_bridge_gen2` : the same with a bound on the symbols (`bound ≤ maxSym`, `bound + 1 ≤ 2^maxLog`)
  separate from the `maxSym` of the description reader (Huffman-weight tables: bound 12, reader 255), plus:
  start states read at least one bit and have baseline 0 (zero-bit avoidance), `T.entries.size = 2^al`, `5 ≤ al`.

Steps:
  1. `histogram_ok`      : `histogram codes` has between 2 and `maxSym + 1` entries, every occurring code has
                           a positive count, and the last entry is positive unless the histogram is `[n, 0]`
                           (via `counts_getD`: the counting loop computes `List.count`, and `maxLoop_spec`);
  2. `distOk_of_normOk`  : `NormOk` (from `FseNormalize.normalize_valid_partial`) gives a valid distribution
                           without `-1`, every occurring code has a non-zero probability, and the last
                           probability is not 0 (in the `[n, 0]` case zero-bit avoidance forces
                           `probs = [2^(al-1), 2^(al-1)]`);
  3. `scoupled_of_coupled`: `FseStream.Coupled` with the model's decoder table becomes `SCoupled` with the
                           Spec's table (`FseDecTable.fse_build_refines`: the entries are `dec.map toSpecEntry`);
  4. description          : `FseTableDesc.write_read_table` + `FseReadDesc.fse_readProbabilities_complete`.
-/
namespace Zstd.Proofs.SeqTables
open Zstd Zstd.Model.Fse

/-! ## 1. the histogram -/

/-- the counting loop of `histogram` -/
def countLoop (data : List Nat) (init : Array Nat) : Array Nat :=
  data.foldl (fun (c : Array Nat) x => c.modify x (· + 1)) init

/-- the maximum-symbol loop of `histogram` -/
def maxLoop (counts : Array Nat) (n : Nat) : Nat :=
  (List.range n).foldl (fun m i => if counts.getD i 0 > 0 then i else m) 0

theorem histogram_eq (data : List Nat) :
    histogram data =
      ((countLoop data (Array.replicate 256 0)).extract 0
        (max (maxLoop (countLoop data (Array.replicate 256 0)) 256) 1 + 1)).toList := rfl

theorem countLoop_getElem? (data : List Nat) : ∀ (init : Array Nat) (i : Nat),
    (countLoop data init)[i]? = init[i]?.map (· + data.count i) := by
  induction data with
  | nil => intro init i; simp [countLoop]
  | cons x xs ih =>
    intro init i
    have h : countLoop (x :: xs) init = countLoop xs (init.modify x (· + 1)) := rfl
    rw [h, ih, Array.getElem?_modify, List.count_cons]
    by_cases hx : x = i
    · subst hx
      cases init[x]? with
      | none => simp
      | some v => simp; omega
    · have : (x == i) = false := by simpa using hx
      simp [hx]

theorem counts_getD (data : List Nat) (i : Nat) :
    (countLoop data (Array.replicate 256 0)).getD i 0 = if i < 256 then data.count i else 0 := by
  have h := countLoop_getElem? data (Array.replicate 256 0) i
  rw [Array.getD_eq_getD_getElem?, h]
  by_cases hi : i < 256
  · simp [hi]
  · simp [hi]

theorem counts_size (data : List Nat) : ∀ (init : Array Nat), (countLoop data init).size = init.size := by
  induction data with
  | nil => intro init; rfl
  | cons x xs ih =>
    intro init
    have h : countLoop (x :: xs) init = countLoop xs (init.modify x (· + 1)) := rfl
    rw [h, ih, Array.size_modify]

theorem maxLoop_spec (counts : Array Nat) : ∀ n,
    (maxLoop counts n = 0 ∨ (counts.getD (maxLoop counts n) 0 > 0 ∧ maxLoop counts n < n)) ∧
      ∀ i < n, counts.getD i 0 > 0 → i ≤ maxLoop counts n := by
  intro n
  induction n with
  | zero => exact ⟨Or.inl rfl, fun i hi => absurd hi (Nat.not_lt_zero _)⟩
  | succ n ih =>
    have h : maxLoop counts (n + 1) = if counts.getD n 0 > 0 then n else maxLoop counts n := by
      simp [maxLoop, List.range_succ, List.foldl_append]
    rw [h]
    by_cases hn : counts.getD n 0 > 0
    · rw [if_pos hn]
      refine ⟨Or.inr ⟨hn, by omega⟩, fun i hi _ => by omega⟩
    · rw [if_neg hn]
      refine ⟨?_, ?_⟩
      · rcases ih.1 with h0 | ⟨h1, h2⟩
        · exact Or.inl h0
        · exact Or.inr ⟨h1, by omega⟩
      · intro i hi hc
        by_cases hin : i = n
        · subst hin; exact absurd hc hn
        · exact ih.2 i (by omega) hc

/-- what the rest of the proof needs to know about `histogram` -/
structure HistOk (codes : List Nat) (maxSym : Nat) (counts : List Nat) : Prop where
  len2 : 2 ≤ counts.length
  lenMax : counts.length ≤ maxSym + 1
  pos : ∀ c ∈ codes, counts.getD c 0 > 0
  last : counts.getD (counts.length - 1) 0 > 0 ∨ (counts.length = 2 ∧ counts.getD 0 0 > 0)

theorem histogram_ok (codes : List Nat) (maxSym : Nat) (h1 : 1 ≤ maxSym) (h255 : maxSym ≤ 255)
    (hne : codes ≠ []) (hc : ∀ c ∈ codes, c ≤ maxSym) : HistOk codes maxSym (histogram codes) := by
  rw [histogram_eq]
  generalize hC : countLoop codes (Array.replicate 256 0) = C
  have hget : ∀ i, C.getD i 0 = if i < 256 then codes.count i else 0 := by
    intro i; rw [← hC]; exact counts_getD codes i
  have hsz : C.size = 256 := by rw [← hC, counts_size]; simp
  obtain ⟨hm1, hm2⟩ := maxLoop_spec C 256
  generalize maxLoop C 256 = m at hm1 hm2
  -- `m` is an occurring symbol or 0
  have hmle : m ≤ maxSym := by
    rcases hm1 with h0 | ⟨hp, hlt⟩
    · omega
    · rw [hget, if_pos hlt] at hp
      exact hc m (List.count_pos_iff.mp hp)
  have hlen : ((C.extract 0 (max m 1 + 1)).toList).length = max m 1 + 1 := by
    rw [Array.length_toList, Array.size_extract, hsz]; omega
  have hgetH : ∀ i, i < max m 1 + 1 → ((C.extract 0 (max m 1 + 1)).toList).getD i 0 = C.getD i 0 := by
    intro i hi
    rw [List.getD_eq_getElem?_getD, Array.getElem?_toList, Array.getElem?_extract, hsz,
      if_pos (by omega), Nat.zero_add, Array.getD_eq_getD_getElem?]
  have hcpos : ∀ c ∈ codes, C.getD c 0 > 0 ∧ c ≤ m := by
    intro c hcm
    have hc255 : c < 256 := by have := hc c hcm; omega
    have hp : C.getD c 0 > 0 := by
      rw [hget, if_pos hc255]; exact List.count_pos_iff.mpr hcm
    exact ⟨hp, hm2 c hc255 hp⟩
  refine ⟨by omega, by omega, ?_, ?_⟩
  · intro c hcm
    obtain ⟨hp, hle⟩ := hcpos c hcm
    rw [hgetH c (by omega)]; exact hp
  · rw [hlen]
    by_cases hm0 : m = 0
    · right
      refine ⟨by subst hm0; rfl, ?_⟩
      obtain ⟨c, hcm⟩ := List.exists_mem_of_ne_nil codes hne
      obtain ⟨hp, hle⟩ := hcpos c hcm
      have : c = 0 := by omega
      subst this
      rw [hgetH 0 (by omega)]; exact hp
    · left
      rcases hm1 with h0 | ⟨hp, hlt⟩
      · exact absurd h0 hm0
      · rw [hgetH _ (by omega)]
        have : max m 1 + 1 - 1 = m := by omega
        rw [this]; exact hp

/-! ## 2. the normalised distribution is valid -/

open Zstd.Proofs.FseNormalize in
theorem mass_eq_lsum : ∀ (probs : List Int), (∀ p ∈ probs, 0 ≤ p) →
    ((FseTableDesc.mass probs : Nat) : Int) = probs.foldl (· + ·) 0 := by
  intro probs
  induction probs with
  | nil => intro _; rfl
  | cons p ps ih =>
    intro h
    have hp := h p (List.mem_cons_self ..)
    have ih' := ih (fun q hq => h q (List.mem_cons_of_mem _ hq))
    have hl : (p :: ps).foldl (· + ·) 0 = p + ps.foldl (· + ·) 0 := lsum_cons p ps
    rw [FseTableDesc.mass_cons, hl, ← ih']
    simp only [FseTableDesc.wt]
    split
    · omega
    · split <;> omega

/-- the facts about the output of the normaliser the bridge uses -/
structure DistOk (codes : List Nat) (maxLog maxSym : Nat) (probs : List Int) (al : Nat) : Prop where
  al5 : 5 ≤ al
  alMax : al ≤ maxLog
  len : probs.length ≤ maxSym + 1
  nonneg : ∀ p ∈ probs, 0 ≤ p
  mass : FseTableDesc.mass probs = 2 ^ al
  usable : ∀ c ∈ codes, probs.getD c 0 ≠ 0
  last : probs.getLast? ≠ some 0

theorem two_pow_half {al : Nat} (h : 1 ≤ al) : 2 ^ al = 2 * 2 ^ (al - 1) := by
  rw [← Nat.pow_succ']; congr 1; omega

open Zstd.Proofs.FseNormalize in
theorem distOk_of_normOk {codes : List Nat} {maxLog maxSym : Nat} {counts : List Nat}
    {probs : List Int} {al : Nat} (hh : HistOk codes maxSym counts)
    (hn : NormOk counts maxLog true probs al) : DistOk codes maxLog maxSym probs al := by
  obtain ⟨h5, hm, hlen, hnn, hsum, hge, hav⟩ := hn
  have h5' : 5 ≤ al := h5
  have hmass : FseTableDesc.mass probs = 2 ^ al := by
    have := mass_eq_lsum probs hnn
    rw [hsum] at this
    exact Int.ofNat.inj this
  refine ⟨h5', hm, by rw [hlen]; exact hh.lenMax, hnn, hmass, ?_, ?_⟩
  · intro c hc
    have := hge c (hh.pos c hc)
    omega
  · have hl2 := hh.len2
    rw [List.getLast?_eq_getElem?, hlen]
    intro hlast
    have hlastD : probs.getD (counts.length - 1) 0 = 0 := by
      rw [List.getD_eq_getElem?_getD, hlast]; rfl
    rcases hh.last with hp | ⟨hl, hp⟩
    · have := hge _ hp
      omega
    · -- `probs = [p0, p1]`, both `≤ 2^(al-1)`, sum `2^al`
      match probs, hlen, hsum, hav, hlastD with
      | [p0, p1], _, hsum, hav, hlastD =>
        rw [hl] at hlastD
        have h0 := hav rfl p0 (by simp)
        have hs : p0 + p1 = ((2 ^ al : Nat) : Int) := by
          have : [p0, p1].foldl (· + ·) 0 = p0 + p1 := by simp [List.foldl]
          rw [← hsum, this]
        have hp1 : p1 = 0 := by simpa using hlastD
        have := two_pow_half (al := al) (by omega)
        have := Nat.two_pow_pos (al - 1)
        omega
      | [], hlen, _, _, _ => simp at hlen; omega
      | [_], hlen, _, _, _ => simp at hlen; omega
      | _ :: _ :: _ :: _, hlen, _, _, _ => simp at hlen; omega

theorem validDist_of_distOk {codes : List Nat} {maxLog maxSym : Nat} {probs : List Int} {al : Nat}
    (h9 : maxLog ≤ 9) (h255 : maxSym ≤ 255) (hd : DistOk codes maxLog maxSym probs al) :
    FseEncTable.EncBuildable al probs := by
  refine ⟨⟨hd.al5, by have := hd.alMax; omega, by have := hd.len; omega,
    fun p hp => by have := hd.nonneg p hp; omega, hd.mass⟩, ?_⟩
  have : probs.filter (· = -1) = [] := by
    rw [List.filter_eq_nil_iff]
    intro p hp
    have := hd.nonneg p hp
    simp; omega
  rw [this]
  exact Nat.two_pow_pos al

/-! ## 3. from `Coupled` (model decoder table) to `SCoupled` (Spec table) -/

open Zstd.Proofs.FseStream Zstd.Proofs.SeqCoupled in
theorem sgood_of_good {dt : DTable} {T : Spec.Fse.Table} {al s : Nat} {st : EState}
    (hT : T.entries = dt.decode.map FseDecTable.toSpecEntry) (h : Good dt al s st) : SGood T al s st := by
  obtain ⟨h1, h2, h3⟩ := h
  refine ⟨h1, ?_, h3⟩
  rw [hT, Array.getElem?_map, h2]
  rfl

open Zstd.Proofs.FseStream Zstd.Proofs.SeqCoupled in
theorem scoupled_of_coupled {et : ETable} {dt : DTable} {T : Spec.Fse.Table} {al : Nat}
    {usable usable' : Nat → Prop} (h9 : al ≤ 9) (hlog : T.accLog = al)
    (hT : T.entries = dt.decode.map FseDecTable.toSpecEntry) (hu : ∀ s, usable' s → usable s)
    (hc : Coupled et dt al usable) : SCoupled et T al usable' := by
  refine ⟨hc.al_pos, h9, hc.encLog, hlog, ?_, ?_⟩
  · intro s hs
    obtain ⟨st, h1, h2⟩ := hc.start s (hu s hs)
    exact ⟨st, h1, sgood_of_good hT h2⟩
  · intro s idx hs hidx
    obtain ⟨st, h1, h2, h3, h4⟩ := hc.next s idx (hu s hs) hidx
    exact ⟨st, h1, h2, h3, sgood_of_good hT h4⟩

/-! ## 4. the bridge -/

open Zstd.Proofs.BitIO Zstd.Proofs.SeqCoupled Zstd.Model.BitIO in
theorem seq_table_bridge_gen (codes : List Nat) (maxLog maxSym : Nat)
    (hlog5 : 5 ≤ maxLog) (hlog9 : maxLog ≤ 9) (hsym1 : 1 ≤ maxSym) (hsym255 : maxSym ≤ 255)
    (hfit : maxSym + 1 ≤ 2 ^ maxLog)
    (hne : codes ≠ []) (hc : ∀ c ∈ codes, c ≤ maxSym) :
    ∃ et al probs T, buildTableFromData codes maxLog true = .ok et ∧
      Spec.Fse.buildTable al probs = some T ∧
      SCoupled et T al (fun s => s ∈ codes) ∧
      ∀ {w : BitWriter} {L : List Bool}, WInv w L → L.length % 8 = 0 →
        ∃ w' D, et.writeTable w = .ok w' ∧ WInv w' (L ++ D) ∧ D.length % 8 = 0 ∧
          ∀ (bytes : List Nat) (rest : List Bool), Bytes bytes → Spec.bitsLE bytes = D ++ rest →
            Spec.Fse.readDescription bytes maxLog maxSym = some (al, probs, D.length / 8) := by
  have hh := histogram_ok codes maxSym hsym1 hsym255 hne hc
  obtain ⟨c0, hc0⟩ := List.exists_mem_of_ne_nil codes hne
  have hposx : ∃ c ∈ histogram codes, c > 0 := by
    have hp := hh.pos c0 hc0
    have hlt : c0 < (histogram codes).length := by
      apply Classical.byContradiction
      intro hge
      rw [List.getD_eq_getElem?_getD, List.getElem?_eq_none (by omega)] at hp
      exact absurd hp (by decide)
    refine ⟨(histogram codes)[c0], List.getElem_mem hlt, ?_⟩
    rw [List.getD_eq_getElem?_getD, List.getElem?_eq_getElem hlt] at hp
    exact hp
  obtain ⟨probs, al, hnorm, hnok⟩ := FseNormalize.normalize_valid_partial (histogram codes) maxLog true
    (by show 5 ≤ maxLog; exact hlog5) hh.len2 (by have := hh.lenMax; omega)
    (by have := hh.lenMax; omega) hposx
  have hd := distOk_of_normOk hh hnok
  have hb := validDist_of_distOk hlog9 hsym255 hd
  obtain ⟨et, dec, ctr, het, hdec, hts, hsz, hdsz, _, _, hprob, _⟩ :=
    FseEncTable.enc_table_eq_dec_table (maxSymbol := maxSym) hb hd.len
  obtain ⟨dec', ctr', hdec', hspec⟩ := FseDecTable.fse_build_refines al probs maxSym
    (FseCoupled.validDist_iff.mp hb.1) hd.len
  rw [hdec] at hdec'
  cases hdec'
  have hcoupled := FseCoupled.coupled_of_buildable
    (dt := { DTable.new maxSym with decode := dec, accuracyLog := al }) hb hd.len het hdec rfl rfl
  have hal9 : al ≤ 9 := by have := hd.alMax; omega
  refine ⟨et, al, probs, _, ?_, hspec, ?_, ?_⟩
  · show buildTableFromCounts (histogram codes) maxLog true = .ok et
    unfold buildTableFromCounts
    rw [hnorm]
    exact het
  · exact scoupled_of_coupled hal9 rfl rfl (fun s hs => hd.usable s hs) hcoupled
  · intro w L hw hL
    have hcar : FseTableDesc.Carries et al probs := ⟨hts, hsz, fun i _ => hprob i⟩
    obtain ⟨w', D, h1, h2, h3, h4⟩ := FseTableDesc.write_read_table et al probs hd.al5 (by omega)
      (by have := hd.len; omega) (fun p hp => by have := hd.nonneg p hp; omega) hd.mass hd.last hcar hw hL
    refine ⟨w', D, h1, h2, h3, ?_⟩
    intro bytes rest hby hbits
    have hrd := h4 bytes.toArray rest (DTable.new maxSym) maxLog hby hbits hd.alMax hd.len
      (by
        intro hl
        have := hd.nonneg (-1) (List.mem_of_getLast? hl)
        omega)
    have := FseReadDesc.fse_readProbabilities_complete bytes.toArray hby (DTable.new maxSym) maxLog hrd
    simpa [DTable.new] using this

open Zstd.Proofs.BitIO Zstd.Proofs.SeqCoupled Zstd.Model.BitIO in
theorem seq_table_bridge (codes : List Nat) (maxLog maxSym : Nat)
    (hprod : (maxLog = 9 ∧ maxSym = 35) ∨ (maxLog = 9 ∧ maxSym = 52) ∨ (maxLog = 8 ∧ maxSym = 31))
    (hne : codes ≠ []) (hc : ∀ c ∈ codes, c ≤ maxSym) :
    ∃ et al probs T, buildTableFromData codes maxLog true = .ok et ∧
      Spec.Fse.buildTable al probs = some T ∧
      SCoupled et T al (fun s => s ∈ codes) ∧
      ∀ {w : BitWriter} {L : List Bool}, WInv w L → L.length % 8 = 0 →
        ∃ w' D, et.writeTable w = .ok w' ∧ WInv w' (L ++ D) ∧ D.length % 8 = 0 ∧
          ∀ (bytes : List Nat) (rest : List Bool), Bytes bytes → Spec.bitsLE bytes = D ++ rest →
            Spec.Fse.readDescription bytes maxLog maxSym = some (al, probs, D.length / 8) := by
  rcases hprod with ⟨rfl, rfl⟩ | ⟨rfl, rfl⟩ | ⟨rfl, rfl⟩
  · exact seq_table_bridge_gen codes 9 35 (by decide) (by decide) (by decide) (by decide) (by decide) hne hc
  · exact seq_table_bridge_gen codes 9 52 (by decide) (by decide) (by decide) (by decide) (by decide) hne hc
  · exact seq_table_bridge_gen codes 8 31 (by decide) (by decide) (by decide) (by decide) (by decide) hne hc

/-! ## 5. variant: the bound on the symbols is separate from the `maxSym` of the description reader
(Huffman-weight tables: `build_table_from_data(weights, 6, true)`, weights `≤ 12`, reader max symbol 255),
and the facts the two-state coder needs (zero-bit avoidance of start states, table size) are exposed -/

open Zstd.Proofs.BitIO Zstd.Proofs.SeqCoupled Zstd.Model.BitIO in
theorem seq_table_bridge_gen2 (codes : List Nat) (maxLog maxSym bound : Nat)
    (hlog5 : 5 ≤ maxLog) (hlog9 : maxLog ≤ 9) (hb1 : 1 ≤ bound) (hbs : bound ≤ maxSym) (hsym255 : maxSym ≤ 255)
    (hfit : bound + 1 ≤ 2 ^ maxLog) (hne : codes ≠ []) (hc : ∀ c ∈ codes, c ≤ bound) :
    ∃ et al probs T, buildTableFromData codes maxLog true = .ok et ∧
      Spec.Fse.buildTable al probs = some T ∧
      SCoupled et T al (fun s => s ∈ codes) ∧
      (∀ s st, s ∈ codes → et.startState s = .ok st → 1 ≤ st.numBits ∧ st.baseline = 0) ∧
      T.entries.size = 2 ^ al ∧ 5 ≤ al ∧
      ∀ {w : BitWriter} {L : List Bool}, WInv w L → L.length % 8 = 0 →
        ∃ w' D, et.writeTable w = .ok w' ∧ WInv w' (L ++ D) ∧ D.length % 8 = 0 ∧
          ∀ (bytes : List Nat) (rest : List Bool), Bytes bytes → Spec.bitsLE bytes = D ++ rest →
            Spec.Fse.readDescription bytes maxLog maxSym = some (al, probs, D.length / 8) := by
  have hh := histogram_ok codes bound hb1 (by omega) hne hc
  obtain ⟨c0, hc0⟩ := List.exists_mem_of_ne_nil codes hne
  have hposx : ∃ c ∈ histogram codes, c > 0 := by
    have hp := hh.pos c0 hc0
    have hlt : c0 < (histogram codes).length := by
      apply Classical.byContradiction
      intro hge
      rw [List.getD_eq_getElem?_getD, List.getElem?_eq_none (by omega)] at hp
      exact absurd hp (by decide)
    refine ⟨(histogram codes)[c0], List.getElem_mem hlt, ?_⟩
    rw [List.getD_eq_getElem?_getD, List.getElem?_eq_getElem hlt] at hp
    exact hp
  obtain ⟨probs, al, hnorm, hnok⟩ := FseNormalize.normalize_valid_partial (histogram codes) maxLog true
    (by show 5 ≤ maxLog; exact hlog5) hh.len2 (by have := hh.lenMax; omega)
    (by have := hh.lenMax; omega) hposx
  have hd := distOk_of_normOk hh hnok
  have hb := validDist_of_distOk hlog9 (show bound ≤ 255 by omega) hd
  have hlenS : probs.length ≤ maxSym + 1 := by have := hd.len; omega
  have hav : FseCoupled.Avoids al probs := hnok.2.2.2.2.2.2 rfl
  obtain ⟨et, dec, ctr, het, hdec, hts, hsz, hdsz, _, _, hprob, _⟩ :=
    FseEncTable.enc_table_eq_dec_table (maxSymbol := maxSym) hb hlenS
  obtain ⟨dec', ctr', hdec', hspec⟩ := FseDecTable.fse_build_refines al probs maxSym
    (FseCoupled.validDist_iff.mp hb.1) hlenS
  rw [hdec] at hdec'
  cases hdec'
  have hcoupled2 := FseCoupled.coupled2_of_buildable
    (dt := { DTable.new maxSym with decode := dec, accuracyLog := al }) hb hlenS hav het hdec rfl rfl
  have hal9 : al ≤ 9 := by have := hd.alMax; omega
  refine ⟨et, al, probs, _, ?_, hspec, ?_, ?_, ?_, hd.al5, ?_⟩
  · show buildTableFromCounts (histogram codes) maxLog true = .ok et
    unfold buildTableFromCounts
    rw [hnorm]
    exact het
  · exact scoupled_of_coupled hal9 rfl rfl (fun s hs => hd.usable s hs) hcoupled2.toCoupled
  · intro s st hs hst
    refine ⟨(hcoupled2.startBits s st (hd.usable s hs) hst).1, ?_⟩
    obtain ⟨st', hst', _, hbase, _⟩ := FseEncTable.enc_start_state hb het (hd.usable s hs)
    rw [hst] at hst'
    cases hst'
    exact hbase
  · show (dec.map FseDecTable.toSpecEntry).size = 2 ^ al
    rw [Array.size_map, hdsz]
  · intro w L hw hL
    have hcar : FseTableDesc.Carries et al probs := ⟨hts, hsz, fun i _ => hprob i⟩
    obtain ⟨w', D, h1, h2, h3, h4⟩ := FseTableDesc.write_read_table et al probs hd.al5 (by omega)
      (by omega) (fun p hp => by have := hd.nonneg p hp; omega) hd.mass hd.last hcar hw hL
    refine ⟨w', D, h1, h2, h3, ?_⟩
    intro bytes rest hby hbits
    have hrd := h4 bytes.toArray rest (DTable.new maxSym) maxLog hby hbits hd.alMax hlenS
      (by
        intro hl
        have := hd.nonneg (-1) (List.mem_of_getLast? hl)
        omega)
    have := FseReadDesc.fse_readProbabilities_complete bytes.toArray hby (DTable.new maxSym) maxLog hrd
    simpa [DTable.new] using this

end Zstd.Proofs.SeqTables
