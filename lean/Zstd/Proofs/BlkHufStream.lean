import Zstd.Proofs.BlkHufBits
/-
Part E of `Proofs/BlkHuf`: on a built table (`HufBuilt`) one backward Huffman stream is decoded
without a panic and without running out of fuel (every round consumes at least one bit, so
`bits_remaining + max_num_bits` strictly decreases while the loop runs).
-/
namespace Zstd.Proofs.Blk
open Zstd Zstd.Model Zstd.Model.Huf Zstd.Model.Huf.Bits

theorem entryAt_ok {t : DecTable} {state : Nat} (h : state < t.decode.size) :
    ∃ e, entryAt t state = .ok e ∧ e ∈ t.decode.toList := by
  unfold entryAt
  rw [Array.getElem?_eq_getElem h]
  exact ⟨_, rfl, Array.getElem_mem_toList h⟩

/-- `next_state` on a built table: no fault, the new state is again an index of the table, the
reader consumed the entry's `num_bits ≥ 1` bits -/
theorem nextState_ok {t : DecTable} (hb : HufBuilt t) {state : Nat} (hs : state < t.decode.size)
    {br : RevReader} (hr : RInv br) :
    ∃ state' br', nextState t state br = .ok (state', br') ∧ state' < t.decode.size ∧ RInv br' ∧
      br'.bitsRemaining + 1 ≤ br.bitsRemaining := by
  obtain ⟨e, he, hmem⟩ := entryAt_ok hs
  obtain ⟨h1, h2⟩ := hb.entries e hmem
  have hle := hb.le
  unfold nextState
  rw [he]
  simp only
  rw [if_neg (by omega)]
  refine ⟨_, _, rfl, ?_, RInv_getBits hr _, ?_⟩
  · rw [hb.size]
    apply Nat.or_lt_two_pow
    · apply Nat.and_lt_two_pow
      have := Nat.two_pow_pos t.maxNumBits
      omega
    · have := getBits_lt hr e.numBits
      have := Nat.pow_le_pow_right (n := 2) (by omega) h2
      omega
  · have := bitsRemaining_getBits br e.numBits
    show (br.getBits e.numBits).2.bitsRemaining + 1 ≤ _
    omega

theorem decodeLoop_no_fault {t : DecTable} (hb : HufBuilt t) :
    ∀ (fuel state : Nat) (br : RevReader) (outRev : List Nat), state < t.decode.size → RInv br →
      br.bitsRemaining + (t.maxNumBits : Int) ≤ (fuel : Int) →
      ∃ r, decodeLoop t fuel state br outRev = .ok r := by
  intro fuel
  induction fuel with
  | zero =>
    intro state br outRev _ _ hf
    unfold decodeLoop
    rw [if_neg (by omega)]
    exact ⟨_, rfl⟩
  | succ fuel ih =>
    intro state br outRev hs hr hf
    unfold decodeLoop
    split
    · obtain ⟨e, he, _⟩ := entryAt_ok hs
      obtain ⟨state', br', hn, hs', hr', hdec⟩ := nextState_ok hb hs hr
      simp only [decodeSymbol, he, hn]
      exact ih state' br' _ hs' hr' (by omega)
    · exact ⟨_, rfl⟩

/-- **E.** One backward stream on a built table: no panic, no hang. -/
theorem decodeOneStream_no_fault {t : DecTable} (hb : HufBuilt t) (stream : List Nat) (check : Bool)
    (outRev : List Nat) (f : Fault) : decodeOneStream t stream check outRev ≠ .error (.fault f) := by
  unfold decodeOneStream
  have hr0 := RInv_new stream
  have hb0 := bitsRemaining_new stream
  have hr1 := RInv_skipPadding hr0 9 0
  have hb1 := bitsRemaining_skipPadding hr0 9 0
  have hr2 := RInv_getBits hr1 t.maxNumBits
  have hb2 := bitsRemaining_getBits (skipPadding 9 0 (RevReader.new stream)).2 t.maxNumBits
  have hlt := getBits_lt hr1 t.maxNumBits
  rw [← hb.size] at hlt
  obtain ⟨r, hr⟩ := decodeLoop_no_fault hb (8 * stream.length + t.maxNumBits + 1) _ _ outRev hlt hr2
    (by omega)
  simp only [initState]
  split
  · intro h; cases h
  · rw [hr]
    simp only
    split
    · intro h; cases h
    · intro h; cases h

end Zstd.Proofs.Blk
