import Zstd.Proofs.RingAppend
/-
Helper lemmas for C04, layer 4c: `extend_from_within_unchecked` — the three geometric cases and
their five `copy_bytes_overshooting` call sites — and the checked `extend_from_within`.
-/
namespace Zstd.Model
open Zstd

namespace RingBuffer

variable {r : RingBuffer}

theorem cboCall_ok {C : Nat} (hC : 0 < C) {c : CboCall} (h : CboPre r.mem c) :
    ∃ r' k, r.cboCall C c = .ok r' ∧ r'.cap = r.cap ∧ r'.head = r.head ∧ r'.tail = r.tail ∧
      c.n ≤ k ∧ k ≤ c.srcLen ∧ k ≤ c.dstLen ∧ Copied r.mem r'.mem c.srcOff c.dstOff k ∧
      r'.log = (cboEvents C c).reverse ++ r.log := by
  obtain ⟨m', k, h1, hk1, hk2, hk3, hcp⟩ := cbo_ok hC h
  unfold cboCall
  rw [h1, ok_bind, pure_eq_ok]
  exact ⟨_, k, rfl, rfl, rfl, rfl, hk1, hk2, hk3, hcp, rfl⟩

/-- what the copying part of `extend_from_within_unchecked` establishes (before `tail` is advanced) -/
structure Within (C : Nat) (r r2 : RingBuffer) (start len : Nat) : Prop where
  cap : r2.cap = r.cap
  head : r2.head = r.head
  size : r2.mem.size = r.mem.size
  old : ∀ j, r.occupied j → r2.mem.cell j = r.mem.cell j
  new : ∀ t, t < len →
    r2.mem.cell (if r.tail + t < r.cap then r.tail + t else r.tail + t - r.cap) = r.mem.cell (r.phys (start + t))
  /-- the calls made are exactly `efwuCalls` (ghost trace) -/
  log : r2.log = ((efwuCalls r start len).flatMap (cboEvents C)).reverse ++ r.log

/-- the memory part of `Within` (no claim about the ghost trace) -/
structure WithinMem (r r2 : RingBuffer) (start len : Nat) : Prop where
  cap : r2.cap = r.cap
  head : r2.head = r.head
  size : r2.mem.size = r.mem.size
  old : ∀ j, r.occupied j → r2.mem.cell j = r.mem.cell j
  new : ∀ t, t < len →
    r2.mem.cell (if r.tail + t < r.cap then r.tail + t else r.tail + t - r.cap) = r.mem.cell (r.phys (start + t))

theorem Within.toMem {C : Nat} {r r2 : RingBuffer} {start len : Nat} (h : Within C r r2 start len) :
    WithinMem r r2 start len := ⟨h.cap, h.head, h.size, h.old, h.new⟩

/-- case 1: `head < tail` — contiguous source, destination possibly in two pieces -/
theorem efwu_case1 {C : Nat} (hC : 0 < C) (hI : r.Inv) (hc : 0 < r.cap) {start len : Nat}
    (h1 : start + len ≤ r.len) (h2 : len ≤ r.free) (hg : r.head < r.tail) :
    ∃ r2, (usub "ringbuffer.rs:efwu:case1:cap-tail" r.cap r.tail >>= fun capTail =>
      let afterTail := min len capTail
      usub "ringbuffer.rs:efwu:case1:tail-head-start" (r.tail - r.head) start >>= fun src1 =>
      r.cboCall C ⟨r.head + start, src1, r.tail, capTail, afterTail⟩ >>= fun r1 =>
      if Gen.ringEfwuTailSplit afterTail len then
        usub "ringbuffer.rs:efwu:case1:src.1-after_tail" src1 afterTail >>= fun src1' =>
        r1.cboCall C ⟨r.head + start + afterTail, src1', 0, r.head, len - afterTail⟩
      else pure r1) = .ok r2 ∧ Within C r r2 start len := by
  have hh := hI.head_lt hc; have ht := hI.tail_lt hc
  have hlc := len_cases r; have hfc := free_cases r
  have hsz := hI.alloc
  rw [usub_ok (by omega), ok_bind]
  simp only []
  rw [usub_ok (by omega), ok_bind]
  have hinit : ∀ j, r.head ≤ j → j < r.tail → (r.mem.cell j).isSome := by
    intro j hj1 hj2; apply hI.init; rw [occupied_iff]; omega
  obtain ⟨r1, k1, e1, c1, hd1, t1, hk1, hk1s, hk1d, cp1, lg1⟩ := cboCall_ok (r := r) hC
    (c := ⟨r.head + start, r.tail - r.head - start, r.tail, r.cap - r.tail, min len (r.cap - r.tail)⟩)
    ⟨fun i hi => hinit _ (by simp only []; omega) (by simp only [] at hi ⊢; omega),
     by simp only []; omega, by simp only []; omega, by simp only []; omega, by simp only []; omega⟩
  simp only [] at hk1 hk1s hk1d cp1
  have z1 := cp1.1
  rw [e1, ok_bind]
  have hphys : ∀ t, t < len → r.phys (start + t) = r.head + start + t := by
    intro t ht'; have := phys_cases r (start + t); omega
  simp only [gen_efwuTailSplit]
  by_cases hw : min len (r.cap - r.tail) < len
  · simp only [hw, ↓reduceIte]
    rw [usub_ok (by omega), ok_bind]
    obtain ⟨r2, k2, e2, c2, hd2, t2, hk2, hk2s, hk2d, cp2, lg2⟩ := cboCall_ok (r := r1) hC
      (c := ⟨r.head + start + min len (r.cap - r.tail),
             r.tail - r.head - start - min len (r.cap - r.tail), 0, r.head,
             len - min len (r.cap - r.tail)⟩)
      ⟨fun i hi => by
          simp only [] at hi ⊢
          rw [cp1.outside (by omega)]
          exact hinit _ (by omega) (by omega),
       by simp only []; omega, by simp only []; omega, by simp only []; omega, by simp only []; omega⟩
    simp only [] at hk2 hk2s hk2d cp2
    have z2 := cp2.1
    refine ⟨r2, e2, by omega, by omega, by omega, ?_, ?_, ?_⟩
    · intro j hj
      rw [occupied_iff] at hj
      rw [cp2.outside (by omega), cp1.outside (by omega)]
    · intro t ht'
      rw [hphys t ht']
      split
      · rename_i hlt
        rw [cp2.outside (by omega), cp1.inside (by omega)]
        congr 1; omega
      · rename_i hge
        rw [cp2.inside (by omega), cp1.outside (by omega)]
        congr 1; omega
    · rw [lg2, lg1]
      simp only [efwuCalls, hg, hw, ↓reduceIte, List.flatMap_cons, List.flatMap_nil, List.append_nil,
        List.reverse_append, List.append_assoc]
  · simp only [hw, ↓reduceIte, pure_eq_ok]
    refine ⟨r1, rfl, c1, hd1, z1, ?_, ?_, ?_⟩
    · intro j hj
      rw [occupied_iff] at hj
      rw [cp1.outside (by omega)]
    · intro t ht'
      rw [hphys t ht']
      have hlt : r.tail + t < r.cap := by omega
      simp only [hlt, ↓reduceIte]
      rw [cp1.inside (by omega)]
      congr 1; omega
    · rw [lg1]
      simp only [efwuCalls, hg, hw, ↓reduceIte, List.flatMap_cons, List.flatMap_nil, List.append_nil]

/-- case 2: `tail ≤ head`, `head + start > cap` — source below `tail`, everything contiguous -/
theorem efwu_case2 {C : Nat} (hC : 0 < C) (hI : r.Inv) (hc : 0 < r.cap) {start len : Nat}
    (h1 : start + len ≤ r.len) (h2 : len ≤ r.free) (hg : ¬ r.head < r.tail)
    (hg2 : r.head + start > r.cap) :
    ∃ r2, (umod "ringbuffer.rs:efwu:case2:%cap" (r.head + start) r.cap >>= fun start' =>
      usub "ringbuffer.rs:efwu:case2:tail-start" r.tail start' >>= fun src1 =>
      usub "ringbuffer.rs:efwu:case2:head-tail" r.head r.tail >>= fun dst1 =>
      r.cboCall C ⟨start', src1, r.tail, dst1, len⟩) = .ok r2 ∧ Within C r r2 start len := by
  have hh := hI.head_lt hc; have ht := hI.tail_lt hc
  have hlc := len_cases r; have hfc := free_cases r
  have hsz := hI.alloc
  have hm : (r.head + start) % r.cap = r.head + start - r.cap := by
    rw [wrap_eq hh (by omega)]; split <;> omega
  rw [umod_ok hc, ok_bind, hm, usub_ok (by omega), ok_bind, usub_ok (by omega), ok_bind]
  obtain ⟨r1, k1, e1, c1, hd1, t1, hk1, hk1s, hk1d, cp1, lg1⟩ := cboCall_ok (r := r) hC
    (c := ⟨r.head + start - r.cap, r.tail - (r.head + start - r.cap), r.tail, r.head - r.tail, len⟩)
    ⟨fun i hi => by
        simp only [] at hi ⊢
        apply hI.init; rw [occupied_iff]; omega,
     by simp only []; omega, by simp only []; omega, by simp only []; omega, by simp only []; omega⟩
  simp only [] at hk1 hk1s hk1d cp1
  refine ⟨r1, e1, c1, hd1, cp1.1, ?_, ?_, ?_⟩
  · intro j hj
    rw [occupied_iff] at hj
    rw [cp1.outside (by omega)]
  · intro t ht'
    have hp : r.phys (start + t) = r.head + start + t - r.cap := by
      have := phys_cases r (start + t); omega
    have hlt : r.tail + t < r.cap := by omega
    simp only [hlt, ↓reduceIte]
    rw [hp, cp1.inside (by omega)]
    congr 1; omega
  · rw [lg1]
    simp only [efwuCalls, hg, hg2, ↓reduceIte, List.flatMap_cons, List.flatMap_nil, List.append_nil]

/-- case 3: `tail ≤ head`, `head + start ≤ cap` — source possibly in two pieces, contiguous destination -/
theorem efwu_case3 {C : Nat} (hC : 0 < C) (hI : r.Inv) (hc : 0 < r.cap) {start len : Nat}
    (h1 : start + len ≤ r.len) (h2 : len ≤ r.free) (hg : ¬ r.head < r.tail)
    (hg2 : ¬ r.head + start > r.cap) :
    ∃ r2, (usub "ringbuffer.rs:efwu:case3:cap-head" r.cap r.head >>= fun capHead =>
      usub "ringbuffer.rs:efwu:case3:cap-head-start" capHead start >>= fun src1 =>
      let afterStart := min len src1
      usub "ringbuffer.rs:efwu:case3:head-tail" r.head r.tail >>= fun dst1 =>
      r.cboCall C ⟨r.head + start, src1, r.tail, dst1, afterStart⟩ >>= fun r1 =>
      if Gen.ringEfwuStartSplit afterStart len then
        usub "ringbuffer.rs:efwu:case3:dst.1-after_start" dst1 afterStart >>= fun dst1' =>
        r1.cboCall C ⟨0, r.tail, r.tail + afterStart, dst1', len - afterStart⟩
      else pure r1) = .ok r2 ∧ Within C r r2 start len := by
  have hh := hI.head_lt hc; have ht := hI.tail_lt hc
  have hlc := len_cases r; have hfc := free_cases r
  have hsz := hI.alloc
  rw [usub_ok (by omega), ok_bind, usub_ok (by omega), ok_bind]
  simp only []
  rw [usub_ok (by omega), ok_bind]
  obtain ⟨r1, k1, e1, c1, hd1, t1, hk1, hk1s, hk1d, cp1, lg1⟩ := cboCall_ok (r := r) hC
    (c := ⟨r.head + start, r.cap - r.head - start, r.tail, r.head - r.tail,
           min len (r.cap - r.head - start)⟩)
    ⟨fun i hi => by
        simp only [] at hi ⊢
        apply hI.init; rw [occupied_iff]; omega,
     by simp only []; omega, by simp only []; omega, by simp only []; omega, by simp only []; omega⟩
  simp only [] at hk1 hk1s hk1d cp1
  have z1 := cp1.1
  rw [e1, ok_bind]
  simp only [gen_efwuStartSplit]
  by_cases hw : min len (r.cap - r.head - start) < len
  · simp only [hw, ↓reduceIte]
    rw [usub_ok (by omega), ok_bind]
    obtain ⟨r2, k2, e2, c2, hd2, t2, hk2, hk2s, hk2d, cp2, lg2⟩ := cboCall_ok (r := r1) hC
      (c := ⟨0, r.tail, r.tail + min len (r.cap - r.head - start),
             r.head - r.tail - min len (r.cap - r.head - start),
             len - min len (r.cap - r.head - start)⟩)
      ⟨fun i hi => by
          simp only [] at hi ⊢
          rw [cp1.outside (by omega)]
          apply hI.init; rw [occupied_iff]; omega,
       by simp only []; omega, by simp only []; omega, by simp only []; omega, by simp only []; omega⟩
    simp only [] at hk2 hk2s hk2d cp2
    have z2 := cp2.1
    refine ⟨r2, e2, by omega, by omega, by omega, ?_, ?_, ?_⟩
    · intro j hj
      rw [occupied_iff] at hj
      rw [cp2.outside (by omega), cp1.outside (by omega)]
    · intro t ht'
      have hpc := phys_cases r (start + t)
      have hlt : r.tail + t < r.cap := by omega
      simp only [hlt, ↓reduceIte]
      by_cases hts : t < r.cap - r.head - start
      · rw [cp2.outside (by omega), cp1.inside (by omega)]
        congr 1; omega
      · rw [cp2.inside (by omega), cp1.outside (by omega)]
        congr 1; omega
    · rw [lg2, lg1]
      simp only [efwuCalls, hg, hg2, hw, ↓reduceIte, List.flatMap_cons, List.flatMap_nil, List.append_nil,
        List.reverse_append, List.append_assoc]
  · simp only [hw, ↓reduceIte, pure_eq_ok]
    refine ⟨r1, rfl, c1, hd1, z1, ?_, ?_, ?_⟩
    · intro j hj
      rw [occupied_iff] at hj
      rw [cp1.outside (by omega)]
    · intro t ht'
      have hpc := phys_cases r (start + t)
      have hlt : r.tail + t < r.cap := by omega
      simp only [hlt, ↓reduceIte]
      rw [cp1.inside (by omega)]
      congr 1; omega
    · rw [lg1]
      simp only [efwuCalls, hg, hg2, hw, ↓reduceIte, List.flatMap_cons, List.flatMap_nil, List.append_nil]

theorem within_finish (hI : r.Inv) (hc : 0 < r.cap) {start len : Nat}
    (h1 : start + len ≤ r.len) (h2 : len ≤ r.free) {r2 : RingBuffer} (hW : WithinMem r r2 start len) :
    ({ r2 with tail := (r.tail + len) % r.cap } : RingBuffer).Inv ∧
    ({ r2 with tail := (r.tail + len) % r.cap } : RingBuffer).abs = Queue.copyWithin r.abs start len ∧
    ({ r2 with tail := (r.tail + len) % r.cap } : RingBuffer).len = r.len + len ∧
    ({ r2 with tail := (r.tail + len) % r.cap } : RingBuffer).cap = r.cap := by
  have hdl : ((r.abs.drop start).take len).length = len := by
    rw [List.length_take, List.length_drop, abs_length]; omega
  have := appended_sound (r := r) (r' := { r2 with tail := (r.tail + len) % r.cap })
    (data := (r.abs.drop start).take len) hI hc (by omega) hW.cap hW.head (by rw [hdl]) hW.size hW.old
    (by
      intro t ht'
      rw [hdl] at ht'
      show r2.mem.cell _ = _
      rw [hW.new t ht', getD_take ht', getD_drop, getD_abs (by omega)]
      exact hI.cellL (by omega))
  rw [hdl] at this
  exact ⟨this.1, this.2.1, this.2.2, hW.cap⟩

theorem and_log {P Q R S T : Prop} (h : P ∧ Q ∧ R ∧ S) (ht : T) : P ∧ Q ∧ R ∧ S ∧ T :=
  ⟨h.1, h.2.1, h.2.2.1, h.2.2.2, ht⟩

/-- every call `extend_from_within_unchecked` makes hands `copy_bytes_overshooting` regions with the right
geometry: readable source bytes are occupied cells, the whole destination region is free cells inside
the allocation, the requested length fits both — in all three cases, at all five call sites -/
theorem efwuCalls_geom (hI : r.Inv) (hc : 0 < r.cap) {start len : Nat}
    (h1 : start + len ≤ r.len) (h2 : len ≤ r.free) :
    ∀ c, c ∈ efwuCalls r start len → CallGeom r c := by
  have hh := hI.head_lt hc; have ht := hI.tail_lt hc
  have hlc := len_cases r; have hfc := free_cases r
  intro c hcm
  unfold efwuCalls at hcm
  by_cases hg : r.head < r.tail
  · simp only [hg, ↓reduceIte] at hcm
    by_cases hw : min len (r.cap - r.tail) < len
    · simp only [hw, ↓reduceIte, List.mem_cons, List.not_mem_nil, or_false] at hcm
      rcases hcm with rfl | rfl
      · exact ⟨fun i hi => by simp only [] at hi ⊢; rw [occupied_iff]; omega,
          fun i hi => by simp only [] at hi ⊢; rw [occupied_iff]; omega,
          by simp only []; omega, by simp only []; omega⟩
      · exact ⟨fun i hi => by simp only [] at hi ⊢; rw [occupied_iff]; omega,
          fun i hi => by simp only [] at hi ⊢; rw [occupied_iff]; omega,
          by simp only []; omega, by simp only []; omega⟩
    · simp only [hw, ↓reduceIte, List.mem_cons, List.not_mem_nil, or_false] at hcm
      subst hcm
      exact ⟨fun i hi => by simp only [] at hi ⊢; rw [occupied_iff]; omega,
        fun i hi => by simp only [] at hi ⊢; rw [occupied_iff]; omega,
        by simp only []; omega, by simp only []; omega⟩
  · by_cases hg2 : r.head + start > r.cap
    · simp only [hg, hg2, ↓reduceIte, List.mem_cons, List.not_mem_nil, or_false] at hcm
      subst hcm
      exact ⟨fun i hi => by simp only [] at hi ⊢; rw [occupied_iff]; omega,
        fun i hi => by simp only [] at hi ⊢; rw [occupied_iff]; omega,
        by simp only []; omega, by simp only []; omega⟩
    · simp only [hg, hg2, ↓reduceIte] at hcm
      by_cases hw : min len (r.cap - r.head - start) < len
      · simp only [hw, ↓reduceIte, List.mem_cons, List.not_mem_nil, or_false] at hcm
        rcases hcm with rfl | rfl
        · exact ⟨fun i hi => by simp only [] at hi ⊢; rw [occupied_iff]; omega,
            fun i hi => by simp only [] at hi ⊢; rw [occupied_iff]; omega,
            by simp only []; omega, by simp only []; omega⟩
        · exact ⟨fun i hi => by simp only [] at hi ⊢; rw [occupied_iff]; omega,
            fun i hi => by simp only [] at hi ⊢; rw [occupied_iff]; omega,
            by simp only []; omega, by simp only []; omega⟩
      · simp only [hw, ↓reduceIte, List.mem_cons, List.not_mem_nil, or_false] at hcm
        subst hcm
        exact ⟨fun i hi => by simp only [] at hi ⊢; rw [occupied_iff]; omega,
          fun i hi => by simp only [] at hi ⊢; rw [occupied_iff]; omega,
          by simp only []; omega, by simp only []; omega⟩

/-- `extend_from_within_unchecked` under exactly the two requirements of its `SAFETY` comment
(`start + len ≤ len()`, `len ≤ free()`), on an allocated buffer: no fault, invariant kept, the
abstract content grows by the copied range. -/
theorem efwu_ok {C : Nat} (hC : 0 < C) (hI : r.Inv) (hc : 0 < r.cap) {start len : Nat}
    (h1 : start + len ≤ r.len) (h2 : len ≤ r.free) :
    ∃ r', r.extendFromWithinUnchecked C start len = .ok r' ∧ r'.Inv ∧
      r'.abs = Queue.copyWithin r.abs start len ∧ r'.len = r.len + len ∧ r'.cap = r.cap ∧
      r'.log = ((efwuCalls r start len).flatMap (cboEvents C)).reverse ++ r.log := by
  unfold extendFromWithinUnchecked
  rw [hI.lenC_eq, ok_bind, check_ok h1, ok_bind, hI.freeC_eq, ok_bind, check_ok h2, ok_bind]
  simp only [gen_efwuCase1, gen_efwuCase2]
  by_cases hg : r.head < r.tail
  · simp only [hg, ↓reduceIte]
    obtain ⟨r2, e2, hW⟩ := efwu_case1 hC hI hc h1 h2 hg
    rw [e2, ok_bind, umod_ok hc, ok_bind, pure_eq_ok]
    exact ⟨_, rfl, and_log (within_finish hI hc h1 h2 hW.toMem) hW.log⟩
  · by_cases hg2 : r.head + start > r.cap
    · simp only [hg, hg2, ↓reduceIte]
      obtain ⟨r2, e2, hW⟩ := efwu_case2 hC hI hc h1 h2 hg hg2
      rw [e2, ok_bind, umod_ok hc, ok_bind, pure_eq_ok]
      exact ⟨_, rfl, and_log (within_finish hI hc h1 h2 hW.toMem) hW.log⟩
    · simp only [hg, hg2, ↓reduceIte]
      obtain ⟨r2, e2, hW⟩ := efwu_case3 hC hI hc h1 h2 hg hg2
      rw [e2, ok_bind, umod_ok hc, ok_bind, pure_eq_ok]
      exact ⟨_, rfl, and_log (within_finish hI hc h1 h2 hW.toMem) hW.log⟩

/-- conversely: with debug assertions on, the model faults whenever a `SAFETY` requirement is
violated — so `= .ok` for a caller means the caller established them -/
theorem efwu_pre_of_ok {C : Nat} (hI : r.Inv) {start len : Nat} {r' : RingBuffer}
    (h : r.extendFromWithinUnchecked C start len = .ok r') : start + len ≤ r.len ∧ len ≤ r.free := by
  unfold extendFromWithinUnchecked at h
  rw [hI.lenC_eq, ok_bind] at h
  by_cases h1 : start + len ≤ r.len
  · rw [check_ok h1, ok_bind, hI.freeC_eq, ok_bind] at h
    by_cases h2 : r.free ≥ len
    · exact ⟨h1, h2⟩
    · rw [check_err h2, error_bind] at h; cases h
  · rw [check_err h1, error_bind] at h; cases h

/-- the checked `extend_from_within`: establishes both requirements itself -/
theorem extendFromWithin_ok {C : Nat} (hC : 0 < C) (hI : r.Inv) {start len : Nat}
    (h1 : start + len ≤ r.len) (hne : 0 < r.len) :
    ∃ r', r.extendFromWithin C start len = .ok r' ∧ r'.Inv ∧
      r'.abs = Queue.copyWithin r.abs start len ∧ r'.len = r.len + len ∧ CapStep r r' len := by
  unfold extendFromWithin
  rw [hI.lenC_eq, ok_bind, check_ok (by omega), ok_bind]
  obtain ⟨r1, hres, hR⟩ := reserve_ok hI len
  rw [hres, ok_bind]
  have hc1 : 0 < r1.cap := hR.inv.cap_pos_of_len (by rw [hR.len]; exact hne)
  obtain ⟨r', e, hI', habs, hlen, hcap, _⟩ := efwu_ok hC hR.inv hc1 (start := start) (len := len)
    (by rw [hR.len]; exact h1) hR.free
  exact ⟨r', e, hI', by rw [habs, hR.abs], by rw [hlen, hR.len], hR.capStep.trans_eq hcap⟩

/-- the checked `extend_from_within` panics when the range is not inside the buffer -/
theorem extendFromWithin_panics {C : Nat} (hI : r.Inv) {start len : Nat} (h1 : ¬ start + len ≤ r.len) :
    ∃ f, r.extendFromWithin C start len = .error f := by
  unfold extendFromWithin
  rw [hI.lenC_eq, ok_bind, check_err (by omega), error_bind]
  exact ⟨_, rfl⟩

end RingBuffer

end Zstd.Model
