import Zstd.Proofs.EncLoop
import Zstd.Spec.Frame
/-
Helper lemmas for C02 / C15 / C16: the block header in closed form, and what the strict Spec
decoder does on the three kinds of block `compress` emits.
-/
namespace Zstd.Proofs.Enc
open Zstd Zstd.Model.Enc

theorem blockSizeShift_eq : Gen.blockSizeShift = 3 := rfl
theorem blockTypeShift_eq : Gen.blockTypeShift = 1 := rfl
theorem blockHeaderBytes_eq : Gen.blockHeaderBytes = 3 := rfl
theorem blockTypeRaw_eq : Gen.blockTypeRaw = 0 := rfl
theorem blockTypeRle_eq : Gen.blockTypeRle = 1 := rfl
theorem blockTypeCompressed_eq : Gen.blockTypeCompressed = 2 := rfl
theorem maxBlockSize_eq : Gen.maxBlockSize = 131072 := rfl

/-- value of the 3 header bytes -/
def headerVal (last : Bool) (ty size : Nat) : Nat := size * 8 + ty * 2 + (if last then 1 else 0)

theorem blockHeader_eq (last : Bool) (ty size : Nat) (hty : ty < 4) (hsize : size < 2 ^ 21) :
    blockHeader last ty size =
      [headerVal last ty size % 256, headerVal last ty size / 256 % 256, headerVal last ty size / 256 / 256 % 256] := by
  have h1 : ((size <<< 3) % 2 ^ 32) = size <<< 3 := by
    rw [Nat.shiftLeft_eq]; apply Nat.mod_eq_of_lt; omega
  have h2 : (size <<< 3) ||| (ty <<< 1) = size <<< 3 + ty <<< 1 := by
    rw [Nat.shiftLeft_add_eq_or_of_lt]; rw [Nat.shiftLeft_eq]; omega
  have h3 : size <<< 3 + ty <<< 1 = (size * 4 + ty) <<< 1 := by
    simp only [Nat.shiftLeft_eq]; omega
  have h4 : ((size * 4 + ty) <<< 1) ||| (if last then 1 else 0) = (size * 4 + ty) <<< 1 + (if last then 1 else 0) := by
    rw [Nat.shiftLeft_add_eq_or_of_lt]; cases last <;> simp
  have hv : ((size <<< Gen.blockSizeShift) % 2 ^ 32) ||| (ty <<< Gen.blockTypeShift) ||| (if last then 1 else 0)
      = headerVal last ty size := by
    rw [blockSizeShift_eq, blockTypeShift_eq, h1, h2, h3, h4, Nat.shiftLeft_eq, headerVal]; omega
  simp only [blockHeader, hv, blockHeaderBytes_eq, leBytes]

theorem blockHeader_length (last : Bool) (ty size : Nat) : (blockHeader last ty size).length = 3 := by
  simp [blockHeader, blockHeaderBytes_eq]

theorem parse_headerVal (last : Bool) (ty size : Nat) (hty : ty < 4) (hsize : size < 2 ^ 21) :
    Spec.parseBlockHeader (headerVal last ty size % 256) (headerVal last ty size / 256 % 256)
        (headerVal last ty size / 256 / 256 % 256) = ⟨last, ty, size⟩ := by
  have hv : headerVal last ty size < 2 ^ 24 := by
    unfold headerVal; cases last <;> simp <;> omega
  have e : headerVal last ty size % 256 + 256 * (headerVal last ty size / 256 % 256)
      + 65536 * (headerVal last ty size / 256 / 256 % 256) = headerVal last ty size := by omega
  simp only [Spec.parseBlockHeader, e]
  unfold headerVal
  cases last <;> simp <;> omega

/-- the strict decoder on a raw block -/
theorem decodeBlocks_raw (window : Nat) (dict : Array Nat) (dfuel : Nat) (last : Bool) (blk rest : List Byte)
    (e : Spec.Entropy) (out : Array Nat) (consumed : Nat)
    (hsz : blk.length ≤ min window Spec.blockMaxSize) :
    Spec.decodeBlocks window dict (dfuel + 1) (blockHeader last 0 blk.length ++ (blk ++ rest)) e out consumed =
      if last then some (out ++ blk.toArray, consumed + 3 + blk.length)
      else Spec.decodeBlocks window dict dfuel rest e (out ++ blk.toArray) (consumed + 3 + blk.length) := by
  have hlt : blk.length < 2 ^ 21 := by simp [Spec.blockMaxSize] at hsz; omega
  rw [blockHeader_eq last 0 blk.length (by omega) hlt]
  simp only [List.cons_append, List.nil_append, Spec.decodeBlocks, parse_headerVal last 0 blk.length (by omega) hlt]
  simp
  intro h; omega

theorem all_eq_replicate (b : Byte) : ∀ (l : List Byte), l.all (fun x => x == b) = true → l = List.replicate l.length b := by
  intro l
  induction l with
  | nil => intro _; rfl
  | cons a as ih =>
    intro h
    simp only [List.all_cons, Bool.and_eq_true, beq_iff_eq] at h
    rw [List.length_cons, List.replicate_succ, h.1, ← ih h.2]

/-- the strict decoder on an RLE block -/
theorem decodeBlocks_rle (window : Nat) (dict : Array Nat) (dfuel : Nat) (last : Bool) (b : Byte) (n : Nat)
    (rest : List Byte) (e : Spec.Entropy) (out : Array Nat) (consumed : Nat)
    (hsz : n ≤ min window Spec.blockMaxSize) :
    Spec.decodeBlocks window dict (dfuel + 1) (blockHeader last 1 n ++ ([b] ++ rest)) e out consumed =
      if last then some (out ++ (List.replicate n b).toArray, consumed + 4)
      else Spec.decodeBlocks window dict dfuel rest e (out ++ (List.replicate n b).toArray) (consumed + 4) := by
  have hlt : n < 2 ^ 21 := by simp [Spec.blockMaxSize] at hsz; omega
  rw [blockHeader_eq last 1 n (by omega) hlt]
  simp only [List.cons_append, List.nil_append, Spec.decodeBlocks, parse_headerVal last 1 n (by omega) hlt]
  simp
  intro h; omega

/-- the strict decoder on a compressed block whose body the block decoder accepts -/
theorem decodeBlocks_compressed (window : Nat) (dict : Array Nat) (dfuel : Nat) (last : Bool)
    (body rest : List Byte) (e e' : Spec.Entropy) (out out' : Array Nat) (consumed : Nat)
    (h2 : 2 ≤ body.length) (hmax : body.length ≤ Spec.blockMaxSize)
    (hdec : Spec.decodeCompressedBlock window dict body e out = some (out', e')) :
    Spec.decodeBlocks window dict (dfuel + 1) (blockHeader last 2 body.length ++ (body ++ rest)) e out consumed =
      if last then some (out', consumed + 3 + body.length)
      else Spec.decodeBlocks window dict dfuel rest e' out' (consumed + 3 + body.length) := by
  have hlt : body.length < 2 ^ 21 := by simp [Spec.blockMaxSize] at hmax; omega
  rw [blockHeader_eq last 2 body.length (by omega) hlt]
  simp only [List.cons_append, List.nil_append, Spec.decodeBlocks, parse_headerVal last 2 body.length (by omega) hlt]
  simp [hdec]
  omega

end Zstd.Proofs.Enc
