import Zstd.Proofs.EncParse
import Zstd.Spec.Block
/-
Executing a matcher's parse with the model's `execParse` = executing, with the strict Spec's
`execSequences`, the sequences the compressor sends for it (never a repeat offset:
`Offset_Value = offset + 3`), on the literal buffer the compressor sends (all the literals of the
sequences, then the tail).
-/
namespace Zstd.Proofs.SeqExec
open Zstd Zstd.Model Zstd.Model.Enc Zstd.Proofs.Enc

/-- the Spec sequence the compressor sends for a matcher sequence -/
def specOfM (s : MSeq) : Spec.Seq := ⟨s.lits.length, s.matchLen, s.offset + 3⟩

/-- the model's copy is the Spec's copy; the dictionary branch of the Spec is never taken, because
`offset ≤ out.size` is checked by `copyMatch` at every byte -/
theorem copyMatch_matchCopy : ∀ (n off : Nat) (out out' : Array Byte),
    copyMatch n off out = some out' → Spec.matchCopy #[] n off out = some out' := by
  intro n
  induction n with
  | zero =>
    intro off out out' h
    simpa [copyMatch, Spec.matchCopy] using h
  | succ n ih =>
    intro off out out' h
    simp only [copyMatch] at h
    split at h
    · cases h
    · rename_i hc
      have hle : off ≤ out.size := by omega
      simp only [Spec.matchCopy, hle, ↓reduceIte]
      split at h
      · rename_i b hb
        rw [hb]
        exact ih _ _ _ h
      · cases h

/-- an `Offset_Value` above 3 is a plain offset: it is pushed on the history -/
theorem repeatOffsets_plain (o : Nat) (b : Bool) (h : Spec.OffHist) (ho : 1 ≤ o) :
    Spec.repeatOffsets (o + 3) b h = (o, ⟨o, h.r1, h.r2⟩) := by
  have h3 : o + 3 > 3 := by omega
  simp only [Spec.repeatOffsets, h3, ↓reduceIte, Nat.add_sub_cancel]

/-- executing a matcher's parse = executing the sequences the compressor sends, for any window at least
as large as the matcher's and any offset history -/
theorem execParse_refines (w window : Nat) (hww : w ≤ window) :
    ∀ (seqs : List MSeq) (tail : List Byte) (out out' : Array Byte) (h : Spec.OffHist),
      execParse w seqs tail out = some out' →
      ∃ h', Spec.execSequences window #[] (seqs.map specOfM) (seqs.flatMap (·.lits) ++ tail) h out = some (out', h') := by
  intro seqs
  induction seqs with
  | nil =>
    intro tail out out' h hex
    simp only [execParse, Option.some.injEq] at hex
    subst hex
    exact ⟨h, by simp [Spec.execSequences]⟩
  | cons s rest ih =>
    intro tail out out' h hex
    simp only [execParse] at hex
    split at hex
    · cases hex
    · rename_i hc
      split at hex
      · cases hex
      · rename_i out2 hcm
        obtain ⟨h', hh'⟩ := ih tail out2 out' ⟨s.offset, h.r1, h.r2⟩ hex
        refine ⟨h', ?_⟩
        have hmc := copyMatch_matchCopy _ _ _ _ hcm
        have ho : 1 ≤ s.offset := by omega
        have hll : ¬ (s.lits.length > (s.lits ++ (rest.flatMap (·.lits) ++ tail)).length) := by
          simp only [List.length_append]; omega
        have htake : (s.lits ++ (rest.flatMap (·.lits) ++ tail)).take s.lits.length = s.lits :=
          List.take_left
        have hdrop : (s.lits ++ (rest.flatMap (·.lits) ++ tail)).drop s.lits.length =
            rest.flatMap (·.lits) ++ tail := List.drop_left
        have h0 : ¬ s.offset = 0 := by omega
        have h1 : ¬ s.offset > (out ++ s.lits.toArray).size := by omega
        have h2 : ¬ s.offset > window := by omega
        simp only [List.map_cons, List.flatMap_cons, List.append_assoc, specOfM, Spec.execSequences,
          hll, ↓reduceIte, htake, hdrop, repeatOffsets_plain _ _ _ ho, h0, h1, h2, hmc, hh']

/-- the window the frame header declares covers the matcher's window -/
theorem le_declaredWindow (w : Nat) (hw : w ≤ 2 ^ 41) : w ≤ Zstd.Model.Enc.declaredWindow w := by
  obtain ⟨e, _, _, hwd, hwe, _⟩ := headerDescriptor_spec w hw
  rw [declaredWindow_of w e hwd]; exact hwe

end Zstd.Proofs.SeqExec
