import Zstd.Proofs.FrameDecoderRefineBlocks
import Zstd.Proofs.FrameDecoderTwin
/-
C01 + C06 together: a decoder that is drained in ANY way keeps following the Spec's run on a frame
the Spec accepts — block by block, for every strategy and every drain schedule.
-/
set_option linter.unusedSectionVars false
namespace Zstd.Model
open Zstd

variable {σ : Type} [BlockDec σ] [BlockContract σ] [RefinesSpec σ]

/-- one block of the Spec's `decodeBlocks`: (output, entropy, bytes consumed, last?) -/
def specBlockStep (window : Nat) (dict : Array Nat) (bytes : List Nat) (e : Spec.Entropy) (out : Array Nat) :
    Option (Array Nat × Spec.Entropy × Nat × Bool) :=
  match bytes with
  | b0 :: b1 :: b2 :: body =>
    let h := Spec.parseBlockHeader b0 b1 b2
    let blockMax := min window Spec.blockMaxSize
    if h.btype = 3 then none
    else if h.btype = 0 then
      if h.size > blockMax ∨ body.length < h.size then none
      else some (out ++ (body.take h.size).toArray, e, 3 + h.size, h.last)
    else if h.btype = 1 then
      if h.size > blockMax then none else
      match body with
      | [] => none
      | b :: _ => some (out ++ Array.replicate h.size b, e, 4, h.last)
    else
      if h.size > Spec.blockMaxSize ∨ body.length < h.size ∨ h.size < 2 then none
      else
        match Spec.decodeCompressedBlock window dict (body.take h.size) e out with
        | none => none
        | some (out', e') => some (out', e', 3 + h.size, h.last)
  | _ => none

theorem specDecodeBlocks_succ (window : Nat) (dict : Array Nat) (fuel : Nat) (bytes : List Nat) (e : Spec.Entropy)
    (out : Array Nat) (consumed : Nat) :
    Spec.decodeBlocks window dict (fuel + 1) bytes e out consumed =
      match specBlockStep window dict bytes e out with
      | none => none
      | some (out1, e1, n, last) =>
        if last then some (out1, consumed + n)
        else Spec.decodeBlocks window dict fuel (bytes.drop n) e1 out1 (consumed + n) := by
  match bytes with
  | [] => simp [Spec.decodeBlocks, specBlockStep]
  | [_] => simp [Spec.decodeBlocks, specBlockStep]
  | [_, _] => simp [Spec.decodeBlocks, specBlockStep]
  | b0 :: b1 :: b2 :: body =>
    have hdrop : ∀ n, (b0 :: b1 :: b2 :: body).drop (3 + n) = body.drop n := by
      intro n; rw [Nat.add_comm]; rfl
    simp only [Spec.decodeBlocks, specBlockStep]
    by_cases h3 : (Spec.parseBlockHeader b0 b1 b2).btype = 3
    · simp [h3]
    · simp only [h3, if_false]
      by_cases h0 : (Spec.parseBlockHeader b0 b1 b2).btype = 0
      · simp only [h0, if_true]
        split
        · rfl
        · simp only [hdrop, Nat.add_assoc]
      · simp only [h0, if_false]
        by_cases h1 : (Spec.parseBlockHeader b0 b1 b2).btype = 1
        · simp only [h1, if_true]
          split
          · rfl
          · cases body with
            | nil => rfl
            | cons b rest => simp only; rfl
        · simp only [h1, if_false]
          split
          · rfl
          · cases hcb : Spec.decodeCompressedBlock window dict (body.take (Spec.parseBlockHeader b0 b1 b2).size) e out with
            | none => rfl
            | some p => obtain ⟨o', e'⟩ := p; simp only [hdrop, Nat.add_assoc]


/-- what one successful block step leaves behind (relative to the state before) -/
structure BlockRefines (st st1 : FState σ) (e1 : Spec.Entropy) (out1 : Array Nat) (n : Nat) : Prop where
  spec : SpecState st1 e1 out1
  bytesRead : st1.bytesRead = st.bytesRead + n
  header : st1.header = st.header
  finished : st1.finished = st.finished
  checksum : st1.checksum = st.checksum
  hashed : st1.buf.hashed = st.buf.hashed
  window : st1.buf.window = st.buf.window
  dict : st1.buf.dict = st.buf.dict

/-- `decodeOneBlock` follows the Spec's block step (raw, RLE, compressed) -/
theorem decodeOneBlock_refines (bytes : List Nat) (hb : ∀ x ∈ bytes, x < 256) (e : Spec.Entropy) (st : FState σ)
    (out1 : Array Nat) (e1 : Spec.Entropy) (n : Nat) (last : Bool)
    (hst : SpecState st e st.buf.content)
    (hs : specBlockStep st.buf.window st.buf.dict bytes e st.buf.content = some (out1, e1, n, last)) :
    ∃ st1 bh, decodeOneBlock st bytes = (st1, .ok (bh, bytes.drop n)) ∧ bh.last = last ∧ 3 ≤ n ∧ n ≤ bytes.length ∧
      BlockRefines st st1 e1 out1 n := by
  match bytes, hb, hs with
  | [], _, hs => simp [specBlockStep] at hs
  | [_], _, hs => simp [specBlockStep] at hs
  | [_, _], _, hs => simp [specBlockStep] at hs
  | b0 :: b1 :: b2 :: body, hb, hs =>
    have h0 : b0 < 256 := hb b0 (by simp)
    have h1 : b1 < 256 := hb b1 (by simp)
    have h2 : b2 < 256 := hb b2 (by simp)
    simp only [specBlockStep] at hs
    generalize hH : Spec.parseBlockHeader b0 b1 b2 = H at hs
    have hmin : min st.buf.window Spec.blockMaxSize ≤ Spec.blockMaxSize := Nat.min_le_right _ _
    have hlen3 : ¬ (b0 :: b1 :: b2 :: body).length < 3 := by simp
    have hg0 : (b0 :: b1 :: b2 :: body).getD 0 0 = b0 := rfl
    have hg1 : (b0 :: b1 :: b2 :: body).getD 1 0 = b1 := rfl
    have hg2 : (b0 :: b1 :: b2 :: body).getD 2 0 = b2 := rfl
    have hd3 : (b0 :: b1 :: b2 :: body).drop 3 = body := rfl
    have hone : ∀ (hok : H.btype ≠ 3 ∧ H.size ≤ Spec.blockMaxSize),
        decodeOneBlock st (b0 :: b1 :: b2 :: body) =
          let bh : BHeader := { last := H.last, btype := H.btype, decompressedSize := if H.btype = 2 then 0 else H.size,
                                contentSize := if H.btype = 1 then 1 else H.size }
          if (b0 :: b1 :: b2 :: body).length < 3 + bh.contentSize then
            ({ st with bytesRead := st.bytesRead + 3 }, .err .blockBodyRead)
          else ((blockBody st bh (body.take bh.contentSize)).1,
                (blockBody st bh (body.take bh.contentSize)).2.mapOk (fun _ => (bh, (b0 :: b1 :: b2 :: body).drop (3 + bh.contentSize)))) := by
      intro hok
      rw [decodeOneBlock_eq, if_neg hlen3, hg0, hg1, hg2, parseBlockHeader_refines b0 b1 b2 h0 h1 h2 (by rw [hH]; exact hok), hH, hd3]
    by_cases ht3 : H.btype = 3
    · simp [ht3] at hs
    · rw [if_neg ht3] at hs
      by_cases ht0 : H.btype = 0
      · rw [if_pos ht0] at hs
        split at hs
        · cases hs
        · rename_i hcond
          simp only [Option.some.injEq, Prod.mk.injEq] at hs
          obtain ⟨rfl, rfl, rfl, rfl⟩ := hs
          have hsz1 : H.size ≤ Spec.blockMaxSize := by omega
          have hsz2 : H.size ≤ body.length := by omega
          have hblk := hone ⟨ht3, hsz1⟩
          simp only [ht0, (by decide : ¬ (0:Nat) = 1), (by decide : ¬ (0:Nat) = 2), if_false] at hblk
          rw [if_neg (by simp only [List.length_cons]; omega)] at hblk
          simp only [blockBody, Out.mapOk, (by decide : ¬ (0:Nat) = 1), if_false, if_true] at hblk
          refine ⟨_, _, hblk, rfl, by omega, by simp only [List.length_cons]; omega,
            ⟨⟨rfl, hst.entropy, ?_⟩, by simp; omega, rfl, rfl, rfl, rfl, rfl, rfl⟩⟩
          have := hst.totalOut
          simp only [Array.size_append]; omega
      · rw [if_neg ht0] at hs
        by_cases ht1 : H.btype = 1
        · rw [if_pos ht1] at hs
          split at hs
          · cases hs
          · rename_i hcond
            have hsz1 : H.size ≤ Spec.blockMaxSize := by omega
            split at hs
            · cases hs
            · rename_i b rest
              simp only [Option.some.injEq, Prod.mk.injEq] at hs
              obtain ⟨rfl, rfl, rfl, rfl⟩ := hs
              have hblk := hone ⟨ht3, hsz1⟩
              simp only [ht1, (by decide : ¬ (1:Nat) = 2), if_false, if_true] at hblk
              rw [if_neg (by simp only [List.length_cons]; omega)] at hblk
              simp only [blockBody, Out.mapOk, if_true, List.take_succ_cons, List.take_zero, List.headD_cons] at hblk
              refine ⟨_, _, hblk, rfl, by omega, by simp only [List.length_cons]; omega,
                ⟨⟨rfl, hst.entropy, ?_⟩, by simp, rfl, rfl, rfl, rfl, rfl, rfl⟩⟩
              have := hst.totalOut
              simp only [Array.size_append]; omega
        · rw [if_neg ht1] at hs
          split at hs
          · cases hs
          · rename_i hcond
            have hsz1 : H.size ≤ Spec.blockMaxSize := by omega
            have hsz2 : H.size ≤ body.length := by omega
            split at hs
            · cases hs
            · rename_i o1 e1' hcb
              simp only [Option.some.injEq, Prod.mk.injEq] at hs
              obtain ⟨rfl, rfl, rfl, rfl⟩ := hs
              have hblk := hone ⟨ht3, hsz1⟩
              simp only [ht1, if_false] at hblk
              rw [if_neg (by simp only [List.length_cons]; omega)] at hblk
              obtain ⟨b', s', hdb, hrb, hcp⟩ := RefinesSpec.refines (body.take H.size) st.entropy e e1' st.buf o1
                (fun x hx => hb x (by simp [List.mem_of_mem_take hx])) hst.entropy hst.totalOut hcb
              simp only [blockBody, ht0, ht1, if_false, hdb, Out.mapOk] at hblk
              exact ⟨_, _, hblk, rfl, by omega, by simp only [List.length_cons]; omega,
                ⟨⟨hrb.content, hcp, hrb.totalOut⟩, by simp; omega, rfl, rfl, rfl, hrb.hashed, hrb.window, hrb.dict⟩⟩


/-- once the output exceeds the window, every offset the Spec accepts is at most the window -/
theorem execSequences_offsets_le (window : Nat) (dict : Array Nat) (seqs : List Spec.Seq) (lits : List Nat)
    (h h' : Spec.OffHist) (out out' : Array Nat) (hov : ∀ s ∈ seqs, s.ov ≥ 1)
    (hs : Spec.execSequences window dict seqs lits h out = some (out', h')) (hbig : window < out.size) :
    ∀ o ∈ resolvedOffsets seqs (h.r1, h.r2, h.r3), o ≤ window := by
  induction seqs generalizing lits h out with
  | nil => intro o ho; simp [resolvedOffsets] at ho
  | cons s rest ih =>
    have hs1 : s.ov ≥ 1 := hov s List.mem_cons_self
    have hrest : ∀ s' ∈ rest, s'.ov ≥ 1 := fun s' hm => hov s' (List.mem_cons_of_mem _ hm)
    simp only [Spec.execSequences] at hs
    simp only [resolvedOffsets, offsetHistory_eq_spec s.ov s.ll h hs1]
    generalize hro : Spec.repeatOffsets s.ov (decide (s.ll = 0)) h = ro at hs ⊢
    obtain ⟨off, hh⟩ := ro
    simp only at hs ⊢
    by_cases hll : s.ll > lits.length
    · rw [if_pos hll] at hs; cases hs
    · rw [if_neg hll] at hs
      by_cases hoff : off = 0
      · rw [if_pos hoff] at hs; cases hs
      · rw [if_neg hoff] at hs
        have hsz1 : (out ++ (lits.take s.ll).toArray).size ≥ out.size := by simp only [Array.size_append]; omega
        by_cases hgt : off > (out ++ (lits.take s.ll).toArray).size
        · rw [if_pos hgt] at hs
          rw [if_pos (Or.inl (by omega))] at hs
          cases hs
        · rw [if_neg hgt] at hs
          by_cases hw : off > window
          · rw [if_pos hw] at hs; cases hs
          · rw [if_neg hw] at hs
            split at hs
            · cases hs
            · rename_i out2 hm
              have h2 := matchCopy_size _ _ _ _ _ hm
              intro o ho
              rcases List.mem_cons.mp ho with rfl | ho
              · omega
              · exact ih _ _ _ hrest hs (by omega) o ho


theorem decodeLiteralsM_of_spec (bytes : List Nat) (prev : Option Spec.Huffman.Table) (lits : List Nat) (used : Nat)
    (huf : Option Spec.Huffman.Table) (hlit : Spec.decodeLiterals bytes prev = some (lits, used, huf))
    (hsz : lits.length ≤ Gen.maxBlockSize) :
    ∃ hd, decodeLiteralsM bytes prev = .ok (lits, used, huf, hd) := by
  obtain ⟨hd, hhd, hused, hul, htake⟩ := decodeLiterals_take bytes prev lits used huf hlit
  obtain ⟨hd', hhd', hlen⟩ := decodeLiterals_length _ _ _ _ _ hlit
  rw [hhd] at hhd'; cases hhd'
  refine ⟨hd, ?_⟩
  simp only [decodeLiteralsM, hhd]
  rw [if_neg (by omega)]
  rw [if_neg (by rw [List.length_drop]; omega), ← hused, htake used (Nat.le_refl _)]

/-- the offsets of a compressed block the Spec accepts, once the output exceeds the window -/
theorem blockOffsets_le (window : Nat) (dict : Array Nat) (bytes : List Nat) (e e' : Spec.Entropy)
    (out out' : Array Nat) (hs : Spec.decodeCompressedBlock window dict bytes e out = some (out', e'))
    (hbig : window < out.size) : ∀ o ∈ blockOffsets bytes e, o ≤ window := by
  simp only [Spec.decodeCompressedBlock] at hs
  split at hs
  · cases hs
  · rename_i lits used huf hlit
    split at hs
    · cases hs
    · rename_i seqs e1 hseq
      split at hs
      · cases hs
      · rename_i out2 h2 hexec
        split at hs
        · cases hs
        · rename_i hsize
          have hsz := execSequences_size _ _ _ _ _ _ _ _ hexec
          have hle := execSequences_lits_le _ _ _ _ _ _ _ _ hexec
          have e1' : Spec.blockMaxSize = 131072 := by decide
          have e2' : Gen.maxBlockSize = 131072 := by decide
          have hfin : finalSeqSum seqs lits 0 ≤ 131072 := by
            have : out2.size - out.size ≤ Spec.blockMaxSize := by
              have := Nat.min_le_right window Spec.blockMaxSize; omega
            omega
          obtain ⟨hd, hlitM⟩ := decodeLiteralsM_of_spec bytes e.huf lits used huf hlit (by omega)
          simp only [blockOffsets, hlitM]
          cases hcnt : Spec.parseSeqCount (bytes.drop used) with
          | none => intro o ho; simp at ho
          | some p =>
            obtain ⟨n, u⟩ := p
            simp only
            by_cases hn : n = 0
            · simp [hn]
            · simp only [hn, if_false, decodeSequencesM, hseq]
              exact execSequences_offsets_le window dict seqs lits e1.hist h2 out out2
                (decodeSequences_ov _ _ _ _ hseq) hexec hbig


theorem nextBlockOffsets_le (bytes : List Nat) (hb : ∀ x ∈ bytes, x < 256) (e : Spec.Entropy) (st : FState σ)
    (window : Nat) (dict : Array Nat) (out out1 : Array Nat) (e1 : Spec.Entropy) (n : Nat) (last : Bool)
    (hent : RefinesSpec.coupled st.entropy e)
    (hs : specBlockStep window dict bytes e out = some (out1, e1, n, last)) (hbig : window < out.size) :
    ∀ o ∈ nextBlockOffsets st bytes, o ≤ window := by
  match bytes, hb, hs with
  | [], _, hs => simp [specBlockStep] at hs
  | [_], _, hs => simp [specBlockStep] at hs
  | [_, _], _, hs => simp [specBlockStep] at hs
  | b0 :: b1 :: b2 :: body, hb, hs =>
    have h0 : b0 < 256 := hb b0 (by simp)
    have h1 : b1 < 256 := hb b1 (by simp)
    have h2 : b2 < 256 := hb b2 (by simp)
    simp only [specBlockStep] at hs
    generalize hH : Spec.parseBlockHeader b0 b1 b2 = H at hs
    have hmin : min window Spec.blockMaxSize ≤ Spec.blockMaxSize := Nat.min_le_right _ _
    have hg0 : (b0 :: b1 :: b2 :: body).getD 0 0 = b0 := rfl
    have hg1 : (b0 :: b1 :: b2 :: body).getD 1 0 = b1 := rfl
    have hg2 : (b0 :: b1 :: b2 :: body).getD 2 0 = b2 := rfl
    have hd3 : (b0 :: b1 :: b2 :: body).drop 3 = body := rfl
    simp only [nextBlockOffsets, hg0, hg1, hg2, hd3]
    rw [if_neg (by simp)]
    by_cases ht3 : H.btype = 3
    · simp [ht3] at hs
    · rw [if_neg ht3] at hs
      by_cases ht0 : H.btype = 0
      · rw [if_pos ht0] at hs
        split at hs
        · cases hs
        · have hsz1 : H.size ≤ Spec.blockMaxSize := by omega
          rw [parseBlockHeader_refines b0 b1 b2 h0 h1 h2 (by rw [hH]; exact ⟨ht3, hsz1⟩), hH]
          simp [ht0]
      · rw [if_neg ht0] at hs
        by_cases ht1 : H.btype = 1
        · rw [if_pos ht1] at hs
          split at hs
          · cases hs
          · have hsz1 : H.size ≤ Spec.blockMaxSize := by omega
            rw [parseBlockHeader_refines b0 b1 b2 h0 h1 h2 (by rw [hH]; exact ⟨ht3, hsz1⟩), hH]
            simp [ht1]
        · rw [if_neg ht1] at hs
          split at hs
          · cases hs
          · rename_i hcond
            have hsz1 : H.size ≤ Spec.blockMaxSize := by omega
            rw [parseBlockHeader_refines b0 b1 b2 h0 h1 h2 (by rw [hH]; exact ⟨ht3, hsz1⟩), hH]
            simp only [ht1, ht0, if_false, or_false]
            split
            · intro o ho; simp at ho
            · split at hs
              · cases hs
              · rename_i o1 e1' hcb
                exact RefinesSpec.offsets_le window dict _ st.entropy e e1' out o1
                  (fun x hx => hb x (by simp [List.mem_of_mem_take hx])) hent hcb hbig

/-- the invariant of a decoder (drained in any way) that is following a Spec run: `out` is everything
the frame has produced so far -/
structure Follows (st : FState σ) (e : Spec.Entropy) (out : Array Nat) : Prop where
  entropy : RefinesSpec.coupled st.entropy e
  stream : st.buf.hashed ++ st.buf.content = out
  totalOut : st.buf.totalOut ≤ out.size
  retains : st.buf.hashed = #[] ∨ (st.buf.window ≤ st.buf.content.size ∧ st.buf.window < out.size)


/-- what one block does to a decoder that follows a Spec run: it keeps following it -/
structure FollowStep (st st1 : FState σ) (n : Nat) : Prop where
  bytesRead : st1.bytesRead = st.bytesRead + n
  header : st1.header = st.header
  finished : st1.finished = st.finished
  checksum : st1.checksum = st.checksum
  hashed : st1.buf.hashed = st.buf.hashed
  window : st1.buf.window = st.buf.window
  dict : st1.buf.dict = st.buf.dict
  grows : st.buf.content.size ≤ st1.buf.content.size

/-- `decodeOneBlock_follows`: on a decoder drained in ANY way that follows a Spec run (`Follows`), the
next block the Spec accepts is decoded `Ok`, consumes the Spec's byte count, and the decoder still
follows the Spec run: delivered ++ buffered = the Spec's output after that block -/
theorem decodeOneBlock_follows (bytes : List Nat) (hb : ∀ x ∈ bytes, x < 256) (e : Spec.Entropy) (st : FState σ)
    (out out1 : Array Nat) (e1 : Spec.Entropy) (n : Nat) (last : Bool) (hf : Follows st e out)
    (hs : specBlockStep st.buf.window st.buf.dict bytes e out = some (out1, e1, n, last)) :
    ∃ st1 bh, decodeOneBlock st bytes = (st1, .ok (bh, bytes.drop n)) ∧ bh.last = last ∧ 3 ≤ n ∧ n ≤ bytes.length ∧
      Follows st1 e1 out1 ∧ FollowStep st st1 n := by
  -- the never-drained twin
  have hstF : SpecState (st.twin st.buf.hashed #[]) e (st.twin st.buf.hashed #[]).buf.content :=
    ⟨rfl, hf.entropy, by simp only [FState.twin, DBuf.twin]; rw [hf.stream]; exact hf.totalOut⟩
  have hsF : specBlockStep (st.twin st.buf.hashed #[]).buf.window (st.twin st.buf.hashed #[]).buf.dict bytes e
      (st.twin st.buf.hashed #[]).buf.content = some (out1, e1, n, last) := by
    simp only [FState.twin, DBuf.twin]; rw [hf.stream]; exact hs
  obtain ⟨stF1, bh, hdF, hlast, h3, hn, hbr⟩ := decodeOneBlock_refines bytes hb e _ out1 e1 n last hstF hsF
  have hgrow : out.size ≤ out1.size := by
    have hstep := decodeOneBlock_step (st.twin st.buf.hashed #[]) bytes
    rw [hdF] at hstep
    obtain ⟨y, hy, -⟩ := hstep.appends
    have := hy.size
    rw [hbr.spec.content] at this
    simp only [FState.twin, DBuf.twin] at this
    rw [hf.stream] at this
    omega
  by_cases hh : st.buf.hashed = #[]
  · -- nothing drained: the twin is the state itself
    rw [FState.twin_self st hh] at hdF hbr
    have hstep := decodeOneBlock_step st bytes
    rw [hdF] at hstep
    obtain ⟨y, hy, -⟩ := hstep.appends
    refine ⟨stF1, bh, hdF, hlast, h3, hn, ⟨hbr.spec.entropy, ?_, (by rw [← hbr.spec.content]; exact hbr.spec.totalOut),
      Or.inl (hbr.hashed.trans hh)⟩, ⟨hbr.bytesRead, hbr.header, hbr.finished, hbr.checksum, hbr.hashed, hbr.window, hbr.dict, ?_⟩⟩
    · rw [hbr.hashed, hh, Array.empty_append, hbr.spec.content]
    · rw [hy.size]; omega
  · obtain ⟨hw, hbig⟩ : st.buf.window ≤ st.buf.content.size ∧ st.buf.window < out.size := by
      rcases hf.retains with h | h
      · exact absurd h hh
      · exact h
    have hoff := nextBlockOffsets_le bytes hb e st st.buf.window st.buf.dict out out1 e1 n last hf.entropy hs hbig
    have htw := decodeOneBlock_twin st.buf.window st.buf.hashed #[] st bytes hw hoff
    rw [hdF] at htw
    simp only [Prod.mk.injEq] at htw
    obtain ⟨htw1, htw2⟩ := htw
    have hstep := decodeOneBlock_step st bytes
    obtain ⟨y, hy, -⟩ := hstep.appends
    refine ⟨(decodeOneBlock st bytes).1, bh, Prod.ext rfl htw2.symm, hlast, h3, hn, ?_, ?_⟩
    · have hc : stF1.buf.content = st.buf.hashed ++ (decodeOneBlock st bytes).1.buf.content := by rw [htw1]; rfl
      have hsz := hy.size
      refine ⟨?_, ?_, ?_, Or.inr ⟨?_, ?_⟩⟩
      · have := hbr.spec.entropy; rw [htw1] at this; exact this
      · rw [hy.hashed, ← hc, hbr.spec.content]
      · have := hbr.spec.totalOut
        rw [htw1] at this
        simp only [FState.twin, DBuf.twin, Array.size_append] at this
        rw [← hbr.spec.content, hc, Array.size_append]
        exact this
      · rw [hy.window, hsz]; omega
      · rw [hy.window]; omega
    · have hbr' := hbr
      rw [htw1] at hbr'
      exact ⟨hbr'.bytesRead, hbr'.header, hbr'.finished, hbr'.checksum, hy.hashed, hy.window, hy.dict, by rw [hy.size]; omega⟩



theorem FollowStep.refl (st : FState σ) : FollowStep st st 0 :=
  ⟨rfl, rfl, rfl, rfl, rfl, rfl, rfl, Nat.le_refl _⟩

theorem FollowStep.trans {a b c : FState σ} {n m : Nat} (h1 : FollowStep a b n) (h2 : FollowStep b c m) :
    FollowStep a c (n + m) :=
  ⟨by rw [h2.bytesRead, h1.bytesRead]; omega, h2.header.trans h1.header, h2.finished.trans h1.finished,
   h2.checksum.trans h1.checksum, h2.hashed.trans h1.hashed, h2.window.trans h1.window, h2.dict.trans h1.dict,
   Nat.le_trans h1.grows h2.grows⟩

/-- the block loop with ANY strategy on a decoder that follows a Spec run: it either stops at a block
boundary still following the same Spec run (strategy budget reached), or it completes the frame with
delivered ++ buffered = the Spec's output -/
theorem decodeBlocksLoop_follows (strat : Strategy) (a c : Nat) (fuelS fuel : Nat) (bytes : List Nat)
    (hb : ∀ x ∈ bytes, x < 256) (e : Spec.Entropy) (st : FState σ) (out out' : Array Nat) (consumed consumed' : Nat)
    (hfuel : bytes.length < fuel) (hf : Follows st e out)
    (hs : Spec.decodeBlocks st.buf.window st.buf.dict fuelS bytes e out consumed = some (out', consumed')) :
    (∃ st1 n e1 out1 fuelS1, n ≤ bytes.length ∧
        decodeBlocksLoop strat a c fuel st bytes = (st1, .ok (bytes.drop n)) ∧ Follows st1 e1 out1 ∧
        Spec.decodeBlocks st.buf.window st.buf.dict fuelS1 (bytes.drop n) e1 out1 (consumed + n) = some (out', consumed') ∧
        FollowStep st st1 n ∧ (0 < n) ∧ stratStop strat a c st1 = true) ∨
    (∃ st' n, consumed' = consumed + n ∧ n ≤ bytes.length ∧
        decodeBlocksLoop strat a c fuel st bytes = finishFrame st' (bytes.drop n) ∧
        st'.buf.hashed ++ st'.buf.content = out' ∧ FollowStep st st' n) := by
  induction fuelS generalizing fuel bytes e st out consumed with
  | zero => simp [Spec.decodeBlocks] at hs
  | succ fuelS ih =>
    obtain ⟨fuel, rfl⟩ : ∃ g, fuel = g + 1 := ⟨fuel - 1, by omega⟩
    rw [specDecodeBlocks_succ] at hs
    cases hstep : specBlockStep st.buf.window st.buf.dict bytes e out with
    | none => rw [hstep] at hs; cases hs
    | some p =>
      obtain ⟨out1, e1, n1, last⟩ := p
      rw [hstep] at hs
      simp only at hs
      obtain ⟨st1, bh, hdec, hlast, h3, hn1, hf1, hfs⟩ := decodeOneBlock_follows bytes hb e st out out1 e1 n1 last hf hstep
      by_cases hl : last = true
      · rw [if_pos hl] at hs
        simp only [Option.some.injEq, Prod.mk.injEq] at hs
        obtain ⟨rfl, rfl⟩ := hs
        right
        exact ⟨st1, n1, rfl, hn1, decodeBlocksLoop_last _ _ _ _ _ _ _ _ _ hdec (by rw [hlast, hl]), hf1.stream, hfs⟩
      · rw [if_neg hl] at hs
        have hl' : bh.last = false := by rw [hlast]; simpa using hl
        rw [decodeBlocksLoop_succ, hdec]
        simp only [hl', Bool.false_eq_true, if_false]
        by_cases hstop : stratStop strat a c st1 = true
        · rw [if_pos hstop]
          left
          exact ⟨st1, n1, e1, out1, fuelS, hn1, rfl, hf1, hs, hfs, by omega, hstop⟩
        · rw [if_neg hstop]
          have hs' : Spec.decodeBlocks st1.buf.window st1.buf.dict fuelS (bytes.drop n1) e1 out1 (consumed + n1) = some (out', consumed') := by
            rw [hfs.window, hfs.dict]; exact hs
          rcases ih fuel (bytes.drop n1) (fun x hx => hb x (List.mem_of_mem_drop hx)) e1 st1 out1 (consumed + n1)
            (by rw [List.length_drop]; omega) hf1 hs' with ⟨st2, n, e2, out2, fS, hn, hrun, hf2, hs2, hfs2, hpos, hstop2⟩ | ⟨st', n, hc, hn, hrun, hstr, hfs2⟩
          · left
            rw [List.length_drop] at hn
            refine ⟨st2, n1 + n, e2, out2, fS, by omega, by rw [hrun, List.drop_drop], hf2, ?_, hfs.trans hfs2, by omega, hstop2⟩
            rw [List.drop_drop, hfs.window, hfs.dict, Nat.add_assoc] at hs2
            exact hs2
          · right
            rw [List.length_drop] at hn
            exact ⟨st', n1 + n, by omega, by omega, by rw [hrun, List.drop_drop], hstr, hfs.trans hfs2⟩



/-! ### programs over a frame the Spec accepts -/

/-- The invariant of a decoder working through a frame the Spec accepts (`out'` = the frame's content,
`sEnd` = the source behind the frame, `cons` = the frame's length, `cks` = its stored checksum):
either it is still following the Spec's block run, or the frame's blocks are all in. -/
def FrameInv (out' : Array Nat) (sEnd : Src) (cons : Nat) (cks : Option Nat) (d : Decoder σ) (s : Src) : Prop :=
  ∃ st, d.state = some st ∧
    ((st.finished = false ∧ st.checksum = none ∧ (∀ x ∈ s, x < 256) ∧
      ∃ e out fuelS consumed n, Follows st e out ∧
        Spec.decodeBlocks st.buf.window st.buf.dict fuelS s e out consumed = some (out', consumed + n) ∧
        n ≤ s.length ∧
        (st.header.checksumFlag = true → ∃ cb, readExact 4 (s.drop n) = some (cb, sEnd) ∧ cks = some (leNat cb) ∧
            st.bytesRead + n + 4 = cons) ∧
        (st.header.checksumFlag = false → s.drop n = sEnd ∧ cks = none ∧ st.bytesRead + n = cons))
     ∨ (st.finished = true ∧ st.buf.hashed ++ st.buf.content = out' ∧ s = sEnd ∧ st.bytesRead = cons ∧
        st.checksum = cks ∧ d.isFinished = true))

theorem Follows.take {st : FState σ} {e : Spec.Entropy} {out : Array Nat} (h : Follows st e out) (k : Nat)
    (hk : k = 0 ∨ (st.buf.window ≤ st.buf.content.size - k ∧ k ≤ st.buf.content.size)) :
    Follows { st with buf := (st.buf.take k).2 } e out := by
  refine ⟨h.entropy, ?_, h.totalOut, ?_⟩
  · simp only [DBuf.take_hashed]
    rw [Array.append_assoc, DBuf.take_partition]; exact h.stream
  · rcases hk with rfl | ⟨hw, hk⟩
    · rw [DBuf.take_zero]; exact h.retains
    · by_cases hk0 : k = 0
      · subst hk0; rw [DBuf.take_zero]; exact h.retains
      · right
        simp only [DBuf.take_content_size, DBuf.take_window]
        refine ⟨hw, ?_⟩
        have := congrArg Array.size h.stream
        rw [Array.size_append] at this
        omega

/-- drains keep the frame invariant -/
theorem FrameInv.drain {out' : Array Nat} {sEnd : Src} {cons : Nat} {cks : Option Nat} {d : Decoder σ} {s : Src}
    (h : FrameInv out' sEnd cons cks d s) (op : DrainOp) : FrameInv out' sEnd cons cks (applyDrain d op).1 s := by
  obtain ⟨st, hst, hcase⟩ := h
  rcases applyDrain_take d op with ⟨hn, -⟩ | ⟨st', k, hs', hk, he⟩
  · rw [hst] at hn; cases hn
  · rw [hst] at hs'; cases hs'
    rw [he]
    refine ⟨_, rfl, ?_⟩
    rcases hcase with ⟨hnf, hcs, hb, e, out, fuelS, consumed, n, hf, hsp, hn, hc1, hc2⟩ | ⟨hfin, hstr, hs, hbr, hck, hif⟩
    · left
      have hnd : d.blocksDone = false := by simp [Decoder.blocksDone, hst, hnf]
      have hret := (applyDrain_retains d op hnd).1
      rw [he] at hret
      simp only [Decoder.window, Decoder.content, hst, DBuf.take_content_size] at hret
      refine ⟨hnf, hcs, hb, e, out, fuelS, consumed, n, hf.take k ?_, hsp, hn, hc1, hc2⟩
      by_cases hw : st.buf.window ≤ st.buf.content.size
      · right; exact ⟨by omega, hk⟩
      · left; omega
    · right
      refine ⟨hfin, ?_, hs, hbr, hck, ?_⟩
      · simp only [DBuf.take_hashed]
        rw [Array.append_assoc, DBuf.take_partition]; exact hstr
      · simpa [Decoder.isFinished, hst] using hif


theorem specDecodeBlocks_consumed_ge (window : Nat) (dict : Array Nat) (fuel : Nat) (bytes : List Nat) (e : Spec.Entropy)
    (out out' : Array Nat) (consumed consumed' : Nat)
    (h : Spec.decodeBlocks window dict fuel bytes e out consumed = some (out', consumed')) : consumed ≤ consumed' := by
  induction fuel generalizing bytes e out consumed with
  | zero => simp [Spec.decodeBlocks] at h
  | succ fuel ih =>
    rw [specDecodeBlocks_succ] at h
    split at h
    · cases h
    · split at h
      · simp only [Option.some.injEq, Prod.mk.injEq] at h; omega
      · have := ih _ _ _ _ h; omega

/-- `decode_blocks` with ANY strategy, called while the last block is not in, keeps the frame invariant
and never fails -/
theorem FrameInv.blocks' {out' : Array Nat} {sEnd : Src} {cons : Nat} {cks : Option Nat} {d : Decoder σ} {s : Src}
    (h : FrameInv out' sEnd cons cks d s) (hnd : d.blocksDone = false) (strat : Strategy) :
    ∃ d1 s1 fin, d.decodeBlocks s strat = (d1, .ok (s1, fin)) ∧ FrameInv out' sEnd cons cks d1 s1 ∧
      (s1.length < s.length ∨ d1.isFinished = true) ∧ d1.dicts = d.dicts ∧ d1.maxWindow = d.maxWindow := by
  obtain ⟨st, hst, hcase⟩ := h
  rcases hcase with ⟨hnf, hcs, hb, e, out, fuelS, consumed, n, hf, hsp, hn, hc1, hc2⟩ | ⟨hfin, -⟩
  · rw [Decoder.decodeBlocks_some d st s strat hst]
    rcases decodeBlocksLoop_follows strat st.buf.content.size st.blockCounter fuelS (s.length + 1) s hb e st out out'
        consumed (consumed + n) (by omega) hf hsp with
      ⟨st1, m, e1, out1, fS1, hm, hrun, hf1, hs1, hfs, hpos, -⟩ | ⟨st', m, hcm, hm, hrun, hstr, hfs⟩
    · -- stopped at a block boundary, still inside the frame
      have hge := specDecodeBlocks_consumed_ge _ _ _ _ _ _ _ _ _ hs1
      have hmn : m ≤ n := by omega
      rw [hrun]
      refine ⟨_, _, _, rfl, ⟨st1, rfl, Or.inl ⟨by rw [hfs.finished, hnf], by rw [hfs.checksum, hcs],
        fun x hx => hb x (List.mem_of_mem_drop hx), e1, out1, fS1, consumed + m, n - m, hf1, ?_, ?_, ?_, ?_⟩⟩,
        Or.inl (by rw [List.length_drop]; omega), rfl, rfl⟩
      · rw [hfs.window, hfs.dict, show consumed + m + (n - m) = consumed + n by omega]; exact hs1
      · rw [List.length_drop]; omega
      · intro hflag
        rw [hfs.header] at hflag
        obtain ⟨cb, hre, hck, hbr⟩ := hc1 hflag
        refine ⟨cb, ?_, hck, ?_⟩
        · rw [List.drop_drop, show m + (n - m) = n by omega]; exact hre
        · rw [hfs.bytesRead]; omega
      · intro hflag
        rw [hfs.header] at hflag
        obtain ⟨hse, hck, hbr⟩ := hc2 hflag
        refine ⟨?_, hck, ?_⟩
        · rw [List.drop_drop, show m + (n - m) = n by omega]; exact hse
        · rw [hfs.bytesRead]; omega
    · -- the frame's last block
      have hmn : m = n := by omega
      subst hmn
      rw [hrun]
      simp only [finishFrame]
      by_cases hflag : st.header.checksumFlag = true
      · obtain ⟨cb, hre, hck, hbr⟩ := hc1 hflag
        rw [hfs.header, if_pos hflag, hre]
        refine ⟨_, _, _, rfl, ⟨_, rfl, Or.inr ⟨rfl, hstr, rfl, ?_, ?_, ?_⟩⟩, Or.inr ?_, rfl, rfl⟩
        · simp only; rw [hfs.bytesRead]; omega
        · simp only; rw [hck]
        · simp [Decoder.isFinished, hfs.header, hflag]
        · simp [Decoder.isFinished, hfs.header, hflag]
      · have hflag' : st.header.checksumFlag = false := by simpa using hflag
        obtain ⟨hse, hck, hbr⟩ := hc2 hflag'
        rw [hfs.header, if_neg hflag]
        refine ⟨_, _, _, rfl, ⟨_, rfl, Or.inr ⟨rfl, hstr, hse, ?_, ?_, ?_⟩⟩, Or.inr ?_, rfl, rfl⟩
        · simp only; rw [hfs.bytesRead]; omega
        · simp only; rw [hfs.checksum, hcs, hck]
        · simp [Decoder.isFinished, hfs.header, hflag']
        · simp [Decoder.isFinished, hfs.header, hflag']
  · simp [Decoder.blocksDone, hst, hfin] at hnd

theorem FrameInv.blocks {out' : Array Nat} {sEnd : Src} {cons : Nat} {cks : Option Nat} {d : Decoder σ} {s : Src}
    (h : FrameInv out' sEnd cons cks d s) (hnd : d.blocksDone = false) (strat : Strategy) :
    ∃ d1 s1 fin, d.decodeBlocks s strat = (d1, .ok (s1, fin)) ∧ FrameInv out' sEnd cons cks d1 s1 := by
  obtain ⟨d1, s1, fin, h1, h2, -⟩ := h.blocks' hnd strat
  exact ⟨d1, s1, fin, h1, h2⟩


/-- documented use: `decode_blocks` is only called while the frame's last block is not in -/
def DocOk (d : Decoder σ) (s : Src) : List SOp → Prop
  | [] => True
  | .drain o :: ops => DocOk (applyDrain d o).1 s ops
  | .blocks strat :: ops =>
    d.blocksDone = false ∧
    match d.decodeBlocks s strat with
    | (d1, .ok (s1, _)) => DocOk d1 s1 ops
    | _ => True

/-- every documented program on a frame the Spec accepts: no error, the invariant holds at the end, and
the hasher has seen exactly the delivered bytes -/
theorem runSched_frameInv {out' : Array Nat} {sEnd : Src} {cons : Nat} {cks : Option Nat} (d : Decoder σ) (s : Src)
    (ops : List SOp) (h : FrameInv out' sEnd cons cks d s) (hdoc : DocOk d s ops) :
    (runSched d s ops).2.2.2 = none ∧ FrameInv out' sEnd cons cks (runSched d s ops).1 (runSched d s ops).2.1 ∧
    (runSched d s ops).1.hashed = d.hashed ++ (runSched d s ops).2.2.1 := by
  induction ops generalizing d s with
  | nil => exact ⟨rfl, h, by simp [runSched]⟩
  | cons op ops ih =>
    cases op with
    | drain o =>
      simp only [DocOk] at hdoc
      obtain ⟨h1, h2, h3⟩ := ih _ _ (h.drain o) hdoc
      simp only [runSched]
      refine ⟨h1, h2, ?_⟩
      rw [h3, (applyDrain_dstep d o).hashed, Array.append_assoc]
    | blocks strat =>
      simp only [DocOk] at hdoc
      obtain ⟨hnd, hrest⟩ := hdoc
      obtain ⟨d1, s1, fin, hd, hinv⟩ := h.blocks hnd strat
      rw [hd] at hrest
      obtain ⟨h1, h2, h3⟩ := ih _ _ hinv hrest
      simp only [runSched, hd]
      refine ⟨h1, h2, ?_⟩
      rw [h3]
      have := (Decoder.decodeBlocks_dstep d s strat).hashed
      rw [hd] at this
      simp only [Array.append_empty] at this
      rw [this]

/-- at any point of a frame the Spec accepts, delivered ++ buffered is a prefix of the frame's content -/
theorem FrameInv.prefix {out' : Array Nat} {sEnd : Src} {cons : Nat} {cks : Option Nat} {d : Decoder σ} {s : Src}
    (h : FrameInv out' sEnd cons cks d s) : ∃ st tail, d.state = some st ∧ out' = st.buf.hashed ++ st.buf.content ++ tail := by
  obtain ⟨st, hst, hcase⟩ := h
  rcases hcase with ⟨hnf, hcs, hb, e, out, fuelS, consumed, n, hf, hsp, hn, hc1, hc2⟩ | ⟨hfin, hstr, -⟩
  · rcases decodeBlocksLoop_follows .all st.buf.content.size st.blockCounter fuelS (s.length + 1) s hb e st out out'
        consumed (consumed + n) (by omega) hf hsp with
      ⟨st2, m, e2, out2, fS2, hm, hrun, hf2, hs2, hfs2, hpos, hstop⟩ | ⟨st', m, hcm, hm, hrun, hstr', hfs'⟩
    · simp [stratStop] at hstop
    · have hls := decodeBlocksLoop_step .all st.buf.content.size st.blockCounter (s.length + 1) st s
      rw [hrun] at hls
      obtain ⟨y, hy⟩ := hls.appends
      have hbuf : (finishFrame st' (s.drop m)).1.buf = st'.buf := by
        simp only [finishFrame]
        split
        · split <;> rfl
        · rfl
      rw [hbuf] at hy
      exact ⟨st, y, hst, by rw [← hstr', hy.content, hy.hashed, Array.append_assoc]⟩
  · exact ⟨st, #[], hst, by rw [hstr]; simp⟩



/-- after `reset` on a frame the Spec accepts, the decoder satisfies the frame invariant -/
theorem frameInv_of_decodeFrame (d : Decoder σ) (sdicts : List Spec.Dict) (hdc : DictsCoupled d.dicts sdicts)
    (f : List Nat) (hb : ∀ x ∈ f, x < 256) (r : Spec.FrameResult)
    (hs : Spec.decodeFrame f sdicts = some r) (hlim : r.header.window ≤ d.maxWindow) :
    ∃ d0 rest, d.reset f = (d0, .ok rest) ∧ d0.hashed = #[] ∧
      FrameInv r.content.toArray (f.drop r.consumed) r.consumed r.checksum d0 rest := by
  obtain ⟨st0, e0, hdrLen, consumed, out, hres, h5, hhl, hf0, hc0, hbr0, hco0, hto0, hha0, hent, hblocks, hrc, hrk⟩ :=
    decodeFrame_setup d sdicts hdc f hb r hs hlim
  obtain ⟨-, -, -, -, -, -, -, -, -, -, -, -, hrle⟩ := decodeFrame_refines d sdicts hdc f hb r hs hlim
  have hge := specDecodeBlocks_consumed_ge _ _ _ _ _ _ _ _ _ hblocks
  have hout : r.content.toArray = out := by rw [hrc]
  refine ⟨_, _, hres, by simp [Decoder.hashed, hha0], st0, rfl, Or.inl ⟨hf0, hc0,
    fun x hx => hb x (List.mem_of_mem_drop hx), e0, #[], f.length + 1, hdrLen, consumed - hdrLen,
    ⟨hent, by rw [hha0, hco0]; rfl, by rw [hto0]; exact Nat.zero_le _, Or.inl hha0⟩, ?_, ?_, ?_, ?_⟩⟩
  · rw [hout, show hdrLen + (consumed - hdrLen) = consumed by omega, ← hco0]; exact hblocks
  · rw [List.length_drop]
    rcases hrk with ⟨-, -, hrcons, -⟩ | ⟨-, hrcons, -⟩ <;> omega
  · intro hflag
    rcases hrk with ⟨-, hl4, hrcons, hrck⟩ | ⟨hcks, -, -⟩
    · refine ⟨(f.drop consumed).take 4, ?_, hrck, by rw [hbr0, hrcons]; omega⟩
      rw [List.drop_drop, show hdrLen + (consumed - hdrLen) = consumed by omega, readExact_eq_some]
      exact ⟨hl4, rfl, by rw [List.drop_drop, hrcons]⟩
    · rw [hflag] at hcks; cases hcks
  · intro hflag
    rcases hrk with ⟨hcks, -, -, -⟩ | ⟨-, hrcons, hrck⟩
    · rw [hflag] at hcks; cases hcks
    · refine ⟨by rw [List.drop_drop, show hdrLen + (consumed - hdrLen) = consumed by omega, hrcons], hrck, by rw [hbr0, hrcons]; omega⟩

/-- `driver_prefix` / `driver_complete` for EVERY frame the Spec accepts and EVERY documented program of
drain calls (collect | read n | collect_to_writer with any sink and ring split) and `decode_blocks`
calls (any strategies), after `reset`:
no call fails; the bytes handed out, in order, are a prefix of the frame's content (never lost,
duplicated or reordered) and are exactly what the hasher has seen; delivered ++ still buffered is a
prefix of the content; and once the last block is in: delivered ++ buffered IS the content, the
decoder `is_finished()`, the source left is the input minus exactly the frame, `bytes_read_from_source`
is the frame's length and the stored checksum is the frame's. -/
theorem valid_frame_any_schedule (d : Decoder σ) (sdicts : List Spec.Dict) (hdc : DictsCoupled d.dicts sdicts)
    (f : List Nat) (hb : ∀ x ∈ f, x < 256) (r : Spec.FrameResult)
    (hs : Spec.decodeFrame f sdicts = some r) (hlim : r.header.window ≤ d.maxWindow)
    (ops : List SOp) :
    ∃ d0 rest, d.reset f = (d0, .ok rest) ∧ (DocOk d0 rest ops →
      (runSched d0 rest ops).2.2.2 = none ∧
      ∃ st tail, (runSched d0 rest ops).1.state = some st ∧
        st.buf.hashed = (runSched d0 rest ops).2.2.1 ∧
        r.content = (st.buf.hashed ++ st.buf.content ++ tail).toList ∧
        (st.finished = true → tail = #[] ∧ (runSched d0 rest ops).1.isFinished = true ∧
          (runSched d0 rest ops).2.1 = f.drop r.consumed ∧ st.bytesRead = r.consumed ∧ st.checksum = r.checksum)) := by
  obtain ⟨d0, rest, hres, hh0, hinv⟩ := frameInv_of_decodeFrame d sdicts hdc f hb r hs hlim
  refine ⟨d0, rest, hres, fun hdoc => ?_⟩
  obtain ⟨h1, h2, h3⟩ := runSched_frameInv d0 rest ops hinv hdoc
  refine ⟨h1, ?_⟩
  obtain ⟨st, tail, hst, hpre⟩ := h2.prefix
  have hhash : st.buf.hashed = (runSched d0 rest ops).2.2.1 := by
    have := h3
    rw [hh0] at this
    simp only [Decoder.hashed, hst, Array.empty_append] at this
    exact this
  refine ⟨st, tail, hst, hhash, ?_, ?_⟩
  · rw [← hpre]
  · intro hfin
    obtain ⟨st', hst', hcase⟩ := h2
    rw [hst] at hst'; cases hst'
    rcases hcase with ⟨hnf, -⟩ | ⟨-, hstr, hs', hbr, hck, hif⟩
    · rw [hfin] at hnf; cases hnf
    · refine ⟨?_, hif, hs', hbr, hck⟩
      have := hpre
      rw [← hstr] at this
      have hsz := congrArg Array.size this
      simp only [Array.size_append] at hsz
      exact Array.eq_empty_of_size_eq_zero (by omega)


/-- the Spec only accepts a frame whose stored checksum is the checksum of its content -/
theorem decodeFrame_checksum (f : List Nat) (dicts : List Spec.Dict) (r : Spec.FrameResult)
    (hs : Spec.decodeFrame f dicts = some r) :
    r.checksum = none ∨ r.checksum = some (Spec.Xxh64.checksum32 r.content) := by
  simp only [Spec.decodeFrame] at hs
  split at hs
  · cases hs
  · rename_i h hh
    split at hs
    · cases hs
    · split at hs
      · cases hs
      · rename_i out consumed hblocks
        have hs' : ∀ (x : Option Spec.FrameResult), x = some r →
            (x = (if h.desc.checksum = true then
                if ((f.drop consumed).take 4).length < 4 then none
                else if leNat ((f.drop consumed).take 4) ≠ Spec.Xxh64.checksum32 out.toList then none
                else some (⟨out.toList, consumed + 4, h, some (leNat ((f.drop consumed).take 4))⟩ : Spec.FrameResult)
              else some ⟨out.toList, consumed, h, none⟩)) →
            r.checksum = none ∨ r.checksum = some (Spec.Xxh64.checksum32 r.content) := by
          intro x hx hdef
          rw [hx] at hdef
          by_cases hcks : h.desc.checksum = true
          · rw [if_pos hcks] at hdef
            by_cases hl4 : ((f.drop consumed).take 4).length < 4
            · rw [if_pos hl4] at hdef; cases hdef
            · rw [if_neg hl4] at hdef
              by_cases hne : leNat ((f.drop consumed).take 4) ≠ Spec.Xxh64.checksum32 out.toList
              · rw [if_pos hne] at hdef; cases hdef
              · rw [if_neg hne] at hdef
                simp only [Option.some.injEq] at hdef
                rw [hdef]
                right
                simp only [ne_eq, Decidable.not_not] at hne
                simp only [hne]
          · rw [if_neg hcks] at hdef
            simp only [Option.some.injEq] at hdef
            rw [hdef]; exact Or.inl rfl
        cases hcsz : h.contentSize with
        | none => exact hs' _ hs (by simp [hcsz])
        | some n =>
          simp only [hcsz] at hs
          by_cases hn : n ≠ out.size
          · simp [hn] at hs
          · exact hs' _ hs (by simp [hn])


end Zstd.Model
