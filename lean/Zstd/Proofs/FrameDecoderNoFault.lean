import Zstd.Proofs.FrameDecoderSched
/-
Helper lemmas for C03 at the frame level: the only `Fault` the frame-level model can produce comes
from `do_offset_history` with offset value 0 (plus the two `panic!("Bug in library")` arms of
`decode_from_to`); none of them is reachable.
-/
namespace Zstd.Model
open Zstd

theorem doOffsetHistory_ok (ov ll : Nat) (h : Nat × Nat × Nat) (hov : ov ≥ 1) :
    ∃ r, doOffsetHistory ov ll h = .ok r := by
  unfold doOffsetHistory
  obtain ⟨a, b, c⟩ := h
  have : ov ≠ 0 := by omega
  simp [this]

theorem executeSequences_noFault (seqs : List Spec.Seq) (hov : ∀ s ∈ seqs, s.ov ≥ 1)
    (lits : List Nat) (h : Nat × Nat × Nat) (q : Nat) (b : DBuf) (f : Fault) :
    (executeSequences seqs lits h q b).2 ≠ .fault f := by
  fun_induction executeSequences seqs lits h q b with
  | case1 => simp
  | case2 => simp
  | case3 => simp
  | case4 => simp
  | case5 => simp
  | case6 s rest lits h q b hle hll b1 f' hf =>
    obtain ⟨r, hr⟩ := doOffsetHistory_ok s.ov s.ll h (hov s List.mem_cons_self)
    rw [hr] at hf; cases hf
  | case7 => simp
  | case8 => simp
  | case9 s rest lits h q b hle hll b1 actual h' hf ha r b2 hr ih =>
    exact ih (fun s' hs' => hov s' (List.mem_cons_of_mem _ hs'))

theorem decodeSeqLoop_ov (llT ofT mlT : Spec.Fse.Table) (n sLL sOF sML : Nat) (bits : List Bool)
    (acc seqs : List Spec.Seq) (rest : List Bool) (hacc : ∀ s ∈ acc, s.ov ≥ 1)
    (h : Spec.decodeSeqLoop llT ofT mlT n sLL sOF sML bits acc = some (seqs, rest)) : ∀ s ∈ seqs, s.ov ≥ 1 := by
  induction n generalizing sLL sOF sML bits acc with
  | zero =>
    simp only [Spec.decodeSeqLoop, Option.some.injEq, Prod.mk.injEq] at h
    intro s hs; rw [← h.1] at hs; exact hacc s (List.mem_reverse.mp hs)
  | succ n ih =>
    have hpos : ∀ c e, Spec.offsetValue c e ≥ 1 := by
      intro c e; unfold Spec.offsetValue; have := Nat.two_pow_pos c; omega
    have cons_ok : ∀ (x : Spec.Seq), x.ov ≥ 1 → ∀ s ∈ x :: acc, s.ov ≥ 1 := by
      intro x hx s hs
      rcases List.mem_cons.mp hs with rfl | hs
      · exact hx
      · exact hacc s hs
    simp only [Spec.decodeSeqLoop] at h
    repeat' split at h
    all_goals first
      | (cases h; done)
      | (simp only [Option.some.injEq, Prod.mk.injEq] at h
         intro s hs; rw [← h.1] at hs
         exact cons_ok _ (hpos _ _) s (List.mem_reverse.mp hs))
      | exact ih _ _ _ _ _ (cons_ok _ (hpos _ _)) h

theorem decodeSequences_ov (raw : List Nat) (e e' : Spec.Entropy) (seqs : List Spec.Seq)
    (h : Spec.decodeSequences raw e = some (seqs, e')) : ∀ s ∈ seqs, s.ov ≥ 1 := by
  simp only [Spec.decodeSequences] at h
  repeat' split at h
  all_goals first
    | (cases h; done)
    | (simp only [Option.some.injEq, Prod.mk.injEq] at h
       intro s hs; rw [← h.1] at hs; simp at hs)
    | (simp only [Option.some.injEq, Prod.mk.injEq] at h
       rw [← h.1]
       exact decodeSeqLoop_ov _ _ _ _ _ _ _ _ [] _ _ (by simp) ‹_›)


theorem decompressBlock_noFault (content : List Nat) (e : Spec.Entropy) (b : DBuf) (f : Fault) :
    (decompressBlock content e b).2 ≠ .fault f := by
  unfold decompressBlock
  cases hlit : decodeLiteralsM content e.huf with
  | error er => simp
  | ok r =>
    obtain ⟨lits, used, huf, hdr⟩ := r
    simp only
    cases hcnt : Spec.parseSeqCount (content.drop used) with
    | none => simp
    | some r =>
      obtain ⟨n, u⟩ := r
      simp only
      by_cases hn : n = 0
      · simp only [hn, if_true]
        split <;> split <;> simp
      · simp only [hn, if_false]
        cases hseq : decodeSequencesM (content.drop used) { e with huf := huf } with
        | error er => simp
        | ok r =>
          obtain ⟨seqs, e'⟩ := r
          simp only
          have hov : ∀ s ∈ seqs, s.ov ≥ 1 := by
            simp only [decodeSequencesM] at hseq
            split at hseq
            · cases hseq
            · rename_i r hr
              cases hseq
              exact decodeSequences_ov _ _ _ _ hr
          exact executeSequences_noFault seqs hov lits _ 0 b f

theorem blockBody_noFault (st : FState) (bh : BHeader) (body : List Nat) (f : Fault) :
    (blockBody st bh body).2 ≠ .fault f := by
  simp only [blockBody]
  split
  · simp
  · split
    · simp
    · split
      · simp
      · simp
      · rename_i heq
        have := decompressBlock_noFault body st.entropy st.buf
        rw [heq] at this
        exact absurd rfl (this _)

theorem decodeOneBlock_noFault (st : FState) (s : Src) (f : Fault) : (decodeOneBlock st s).2 ≠ .fault f := by
  rw [decodeOneBlock_eq]
  split
  · simp
  · split
    · simp
    · split
      · simp
      · simp only
        have := blockBody_noFault st ‹BHeader› ((s.drop 3).take (‹BHeader›).contentSize)
        cases hb : (blockBody st ‹BHeader› ((s.drop 3).take (‹BHeader›).contentSize)).2 with
        | ok u => simp [Out.mapOk]
        | err e => simp [Out.mapOk]
        | fault f' => exact absurd hb (this f')

theorem decodeBlocksLoop_noFault (strat : Strategy) (a c fuel : Nat) (st : FState) (s : Src) (f : Fault) :
    (decodeBlocksLoop strat a c fuel st s).2 ≠ .fault f := by
  induction fuel generalizing st s with
  | zero => simp [decodeBlocksLoop]
  | succ fuel ih =>
    rw [decodeBlocksLoop_succ]
    split
    · simp
    · rename_i heq
      have := decodeOneBlock_noFault st s
      rw [heq] at this
      exact absurd rfl (this _)
    · split
      · split
        · split <;> simp
        · simp
      · split
        · simp
        · exact ih _ _

theorem Decoder.decodeBlocks_noFault (d : Decoder) (s : Src) (strat : Strategy) (f : Fault) :
    (d.decodeBlocks s strat).2 ≠ .fault f := by
  cases hst : d.state with
  | none => simp [Decoder.decodeBlocks, hst]
  | some st =>
    rw [Decoder.decodeBlocks_some d st s strat hst]
    have := decodeBlocksLoop_noFault strat st.buf.content.size st.blockCounter (s.length + 1) st s
    cases ho : (decodeBlocksLoop strat st.buf.content.size st.blockCounter (s.length + 1) st s).2 with
    | ok r => simp
    | err e => simp
    | fault f' => exact absurd ho (this f')

theorem decodeFromToLoop_noFault (fuel : Nat) (st : FState) (s : Src) (f : Fault) :
    (decodeFromToLoop fuel st s).2 ≠ .fault f := by
  induction fuel generalizing st s with
  | zero => simp [decodeFromToLoop]
  | succ fuel ih =>
    rw [decodeFromToLoop_succ]
    split
    · simp
    · split
      · simp
      · split
        · simp
        · split
          · simp
          · rename_i heq
            have := decodeOneBlock_noFault st s
            rw [heq] at this
            exact absurd rfl (this _)
          · split
            · split <;> simp
            · exact ih _ _

theorem fromToCore_noFault (d1 : Decoder) (st : FState) (s1 : Src) (startRead n : Nat) (f : Fault) :
    (fromToCore d1 st s1 startRead n).2 ≠ .fault f := by
  simp only [fromToCore]
  split
  · split <;> simp
  · split
    · simp
    · simp
    · rename_i heq
      have := decodeFromToLoop_noFault (s1.length + 1) st s1
      rw [heq] at this
      exact absurd rfl (this _)

/-- `decode_from_to` never panics: neither through a block nor through its two `panic!("Bug in
library")` arms (the state is always `Some` where they are tested) -/
theorem Decoder.decodeFromTo_noFault (d : Decoder) (s : Src) (n : Nat) (f : Fault) :
    (d.decodeFromTo s n).2 ≠ .fault f := by
  cases hst : d.state with
  | some st =>
    rw [Decoder.decodeFromTo_some d st s n hst]
    split
    · simp
    · exact fromToCore_noFault _ _ _ _ _ _
  | none =>
    rw [Decoder.decodeFromTo_none d s n hst]
    cases hr : resetCore d.dicts d.maxWindow s with
    | keep e => simp
    | replace st o =>
      have := (resetCore_replace _ _ _ _ _ hr).2.2.2.2.2.2.2.2.2
      cases o with
      | err e => simp
      | fault f' => exact absurd rfl (this f')
      | ok s1 => exact fromToCore_noFault _ _ _ _ _ _

theorem Decoder.reset_noFault (d : Decoder) (s : Src) (f : Fault) : (d.reset s).2 ≠ .fault f := by
  rcases Decoder.reset_cases d s with ⟨e, he⟩ | ⟨st, o, he, hr⟩
  · rw [he]; simp
  · rw [he]; exact (resetCore_replace _ _ _ _ _ hr).2.2.2.2.2.2.2.2.2 f

theorem streamingFill_noFault (fuel : Nat) (d : Decoder) (s : Src) (n : Nat) (f : Fault) :
    (streamingFill fuel d s n).2 ≠ .fault f := by
  induction fuel generalizing d s with
  | zero => simp [streamingFill]
  | succ fuel ih =>
    rw [streamingFill]
    split
    · split
      · simp
      · rename_i heq
        have := Decoder.decodeBlocks_noFault d s (.uptoBytes (n - d.canCollect))
        rw [heq] at this
        exact absurd rfl (this _)
      · exact ih _ _
    · simp

theorem streamingRead_noFault (d : Decoder) (s : Src) (n : Nat) (f : Fault) :
    (streamingRead d s n).2 ≠ .fault f := by
  simp only [streamingRead]
  split
  · simp
  · split
    · simp
    · rename_i heq
      have := streamingFill_noFault (s.length + 2) d s n
      rw [heq] at this
      exact absurd rfl (this _)
    · simp

theorem decodeAllFrame_noFault (fuel : Nat) (d : Decoder) (s : Src) (room : Nat) (out : Array Nat) (f : Fault) :
    (decodeAllFrame fuel d s room out).2 ≠ .fault f := by
  induction fuel generalizing d s room out with
  | zero => simp [decodeAllFrame]
  | succ fuel ih =>
    rw [decodeAllFrame]
    split
    · simp
    · rename_i heq
      have := Decoder.decodeBlocks_noFault d s (.uptoBytes (1024 * 1024))
      rw [heq] at this
      exact absurd rfl (this _)
    · simp only
      split
      · simp
      · split
        · simp
        · exact ih _ _ _ _

theorem decodeAllLoop_noFault (fuel : Nat) (d : Decoder) (s : Src) (room : Nat) (out : Array Nat) (f : Fault) :
    (decodeAllLoop fuel d s room out).2 ≠ .fault f := by
  induction fuel generalizing d s room out with
  | zero => simp [decodeAllLoop]
  | succ fuel ih =>
    by_cases hne : s = []
    · subst hne; simp [decodeAllLoop]
    · rw [decodeAllLoop_succ _ _ _ _ _ hne]
      split
      · split
        · simp
        · exact ih _ _ _ _
      · simp
      · rename_i heq
        have := Decoder.reset_noFault d s
        rw [heq] at this
        exact absurd rfl (this _)
      · split
        · simp
        · rename_i heq
          rename_i _ d1 s1 _ _ d2 f'
          have h2 := decodeAllFrame_noFault (s1.length + 2) d1 s1 room out f'
          rw [heq] at h2
          exact absurd rfl h2
        · exact ih _ _ _ _


end Zstd.Model
