import Zstd.Proofs.FrameDecoderSched
/-
Helper lemmas for C03 at the frame level: the only `Fault` the frame-level model can produce comes
from `do_offset_history` with offset value 0 (plus the two `panic!("Bug in library")` arms of
`decode_from_to`); none of them is reachable.
-/
set_option linter.unusedSectionVars false
namespace Zstd.Model
open Zstd

theorem doOffsetHistory_ok (ov ll : Nat) (h : Nat × Nat × Nat) (hov : ov ≥ 1) :
    ∃ r, doOffsetHistory ov ll h = .ok r := by
  unfold doOffsetHistory
  obtain ⟨a, b, c⟩ := h
  have : ov ≠ 0 := by omega
  simp [this]

theorem executeSequences_noFault (seqs : List Spec.Seq) (hov : ∀ s ∈ seqs, s.ov ≥ 1)
    (lits : List Nat) (h : Nat × Nat × Nat) (q : Nat) (b : DBuf) (f : Fault) :
    (executeSequences seqs lits h q b).2 ≠ .fault f := by
  fun_induction executeSequences seqs lits h q b with
  | case1 => simp
  | case2 => simp
  | case3 => simp
  | case4 => simp
  | case5 => simp
  | case6 s rest lits h q b hle hll b1 f' hf =>
    obtain ⟨r, hr⟩ := doOffsetHistory_ok s.ov s.ll h (hov s List.mem_cons_self)
    rw [hr] at hf; cases hf
  | case7 => simp
  | case8 => simp
  | case9 s rest lits h q b hle hll b1 actual h' hf ha r b2 hr ih =>
    exact ih (fun s' hs' => hov s' (List.mem_cons_of_mem _ hs'))

theorem decodeSeqLoop_ov (llT ofT mlT : Spec.Fse.Table) (n sLL sOF sML : Nat) (bits : List Bool)
    (acc seqs : List Spec.Seq) (rest : List Bool) (hacc : ∀ s ∈ acc, s.ov ≥ 1)
    (h : Spec.decodeSeqLoop llT ofT mlT n sLL sOF sML bits acc = some (seqs, rest)) : ∀ s ∈ seqs, s.ov ≥ 1 := by
  induction n generalizing sLL sOF sML bits acc with
  | zero =>
    simp only [Spec.decodeSeqLoop, Option.some.injEq, Prod.mk.injEq] at h
    intro s hs; rw [← h.1] at hs; exact hacc s (List.mem_reverse.mp hs)
  | succ n ih =>
    have hpos : ∀ c e, Spec.offsetValue c e ≥ 1 := by
      intro c e; unfold Spec.offsetValue; have := Nat.two_pow_pos c; omega
    have cons_ok : ∀ (x : Spec.Seq), x.ov ≥ 1 → ∀ s ∈ x :: acc, s.ov ≥ 1 := by
      intro x hx s hs
      rcases List.mem_cons.mp hs with rfl | hs
      · exact hx
      · exact hacc s hs
    simp only [Spec.decodeSeqLoop] at h
    repeat' split at h
    all_goals first
      | (cases h; done)
      | (simp only [Option.some.injEq, Prod.mk.injEq] at h
         intro s hs; rw [← h.1] at hs
         exact cons_ok _ (hpos _ _) s (List.mem_reverse.mp hs))
      | exact ih _ _ _ _ _ (cons_ok _ (hpos _ _)) h

theorem decodeSequences_ov (raw : List Nat) (e e' : Spec.Entropy) (seqs : List Spec.Seq)
    (h : Spec.decodeSequences raw e = some (seqs, e')) : ∀ s ∈ seqs, s.ov ≥ 1 := by
  simp only [Spec.decodeSequences] at h
  repeat' split at h
  all_goals first
    | (cases h; done)
    | (simp only [Option.some.injEq, Prod.mk.injEq] at h
       intro s hs; rw [← h.1] at hs; simp at hs)
    | (simp only [Option.some.injEq, Prod.mk.injEq] at h
       rw [← h.1]
       exact decodeSeqLoop_ov _ _ _ _ _ _ _ _ [] _ _ (by simp) ‹_›)


theorem decompressBlock_noFault (content : List Nat) (e : Spec.Entropy) (b : DBuf) (f : Fault) :
    (decompressBlock content e b).2 ≠ .fault f := by
  unfold decompressBlock
  cases hlit : decodeLiteralsM content e.huf with
  | error er => simp
  | ok r =>
    obtain ⟨lits, used, huf, hdr⟩ := r
    simp only
    cases hcnt : Spec.parseSeqCount (content.drop used) with
    | none => simp
    | some r =>
      obtain ⟨n, u⟩ := r
      simp only
      by_cases hn : n = 0
      · simp only [hn, if_true]
        split <;> split <;> simp
      · simp only [hn, if_false]
        cases hseq : decodeSequencesM (content.drop used) { e with huf := huf } with
        | error er => simp
        | ok r =>
          obtain ⟨seqs, e'⟩ := r
          simp only
          have hov : ∀ s ∈ seqs, s.ov ≥ 1 := by
            simp only [decodeSequencesM] at hseq
            split at hseq
            · cases hseq
            · rename_i r hr
              cases hseq
              exact decodeSequences_ov _ _ _ _ hr
          exact executeSequences_noFault seqs hov lits _ 0 b f


/-! ### the frame level, for every block decoder with a `NoFaultContract` -/

section generic
variable {σ : Type} [BlockDec σ] [BlockContract σ] [NoFaultContract σ]

/-- the frame state's entropy part is well formed -/
def FState.entWF (st : FState σ) : Prop := NoFaultContract.wf st.entropy

/-- every registered dictionary carries a well-formed entropy state (no operation changes them) -/
def Decoder.dictsWF (d : Decoder σ) : Prop := ∀ dict ∈ d.dicts, NoFaultContract.wf dict.entropy

/-- decoder invariant for C03: the current frame state and every registered dictionary carry a
well-formed entropy state.  Established by `new` / a successful `reset`, kept by every operation
that does not end in `err literals` / `err sequences` (`Out.clean`); `dictsWF` — which is all
`reset` needs — is kept by everything. -/
def Decoder.entWF (d : Decoder σ) : Prop :=
  (∀ st, d.state = some st → st.entWF) ∧ d.dictsWF

theorem Decoder.entWF.setState {d : Decoder σ} (h : d.dictsWF) (st : FState σ) (hst : st.entWF) :
    ({ d with state := some st } : Decoder σ).entWF :=
  ⟨fun st' h' => by simp only [Option.some.injEq] at h'; rw [← h']; exact hst, h⟩

theorem Out.clean_mapOk {α β : Type} (f : α → β) (o : Out α) (h : (o.mapOk f).clean) : o.clean := by
  cases o with
  | ok a => exact Out.clean_ok a
  | err e => exact Out.clean_cast h
  | fault f => exact ⟨by simp, by simp⟩

theorem blockBody_noFault (st : FState σ) (bh : BHeader) (body : List Nat) (hw : st.entWF)
    (hi : NoFaultContract.inp σ body) :
    ((blockBody st bh body).2.clean → (blockBody st bh body).1.entWF) ∧ ∀ f, (blockBody st bh body).2 ≠ .fault f := by
  simp only [blockBody]
  split
  · exact ⟨fun _ => hw, fun f => by simp⟩
  · split
    · exact ⟨fun _ => hw, fun f => by simp⟩
    · have h1 := NoFaultContract.wf_run body st.entropy st.buf hw hi
      have h2 := fun f => NoFaultContract.noFault body st.entropy st.buf f hw hi
      split <;> rename_i heq <;> rw [heq] at h1 h2
      · exact ⟨fun _ => h1 (Out.clean_ok ()), fun f => by simp⟩
      · exact ⟨fun hc => h1 hc, fun f => by simp⟩
      · exact absurd rfl (h2 _)

theorem decodeOneBlock_noFault (st : FState σ) (s : Src) (hw : st.entWF) (hi : NoFaultContract.inp σ s) :
    ((decodeOneBlock st s).2.clean → (decodeOneBlock st s).1.entWF) ∧ ∀ f, (decodeOneBlock st s).2 ≠ .fault f := by
  rw [decodeOneBlock_eq]
  split
  · exact ⟨fun _ => hw, fun f => by simp⟩
  · split
    · exact ⟨fun _ => hw, fun f => by simp⟩
    · split
      · exact ⟨fun _ => hw, fun f => by simp⟩
      · rename_i bh _ _
        have := blockBody_noFault st bh ((s.drop 3).take bh.contentSize) hw
          (NoFaultContract.inp_take _ _ (NoFaultContract.inp_drop _ _ hi))
        refine ⟨fun hc => this.1 (Out.clean_mapOk _ _ hc), fun f => ?_⟩
        cases hb : (blockBody st bh ((s.drop 3).take bh.contentSize)).2 with
        | ok u => simp [Out.mapOk]
        | err e => simp [Out.mapOk]
        | fault f' => exact absurd hb (this.2 f')

theorem decodeBlocksLoop_noFault (strat : Strategy) (a c fuel : Nat) (st : FState σ) (s : Src)
    (hw : st.entWF) (hi : NoFaultContract.inp σ s) :
    ((decodeBlocksLoop strat a c fuel st s).2.clean → (decodeBlocksLoop strat a c fuel st s).1.entWF) ∧
    ∀ f, (decodeBlocksLoop strat a c fuel st s).2 ≠ .fault f := by
  induction fuel generalizing st s with
  | zero => exact ⟨fun _ => hw, fun f => by simp [decodeBlocksLoop]⟩
  | succ fuel ih =>
    rw [decodeBlocksLoop_succ]
    have hb := decodeOneBlock_noFault st s hw hi
    split
    · rename_i heq; rw [heq] at hb; exact ⟨fun hc => hb.1 (Out.clean_cast hc), fun f => by simp⟩
    · rename_i heq; rw [heq] at hb; exact absurd rfl (hb.2 _)
    · rename_i st1 bh s1 heq
      rw [heq] at hb
      have hs1 := (decodeOneBlock_ok _ _ _ _ _ heq).2.1
      have hw1 : st1.entWF := hb.1 (Out.clean_ok _)
      split
      · split
        · split
          · exact ⟨fun _ => hw1, fun f => by simp⟩
          · exact ⟨fun _ => hw1, fun f => by simp⟩
        · exact ⟨fun _ => hw1, fun f => by simp⟩
      · split
        · exact ⟨fun _ => hw1, fun f => by simp⟩
        · exact ih _ _ hw1 (by rw [hs1]; exact NoFaultContract.inp_drop _ _ hi)

theorem Decoder.decodeBlocks_dicts (d : Decoder σ) (s : Src) (strat : Strategy) :
    (d.decodeBlocks s strat).1.dicts = d.dicts := by
  cases hst : d.state with
  | none => simp only [Decoder.decodeBlocks, hst]
  | some st => rw [Decoder.decodeBlocks_some d st s strat hst]

theorem Decoder.decodeBlocks_noFault (d : Decoder σ) (s : Src) (strat : Strategy) (hw : d.entWF)
    (hi : NoFaultContract.inp σ s) :
    ((d.decodeBlocks s strat).2.clean → (d.decodeBlocks s strat).1.entWF) ∧ (d.decodeBlocks s strat).1.dictsWF ∧
    (∀ f, (d.decodeBlocks s strat).2 ≠ .fault f) ∧
    (∀ s' fin, (d.decodeBlocks s strat).2 = .ok (s', fin) → NoFaultContract.inp σ s') := by
  cases hst : d.state with
  | none =>
    simp only [Decoder.decodeBlocks, hst]
    exact ⟨fun _ => hw, hw.2, fun f => by simp, fun s' fin h => by cases h⟩
  | some st =>
    have hl := decodeBlocksLoop_noFault strat st.buf.content.size st.blockCounter (s.length + 1) st s (hw.1 st hst) hi
    refine ⟨?_, ?_, ?_, ?_⟩
    · rw [Decoder.decodeBlocks_some d st s strat hst]
      intro hc
      refine Decoder.entWF.setState hw.2 _ (hl.1 ?_)
      cases ho : (decodeBlocksLoop strat st.buf.content.size st.blockCounter (s.length + 1) st s).2 with
      | ok r => exact Out.clean_ok _
      | err e => rw [ho] at hc; exact Out.clean_cast hc
      | fault f' => exact absurd ho (hl.2 f')
    · rw [Decoder.decodeBlocks_some d st s strat hst]; exact hw.2
    · rw [Decoder.decodeBlocks_some d st s strat hst]
      intro f
      cases ho : (decodeBlocksLoop strat st.buf.content.size st.blockCounter (s.length + 1) st s).2 with
      | ok r => simp
      | err e => simp
      | fault f' => exact absurd ho (hl.2 f')
    · intro s' fin h
      cases hd : d.decodeBlocks s strat with
      | mk d' o =>
        rw [hd] at h
        simp only at h
        subst h
        obtain ⟨-, n, -, hn, -⟩ := Decoder.decodeBlocks_ok_consumes d d' s s' strat fin hd
        rw [hn]; exact NoFaultContract.inp_drop _ _ hi

theorem applyDrain_entWF (d : Decoder σ) (op : DrainOp) (hw : d.entWF) : (applyDrain d op).1.entWF := by
  rcases applyDrain_take d op with ⟨hn, he⟩ | ⟨st, k, hs, hk, he⟩
  · rw [he]; exact hw
  · rw [he]; exact Decoder.entWF.setState hw.2 _ (hw.1 st hs)

theorem applyDrain_dictsWF (d : Decoder σ) (op : DrainOp) (hw : d.dictsWF) : (applyDrain d op).1.dictsWF := by
  rcases applyDrain_take d op with ⟨hn, he⟩ | ⟨st, k, hs, hk, he⟩
  · rw [he]; exact hw
  · rw [he]; exact hw

theorem Decoder.read_entWF (d : Decoder σ) (n : Nat) (hw : d.entWF) : (d.read n).1.entWF :=
  applyDrain_entWF d (.read n) hw

theorem Decoder.read_dictsWF (d : Decoder σ) (n : Nat) (hw : d.dictsWF) : (d.read n).1.dictsWF :=
  applyDrain_dictsWF d (.read n) hw

theorem resetCore_entWF (dicts : List (Dict σ)) (mw : Nat) (s : Src) (st : FState σ) (o : Out Src)
    (hd : ∀ dict ∈ dicts, NoFaultContract.wf dict.entropy) (h : resetCore dicts mw s = .replace st o) : st.entWF := by
  simp only [resetCore] at h
  split at h
  · cases h
  · split at h
    · cases h
    · split at h
      · cases h
      · simp only [applyDictChoice, freshState, FState.withDict] at h
        split at h
        · cases h; exact NoFaultContract.wf_fresh
        · split at h
          · cases h; exact NoFaultContract.wf_fresh
          · rename_i dict hf
            cases h
            exact hd dict (List.mem_of_find?_eq_some hf)

/-- `reset` needs well-formed dictionaries only — the state it starts from may be the debris of a
failed frame — and never faults; when it returns `Ok` (more generally: whenever it replaces the
frame state) the decoder satisfies the full invariant again -/
theorem Decoder.reset_noFault (d : Decoder σ) (s : Src) (hd : d.dictsWF) :
    (d.reset s).1.dictsWF ∧ (∀ f, (d.reset s).2 ≠ .fault f) ∧
    (d.entWF → (d.reset s).1.entWF) ∧ (∀ rest, (d.reset s).2 = .ok rest → (d.reset s).1.entWF) := by
  rcases Decoder.reset_cases d s with ⟨e, he⟩ | ⟨st, o, he, hr⟩
  · rw [he]; exact ⟨hd, fun f => by simp, fun h => h, fun rest h => by cases h⟩
  · rw [he]
    have := Decoder.entWF.setState hd _ (resetCore_entWF _ _ _ _ _ hd hr)
    exact ⟨hd, (resetCore_replace _ _ _ _ _ hr).2.2.2.2.2.2.2.2.2, fun _ => this, fun _ _ => this⟩

theorem decodeFromToLoop_noFault (fuel : Nat) (st : FState σ) (s : Src) (hw : st.entWF) (hi : NoFaultContract.inp σ s) :
    ((decodeFromToLoop fuel st s).2.clean → (decodeFromToLoop fuel st s).1.entWF) ∧
    ∀ f, (decodeFromToLoop fuel st s).2 ≠ .fault f := by
  induction fuel generalizing st s with
  | zero => exact ⟨fun _ => hw, fun f => by simp [decodeFromToLoop]⟩
  | succ fuel ih =>
    rw [decodeFromToLoop_succ]
    split
    · exact ⟨fun _ => hw, fun f => by simp⟩
    · split
      · exact ⟨fun _ => hw, fun f => by simp⟩
      · split
        · exact ⟨fun _ => hw, fun f => by simp⟩
        · have hb := decodeOneBlock_noFault st s hw hi
          split
          · rename_i heq; rw [heq] at hb; exact ⟨fun hc => hb.1 (Out.clean_cast hc), fun f => by simp⟩
          · rename_i heq; rw [heq] at hb; exact absurd rfl (hb.2 _)
          · rename_i st1 bh' s1 heq
            rw [heq] at hb
            have hs1 := (decodeOneBlock_ok _ _ _ _ _ heq).2.1
            have hw1 : st1.entWF := hb.1 (Out.clean_ok _)
            split
            · split
              · exact ⟨fun _ => hw1, fun f => by simp⟩
              · exact ⟨fun _ => hw1, fun f => by simp⟩
            · exact ih _ _ hw1 (by rw [hs1]; exact NoFaultContract.inp_drop _ _ hi)

theorem fromToCore_noFault (d1 : Decoder σ) (st : FState σ) (s1 : Src) (startRead n : Nat)
    (hw : d1.entWF) (hst : st.entWF) (hi : NoFaultContract.inp σ s1) :
    ((fromToCore d1 st s1 startRead n).2.clean → (fromToCore d1 st s1 startRead n).1.entWF) ∧
    (fromToCore d1 st s1 startRead n).1.dictsWF ∧ ∀ f, (fromToCore d1 st s1 startRead n).2 ≠ .fault f := by
  simp only [fromToCore]
  split
  · split
    · exact ⟨fun _ => Decoder.entWF.setState hw.2 _ hst, hw.2, fun f => by simp⟩
    · exact ⟨fun _ => hw, hw.2, fun f => by simp⟩
  · have hl := decodeFromToLoop_noFault (s1.length + 1) st s1 hst hi
    split
    · rename_i heq; rw [heq] at hl
      have h1 := Decoder.entWF.setState (d := d1) hw.2 _ (hl.1 (Out.clean_ok _))
      exact ⟨fun _ => Decoder.read_entWF _ n h1, (Decoder.read_entWF _ n h1).2, fun f => by simp⟩
    · rename_i heq; rw [heq] at hl
      exact ⟨fun hc => Decoder.entWF.setState hw.2 _ (hl.1 (Out.clean_cast hc)), hw.2, fun f => by simp⟩
    · rename_i heq; rw [heq] at hl; exact absurd rfl (hl.2 _)

/-- `decode_from_to` never panics: neither through a block nor through its two `panic!("Bug in
library")` arms (the state is always `Some` where they are tested) -/
theorem Decoder.decodeFromTo_noFault (d : Decoder σ) (s : Src) (n : Nat) (hw : d.entWF) (hi : NoFaultContract.inp σ s) :
    ((d.decodeFromTo s n).2.clean → (d.decodeFromTo s n).1.entWF) ∧ (d.decodeFromTo s n).1.dictsWF ∧
    ∀ f, (d.decodeFromTo s n).2 ≠ .fault f := by
  cases hst : d.state with
  | some st =>
    rw [Decoder.decodeFromTo_some d st s n hst]
    split
    · exact ⟨fun _ => Decoder.read_entWF d n hw, (Decoder.read_entWF d n hw).2, fun f => by simp⟩
    · exact fromToCore_noFault _ _ _ _ _ hw (hw.1 st hst) hi
  | none =>
    rw [Decoder.decodeFromTo_none d s n hst]
    cases hr : resetCore d.dicts d.maxWindow s with
    | keep e => exact ⟨fun _ => hw, hw.2, fun f => by simp⟩
    | replace st o =>
      have hrc := resetCore_replace _ _ _ _ _ hr
      have hstw := resetCore_entWF _ _ _ _ _ hw.2 hr
      cases o with
      | err e => exact ⟨fun _ => Decoder.entWF.setState hw.2 _ hstw, hw.2, fun f => by simp⟩
      | fault f' => exact absurd rfl (hrc.2.2.2.2.2.2.2.2.2 f')
      | ok s1 =>
        have := hrc.2.2.2.2.2.2.2.2.1 s1 rfl
        exact fromToCore_noFault _ _ _ _ _ (Decoder.entWF.setState hw.2 _ hstw) hstw (by rw [this]; exact NoFaultContract.inp_drop _ _ hi)

theorem streamingFill_noFault (fuel : Nat) (d : Decoder σ) (s : Src) (n : Nat) (hw : d.entWF) (hi : NoFaultContract.inp σ s) :
    ((streamingFill fuel d s n).2.clean → (streamingFill fuel d s n).1.entWF) ∧ (streamingFill fuel d s n).1.dictsWF ∧
    ∀ f, (streamingFill fuel d s n).2 ≠ .fault f := by
  induction fuel generalizing d s with
  | zero => exact ⟨fun _ => hw, hw.2, fun f => by simp [streamingFill]⟩
  | succ fuel ih =>
    rw [streamingFill]
    split
    · have hb := Decoder.decodeBlocks_noFault d s (.uptoBytes (n - d.canCollect)) hw hi
      split
      · rename_i heq; rw [heq] at hb; exact ⟨fun hc => hb.1 (Out.clean_cast hc), hb.2.1, fun f => by simp⟩
      · rename_i heq; rw [heq] at hb; exact absurd rfl (hb.2.2.1 _)
      · rename_i d1 s1 fin heq
        rw [heq] at hb
        exact ih _ _ (hb.1 (Out.clean_ok _)) (hb.2.2.2 s1 fin rfl)
    · exact ⟨fun _ => hw, hw.2, fun f => by simp⟩

theorem streamingRead_noFault (d : Decoder σ) (s : Src) (n : Nat) (hw : d.entWF) (hi : NoFaultContract.inp σ s) :
    ((streamingRead d s n).2.clean → (streamingRead d s n).1.entWF) ∧ (streamingRead d s n).1.dictsWF ∧
    ∀ f, (streamingRead d s n).2 ≠ .fault f := by
  simp only [streamingRead]
  split
  · exact ⟨fun _ => hw, hw.2, fun f => by simp⟩
  · have hl := streamingFill_noFault (s.length + 2) d s n hw hi
    split
    · rename_i heq; rw [heq] at hl; exact ⟨fun hc => hl.1 (Out.clean_cast hc), hl.2.1, fun f => by simp⟩
    · rename_i heq; rw [heq] at hl; exact absurd rfl (hl.2.2 _)
    · rename_i heq; rw [heq] at hl
      have h1 := Decoder.read_entWF _ n (hl.1 (Out.clean_ok _))
      exact ⟨fun _ => h1, h1.2, fun f => by simp⟩

theorem decodeAllFrame_noFault (fuel : Nat) (d : Decoder σ) (s : Src) (room : Nat) (out : Array Nat)
    (hw : d.entWF) (hi : NoFaultContract.inp σ s) :
    ((decodeAllFrame fuel d s room out).2.clean → (decodeAllFrame fuel d s room out).1.entWF) ∧
    (decodeAllFrame fuel d s room out).1.dictsWF ∧
    (∀ f, (decodeAllFrame fuel d s room out).2 ≠ .fault f) ∧
    (∀ s' r' o', (decodeAllFrame fuel d s room out).2 = .ok (s', r', o') → NoFaultContract.inp σ s') := by
  induction fuel generalizing d s room out with
  | zero => exact ⟨fun _ => hw, hw.2, fun f => by simp [decodeAllFrame], fun s' r' o' h => by
      simp only [decodeAllFrame, Out.ok.injEq, Prod.mk.injEq] at h; rw [← h.1]; exact hi⟩
  | succ fuel ih =>
    rw [decodeAllFrame]
    have hb := Decoder.decodeBlocks_noFault d s (.uptoBytes (1024 * 1024)) hw hi
    split
    · rename_i heq; rw [heq] at hb
      exact ⟨fun hc => hb.1 (Out.clean_cast hc), hb.2.1, fun f => by simp, fun s' r' o' h => by cases h⟩
    · rename_i heq; rw [heq] at hb; exact absurd rfl (hb.2.2.1 _)
    · rename_i d1 s1 fin heq
      rw [heq] at hb
      have hr := Decoder.read_entWF d1 room (hb.1 (Out.clean_ok _))
      have hi1 := hb.2.2.2 s1 fin rfl
      simp only
      split
      · exact ⟨fun _ => hr, hr.2, fun f => by simp, fun s' r' o' h => by cases h⟩
      · split
        · exact ⟨fun _ => hr, hr.2, fun f => by simp, fun s' r' o' h => by
            simp only [Out.ok.injEq, Prod.mk.injEq] at h; rw [← h.1]; exact hi1⟩
        · exact ih _ _ _ _ hr hi1

/-- `decode_all` starts every frame with `reset`: it needs well-formed dictionaries only (so it may be
called on a decoder whose last frame failed in any way) and never faults -/
theorem decodeAllLoop_noFault (fuel : Nat) (d : Decoder σ) (s : Src) (room : Nat) (out : Array Nat)
    (hd : d.dictsWF) (hi : NoFaultContract.inp σ s) :
    (decodeAllLoop fuel d s room out).1.dictsWF ∧ (∀ f, (decodeAllLoop fuel d s room out).2 ≠ .fault f) ∧
    (d.entWF → (decodeAllLoop fuel d s room out).2.clean → (decodeAllLoop fuel d s room out).1.entWF) := by
  induction fuel generalizing d s room out with
  | zero => exact ⟨hd, fun f => by simp [decodeAllLoop], fun hw _ => hw⟩
  | succ fuel ih =>
    by_cases hne : s = []
    · subst hne; exact ⟨by simpa [decodeAllLoop] using hd, fun f => by simp [decodeAllLoop], fun hw _ => by simpa [decodeAllLoop] using hw⟩
    · rw [decodeAllLoop_succ _ _ _ _ _ hne]
      have hrs := Decoder.reset_noFault d s hd
      split
      · rename_i d1 mg len heq; rw [heq] at hrs
        split
        · exact ⟨hrs.1, fun f => by simp, fun hw _ => hrs.2.2.1 hw⟩
        · have := ih d1 ((s.drop 8).drop len) room out hrs.1 (NoFaultContract.inp_drop _ _ (NoFaultContract.inp_drop _ _ hi))
          exact ⟨this.1, this.2.1, fun hw hc => this.2.2 (hrs.2.2.1 hw) hc⟩
      · rename_i heq; rw [heq] at hrs; exact ⟨hrs.1, fun f => by simp, fun hw _ => hrs.2.2.1 hw⟩
      · rename_i heq; rw [heq] at hrs; exact absurd rfl (hrs.2.1 _)
      · rename_i d1 s1 heq
        rw [heq] at hrs
        have hw1 : d1.entWF := hrs.2.2.2 s1 rfl
        have hi1 : NoFaultContract.inp σ s1 := by
          rcases Decoder.reset_cases d s with ⟨e, he⟩ | ⟨st, o, he, hr⟩
          · rw [he] at heq; cases heq
          · rw [he] at heq
            simp only [Prod.mk.injEq] at heq
            obtain ⟨-, rfl⟩ := heq
            rw [(resetCore_replace _ _ _ _ _ hr).2.2.2.2.2.2.2.2.1 s1 rfl]
            exact NoFaultContract.inp_drop _ _ hi
        have hfr := decodeAllFrame_noFault (s1.length + 2) d1 s1 room out hw1 hi1
        split
        · rename_i heq2; rw [heq2] at hfr
          exact ⟨hfr.2.1, fun f => by simp, fun _ hc => hfr.1 (Out.clean_cast hc)⟩
        · rename_i heq2; rw [heq2] at hfr; exact absurd rfl (hfr.2.2.1 _)
        · rename_i d2 s2 room' out' heq2
          rw [heq2] at hfr
          have hw2 : d2.entWF := hfr.1 (Out.clean_ok _)
          have := ih d2 s2 room' out' hfr.2.1 (hfr.2.2.2 s2 room' out' rfl)
          exact ⟨this.1, this.2.1, fun _ hc => this.2.2 hw2 hc⟩

end generic

end Zstd.Model
