import Zstd.Proofs.FrameFaithful
/-
`Dictionary::decode_dict` (model `Blk.decodeDict`, Model/FrameFaithful.lean) against the Spec's §5
dictionary parser `Spec.parseDict`, and on arbitrary bytes:

* `decodeDict_no_fault` / `decodeDict_wf` — on ANY byte string the parser never faults, and a dictionary
  it returns carries a well-formed entropy state (`Blk.WF`), whatever its three repeat offsets are (the
  parser copies them unchecked; `WF` does not mention them and no decoding step needs them to be
  non-zero: `do_offset_history` saturates `rep[0] − 1` and `execute_sequences` rejects a 0 offset);
* `decodeDict_refines` — every dictionary the Spec parses is parsed by the code to a dictionary with
  the same id, content and offsets, whose tables are coupled with the Spec's (`Proofs.Blk.Coupled`);
* `Decoder.addDict` keeps `dictsWF` and `DictsCoupled`, so decoders whose dictionaries were
  registered through `add_dict` of parsed bytes satisfy both without further hypotheses
  (`registerDicts_*`).
-/
set_option linter.unusedSectionVars false
namespace Zstd.Model
open Zstd Zstd.Proofs.DictCopy Zstd.Proofs.Blk
open Zstd.Proofs.BitIO (Bytes)

/-! ### little-endian fields -/

theorem Blk.le32_eq_leNat (l : List Nat) : Blk.le32 l = leNat (l.take 4) := by
  match l with
  | [] => simp [Blk.le32, leNat]
  | [a] => simp [Blk.le32, leNat]
  | [a, b] => simp [Blk.le32, leNat]
  | [a, b, c] => simp [Blk.le32, leNat]; omega
  | a :: b :: c :: d :: _ => simp [Blk.le32, leNat]; omega

theorem dictMagic_bytes {l : List Nat} (hb : Bytes l) (hlen : 4 ≤ l.length)
    (h : leNat (l.take 4) = Spec.dictMagic) : l.take 4 = [0x37, 0xA4, 0x30, 0xEC] := by
  match l, hlen with
  | a :: b :: c :: d :: tl, _ =>
    have ha := hb a (by simp)
    have hb' := hb b (by simp)
    have hc := hb c (by simp)
    have hd := hb d (by simp)
    simp only [List.take_succ_cons, List.take_zero, leNat, Spec.dictMagic] at h ⊢
    have : a = 0x37 ∧ b = 0xA4 ∧ c = 0x30 ∧ d = 0xEC := by omega
    obtain ⟨rfl, rfl, rfl, rfl⟩ := this
    rfl

theorem bytes_drop' {l : List Nat} (hb : Bytes l) (n : Nat) : Bytes (l.drop n) :=
  fun x hx => hb x (List.mem_of_mem_drop hx)

/-! ### no fault, well-formed result — any bytes -/

theorem fseNew_maxSymbol (m : Nat) : (Fse.DTable.new m).maxSymbol = m := rfl

/-- what `decode_dict` does on ANY byte string: no fault; a dictionary it returns is well formed -/
theorem decodeDict_spec {raw : List Nat} (hb : Bytes raw) :
    (∀ f, Blk.decodeDict raw ≠ .error f) ∧ (∀ d, Blk.decodeDict raw = .ok (some d) → Blk.WF d.entropy) := by
  unfold Blk.decodeDict
  split
  · exact ⟨fun _ h => (nomatch h), fun _ h => (nomatch h)⟩
  · split
    · exact ⟨fun _ h => (nomatch h), fun _ h => (nomatch h)⟩
    · simp only []
      have hb0 := bytes_drop' hb 8
      have hnfH := hufBuildDecoder_no_fault Huf.DecTable.empty (raw.drop 8) hb0
      have hokH := fun t' used => hufBuildDecoder_ok (t := Huf.DecTable.empty) hb0 (t' := t') (used := used)
      generalize Huf.buildDecoder Huf.DecTable.empty (raw.drop 8) = rH at hnfH hokH
      obtain ⟨huf, rH⟩ := rH
      cases rH with
      | error e =>
        cases e with
        | fault f => exact absurd rfl (hnfH f)
        | err e => exact ⟨fun _ h => (nomatch h), fun _ h => (nomatch h)⟩
      | ok hufSize =>
        simp only []
        obtain ⟨hufB, -⟩ := hokH huf hufSize rfl
        split
        · exact ⟨fun _ h => (nomatch h), fun _ h => (nomatch h)⟩
        · have hb1 := bytes_drop' hb0 hufSize
          have key : ∀ (src : List Nat) (m maxLog : Nat), Bytes src → maxLog ≤ 9 → m ≤ 255 →
              (∀ f, ((Fse.DTable.new m).buildDecoder src.toArray maxLog).2 ≠ .error (.fault f)) ∧
              (∀ t' n, (Fse.DTable.new m).buildDecoder src.toArray maxLog = (t', .ok n) →
                FseBuilt maxLog t' ∧ t'.maxSymbol = m) := by
            intro src m maxLog hbs hml hm
            have hbs' : Bytes src.toArray.toList := by simpa using hbs
            refine ⟨Zstd.Proofs.Blk.buildDecoder_no_fault _ _ _ hbs' hml (by simpa [fseNew_maxSymbol] using hm), ?_⟩
            intro t' n h
            obtain ⟨h1, h2, -⟩ := Zstd.Proofs.Blk.buildDecoder_ok _ t' _ _ n hbs' hml (by simpa [fseNew_maxSymbol] using hm) h
            exact ⟨h1, by rw [h2]; rfl⟩
          obtain ⟨hnfO, hokO⟩ := key ((raw.drop 8).drop hufSize) Gen.maxOffsetCode Gen.ofMaxLog hb1 (by decide) (by decide)
          generalize (Fse.DTable.new Gen.maxOffsetCode).buildDecoder ((raw.drop 8).drop hufSize).toArray Gen.ofMaxLog = rO at hnfO hokO
          obtain ⟨ofT, rO⟩ := rO
          cases rO with
          | error e =>
            cases e with
            | fault f => exact absurd rfl (hnfO f)
            | _ => exact ⟨fun _ h => (nomatch h), fun _ h => (nomatch h)⟩
          | ok ofSize =>
            simp only []
            obtain ⟨ofB, ofM⟩ := hokO ofT ofSize rfl
            split
            · exact ⟨fun _ h => (nomatch h), fun _ h => (nomatch h)⟩
            · have hb2 := bytes_drop' hb1 ofSize
              obtain ⟨hnfM, hokM⟩ := key (((raw.drop 8).drop hufSize).drop ofSize) Gen.maxMatchLengthCode Gen.mlMaxLog hb2 (by decide) (by decide)
              generalize (Fse.DTable.new Gen.maxMatchLengthCode).buildDecoder (((raw.drop 8).drop hufSize).drop ofSize).toArray Gen.mlMaxLog = rM at hnfM hokM
              obtain ⟨mlT, rM⟩ := rM
              cases rM with
              | error e =>
                cases e with
                | fault f => exact absurd rfl (hnfM f)
                | _ => exact ⟨fun _ h => (nomatch h), fun _ h => (nomatch h)⟩
              | ok mlSize =>
                simp only []
                obtain ⟨mlB, mlM⟩ := hokM mlT mlSize rfl
                split
                · exact ⟨fun _ h => (nomatch h), fun _ h => (nomatch h)⟩
                · have hb3 := bytes_drop' hb2 mlSize
                  obtain ⟨hnfL, hokL⟩ := key ((((raw.drop 8).drop hufSize).drop ofSize).drop mlSize) Gen.maxLiteralLengthCode Gen.llMaxLog hb3 (by decide) (by decide)
                  generalize (Fse.DTable.new Gen.maxLiteralLengthCode).buildDecoder ((((raw.drop 8).drop hufSize).drop ofSize).drop mlSize).toArray Gen.llMaxLog = rL at hnfL hokL
                  obtain ⟨llT, rL⟩ := rL
                  cases rL with
                  | error e =>
                    cases e with
                    | fault f => exact absurd rfl (hnfL f)
                    | _ => exact ⟨fun _ h => (nomatch h), fun _ h => (nomatch h)⟩
                  | ok llSize =>
                    simp only []
                    obtain ⟨llB, llM⟩ := hokL llT llSize rfl
                    split
                    · exact ⟨fun _ h => (nomatch h), fun _ h => (nomatch h)⟩
                    · split
                      · exact ⟨fun _ h => (nomatch h), fun _ h => (nomatch h)⟩
                      · refine ⟨fun _ h => (nomatch h), fun d h => ?_⟩
                        simp only [Except.ok.injEq, Option.some.injEq] at h
                        subst h
                        exact ⟨Or.inr hufB,
                          ⟨⟨Or.inr llB, llM, fun _ hb => (nomatch hb)⟩, ⟨Or.inr ofB, ofM, fun _ hb => (nomatch hb)⟩,
                           ⟨Or.inr mlB, mlM, fun _ hb => (nomatch hb)⟩⟩⟩

/-- **`Dictionary::decode_dict` never panics**, on any byte string -/
theorem decodeDict_no_fault {raw : List Nat} (hb : Bytes raw) (f : Fault) : Blk.decodeDict raw ≠ .error f :=
  (decodeDict_spec hb).1 f

/-- every dictionary `decode_dict` returns — from ANY bytes, with ANY three repeat offsets, zero
included — carries a well-formed entropy state -/
theorem decodeDict_wf {raw : List Nat} (hb : Bytes raw) {d : Dict Blk.Scratch}
    (h : Blk.decodeDict raw = .ok (some d)) : Blk.WF d.entropy :=
  (decodeDict_spec hb).2 d h

/-! ### the Spec's dictionaries are the code's -/

/-- one FSE table of the dictionary: what the Spec reads and builds, `build_decoder` on a fresh table
reads and builds, and the channel is coupled -/
theorem dictTable_refines {src : List Nat} (hbs : Bytes src) {maxLog maxCode : Nat} (hml : maxLog ≤ 9)
    (hmc : maxCode ≤ 255) {al : Nat} {probs : List Int} {used : Nat} {T : Spec.Fse.Table}
    (hs : Spec.Fse.readDescription src maxLog maxCode = some (al, probs, used))
    (hT : Spec.Fse.buildTable al probs = some T) :
    ∃ t', (Fse.DTable.new maxCode).buildDecoder src.toArray maxLog = (t', .ok used) ∧ used ≤ src.length ∧
      ChanCoupledOpt maxLog maxCode (some T) t' none := by
  obtain ⟨t', h1, hB, hM, hS, hU⟩ := buildDecoder_spec (Fse.DTable.new maxCode) hbs hml hmc rfl hs
  refine ⟨t', h1, hU, ⟨Or.inr hB, hM, fun _ h => (nomatch h)⟩, ?_⟩
  intro T' hT'
  simp only [Option.some.injEq] at hT'
  subst hT'
  rw [hT] at hS
  simp only [Option.some.injEq] at hS
  exact ⟨hB, hM, hS⟩

/-- **every dictionary the Spec parses, `Dictionary::decode_dict` parses**: same id, same content, the
same three repeat offsets, Huffman and FSE tables coupled with the Spec's -/
theorem decodeDict_refines {raw : List Nat} (hb : Bytes raw) {sd : Spec.Dict} (h : Spec.parseDict raw = some sd) :
    ∃ d, Blk.decodeDict raw = .ok (some d) ∧ d.id = sd.id ∧ d.content = sd.content ∧
      Coupled sd.entropy d.entropy := by
  unfold Spec.parseDict at h
  split at h
  · cases h
  · rename_i hpre
    simp only [not_or, Nat.not_lt, ne_eq, Decidable.not_not] at hpre
    obtain ⟨hlen, hmagic⟩ := hpre
    simp only [] at h
    have hb0 := bytes_drop' hb 8
    cases hH : Spec.Huffman.readTable (raw.drop 8) with
    | none => rw [hH] at h; cases h
    | some pH =>
      obtain ⟨hufS, u0⟩ := pH
      rw [hH] at h
      simp only [] at h
      obtain ⟨huf', hbd, hhc⟩ := hufBuildDecoder_refines hb0 hH Huf.DecTable.empty
      obtain ⟨-, hu0⟩ := hufBuildDecoder_ok hb0 hbd
      have hb1 := bytes_drop' hb0 u0
      cases hO : Spec.Fse.readDescription ((raw.drop 8).drop u0) 8 31 with
      | none => rw [hO] at h; cases h
      | some pO =>
        obtain ⟨ofAl, ofP, u1⟩ := pO
        rw [hO] at h
        simp only [] at h
        have hb2 := bytes_drop' hb1 u1
        cases hM : Spec.Fse.readDescription (((raw.drop 8).drop u0).drop u1) 9 52 with
        | none => rw [hM] at h; cases h
        | some pM =>
          obtain ⟨mlAl, mlP, u2⟩ := pM
          rw [hM] at h
          simp only [] at h
          have hb3 := bytes_drop' hb2 u2
          cases hL : Spec.Fse.readDescription ((((raw.drop 8).drop u0).drop u1).drop u2) 9 35 with
          | none => rw [hL] at h; cases h
          | some pL =>
            obtain ⟨llAl, llP, u3⟩ := pL
            rw [hL] at h
            simp only [] at h
            split at h
            · cases h
            · rename_i h12
              cases hTO : Spec.Fse.buildTable ofAl ofP with
              | none => rw [hTO] at h; cases h
              | some ofT =>
                cases hTM : Spec.Fse.buildTable mlAl mlP with
                | none => rw [hTO, hTM] at h; cases h
                | some mlT =>
                  cases hTL : Spec.Fse.buildTable llAl llP with
                  | none => rw [hTO, hTM, hTL] at h; cases h
                  | some llT =>
                    rw [hTO, hTM, hTL] at h
                    simp only [] at h
                    split at h
                    · cases h
                    · simp only [Option.some.injEq] at h
                      subst h
                      obtain ⟨ofT', hof, hofU, hofC⟩ := dictTable_refines (maxLog := Gen.ofMaxLog)
                        (maxCode := Gen.maxOffsetCode) hb1 (by decide) (by decide) hO hTO
                      obtain ⟨mlT', hml, hmlU, hmlC⟩ := dictTable_refines (maxLog := Gen.mlMaxLog)
                        (maxCode := Gen.maxMatchLengthCode) hb2 (by decide) (by decide) hM hTM
                      obtain ⟨llT', hll, hllU, hllC⟩ := dictTable_refines (maxLog := Gen.llMaxLog)
                        (maxCode := Gen.maxLiteralLengthCode) hb3 (by decide) (by decide) hL hTL
                      have hmg := dictMagic_bytes hb (by omega) hmagic
                      refine ⟨{ id := Blk.le32 (raw.drop 4),
                                entropy := { huf := huf',
                                             fse := { offsets := ofT', matchLengths := mlT', literalLengths := llT' },
                                             hist := (Blk.le32 (((((raw.drop 8).drop u0).drop u1).drop u2).drop u3), Blk.le32 ((((((raw.drop 8).drop u0).drop u1).drop u2).drop u3).drop 4), Blk.le32 ((((((raw.drop 8).drop u0).drop u1).drop u2).drop u3).drop 8)) },
                                content := ((((((raw.drop 8).drop u0).drop u1).drop u2).drop u3).drop 12).toArray }, ?_, ?_, rfl, ?_⟩
                      · unfold Blk.decodeDict
                        rw [if_neg (by omega), if_neg (by simp [hmg])]
                        simp only [hbd, if_neg (Nat.not_lt.mpr hu0), hof, if_neg (Nat.not_lt.mpr hofU), hml,
                          if_neg (Nat.not_lt.mpr hmlU), hll, if_neg (Nat.not_lt.mpr hllU), if_neg h12]
                      · simp only [Blk.le32_eq_leNat]
                      · exact ⟨hhc, ⟨hllC, hofC, hmlC⟩, by simp only [Blk.le32_eq_leNat]⟩

/-! ### `add_dict` keeps the invariants -/

section generic
variable {σ : Type} [BlockDec σ] [BlockContract σ]

theorem Decoder.addDict_dictsWF [NoFaultContract σ] (d : Decoder σ) (dict : Dict σ) (hd : d.dictsWF)
    (hw : NoFaultContract.wf dict.entropy) : (d.addDict dict).dictsWF := by
  intro x hx
  simp only [Decoder.addDict, List.mem_cons, List.mem_filter] at hx
  rcases hx with rfl | ⟨hx, -⟩
  · exact hw
  · exact hd x hx

theorem Decoder.addDict_entWF [NoFaultContract σ] (d : Decoder σ) (dict : Dict σ) (hd : d.entWF)
    (hw : NoFaultContract.wf dict.entropy) : (d.addDict dict).entWF :=
  ⟨hd.1, Decoder.addDict_dictsWF d dict hd.2 hw⟩

theorem DictsCoupled.filter [RefinesSpec σ] {l1 : List (Dict σ)} {l2 : List Spec.Dict} (h : DictsCoupled l1 l2)
    (id : Nat) : DictsCoupled (l1.filter (fun x => x.id ≠ id)) (l2.filter (fun x => x.id ≠ id)) := by
  induction h with
  | nil => exact .nil
  | @cons a b l1 l2 h1 h2 h3 _ ih =>
    by_cases hid : a.id = id
    · have : b.id = id := by rw [h1, hid]
      simp only [List.filter_cons, hid, this, ne_eq, not_true_eq_false, decide_false]
      exact ih
    · have : ¬ b.id = id := by rw [h1]; exact hid
      simp only [List.filter_cons, hid, this, ne_eq, not_false_eq_true, decide_true]
      exact .cons h1 h2 h3 ih

/-- registering a dictionary on both sides keeps the decoder's dictionaries coupled with the Spec's -/
theorem DictsCoupled.addDict [RefinesSpec σ] {d : Decoder σ} {sdicts : List Spec.Dict}
    (h : DictsCoupled d.dicts sdicts) {dict : Dict σ} {sd : Spec.Dict} (hid : sd.id = dict.id)
    (hc : sd.content = dict.content) (hcp : RefinesSpec.coupled dict.entropy sd.entropy) :
    DictsCoupled (d.addDict dict).dicts (sd :: sdicts.filter (fun x => x.id ≠ sd.id)) := by
  simp only [Decoder.addDict]
  rw [hid]
  exact .cons hid hc hcp (h.filter dict.id)

end generic

/-! ### decoders whose dictionaries were registered through `add_dict` of parsed bytes -/

/-- `for raw in raws { if let Ok(dict) = Dictionary::decode_dict(raw) { dec.add_dict(dict) } }` -/
def registerDicts (d : DecB) : List (List Nat) → DecB
  | [] => d
  | raw :: rest =>
    match Blk.decodeDict raw with
    | .ok (some dict) => registerDicts (d.addDict dict) rest
    | _ => registerDicts d rest

/-- the same registrations on the Spec side (`Spec.parseDict`; a later dictionary with the same id
replaces an earlier one) -/
def specRegisterDicts (sd : List Spec.Dict) : List (List Nat) → List Spec.Dict
  | [] => sd
  | raw :: rest =>
    match Spec.parseDict raw with
    | some x => specRegisterDicts (x :: sd.filter (fun y => y.id ≠ x.id)) rest
    | none => specRegisterDicts sd rest

theorem registerDicts_state (d : DecB) (raws : List (List Nat)) :
    (registerDicts d raws).state = d.state ∧ (registerDicts d raws).maxWindow = d.maxWindow := by
  induction raws generalizing d with
  | nil => exact ⟨rfl, rfl⟩
  | cons raw rest ih =>
    simp only [registerDicts]
    split
    · exact ih _
    · exact ih _

/-- **hostile dictionaries**: whatever byte strings are offered as dictionaries, every dictionary that
gets registered is well formed — the decoder invariant of C03 survives `decode_dict` + `add_dict` -/
theorem registerDicts_entWF (d : DecB) (raws : List (List Nat)) (hb : ∀ raw ∈ raws, Bytes raw) (hd : d.entWF) :
    (registerDicts d raws).entWF := by
  induction raws generalizing d with
  | nil => exact hd
  | cons raw rest ih =>
    have hbr := hb raw List.mem_cons_self
    have hrest : ∀ r ∈ rest, Bytes r := fun r hr => hb r (List.mem_cons_of_mem _ hr)
    simp only [registerDicts]
    split
    · rename_i dict hdd
      exact ih _ hrest (Decoder.addDict_entWF d dict hd (decodeDict_wf hbr hdd))
    · exact ih _ hrest hd

/-- **parsed dictionaries are coupled**: when every byte string is a dictionary the Spec parses, the
decoder's registered dictionaries are the Spec's — the `DictsCoupled` hypothesis of the dictionary
forms of C01 / C06 / C08 / C10 holds -/
theorem registerDicts_coupled (d : DecB) (sdicts : List Spec.Dict) (raws : List (List Nat))
    (hb : ∀ raw ∈ raws, Bytes raw) (hs : ∀ raw ∈ raws, (Spec.parseDict raw).isSome = true)
    (h : DictsCoupled d.dicts sdicts) :
    DictsCoupled (registerDicts d raws).dicts (specRegisterDicts sdicts raws) := by
  induction raws generalizing d sdicts with
  | nil => exact h
  | cons raw rest ih =>
    have hbr := hb raw List.mem_cons_self
    have hsr := hs raw List.mem_cons_self
    have hrb : ∀ r ∈ rest, Bytes r := fun r hr => hb r (List.mem_cons_of_mem _ hr)
    have hrs : ∀ r ∈ rest, (Spec.parseDict r).isSome = true := fun r hr => hs r (List.mem_cons_of_mem _ hr)
    cases hp : Spec.parseDict raw with
    | none => rw [hp] at hsr; cases hsr
    | some sd =>
      obtain ⟨dict, hdd, hid, hc, hcp⟩ := decodeDict_refines hbr hp
      simp only [registerDicts, specRegisterDicts, hdd, hp]
      exact ih _ _ hrb hrs (h.addDict hid.symm hc.symm hcp)

end Zstd.Model
