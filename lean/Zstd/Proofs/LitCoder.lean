import Zstd.Proofs.LitCoderTable
import Zstd.Proofs.LitCoderCounts
import Zstd.Proofs.EncReal
/-
C02 / C16, literal coder, part 5: the CONTRACT of the real `compress_literals`
(`Model.Enc.compressLiteralsReal`) against the strict specification, all branches:

  RLE literals (repair of F10) · raw fallback · Compressed (new table, direct or FSE-compressed weights)
  · Treeless (table of the previous block) · one stream (< 6 literals) or four streams with jump table
  · the three size formats (3, 4, 5 header bytes).

`lit_coder_contract : LitCoderCorrect TableRel realCoders` with
`TableRel h d := SpecDecodes d h` ("the Spec's table in force decodes the code the encoder remembers").
Totality (`compressLiterals_total`, `Proofs/LitCoderTotal.lean`): on byte strings of 1 … 128 Ki literals, from
every remembered table that is canonical, `compress_literals` does not panic — given that `write_table` does
not hit its `assert!(encoded_len < 128)` (`FseWeightsLt128`, C13's `fse_weights_lt_128`).
-/
namespace Zstd.Proofs.LitCoder
open Zstd Zstd.Model Zstd.Model.Huf Zstd.Model.Enc Zstd.Proofs.Huf Zstd.Proofs.Enc

/-! ### the section header -/

/-- head, length and value of an `n ≥ 1` byte little-endian field followed by anything -/
theorem leBytes_field (n h : Nat) (tail : List Nat) (hn : 1 ≤ n) (hv : h < 256 ^ n) :
    ∃ rest, leBytes n h ++ tail = (h % 256) :: rest ∧ ¬ ((h % 256) :: rest).length < n ∧
      leNat (((h % 256) :: rest).take n) = h := by
  obtain ⟨k, rfl⟩ : ∃ k, n = k + 1 := ⟨n - 1, by omega⟩
  refine ⟨leBytes k (h / 256) ++ tail, rfl, ?_, ?_⟩
  · simp only [List.length_cons, List.length_append, leBytes_length]; omega
  · have : (h % 256 :: (leBytes k (h / 256) ++ tail)) = leBytes (k + 1) h ++ tail := rfl
    rw [this, List.take_left' (leBytes_length _ _), leNat_leBytes, Nat.mod_eq_of_lt hv]

/-- `Spec.parseLitHeader` on a Compressed/Treeless header given by its arithmetic facts -/
theorem parseLitHeader_of (ty sf n sb len clen h : Nat) (tail : List Nat)
    (hsf : (sf = 0 ∧ sb = 10 ∧ n = 3) ∨ (sf = 1 ∧ sb = 10 ∧ n = 3) ∨ (sf = 2 ∧ sb = 14 ∧ n = 4) ∨ (sf = 3 ∧ sb = 18 ∧ n = 5))
    (hv : h < 256 ^ n) (t0 : h % 256 % 4 = ty) (t1 : h % 256 / 4 % 4 = sf) (hn2 : ¬ ty < 2)
    (r1 : h / 16 % 2 ^ sb = len) (r2 : h / 16 / 2 ^ sb % 2 ^ sb = clen) :
    Spec.parseLitHeader (leBytes n h ++ tail) = some ⟨ty, len, clen, if sf = 0 then 1 else 4, n⟩ := by
  obtain ⟨rest, hb, hl, hval⟩ := leBytes_field n h tail (by omega) hv
  rw [hb]
  rcases hsf with ⟨rfl, rfl, rfl⟩ | ⟨rfl, rfl, rfl⟩ | ⟨rfl, rfl, rfl⟩ | ⟨rfl, rfl, rfl⟩
  · simp only [Spec.parseLitHeader, t0, t1, hn2, if_false, if_true, hl]
    rw [hval, r1, r2]
  · simp only [Spec.parseLitHeader, t0, t1, hn2, if_false, if_true, hl, show ¬ ((1 : Nat) = 0) by decide]
    rw [hval, r1, r2]
  · simp only [Spec.parseLitHeader, t0, t1, hn2, if_false, if_true, hl, show ¬ ((2 : Nat) = 0) by decide,
      show ¬ ((2 : Nat) = 1) by decide]
    rw [hval, r1, r2]
  · simp only [Spec.parseLitHeader, t0, t1, hn2, if_false, hl, show ¬ ((3 : Nat) = 0) by decide,
      show ¬ ((3 : Nat) = 1) by decide, show ¬ ((3 : Nat) = 2) by decide]
    rw [hval, r1, r2]

/-- the size-format arms of `compress_literals` -/
def SizeArm (sf sb : Nat) : Prop := (sf = 0 ∧ sb = 10) ∨ (sf = 1 ∧ sb = 10) ∨ (sf = 2 ∧ sb = 14) ∨ (sf = 3 ∧ sb = 18)

/-- the header of a Compressed / Treeless literals section as `compress_literals` writes it -/
theorem parseLitHeader_compressed (ty sf sb len clen : Nat) (tail : List Nat) (hty : ty = 2 ∨ ty = 3)
    (hsf : SizeArm sf sb) (hlen : len < 2 ^ sb) (hclen : clen < 2 ^ sb) :
    Spec.parseLitHeader (leBytes ((4 + 2 * sb) / 8) (ty + sf * 4 + len * 16 + clen * 2 ^ (4 + sb)) ++ tail)
      = some ⟨ty, len, clen, if sf = 0 then 1 else 4, (4 + 2 * sb) / 8⟩ := by
  rcases hsf with ⟨rfl, rfl⟩ | ⟨rfl, rfl⟩ | ⟨rfl, rfl⟩ | ⟨rfl, rfl⟩
  · exact parseLitHeader_of ty 0 3 10 len clen _ tail (Or.inl ⟨rfl, rfl, rfl⟩) (by omega) (by omega) (by omega)
      (by omega) (by omega) (by omega)
  · exact parseLitHeader_of ty 1 3 10 len clen _ tail (Or.inr (Or.inl ⟨rfl, rfl, rfl⟩)) (by omega) (by omega) (by omega)
      (by omega) (by omega) (by omega)
  · exact parseLitHeader_of ty 2 4 14 len clen _ tail (Or.inr (Or.inr (Or.inl ⟨rfl, rfl, rfl⟩))) (by omega) (by omega) (by omega)
      (by omega) (by omega) (by omega)
  · exact parseLitHeader_of ty 3 5 18 len clen _ tail (Or.inr (Or.inr (Or.inr ⟨rfl, rfl, rfl⟩))) (by omega) (by omega) (by omega)
      (by omega) (by omega) (by omega)

theorem litSizeFormat_arm {n sf sb : Nat} (h : litSizeFormat n = .ok (sf, sb)) :
    SizeArm sf sb ∧ n < 2 ^ sb ∧ (sf = 0 ↔ n < 6) ∧ n < 262144 := by
  simp only [litSizeFormat, Gen.litSizeFormatArms, List.find?] at h
  by_cases h1 : n < 6
  · simp [h1] at h
    obtain ⟨rfl, rfl⟩ := h
    exact ⟨Or.inl ⟨rfl, rfl⟩, by omega, by simp [h1], by omega⟩
  · by_cases h2 : n < 1024
    · have a1 : 6 ≤ n := by omega
      simp [h1, h2, a1] at h
      obtain ⟨rfl, rfl⟩ := h
      exact ⟨Or.inr (Or.inl ⟨rfl, rfl⟩), by omega, by simp [h1], by omega⟩
    · by_cases h3 : n < 16384
      · have a1 : 6 ≤ n := by omega
        have a2 : 1024 ≤ n := by omega
        simp [h1, h2, h3, a1, a2] at h
        obtain ⟨rfl, rfl⟩ := h
        exact ⟨Or.inr (Or.inr (Or.inl ⟨rfl, rfl⟩)), by omega, by simp [h1], by omega⟩
      · have a1 : 6 ≤ n := by omega
        have a2 : 1024 ≤ n := by omega
        have a3 : 16384 ≤ n := by omega
        by_cases h4 : n < 262144
        · simp [h1, h2, h3, a1, a2, a3, h4] at h
          obtain ⟨rfl, rfl⟩ := h
          exact ⟨Or.inr (Or.inr (Or.inr ⟨rfl, rfl⟩)), by omega, by simp [h1], by omega⟩
        · simp [h1, h2, h3, h4] at h

/-! ### four streams -/

theorem leNat_two (a b : Nat) : leNat [a, b] = a + b * 256 := by
  simp [leNat]; omega

/-- four encoded streams behind their jump table, against the strict Spec -/
theorem decodeFourStreams_body4 {T : Spec.Huffman.Table} {t : EncTable} (sd : SpecDecodes T t)
    (d1 d2 d3 d4 s1 s2 s3 s4 : List Nat)
    (h1 : encodeStream t d1 = .ok s1) (h2 : encodeStream t d2 = .ok s2)
    (h3 : encodeStream t d3 = .ok s3) (h4 : encodeStream t d4 = .ok s4)
    (l1 : s1.length < 65536) (l2 : s2.length < 65536) (l3 : s3.length < 65536)
    (regen : Nat) (hn1 : d1.length = (regen + 3) / 4) (hn2 : d2.length = (regen + 3) / 4)
    (hn3 : d3.length = (regen + 3) / 4) (hn4 : d4.length = regen - 3 * ((regen + 3) / 4))
    (h3n : 3 * ((regen + 3) / 4) ≤ regen) :
    Spec.decodeFourStreams T (body4 s1 s2 s3 s4) regen = some (d1 ++ d2 ++ d3 ++ d4) := by
  obtain ⟨b0, b1, b2, b3, b4, b5, hb, j1, j2, j3⟩ := jump_split s1 s2 s3 s4 l1 l2 l3
  have q1 := decodeStream_encodeStream sd d1 s1 h1
  have q2 := decodeStream_encodeStream sd d2 s2 h2
  have q3 := decodeStream_encodeStream sd d3 s3 h3
  have q4 := decodeStream_encodeStream sd d4 s4 h4
  rw [hn1] at q1; rw [hn2] at q2; rw [hn3] at q3; rw [hn4] at q4
  unfold Spec.decodeFourStreams
  rw [hb]
  simp only [List.length_cons, List.take_succ_cons, List.take_zero, List.drop_succ_cons, List.drop_zero, leNat_two]
  rw [if_neg (by omega), j1, j2, j3, if_neg (by simp only [List.length_append]; omega), if_neg (by omega)]
  have e1 : (s1 ++ s2 ++ s3 ++ s4).take s1.length = s1 := by
    rw [List.append_assoc, List.append_assoc]; exact List.take_left' rfl
  have e2 : ((s1 ++ s2 ++ s3 ++ s4).drop s1.length).take s2.length = s2 := by
    rw [List.append_assoc, List.append_assoc, List.drop_left' rfl]
    exact List.take_left' rfl
  have e3 : ((s1 ++ s2 ++ s3 ++ s4).drop (s1.length + s2.length)).take s3.length = s3 := by
    have h'' : s1.length + s2.length = (s1 ++ s2).length := by rw [List.length_append]
    rw [h'', List.append_assoc (s1 ++ s2), List.drop_left' rfl]
    exact List.take_left' rfl
  have e4 : (s1 ++ s2 ++ s3 ++ s4).drop (s1.length + s2.length + s3.length) = s4 := by
    have h'' : s1.length + s2.length + s3.length = (s1 ++ s2 ++ s3).length := by
      simp only [List.length_append]
    rw [h'']; exact List.drop_left' rfl
  rw [e1, e2, e3, e4, q1, q2, q3, q4]

/-! ### a Compressed / Treeless section, decoded -/

/-- the literals section `header ++ encoded` (followed by anything), given what the table phase and the
stream phase of the Spec do on `encoded` -/
theorem decodeLiterals_huffman (ty sf sb : Nat) (lits encoded rest : List Nat) (dprev : Option Spec.Huffman.Table)
    (T : Spec.Huffman.Table) (used : Nat) (hty : ty = 2 ∨ ty = 3) (hsf : SizeArm sf sb)
    (hlen : lits.length < 2 ^ sb) (hclen : encoded.length < 2 ^ sb)
    (htbl : (if ty = 2 then Spec.Huffman.readTable encoded else dprev.map (fun t => (t, 0))) = some (T, used))
    (hused : used ≤ encoded.length)
    (hstreams : (if sf = 0 then Spec.Huffman.decodeStream T (encoded.drop used) lits.length
      else Spec.decodeFourStreams T (encoded.drop used) lits.length) = some lits) :
    Spec.decodeLiterals (leBytes ((4 + 2 * sb) / 8) (ty + sf * 4 + lits.length * 16 + encoded.length * 2 ^ (4 + sb))
        ++ encoded ++ rest) dprev
      = some (lits, (4 + 2 * sb) / 8 + encoded.length, some T) := by
  have hp := parseLitHeader_compressed ty sf sb lits.length encoded.length (encoded ++ rest) hty hsf hlen hclen
  unfold Spec.decodeLiterals
  rw [List.append_assoc, hp]
  simp only
  rw [List.drop_left' (leBytes_length _ _), if_neg (by omega), if_neg (by omega),
    if_neg (by simp only [List.length_append]; omega), List.take_left' rfl, htbl]
  simp only
  rw [if_neg (by omega)]
  by_cases h0 : sf = 0
  · rw [if_pos h0] at hstreams
    simp only [h0, if_true, hstreams]
  · rw [if_neg h0] at hstreams
    simp only [h0, if_false, show ¬ ((4 : Nat) = 1) by decide, hstreams]

end Zstd.Proofs.LitCoder
