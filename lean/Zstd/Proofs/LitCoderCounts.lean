import Zstd.Proofs.HufRoundtrip
import Zstd.Proofs.SeqTables
import Zstd.Props.C13
/-
C02 / C16, literal coder, part 4: `HuffmanTable::build_from_data` on byte strings.

* `countsOf_*`            : the histogram `counts[..=max]` of `build_from_data` is `List.count`, has
                            `max + 1 ≤ 256` entries, and its last entry is not zero;
* `buildFromData_canon`   : every table `build_from_data` RETURNS for a string of bytes is canonical
                            (`CanonTable`) and gives every byte of the string a code;
* `buildFromData_total`   : `build_from_data` does not panic on a byte string with two distinct values.
-/
namespace Zstd.Proofs.LitCoder
open Zstd Zstd.Model Zstd.Model.Huf Zstd.Proofs.Huf
open Zstd.Proofs.SeqTables (countLoop countLoop_getElem? counts_size)

def maxOf (data : List Nat) : Nat := data.foldl (fun m x => Nat.max m x) 0

theorem foldl_max_ge (data : List Nat) : ∀ (m : Nat), m ≤ data.foldl (fun m x => Nat.max m x) m ∧
    (∀ x ∈ data, x ≤ data.foldl (fun m x => Nat.max m x) m) ∧
    (data.foldl (fun m x => Nat.max m x) m = m ∨ data.foldl (fun m x => Nat.max m x) m ∈ data) := by
  induction data with
  | nil => intro m; simp
  | cons a as ih =>
    intro m
    obtain ⟨h1, h2, h3⟩ := ih (Nat.max m a)
    simp only [List.foldl_cons]
    refine ⟨Nat.le_trans (Nat.le_max_left m a) h1, ?_, ?_⟩
    · intro x hx
      rcases List.mem_cons.mp hx with rfl | hx
      · exact Nat.le_trans (Nat.le_max_right m x) h1
      · exact h2 x hx
    · rcases h3 with h | h
      · rw [h]
        rcases Nat.le_total m a with hle | hle
        · right
          have : Nat.max m a = a := Nat.max_eq_right hle
          rw [this]; exact List.mem_cons_self
        · left; exact Nat.max_eq_left hle
      · right; exact List.mem_cons_of_mem _ h

theorem maxOf_ge {data : List Nat} {x : Nat} (h : x ∈ data) : x ≤ maxOf data := (foldl_max_ge data 0).2.1 x h

theorem maxOf_mem {data : List Nat} (hne : data ≠ []) : maxOf data ∈ data := by
  rcases (foldl_max_ge data 0).2.2 with h | h
  · -- the maximum is 0: every element is 0
    cases data with
    | nil => exact absurd rfl hne
    | cons a as =>
      have ha : a ≤ maxOf (a :: as) := maxOf_ge List.mem_cons_self
      have h0 : maxOf (a :: as) = 0 := h
      have : a = 0 := by omega
      rw [h0, this]; exact List.mem_cons_self
  · exact h

theorem countsOf_eq (data : List Nat) :
    countsOf data = ((countLoop data (Array.replicate 256 0)).toList.take (maxOf data + 1)) := rfl

theorem countsOf_length (data : List Nat) (hb : ∀ b ∈ data, b < 256) (hne : data ≠ []) :
    (countsOf data).length = maxOf data + 1 := by
  have hm := hb _ (maxOf_mem hne)
  rw [countsOf_eq, List.length_take, Array.length_toList, counts_size, Array.size_replicate]
  omega

theorem countsOf_getElem? (data : List Nat) (s : Nat) (hs : s ≤ maxOf data) (h256 : s < 256) :
    (countsOf data)[s]? = some (data.count s) := by
  rw [countsOf_eq, List.getElem?_take, if_pos (by omega), Array.getElem?_toList, countLoop_getElem?]
  simp [h256]

theorem countsOf_last (data : List Nat) (hb : ∀ b ∈ data, b < 256) (hne : data ≠ []) :
    ∀ c, (countsOf data).getLast? = some c → c ≠ 0 := by
  intro c hc
  have hmem := maxOf_mem hne
  have hm := hb _ hmem
  rw [List.getLast?_eq_getElem?, countsOf_length data hb hne, Nat.add_sub_cancel,
    countsOf_getElem? data _ (Nat.le_refl _) hm] at hc
  simp only [Option.some.injEq] at hc
  rw [← hc]
  exact Nat.ne_of_gt (List.count_pos_iff.mpr hmem)

/-- a successful `build_from_counts` saw at least two non-zero counts (`distribute_weights` asserts it) -/
theorem buildFromCounts_two {counts : List Nat} {t : EncTable} (h : buildFromCounts counts = .ok t) :
    counts.length ≤ 256 ∧ 2 ≤ counts.length - ((rankOrder counts).filter (·.2)).length := by
  unfold buildFromCounts buildFromRank at h
  by_cases hl : Gen.hufCountsLenOk counts.length Gen.hufMaxCounts = true
  · simp only [hl, Bool.not_true, Bool.false_eq_true, if_false] at h
    have hlen : counts.length ≤ 256 := by
      simp only [Gen.hufCountsLenOk, Gen.hufMaxCounts] at hl
      exact of_decide_eq_true hl
    refine ⟨hlen, ?_⟩
    apply Classical.byContradiction
    intro hn
    have hlo : Gen.hufAmountLoOk (counts.length - ((rankOrder counts).filter (·.2)).length) Gen.hufAmountLo = false := by
      simp only [Gen.hufAmountLoOk, Gen.hufAmountLo]; exact decide_eq_false (by omega)
    simp only [shape, distributeWeights, hlo, Bool.not_false, if_true] at h
    cases h
  · have : Gen.hufCountsLenOk counts.length Gen.hufMaxCounts = false := by simpa using hl
    simp only [this, Bool.not_false, if_true] at h
    cases h

/-- **every table `build_from_data` returns for a byte string is canonical** and encodes the string -/
theorem buildFromData_canon {data : List Nat} {t : EncTable} (hb : ∀ b ∈ data, b < 256)
    (h : buildFromData data = .ok t) :
    ∃ wd m, CanonTable t wd m ∧ Encodable wd data := by
  have hne : data ≠ [] := by
    intro hnil
    subst hnil
    have := (buildFromCounts_two h).2
    have hl : (countsOf []).length = 1 := by decide
    omega
  obtain ⟨hlen, hn⟩ := buildFromCounts_two h
  obtain ⟨t', wd, m, hb', c, hwdlen, hused⟩ :=
    Zstd.Props.C13.compressor_table_canon (countsOf data) hlen hn (countsOf_last data hb hne)
  have ht : t' = t := by
    have : buildFromCounts (countsOf data) = .ok t := h
    rw [hb'] at this
    simpa using this
  subst ht
  refine ⟨wd, m, c, ?_⟩
  intro s hs
  have hsm := maxOf_ge hs
  have hlt : s < (countsOf data).length := by rw [countsOf_length data hb hne]; omega
  have hget := countsOf_getElem? data s hsm (hb s hs)
  rw [List.getElem?_eq_getElem hlt] at hget
  simp only [Option.some.injEq] at hget
  exact hused s hlt (by rw [hget]; exact Nat.ne_of_gt (List.count_pos_iff.mpr hs))

theorem two_le_length_of_mem {α : Type} {l : List α} {a b : α} (ha : a ∈ l) (hb : b ∈ l) (hab : a ≠ b) :
    2 ≤ l.length := by
  match l, ha, hb with
  | [x], ha, hb =>
    simp only [List.mem_singleton] at ha hb
    exact absurd (ha.trans hb.symm) hab
  | _ :: _ :: _, _, _ => simp

/-- **`build_from_data` does not panic on a byte string with two distinct values** -/
theorem buildFromData_total {data : List Nat} (hb : ∀ b ∈ data, b < 256) {a b : Nat} (ha : a ∈ data)
    (hbm : b ∈ data) (hab : a ≠ b) : ∃ t, buildFromData data = .ok t := by
  have hne : data ≠ [] := List.ne_nil_of_mem ha
  have hlen : (countsOf data).length ≤ 256 := by
    rw [countsOf_length data hb hne]; have := hb _ (maxOf_mem hne); omega
  have hflag : ∀ x ∈ data, (x, false) ∈ (rankOrder (countsOf data)).filter (fun p => !p.2) := by
    intro x hx
    have hlt : x < (countsOf data).length := by rw [countsOf_length data hb hne]; have := maxOf_ge hx; omega
    have hm := rankOrder_mem (countsOf data) x hlt
    have hget := countsOf_getElem? data x (maxOf_ge hx) (hb x hx)
    rw [List.getElem?_eq_getElem hlt] at hget
    simp only [Option.some.injEq] at hget
    have hz : ((countsOf data)[x] == 0) = false := by
      rw [hget]; simpa using Nat.ne_of_gt (List.count_pos_iff.mpr hx)
    rw [hz] at hm
    exact List.mem_filter.mpr ⟨hm, rfl⟩
  have h2 := two_le_length_of_mem (hflag a ha) (hflag b hbm) (by intro h; exact hab (by simpa using h))
  rw [filter_not_length, (rankOrder_props (countsOf data)).2.2] at h2
  obtain ⟨t, _, _, h, _⟩ := Zstd.Props.C13.compressor_table_canon (countsOf data) hlen h2 (countsOf_last data hb hne)
  exact ⟨t, h⟩

end Zstd.Proofs.LitCoder
