import Zstd.Proofs.SeqTables
import Zstd.Proofs.SeqStream
import Zstd.Proofs.FseStreamInter
import Zstd.Proofs.HufFseContract
import Zstd.Spec.Huffman
/-
C02 / C16, literal coder, part 2: the FSE-compressed Huffman weights against the STRICT specification.

What `HuffmanEncoder::write_table` writes in the FSE form (`Enc.fseWeights`: normaliser with max log 6
and zero-bit avoidance, `write_table`, `encode_interleaved`), preceded by its size byte, is accepted by
`Spec.Huffman.readWeights` (RFC 8878 §4.2.1.2) and gives back exactly the weights: the description is
read with the RFC's alphabet bound 12 and uses fewer bytes than the header announces, both initial
states are read strictly, the two-state decoder alternates through all symbols without ever needing a
missing bit, and stops exactly when the stream is exhausted (the last state update needs ≥ 1 bit).

Tables/description: `SeqTables.seq_table_bridge_gen2`; stream: Spec-level twin of
`FseStreamInter.enc_dec_alt` over `SeqCoupled.SCoupled`.
-/
namespace Zstd.Proofs.LitCoder
open Zstd Zstd.Spec Zstd.Model Zstd.Model.Fse Zstd.Model.BitIO
open Zstd.Proofs.BitIO Zstd.Proofs.SeqCoupled Zstd.Proofs.FseStream Zstd.Proofs.FseStreamInter

variable {et : ETable} {T : Spec.Fse.Table} {al : Nat} {usable : Nat → Prop}

theorem readBEPad_field {n v : Nat} (hv : v < 2 ^ n) (rest : List Bool) :
    readBEPad n ((bitsOfLE n v).reverse ++ rest) = (v, rest, 0) := by
  have hlen : ((bitsOfLE n v).reverse).length = n := by simp
  rw [readBEPad_def, if_neg (by simp), List.take_left' hlen, List.drop_left' hlen, valBE_reverse_bitsOfLE hv]

theorem readBEPad_empty {n : Nat} (hn : 1 ≤ n) : (readBEPad n []).2.2 = n := by
  rw [readBEPad_def, if_pos (by simp only [List.length_nil]; omega)]
  simp

/-- one non-final step of the Spec's alternating decoder on the bits one encoder step wrote -/
theorem spec_alt_step {s : Nat} {st nx : EState} {other : Nat} {e2 : Spec.Fse.Entry}
    (hgn : SGood T al s nx) (h2 : T.entries[other]? = some e2)
    (h1 : nx.baseline ≤ st.index) (hlt : st.index < nx.baseline + 2 ^ nx.numBits)
    (post : List Bool) (m : Nat) (acc : List Nat) (hacc : acc.length + 1 ≤ 255) :
    Spec.Huffman.decodeFseWeights T (m + 1) nx.index other
        ((bitsOfLE nx.numBits (st.index - nx.baseline)).reverse ++ post) acc
      = Spec.Huffman.decodeFseWeights T m other st.index post (s :: acc) := by
  have hv : st.index - nx.baseline < 2 ^ nx.numBits := by omega
  rw [Spec.Huffman.decodeFseWeights]
  simp only [hgn.2.1, h2, sEntryOf, readBEPad_field hv]
  rw [if_neg (by omega), if_neg (by simp only [List.length_cons]; omega)]
  congr 1
  omega

/-- the Spec's alternating decoder undoes the alternating encoder; the bits written are bounded by the
per-symbol bound `B` on the width of a state of that symbol -/
theorem spec_enc_dec_alt (hc : SCoupled et T al usable) (B : Nat → Nat)
    (hB : ∀ s idx st, usable s → idx < 2 ^ al → et.nextState s idx = .ok st → st.numBits ≤ B s) :
    ∀ (xs : List Nat) (ca cb : Nat) (a b : EState) (w : BitWriter) (L : List Bool),
      WInv w L → SGood T al ca a → SGood T al cb b → (∀ x ∈ xs, usable x) →
      ∃ w' a' b' F, encAlt et xs w a b = .ok (w', a', b') ∧ WInv w' (L ++ F) ∧ F.length ≤ (xs.map B).sum ∧
        SGood T al (symAlt xs ca cb).1 a' ∧ SGood T al (symAlt xs ca cb).2 b' ∧
        ∀ (post : List Bool) (m : Nat) (acc : List Nat), xs.length + acc.length ≤ 255 →
          Spec.Huffman.decodeFseWeights T (xs.length + m) b'.index a'.index (F.reverse ++ post) acc
            = Spec.Huffman.decodeFseWeights T m b.index a.index post (xs ++ acc) := by
  intro xs
  induction xs with
  | nil =>
    intro ca cb a b w L hw ha hb _
    refine ⟨w, a, b, [], rfl, by simpa using hw, by simp, ha, hb, ?_⟩
    intro post m acc _
    simp
  | cons x xs ih =>
    intro ca cb a b w L hw ha hb hu
    have hux : usable x := hu x (List.mem_cons_self ..)
    obtain ⟨nx, hnx, hb1, hb2, hgn⟩ := hc.next x a.index hux ha.1
    have hnb : nx.numBits ≤ 63 := by have := hgn.2.2; have := hc.al_le; omega
    have hnbB : nx.numBits ≤ B x := hB x a.index nx hux ha.1 hnx
    obtain ⟨w1, hw1, hinv1⟩ := bitWriter_refines (v := a.index - nx.baseline) hw (by omega) hnb
    obtain ⟨w', a', b', F', henc, hw', hlenF, hga', hgb', hdec⟩ :=
      ih cb x b nx w1 (L ++ bitsOfLE nx.numBits (a.index - nx.baseline)) hinv1 hb hgn
        (fun y hy => hu y (List.mem_cons_of_mem _ hy))
    refine ⟨w', a', b', bitsOfLE nx.numBits (a.index - nx.baseline) ++ F', ?_, ?_, ?_, hga', hgb', ?_⟩
    · simp only [encAlt, encStep, hnx, if_neg (show ¬ a.index < nx.baseline by omega), hw1, henc]
    · simpa [List.append_assoc] using hw'
    · simp only [List.length_append, length_bitsOfLE, List.map_cons, List.sum_cons]; omega
    · intro post m acc hlen
      simp only [List.length_cons] at hlen
      have h1 := hdec ((bitsOfLE nx.numBits (a.index - nx.baseline)).reverse ++ post) (m + 1) acc (by omega)
      have h2 := spec_alt_step (T := T) (al := al) (s := x) (st := a) hgn hb.2.1 hb1 hb2 post m (xs ++ acc)
        (by simp only [List.length_append]; omega)
      rw [show (x :: xs).length + m = xs.length + (m + 1) by simp only [List.length_cons]; omega]
      rw [List.reverse_append, List.append_assoc, h1, h2]
      simp

/-- the final step: the stream is exhausted, the acting state is a start state that needs ≥ 1 bit -/
theorem spec_alt_final {c1 c2 : Nat} {s1 s2 : EState} (hg1 : SGood T al c1 s1) (hg2 : SGood T al c2 s2)
    (hnb : 1 ≤ s2.numBits) (m : Nat) (acc : List Nat) :
    Spec.Huffman.decodeFseWeights T (m + 1) s2.index s1.index [] acc = some ((c1 :: c2 :: acc).reverse) := by
  rw [Spec.Huffman.decodeFseWeights]
  simp only [hg1.2.1, hg2.2.1, sEntryOf]
  have := readBEPad_empty hnb
  generalize readBEPad s2.numBits [] = q at this
  obtain ⟨v, r, miss⟩ := q
  simp only at this
  subst this
  simp only
  rw [if_pos (by omega)]

/-- **The two-state FSE stream against the strict Spec**, for every symbol string of length 4 … 257 over
usable symbols and Spec-coupled tables whose start states read at least one bit; its length is at most
the sum of the per-symbol bounds `B` plus the two final state indices and the end mark. -/
theorem spec_encode_decode_interleaved (hc : SCoupled et T al usable)
    (hstart : ∀ s st, usable s → et.startState s = .ok st → 1 ≤ st.numBits) (B : Nat → Nat)
    (hB : ∀ s idx st, usable s → idx < 2 ^ al → et.nextState s idx = .ok st → st.numBits ≤ B s)
    (data : List Nat) (h4 : 4 ≤ data.length) (hlen : data.length ≤ 257) (hu : ∀ x ∈ data, usable x)
    {w : BitWriter} {L : List Bool} (hw : WInv w L) :
    ∃ w' S, encodeInterleavedStream et w data = .ok w' ∧ WInv w' (L ++ S) ∧ (L.length + S.length) % 8 = 0 ∧
      S.length ≤ (data.map B).sum + 2 * al + 8 ∧
      ∀ (bytes : List Nat), bitsLE bytes = S →
        ∃ bits s1 bits1 s2 bits2, backwardStream bytes = some bits ∧
          Spec.Fse.initState T bits = some (s1, bits1) ∧ Spec.Fse.initState T bits1 = some (s2, bits2) ∧
          Spec.Huffman.decodeFseWeights T 300 s1 s2 bits2 [] = some data := by
  obtain ⟨ys, c2, c1, rfl⟩ := split_last2 data (by omega)
  have hn : (ys.reverse ++ [c2, c1]).length = ys.length + 2 := by simp
  rw [hn] at h4 hlen
  have hu1 : usable c1 := hu c1 (by simp)
  have hu2 : usable c2 := hu c2 (by simp)
  have huy : ∀ y ∈ ys, usable y := fun y hy => hu y (by simp [hy])
  obtain ⟨s1, hs1, hg1⟩ := hc.start c1 hu1
  obtain ⟨s2, hs2, hg2⟩ := hc.start c2 hu2
  obtain ⟨w1, a, b, F, henc, hw1, hFlen, hga, hgb, hdec⟩ :=
    spec_enc_dec_alt hc B hB ys c1 c2 s1 s2 w L hw hg1 hg2 huy
  have hal63 : al ≤ 63 := by have := hc.al_le; omega
  obtain ⟨w2, hw2, hinv2⟩ := bitWriter_refines (v := a.index) (n := al) hw1 hga.1 hal63
  obtain ⟨w3, hw3, hinv3⟩ := bitWriter_refines (v := b.index) (n := al) hinv2 hgb.1 hal63
  obtain ⟨w4, m, hw4, hm1, hm8, hinv4, hal4⟩ := writeEndMark_ok hinv3
  refine ⟨w4, F ++ bitsOfLE al a.index ++ bitsOfLE al b.index ++ bitsOfLE m 1, ?_,
    by simpa [List.append_assoc] using hinv4, ?_, ?_, ?_⟩
  · rw [encodeInterleavedStream_eq et w ys c2 c1 (by omega)]
    simp only [encodeInterAlt, hs1, hs2, hc.encLog, henc, hw2, hw3, hw4]
  · simp only [List.length_append, length_bitsOfLE] at hal4 ⊢; omega
  · have hsum : (ys.map B).sum ≤ ((ys.reverse ++ [c2, c1]).map B).sum := by
      rw [List.map_append, List.sum_append, List.map_reverse, List.sum_reverse]
      omega
    simp only [List.length_append, length_bitsOfLE]
    omega
  · intro bytes hbits
    have hbs := Zstd.Proofs.SeqStream.backwardStream_of_mark
      (F := F ++ bitsOfLE al a.index ++ bitsOfLE al b.index) hm1 hm8 hbits
    refine ⟨_, b.index, (bitsOfLE al a.index).reverse ++ F.reverse, a.index, F.reverse, hbs, ?_, ?_, ?_⟩
    · rw [List.reverse_append, List.reverse_append]
      exact Zstd.Proofs.SeqStream.spec_init_reads hc.specLog hgb.1 _
    · exact Zstd.Proofs.SeqStream.spec_init_reads hc.specLog hga.1 _
    · have h := hdec [] (300 - ys.length) [] (by simp; omega)
      rw [show ys.length + (300 - ys.length) = 300 by omega, List.append_nil, List.append_nil] at h
      rw [h, show 300 - ys.length = (299 - ys.length) + 1 by omega,
        spec_alt_final hg1 hg2 (hstart c2 s2 hu2 hs2)]
      simp

/-- the trivial per-symbol bound: a state never reads more than `al` bits -/
theorem numBits_le_al (hc : SCoupled et T al usable) :
    ∀ s idx st, usable s → idx < 2 ^ al → et.nextState s idx = .ok st → st.numBits ≤ al := by
  intro s idx st hs hidx hst
  obtain ⟨st', h1, _, _, hg⟩ := hc.next s idx hs hidx
  rw [hst] at h1
  cases h1
  exact hg.2.2

/-! ### the composition: `Spec.Huffman.readWeights` on what `write_table` wrote in the FSE form -/

/-- **FSE-compressed weights, strict Spec.**  For every weight vector with 4 … 257 entries, all `≤ 12`:
whenever the production FSE coder returns fewer than 128 bytes, the RFC's `readWeights` on size byte +
payload (+ anything) returns exactly these weights and `1 + size` bytes. -/
theorem spec_readWeights_fse (ws bytes : List Nat) (h4 : 4 ≤ ws.length) (h257 : ws.length ≤ 257)
    (hle : ∀ w ∈ ws, w ≤ 12) (henc : Enc.fseWeights ws = .ok bytes) (hsmall : bytes.length < 128)
    (tail : List Nat) :
    Spec.Huffman.readWeights (bytes.length :: (bytes ++ tail)) = some (ws, 1 + bytes.length) := by
  have hne : ws ≠ [] := by intro h; rw [h] at h4; simp at h4
  obtain ⟨et, al, probs, T, hbuild, hT, hsc, hstart, hsize, hal5, hdesc⟩ :=
    Zstd.Proofs.SeqTables.seq_table_bridge_gen2 ws 6 255 12 (by decide) (by decide) (by decide) (by decide)
      (by decide) (by decide) hne hle
  obtain ⟨w1, D, hwt, hw1, hD8, hread⟩ := hdesc WInv_new (by simp)
  simp only [List.nil_append] at hw1
  obtain ⟨w2, S, hstr, hw2, hDS8, _, hstream⟩ :=
    spec_encode_decode_interleaved hsc (fun s st hs hst => (hstart s st hs hst).1) (fun _ => al)
      (numBits_le_al hsc) ws h4 h257 (fun x hx => hx) hw1
  obtain ⟨out, hdump, hbits, hbytes⟩ := bitWriter_dump hw2 (by rw [List.length_append]; exact hDS8)
  have hfse : Enc.fseWeights ws = .ok out.toList := by
    unfold Enc.fseWeights
    rw [hbuild]
    simp only
    unfold Fse.encodeInterleaved Enc.dumpBytes
    rw [hwt]
    simp only [hstr, hdump]
  rw [henc] at hfse
  simp only [Except.ok.injEq] at hfse
  subst hfse
  have hlenout : 8 * out.toList.length = D.length + S.length := by
    have := congrArg List.length hbits
    rw [length_bitsLE, List.length_append] at this; exact this
  have hk : 8 * (D.length / 8) = D.length := by omega
  -- the stream is not empty (it contains the end mark)
  have hSpos : 0 < S.length := by
    rcases Nat.eq_zero_or_pos S.length with h0 | h0
    · exfalso
      have hnil : S = [] := List.length_eq_zero_iff.mp h0
      have hb0 : bitsLE (out.toList.drop (D.length / 8)) = [] := by
        rw [Zstd.Proofs.Huf.bitsLE_drop, hbits, hk, hnil]; simp
      obtain ⟨bits, _, _, _, _, hbs, _⟩ := hstream (out.toList.drop (D.length / 8)) (by rw [hb0, hnil])
      have hlen0 : (out.toList.drop (D.length / 8)).length = 0 := by
        have := congrArg List.length hb0
        rw [length_bitsLE] at this
        simp only [List.length_nil] at this
        omega
      rw [List.length_eq_zero_iff.mp hlen0] at hbs
      simp [backwardStream] at hbs
    · exact h0
  have hSbits : bitsLE (out.toList.drop (D.length / 8)) = S := by
    rw [Zstd.Proofs.Huf.bitsLE_drop, hbits, hk]; exact List.drop_left' rfl
  obtain ⟨bits, s1, bits1, s2, bits2, hbs, hi1, hi2, hdec⟩ := hstream _ hSbits
  have hrd := hread out.toList S hbytes hbits
  unfold Spec.Huffman.readWeights
  simp only
  rw [if_neg (by omega), if_neg (by simp)]
  have htake : (out.toList ++ tail).take out.toList.length = out.toList := List.take_left' rfl
  simp only [htake, hrd]
  rw [if_neg (by omega)]
  simp only [hT, hbs, hi1, hi2, hdec]

end Zstd.Proofs.LitCoder
