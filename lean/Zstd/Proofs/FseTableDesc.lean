import Zstd.Model.Fse
import Zstd.Proofs.BitIO
/-
The FSE table description: `FSETable::read_probabilities` (decoder, `fse_decoder.rs:224-307`) inverts
`FSETable::write_table` (encoder, `fse_encoder.rs:147-189`).  No Mathlib.

  (a) `fieldOf`, `fieldOf_spec`, `wrStep_eq`, `read_value`   one variable-width value (three cases)
  (b) `zero_run`                                             repeat flags after a zero probability
  (c) `prob_loop`                                            the `while probability_counter < probability_sum` loops
  `write_read_table_bits`, `write_read_table`                `read_probabilities (write_table d) = Ok(d)`, byte count
  `write_read_table_full`, `write_read_table_full_false`, `last_minus_one_needs_a_following_bit`
      the statement without side condition is false: when the last probability is `-1` the reader needs one
      bit after the (one-bit) last field; witness `[1, 30, -1]`, accuracy log 5, bytes `20 3e`.
-/
namespace Zstd.Proofs.FseTableDesc
open Zstd Zstd.Spec Zstd.Model.Fse Zstd.Model.BitIO Zstd.Proofs.BitIO

/-! ### the mass of a distribution -/

/-- weight of one probability: `-1` ("less than one") counts as one cell -/
def wt (p : Int) : Nat := if p = -1 then 1 else if p > 0 then p.toNat else 0

def mass (probs : List Int) : Nat :=
  probs.foldl (fun (a : Nat) p => a + (if p = -1 then 1 else if p > 0 then p.toNat else 0)) 0

theorem mass_foldl (l : List Int) : ∀ (a : Nat),
    l.foldl (fun (a : Nat) p => a + (if p = -1 then 1 else if p > 0 then p.toNat else 0)) a = a + mass l := by
  induction l with
  | nil => intro a; simp [mass]
  | cons p ps ih =>
    intro a
    rw [mass, List.foldl_cons, List.foldl_cons, ih, ih]
    omega

@[simp] theorem mass_nil : mass [] = 0 := rfl

theorem mass_cons (p : Int) (ps : List Int) : mass (p :: ps) = wt p + mass ps := by
  rw [mass, List.foldl_cons, mass_foldl]; simp [wt]

theorem mass_append (a b : List Int) : mass (a ++ b) = mass a + mass b := by
  induction a with
  | nil => simp
  | cons p ps ih => rw [List.cons_append, mass_cons, mass_cons, ih]; omega

theorem mass_replicate_zero (z : Nat) : mass (List.replicate z 0) = 0 := by
  induction z with
  | zero => rfl
  | succ z ih => rw [List.replicate_succ, mass_cons, ih]; simp [wt]

/-- a non-empty list whose last element is not `0` (all elements `≥ -1`) has positive mass -/
theorem mass_pos : ∀ (ps : List Int), ps ≠ [] → ps.getLast? ≠ some 0 → (∀ p ∈ ps, -1 ≤ p) → 1 ≤ mass ps := by
  intro ps
  induction ps with
  | nil => intro h; exact absurd rfl h
  | cons p ps ih =>
    intro _ hl hge
    rw [mass_cons]
    cases ps with
    | nil =>
      have hp : p ≠ 0 := by simpa using hl
      have := hge p (by simp)
      simp only [wt, mass_nil]
      split
      · omega
      · split <;> omega
    | cons q qs =>
      have := ih (by simp) (by simpa [List.getLast?_cons_cons] using hl) (fun x hx => hge x (List.mem_cons_of_mem _ hx))
      omega

/-! ### the loop bodies, in a form that can be rewritten with -/

/-- the `write_bits` call for one value (`M` = `max_remaining_value`) -/
def wrStep (w : BitWriter) (M value : Nat) : Except Fault BitWriter :=
  let bitsToWrite := Nat.log2 M + 1
  let lowThreshold := (1 <<< bitsToWrite) - 1 - M
  let mask := (1 <<< (bitsToWrite - 1)) - 1
  if value < lowThreshold then w.writeBits value (bitsToWrite - 1)
  else if value > mask then
    if value + lowThreshold ≥ 2 ^ 32 then .error (.overflow "fse_encoder.rs:165:write_table")
    else w.writeBits (value + lowThreshold) bitsToWrite
  else w.writeBits value bitsToWrite

theorem writeProbLoop_succ (t : ETable) (sum fuel : Nat) (w : BitWriter) (counter probIdx : Nat) :
    writeProbLoop t sum (fuel + 1) w counter probIdx =
      if ¬ (counter < sum) then .ok w
      else
        match t.prob probIdx with
        | .error f => .error f
        | .ok prob =>
          match wrStep w (sum - counter + 1) (asU32 (prob + 1)) with
          | .error f => .error f
          | .ok w =>
            if prob = -1 then writeProbLoop t sum fuel w (counter + 1) (probIdx + 1)
            else if prob > 0 then writeProbLoop t sum fuel w (counter + prob.toNat) (probIdx + 1)
            else
              match writeZeroRun t 257 w (probIdx + 1) 0 with
              | .error f => .error f
              | .ok (w, probIdx) => writeProbLoop t sum fuel w counter probIdx := by
  rw [writeProbLoop]; rfl

/-- the decoding of one value from the `bits_to_read` bits that have been read -/
def rdStep (br : BitReader) (M unchecked : Nat) : Except Err (Nat × BitReader) :=
  let bitsToRead := Nat.log2 M + 1
  let lowThreshold := (1 <<< bitsToRead) - 1 - M
  let mask := (1 <<< (bitsToRead - 1)) - 1
  let small := unchecked &&& mask
  if small < lowThreshold then
    match br.returnBits 1 with
    | .error f => .error (.fault f)
    | .ok br => .ok (small, br)
  else if unchecked > mask then .ok (unchecked - lowThreshold, br)
  else .ok (unchecked, br)

theorem readProbLoop_succ (sum fuel : Nat) (br : BitReader) (counter : Nat) (probs : Array Int) :
    readProbLoop sum (fuel + 1) br counter probs =
      if ¬ (counter < sum) then (probs, .ok (br, counter))
      else
        match liftBit (br.getBits (Nat.log2 (sum - counter + 1) + 1)) with
        | .error e => (probs, .error e)
        | .ok (unchecked, br) =>
          match rdStep br (sum - counter + 1) unchecked with
          | .error e => (probs, .error e)
          | .ok (value, br) =>
            let prob : Int := (value : Int) - 1
            let probs := probs.push prob
            if prob ≠ 0 then
              if prob > 0 then readProbLoop sum fuel br (counter + prob.toNat) probs
              else readProbLoop sum fuel br (counter + 1) probs
            else
              match readZeroRuns (br.src.size * 4 + 2) br probs with
              | (probs, .error e) => (probs, .error e)
              | (probs, .ok br) => readProbLoop sum fuel br counter probs := by
  rw [readProbLoop]; rfl

/-! ### (a) one value -/

/-- reading a field that sits at the reader's position -/
theorem getBits_field {src : Array Nat} {idx n v : Nat} {tail : List Bool} (hb : Bytes src.toList)
    (hdrop : (bitsLE src.toList).drop idx = bitsOfLE n v ++ tail) (hv : v < 2 ^ n) (hn0 : 0 < n) (hn : n ≤ 64) :
    (BitReader.mk src idx).getBits n = .ok (v, ⟨src, idx + n⟩) ∧ (bitsLE src.toList).drop (idx + n) = tail := by
  have hlen := congrArg List.length hdrop
  simp only [List.length_drop, length_bitsLE, Array.length_toList, List.length_append, length_bitsOfLE] at hlen
  constructor
  · rw [bitReader_refines _ n hb (by simp only; omega) hn (Or.inl hn0)]
    simp only [hdrop, readLE_bitsOfLE_append hv]
  · rw [← List.drop_drop, hdrop, List.drop_left' (length_bitsOfLE n v)]

/-- the field `(value written, width)` that encodes `v` when `M = max_remaining_value`:
one bit is saved for the values below `low_threshold` -/
def fieldOf (M v : Nat) : Nat × Nat :=
  if v < 2 ^ (Nat.log2 M + 1) - 1 - M then (v, Nat.log2 M)
  else if v > 2 ^ Nat.log2 M - 1 then (v + (2 ^ (Nat.log2 M + 1) - 1 - M), Nat.log2 M + 1)
  else (v, Nat.log2 M + 1)

theorem log2_facts {M : Nat} (hM : 2 ≤ M) (hM20 : M ≤ 2 ^ 20 + 1) :
    1 ≤ Nat.log2 M ∧ Nat.log2 M ≤ 20 ∧ 2 ^ Nat.log2 M ≤ M ∧ M < 2 ^ (Nat.log2 M + 1) ∧
      2 ^ (Nat.log2 M + 1) = 2 * 2 ^ Nat.log2 M ∧ 2 ^ Nat.log2 M ≤ 2 ^ 20 := by
  have h0 : M ≠ 0 := by omega
  have h1 : 1 ≤ Nat.log2 M := (Nat.le_log2 h0).2 (by omega)
  have h2 : Nat.log2 M < 21 := (Nat.log2_lt h0).2 (by omega)
  refine ⟨h1, by omega, Nat.log2_self_le h0, Nat.lt_log2_self, by rw [Nat.pow_succ]; omega,
    Nat.pow_le_pow_right (by omega) (by omega)⟩

theorem fieldOf_spec {M v : Nat} (hM : 2 ≤ M) (hM20 : M ≤ 2 ^ 20 + 1) (hv : v ≤ M) :
    (fieldOf M v).1 < 2 ^ (fieldOf M v).2 ∧ 1 ≤ (fieldOf M v).2 ∧ (fieldOf M v).2 ≤ 21 := by
  obtain ⟨h1, h2, h3, h4, h5, h6⟩ := log2_facts hM hM20
  unfold fieldOf
  generalize Nat.log2 M = k at *
  rw [h5]
  generalize 2 ^ k = P at *
  split
  · exact ⟨by simp only; omega, h1, by simp only; omega⟩
  · split
    · exact ⟨by simp only; omega, by simp only; omega, by simp only; omega⟩
    · exact ⟨by simp only; omega, by simp only; omega, by simp only; omega⟩

/-- the writer's three-way case distinction writes exactly the field `fieldOf M v` -/
theorem wrStep_eq (w : BitWriter) {M v : Nat} (hM : 2 ≤ M) (hM20 : M ≤ 2 ^ 20 + 1) (hv : v ≤ M) :
    wrStep w M v = w.writeBits (fieldOf M v).1 (fieldOf M v).2 := by
  obtain ⟨h1, h2, h3, h4, h5, h6⟩ := log2_facts hM hM20
  unfold wrStep fieldOf
  simp only [Nat.one_shiftLeft, Nat.add_sub_cancel]
  split
  · rfl
  · split
    · rw [if_neg]
      rw [h5]
      omega
    · rfl

theorem bitsOfLE_one (x : Bool) : bitsOfLE 1 (if x then 1 else 0) = [x] := by cases x <;> decide

theorem mod_of_range {u P : Nat} (h1 : P ≤ u) (h2 : u < 2 * P) : u % P = u - P := by
  rw [Nat.mod_eq_sub_mod h1, Nat.mod_eq_of_lt (by omega)]

/-- **(a) single value.**  If the field `fieldOf M v` sits at the reader's position, `get_bits(bits_to_read)`
followed by the reader's case distinction (`rdStep`) returns `v` and leaves the reader right behind
the field.  For a short field (`v < low_threshold`) the reader looks at one bit more than the field
has, and gives it back (`return_bits(1)`): that bit has to exist. -/
theorem read_value {src : Array Nat} {idx M v : Nat} {tail : List Bool} (hb : Bytes src.toList)
    (hM : 2 ≤ M) (hM20 : M ≤ 2 ^ 20 + 1) (hv : v ≤ M)
    (hdrop : (bitsLE src.toList).drop idx = bitsOfLE (fieldOf M v).2 (fieldOf M v).1 ++ tail)
    (htail : v < 2 ^ (Nat.log2 M + 1) - 1 - M → tail ≠ []) :
    ∃ u br', (BitReader.mk src idx).getBits (Nat.log2 M + 1) = .ok (u, br') ∧
      rdStep br' M u = .ok (v, ⟨src, idx + (fieldOf M v).2⟩) ∧
      (bitsLE src.toList).drop (idx + (fieldOf M v).2) = tail := by
  obtain ⟨h1, h2, h3, h4, h5, h6⟩ := log2_facts hM hM20
  unfold fieldOf at hdrop ⊢
  unfold rdStep
  simp only [Nat.one_shiftLeft, Nat.add_sub_cancel, Nat.and_two_pow_sub_one_eq_mod]
  generalize Nat.log2 M = k at *
  by_cases hlow : v < 2 ^ (k + 1) - 1 - M
  · -- (i) short field
    rw [if_pos hlow] at hdrop ⊢
    simp only at hdrop ⊢
    obtain ⟨x, tail', rfl⟩ : ∃ x tail', tail = x :: tail' := by
      cases tail with
      | nil => exact absurd rfl (htail hlow)
      | cons x t => exact ⟨x, t, rfl⟩
    have hvk : v < 2 ^ k := by omega
    have hd2 : (bitsLE src.toList).drop idx = bitsOfLE (k + 1) (v + (if x then 1 else 0) * 2 ^ k) ++ tail' := by
      rw [hdrop, ← or_shiftLeft_eq_add hvk, ← bitsOfLE_append_of_lt _ _ hvk, bitsOfLE_one]; simp
    have hu : v + (if x then 1 else 0) * 2 ^ k < 2 ^ (k + 1) := by
      rw [h5]; cases x <;> simp <;> omega
    obtain ⟨hget, _⟩ := getBits_field hb hd2 hu (by omega) (by omega)
    refine ⟨_, _, hget, ?_, ?_⟩
    · rw [Nat.add_mul_mod_self_right, Nat.mod_eq_of_lt hvk, if_pos hlow, bitReader_returnBits _ _ (by simp only; omega)]
      simp only [Nat.add_sub_cancel, ← Nat.add_assoc]
    · rw [← List.drop_drop, hdrop, List.drop_left' (length_bitsOfLE k v)]
  · rw [if_neg hlow] at hdrop ⊢
    by_cases hmask : v > 2 ^ k - 1
    · -- (ii) large value, shifted up by `low_threshold`
      rw [if_pos hmask] at hdrop ⊢
      simp only at hdrop ⊢
      have hu : v + (2 ^ (k + 1) - 1 - M) < 2 ^ (k + 1) := by omega
      obtain ⟨hget, hrest⟩ := getBits_field hb hdrop hu (by omega) (by omega)
      refine ⟨_, _, hget, ?_, hrest⟩
      rw [mod_of_range (by omega) (by omega), if_neg (by omega), if_pos (by omega)]
      simp only [Nat.add_sub_cancel]
    · -- (iii) the value itself
      rw [if_neg hmask] at hdrop ⊢
      simp only at hdrop ⊢
      have hu : v < 2 ^ (k + 1) := by omega
      obtain ⟨hget, hrest⟩ := getBits_field hb hdrop hu (by omega) (by omega)
      refine ⟨_, _, hget, ?_, hrest⟩
      rw [Nat.mod_eq_of_lt (by omega), if_neg (by omega), if_neg (by omega)]

/-! ### (b) zero runs -/

/-- `et` carries the distribution `probs` (what `build_table_from_probabilities` stores in
`states[i].probability`; the entries beyond `probs` are `0`) -/
def Carries (et : ETable) (al : Nat) (probs : List Int) : Prop :=
  et.tableSize = 2 ^ al ∧ et.states.size = 256 ∧
    ∀ i < 256, (et.states.getD i {}).probability = probs.getD i 0

theorem prob_at {et : ETable} {al : Nat} {probs : List Int} (hc : Carries et al probs)
    {pre : List Int} {p : Int} {ps : List Int} (hp : probs = pre ++ p :: ps) (hlen : probs.length ≤ 256) :
    et.prob pre.length = .ok p := by
  obtain ⟨_, hsz, hget⟩ := hc
  have hi : pre.length < 256 := by
    have := congrArg List.length hp
    simp only [List.length_append, List.length_cons] at this
    omega
  have h1 := hget pre.length hi
  rw [Array.getD_eq_getD_getElem?, Array.getElem?_eq_getElem (by omega)] at h1
  unfold ETable.prob
  rw [Array.getElem?_eq_getElem (by omega)]
  simp only [Option.getD_some] at h1 ⊢
  rw [h1, hp]
  simp [List.getD_eq_getElem?_getD]

/-- **(b) zero runs.**  With `zeros < 3` zeros pending and `z` more zero probabilities ahead (followed by a
non-zero one), `writeZeroRun` writes repeat flags `F` from which `readZeroRuns` produces exactly
`zeros + z` zero probabilities. -/
theorem zero_run {et : ETable} {al : Nat} {probs : List Int} (hc : Carries et al probs)
    (hlen : probs.length ≤ 256) :
    ∀ (z zeros : Nat) (pre : List Int) (q : Int) (ps : List Int),
      probs = pre ++ List.replicate z 0 ++ q :: ps → q ≠ 0 → zeros < 3 →
      ∀ (w : BitWriter) (L : List Bool) (fuelW : Nat), WInv w L → z + 1 ≤ fuelW →
      ∃ w' F, writeZeroRun et fuelW w pre.length zeros = .ok (w', pre.length + z) ∧ WInv w' (L ++ F) ∧
        2 ≤ F.length ∧
        ∀ (src : Array Nat) (idx : Nat) (tail : List Bool) (fuelR : Nat) (acc : Array Int),
          Bytes src.toList → (bitsLE src.toList).drop idx = F ++ tail → F.length ≤ 2 * fuelR →
          readZeroRuns fuelR ⟨src, idx⟩ acc
            = (acc ++ Array.replicate (zeros + z) 0, .ok ⟨src, idx + F.length⟩) := by
  intro z
  induction z with
  | zero =>
    intro zeros pre q ps hp hq hz3 w L fuelW hw hf
    obtain ⟨f, rfl⟩ : ∃ f, fuelW = f + 1 := ⟨fuelW - 1, by omega⟩
    have hprob := prob_at hc (pre := pre) (p := q) (ps := ps) (by simpa using hp) hlen
    obtain ⟨w1, hw1, hinv1⟩ := bitWriter_refines (v := zeros) (n := 2) hw (by omega) (by omega)
    refine ⟨w1, bitsOfLE 2 zeros, ?_, hinv1, by simp, ?_⟩
    · simp only [writeZeroRun, hprob, if_neg hq, hw1, Nat.add_zero]
    · intro src idx tail fuelR acc hb hdrop hfr
      simp only [length_bitsOfLE] at hfr ⊢
      obtain ⟨f', rfl⟩ : ∃ f', fuelR = f' + 1 := ⟨fuelR - 1, by omega⟩
      obtain ⟨hget, _⟩ := getBits_field hb hdrop (by omega : zeros < 2 ^ 2) (by omega) (by omega)
      have hne : zeros ≠ 3 := by omega
      simp only [readZeroRuns, hget, liftBit, Nat.add_zero]
      rw [if_pos hne]
  | succ z ih =>
    intro zeros pre q ps hp hq hz3 w L fuelW hw hf
    obtain ⟨f, rfl⟩ : ∃ f, fuelW = f + 1 := ⟨fuelW - 1, by omega⟩
    have hp' : probs = (pre ++ [0]) ++ List.replicate z 0 ++ q :: ps := by
      rw [hp, List.replicate_succ]; simp
    have hprob := prob_at hc (pre := pre) (p := 0) (ps := List.replicate z 0 ++ q :: ps)
      (by rw [hp, List.replicate_succ]; simp) hlen
    by_cases h3 : zeros + 1 = 3
    · obtain rfl : zeros = 2 := by omega
      obtain ⟨w1, hw1, hinv1⟩ := bitWriter_refines (v := 3) (n := 2) hw (by omega) (by omega)
      obtain ⟨w', F', hwr, hinv', hF2, hrd⟩ := ih 0 (pre ++ [0]) q ps hp' hq (by omega) w1 _ f hinv1 (by omega)
      rw [List.length_append, List.length_singleton] at hwr
      refine ⟨w', bitsOfLE 2 3 ++ F', ?_, by simpa [List.append_assoc] using hinv', by simp, ?_⟩
      · simp only [writeZeroRun, hprob, if_true, hw1, hwr]
        rw [Nat.add_assoc, Nat.add_comm 1 z]
      · intro src idx tail fuelR acc hb hdrop hfr
        simp only [List.length_append, length_bitsOfLE] at hfr ⊢
        obtain ⟨f', rfl⟩ : ∃ f', fuelR = f' + 1 := ⟨fuelR - 1, by omega⟩
        rw [List.append_assoc] at hdrop
        obtain ⟨hget, hrest⟩ := getBits_field hb hdrop (by omega : 3 < 2 ^ 2) (by omega) (by omega)
        have := hrd src (idx + 2) tail f' (acc ++ Array.replicate 3 0) hb hrest (by omega)
        simp only [readZeroRuns, hget, liftBit, ne_eq, not_true_eq_false, if_false, this]
        refine Prod.ext ?_ ?_
        · apply Array.toList_inj.1; simp; omega
        · simp only [Nat.add_assoc]
    · obtain ⟨w', F', hwr, hinv', hF2, hrd⟩ := ih (zeros + 1) (pre ++ [0]) q ps hp' hq (by omega) w L f hw (by omega)
      rw [List.length_append, List.length_singleton] at hwr
      refine ⟨w', F', ?_, hinv', hF2, ?_⟩
      · simp only [writeZeroRun, hprob, if_true, if_neg h3, hwr]
        rw [Nat.add_assoc, Nat.add_comm 1 z]
      · intro src idx tail fuelR acc hb hdrop hfr
        rw [hrd src idx tail fuelR acc hb hdrop hfr, show zeros + 1 + z = zeros + (z + 1) by omega]

/-! ### (c) the loop -/

theorem asU32_succ {p : Int} (h : -1 ≤ p) : asU32 (p + 1) = (p + 1).toNat := by
  unfold asU32; rw [if_neg (by omega)]

theorem toNat_succ_le_wt {p : Int} (h : -1 ≤ p) : (p + 1).toNat ≤ wt p + 1 := by
  unfold wt
  split
  · omega
  · split <;> omega

/-- what follows a zero probability: more zeros, then a non-zero probability -/
theorem zeros_then_nonzero : ∀ (ps : List Int), ps ≠ [] → ps.getLast? ≠ some 0 →
    ∃ z q ps', ps = List.replicate z 0 ++ q :: ps' ∧ q ≠ 0 := by
  intro ps
  induction ps with
  | nil => intro h; exact absurd rfl h
  | cons p ps ih =>
    intro _ hl
    by_cases hp : p = 0
    · subst hp
      cases ps with
      | nil => simp at hl
      | cons r rs =>
        obtain ⟨z, q, ps', h1, h2⟩ := ih (by simp) (by simpa [List.getLast?_cons_cons] using hl)
        exact ⟨z + 1, q, ps', by rw [h1, List.replicate_succ]; simp, h2⟩
    · exact ⟨0, p, ps, by simp, hp⟩

theorem getLast?_tail_of {p : Int} {ps : List Int} {x : Int} (h : ps.getLast? = some x) :
    (p :: ps).getLast? = some x := by
  cases ps with
  | nil => simp at h
  | cons q qs => simpa [List.getLast?_cons_cons] using h

theorem getLast?_append_cons (a : List Int) (q : Int) (ps : List Int) :
    (a ++ q :: ps).getLast? = (q :: ps).getLast? := by
  rw [List.getLast?_append]
  cases h : (q :: ps).getLast? with
  | none => simp at h
  | some x => simp

/-- **(c) loop invariant.**  `probs = pre ++ ps`; the writer is about to write symbol `pre.length` with
`probability_counter = mass pre`; it writes the fields `F` for `ps`, from which the reader (same
counter) reads `ps` back and ends with the counter at `2^al`. -/
theorem prob_loop {et : ETable} {al : Nat} {probs : List Int} (hc : Carries et al probs)
    (hlen : probs.length ≤ 256) (hal : al ≤ 20) :
    ∀ (n : Nat) (pre ps : List Int), ps.length = n → probs = pre ++ ps → ps.getLast? ≠ some 0 →
      (∀ p ∈ ps, -1 ≤ p) → mass pre + mass ps = 2 ^ al →
      ∀ (w : BitWriter) (L : List Bool) (fuelW : Nat), WInv w L → ps.length + 1 ≤ fuelW →
      ∃ w' F, writeProbLoop et (2 ^ al) fuelW w (mass pre) pre.length = .ok w' ∧ WInv w' (L ++ F) ∧
        (ps ≠ [] → F ≠ []) ∧
        ∀ (src : Array Nat) (idx : Nat) (tail : List Bool) (fuelR : Nat) (acc : Array Int),
          Bytes src.toList → (bitsLE src.toList).drop idx = F ++ tail →
          (ps.getLast? = some (-1) → tail ≠ []) → F.length + 1 ≤ fuelR →
          readProbLoop (2 ^ al) fuelR ⟨src, idx⟩ (mass pre) acc
            = (acc ++ ps.toArray, .ok (⟨src, idx + F.length⟩, 2 ^ al)) := by
  intro n
  induction n using Nat.strongRecOn with
  | _ n ih =>
  intro pre ps hn hp hl hge hm w L fuelW hw hf
  obtain ⟨f, rfl⟩ : ∃ f, fuelW = f + 1 := ⟨fuelW - 1, by omega⟩
  have hS20 : 2 ^ al ≤ 2 ^ 20 := Nat.pow_le_pow_right (by omega) hal
  cases ps with
  | nil =>
    rw [mass_nil, Nat.add_zero] at hm
    refine ⟨w, [], ?_, by simpa using hw, fun h => absurd rfl h, ?_⟩
    · rw [writeProbLoop_succ, if_pos (by omega)]
    · intro src idx tail fuelR acc _ _ _ hfr
      obtain ⟨f', rfl⟩ : ∃ f', fuelR = f' + 1 := ⟨fuelR - 1, by omega⟩
      rw [readProbLoop_succ, if_pos (by omega), hm]
      simp
  | cons p ps' =>
    have hpge : -1 ≤ p := hge p (by simp)
    have hge' : ∀ x ∈ ps', -1 ≤ x := fun x hx => hge x (List.mem_cons_of_mem _ hx)
    have hmp := mass_pos (p :: ps') (by simp) hl hge
    have hmc := mass_cons p ps'
    have hlt : mass pre < 2 ^ al := by omega
    have hprob := prob_at hc hp hlen
    generalize hM : 2 ^ al - mass pre + 1 = M
    have hM2 : 2 ≤ M := by omega
    have hM20 : M ≤ 2 ^ 20 + 1 := by omega
    have hv : (p + 1).toNat ≤ M := by have := toNat_succ_le_wt hpge; omega
    obtain ⟨hf1, hf2, hf3⟩ := fieldOf_spec hM2 hM20 hv
    obtain ⟨w1, hw1, hinv1⟩ := bitWriter_refines hw hf1 (by omega)
    have hwr : wrStep w M (asU32 (p + 1)) = .ok w1 := by
      rw [asU32_succ hpge, wrStep_eq w hM2 hM20 hv, hw1]
    have hpv : (((p + 1).toNat : Nat) : Int) - 1 = p := by omega
    have hlenp := congrArg List.length hp
    simp only [List.length_append, List.length_cons] at hlenp hn hf
    by_cases hp0 : p = 0
    · -- a zero probability: the zero run follows
      subst hp0
      have hps' : ps' ≠ [] := by
        intro h; subst h; simp at hl
      have hl' : ps'.getLast? ≠ some 0 := by
        intro h; exact hl (getLast?_tail_of h)
      obtain ⟨z, q, ps'', hps, hq⟩ := zeros_then_nonzero ps' hps' hl'
      subst hps
      simp only [List.length_append, List.length_replicate, List.length_cons] at hlenp hn hf
      have hp1 : probs = (pre ++ [0]) ++ List.replicate z 0 ++ q :: ps'' := by rw [hp]; simp
      obtain ⟨w2, Fz, hzr, hinv2, hFz, hzrd⟩ := zero_run hc hlen z 0 (pre ++ [0]) q ps'' hp1 hq (by omega)
        w1 _ 257 hinv1 (by omega)
      have hp2 : probs = (pre ++ [0] ++ List.replicate z 0) ++ q :: ps'' := by rw [hp]; simp
      have hmass2 : mass (pre ++ [0] ++ List.replicate z 0) = mass pre := by
        rw [mass_append, mass_append, mass_replicate_zero, mass_cons]; simp [wt]
      have hlen2 : (pre ++ [0] ++ List.replicate z 0).length = pre.length + 1 + z := by simp; omega
      have hmq : mass (List.replicate z 0 ++ q :: ps'') = mass (q :: ps'') := by
        rw [mass_append, mass_replicate_zero, Nat.zero_add]
      have hlq : (q :: ps'').getLast? = ((0 : Int) :: (List.replicate z 0 ++ q :: ps'')).getLast? := by
        rw [← getLast?_append_cons ((0 : Int) :: List.replicate z 0) q ps'']; rfl
      obtain ⟨w3, F3, hwr3, hinv3, hF3, hrd3⟩ := ih (q :: ps'').length (by simp only [List.length_cons]; omega)
        (pre ++ [0] ++ List.replicate z 0) (q :: ps'') rfl hp2 (by rw [hlq]; exact hl)
        (fun x hx => hge' x (by simp at hx ⊢; exact Or.inr hx))
        (by rw [hmass2]; rw [hmc, hmq] at hm; simpa [wt] using hm)
        w2 _ f hinv2 (by simp only [List.length_cons]; omega)
      rw [hmass2, hlen2] at hwr3
      rw [List.length_append, List.length_singleton] at hzr
      refine ⟨w3, bitsOfLE (fieldOf M (0 + 1 : Int).toNat).2 (fieldOf M (0 + 1 : Int).toNat).1 ++ Fz ++ F3, ?_,
        by simpa [List.append_assoc] using hinv3, ?_, ?_⟩
      · rw [writeProbLoop_succ, if_neg (by omega), hprob]
        simp only [hM, hwr, hzr]
        rw [if_neg (by omega), if_neg (by omega)]
        exact hwr3
      · intro _ h
        have := congrArg List.length h
        simp only [List.length_append, List.length_nil] at this
        omega
      · intro src idx tail fuelR acc hb hdrop htail hfr
        obtain ⟨f', rfl⟩ : ∃ f', fuelR = f' + 1 := ⟨fuelR - 1, by omega⟩
        simp only [List.length_append, length_bitsOfLE] at hfr ⊢
        rw [List.append_assoc, List.append_assoc] at hdrop
        obtain ⟨u, br', hget, hstep, hrest⟩ := read_value hb hM2 hM20 hv hdrop
          (by intro _ h; simp at h; simp [h.1] at hFz)
        have hlen3 := congrArg List.length hrest
        simp only [List.length_drop, length_bitsLE, Array.length_toList, List.length_append] at hlen3
        have hz := hzrd src _ (F3 ++ tail) (src.size * 4 + 2) (acc.push 0) hb hrest (by omega)
        have hr3 := hrd3 src (idx + (fieldOf M (0 + 1 : Int).toNat).2 + Fz.length) tail f'
          (acc.push 0 ++ Array.replicate (0 + z) 0) hb
          (by rw [← List.drop_drop, hrest, List.drop_left' rfl])
          (by rw [hlq]; exact htail) (by omega)
        rw [readProbLoop_succ, if_neg (by omega), hM, hget]
        simp only [liftBit, hstep, hpv, ne_eq, not_true_eq_false, if_false, hz, hmass2] at hr3 ⊢
        rw [hr3]
        refine Prod.ext ?_ ?_
        · apply Array.toList_inj.1; simp
        · simp only [Nat.add_assoc]
    · -- a non-zero probability
      have hmass1 : mass (pre ++ [p]) = mass pre + wt p := by
        rw [mass_append, mass_cons, mass_nil, Nat.add_zero]
      have hwtp : 1 ≤ wt p := by
        unfold wt; split
        · omega
        · split <;> omega
      have hl' : ps'.getLast? ≠ some 0 := by
        intro h; exact hl (getLast?_tail_of h)
      obtain ⟨w2, F2, hwr2, hinv2, hF2, hrd2⟩ := ih ps'.length (by omega) (pre ++ [p]) ps' rfl
        (by rw [hp]; simp) hl' hge' (by rw [hmass1]; omega) w1 _ f hinv1 (by omega)
      rw [hmass1, List.length_append, List.length_singleton] at hwr2
      simp only [hmass1] at hrd2
      refine ⟨w2, bitsOfLE (fieldOf M (p + 1).toNat).2 (fieldOf M (p + 1).toNat).1 ++ F2, ?_,
        by simpa [List.append_assoc] using hinv2, ?_, ?_⟩
      · rw [writeProbLoop_succ, if_neg (by omega), hprob]
        simp only [hM, hwr]
        by_cases hm1 : p = -1
        · rw [if_pos hm1]
          have : wt p = 1 := by simp [wt, hm1]
          rw [this] at hwr2; exact hwr2
        · have hpos : p > 0 := by omega
          rw [if_neg hm1, if_pos hpos]
          have : wt p = p.toNat := by simp [wt, hm1, hpos]
          rw [this] at hwr2; exact hwr2
      · intro _ h
        have := congrArg List.length h
        simp only [List.length_append, length_bitsOfLE, List.length_nil] at this
        omega
      · intro src idx tail fuelR acc hb hdrop htail hfr
        obtain ⟨f', rfl⟩ : ∃ f', fuelR = f' + 1 := ⟨fuelR - 1, by omega⟩
        simp only [List.length_append, length_bitsOfLE] at hfr ⊢
        rw [List.append_assoc] at hdrop
        obtain ⟨u, br', hget, hstep, hrest⟩ := read_value hb hM2 hM20 hv hdrop (by
          intro hlow
          cases ps' with
          | cons r rs =>
            have := hF2 (by simp)
            intro h; simp at h; exact this h.1
          | nil =>
            by_cases hm1 : p = -1
            · have := htail (by simp [hm1])
              intro h; simp at h; exact this h.2
            · -- the last probability fills the table: its value is the largest one, never a short field
              exfalso
              have hpos : p > 0 := by omega
              have hw : wt p = p.toNat := by simp [wt, hm1, hpos]
              rw [mass_nil] at hmc
              obtain ⟨_, _, h3, _, h5, _⟩ := log2_facts hM2 hM20
              omega)
        have hr2 := hrd2 src (idx + (fieldOf M (p + 1).toNat).2) tail f' (acc.push p) hb hrest
          (fun h => htail (getLast?_tail_of h)) (by omega)
        rw [readProbLoop_succ, if_neg (by omega), hM, hget]
        simp only [liftBit, hstep, hpv, ne_eq, hp0, not_false_eq_true, if_true]
        have hfin : readProbLoop (2 ^ al) f' ⟨src, idx + (fieldOf M (p + 1).toNat).2⟩ (mass pre + wt p) (acc.push p)
            = (acc ++ (p :: ps').toArray, .ok (⟨src, idx + ((fieldOf M (p + 1).toNat).2 + F2.length)⟩, 2 ^ al)) := by
          rw [hr2]
          refine Prod.ext ?_ ?_
          · apply Array.toList_inj.1; simp
          · simp only [Nat.add_assoc]
        by_cases hpos : p > 0
        · rw [if_pos hpos]
          have : wt p = p.toNat := by
            have : p ≠ -1 := by omega
            simp [wt, this, hpos]
          rw [this] at hfin; exact hfin
        · rw [if_neg hpos]
          have : wt p = 1 := by
            have : p = -1 := by omega
            simp [wt, this]
          rw [this] at hfin; exact hfin

/-! ### the table description round trip -/

/-- General form: `U` is the number of bits of the description before the zero padding.  The reader needs
one bit after the last field only when the last transmitted probability is `-1`; the padding provides
it unless the unpadded description ends exactly on a byte boundary (`U % 8 = 0`). -/
theorem write_read_table_bits (et : ETable) (al : Nat) (probs : List Int)
    (hal5 : 5 ≤ al) (hal : al ≤ 20)
    (hlen : probs.length ≤ 256) (hge : ∀ p ∈ probs, -1 ≤ p) (hmass : mass probs = 2 ^ al)
    (hlast : probs.getLast? ≠ some 0)
    (hc : Carries et al probs)
    {w : BitWriter} {L : List Bool} (hw : WInv w L) (hL : L.length % 8 = 0) :
    ∃ w' D U, et.writeTable w = .ok w' ∧ WInv w' (L ++ D) ∧ D.length = U + (8 - U % 8) % 8 ∧
      ∀ (src : Array Nat) (rest : List Bool) (t : DTable) (maxLog : Nat),
        Bytes src.toList → bitsLE src.toList = D ++ rest → al ≤ maxLog → probs.length ≤ t.maxSymbol + 1 →
        (probs.getLast? = some (-1) → U % 8 = 0 → rest ≠ []) →
        t.readProbabilities src maxLog
          = ({ t with probs := probs.toArray, accuracyLog := al }, .ok (D.length / 8)) := by
  have hacc : et.accLog = .ok al := by
    unfold ETable.accLog
    rw [hc.1, if_neg (by have := Nat.two_pow_pos al; omega), Nat.log2_two_pow]
  obtain ⟨w1, hw1, hinv1⟩ := bitWriter_refines (v := al - 5) (n := 4) hw (by omega) (by omega)
  obtain ⟨w2, F, hwr2, hinv2, _, hrd⟩ := prob_loop hc hlen hal probs.length [] probs rfl (by simp) hlast hge
    (by simpa using hmass) w1 _ 258 hinv1 (by omega)
  simp only [mass_nil, List.length_nil] at hwr2 hrd
  have hmis := WInv_misaligned hinv2
  generalize hm : (8 - (L ++ bitsOfLE 4 (al - 5) ++ F).length % 8) % 8 = m at hmis
  obtain ⟨w3, hw3, hinv3⟩ := bitWriter_refines (v := 0) (n := m) hinv2 (Nat.two_pow_pos m) (by omega)
  simp only [List.length_append, length_bitsOfLE] at hm
  refine ⟨w3, bitsOfLE 4 (al - 5) ++ F ++ bitsOfLE m 0, 4 + F.length, ?_,
    by simpa [List.append_assoc] using hinv3, ?_, ?_⟩
  · simp only [ETable.writeTable, hacc, if_neg (show ¬ al < 5 by omega), hw1, Nat.one_shiftLeft, hwr2, hmis, hw3]
  · simp only [List.length_append, length_bitsOfLE]; omega
  · intro src rest t maxLog hb hbits hml hms hrest
    have hd0 : (bitsLE src.toList).drop 0 = bitsOfLE 4 (al - 5) ++ (F ++ (bitsOfLE m 0 ++ rest)) := by
      rw [List.drop_zero, hbits]; simp [List.append_assoc]
    obtain ⟨hget, hrest4⟩ := getBits_field hb hd0 (by omega : al - 5 < 2 ^ 4) (by omega) (by omega)
    have hlenS := congrArg List.length hbits
    simp only [length_bitsLE, Array.length_toList, List.length_append, length_bitsOfLE] at hlenS
    have htl : probs.getLast? = some (-1) → bitsOfLE m 0 ++ rest ≠ [] := by
      intro h h'
      have hl0 := congrArg List.length h'
      simp only [List.length_append, length_bitsOfLE, List.length_nil] at hl0
      have hr0 : rest = [] := List.eq_nil_of_length_eq_zero (by omega)
      exact hrest h (by omega) hr0
    have hr := hrd src (0 + 4) (bitsOfLE m 0 ++ rest) (src.size * 8 + 2) #[] hb hrest4 htl (by omega)
    have h5 : 5 + (al - 5) = al := by omega
    have hS : 0 < 2 ^ al := Nat.two_pow_pos al
    unfold DTable.readProbabilities
    simp only [BitReader.new, hget, liftBit, Gen.accLogOffset, h5, Nat.one_shiftLeft, hr]
    rw [if_neg (by omega), if_neg (by omega), if_neg (by omega)]
    simp only [ne_eq, not_true_eq_false, if_false]
    rw [if_neg (by simp; omega)]
    refine Prod.ext ?_ ?_
    · simp
    · simp only [BitReader.bitsRead, List.length_append, length_bitsOfLE]
      congr 1
      by_cases h8 : (0 + 4 + F.length) % 8 = 0
      · simp only [h8, if_true]; omega
      · simp only [h8, if_false]; omega

/-- **`read_probabilities (write_table d) = Ok(d)`**, with the exact byte count, for every valid distribution
`probs` with accuracy log `al` (`5 ≤ al ≤ 20` is the range of the 4-bit field), written after any byte-aligned
prefix `L` and followed by arbitrary bytes `rest` in the source.

The only side condition beyond validity: when the LAST transmitted probability is `-1`, the description has
to be followed by at least one more byte (`rest ≠ []`).  In that case the last field is one bit wide but the
reader fetches two bits and returns one (`return_bits(1)`); if the description ends exactly at the end of
the source, `get_bits` fails with `NotEnoughRemainingBits` (`last_minus_one_needs_a_following_bit`).
Inside a frame a description is always followed by at least one byte (the FSE/sequence bit stream). -/
theorem write_read_table (et : ETable) (al : Nat) (probs : List Int)
    (hal5 : 5 ≤ al) (hal : al ≤ 20)
    (hlen : probs.length ≤ 256) (hge : ∀ p ∈ probs, -1 ≤ p) (hmass : mass probs = 2 ^ al)
    (hlast : probs.getLast? ≠ some 0)
    (hc : Carries et al probs)
    {w : BitWriter} {L : List Bool} (hw : WInv w L) (hL : L.length % 8 = 0) :
    ∃ w' D, et.writeTable w = .ok w' ∧ WInv w' (L ++ D) ∧ D.length % 8 = 0 ∧
      ∀ (src : Array Nat) (rest : List Bool) (t : DTable) (maxLog : Nat),
        Bytes src.toList → bitsLE src.toList = D ++ rest → al ≤ maxLog → probs.length ≤ t.maxSymbol + 1 →
        (probs.getLast? = some (-1) → rest ≠ []) →
        t.readProbabilities src maxLog
          = ({ t with probs := probs.toArray, accuracyLog := al }, .ok (D.length / 8)) := by
  obtain ⟨w', D, U, h1, h2, h3, h4⟩ := write_read_table_bits et al probs hal5 hal hlen hge hmass hlast hc hw hL
  refine ⟨w', D, h1, h2, by omega, ?_⟩
  intro src rest t maxLog hb hbits hml hms hrest
  exact h4 src rest t maxLog hb hbits hml hms (fun h _ => hrest h)

/-- the statement of the task without any side condition on what follows the description -/
def write_read_table_full : Prop :=
  ∀ (et : ETable) (al : Nat) (probs : List Int), 5 ≤ al → al ≤ 20 →
    probs.length ≤ 256 → (∀ p ∈ probs, -1 ≤ p) → mass probs = 2 ^ al → probs.getLast? ≠ some 0 →
    Carries et al probs →
    ∀ {w : BitWriter} {L : List Bool}, WInv w L → L.length % 8 = 0 →
    ∃ w' D, et.writeTable w = .ok w' ∧ WInv w' (L ++ D) ∧ D.length % 8 = 0 ∧
      ∀ (src : Array Nat) (rest : List Bool) (t : DTable) (maxLog : Nat),
        Bytes src.toList → bitsLE src.toList = D ++ rest → al ≤ maxLog → probs.length ≤ t.maxSymbol + 1 →
        t.readProbabilities src maxLog
          = ({ t with probs := probs.toArray, accuracyLog := al }, .ok (D.length / 8))

/-! ### the side condition is necessary: `write_read_table_full` is FALSE

The valid distribution `[1, 30, -1]` with accuracy log 5 is described in exactly 16 bits
(4 + 5 + 6 + 1); `read_probabilities` on those two bytes alone fails, with one more byte it succeeds. -/

def witnessTable : ETable :=
  { states := ((Array.replicate 256 ({} : SymbolStates)).set! 0 { probability := 1 }
      |>.set! 1 { probability := 30 }) |>.set! 2 { probability := -1 },
    tableSize := 32 }

theorem witness_valid : Carries witnessTable 5 [1, 30, -1] ∧ mass [1, 30, -1] = 2 ^ 5 := by
  refine ⟨⟨by decide +kernel, by decide +kernel, by decide +kernel⟩, by decide +kernel⟩

theorem last_minus_one_needs_a_following_bit :
    (match witnessTable.writeTable BitWriter.new with
      | .ok w => w.dump
      | .error f => .error f) = .ok #[32, 62] ∧
    ((DTable.new 255).readProbabilities #[32, 62] 9).2 = .error (.getBitsNotEnough 2 1) ∧
    (DTable.new 255).readProbabilities #[32, 62, 0] 9
      = ({ DTable.new 255 with probs := #[1, 30, -1], accuracyLog := 5 }, .ok 2) := by
  refine ⟨by decide +kernel, by decide +kernel, by decide +kernel⟩

/-- the unconditional statement fails on the witness -/
theorem write_read_table_full_false : ¬ write_read_table_full := by
  intro h
  obtain ⟨w', D, hw, hinv, _, hrd⟩ := h witnessTable 5 [1, 30, -1] (by omega) (by omega) (by decide) (by decide)
    witness_valid.2 (by decide) witness_valid.1 WInv_new rfl
  have hw2 : witnessTable.writeTable BitWriter.new
      = .ok { output := #[], partialBits := 15904, bitsInPartial := 16, bitIdx := 0 } := by decide +kernel
  rw [hw2] at hw
  cases hw
  have hD : bitsLE (#[32, 62] : Array Nat).toList = D ++ [] := by
    have := hinv.bits
    simp only [List.nil_append] at this
    rw [List.append_nil, ← this]
    decide
  have hrd' := hrd #[32, 62] [] (DTable.new 255) 9 (by unfold Bytes; decide) hD (by omega) (by decide)
  have h2 := last_minus_one_needs_a_following_bit.2.1
  rw [hrd'] at h2
  cases h2

end Zstd.Proofs.FseTableDesc
