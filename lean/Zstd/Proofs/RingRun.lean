import Zstd.Proofs.RingReader
/-
Helper lemmas for C04, layer 5: operation sequences.
-/
namespace Zstd.Model
open Zstd

namespace RingBuffer

variable {r r' : RingBuffer}

/-- `extend_from_within_unchecked` ends in `% self.cap`: it can only return on an allocated buffer -/
theorem efwu_cap_pos_of_ok {C : Nat} (hI : r.Inv) {start len : Nat}
    (h : r.extendFromWithinUnchecked C start len = .ok r') : 0 < r.cap := by
  obtain ⟨h1, h2⟩ := efwu_pre_of_ok hI h
  unfold extendFromWithinUnchecked at h
  rw [hI.lenC_eq, ok_bind, check_ok h1, ok_bind, hI.freeC_eq, ok_bind, check_ok h2, ok_bind] at h
  generalize (if Gen.ringEfwuCase1 r.head r.tail = true then _ else _ : Except Fault RingBuffer) = blk at h
  cases blk with
  | error e => rw [error_bind] at h; cases h
  | ok r2 =>
    rw [ok_bind] at h
    rcases Nat.eq_zero_or_pos r.cap with h0 | h0
    · rw [umod_zero h0, error_bind] at h; cases h
    · exact h0

theorem efwu_inv_of_ok {C : Nat} (hC : 0 < C) (hI : r.Inv) {start len : Nat}
    (h : r.extendFromWithinUnchecked C start len = .ok r') :
    r'.Inv ∧ r'.abs = Queue.copyWithin r.abs start len := by
  obtain ⟨h1, h2⟩ := efwu_pre_of_ok hI h
  obtain ⟨r'', e, hI', ha, _⟩ := efwu_ok hC hI (efwu_cap_pos_of_ok hI h) h1 h2
  rw [h] at e; cases e
  exact ⟨hI', ha⟩

theorem dropFirstN_inv_of_ok (hI : r.Inv) {n : Nat} (h : r.dropFirstN n = .ok r') :
    r'.Inv ∧ r'.abs = Queue.dropFront r.abs n := by
  by_cases hn : n ≤ r.len
  · rcases Nat.eq_zero_or_pos r.cap with h0 | h0
    · unfold dropFirstN at h
      rw [hI.lenC_eq, ok_bind, check_ok hn, ok_bind, umod_zero h0, error_bind] at h
      cases h
    · obtain ⟨r'', e, hI', ha, _⟩ := dropFirstN_ok hI h0 hn
      rw [h] at e; cases e
      exact ⟨hI', ha⟩
  · obtain ⟨f, e⟩ := dropFirstN_asserts hI hn
    rw [h] at e; cases e

end RingBuffer

open RingBuffer

/-- whatever the operands: an operation that returns keeps the invariant -/
theorem RingOp.apply_inv {C : Nat} (hC : 0 < C) (op : RingOp) {r r' : RingBuffer} (hI : r.Inv)
    (h : op.apply C r = .ok r') : r'.Inv := by
  cases op with
  | reserve n =>
    obtain ⟨r'', e, hR⟩ := reserve_ok hI n
    simp only [RingOp.apply] at h; rw [h] at e; cases e; exact hR.inv
  | extend d =>
    obtain ⟨r'', e, hI', _⟩ := extend_ok hI d
    simp only [RingOp.apply] at h; rw [h] at e; cases e; exact hI'
  | pushBack b =>
    obtain ⟨r'', e, hI', _⟩ := pushBack_ok hI b
    simp only [RingOp.apply] at h; rw [h] at e; cases e; exact hI'
  | extendAndFill b n =>
    obtain ⟨r'', e, hI', _⟩ := extendAndFill_ok hI b n
    simp only [RingOp.apply] at h; rw [h] at e; cases e; exact hI'
  | extendFromReader a n =>
    obtain ⟨r'', ok, rest, e, hI', _⟩ := extendFromReader_ok hI a n
    simp only [RingOp.apply] at h
    rw [e, ok_bind, pure_eq_ok] at h; cases h; exact hI'
  | extendFromWithin s l =>
    simp only [RingOp.apply] at h
    unfold RingBuffer.extendFromWithin at h
    rw [hI.lenC_eq, ok_bind] at h
    by_cases h1 : s + l ≤ r.len
    · rw [check_ok (by omega), ok_bind] at h
      obtain ⟨r1, e1, hR⟩ := reserve_ok hI l
      rw [e1, ok_bind] at h
      exact (efwu_inv_of_ok hC hR.inv h).1
    · rw [check_err (by omega), error_bind] at h; cases h
  | reserveThenUnchecked s l =>
    simp only [RingOp.apply] at h
    obtain ⟨r1, e1, hR⟩ := reserve_ok hI l
    rw [e1, ok_bind] at h
    exact (efwu_inv_of_ok hC hR.inv h).1
  | dropFirstN n =>
    simp only [RingOp.apply] at h
    exact (dropFirstN_inv_of_ok hI h).1
  | clear =>
    simp only [RingOp.apply, pure_eq_ok] at h; cases h
    exact (clear_ok hI).1

/-- inside the contract an operation returns and does what the queue does -/
theorem RingOp.apply_refines {C : Nat} (hC : 0 < C) (op : RingOp) {r : RingBuffer} {q' : List Byte}
    (hI : r.Inv) (h : op.applyQ r.abs = some q') :
    ∃ r', op.apply C r = .ok r' ∧ r'.Inv ∧ r'.abs = q' ∧ CapStep r r' op.request := by
  cases op with
  | reserve n =>
    obtain ⟨r', e, hR⟩ := reserve_ok hI n
    simp only [RingOp.applyQ, Option.some.injEq] at h
    exact ⟨r', e, hR.inv, by rw [hR.abs, h], hR.capStep⟩
  | extend d =>
    obtain ⟨r', e, hI', ha, _, hcs⟩ := extend_ok hI d
    simp only [RingOp.applyQ, Option.some.injEq] at h
    exact ⟨r', e, hI', by rw [ha, ← h]; rfl, hcs⟩
  | pushBack b =>
    obtain ⟨r', e, hI', ha, _, hcs⟩ := pushBack_ok hI b
    simp only [RingOp.applyQ, Option.some.injEq] at h
    exact ⟨r', e, hI', by rw [ha, ← h]; rfl, hcs⟩
  | extendAndFill b n =>
    obtain ⟨r', e, hI', ha, _, hcs⟩ := extendAndFill_ok hI b n
    simp only [RingOp.applyQ, Option.some.injEq] at h
    exact ⟨r', e, hI', by rw [ha, ← h]; rfl, hcs⟩
  | extendFromReader a n =>
    obtain ⟨r', ok, rest, e, hI', hs, hf, hcs⟩ := extendFromReader_ok hI a n
    simp only [RingOp.applyQ, Option.some.injEq] at h
    refine ⟨r', by simp only [RingOp.apply]; rw [e, ok_bind, pure_eq_ok], hI', ?_, hcs⟩
    by_cases hn : n ≤ a.length
    · rw [(hs hn).2.1, ← h]; simp only [hn, ↓reduceIte]; rfl
    · rw [(hf (by omega)).2, ← h]; simp only [hn, ↓reduceIte]
  | extendFromWithin s l =>
    simp only [RingOp.applyQ] at h
    split at h
    · rename_i hc
      rw [abs_length] at hc
      simp only [Option.some.injEq] at h
      obtain ⟨r', e, hI', ha, _, hcs⟩ := extendFromWithin_ok hC hI (start := s) (len := l) hc.1 hc.2
      exact ⟨r', e, hI', by rw [ha, h], hcs⟩
    · cases h
  | reserveThenUnchecked s l =>
    simp only [RingOp.applyQ] at h
    split at h
    · rename_i hc
      rw [abs_length] at hc
      simp only [Option.some.injEq] at h
      obtain ⟨r1, e1, hR⟩ := reserve_ok hI l
      have hc1 : 0 < r1.cap := hR.inv.cap_pos_of_len (by rw [hR.len]; exact hc.2)
      obtain ⟨r', e, hI', ha, _, hcap, _⟩ := efwu_ok hC hR.inv hc1 (start := s) (len := l)
        (by rw [hR.len]; exact hc.1) hR.free
      refine ⟨r', by simp only [RingOp.apply]; rw [e1, ok_bind]; exact e, hI', ?_, hR.capStep.trans_eq hcap⟩
      rw [ha, hR.abs, h]
    · cases h
  | dropFirstN n =>
    simp only [RingOp.applyQ] at h
    split at h
    · rename_i hc
      rw [abs_length] at hc
      simp only [Option.some.injEq] at h
      obtain ⟨r', e, hI', ha, _, hcap⟩ := dropFirstN_ok hI (hI.cap_pos_of_len hc.2) hc.1
      exact ⟨r', e, hI', by rw [ha, h], CapStep.of_eq hcap _⟩
    · cases h
  | clear =>
    simp only [RingOp.applyQ, Option.some.injEq] at h
    exact ⟨r.clear, rfl, (clear_ok hI).1, by rw [(clear_ok hI).2.1, ← h]; rfl, CapStep.of_eq (clear_ok hI).2.2 _⟩

theorem runRing_inv {C : Nat} (hC : 0 < C) : ∀ (ops : List RingOp) {r r' : RingBuffer},
    r.Inv → runRing C ops r = .ok r' → r'.Inv
  | [], r, r', hI, h => by simp only [runRing] at h; cases h; exact hI
  | op :: ops, r, r', hI, h => by
    simp only [runRing] at h
    split at h
    · cases h
    · rename_i r1 h1
      exact runRing_inv hC ops (op.apply_inv hC hI h1) h

theorem runRing_refines {C : Nat} (hC : 0 < C) : ∀ (ops : List RingOp) {r : RingBuffer} {q : List Byte},
    r.Inv → runQueue ops r.abs = some q →
    ∃ r', runRing C ops r = .ok r' ∧ r'.Inv ∧ r'.abs = q ∧ r'.cap ≤ max r.cap (2 * peakQueue ops r.abs + 2)
  | [], r, q, hI, h => by
    simp only [runQueue, Option.some.injEq] at h
    exact ⟨r, rfl, hI, h, by omega⟩
  | op :: ops, r, q, hI, h => by
    simp only [runQueue] at h
    split at h
    · cases h
    · rename_i q1 hq1
      obtain ⟨r1, e1, hI1, ha1, hcs⟩ := op.apply_refines hC hI hq1
      obtain ⟨r', e, hI', ha, hcap⟩ := runRing_refines hC ops (r := r1) (q := q) hI1 (by rw [ha1]; exact h)
      refine ⟨r', by simp only [runRing, e1]; exact e, hI', ha, ?_⟩
      have hl : r.abs.length = r.len := abs_length
      simp only [peakQueue, hq1]
      rw [ha1] at hcap
      have := hcs.mono; have := hcs.bound
      omega

end Zstd.Model
