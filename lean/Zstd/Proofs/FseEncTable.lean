import Zstd.Proofs.FseEncTable.Shape
/-
# The FSE encoder table and the FSE decoder table describe the same automaton

Subjects: `Zstd.Model.Fse.buildTableFromProbabilities` (`fse_encoder.rs build_table_from_probabilities`),
`Zstd.Model.Fse.buildDecodingTableCore` (`fse_decoder.rs build_decoding_table`), `ETable.nextState`
(`SymbolStates::get`), `ETable.startState`.

Hypothesis: `EncBuildable al probs` (`Defs.lean`): `5 ≤ al ≤ 9`, at most 256 symbols, every probability
`≥ -1`, mass `2^al`, and fewer than `2^al` "less than one" symbols (necessary, see the `example`s at the end).

Main results (all fully proved; axioms `propext`, `Classical.choice`, `Quot.sound`):
* `enc_table_eq_dec_table` : both builders succeed; for every cell `i` the encoder has, under the symbol of
  `dec[i]`, a state with `index = i` and the decoder's baseline / numBits (`check_tables`), and conversely
  every encoder state of `s` sits on a decoder cell of `s` with the same values; probabilities and state counts.
* `enc_next_state_total` : the `.unwrap()` of `SymbolStates::get` cannot fail;
  `enc_containing_state_unique` : the state it returns is the only one containing `idx`.
* `enc_start_state` : `start_state` succeeds and returns the first state in baseline order (baseline 0);
  `enc_states_sorted` : the states of a symbol are strictly sorted by baseline.

Structure: `Defs` (slots, walk splitting, mass), `Assign` (sorting, `encAssign` = `rfcEntry`, one symbol's
third loop), `Enc` (the three encoder loops), `DecSpread` / `DecAssign` (the three decoder loops), `Tables`
(each builder in terms of the walk list `W` of `FseFin.walk_perm`), `Shape` (`tables_shape`: the joint shape
of both tables, from which everything here follows without looking at the model again).
Both builders hand out cells with the same walk: `nextPositionEnc_eq : nextPositionEnc = nextPosition := rfl`.
-/
namespace Zstd.Proofs.FseEncTable
open Zstd Zstd.Model.Fse Zstd.Proofs.FseFin

theorem symbol_trichotomy {al : Nat} {probs : List Int} (hv : ValidDist al probs) (s : Nat) :
    probs.getD s 0 = -1 ∨ probs.getD s 0 > 0 ∨ probs.getD s 0 = 0 := by
  by_cases h : probs.getD s 0 = 0
  · exact Or.inr (Or.inr h)
  · have hmem := mem_zipIdx_of_getD h
    have hge : -1 ≤ probs.getD s 0 := by
      apply hv.2.2.2.1
      have := mem_zipIdx.1 hmem
      exact List.mem_of_getElem? this
    omega

theorem list_getD_of_lt {l : List Nat} {k : Nat} (hk : k < l.length) : l.getD k 0 = l[k] := by
  rw [List.getD_eq_getElem?_getD, List.getElem?_eq_getElem hk]; rfl

theorem mem_orderedKs {al p : Nat} (hal : al ≤ 9) (hp1 : 1 ≤ p) (hp : p ≤ 2 ^ al) {k : Nat} :
    k ∈ orderedKs p ↔ k < p := by
  rw [(orderedKs_perm (dblOf_le hal hp1 hp)).mem_iff, List.mem_range]

/-- **Theorem 1** (`check_tables` of `fse_encoder.rs`, for every valid distribution, both directions). -/
theorem enc_table_eq_dec_table {al : Nat} {probs : List Int} {maxSymbol : Nat}
    (hb : EncBuildable al probs) (hms : probs.length ≤ maxSymbol + 1) :
    ∃ et dec ctr, buildTableFromProbabilities probs al = .ok et ∧
      buildDecodingTableCore al probs.toArray maxSymbol = .ok (dec, ctr) ∧
      et.tableSize = 2 ^ al ∧ et.states.size = 256 ∧ dec.size = 2 ^ al ∧
      (∀ i, i < 2 ^ al → ∃ st ∈ (et.states.getD (dec.getD i {}).symbol {}).states.toList,
          st.index = i ∧ st.baseline = (dec.getD i {}).baseLine ∧ st.numBits = (dec.getD i {}).numBits ∧
          st.lastIndex = st.baseline + 2 ^ st.numBits - 1) ∧
      (∀ s, ∀ st ∈ (et.states.getD s {}).states.toList,
          st.index < 2 ^ al ∧ (dec.getD st.index {}).symbol = s ∧
          st.baseline = (dec.getD st.index {}).baseLine ∧ st.numBits = (dec.getD st.index {}).numBits ∧
          st.lastIndex = st.baseline + 2 ^ st.numBits - 1) ∧
      (∀ s, (et.states.getD s {}).probability = probs.getD s 0) ∧
      (∀ s, (et.states.getD s {}).states.size
          = if probs.getD s 0 = -1 then 1 else (probs.getD s 0).toNat) := by
  have hv := hb.1
  have hal := hv.2.1
  obtain ⟨et, dec, ctr, cells, het, hdec, hts, hsz, hdsz, hneg, hpos, hzero, hcover⟩ := tables_shape hb hms
  refine ⟨et, dec, ctr, het, hdec, hts, hsz, hdsz, ?_, ?_, ?_, ?_⟩
  · intro i hi
    obtain ⟨hne, hmem⟩ := hcover i hi
    unfold symOf at hne hmem
    generalize (dec.getD i {}).symbol = s at hne hmem ⊢
    rcases symbol_trichotomy hv s with h | h | h
    · obtain ⟨c, hc, hcells, hest, hdc⟩ := hneg s h
      rw [hcells, List.mem_singleton] at hmem
      subst hmem
      refine ⟨negState al i, by rw [hest]; simp, rfl, ?_, ?_, ?_⟩
      · rw [hdc]; rfl
      · rw [hdc]; rfl
      · simp only [negState, Nat.one_shiftLeft]; omega
    · obtain ⟨hple, hlen, hnd, hest, hcell⟩ := hpos s h
      obtain ⟨k, hk, rfl⟩ := List.getElem_of_mem hmem
      have hkp : k < (probs.getD s 0).toNat := by omega
      refine ⟨stateOf al (probs.getD s 0).toNat k (cells s)[k], ?_, rfl, ?_, ?_, ?_⟩
      · rw [hest]
        simp only [List.mem_map]
        refine ⟨k, (mem_orderedKs hal (by omega) hple).2 hkp, ?_⟩
        rw [list_getD_of_lt hk]
      · rw [(hcell k hk).2]; rfl
      · rw [(hcell k hk).2]; rfl
      · simp only [stateOf]
        have := Nat.two_pow_pos (rfcEntry al (probs.getD s 0).toNat k).2
        omega
    · exact absurd h hne
  · intro s st hst
    rcases symbol_trichotomy hv s with h | h | h
    · obtain ⟨c, hc, hcells, hest, hdc⟩ := hneg s h
      rw [hest] at hst
      simp only [List.mem_singleton] at hst
      subst hst
      simp only [negState, hdc, Nat.one_shiftLeft]
      exact ⟨hc, trivial, trivial, trivial, by omega⟩
    · obtain ⟨hple, hlen, hnd, hest, hcell⟩ := hpos s h
      rw [hest] at hst
      simp only [List.mem_map] at hst
      obtain ⟨k, hk, rfl⟩ := hst
      have hkp := (mem_orderedKs hal (by omega) hple).1 hk
      have hk' : k < (cells s).length := by omega
      rw [list_getD_of_lt hk']
      simp only [stateOf, (hcell k hk').2]
      have := Nat.two_pow_pos (rfcEntry al (probs.getD s 0).toNat k).2
      exact ⟨(hcell k hk').1, trivial, trivial, trivial, by omega⟩
    · rw [hzero s h] at hst
      simp at hst
  · intro s
    rcases symbol_trichotomy hv s with h | h | h
    · obtain ⟨c, hc, hcells, hest, hdc⟩ := hneg s h
      rw [hest, h]
    · rw [(hpos s h).2.2.2.1]
    · rw [hzero s h, h]
  · intro s
    rcases symbol_trichotomy hv s with h | h | h
    · obtain ⟨c, hc, hcells, hest, hdc⟩ := hneg s h
      rw [hest, if_pos h]; rfl
    · obtain ⟨hple, hlen, hnd, hest, hcell⟩ := hpos s h
      rw [hest, if_neg (by omega)]
      simp only [List.size_toArray, List.length_map]
      exact orderedKs_length (dblOf_le hal (by omega) hple)
    · rw [hzero s h, h]; rfl

/-! ### using the table -/

theorem sym_lt_of_getD_ne {al : Nat} {probs : List Int} (hv : ValidDist al probs) {s : Nat}
    (h : probs.getD s 0 ≠ 0) : s < 256 :=
  sym_lt_256 hv _ (mem_zipIdx_of_getD h)

/-- the linear search of `SymbolStates::get` succeeds if some state at or after the search start contains `idx` -/
theorem get_total {ss : SymbolStates} {idx maxIdx j : Nat} {st : EState} (hmax : maxIdx ≠ 0)
    (hst : ss.states.toList[j]? = some st) (hc : st.contains idx = true)
    (hstart : idx * ss.states.size / maxIdx ≤ j) :
    ∃ st', ss.get idx maxIdx = .ok st' ∧ st'.contains idx = true ∧ st' ∈ ss.states.toList := by
  unfold SymbolStates.get
  obtain ⟨hj, hjst⟩ := List.getElem?_eq_some_iff.1 hst
  have hj' : j < ss.states.size := by simpa using hj
  rw [if_neg hmax]
  simp only
  rw [if_neg (by omega)]
  have hmem : st ∈ ss.states.toList.drop (idx * ss.states.size / maxIdx) := by
    rw [List.mem_drop_iff_getElem]
    refine ⟨j - idx * ss.states.size / maxIdx, by omega, ?_⟩
    rw [← hjst]
    congr 1
    omega
  cases hf : (ss.states.toList.drop (idx * ss.states.size / maxIdx)).find? (·.contains idx) with
  | none =>
    rw [List.find?_eq_none] at hf
    exact absurd hc (hf st hmem)
  | some st' =>
    have h3 := List.find?_some hf
    exact ⟨st', rfl, h3, List.mem_of_mem_drop (List.mem_of_find?_eq_some hf)⟩

theorem stateOf_contains {al p k c x : Nat} (h1 : (interval al p k).1 ≤ x)
    (h2 : x < (interval al p k).1 + (interval al p k).2) : (stateOf al p k c).contains x = true := by
  simp only [interval] at h1 h2
  have hb : (stateOf al p k c).baseline = (rfcEntry al p k).1 := rfl
  have hl : (stateOf al p k c).lastIndex = (rfcEntry al p k).1 + (2 ^ (rfcEntry al p k).2 - 1) := rfl
  unfold EState.contains
  rw [decide_eq_true_eq, hb, hl]
  omega

/-- **Theorem 2**: the `.unwrap()` in `SymbolStates::get` (called by `next_state`) cannot fail. -/
theorem enc_next_state_total {al : Nat} {probs : List Int} (hb : EncBuildable al probs) {et : ETable}
    (het : buildTableFromProbabilities probs al = .ok et) {s idx : Nat}
    (hs : probs.getD s 0 ≠ 0) (hidx : idx < 2 ^ al) :
    ∃ st, et.nextState s idx = .ok st ∧ st.contains idx = true ∧
      st ∈ (et.states.getD s {}).states.toList := by
  have hv := hb.1
  have hal := hv.2.1
  obtain ⟨et', dec, ctr, cells, het', hdec, hts, hsz, hdsz, hneg, hpos, hzero, hcover⟩ :=
    tables_shape (maxSymbol := probs.length) hb (by omega)
  rw [het] at het'
  cases Except.ok.inj het'
  have hs256 := sym_lt_of_getD_ne hv hs
  unfold ETable.nextState
  rw [getElem?_eq_some_getD (by omega) ({} : SymbolStates)]
  simp only [hts]
  have hmax : 2 ^ al ≠ 0 := Nat.ne_of_gt (Nat.two_pow_pos al)
  rcases symbol_trichotomy hv s with h | h | h
  · obtain ⟨c, hc, hcells, hest, hdc⟩ := hneg s h
    apply get_total (j := 0) (st := negState al c) hmax
    · rw [hest]; rfl
    · simp only [EState.contains, negState, Nat.one_shiftLeft, decide_eq_true_eq]; omega
    · rw [hest]
      simp only [List.size_toArray, List.length_cons, List.length_nil, Nat.zero_add, Nat.mul_one]
      rw [Nat.div_eq_of_lt hidx]; exact Nat.le_refl _
  · obtain ⟨hple, hlen, hnd, hest, hcell⟩ := hpos s h
    generalize hp : (probs.getD s 0).toNat = p at *
    have hp1 : 1 ≤ p := by omega
    have hd := dblOf_le hal hp1 hple
    obtain ⟨k, hk, hk1, hk2⟩ := interval_cover hal hp1 hple hidx
    have hstart := search_start_le hal hp1 hple hk hk1 hk2
    obtain ⟨hpos', hget⟩ := orderedKs_getElem hd hk
    apply get_total (j := posOf p k) (st := stateOf al p k ((cells s).getD k 0)) hmax
    · rw [hest]
      simp only [List.getElem?_map, List.getElem?_eq_getElem hpos', hget, Option.map_some]
    · exact stateOf_contains hk1 hk2
    · rw [hest]
      simp only [List.size_toArray, List.length_map, orderedKs_length hd]
      exact hstart
  · exact absurd h hs

theorem stateOf_contains_iff {al p k c x : Nat} : (stateOf al p k c).contains x = true ↔
    ((interval al p k).1 ≤ x ∧ x < (interval al p k).1 + (interval al p k).2) := by
  have hb : (stateOf al p k c).baseline = (rfcEntry al p k).1 := rfl
  have hl : (stateOf al p k c).lastIndex = (rfcEntry al p k).1 + (2 ^ (rfcEntry al p k).2 - 1) := rfl
  have := Nat.two_pow_pos (rfcEntry al p k).2
  unfold EState.contains
  rw [decide_eq_true_eq, hb, hl]
  simp only [interval]
  omega

/-- the state found by `next_state` is the only state of the symbol that contains `idx` -/
theorem enc_containing_state_unique {al : Nat} {probs : List Int} (hb : EncBuildable al probs) {et : ETable}
    (het : buildTableFromProbabilities probs al = .ok et) {s idx : Nat} {st st' : EState}
    (h1 : st ∈ (et.states.getD s {}).states.toList) (h2 : st' ∈ (et.states.getD s {}).states.toList)
    (c1 : st.contains idx = true) (c2 : st'.contains idx = true) : st = st' := by
  have hv := hb.1
  have hal := hv.2.1
  obtain ⟨et', dec, ctr, cells, het', hdec, hts, hsz, hdsz, hneg, hpos, hzero, hcover⟩ :=
    tables_shape (maxSymbol := probs.length) hb (by omega)
  rw [het] at het'
  cases Except.ok.inj het'
  rcases symbol_trichotomy hv s with h | h | h
  · obtain ⟨c, hc, hcells, hest, hdc⟩ := hneg s h
    rw [hest] at h1 h2
    simp only [List.mem_singleton] at h1 h2
    rw [h1, h2]
  · obtain ⟨hple, hlen, hnd, hest, hcell⟩ := hpos s h
    generalize hp : (probs.getD s 0).toNat = p at *
    have hp1 : 1 ≤ p := by omega
    rw [hest] at h1 h2
    simp only [List.mem_map] at h1 h2
    obtain ⟨k, hk, rfl⟩ := h1
    obtain ⟨k', hk', rfl⟩ := h2
    have hkp := (mem_orderedKs hal hp1 hple).1 hk
    have hkp' := (mem_orderedKs hal hp1 hple).1 hk'
    by_cases hkk : k = k'
    · subst hkk; rfl
    · have hd := interval_disjoint hal hp1 hple hkp hkp' hkk
      rw [stateOf_contains_iff] at c1 c2
      omega
  · rw [hzero s h] at h1
    simp at h1

/-- the states of a symbol are stored in strictly increasing baseline order -/
theorem enc_states_sorted {al : Nat} {probs : List Int} (hb : EncBuildable al probs) {et : ETable}
    (het : buildTableFromProbabilities probs al = .ok et) (s : Nat) :
    (et.states.getD s {}).states.toList.Pairwise (fun a b => a.baseline < b.baseline) := by
  have hv := hb.1
  have hal := hv.2.1
  obtain ⟨et', dec, ctr, cells, het', hdec, hts, hsz, hdsz, hneg, hpos, hzero, hcover⟩ :=
    tables_shape (maxSymbol := probs.length) hb (by omega)
  rw [het] at het'
  cases Except.ok.inj het'
  rcases symbol_trichotomy hv s with h | h | h
  · obtain ⟨c, hc, hcells, hest, hdc⟩ := hneg s h
    rw [hest]; simp
  · obtain ⟨hple, hlen, hnd, hest, hcell⟩ := hpos s h
    rw [hest]
    simp only [List.pairwise_map, stateOf]
    exact orderedKs_strict hal (by omega) hple
  · rw [hzero s h]; simp

/-- **Theorem 3**: `start_state` succeeds for every symbol of the distribution and returns the first state in
baseline order, whose baseline is 0. -/
theorem enc_start_state {al : Nat} {probs : List Int} (hb : EncBuildable al probs) {et : ETable}
    (het : buildTableFromProbabilities probs al = .ok et) {s : Nat} (hs : probs.getD s 0 ≠ 0) :
    ∃ st, et.startState s = .ok st ∧ (et.states.getD s {}).states.toList.head? = some st ∧
      st.baseline = 0 ∧ ∀ st' ∈ (et.states.getD s {}).states.toList, st.baseline ≤ st'.baseline := by
  have hv := hb.1
  have hal := hv.2.1
  obtain ⟨et', dec, ctr, cells, het', hdec, hts, hsz, hdsz, hneg, hpos, hzero, hcover⟩ :=
    tables_shape (maxSymbol := probs.length) hb (by omega)
  rw [het] at het'
  cases Except.ok.inj het'
  have hs256 := sym_lt_of_getD_ne hv hs
  unfold ETable.startState
  rw [getElem?_eq_some_getD (by omega) ({} : SymbolStates)]
  simp only
  rcases symbol_trichotomy hv s with h | h | h
  · obtain ⟨c, hc, hcells, hest, hdc⟩ := hneg s h
    rw [hest]
    exact ⟨negState al c, rfl, rfl, rfl, fun st' _ => Nat.zero_le _⟩
  · obtain ⟨hple, hlen, hnd, hest, hcell⟩ := hpos s h
    generalize hp : (probs.getD s 0).toNat = p at *
    have hp1 : 1 ≤ p := by omega
    have hd := dblOf_le hal hp1 hple
    have hlenK := orderedKs_length hd
    have htiles := tiles hal hp1 hple
    rw [hest]
    cases hks : orderedKs p with
    | nil => rw [hks] at hlenK; simp at hlenK; omega
    | cons k0 rest =>
      rw [hks] at htiles
      simp only [List.map_cons, tilesFrom] at htiles
      have hb0 : (stateOf al p k0 ((cells s).getD k0 0)).baseline = 0 := by
        have := htiles.1
        simp only [interval] at this
        simp only [stateOf]; exact this
      refine ⟨stateOf al p k0 ((cells s).getD k0 0), by simp, by simp, hb0, ?_⟩
      intro st' _
      rw [hb0]; exact Nat.zero_le _
  · exact absurd h hs

/-! ### the predefined distributions are buildable, so all of the above applies to the default tables -/

instance (al : Nat) (probs : List Int) : Decidable (ValidDist al probs) := by unfold ValidDist; infer_instance
instance (al : Nat) (probs : List Int) : Decidable (EncBuildable al probs) := by unfold EncBuildable; infer_instance

theorem ll_default_buildable : EncBuildable Gen.llDefaultLogEnc Gen.llDistEnc := by decide
theorem ml_default_buildable : EncBuildable Gen.mlDefaultLogEnc Gen.mlDistEnc := by decide
theorem of_default_buildable : EncBuildable Gen.ofDefaultLogEnc Gen.ofDistEnc := by decide

/-! ### `EncBuildable` is necessary: a distribution of `2^al` "less than one" symbols is a `ValidDist`
that the decoder accepts and on which the encoder-side builder panics (`negative_idx -= 1` underflows) -/

example : ValidDist 5 (List.replicate 32 (-1)) := by
  refine ⟨by decide, by decide, by decide, ?_, by decide⟩
  intro p hp
  rw [List.mem_replicate] at hp
  omega

example : buildTableFromProbabilities (List.replicate 32 (-1)) 5
    = .error (.overflow "fse_encoder.rs:334:build_table_from_probabilities") := by decide +kernel

example : (match buildDecodingTableCore 5 (List.replicate 32 (-1)).toArray 255 with
    | .ok _ => true | .error _ => false) = true := by decide +kernel

end Zstd.Proofs.FseEncTable
