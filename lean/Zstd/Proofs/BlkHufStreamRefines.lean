import Zstd.Proofs.HufStream
import Zstd.Proofs.BlkHufStream
import Zstd.Spec.Huffman
/-
C01, refinement Spec ⇒ Model for ONE Huffman literal stream: whenever the RFC-level decoder
`Spec.Huffman.decodeStream T stream n` regenerates `out`, the model of `decompress_literals`' stream
loop (`Huf.decodeOneStream`) on a decoder table with the same cells pushes exactly `out` (in order,
onto `outRev`), for both stream variants (`check` = the 4-stream variant with the final
`bits_remaining == -max_num_bits` test).

  (a) bit views       `valBE_eq_spec`, `bitsBE8_eq`, `revBits_eq_spec`, `readBEPad_fst`
  (b) padding         `marker_split`, `revBits_of_backwardStream`, `skipPadding_of_backwardStream`
  (c) cells, one step `cells_size`, `cells_get`, `step_win_spec`, `decodeSymbols_succ`
  (d) loop, stream    `decodeLoop_refines`, `decodeOneStream_refines`
-/
namespace Zstd.Proofs.Blk
open Zstd Zstd.Model Zstd.Model.Huf Zstd.Model.Huf.Bits
open Zstd.Proofs.Huf (padVal padVal_lt padVal_shift getBits_spec ReaderOk Win initState_win skipPadding_spec)

/-! ### (a) the two bit vocabularies -/

theorem valBE_eq_foldl (l : List Bool) (acc : Nat) :
    valBE l acc = l.foldl (fun acc b => 2 * acc + (if b then 1 else 0)) acc := by
  induction l generalizing acc with
  | nil => rfl
  | cons b bs ih => simp only [valBE, List.foldl_cons]; exact ih _

theorem valBE_eq_spec (l : List Bool) : valBE l 0 = Spec.valBE l := valBE_eq_foldl l 0

theorem beq_one_eq_decide (x : Nat) : (x == 1) = decide (x = 1) := by
  cases h : x == 1 <;> simp_all

theorem bitsBE8_eq (b : Nat) : bitsBE 8 b = (Spec.byteBitsLE b).reverse := by
  simp [bitsBE, Spec.byteBitsLE, beq_one_eq_decide]

theorem revBitsAux_eq_spec (bytes : List Nat) (acc : List Bool) :
    revBitsAux bytes acc = (Spec.bitsLE bytes).reverse ++ acc := by
  induction bytes generalizing acc with
  | nil => rfl
  | cons b bs ih =>
    rw [revBitsAux, ih, Spec.bitsLE, List.reverse_append, bitsBE8_eq, List.append_assoc]

/-- the reversed reader of the Huffman model sees the RFC's bits, last one first -/
theorem revBits_eq_spec (bytes : List Nat) : revBits bytes = (Spec.bitsLE bytes).reverse := by
  unfold revBits; rw [revBitsAux_eq_spec, List.append_nil]

/-- the RFC's zero-padded peek is the model's window value -/
theorem readBEPad_fst (n : Nat) (X : List Bool) : (Spec.readBEPad n X).1 = padVal n X := by
  rw [BitIO.readBEPad_def]
  unfold padVal
  by_cases h : X.length < n
  · rw [if_pos h, List.take_of_length_le (by omega), valBE_eq_spec]
  · rw [if_neg h, valBE_eq_spec]
    have e : n - X.length = 0 := by omega
    rw [e, Nat.pow_zero, Nat.mul_one]

/-! ### (b) padding and marker -/

/-- a bit list with a `true` at position `j` is `k ≤ j` zero bits, the marker, and what
`Spec.backwardStream` keeps -/
theorem marker_split : ∀ (L : List Bool) (j : Nat), L[j]? = some true →
    ∃ k, k ≤ j ∧ L = List.replicate k false ++ true :: (L.dropWhile (fun b => !b)).drop 1
  | [], _, h => by simp at h
  | true :: L, j, _ => ⟨0, by omega, by simp⟩
  | false :: L, 0, h => by simp at h
  | false :: L, j + 1, h => by
    obtain ⟨k, hk, e⟩ := marker_split L j (by simpa using h)
    refine ⟨k + 1, by omega, ?_⟩
    simp only [List.replicate_succ, List.cons_append, List.dropWhile_cons, Bool.not_false, if_true]
    exact congrArg _ e

theorem dropWhile_append_of_split (k : Nat) (S B : List Bool) :
    ((List.replicate k false ++ true :: S) ++ B).dropWhile (fun b => !b) = true :: (S ++ B) := by
  induction k with
  | zero => simp
  | succ k _ => simp [List.replicate_succ]

/-- `Spec.backwardStream` succeeds: the reversed bits are `k ≤ 7` zero bits, the marker, the payload -/
theorem revBits_of_backwardStream {stream : List Nat} (hbytes : BitIO.Bytes stream) {bits : List Bool}
    (h : Spec.backwardStream stream = some bits) :
    ∃ k, k ≤ 7 ∧ revBits stream = List.replicate k false ++ true :: bits := by
  unfold Spec.backwardStream at h
  cases hl : stream.getLast? with
  | none => rw [hl] at h; cases h
  | some last =>
    rw [hl] at h
    simp only at h
    by_cases hz : last = 0
    · rw [if_pos hz] at h; cases h
    · rw [if_neg hz] at h
      simp only [Option.some.injEq] at h
      obtain ⟨ys, hys⟩ := List.getLast?_eq_some_iff.1 hl
      have hl256 : last < 256 := hbytes last (by rw [hys]; simp)
      obtain ⟨j, hj, hget⟩ := BitIO.last_byte_has_marker last hl256 hz
      obtain ⟨k, hk, hsplit⟩ := marker_split _ j hget
      have hrev : (Spec.bitsLE stream).reverse = (Spec.byteBitsLE last).reverse ++ (Spec.bitsLE ys).reverse := by
        rw [hys, BitIO.bitsLE_append, Spec.bitsLE, Spec.bitsLE, List.append_nil, List.reverse_append]
      refine ⟨k, by omega, ?_⟩
      rw [revBits_eq_spec, ← h, hrev]
      generalize (Spec.byteBitsLE last).reverse = L at hsplit ⊢
      generalize (L.dropWhile (fun b => !b)).drop 1 = S at hsplit
      subst hsplit
      rw [dropWhile_append_of_split]
      simp

/-- the padding loop of the model lands exactly on `Spec.backwardStream`, having skipped at most 8 bits -/
theorem skipPadding_of_backwardStream {stream : List Nat} (hbytes : BitIO.Bytes stream) {bits : List Bool}
    (h : Spec.backwardStream stream = some bits) :
    ∃ k, k ≤ 7 ∧ skipPadding 9 0 (RevReader.new stream) = (k + 1, { bits := bits, left := bits.length, over := 0 }) ∧
      bits.length + k + 1 = 8 * stream.length := by
  obtain ⟨k, hk, hrev⟩ := revBits_of_backwardStream hbytes h
  have hlen : (revBits stream).length = 8 * stream.length := by
    unfold revBits; rw [revBitsAux_length]; simp
  have hnew : RevReader.new stream
      = { bits := List.replicate k false ++ true :: bits,
          left := (List.replicate k false ++ true :: bits).length, over := 0 } := by
    unfold RevReader.new
    rw [← hrev, hlen]
  refine ⟨k, hk, ?_, ?_⟩
  · rw [hnew, skipPadding_spec bits k 9 0 (by omega) (by omega), Nat.zero_add]
  · rw [hrev] at hlen
    simp only [List.length_append, List.length_replicate, List.length_cons] at hlen
    omega

/-! ### (c) cells and one decoding step -/

section
variable {t : Huf.DecTable} {T : Spec.Huffman.Table}

theorem cells_size
    (hcells : t.decode.toList.map (fun e => (e.symbol, e.numBits)) = T.entries.toList.map (fun e => (e.symbol, e.nbBits))) :
    t.decode.size = T.entries.size := by
  have := congrArg List.length hcells
  simpa using this

theorem cells_get
    (hcells : t.decode.toList.map (fun e => (e.symbol, e.numBits)) = T.entries.toList.map (fun e => (e.symbol, e.nbBits)))
    {i : Nat} {e : Spec.Huffman.Entry} (h : T.entries[i]? = some e) :
    t.decode[i]? = some { symbol := e.symbol, numBits := e.nbBits } := by
  have h1 := congrArg (fun l => l[i]?) hcells
  simp only [List.getElem?_map, Array.getElem?_toList, h, Option.map_some] at h1
  cases hd : t.decode[i]? with
  | none => rw [hd] at h1; cases h1
  | some e' =>
    rw [hd] at h1
    simp only [Option.map_some, Option.some.injEq, Prod.mk.injEq] at h1
    obtain ⟨s, nb⟩ := e'
    simp only at h1
    rw [h1.1, h1.2]

/-- one symbol against a table cell: if the state is the window over `R` and the cell under it is
`(sym, nb)` with `1 ≤ nb ≤ m` and `nb ≤ |R|`, then `decode_symbol` gives `sym` and `next_state` moves
the window `nb` bits on -/
theorem step_win_cell {m : Nat} (hm : t.maxNumBits = m) (hsize : t.decode.size = 2 ^ m) (hm11 : m ≤ 11)
    {state sym nb : Nat} (hcell : t.decode[state]? = some { symbol := sym, numBits := nb })
    (hnbm : nb ≤ m) {R : List Bool} (hR : nb ≤ R.length) {r : RevReader} (w : Win m R state r) :
    decodeSymbol t state = .ok sym ∧
      ∃ state' r', nextState t state r = .ok (state', r') ∧ Win m (R.drop nb) state' r' := by
  have hentry : entryAt t state = .ok { symbol := sym, numBits := nb } := by
    unfold entryAt; rw [hcell]
  refine ⟨by unfold decodeSymbol; rw [hentry], ?_⟩
  have hrok : ReaderOk r := by unfold ReaderOk; rw [w.left, w.bits]
  unfold nextState
  rw [hentry]
  simp only
  rw [if_neg (by omega), getBits_spec r hrok nb]
  refine ⟨_, _, rfl, ?_⟩
  have hbits : r.bits = R.drop m := w.bits
  refine ⟨?_, ?_, ?_, ?_⟩
  · -- the new state value
    have hA := padVal_lt nb R
    have hq := padVal_lt (m - nb) (R.drop nb)
    have hst : state = padVal nb R * 2 ^ (m - nb) + padVal (m - nb) (R.drop nb) := by
      have := padVal_shift m (m - nb) R (by omega)
      rw [show m - (m - nb) = nb by omega] at this
      rw [w.st, this]
    rw [hsize, Nat.shiftLeft_eq, Nat.and_two_pow_sub_one_eq_mod,
      Nat.mod_mod_of_dvd _ (Nat.pow_dvd_pow 2 (by omega : m ≤ 64))]
    have hpow : 2 ^ m = 2 ^ (m - nb) * 2 ^ nb := by rw [← Nat.pow_add]; congr 1; omega
    have hx : state * 2 ^ nb % 2 ^ m = padVal (m - nb) (R.drop nb) * 2 ^ nb := by
      rw [hst, Nat.add_mul, Nat.mul_assoc, ← hpow, Nat.add_comm, Nat.add_mul_mod_self_right]
      apply Nat.mod_eq_of_lt
      rw [hpow]; exact Nat.mul_lt_mul_of_pos_right hq (Nat.two_pow_pos nb)
    rw [hx, hbits, ← Nat.shiftLeft_eq, ← Nat.shiftLeft_add_eq_or_of_lt (padVal_lt nb _), Nat.shiftLeft_eq]
    have := padVal_shift m nb (R.drop nb) hnbm
    rw [List.drop_drop, show nb + (m - nb) = m by omega] at this
    exact this.symm
  · simp only; rw [hbits, List.drop_drop, List.drop_drop]; congr 1; omega
  · simp only; rw [hbits, List.drop_drop, List.drop_drop]; congr 2; omega
  · simp only; rw [w.over, hbits, List.length_drop, List.length_drop]; omega

/-- inversion of one round of the RFC-level symbol loop -/
theorem decodeSymbols_succ {n : Nat} {R : List Bool} {acc out : List Nat}
    (h : Spec.Huffman.decodeSymbols T (n + 1) R acc = some out) :
    ∃ e, T.entries[padVal T.maxBits R]? = some e ∧ 1 ≤ e.nbBits ∧ e.nbBits ≤ R.length ∧
      Spec.Huffman.decodeSymbols T n (R.drop e.nbBits) (e.symbol :: acc) = some out := by
  rw [Spec.Huffman.decodeSymbols] at h
  rw [← readBEPad_fst]
  generalize Spec.readBEPad T.maxBits R = q at h ⊢
  obtain ⟨idx, rest, miss⟩ := q
  simp only at h ⊢
  cases he : T.entries[idx]? with
  | none => rw [he] at h; cases h
  | some e =>
    rw [he] at h
    simp only at h
    by_cases hc : e.nbBits = 0 ∨ (R.take e.nbBits).length < e.nbBits
    · rw [if_pos hc] at h; cases h
    · rw [if_neg hc] at h
      rw [List.length_take] at hc
      exact ⟨e, rfl, by omega, by omega, h⟩

/-! ### (d) the loop and the stream -/

/-- The symbol loop.  `R.length ≤ fuel` is enough fuel because every round consumes at least one bit. -/
theorem decodeLoop_refines (hb : HufBuilt t) (hm : t.maxNumBits = T.maxBits)
    (hcells : t.decode.toList.map (fun e => (e.symbol, e.numBits)) = T.entries.toList.map (fun e => (e.symbol, e.nbBits))) :
    ∀ (n : Nat) (R : List Bool) (acc out : List Nat) (fuel state : Nat) (r : RevReader) (outRev : List Nat),
      Spec.Huffman.decodeSymbols T n R acc = some out → R.length ≤ fuel → Win T.maxBits R state r →
      ∃ syms r', out = acc.reverse ++ syms ∧ syms.length = n ∧
        decodeLoop t fuel state r outRev = .ok (r', syms.reverse ++ outRev) ∧
        r'.bitsRemaining = -(T.maxBits : Int)
  | 0, R, acc, out, fuel, state, r, outRev, hs, _, w => by
    rw [Spec.Huffman.decodeSymbols] at hs
    by_cases hR : R.isEmpty
    · rw [if_pos hR] at hs
      simp only [Option.some.injEq] at hs
      have hnil : R = [] := List.isEmpty_iff.1 hR
      subst hnil
      have hrem := w.remaining
      simp only [List.length_nil] at hrem
      refine ⟨[], r, by simp [hs], rfl, ?_, by rw [hrem]; omega⟩
      cases fuel with
      | zero => simp only [decodeLoop, hm]; rw [if_neg (by rw [hrem]; omega)]; simp
      | succ fuel => simp only [decodeLoop, hm]; rw [if_neg (by rw [hrem]; omega)]; simp
    · rw [if_neg hR] at hs; cases hs
  | n + 1, R, acc, out, fuel, state, r, outRev, hs, hfuel, w => by
    obtain ⟨e, hent, hnb1, hnbR, hrest⟩ := decodeSymbols_succ hs
    have hcell := cells_get hcells hent
    have hmem : ({ symbol := e.symbol, numBits := e.nbBits } : Huf.Entry) ∈ t.decode.toList := by
      rw [← w.st] at hcell
      obtain ⟨hlt, hval⟩ := Array.getElem?_eq_some_iff.1 hcell
      rw [← hval]; exact Array.getElem_mem_toList hlt
    have hnbm : e.nbBits ≤ T.maxBits := by have := (hb.entries _ hmem).2; rw [hm] at this; exact this
    have hsize : t.decode.size = 2 ^ T.maxBits := by rw [hb.size, hm]
    have hm11 : T.maxBits ≤ 11 := by have := hb.le; omega
    rw [← w.st] at hcell
    obtain ⟨hsym, state', r', hnext, w'⟩ := step_win_cell hm hsize hm11 hcell hnbm hnbR w
    cases fuel with
    | zero => omega
    | succ fuel =>
      have hrem := w.remaining
      obtain ⟨syms, r'', hout, hlen, hloop, hend⟩ :=
        decodeLoop_refines hb hm hcells n (R.drop e.nbBits) (e.symbol :: acc) out fuel state' r'
          (e.symbol :: outRev) hrest (by rw [List.length_drop]; omega) w'
      refine ⟨e.symbol :: syms, r'', by rw [hout]; simp, by simp [hlen], ?_, hend⟩
      simp only [decodeLoop, hm]
      rw [if_pos (by rw [hrem]; omega), hsym]
      simp only [hnext, hloop]
      simp

/-- **C01, one Huffman stream, Spec ⇒ Model.**  If the RFC-level decoder regenerates `out` from
`stream` with table `T`, the model of the stream loop on a built decoder table with the same cells
returns `out` pushed onto `outRev`, whatever the stream variant, and `out` has the requested length. -/
theorem decodeOneStream_refines {t : Huf.DecTable} {T : Spec.Huffman.Table} (hb : HufBuilt t)
    (hm : t.maxNumBits = T.maxBits)
    (hcells : t.decode.toList.map (fun e => (e.symbol, e.numBits)) = T.entries.toList.map (fun e => (e.symbol, e.nbBits)))
    {stream : List Nat} (hbytes : Zstd.Proofs.BitIO.Bytes stream) {n : Nat} {out : List Nat}
    (hs : Spec.Huffman.decodeStream T stream n = some out) (check : Bool) (outRev : List Nat) :
    Huf.decodeOneStream t stream check outRev = .ok (out.reverse ++ outRev) ∧ out.length = n := by
  unfold Spec.Huffman.decodeStream at hs
  cases hbs : Spec.backwardStream stream with
  | none => rw [hbs] at hs; cases hs
  | some bits =>
    rw [hbs] at hs
    simp only at hs
    obtain ⟨k, hk, hskip, hlen⟩ := skipPadding_of_backwardStream hbytes hbs
    have w := initState_win t T.maxBits hm bits
    obtain ⟨syms, r', hout, hsl, hloop, hend⟩ := decodeLoop_refines hb hm hcells n bits [] out
      (8 * stream.length + t.maxNumBits + 1)
      (initState t { bits := bits, left := bits.length, over := 0 }).1
      (initState t { bits := bits, left := bits.length, over := 0 }).2 outRev hs (by omega) w
    simp only [List.reverse_nil, List.nil_append] at hout
    subst hout
    refine ⟨?_, hsl⟩
    unfold decodeOneStream
    simp only [hskip]
    rw [if_neg (by simp only [Gen.hufMaxSkip]; omega)]
    simp only [hloop]
    rw [if_neg (by rw [hend, hm]; simp)]

end

/-- non-vacuity: a 1-bit code, the stream `0b00000101` (marker, then the codes `0`, `1`) -/
example :
    Huf.decodeOneStream { decode := #[⟨0, 1⟩, ⟨1, 1⟩], weights := [], maxNumBits := 1, bits := [] } [5] true [7]
      = .ok ([0, 1].reverse ++ [7]) ∧ [0, 1].length = 2 :=
  decodeOneStream_refines (T := { maxBits := 1, entries := #[⟨0, 1⟩, ⟨1, 1⟩] })
    ⟨by decide, by decide, by decide, by decide⟩ rfl (by decide) (by simp [BitIO.Bytes]) (by decide) true [7]

end Zstd.Proofs.Blk
