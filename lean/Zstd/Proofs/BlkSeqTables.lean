import Zstd.Proofs.BlkCoupled
import Zstd.Proofs.BlkFseSpec
import Zstd.Proofs.BlkFse
import Zstd.Proofs.FseReadDesc
/-
C01, block level, the three symbol tables of a sequences section: whenever the Spec's
`readSeqTable` accepts (predefined / RLE / FSE description / repeat), the model's `updateOne`
(one arm of `maybe_update_fse_tables`) succeeds with the same byte count and leaves a channel that
is coupled (`ChanCoupled`) with the Spec's table; `maybeUpdateFseTables_refines` chains the three
arms over `rest`, `rest.drop u1`, `rest.drop (u1 + u2)`.
-/
namespace Zstd.Proofs.Blk
open Zstd Zstd.Model Zstd.Model.Fse Zstd.Model.Blk Zstd.Proofs.BitIO
open Zstd.Proofs.FseDecTable (ValidDist toSpecEntry)

/-- `SequencesHeader` compression-mode bits: the map of the source is the identity on `0..3` -/
theorem modeOf_eq : ∀ k, k < 4 → modeOf k = k := by decide

/-! ## building from a valid distribution, with the Spec's table -/

/-- `build_from_probabilities` on a valid distribution that fits the alphabet: built, and the table is
the one `Spec.Fse.buildTable` builds -/
theorem buildFromProbabilities_spec (t : DTable) {al : Nat} {probs : List Int} (maxLog : Nat)
    (hv : ValidDist al probs) (hms : probs.length ≤ t.maxSymbol + 1) (hle : al ≤ maxLog) :
    ∃ t', t.buildFromProbabilities al probs = (t', .ok ()) ∧ FseBuilt maxLog t' ∧
      t'.maxSymbol = t.maxSymbol ∧ Spec.Fse.buildTable al probs = some (specOf t') := by
  obtain ⟨dec, ctr, hb, hspec, hsz, hent⟩ := buildCore_ok hv hms
  have h5 : 5 ≤ al := hv.1
  refine ⟨{ t with probs := probs.toArray, accuracyLog := al, decode := dec, symbolCounter := ctr }, ?_, ?_, rfl, ?_⟩
  · unfold DTable.buildFromProbabilities
    rw [if_neg (by omega)]
    unfold DTable.buildDecodingTable
    simp only [hb]
  · exact ⟨by show 1 ≤ al; omega, hle, hsz, hent⟩
  · rw [hspec]; rfl

/-- `build_decoder` on a description the Spec accepts: same accuracy log / probabilities / byte count,
built, and the table is the one `Spec.Fse.buildTable` builds -/
theorem buildDecoder_spec (t : DTable) {bytes : List Nat} (hb : Bytes bytes) {maxLog maxCode : Nat}
    (hml : maxLog ≤ 9) (hmc : maxCode ≤ 255) (hms : t.maxSymbol = maxCode)
    {al : Nat} {probs : List Int} {used : Nat}
    (hs : Spec.Fse.readDescription bytes maxLog maxCode = some (al, probs, used)) :
    ∃ t', t.buildDecoder bytes.toArray maxLog = (t', .ok used) ∧ FseBuilt maxLog t' ∧
      t'.maxSymbol = maxCode ∧ Spec.Fse.buildTable al probs = some (specOf t') ∧ used ≤ bytes.length := by
  have hb' : Bytes bytes.toArray.toList := by simpa using hb
  have hs' : Spec.Fse.readDescription bytes.toArray.toList maxLog maxCode = some (al, probs, used) := by
    simpa using hs
  have hr := Zstd.Proofs.FseReadDesc.fse_readProbabilities_refines bytes.toArray hb'
    ({ t with accuracyLog := 0 } : DTable) maxLog maxCode hms hs'
  have hv := readDescription_validDist hml hmc hs
  obtain ⟨h5, hle, hlen, _, _, hused⟩ := readDescription_valid hs
  obtain ⟨dec, ctr, hbuild, hspec, hsz, hent⟩ := buildCore_ok (maxSymbol := t.maxSymbol) hv (by omega)
  refine ⟨{ t with probs := probs.toArray, accuracyLog := al, decode := dec, symbolCounter := ctr },
    ?_, ⟨by show 1 ≤ al; omega, hle, hsz, hent⟩, hms, ?_, hused⟩
  · unfold DTable.buildDecoder
    simp only [hr]
    unfold DTable.buildDecodingTable
    simp only [hbuild]
  · rw [hspec]; rfl

/-! ## one arm -/

theorem updateOne_refines {mode : Nat} (hmode : mode < 4) {bytes : List Nat} (hb : Bytes bytes)
    {maxLog maxCode dfltLog : Nat} {dflt : List Int} (hml : maxLog ≤ 9) (hmc : maxCode ≤ 255)
    (hdv : Zstd.Proofs.FseDecTable.ValidDist dfltLog dflt) (hdl : dflt.length ≤ maxCode + 1)
    (hdle : dfltLog ≤ maxLog)
    {prev : Option Spec.Fse.Table} {t : DTable} {rle : Option Nat}
    (hc : ChanCoupledOpt maxLog maxCode prev t rle) {T : Spec.Fse.Table} {used : Nat}
    (hs : Spec.readSeqTable mode bytes maxLog maxCode (dfltLog, dflt) prev = some (T, used))
    (rleErr : SeqErr) :
    ∃ t' rle', updateOne mode bytes.toArray t rle maxLog maxCode dfltLog dflt rleErr = ((t', rle'), .ok used) ∧
      ChanCoupled maxLog maxCode T t' rle' ∧ ChanPre maxLog maxCode t' rle' ∧ used ≤ bytes.length := by
  have _ := hmode   -- not needed: both sides treat every mode ≥ 3 as Repeat
  obtain ⟨⟨hwf, hms, hrle⟩, hcpl⟩ := hc
  unfold Spec.readSeqTable at hs
  unfold updateOne
  by_cases h2 : mode = 2
  · rw [if_pos h2]
    rw [if_neg (by omega), if_neg (by omega), if_pos h2] at hs
    cases hrd : Spec.Fse.readDescription bytes maxLog maxCode with
    | none => rw [hrd] at hs; cases hs
    | some q =>
      obtain ⟨al, probs, u⟩ := q
      rw [hrd] at hs
      simp only [] at hs
      obtain ⟨t', hbd, hbuilt, hms', hspec, hused⟩ := buildDecoder_spec t hb hml hmc hms hrd
      rw [hspec] at hs
      simp only [Option.map_some, Option.some.injEq, Prod.mk.injEq] at hs
      obtain ⟨rfl, rfl⟩ := hs
      refine ⟨t', none, ?_, ⟨hbuilt, hms', rfl⟩, ⟨Or.inr hbuilt, hms', fun b hb => by cases hb⟩, hused⟩
      rw [hbd]
  · rw [if_neg h2]
    by_cases h1 : mode = 1
    · rw [if_pos h1]
      rw [if_neg (by omega), if_pos h1] at hs
      cases bytes with
      | nil => cases hs
      | cons b tl =>
        simp only [] at hs
        by_cases hbm : b > maxCode
        · rw [if_pos hbm] at hs; cases hs
        · rw [if_neg hbm] at hs
          simp only [Option.some.injEq, Prod.mk.injEq] at hs
          obtain ⟨rfl, rfl⟩ := hs
          refine ⟨t, some b, ?_, ⟨rfl, by omega⟩, ⟨hwf, hms, ?_⟩, by simp⟩
          · have h0 : (b :: tl).toArray[0]? = some b := by simp
            rw [h0]
            simp only []
            rw [if_neg hbm]
          · intro b' hb'
            simp only [Option.some.injEq] at hb'
            omega
    · rw [if_neg h1]
      by_cases h0 : mode = 0
      · rw [if_pos h0]
        rw [if_pos h0] at hs
        obtain ⟨t', hbf, hbuilt, hms', hspec⟩ :=
          buildFromProbabilities_spec t maxLog hdv (by omega) hdle
        simp only [] at hs
        rw [hspec] at hs
        simp only [Option.map_some, Option.some.injEq, Prod.mk.injEq] at hs
        obtain ⟨rfl, rfl⟩ := hs
        refine ⟨t', none, ?_, ⟨hbuilt, by omega, rfl⟩,
          ⟨Or.inr hbuilt, by omega, fun b hb => by cases hb⟩, Nat.zero_le _⟩
        rw [hbf]
      · rw [if_neg h0]
        rw [if_neg h0, if_neg h1, if_neg h2] at hs
        cases prev with
        | none => cases hs
        | some T' =>
          simp only [Option.map_some, Option.some.injEq, Prod.mk.injEq] at hs
          obtain ⟨rfl, rfl⟩ := hs
          exact ⟨t, rle, rfl, hcpl _ rfl, ⟨hwf, hms, hrle⟩, Nat.zero_le _⟩

/-! ## the three arms -/

/-- `&source[n..]` of a list-backed array -/
theorem toArray_extract_drop (l : List Nat) (n : Nat) :
    l.toArray.extract n l.toArray.size = (l.drop n).toArray := by
  apply Array.ext'
  simp only [Array.toList_extract, List.extract_eq_take_drop, List.size_toArray]
  rw [List.take_of_length_le (by simp)]

theorem bytes_drop {l : List Nat} (hb : Bytes l) (n : Nat) : Bytes (l.drop n) :=
  fun x hx => hb x (List.mem_of_mem_drop hx)

theorem maybeUpdateFseTables_refines {m : Nat} (hm : m < 256) {rest : List Nat} (hb : Bytes rest)
    {e : Spec.Entropy} {s : FseScratch}
    (hc : FseCoupled e s) {llT ofT mlT : Spec.Fse.Table} {u1 u2 u3 : Nat}
    (h1 : Spec.readSeqTable (m / 64) rest 9 35 (Spec.llDefaultLog, Spec.llDefaultDist) e.ll = some (llT, u1))
    (h2 : Spec.readSeqTable (m / 16 % 4) (rest.drop u1) 8 31 (Spec.ofDefaultLog, Spec.ofDefaultDist) e.of = some (ofT, u2))
    (h3 : Spec.readSeqTable (m / 4 % 4) (rest.drop (u1 + u2)) 9 52 (Spec.mlDefaultLog, Spec.mlDefaultDist) e.ml = some (mlT, u3)) :
    ∃ s', maybeUpdateFseTables (some m) rest.toArray s = (s', .ok (u1 + u2 + u3)) ∧
      ChanCoupled Gen.llMaxLog Gen.maxLiteralLengthCode llT s'.literalLengths s'.llRle ∧
      ChanCoupled Gen.ofMaxLog Gen.maxOffsetCode ofT s'.offsets s'.ofRle ∧
      ChanCoupled Gen.mlMaxLog Gen.maxMatchLengthCode mlT s'.matchLengths s'.mlRle ∧
      FseScratchWF s' ∧ u1 + u2 + u3 ≤ rest.length := by
  have hm1 : m / 64 < 4 := by omega
  have hm2 : m / 16 % 4 < 4 := by omega
  have hm3 : m / 4 % 4 < 4 := by omega
  have e1 : modeOf (m / 64 % 4) = m / 64 := by rw [Nat.mod_eq_of_lt hm1]; exact modeOf_eq _ hm1
  have e2 : modeOf (m / 16 % 4) = m / 16 % 4 := modeOf_eq _ hm2
  have e3 : modeOf (m / 4 % 4) = m / 4 % 4 := modeOf_eq _ hm3
  have dll : Gen.llDistDec = Spec.llDefaultDist := by decide
  have dof : Gen.ofDistDec = Spec.ofDefaultDist := by decide
  have dml : Gen.mlDistDec = Spec.mlDefaultDist := by decide
  -- LL
  obtain ⟨t1, r1, hu1, c1, p1, l1⟩ := updateOne_refines (maxLog := Gen.llMaxLog) (maxCode := Gen.maxLiteralLengthCode)
    (dfltLog := Gen.llDefaultAccLog) (dflt := Gen.llDistDec) hm1 hb (by decide) (by decide)
    validDist_ll (by decide) (by decide) hc.ll (by rw [dll]; exact h1) .missingByteForRleLlTable
  -- OF
  obtain ⟨t2, r2, hu2, c2, p2, l2⟩ := updateOne_refines (maxLog := Gen.ofMaxLog) (maxCode := Gen.maxOffsetCode)
    (dfltLog := Gen.ofDefaultAccLog) (dflt := Gen.ofDistDec) hm2 (bytes_drop hb u1) (by decide) (by decide)
    validDist_of (by decide) (by decide) hc.of (by rw [dof]; exact h2) .missingByteForRleOfTable
  -- ML
  obtain ⟨t3, r3, hu3, c3, p3, l3⟩ := updateOne_refines (maxLog := Gen.mlMaxLog) (maxCode := Gen.maxMatchLengthCode)
    (dfltLog := Gen.mlDefaultAccLog) (dflt := Gen.mlDistDec) hm3 (bytes_drop hb (u1 + u2)) (by decide) (by decide)
    validDist_ml (by decide) (by decide) hc.ml (by rw [dml]; exact h3) .missingByteForRleMlTable
  rw [List.length_drop] at l2 l3
  refine ⟨{ s with literalLengths := t1, llRle := r1, offsets := t2, ofRle := r2, matchLengths := t3, mlRle := r3 },
    ?_, c1, c2, c3, ⟨p1, p2, p3⟩, by omega⟩
  unfold maybeUpdateFseTables
  simp only [e1, e2, e3, hu1]
  rw [if_neg (by simp only [List.size_toArray]; omega)]
  rw [toArray_extract_drop, hu2]
  simp only []
  rw [if_neg (by simp only [List.size_toArray]; omega)]
  rw [toArray_extract_drop, hu3]

/-! ## non-vacuity -/

/-- a fresh scratch against the Spec's initial entropy state -/
theorem fseCoupled_fresh : FseCoupled {} {} :=
  ⟨⟨⟨Or.inl rfl, rfl, fun b hb => by cases hb⟩, fun T' h => by cases h⟩,
   ⟨⟨Or.inl rfl, rfl, fun b hb => by cases hb⟩, fun T' h => by cases h⟩,
   ⟨⟨Or.inl rfl, rfl, fun b hb => by cases hb⟩, fun T' h => by cases h⟩⟩

/-- the hypotheses of `maybeUpdateFseTables_refines` are satisfiable: first block of a frame, all three
modes Predefined, no table bytes -/
example : ∃ s', maybeUpdateFseTables (some 0) ([] : List Nat).toArray {} = (s', .ok 0) ∧ FseScratchWF s' := by
  have spec0 : ∀ {al : Nat} {probs : List Int} {ms maxLog maxSym : Nat}, ValidDist al probs → probs.length ≤ ms + 1 →
      ∃ T, Spec.readSeqTable 0 [] maxLog maxSym (al, probs) none = some (T, 0) := by
    intro al probs ms maxLog maxSym hv hl
    obtain ⟨t', _, _, _, h⟩ := buildFromProbabilities_spec (DTable.new ms) 9 hv hl hv.2.1
    exact ⟨specOf t', by simp only [Spec.readSeqTable, if_true, h, Option.map_some]⟩
  have dll : Gen.llDistDec = Spec.llDefaultDist := by decide
  have dof : Gen.ofDistDec = Spec.ofDefaultDist := by decide
  have dml : Gen.mlDistDec = Spec.mlDefaultDist := by decide
  obtain ⟨llT, h1⟩ := spec0 (ms := 35) (maxLog := 9) (maxSym := 35) validDist_ll (by decide)
  obtain ⟨ofT, h2⟩ := spec0 (ms := 31) (maxLog := 8) (maxSym := 31) validDist_of (by decide)
  obtain ⟨mlT, h3⟩ := spec0 (ms := 52) (maxLog := 9) (maxSym := 52) validDist_ml (by decide)
  rw [dll] at h1; rw [dof] at h2; rw [dml] at h3
  obtain ⟨s', h, _, _, _, hwf, _⟩ := maybeUpdateFseTables_refines (m := 0) (by decide) (rest := [])
    (fun _ h => by cases h) fseCoupled_fresh h1 h2 h3
  exact ⟨s', h, hwf⟩

end Zstd.Proofs.Blk
