import Zstd.Proofs.FseFinDef
import Zstd.Proofs.FseFin.Low
import Zstd.Proofs.FseFin.AL5
import Zstd.Proofs.FseFin.AL6
import Zstd.Proofs.FseFin.AL7
import Zstd.Proofs.FseFin.C8
import Zstd.Proofs.FseFin.W8
import Zstd.Proofs.FseFin.T8
import Zstd.Proofs.FseFin.C9a
import Zstd.Proofs.FseFin.C9b
import Zstd.Proofs.FseFin.C9c
import Zstd.Proofs.FseFin.C9d
import Zstd.Proofs.FseFin.T9a
import Zstd.Proofs.FseFin.T9b
import Zstd.Proofs.FseFin.T9c
import Zstd.Proofs.FseFin.T9d
import Zstd.Proofs.FseFin.W9a
import Zstd.Proofs.FseFin.W9b
import Zstd.Proofs.FseFin.W9c
import Zstd.Proofs.FseFin.W9d
/-
The finite cores, lifted to quantified statements over every accuracy log the format allows
(closed form and tiling: AL ≤ 9; spreading walk: 5 ≤ AL ≤ 9 — for table sizes 2 and 8 the step
`size/2 + size/8 + 3` is ≡ 0 and the walk does not move, the format never uses them).
-/
namespace Zstd.Proofs.FseFin
open Zstd Zstd.Model.Fse

theorem closedRow_le9 {al p : Nat} (hal : al ≤ 9) (hp1 : 1 ≤ p) (hp : p ≤ 2 ^ al) : closedRow al p p = true := by
  have : al = 0 ∨ al = 1 ∨ al = 2 ∨ al = 3 ∨ al = 4 ∨ al = 5 ∨ al = 6 ∨ al = 7 ∨ al = 8 ∨ al = 9 := by omega
  rcases this with rfl | rfl | rfl | rfl | rfl | rfl | rfl | rfl | rfl | rfl
  · exact closedRows_lift closed_0 (by omega) (by omega)
  · exact closedRows_lift closed_1 (by omega) (by omega)
  · exact closedRows_lift closed_2 (by omega) (by omega)
  · exact closedRows_lift closed_3 (by omega) (by omega)
  · exact closedRows_lift closed_4 (by omega) (by omega)
  · exact closedRows_lift closed_5 (by omega) (by omega)
  · exact closedRows_lift closed_6 (by omega) (by omega)
  · exact closedRows_lift closed_7 (by omega) (by omega)
  · exact closedRows_lift closed_8 (by omega) (by omega)
  · have h512 : (2 : Nat) ^ 9 = 512 := by decide
    rw [h512] at hp
    by_cases h1 : p ≤ 256
    · exact closedRows_lift closed_9a (by omega) (by omega)
    · by_cases h2 : p ≤ 362
      · exact closedRows_lift closed_9b (by omega) (by omega)
      · by_cases h3 : p ≤ 443
        · exact closedRows_lift closed_9c (by omega) (by omega)
        · exact closedRows_lift closed_9d (by omega) (by omega)

theorem tileRow_le9 {al p : Nat} (hal : al ≤ 9) (hp1 : 1 ≤ p) (hp : p ≤ 2 ^ al) : tileRow al p = true := by
  have : al = 0 ∨ al = 1 ∨ al = 2 ∨ al = 3 ∨ al = 4 ∨ al = 5 ∨ al = 6 ∨ al = 7 ∨ al = 8 ∨ al = 9 := by omega
  rcases this with rfl | rfl | rfl | rfl | rfl | rfl | rfl | rfl | rfl | rfl
  · exact tileRows_lift tile_0 (by omega) (by omega)
  · exact tileRows_lift tile_1 (by omega) (by omega)
  · exact tileRows_lift tile_2 (by omega) (by omega)
  · exact tileRows_lift tile_3 (by omega) (by omega)
  · exact tileRows_lift tile_4 (by omega) (by omega)
  · exact tileRows_lift tile_5 (by omega) (by omega)
  · exact tileRows_lift tile_6 (by omega) (by omega)
  · exact tileRows_lift tile_7 (by omega) (by omega)
  · exact tileRows_lift tile_8 (by omega) (by omega)
  · have h512 : (2 : Nat) ^ 9 = 512 := by decide
    rw [h512] at hp
    by_cases h1 : p ≤ 256
    · exact tileRows_lift tile_9a (by omega) (by omega)
    · by_cases h2 : p ≤ 362
      · exact tileRows_lift tile_9b (by omega) (by omega)
      · by_cases h3 : p ≤ 443
        · exact tileRows_lift tile_9c (by omega) (by omega)
        · exact tileRows_lift tile_9d (by omega) (by omega)

theorem walkOk_5to9 {al neg : Nat} (h5 : 5 ≤ al) (h9 : al ≤ 9) (hneg : neg ≤ 2 ^ al) : walkOk (2 ^ al) neg = true := by
  have : al = 5 ∨ al = 6 ∨ al = 7 ∨ al = 8 ∨ al = 9 := by omega
  rcases this with rfl | rfl | rfl | rfl | rfl
  · exact walkRange_lift walk_5 (by omega) (by omega)
  · exact walkRange_lift walk_6 (by omega) (by omega)
  · exact walkRange_lift walk_7 (by omega) (by omega)
  · exact walkRange_lift walk_8 (by omega) (by omega)
  · have h512 : (2 : Nat) ^ 9 = 512 := by decide
    rw [h512] at hneg ⊢
    by_cases h1 : neg < 129
    · exact walkRange_lift walk_9a (by omega) (by omega)
    · by_cases h2 : neg < 258
      · exact walkRange_lift walk_9b (by omega) (by omega)
      · by_cases h3 : neg < 386
        · exact walkRange_lift walk_9c (by omega) (by omega)
        · exact walkRange_lift walk_9d (by omega) (by omega)

/-- **closed form = RFC** for every accuracy log up to 9, every probability, every state number -/
theorem closedForm {al p k : Nat} (hal : al ≤ 9) (hp1 : 1 ≤ p) (hp : p ≤ 2 ^ al) (hk : k < p) :
    calcBaselineAndNumbits (2 ^ al) p k = .ok (rfcEntry al p k) :=
  closedRow_lift (closedRow_le9 hal hp1 hp) hk

/-- **the spreading walk is a permutation** of the free cells `[0, neg)` and ends at 0 -/
theorem walk_perm {al neg : Nat} (h5 : 5 ≤ al) (h9 : al ≤ 9) (hneg : neg ≤ 2 ^ al) :
    ∃ l, walk (2 ^ al) neg neg 0 = .ok (l, 0) ∧ l.length = neg ∧ l.Nodup ∧ ∀ p ∈ l, p < neg :=
  walkOk_spec (walkOk_5to9 h5 h9 hneg)

/-! ### tiling lemmas -/

theorem tilesFrom_bounds {al : Nat} : ∀ (l : List (Nat × Nat)) (s : Nat), tilesFrom al s l →
    s ≤ 2 ^ al ∧ ∀ bw ∈ l, s ≤ bw.1 ∧ bw.1 + bw.2 ≤ 2 ^ al ∧ 0 < bw.2 := by
  intro l
  induction l with
  | nil => intro s h; simp only [tilesFrom] at h; subst h; simp
  | cons a rest ih =>
    intro s h
    obtain ⟨b, w⟩ := a
    simp only [tilesFrom] at h
    obtain ⟨hb, hw, hrest⟩ := h
    obtain ⟨hle, hall⟩ := ih _ hrest
    refine ⟨by omega, ?_⟩
    intro bw hbw
    rw [List.mem_cons] at hbw
    rcases hbw with rfl | hbw
    · simp only; omega
    · have := hall bw hbw; omega

theorem tilesFrom_pairwise {al : Nat} : ∀ (l : List (Nat × Nat)) (s : Nat), tilesFrom al s l →
    l.Pairwise (fun a b => a.1 + a.2 ≤ b.1) := by
  intro l
  induction l with
  | nil => intro s _; exact List.Pairwise.nil
  | cons a rest ih =>
    intro s h
    obtain ⟨b, w⟩ := a
    simp only [tilesFrom] at h
    obtain ⟨hb, hw, hrest⟩ := h
    refine List.Pairwise.cons ?_ (ih _ hrest)
    intro bw hbw
    have := (tilesFrom_bounds rest _ hrest).2 bw hbw
    simp only; omega

theorem tilesFrom_cover {al : Nat} : ∀ (l : List (Nat × Nat)) (s : Nat), tilesFrom al s l →
    ∀ x, s ≤ x → x < 2 ^ al → ∃ j, ∃ h : j < l.length, l[j].1 ≤ x ∧ x < l[j].1 + l[j].2 := by
  intro l
  induction l with
  | nil => intro s h x h1 h2; simp only [tilesFrom] at h; omega
  | cons a rest ih =>
    intro s h x h1 h2
    obtain ⟨b, w⟩ := a
    simp only [tilesFrom] at h
    obtain ⟨hb, hw, hrest⟩ := h
    by_cases hx : x < s + w
    · exact ⟨0, by simp, by simp only [List.getElem_cons_zero]; omega⟩
    · obtain ⟨j, hj, hh⟩ := ih _ hrest x (by omega) h2
      exact ⟨j + 1, by simp only [List.length_cons]; omega, by simpa only [List.getElem_cons_succ] using hh⟩

theorem orderedKs_length {p : Nat} (hd : dblOf p ≤ p) : (orderedKs p).length = p := by
  simp only [orderedKs, List.length_append, List.length_range', List.length_range]; omega

/-- position of state number `k` in baseline order -/
def posOf (p k : Nat) : Nat := if dblOf p ≤ k then k - dblOf p else p - dblOf p + k

theorem orderedKs_getElem {p k : Nat} (hd : dblOf p ≤ p) (hk : k < p) :
    ∃ h : posOf p k < (orderedKs p).length, (orderedKs p)[posOf p k] = k := by
  refine ⟨by rw [orderedKs_length hd]; unfold posOf; split <;> omega, ?_⟩
  unfold posOf orderedKs
  split
  · rw [List.getElem_append_left (by simp only [List.length_range']; omega)]
    simp only [List.getElem_range']; omega
  · rw [List.getElem_append_right (by simp only [List.length_range']; omega)]
    simp only [List.length_range', List.getElem_range]; omega

theorem orderedKs_lt {p : Nat} (hd : dblOf p ≤ p) {j : Nat} (hj : j < (orderedKs p).length) :
    (orderedKs p)[j] < p := by
  have hl := orderedKs_length hd
  unfold orderedKs at hj ⊢
  by_cases h : j < p - dblOf p
  · rw [List.getElem_append_left (by simp only [List.length_range']; omega)]
    simp only [List.getElem_range']; omega
  · rw [List.getElem_append_right (by simp only [List.length_range']; omega)]
    simp only [List.length_range', List.getElem_range]
    simp only [List.length_append, List.length_range', List.length_range] at hj
    omega

section
variable {al p : Nat} (hal : al ≤ 9) (hp1 : 1 ≤ p) (hp : p ≤ 2 ^ al)
include hal hp1 hp

theorem dblOf_le : dblOf p ≤ p := by
  have h := tileRow_le9 hal hp1 hp
  unfold tileRow at h
  simp only [Bool.and_eq_true, Nat.ble_eq] at h
  exact h.1

theorem tileLoop_ok : tileLoop al p (orderedKs p) 0 0 = true := by
  have h := tileRow_le9 hal hp1 hp
  unfold tileRow at h
  simp only [Bool.and_eq_true] at h
  exact h.2

theorem tiles : tilesFrom al 0 ((orderedKs p).map (interval al p)) :=
  (tileLoop_spec (tileLoop_ok hal hp1 hp)).1

/-- every state's interval lies inside the table and is non-empty -/
theorem interval_within {k : Nat} (hk : k < p) :
    (interval al p k).1 + (interval al p k).2 ≤ 2 ^ al ∧ 0 < (interval al p k).2 := by
  have hd := dblOf_le hal hp1 hp
  obtain ⟨hpos, hget⟩ := orderedKs_getElem hd hk
  have hb := (tilesFrom_bounds _ _ (tiles hal hp1 hp)).2 (interval al p k)
    (by rw [List.mem_map]; exact ⟨k, by rw [← hget]; exact List.getElem_mem hpos, rfl⟩)
  omega

/-- **cover**: every index of the table lies in the interval of some state of the symbol -/
theorem interval_cover {x : Nat} (hx : x < 2 ^ al) :
    ∃ k, k < p ∧ (interval al p k).1 ≤ x ∧ x < (interval al p k).1 + (interval al p k).2 := by
  have hd := dblOf_le hal hp1 hp
  obtain ⟨j, hj, h1, h2⟩ := tilesFrom_cover _ _ (tiles hal hp1 hp) x (Nat.zero_le _) hx
  simp only [List.length_map] at hj
  simp only [List.getElem_map] at h1 h2
  exact ⟨(orderedKs p)[j], orderedKs_lt hd hj, h1, h2⟩

/-- **disjoint**: two different states of one symbol have disjoint intervals -/
theorem interval_disjoint {k k' : Nat} (hk : k < p) (hk' : k' < p) (hne : k ≠ k') :
    (interval al p k).1 + (interval al p k).2 ≤ (interval al p k').1 ∨
    (interval al p k').1 + (interval al p k').2 ≤ (interval al p k).1 := by
  have hd := dblOf_le hal hp1 hp
  obtain ⟨hpos, hget⟩ := orderedKs_getElem hd hk
  obtain ⟨hpos', hget'⟩ := orderedKs_getElem hd hk'
  have hpw := tilesFrom_pairwise _ _ (tiles hal hp1 hp)
  rw [List.pairwise_iff_getElem] at hpw
  have hne' : posOf p k ≠ posOf p k' := by
    intro heq
    apply hne
    rw [← hget, ← hget']
    simp only [heq]
  rcases Nat.lt_or_gt_of_ne hne' with hlt | hgt
  · left
    have := hpw (posOf p k) (posOf p k') (by simpa using hpos) (by simpa using hpos') hlt
    simpa only [List.getElem_map, hget, hget'] using this
  · right
    have := hpw (posOf p k') (posOf p k) (by simpa using hpos') (by simpa using hpos) hgt
    simpa only [List.getElem_map, hget, hget'] using this

/-- the search start of `SymbolStates::get` is at or before the containing state (in baseline order) -/
theorem search_start_le {k x : Nat} (hk : k < p)
    (h1 : (interval al p k).1 ≤ x) (h2 : x < (interval al p k).1 + (interval al p k).2) :
    x * p / 2 ^ al ≤ posOf p k := by
  have hd := dblOf_le hal hp1 hp
  obtain ⟨hpos, hget⟩ := orderedKs_getElem hd hk
  have h3 := (tileLoop_spec (tileLoop_ok hal hp1 hp)).2 (posOf p k) hpos
  rw [hget] at h3
  have : x * p / 2 ^ al ≤ ((interval al p k).1 + (interval al p k).2 - 1) * p / 2 ^ al := by
    apply Nat.div_le_div_right
    apply Nat.mul_le_mul_right
    omega
  omega

end

end Zstd.Proofs.FseFin
