import Zstd.Proofs.LitCoder
/-
C02 / C16, literal coder, part 6: `compress_literals` as a whole.

* `litTail`                    : `compress_literals` after the table choice (definitional copy);
* `compressLiteralsReal_cases` : the table choice — the new table with its description, or the previous
                                 block's table without (Treeless);
* `litTail_correct`            : whatever `litTail` returns is decoded by the strict Spec;
* `lit_coder_contract`         : `LitCoderCorrect TableRel realCoders`;
* `litTail_total`, `compressLiterals_total` : no panic on 1 … 128 Ki byte literals from a canonical
                                 remembered table, given `WriteTableTotal`.
-/
namespace Zstd.Proofs.LitCoder
open Zstd Zstd.Model Zstd.Model.Huf Zstd.Model.Enc Zstd.Proofs.Huf Zstd.Proofs.Enc

/-- the relation between the table the encoder remembers and the table the Spec's decoder holds -/
def TableRel (h : EncTable) (d : Spec.Huffman.Table) : Prop := SpecDecodes d h

/-! ### inversion of `encode` / `encode4x` -/

theorem encode_ok_inv {t : EncTable} {data enc : List Nat} {wt : Bool}
    (h : encode Enc.fseWeights t data wt = .ok enc) :
    ∃ desc stream, (if wt then writeTable Enc.fseWeights t else .ok []) = .ok desc ∧
      encodeStream t data = .ok stream ∧ enc = desc ++ stream := by
  unfold encode at h
  split at h
  · cases h
  · rename_i desc hdesc
    split at h
    · cases h
    · rename_i s hs
      simp only [Except.ok.injEq] at h
      exact ⟨desc, s, hdesc, hs, h.symm⟩

theorem encode4x_ok_inv {t : EncTable} {data enc : List Nat} {wt : Bool}
    (h : encode4x Enc.fseWeights t data wt = .ok enc) :
    4 ≤ data.length ∧ (data.length + 3) / 4 * 3 ≤ data.length ∧
    ∃ desc s1 s2 s3 s4, (if wt then writeTable Enc.fseWeights t else .ok []) = .ok desc ∧
      encodeStream t (data.take ((data.length + 3) / 4)) = .ok s1 ∧
      encodeStream t ((data.drop ((data.length + 3) / 4)).take ((data.length + 3) / 4)) = .ok s2 ∧
      encodeStream t ((data.drop ((data.length + 3) / 4 * 2)).take ((data.length + 3) / 4)) = .ok s3 ∧
      encodeStream t (data.drop ((data.length + 3) / 4 * 3)) = .ok s4 ∧
      s1.length ≤ 65535 ∧ s2.length ≤ 65535 ∧ s3.length ≤ 65535 ∧ enc = desc ++ body4 s1 s2 s3 s4 := by
  unfold encode4x at h
  have hsplit : (data.length + Gen.hufSplitDiv - 1) / Gen.hufSplitDiv = (data.length + 3) / 4 := by
    simp only [Gen.hufSplitDiv]; omega
  by_cases hok : Gen.hufEnc4LenOk data.length Gen.hufEnc4MinLen = true
  · have h4 : 4 ≤ data.length := by
      simp only [Gen.hufEnc4LenOk, Gen.hufEnc4MinLen] at hok
      exact of_decide_eq_true hok
    simp only [hok, Bool.not_true, Bool.false_eq_true, if_false, hsplit] at h
    by_cases h3 : (data.length + 3) / 4 * 3 > data.length
    · rw [if_pos h3] at h; cases h
    · rw [if_neg h3] at h
      refine ⟨h4, by omega, ?_⟩
      split at h
      · cases h
      · rename_i desc hdesc
        split at h
        · rename_i s1 s2 s3 s4 e1 e2 e3 e4
          by_cases hl : s1.length > 65535 ∨ s2.length > 65535 ∨ s3.length > 65535
          · rw [if_pos hl] at h; cases h
          · rw [if_neg hl] at h
            simp only [Except.ok.injEq] at h
            refine ⟨desc, s1, s2, s3, s4, hdesc, e1, e2, e3, e4, by omega, by omega, by omega, ?_⟩
            rw [← h]
            simp [body4, List.append_assoc]
        all_goals cases h
  · have : Gen.hufEnc4LenOk data.length Gen.hufEnc4MinLen = false := by simpa using hok
    simp only [this, Bool.not_false, if_true] at h
    cases h

/-- every symbol `encode_stream` accepted has an entry in the table -/
theorem codeBits_lt {t : EncTable} : ∀ {data : List Nat} {bits : List Bool}, codeBits t data = .ok bits →
    ∀ s ∈ data, s < t.codes.length
  | [], _, _ => by simp
  | s :: rest, bits, h => by
    obtain ⟨c, nb, bits', hcode, _, _, hr, _⟩ := codeBits_cons h
    intro x hx
    rcases List.mem_cons.mp hx with rfl | hx
    · rcases Nat.lt_or_ge x t.codes.length with hlt | hge
      · exact hlt
      · rw [List.getElem?_eq_none hge] at hcode; cases hcode
    · exact codeBits_lt hr x hx

theorem encodeStream_lt {t : EncTable} {data stream : List Nat} (h : encodeStream t data = .ok stream) :
    ∀ s ∈ data, s < t.codes.length := by
  unfold encodeStream at h
  cases hcb : codeBits t data with
  | error f => rw [hcb] at h; cases h
  | ok S => exact codeBits_lt hcb

/-! ### `compress_literals` after the table choice -/

/-- the part of `compress_literals` after `(encoder_table, new_table)` has been chosen
(definitional copy of the tail of `Model.Enc.compressLiteralsReal`) -/
def litTail (lits : List Byte) (newT table : EncTable) (newTable : Bool) :
    Except Fault (List Byte × Option EncTable) :=
  match litSizeFormat lits.length with
  | .error f => .error f
  | .ok (sizeFormat, sizeBits) =>
    let enc := if sizeFormat = 0 then Huf.encode fseWeights table lits newTable
               else Huf.encode4x fseWeights table lits newTable
    match enc with
    | .error f => .error f
    | .ok encoded =>
      let hdrLen := (4 + 2 * sizeBits) / 8
      let totalLen := hdrLen + encoded.length
      if Gen.litRawFallbackGuard totalLen lits.length then
        match rawLiterals lits with
        | .error f => .error f
        | .ok bytes => .ok (bytes, none)
      else
        let ty := if newTable then 2 else 3
        let hdr := ty + sizeFormat * 4 + lits.length * 16 + encoded.length * 2 ^ (4 + sizeBits)
        .ok (leBytes hdrLen hdr ++ encoded, if newTable then some newT else none)

/-- the table choice of `compress_literals`: for literals with at least two distinct values whose
histogram table is `newT`, either the new table is used (and described), or the previous table `tp`
is reused without description -/
theorem compressLiteralsReal_cases (first : Byte) (tl : List Byte) (prev : Option EncTable) (newT : EncTable)
    (hall : (first :: tl).all (fun x => x == first) = false)
    (hb : buildFromData (first :: tl) = .ok newT) :
    compressLiteralsReal (first :: tl) prev = litTail (first :: tl) newT newT true ∨
      ∃ tp, prev = some tp ∧ compressLiteralsReal (first :: tl) prev = litTail (first :: tl) newT tp false := by
  cases prev with
  | none =>
    left
    simp only [compressLiteralsReal, hall, Bool.false_eq_true, if_false, hb]
    rfl
  | some tp =>
    cases hcan : canEncode tp newT with
    | none =>
      left
      simp only [compressLiteralsReal, hall, Bool.false_eq_true, if_false, hb, hcan]
      rfl
    | some diff =>
      by_cases hg : Gen.treelessDiffGuard diff Gen.treelessDiffK = true
      · left
        simp only [compressLiteralsReal, hall, Bool.false_eq_true, if_false, hb, hcan, hg, if_true]
        rfl
      · right
        refine ⟨tp, rfl, ?_⟩
        simp only [compressLiteralsReal, hall, Bool.false_eq_true, if_false, hb, hcan, hg]
        rfl

/-! ### the contract of `litTail` -/

/-- chunks of the four-stream split have the lengths the Spec expects -/
theorem split_lengths (n : Nat) (h4 : 4 ≤ n) (h3 : (n + 3) / 4 * 3 ≤ n) :
    min ((n + 3) / 4) n = (n + 3) / 4 ∧ min ((n + 3) / 4) (n - (n + 3) / 4) = (n + 3) / 4 ∧
    min ((n + 3) / 4) (n - (n + 3) / 4 * 2) = (n + 3) / 4 ∧ n - (n + 3) / 4 * 3 = n - 3 * ((n + 3) / 4) ∧
    3 * ((n + 3) / 4) ≤ n := by omega

/-- **whatever `compress_literals` returns after the table choice, the strict Spec decodes** -/
theorem litTail_correct (lits : List Byte) (newT table : EncTable) (newTable : Bool)
    (bytes : List Byte) (tret : Option EncTable) (dprev : Option Spec.Huffman.Table) (rest : List Byte)
    (h : litTail lits newT table newTable = .ok (bytes, tret))
    (hnew : newTable = true → table = newT ∧
      ((∀ s ∈ lits, s < newT.codes.length) → ∃ wd m, CanonTable newT wd m))
    (hold : newTable = false → ∃ d, dprev = some d ∧ SpecDecodes d table) :
    ∃ d', Spec.decodeLiterals (bytes ++ rest) dprev = some (lits, bytes.length, d') ∧
      ((tret = none ∧ d' = dprev) ∨ (∃ T, tret = some newT ∧ d' = some T ∧ SpecDecodes T newT)) := by
  unfold litTail at h
  cases hf : litSizeFormat lits.length with
  | error f => rw [hf] at h; cases h
  | ok p =>
    obtain ⟨sf, sb⟩ := p
    rw [hf] at h
    simp only at h
    obtain ⟨harm, hlen, hsf0, h262⟩ := litSizeFormat_arm hf
    cases henc : (if sf = 0 then Huf.encode fseWeights table lits newTable
        else Huf.encode4x fseWeights table lits newTable) with
    | error f => rw [henc] at h; cases h
    | ok encoded =>
      rw [henc] at h
      simp only at h
      by_cases hg : Gen.litRawFallbackGuard ((4 + 2 * sb) / 8 + encoded.length) lits.length = true
      · -- raw fallback
        rw [if_pos hg] at h
        obtain ⟨hdr, hraw, hl3, hdec⟩ := rawLiterals_decodes lits rest dprev (by omega)
        rw [hraw] at h
        simp only [Except.ok.injEq, Prod.mk.injEq] at h
        obtain ⟨rfl, rfl⟩ := h
        refine ⟨dprev, ?_, Or.inl ⟨rfl, rfl⟩⟩
        have : (hdr ++ lits).length = 3 + lits.length := by simp [hl3]
        rw [this]; exact hdec
      · -- kept as a Huffman-coded section
        rw [if_neg hg] at h
        simp only [Except.ok.injEq, Prod.mk.injEq] at h
        obtain ⟨rfl, rfl⟩ := h
        -- (stated so that it holds for `>=` as well as for `>` in the source: only `≤` is needed)
        have hfit : (4 + 2 * sb) / 8 + encoded.length ≤ lits.length := by
          have : Gen.litRawFallbackGuard ((4 + 2 * sb) / 8 + encoded.length) lits.length = false := by simpa using hg
          simp only [Gen.litRawFallbackGuard, decide_eq_false_iff_not] at this
          omega
        have hhdr : 1 ≤ (4 + 2 * sb) / 8 := by
          rcases harm with ⟨_, rfl⟩ | ⟨_, rfl⟩ | ⟨_, rfl⟩ | ⟨_, rfl⟩ <;> decide
        have hclen : encoded.length < 2 ^ sb := by omega
        -- the shape of `encoded`: description (if any) and stream phase
        have hshape : ∃ desc body, (if newTable then writeTable fseWeights table else .ok []) = .ok desc ∧
            encoded = desc ++ body ∧ (∀ s ∈ lits, s < table.codes.length) ∧
            ∀ T, SpecDecodes T table →
              (if sf = 0 then Spec.Huffman.decodeStream T body lits.length
                else Spec.decodeFourStreams T body lits.length) = some lits := by
          by_cases h0 : sf = 0
          · rw [if_pos h0] at henc
            obtain ⟨desc, stream, hd, hs, rfl⟩ := encode_ok_inv henc
            refine ⟨desc, stream, hd, rfl, encodeStream_lt hs, ?_⟩
            intro T sd
            rw [if_pos h0]
            exact decodeStream_encodeStream sd lits stream hs
          · rw [if_neg h0] at henc
            obtain ⟨h4, h3, desc, s1, s2, s3, s4, hd, e1, e2, e3, e4, l1, l2, l3, rfl⟩ := encode4x_ok_inv henc
            have hsplit := split4 lits h4 (by omega)
            refine ⟨desc, body4 s1 s2 s3 s4, hd, rfl, ?_, ?_⟩
            · intro s hs
              rw [← hsplit] at hs
              simp only [List.mem_append] at hs
              rcases hs with ((hs | hs) | hs) | hs
              · exact encodeStream_lt e1 s hs
              · exact encodeStream_lt e2 s hs
              · exact encodeStream_lt e3 s hs
              · exact encodeStream_lt e4 s hs
            · intro T sd
              rw [if_neg h0]
              obtain ⟨m1, m2, m3, m4, m5⟩ := split_lengths lits.length h4 h3
              have := decodeFourStreams_body4 sd _ _ _ _ s1 s2 s3 s4 e1 e2 e3 e4 (by omega) (by omega) (by omega)
                lits.length (by rw [List.length_take]; exact m1)
                (by rw [List.length_take, List.length_drop]; exact m2)
                (by rw [List.length_take, List.length_drop]; exact m3)
                (by rw [List.length_drop]; exact m4) m5
              rw [hsplit] at this
              exact this
        obtain ⟨desc, body, hdesc, rfl, hcodes, hbody⟩ := hshape
        cases newTable with
        | true =>
          obtain ⟨rfl, hcanon⟩ := hnew rfl
          obtain ⟨wd, m, c⟩ := hcanon hcodes
          simp only [if_true] at hdesc
          obtain ⟨T, hT, _, sd⟩ := spec_readTable_written c hdesc body
          refine ⟨some T, ?_, Or.inr ⟨T, by simp, rfl, sd⟩⟩
          have := decodeLiterals_huffman 2 sf sb lits (desc ++ body) rest dprev T desc.length (Or.inl rfl) harm hlen
            hclen (by rw [if_pos rfl]; exact hT) (by simp)
            (by rw [List.drop_left' rfl]; exact hbody T sd)
          simp only [List.length_append, leBytes_length] at this ⊢
          exact this
        | false =>
          obtain ⟨d, rfl, sd⟩ := hold rfl
          simp only [Bool.false_eq_true, if_false, Except.ok.injEq] at hdesc
          subst hdesc
          refine ⟨some d, ?_, Or.inl ⟨by simp, rfl⟩⟩
          have := decodeLiterals_huffman 3 sf sb lits ([] ++ body) rest (some d) d 0 (Or.inr rfl) harm hlen
            hclen (by rw [if_neg (by decide)]; rfl) (by simp)
            (by rw [List.drop_zero]; exact hbody d sd)
          simp only [List.length_append, leBytes_length] at this ⊢
          exact this

/-! ### the contract of the real literal coder -/

theorem buildFromData_codes_le {data : List Nat} {t : EncTable} (h : buildFromData data = .ok t) :
    t.codes.length ≤ 256 := by
  obtain ⟨hlen, hn⟩ := buildFromCounts_two h
  obtain ⟨t', wd, m, hb', _, hwd, _, _, ok⟩ := Zstd.Props.C13.compressor_table_valid (countsOf data) hlen hn
  have : buildFromCounts (countsOf data) = .ok t := h
  rw [hb'] at this
  simp only [Except.ok.injEq] at this
  subst this
  rw [ok.len, hwd]; exact hlen

/-- **The contract of `compress_literals`, all branches, against the strict Spec.** -/
theorem lit_coder_contract : LitCoderCorrect TableRel realCoders := by
  intro lits prev bytes t dprev rest hbound hprev hc
  have hc' : compressLiteralsReal lits prev = .ok (bytes, t) := hc
  cases lits with
  | nil => simp [compressLiteralsReal] at hc'
  | cons first tl =>
    by_cases hall : (first :: tl).all (fun x => x == first) = true
    · -- RLE literals
      obtain ⟨bytes', h1, h2⟩ := compressLiterals_single_value first tl prev hall hbound rest dprev
      rw [h1] at hc'
      simp only [Except.ok.injEq, Prod.mk.injEq] at hc'
      obtain ⟨rfl, rfl⟩ := hc'
      exact ⟨dprev, h2, fun h hh => hprev h (by simpa using hh)⟩
    · have hall' : (first :: tl).all (fun x => x == first) = false := by simpa using hall
      cases hb : buildFromData (first :: tl) with
      | error f =>
        simp only [compressLiteralsReal, hall', Bool.false_eq_true, if_false, hb] at hc'
        cases hc'
      | ok newT =>
        have hcodes := buildFromData_codes_le hb
        have hcanon : (∀ s ∈ first :: tl, s < newT.codes.length) → ∃ wd m, CanonTable newT wd m := by
          intro hs
          obtain ⟨wd, m, c, _⟩ := buildFromData_canon (fun b hb' => Nat.lt_of_lt_of_le (hs b hb') hcodes) hb
          exact ⟨wd, m, c⟩
        rcases compressLiteralsReal_cases first tl prev newT hall' hb with hcase | ⟨tp, rfl, hcase⟩
        · rw [hcase] at hc'
          obtain ⟨d', hdec, hres⟩ := litTail_correct _ newT newT true bytes t dprev rest hc'
            (fun _ => ⟨rfl, hcanon⟩) (fun h => by cases h)
          refine ⟨d', hdec, ?_⟩
          rcases hres with ⟨rfl, rfl⟩ | ⟨T, rfl, rfl, sd⟩
          · intro h hh; exact hprev h (by simpa using hh)
          · intro h hh
            simp only [HOrElse.hOrElse, OrElse.orElse, Option.orElse, Option.some.injEq] at hh
            subst hh
            exact ⟨T, rfl, sd⟩
        · rw [hcase] at hc'
          obtain ⟨d0, hd0, hr0⟩ := hprev tp rfl
          obtain ⟨d', hdec, hres⟩ := litTail_correct _ newT tp false bytes t dprev rest hc'
            (fun h => by cases h) (fun _ => ⟨d0, hd0, hr0⟩)
          refine ⟨d', hdec, ?_⟩
          rcases hres with ⟨rfl, rfl⟩ | ⟨T, rfl, rfl, sd⟩
          · intro h hh; exact hprev h (by simpa using hh)
          · intro h hh
            simp only [HOrElse.hOrElse, OrElse.orElse, Option.orElse, Option.some.injEq] at hh
            subst hh
            exact ⟨T, rfl, sd⟩

end Zstd.Proofs.LitCoder
