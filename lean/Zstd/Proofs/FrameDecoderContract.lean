import Zstd.Proofs.FrameDecoderBuf
import Zstd.Proofs.BitIO.Bridge
/-
What the frame-level proofs need of a block decoder (`BlockDec σ`, Model/FrameDecoder.lean).
Every frame-level theorem of C05 / C06 / C08 / C10 (and the frame-level ones of C01 / C03 / C07 /
C09) is proved for EVERY block decoder satisfying these contracts:

* `BlockContract`   — buffer discipline: only appends, ≤ 128 KiB per block on every outcome, never
                      touches dictionary / window / hasher, counter advances by at most the bytes
                      appended, and the effect does not depend on bytes the caller has already drained
                      (twin property) when the block's offsets stay within the retained window;
* `NoFaultContract` — no Rust panic (`Fault`) for well-formed scratch states and byte input; the state
                      stays well formed unless the block ends in `err literals` / `err sequences` (C03);
* `RefinesSpec`     — Spec ok ⇒ same bytes, coupled entropy state (C01) — in FrameDecoderRefine.lean.

Instance A (Spec stand-in) satisfies all three (Proofs/FrameDecoderStandIn.lean); instance B (the
faithful `Blk.decompressBlock`) in Proofs/FrameFaithful.lean.
-/
namespace Zstd.Model
open Zstd

/-- the "never drained" twin of a buffer: the bytes `d` the caller has already taken are still in
front, and the hasher field is `x` (decode operations never read it) -/
def DBuf.twin (d x : Array Nat) (b : DBuf) : DBuf := { b with content := d ++ b.content, hashed := x }

class BlockContract (σ : Type) [BlockDec σ] : Prop where
  /-- on EVERY outcome (ok, error, fault) the block only appended to the content, at most
  `MAX_BLOCK_SIZE` bytes; dictionary, window and hasher untouched -/
  appends : ∀ (content : List Nat) (e : σ) (b : DBuf),
    ∃ x, DBuf.Appends b (BlockDec.run content e b).1.1 x ∧ x.size ≤ Gen.maxBlockSize
  /-- `total_output_counter` advances by at most the number of bytes appended -/
  counter : ∀ (content : List Nat) (e : σ) (b : DBuf),
    (BlockDec.run content e b).1.1.totalOut + b.content.size ≤ b.totalOut + (BlockDec.run content e b).1.1.content.size
  /-- `block_effect_local`: with at least `W` bytes retained and every offset of the block ≤ `W`, the
  block does the same on the drained buffer and on its never-drained twin: same outcome, same entropy
  state, same bytes appended -/
  twin : ∀ (W : Nat) (d x : Array Nat) (content : List Nat) (e : σ) (b : DBuf),
    W ≤ b.content.size → (∀ o ∈ BlockDec.offsets content e, o ≤ W) →
    BlockDec.run content e (b.twin d x) =
      (((BlockDec.run content e b).1.1.twin d x, (BlockDec.run content e b).1.2), (BlockDec.run content e b).2)

/-- the operation did not end in one of the two decode errors that can leave an entropy table half
built (`FSETable::build_decoder` stores the new `accuracy_log` before it validates the description,
`HuffmanTable::build_decoder` clears `decode` before it rejects the weights): after
`err literals` / `err sequences` the caller may drain, query and `reset`, but must not decode on in
that frame -/
def Out.clean {α : Type} (o : Out α) : Prop := o ≠ .err .literals ∧ o ≠ .err .sequences

theorem Out.clean_ok {α : Type} (a : α) : (Out.ok a).clean := ⟨by simp, by simp⟩

theorem Out.clean_err {α : Type} (e : DErr) (h1 : e ≠ .literals) (h2 : e ≠ .sequences) : (Out.err e : Out α).clean :=
  ⟨fun h => h1 (by injection h), fun h => h2 (by injection h)⟩

theorem Out.clean_cast {α β : Type} {e : DErr} (h : (Out.err e : Out α).clean) : (Out.err e : Out β).clean :=
  ⟨fun h' => h.1 (by injection h' with h'; rw [h']), fun h' => h.2 (by injection h' with h'; rw [h'])⟩

/-- C03 at the block level: a well-formedness predicate `wf` on the entropy state that `fresh`
satisfies and every block preserves unless it ends in `err literals` / `err sequences`
(`Out.clean`), and a predicate `inp` on input byte lists (closed under `take`/`drop`; "every element
is a byte" for the faithful decoder, nothing for the stand-in), under which a block never faults -/
class NoFaultContract (σ : Type) [BlockDec σ] where
  wf : σ → Prop
  inp : List Nat → Prop
  inp_take : ∀ (l : List Nat) (n : Nat), inp l → inp (l.take n)
  inp_drop : ∀ (l : List Nat) (n : Nat), inp l → inp (l.drop n)
  wf_fresh : wf (BlockDec.fresh : σ)
  wf_run : ∀ (content : List Nat) (e : σ) (b : DBuf), wf e → inp content →
    (BlockDec.run content e b).2.clean → wf (BlockDec.run content e b).1.2
  noFault : ∀ (content : List Nat) (e : σ) (b : DBuf) (f : Fault), wf e → inp content →
    (BlockDec.run content e b).2 ≠ .fault f

end Zstd.Model
