import Zstd.Proofs.HufDec
/-
The encoder's code assignment (`HuffmanTable::build_from_weights`): for Kraft-complete weights the
loop over the (weight, symbol)-sorted entries gives symbol `s` the length `m + 1 − w_s` and a code
`c_s` with `c_s · 2^(w_s − 1)` = the mass of all entries sorted before `s`; the cells
`[c_s · 2^(w_s−1), (c_s + 1) · 2^(w_s−1))` of different symbols are therefore disjoint, which is
prefix-freeness.
-/
namespace Zstd.Proofs.Huf
open Zstd Zstd.Model.Huf

/-! ### the stable insertion sort -/

theorem mem_insertSorted {α : Type} (le : α → α → Bool) (x z : α) (l : List α) :
    z ∈ insertSorted le x l ↔ z = x ∨ z ∈ l := by
  induction l with
  | nil => simp [insertSorted]
  | cons y ys ih =>
    simp only [insertSorted]
    split
    · simp
    · simp only [List.mem_cons, ih]
      constructor
      · rintro (h | h | h)
        · exact Or.inr (Or.inl h)
        · exact Or.inl h
        · exact Or.inr (Or.inr h)
      · rintro (h | h | h)
        · exact Or.inr (Or.inl h)
        · exact Or.inl h
        · exact Or.inr (Or.inr h)

theorem insertSorted_perm {α : Type} (le : α → α → Bool) (x : α) (l : List α) :
    (insertSorted le x l).Perm (x :: l) := by
  induction l with
  | nil => exact List.Perm.refl _
  | cons y ys ih =>
    simp only [insertSorted]
    split
    · exact List.Perm.refl _
    · exact (List.Perm.cons y ih).trans (List.Perm.swap x y ys)

theorem stableSort_perm {α : Type} (le : α → α → Bool) (l : List α) : (stableSort le l).Perm l := by
  induction l with
  | nil => exact List.Perm.refl _
  | cons x xs ih => exact (insertSorted_perm le x _).trans (List.Perm.cons x ih)

theorem insertSorted_pairwise {α : Type} (le : α → α → Bool)
    (htot : ∀ a b, le a b = false → le b a = true)
    (htrans : ∀ a b c, le a b = true → le b c = true → le a c = true)
    (x : α) (l : List α) (h : l.Pairwise (fun a b => le a b = true)) :
    (insertSorted le x l).Pairwise (fun a b => le a b = true) := by
  induction l with
  | nil => simp [insertSorted]
  | cons y ys ih =>
    rw [List.pairwise_cons] at h
    simp only [insertSorted]
    by_cases hxy : le x y = true
    · rw [if_pos hxy, List.pairwise_cons]
      refine ⟨?_, List.pairwise_cons.mpr h⟩
      intro z hz
      rcases List.mem_cons.mp hz with rfl | hz
      · exact hxy
      · exact htrans _ _ _ hxy (h.1 z hz)
    · rw [if_neg hxy, List.pairwise_cons]
      refine ⟨?_, ih h.2⟩
      intro z hz
      rcases (mem_insertSorted le x z ys).mp hz with rfl | hz
      · exact htot _ _ (by simpa using hxy)
      · exact h.1 z hz

theorem stableSort_pairwise {α : Type} (le : α → α → Bool)
    (htot : ∀ a b, le a b = false → le b a = true)
    (htrans : ∀ a b c, le a b = true → le b c = true → le a c = true) (l : List α) :
    (stableSort le l).Pairwise (fun a b => le a b = true) := by
  induction l with
  | nil => simp [stableSort]
  | cons x xs ih => exact insertSorted_pairwise le htot htrans x _ ih

theorem entryLe_tot (a b : Nat × Nat) (h : entryLe a b = false) : entryLe b a = true := by
  simp only [entryLe, Bool.or_eq_false_iff, Bool.and_eq_false_iff, decide_eq_false_iff_not, beq_eq_false_iff_ne,
    Bool.or_eq_true, Bool.and_eq_true, decide_eq_true_eq, beq_iff_eq] at *
  omega

theorem entryLe_trans (a b c : Nat × Nat) (h1 : entryLe a b = true) (h2 : entryLe b c = true) :
    entryLe a c = true := by
  simp only [entryLe, Bool.or_eq_true, Bool.and_eq_true, decide_eq_true_eq, beq_iff_eq] at *
  omega

theorem entryLe_weight {a b : Nat × Nat} (h : entryLe a b = true) : a.2 ≤ b.2 := by
  simp only [entryLe, Bool.or_eq_true, Bool.and_eq_true, decide_eq_true_eq, beq_iff_eq] at h
  omega

/-! ### the entries -/

/-- Σ 2^(w − 1) over entries -/
def massL : List (Nat × Nat) → Nat
  | [] => 0
  | e :: es => 2 ^ (e.2 - 1) + massL es

theorem massL_perm {a b : List (Nat × Nat)} (h : a.Perm b) : massL a = massL b := by
  induction h with
  | nil => rfl
  | cons x _ ih => simp only [massL, ih]
  | swap x y l => simp only [massL]; omega
  | trans _ _ ih1 ih2 => rw [ih1, ih2]

theorem massL_sortEntries (ws : List Nat) (k : Nat) : massL (sortEntries ws k) = weightSum ws := by
  induction ws generalizing k with
  | nil => rfl
  | cons w ws ih =>
    simp only [sortEntries, weightSum]
    split
    · simp only [massL, ih]
    · rw [ih]; omega

theorem mem_sortEntries {ws : List Nat} {k : Nat} {e : Nat × Nat} (h : e ∈ sortEntries ws k) :
    ∃ s, s < ws.length ∧ ws[s]? = some e.2 ∧ e.2 > 0 ∧ e.1 = (k + s) % 256 := by
  induction ws generalizing k with
  | nil => simp [sortEntries] at h
  | cons w ws ih =>
    simp only [sortEntries] at h
    split at h
    · rcases List.mem_cons.mp h with rfl | h
      · exact ⟨0, by simp, by simp, by assumption, by simp⟩
      · obtain ⟨s, h1, h2, h3, h4⟩ := ih h
        exact ⟨s + 1, by simp; omega, by simpa using h2, h3, by rw [h4]; congr 1; omega⟩
    · obtain ⟨s, h1, h2, h3, h4⟩ := ih h
      exact ⟨s + 1, by simp; omega, by simpa using h2, h3, by rw [h4]; congr 1; omega⟩

theorem sortEntries_mem_of {ws : List Nat} {k s : Nat} (hs : s < ws.length) (h0 : ws[s] > 0) :
    ((k + s) % 256, ws[s]) ∈ sortEntries ws k := by
  induction ws generalizing k s with
  | nil => simp at hs
  | cons w ws ih =>
    simp only [sortEntries]
    cases s with
    | zero =>
      simp only [List.getElem_cons_zero] at h0
      simp [h0]
    | succ s =>
      simp only [List.getElem_cons_succ] at h0 ⊢
      have := ih (k := k + 1) (by simpa using hs) h0
      have e : k + 1 + s = k + (s + 1) := by omega
      rw [e] at this
      split
      · exact List.mem_cons_of_mem _ this
      · exact this

theorem sortEntries_nodup (ws : List Nat) (k : Nat) (h : k + ws.length ≤ 256) :
    (sortEntries ws k).Pairwise (fun a b => a.1 ≠ b.1) := by
  induction ws generalizing k with
  | nil => simp [sortEntries]
  | cons w ws ih =>
    simp only [List.length_cons] at h
    simp only [sortEntries]
    split
    · rw [List.pairwise_cons]
      refine ⟨?_, ih (k + 1) (by omega)⟩
      intro e he
      obtain ⟨s, h1, _, _, h4⟩ := mem_sortEntries he
      simp only
      rw [h4]
      have : (k + 1 + s) % 256 = k + 1 + s := Nat.mod_eq_of_lt (by omega)
      have : k % 256 = k := Nat.mod_eq_of_lt (by omega)
      omega
    · exact ih (k + 1) (by omega)

/-! ### the assignment loop -/

theorem massSum_ok : ∀ (es : List (Nat × Nat)) (acc : Nat), (∀ e ∈ es, e.2 ≤ 64) → acc + massL es < 2 ^ 64 →
    massSum es acc = .ok (acc + massL es)
  | [], acc, _, _ => by simp [massSum, massL]
  | (s, w) :: es, acc, hb, hlt => by
    have hw : w ≤ 64 := hb (s, w) List.mem_cons_self
    simp only [massL] at hlt
    simp only [massSum]
    rw [if_neg (by omega), if_neg (by omega)]
    rw [massSum_ok es _ (fun e he => hb e (List.mem_cons_of_mem _ he)) (by omega)]
    simp only [massL]; congr 1; omega

theorem setCode_ok : ∀ (codes : List (Nat × Nat)) (i : Nat) (v : Nat × Nat), i < codes.length →
    ∃ codes', setCode codes i v = .ok codes' ∧ codes'.length = codes.length ∧
      codes'[i]? = some v ∧ ∀ j, j ≠ i → codes'[j]? = codes[j]?
  | [], i, v, h => by simp at h
  | c :: cs, 0, v, _ => ⟨v :: cs, rfl, rfl, rfl, fun j hj => by
      cases j with
      | zero => exact absurd rfl hj
      | succ j => rfl⟩
  | c :: cs, i + 1, v, h => by
    obtain ⟨cs', h1, h2, h3, h4⟩ := setCode_ok cs i v (by simpa using h)
    refine ⟨c :: cs', by simp [setCode, h1], by simp [h2], by simpa using h3, ?_⟩
    intro j hj
    cases j with
    | zero => rfl
    | succ j => simpa using h4 j (by omega)

theorem massL_dvd {es : List (Nat × Nat)} {w : Nat} (h : ∀ e ∈ es, w ≤ e.2) (hw : 1 ≤ w) :
    2 ^ (w - 1) ∣ massL es := by
  induction es with
  | nil => exact Nat.dvd_zero _
  | cons e es ih =>
    simp only [massL]
    have h1 : w ≤ e.2 := h e List.mem_cons_self
    exact Nat.dvd_add (Nat.pow_dvd_pow 2 (by omega)) (ih (fun x hx => h x (List.mem_cons_of_mem _ hx)))

/-- The loop of `build_from_weights` over weight-sorted entries whose mass completes the mass
assigned so far to `2^m`. -/
theorem assignCodes_spec (m : Nat) (hm : m ≤ 32) : ∀ (es : List (Nat × Nat)) (curCode curW curNb : Nat)
    (codes : List (Nat × Nat)),
    es.Pairwise (fun a b => a.2 ≤ b.2) →
    (∀ e ∈ es, curW ≤ e.2 ∧ 1 ≤ e.2 ∧ e.2 ≤ m ∧ e.1 < codes.length) →
    (1 ≤ curW → curNb = m - curW + 1) → (curW = 0 → curCode = 0) →
    curCode * 2 ^ (curW - 1) + massL es = 2 ^ m →
    ∃ codes', assignCodes m es curCode curW curNb codes = .ok codes' ∧ codes'.length = codes.length ∧
      (∀ i, (∀ e ∈ es, e.1 ≠ i) → codes'[i]? = codes[i]?) ∧
      (es.Pairwise (fun a b => a.1 ≠ b.1) → ∀ idx e, es[idx]? = some e →
        ∃ c, codes'[e.1]? = some (c, m - e.2 + 1) ∧
          c * 2 ^ (e.2 - 1) = curCode * 2 ^ (curW - 1) + massL (es.take idx)) := by
  intro es
  induction es with
  | nil =>
    intro curCode curW curNb codes _ _ _ _ _
    exact ⟨codes, rfl, rfl, fun _ _ => rfl, fun _ idx e h => by simp at h⟩
  | cons e0 es ih =>
    intro curCode curW curNb codes hs hb hnb h0 hmass
    obtain ⟨sym, w⟩ := e0
    rw [List.pairwise_cons] at hs
    obtain ⟨hcw, hw1, hwm, hsym⟩ := hb (sym, w) List.mem_cons_self
    simp only at hcw hw1 hwm hsym
    simp only [massL] at hmass
    -- the code and the length of this entry
    have hdvd : 2 ^ (w - 1) ∣ curCode * 2 ^ (curW - 1) := by
      have d1 : 2 ^ (w - 1) ∣ 2 ^ m := Nat.pow_dvd_pow 2 (by omega)
      have d2 : 2 ^ (w - 1) ∣ 2 ^ (w - 1) + massL es :=
        Nat.dvd_add (Nat.dvd_refl _) (massL_dvd (fun x hx => hs.1 x hx) hw1)
      have : curCode * 2 ^ (curW - 1) = 2 ^ m - (2 ^ (w - 1) + massL es) := by omega
      rw [this]; exact Nat.dvd_sub d1 d2
    -- common continuation once code and nb are known
    have cont : ∀ code nb, nb = m - w + 1 → code * 2 ^ (w - 1) = curCode * 2 ^ (curW - 1) →
        (∀ codes1, setCode codes sym (code % 2 ^ 32, nb % 256) = .ok codes1 →
          assignCodes m ((sym, w) :: es) curCode curW curNb codes = assignCodes m es (code + 1) w nb codes1) →
        ∃ codes', assignCodes m ((sym, w) :: es) curCode curW curNb codes = .ok codes' ∧ codes'.length = codes.length ∧
          (∀ i, (∀ e ∈ (sym, w) :: es, e.1 ≠ i) → codes'[i]? = codes[i]?) ∧
          (((sym, w) :: es).Pairwise (fun a b => a.1 ≠ b.1) → ∀ idx e, ((sym, w) :: es)[idx]? = some e →
            ∃ c, codes'[e.1]? = some (c, m - e.2 + 1) ∧
              c * 2 ^ (e.2 - 1) = curCode * 2 ^ (curW - 1) + massL (((sym, w) :: es).take idx)) := by
      intro code nb hnbv hcode hstep
      obtain ⟨codes1, s1, s2, s3, s4⟩ := setCode_ok codes sym (code % 2 ^ 32, nb % 256) hsym
      have hcodelt : code < 2 ^ 32 := by
        -- code · 2^(w−1) < 2^m ≤ 2^32
        have hpos := Nat.two_pow_pos (w - 1)
        have h1 : code * 2 ^ (w - 1) < 2 ^ m := by omega
        have h2 : 2 ^ m ≤ 2 ^ 32 := Nat.pow_le_pow_right (by omega) hm
        have h3 : code ≤ code * 2 ^ (w - 1) := Nat.le_mul_of_pos_right _ hpos
        omega
      have hv : (code % 2 ^ 32, nb % 256) = (code, m - w + 1) := by
        rw [Nat.mod_eq_of_lt hcodelt, hnbv, Nat.mod_eq_of_lt (by omega)]
      rw [hv] at s3
      obtain ⟨codes', r1, r2, r3, r4⟩ := ih (code + 1) w nb codes1 hs.2
        (fun e he => by
          obtain ⟨_, b, c, d⟩ := hb e (List.mem_cons_of_mem _ he)
          exact ⟨hs.1 e he, b, c, by rw [s2]; exact d⟩)
        (fun _ => hnbv) (fun h => by omega)
        (by rw [Nat.add_mul, hcode]; omega)
      refine ⟨codes', by rw [hstep codes1 s1]; exact r1, by rw [r2, s2], ?_, ?_⟩
      · intro i hi
        rw [r3 i (fun e he => hi e (List.mem_cons_of_mem _ he))]
        exact s4 i (fun h => hi (sym, w) List.mem_cons_self h.symm)
      · intro hnd idx e he
        rw [List.pairwise_cons] at hnd
        cases idx with
        | zero =>
          simp only [List.getElem?_cons_zero, Option.some.injEq] at he
          subst he
          refine ⟨code, ?_, by simp [massL, hcode]⟩
          rw [r3 sym (fun e he => (hnd.1 e he).symm)]
          exact s3
        | succ idx =>
          simp only [List.getElem?_cons_succ] at he
          obtain ⟨c, q1, q2⟩ := r4 hnd.2 idx e he
          refine ⟨c, q1, ?_⟩
          rw [q2, List.take_succ_cons, massL, Nat.add_mul, hcode]
          simp only
          omega
    by_cases hcase : curW = w
    · -- same weight as the previous entry
      subst hcase
      have hnb' := hnb hw1
      apply cont curCode curNb hnb' rfl
      intro codes1 hset
      simp only [assignCodes, ne_eq, not_true_eq_false, if_false, hset]
    · -- the weight goes up: shift the code
      have hlt : curW < w := by omega
      have hD : curCode / 2 ^ (w - curW) * 2 ^ (w - 1) = curCode * 2 ^ (curW - 1) := by
        by_cases hc0 : curW = 0
        · have := h0 hc0; subst this; simp
        · have hsplit : 2 ^ (w - 1) = 2 ^ (w - curW) * 2 ^ (curW - 1) := by
            rw [← Nat.pow_add]; congr 1; omega
          rw [hsplit] at hdvd ⊢
          have hpos := Nat.two_pow_pos (curW - 1)
          have hd : 2 ^ (w - curW) ∣ curCode := Nat.dvd_of_mul_dvd_mul_right hpos hdvd
          rw [← Nat.mul_assoc, Nat.div_mul_cancel hd]
      apply cont (curCode / 2 ^ (w - curW)) (m - w + 1) rfl hD
      intro codes1 hset
      simp only [assignCodes, ne_eq, hcase, not_false_eq_true, if_true]
      rw [if_neg (by omega), if_neg (by omega), if_neg (by omega)]
      simp only [hset]

/-! ### `build_from_weights` as a whole -/

theorem massL_append (a b : List (Nat × Nat)) : massL (a ++ b) = massL a + massL b := by
  induction a with
  | nil => simp [massL]
  | cons e a ih => simp only [List.cons_append, massL, ih]; omega

theorem massL_take_succ {l : List (Nat × Nat)} {i : Nat} {e : Nat × Nat} (h : l[i]? = some e) :
    massL (l.take (i + 1)) = massL (l.take i) + 2 ^ (e.2 - 1) := by
  rw [List.take_add_one, h, massL_append]; simp [massL]

theorem massL_take_mono (l : List (Nat × Nat)) {i j : Nat} (h : i ≤ j) : massL (l.take i) ≤ massL (l.take j) := by
  have : l.take j = l.take i ++ (l.take j).drop i := by
    have := List.take_append_drop i (l.take j)
    rw [List.take_take, Nat.min_eq_left h] at this
    exact this.symm
  rw [this, massL_append]; omega

/-- `a` is a prefix of `b` (codes as (bits, length), most significant bit first) — the test of the
unit test `weights`: `code2 >> (num_bits2 - num_bits) == code` -/
def IsPrefixOf (a b : Nat × Nat) : Prop := a.2 ≤ b.2 ∧ b.1 / 2 ^ (b.2 - a.2) = a.1

/-- What `build_from_weights` returns for Kraft-complete weights. -/
structure CodesOk (ws : List Nat) (m : Nat) (codes : List (Nat × Nat)) : Prop where
  len : codes.length = ws.length
  unused : ∀ s (h : s < ws.length), ws[s] = 0 → codes[s]? = some (0, 0)
  used : ∀ s (h : s < ws.length), ws[s] > 0 →
    ∃ c, codes[s]? = some (c, m + 1 - ws[s]) ∧ c < 2 ^ (m + 1 - ws[s])
  prefixFree : ∀ s s' (h : s < ws.length) (h' : s' < ws.length), s ≠ s' → ws[s] > 0 → ws[s'] > 0 →
    ∀ a b, codes[s]? = some a → codes[s']? = some b → ¬ IsPrefixOf a b

theorem buildFromWeights_ok (ws : List Nat) (m : Nat) (hlen : ws.length ≤ 256) (hm : m ≤ 32)
    (hle : ∀ w ∈ ws, w ≤ m) (hk : weightSum ws = 2 ^ m) :
    ∃ t, buildFromWeights ws = .ok t ∧ CodesOk ws m t.codes := by
  let E := sortEntries ws 0
  let S := stableSort entryLe E
  have hperm : S.Perm E := stableSort_perm entryLe E
  have hmassS : massL S = 2 ^ m := by rw [massL_perm hperm, massL_sortEntries, hk]
  have hmemS : ∀ e ∈ S, ∃ s, s < ws.length ∧ ws[s]? = some e.2 ∧ e.2 > 0 ∧ e.1 = s := by
    intro e he
    obtain ⟨s, h1, h2, h3, h4⟩ := mem_sortEntries (hperm.mem_iff.mp he)
    refine ⟨s, h1, h2, h3, ?_⟩
    rw [h4, Nat.zero_add]; exact Nat.mod_eq_of_lt (by omega)
  have hwS : ∀ e ∈ S, 1 ≤ e.2 ∧ e.2 ≤ m ∧ e.1 < ws.length := by
    intro e he
    obtain ⟨s, h1, h2, h3, h4⟩ := hmemS e he
    refine ⟨h3, ?_, by omega⟩
    have : e.2 ∈ ws := by
      rw [List.getElem?_eq_getElem h1] at h2
      simp only [Option.some.injEq] at h2
      rw [← h2]; exact List.getElem_mem _
    exact hle _ this
  have hsum : massSum S 0 = .ok (2 ^ m) := by
    have := massSum_ok S 0 (fun e he => by have := (hwS e he).2.1; omega)
      (by rw [Nat.zero_add, hmassS]; exact Nat.pow_lt_pow_right (by omega) (by omega))
    rw [this, Nat.zero_add, hmassS]
  have hpow : isPow2 (2 ^ m) = true := by
    rw [isPow2_iff]; exact ⟨by have := Nat.two_pow_pos m; omega, by rw [Nat.log2_two_pow]⟩
  have hsorted : S.Pairwise (fun a b => a.2 ≤ b.2) :=
    (stableSort_pairwise entryLe entryLe_tot entryLe_trans E).imp entryLe_weight
  have hnodup : S.Pairwise (fun a b => a.1 ≠ b.1) :=
    (List.Perm.pairwise_iff (fun h => Ne.symm h) hperm).mpr (sortEntries_nodup ws 0 (by omega))
  obtain ⟨codes', r1, r2, r3, r4⟩ := assignCodes_spec m hm S 0 0 0 (List.replicate ws.length (0, 0)) hsorted
    (fun e he => by
      obtain ⟨a, b, c⟩ := hwS e he
      exact ⟨Nat.zero_le _, a, b, by simpa using c⟩)
    (fun h => by omega) (fun _ => rfl) (by rw [Nat.zero_mul, Nat.zero_add, hmassS])
  have r4' := r4 hnodup
  simp only [Nat.zero_mul, Nat.zero_add] at r4'
  refine ⟨{ codes := codes' }, ?_, ?_⟩
  · have hsum' : massSum (stableSort entryLe (sortEntries ws 0)) 0 = .ok (2 ^ m) := hsum
    have r1' : assignCodes m (stableSort entryLe (sortEntries ws 0)) 0 0 0 (List.replicate ws.length (0, 0))
        = .ok codes' := r1
    unfold buildFromWeights
    simp only [hsum', hpow, Bool.not_true, Bool.false_eq_true, if_false, Nat.log2_two_pow, r1']
  · -- the position of every used symbol in the sorted list
    have hfind : ∀ (s : Nat) (h : s < ws.length), ws[s] > 0 → ∃ idx : Nat, S[idx]? = some (s, ws[s]) := by
      intro s h h0
      have : ((0 + s) % 256, ws[s]) ∈ E := sortEntries_mem_of h h0
      rw [Nat.zero_add, Nat.mod_eq_of_lt (by omega)] at this
      exact List.getElem?_of_mem (hperm.mem_iff.mpr this)
    have hused : ∀ (s : Nat) (h : s < ws.length), ws[s] > 0 → ∃ (idx c : Nat), S[idx]? = some (s, ws[s]) ∧
        codes'[s]? = some (c, m + 1 - ws[s]) ∧ c * 2 ^ (ws[s] - 1) = massL (S.take idx) := by
      intro s h h0
      obtain ⟨idx, hidx⟩ := hfind s h h0
      obtain ⟨c, q1, q2⟩ := r4' idx _ hidx
      have hwm : ws[s] ≤ m := hle _ (List.getElem_mem _)
      refine ⟨idx, c, hidx, ?_, q2⟩
      simp only at q1
      rw [q1]; congr 2; omega
    have htake_lt : ∀ (idx : Nat) (e : Nat × Nat), S[idx]? = some e → massL (S.take idx) + 2 ^ (e.2 - 1) ≤ 2 ^ m := by
      intro idx e he
      rw [← massL_take_succ he, ← hmassS]
      have := massL_take_mono S (Nat.le_refl (idx + 1))
      have h2 : massL (S.take (idx + 1)) ≤ massL (S.take S.length) := by
        by_cases hh : idx + 1 ≤ S.length
        · exact massL_take_mono S hh
        · rw [List.take_of_length_le (by omega), List.take_of_length_le (Nat.le_refl _)]; exact Nat.le_refl _
      rw [List.take_length] at h2
      exact h2
    refine ⟨by rw [r2]; simp, ?_, ?_, ?_⟩
    · intro s h h0
      rw [r3 s ?_]
      · simp [h]
      · intro e he hes
        obtain ⟨s', h1, h2, h3, h4⟩ := hmemS e he
        have : s' = s := by omega
        subst this
        rw [List.getElem?_eq_getElem h] at h2
        simp only [Option.some.injEq] at h2
        omega
    · intro s h h0
      obtain ⟨idx, c, hidx, hc, hpos⟩ := hused s h h0
      refine ⟨c, hc, ?_⟩
      have hwm : ws[s] ≤ m := hle _ (List.getElem_mem _)
      have hb := htake_lt idx _ hidx
      simp only at hb
      rw [← hpos] at hb
      -- c·2^(w−1) + 2^(w−1) ≤ 2^m  ⇒  c < 2^(m+1−w)
      have hsplit : 2 ^ m = 2 ^ (m + 1 - ws[s]) * 2 ^ (ws[s] - 1) := by
        rw [← Nat.pow_add]; congr 1; omega
      rw [hsplit] at hb
      have hpos2 := Nat.two_pow_pos (ws[s] - 1)
      have : (c + 1) * 2 ^ (ws[s] - 1) ≤ 2 ^ (m + 1 - ws[s]) * 2 ^ (ws[s] - 1) := by
        rw [Nat.add_mul]; omega
      have := Nat.le_of_mul_le_mul_right this hpos2
      omega
    · intro s s' h h' hne h0 h0' a b ha hb ⟨p1, p2⟩
      obtain ⟨idx, c, hidx, hc, hpos⟩ := hused s h h0
      obtain ⟨idx', c', hidx', hc', hpos'⟩ := hused s' h' h0'
      rw [hc] at ha; rw [hc'] at hb
      simp only [Option.some.injEq] at ha hb
      subst ha; subst hb
      simp only at p1 p2
      have hwm : ws[s] ≤ m := hle _ (List.getElem_mem _)
      have hwm' : ws[s'] ≤ m := hle _ (List.getElem_mem _)
      have hww : ws[s'] ≤ ws[s] := by omega
      have hd : m + 1 - ws[s'] - (m + 1 - ws[s]) = ws[s] - ws[s'] := by omega
      rw [hd] at p2
      -- c·2^(w−w') ≤ c' < (c+1)·2^(w−w')
      have hD := Nat.two_pow_pos (ws[s] - ws[s'])
      have l1 : c * 2 ^ (ws[s] - ws[s']) ≤ c' := by
        rw [← p2]; exact Nat.div_mul_le_self _ _
      have l2 : c' < (c + 1) * 2 ^ (ws[s] - ws[s']) := by
        rw [← p2, Nat.mul_comm]; exact Nat.lt_mul_div_succ _ hD
      have hsplit : 2 ^ (ws[s] - 1) = 2 ^ (ws[s] - ws[s']) * 2 ^ (ws[s'] - 1) := by
        rw [← Nat.pow_add]; congr 1; omega
      have hP := Nat.two_pow_pos (ws[s'] - 1)
      -- in units of 2^(w'−1): start ≤ start' < start + 2^(w−1)
      have m1 : massL (S.take idx) ≤ massL (S.take idx') := by
        rw [← hpos, ← hpos', hsplit, ← Nat.mul_assoc]
        exact Nat.mul_le_mul_right _ l1
      have m2 : massL (S.take idx') < massL (S.take idx) + 2 ^ (ws[s] - 1) := by
        rw [← hpos, ← hpos']
        have : c' * 2 ^ (ws[s'] - 1) < (c + 1) * 2 ^ (ws[s] - ws[s']) * 2 ^ (ws[s'] - 1) :=
          Nat.mul_lt_mul_of_pos_right l2 hP
        rw [Nat.mul_assoc, ← hsplit, Nat.add_mul] at this
        omega
      -- but the cells of different entries are disjoint
      have hidxne : idx ≠ idx' := by
        intro h; subst h; rw [hidx] at hidx'
        simp only [Option.some.injEq, Prod.mk.injEq] at hidx'
        exact hne hidx'.1
      rcases Nat.lt_or_gt_of_ne hidxne with hlt | hgt
      · have := massL_take_mono S (show idx + 1 ≤ idx' by omega)
        rw [massL_take_succ hidx] at this
        simp only at this
        omega
      · have := massL_take_mono S (show idx' + 1 ≤ idx by omega)
        rw [massL_take_succ hidx'] at this
        simp only at this
        omega

end Zstd.Proofs.Huf
