import Zstd.Proofs.FrameDecoderTwin
import Zstd.Proofs.FrameDecoderFollows
/-
Multi-frame decoding (C10): a frame decoded from `f ++ rest` is decoded exactly as from `f` alone,
leaving `rest` untouched (append lemmas for every reader and loop); `decode_all` over any
concatenation of frames and skippable frames.
-/
set_option linter.unusedSectionVars false
namespace Zstd.Model
open Zstd

variable {σ : Type} [BlockDec σ] [BlockContract σ]

theorem readExact_append (n : Nat) (s x : Src) (t r : List Nat) (h : readExact n s = some (t, r)) :
    readExact n (s ++ x) = some (t, r ++ x) := by
  rw [readExact_eq_some] at h ⊢
  obtain ⟨h1, rfl, rfl⟩ := h
  refine ⟨by rw [List.length_append]; omega, ?_, ?_⟩
  · rw [List.take_append_of_le_length h1]
  · rw [List.drop_append_of_le_length h1]

/-- a frame header parsed from `s` parses identically from `s ++ x`, leaving `x` behind the rest -/
theorem readFrameHeader_append (s x : Src) (h : FHeader) (n : Nat) (rest : Src)
    (hr : readFrameHeader s = .ok (h, n, rest)) : readFrameHeader (s ++ x) = .ok (h, n, rest ++ x) := by
  simp only [readFrameHeader] at hr ⊢
  split at hr
  · cases hr
  · rename_i m s1 h4
    rw [readExact_append 4 s x _ _ h4]
    simp only
    split at hr
    · split at hr <;> cases hr
    · rename_i hskip
      rw [if_neg hskip]
      split at hr
      · cases hr
      · rename_i hmag
        rw [if_neg hmag]
        split at hr
        · cases hr
        · rename_i dd s2 h1
          rw [readExact_append 1 s1 x _ _ h1]
          simp only
          split at hr
          · cases hr
          · rename_i wd s3 hw
            have hw' : (if dd.headD 0 / 32 % 2 = 1 then some ([0], s2 ++ x) else readExact 1 (s2 ++ x)) = some (wd, s3 ++ x) := by
              split at hw
              · rename_i hsing
                rw [if_pos hsing]
                simp only [Option.some.injEq, Prod.mk.injEq] at hw
                rw [hw.1, hw.2]
              · rename_i hsing
                rw [if_neg hsing]
                exact readExact_append 1 s2 x _ _ hw
            rw [hw']
            simp only
            split at hr
            · cases hr
            · rename_i db s4 hdid
              rw [readExact_append _ s3 x _ _ hdid]
              simp only
              split at hr
              · cases hr
              · rename_i fb s5 hf
                rw [readExact_append _ s4 x _ _ hf]
                simp only [Except.ok.injEq, Prod.mk.injEq] at hr ⊢
                exact ⟨hr.1, hr.2.1, by rw [hr.2.2]⟩

/-- a block decoded from `s` is decoded identically from `s ++ x`, leaving `x` behind the rest -/
theorem decodeOneBlock_append (st st' : FState σ) (s s1 x : Src) (bh : BHeader)
    (h : decodeOneBlock st s = (st', .ok (bh, s1))) :
    decodeOneBlock st (s ++ x) = (st', .ok (bh, s1 ++ x)) := by
  obtain ⟨hlen, rfl, hp, hb, -, -⟩ := decodeOneBlock_ok _ _ _ _ _ h
  have hg : ∀ i, i < 3 → (s ++ x).getD i 0 = s.getD i 0 := by
    intro i hi
    simp only [List.getD_eq_getElem?_getD]
    rw [List.getElem?_append_left (by omega)]
  rw [decodeOneBlock_eq, if_neg (by rw [List.length_append]; omega), hg 0 (by omega), hg 1 (by omega), hg 2 (by omega)]
  simp only [hp]
  rw [if_neg (by rw [List.length_append]; omega)]
  have e1 : ((s ++ x).drop 3).take bh.contentSize = (s.drop 3).take bh.contentSize := by
    rw [List.drop_append_of_le_length (by omega), List.take_append_of_le_length (by rw [List.length_drop]; omega)]
  rw [e1, hb, List.drop_append_of_le_length hlen]
  rfl

theorem decodeBlocksLoop_append (strat : Strategy) (a c fuel fuel' : Nat) (st st' : FState σ) (s rest x : Src)
    (hf : s.length < fuel) (hff : fuel ≤ fuel')
    (h : decodeBlocksLoop strat a c fuel st s = (st', .ok rest)) :
    decodeBlocksLoop strat a c fuel' st (s ++ x) = (st', .ok (rest ++ x)) := by
  induction fuel generalizing fuel' st s with
  | zero => omega
  | succ fuel ih =>
    obtain ⟨fuel', rfl⟩ : ∃ g, fuel' = g + 1 := ⟨fuel' - 1, by omega⟩
    rw [decodeBlocksLoop_succ] at h ⊢
    split at h
    · cases h
    · cases h
    · rename_i st1 bh s1 heq
      rw [decodeOneBlock_append _ _ _ _ x _ heq]
      have hl1 := (decodeOneBlock_ok _ _ _ _ _ heq)
      simp only
      split at h
      · rename_i hl
        rw [if_pos hl]
        split at h
        · rename_i hflag
          rw [if_pos hflag]
          split at h
          · cases h
          · rename_i cb s2 hr
            rw [readExact_append 4 s1 x _ _ hr]
            simp only [Prod.mk.injEq, Out.ok.injEq] at h ⊢
            exact ⟨h.1, by rw [h.2]⟩
        · rename_i hflag
          rw [if_neg hflag]
          simp only [Prod.mk.injEq, Out.ok.injEq] at h ⊢
          exact ⟨h.1, by rw [h.2]⟩
      · rename_i hl
        rw [if_neg hl]
        split at h
        · rename_i hs
          rw [if_pos hs]
          simp only [Prod.mk.injEq, Out.ok.injEq] at h ⊢
          exact ⟨h.1, by rw [h.2]⟩
        · rename_i hs
          rw [if_neg hs]
          refine ih _ _ _ ?_ (by omega) h
          rw [hl1.2.1, List.length_drop]; omega

theorem Decoder.decodeBlocks_append (d d' : Decoder σ) (s rest x : Src) (strat : Strategy) (fin : Bool)
    (h : d.decodeBlocks s strat = (d', .ok (rest, fin))) :
    d.decodeBlocks (s ++ x) strat = (d', .ok (rest ++ x, fin)) := by
  cases hst : d.state with
  | none => simp [Decoder.decodeBlocks, hst] at h
  | some st =>
    rw [Decoder.decodeBlocks_some d st s strat hst] at h
    rw [Decoder.decodeBlocks_some d st (s ++ x) strat hst]
    cases hl : decodeBlocksLoop strat st.buf.content.size st.blockCounter (s.length + 1) st s with
    | mk st' o =>
      rw [hl] at h
      cases o with
      | err e => cases h
      | fault f => cases h
      | ok r =>
        simp only [Prod.mk.injEq, Out.ok.injEq] at h
        obtain ⟨rfl, rfl, rfl⟩ := h
        rw [decodeBlocksLoop_append strat _ _ (s.length + 1) ((s ++ x).length + 1) st st' s r x (by omega)
          (by rw [List.length_append]; omega) hl]


/-- a `decode_blocks` run that started before the last block reports the frame finished exactly when
`is_finished()` says so (the checksum, if flagged, was read in the same call) -/
theorem decodeBlocksLoop_finished_iff (strat : Strategy) (a c fuel : Nat) (st st' : FState σ) (s rest : Src)
    (hnf : st.finished = false) (h : decodeBlocksLoop strat a c fuel st s = (st', .ok rest)) :
    st'.finished = true → st'.header.checksumFlag = true → st'.checksum.isSome = true := by
  induction fuel generalizing st s with
  | zero =>
    simp only [decodeBlocksLoop, Prod.mk.injEq] at h
    intro hf; rw [← h.1, hnf] at hf; cases hf
  | succ fuel ih =>
    rw [decodeBlocksLoop_succ] at h
    split at h
    · cases h
    · cases h
    · rename_i st1 bh s1 heq
      have hb := decodeOneBlock_step st s
      rw [heq] at hb
      simp only at hb
      split at h
      · split at h
        · split at h
          · cases h
          · cases h; intro _ _; rfl
        · rename_i hflag
          cases h; intro _ hc; simp only at hc; exact absurd hc hflag
      · split at h
        · cases h; intro hf; rw [hb.finished, hnf] at hf; cases hf
        · exact ih _ _ (by rw [hb.finished, hnf]) h

theorem Decoder.decodeBlocks_finished_iff (d d' : Decoder σ) (s rest : Src) (strat : Strategy) (fin : Bool)
    (hnd : d.blocksDone = false) (h : d.decodeBlocks s strat = (d', .ok (rest, fin))) :
    d'.isFinished = d'.blocksDone := by
  cases hst : d.state with
  | none => simp [Decoder.decodeBlocks, hst] at h
  | some st =>
    rw [Decoder.decodeBlocks_some d st s strat hst] at h
    cases hl : decodeBlocksLoop strat st.buf.content.size st.blockCounter (s.length + 1) st s with
    | mk st' o =>
      rw [hl] at h
      cases o with
      | err e => cases h
      | fault f => cases h
      | ok r =>
        simp only [Prod.mk.injEq, Out.ok.injEq] at h
        obtain ⟨rfl, rfl, rfl⟩ := h
        have := decodeBlocksLoop_finished_iff _ _ _ _ _ _ _ _ (by simpa [Decoder.blocksDone, hst] using hnd) hl
        simp only [Decoder.isFinished, Decoder.blocksDone]
        split
        · rename_i hflag
          cases hf : st'.finished with
          | false => rfl
          | true => simp [this hf hflag]
        · rfl

/-- when a `read(room)` leaves nothing collectable, a larger target gets the same bytes -/
theorem Decoder.read_stable (d : Decoder σ) (room extra : Nat) (hfin : d.isFinished = d.blocksDone)
    (hc : (d.read room).1.canCollect = 0) : d.read (room + extra) = d.read room := by
  cases hst : d.state with
  | none => simp [Decoder.read, hst]
  | some st =>
    have hfin' : (if st.header.checksumFlag then st.finished && st.checksum.isSome else st.finished) = st.finished := by
      simpa [Decoder.isFinished, Decoder.blocksDone, hst] using hfin
    simp only [Decoder.read, hst, Decoder.canCollect, Decoder.isFinished, hfin', DBuf.take_content_size,
      DBuf.canDrainToWindow, DBuf.take_window] at hc ⊢
    cases hf : st.finished with
    | true =>
      simp only [hf, if_true] at hc ⊢
      have : min st.buf.content.size (room + extra) = min st.buf.content.size room := by omega
      rw [this]
    | false =>
      simp only [hf, Bool.false_eq_true, if_false] at hc ⊢
      by_cases hgt : st.buf.content.size > st.buf.window
      · simp only [hgt, if_true, Option.getD_some] at hc ⊢
        have : min (st.buf.content.size - st.buf.window) (room + extra) = min (st.buf.content.size - st.buf.window) room := by
          split at hc
          · simp at hc; omega
          · omega
        rw [this]
      · simp only [hgt, if_false, Option.getD_none, Nat.zero_min]


/-- the per-frame loop of `decode_all` on `s ++ x`, with a larger target and some output already
written: same frame, `x` untouched behind it, the extra room left over -/
theorem decodeAllFrame_append (fuel fuel' : Nat) (d d' : Decoder σ) (s s' x : Src) (room room' extra : Nat)
    (out out' out2 : Array Nat) (hnd : d.blocksDone = false) (hf : s.length < fuel) (hff : fuel ≤ fuel')
    (h : decodeAllFrame fuel d s room out = (d', .ok (s', room', out'))) :
    ∃ y, out' = out ++ y ∧
      decodeAllFrame fuel' d (s ++ x) (room + extra) out2 = (d', .ok (s' ++ x, room' + extra, out2 ++ y)) := by
  induction fuel generalizing fuel' d s room out out2 with
  | zero => omega
  | succ fuel ih =>
    obtain ⟨fuel', rfl⟩ : ∃ g, fuel' = g + 1 := ⟨fuel' - 1, by omega⟩
    rw [decodeAllFrame] at h ⊢
    split at h
    · cases h
    · cases h
    · rename_i d1 s1 fin heq
      rw [Decoder.decodeBlocks_append _ _ _ _ x _ _ heq]
      have hc := (Decoder.decodeBlocks_ok_consumes _ _ _ _ _ _ heq).1
      have hfi := Decoder.decodeBlocks_finished_iff _ _ _ _ _ _ hnd heq
      simp only at h ⊢
      split at h
      · cases h
      · rename_i hcc
        have hcc0 : (d1.read room).1.canCollect = 0 := by simpa using hcc
        have hst := Decoder.read_stable d1 room extra hfi hcc0
        have hsz : (d1.read room).2.size ≤ room := by
          cases hs : d1.state with
          | none => simp [Decoder.read, hs]
          | some st =>
            obtain ⟨k, hk, -, hr⟩ := Decoder.read_state d1 st room hs
            rw [hr, DBuf.take_fst_size]; omega
        rw [hst, if_neg hcc]
        split at h
        · rename_i hfin
          rw [if_pos hfin]
          simp only [Prod.mk.injEq, Out.ok.injEq] at h
          obtain ⟨rfl, rfl, rfl, rfl⟩ := h
          exact ⟨_, rfl, by rw [show room + extra - (d1.read room).2.size = room - (d1.read room).2.size + extra by omega]⟩
        · rename_i hfin
          rw [if_neg hfin]
          have hnd2 : (d1.read room).1.blocksDone = false := by
            have h1 : (d1.read room).1.isFinished = (d1.read room).1.blocksDone := by
              have := applyDrain_blocksDone d1 (.read room)
              simp only [applyDrain] at this
              rw [this]
              -- isFinished is not changed by a drain either
              rcases applyDrain_take d1 (.read room) with ⟨hn, he⟩ | ⟨st, k, hs, hk, he⟩
              · simp only [applyDrain] at he; rw [he]; exact hfi
              · simp only [applyDrain] at he; rw [he]
                simp only [Decoder.isFinished]
                simpa [Decoder.isFinished, hs] using hfi
            rw [← h1]; simpa using hfin
          obtain ⟨y, hy1, hy2⟩ := ih (fuel' := fuel') (d1.read room).1 s1 (room - (d1.read room).2.size)
            (out ++ (d1.read room).2) (out2 ++ (d1.read room).2) hnd2 (by omega) (by omega) h
          refine ⟨(d1.read room).2 ++ y, by rw [hy1, Array.append_assoc], ?_⟩
          rw [show room + extra - (d1.read room).2.size = room - (d1.read room).2.size + extra by omega, hy2,
            Array.append_assoc]


theorem resetCore_append (dicts : List (Dict σ)) (mw : Nat) (f x : Src) (st : FState σ) (s1 : Src)
    (h : resetCore dicts mw f = .replace st (.ok s1)) :
    resetCore dicts mw (f ++ x) = .replace st (.ok (s1 ++ x)) := by
  simp only [resetCore] at h ⊢
  split at h
  · cases h
  · rename_i hd n rest hr
    rw [readFrameHeader_append f x hd n rest hr]
    simp only
    split at h
    · cases h
    · rename_i w hw
      split at h
      · cases h
      · rename_i hlim
        rw [if_neg hlim]
        simp only [applyDictChoice] at h ⊢
        split at h
        · simp only [ResetResult.replace.injEq, Out.ok.injEq] at h
          simp only [ResetResult.replace.injEq, Out.ok.injEq]
          exact ⟨h.1, by rw [h.2]⟩
        · split at h
          · cases h
          · simp only [ResetResult.replace.injEq, Out.ok.injEq] at h
            simp only [ResetResult.replace.injEq, Out.ok.injEq]
            exact ⟨h.1, by rw [h.2]⟩


/-- a complete skippable frame: magic in range, declared length = what follows the 8-byte header -/
def IsSkippable (seg : List Nat) : Prop :=
  8 ≤ seg.length ∧ Gen.skipMagicLo ≤ leNat (seg.take 4) ∧ leNat (seg.take 4) ≤ Gen.skipMagicHi ∧
  leNat ((seg.drop 4).take 4) = seg.length - 8

theorem decodeAllLoop_skips (segs : List (List Nat)) (hs : ∀ seg ∈ segs, IsSkippable seg) (f : Nat) (d : Decoder σ)
    (rest : Src) (room : Nat) (out : Array Nat) :
    decodeAllLoop (segs.length + f) d (segs.flatten ++ rest) room out = decodeAllLoop f d rest room out := by
  induction segs with
  | nil => simp
  | cons seg segs ih =>
    obtain ⟨h8, hlo, hhi, hlen⟩ := hs seg List.mem_cons_self
    have ht : ((seg :: segs).flatten ++ rest) = seg ++ (segs.flatten ++ rest) := by simp
    have e1 : (seg ++ (segs.flatten ++ rest)).take 4 = seg.take 4 := List.take_append_of_le_length (by omega)
    have e2 : ((seg ++ (segs.flatten ++ rest)).drop 4).take 4 = (seg.drop 4).take 4 := by
      rw [List.drop_append_of_le_length (by omega), List.take_append_of_le_length (by rw [List.length_drop]; omega)]
    rw [ht, show (seg :: segs).length + f = (segs.length + f) + 1 by simp; omega,
      decodeAllLoop_skip _ d _ room out (by rw [List.length_append]; omega) (by rw [e1]; exact ⟨hlo, hhi⟩)
        (by rw [e2, hlen, List.length_append]; omega)]
    rw [e2, hlen, show 8 + (seg.length - 8) = seg.length by omega, List.drop_left]
    exact ih (fun s hs' => hs s (List.mem_cons_of_mem _ hs'))

/-- leading skippable frames are transparent to `decode_all`: skipped exactly, nothing written, the
decoder untouched -/
theorem Decoder.decodeAll_skips (segs : List (List Nat)) (hs : ∀ seg ∈ segs, IsSkippable seg) (d : Decoder σ)
    (rest : Src) (room : Nat) : d.decodeAll (segs.flatten ++ rest) room = d.decodeAll rest room := by
  have hlen : segs.length ≤ segs.flatten.length := by
    induction segs with
    | nil => simp
    | cons seg segs ih =>
      have := (hs seg List.mem_cons_self).1
      have := ih (fun s hs' => hs s (List.mem_cons_of_mem _ hs'))
      simp only [List.length_cons, List.flatten_cons, List.length_append]; omega
  simp only [Decoder.decodeAll]
  have e : (segs.flatten ++ rest).length + 1 = segs.length + ((segs.flatten ++ rest).length + 1 - segs.length) := by
    rw [List.length_append]; omega
  rw [e, decodeAllLoop_skips segs hs]
  exact decodeAllLoop_fuel _ _ d rest room #[] (by rw [List.length_append]; omega) (Nat.lt_succ_self _)


/-- one segment of a multi-frame input: a skippable frame, or a frame with the content it decodes to -/
inductive Segment where
  | skip (bytes : List Nat)
  | frame (bytes : List Nat) (content : Array Nat)

def Segment.bytes : Segment → List Nat
  | .skip b => b
  | .frame b _ => b

def Segment.content : Segment → Array Nat
  | .skip _ => #[]
  | .frame _ c => c

/-- a frame segment is valid for a decoder configuration when `decode_all`'s per-frame loop, run on
the segment alone after `init`, consumes all of it, finishes, and delivers `content` into a target
of exactly that size -/
def Segment.Valid (dicts : List (Dict σ)) (mw : Nat) : Segment → Prop
  | .skip b => IsSkippable b
  | .frame b c => ∃ st s1 d2, resetCore dicts mw b = .replace st (.ok s1) ∧
      decodeAllFrame (s1.length + 2) { state := some st, dicts := dicts, maxWindow := mw } s1 c.size #[] = (d2, .ok ([], 0, c))

def totalContent (segs : List Segment) : Array Nat := segs.foldr (fun sg acc => sg.content ++ acc) #[]
def totalBytes (segs : List Segment) : List Nat := (segs.map Segment.bytes).flatten

theorem decodeAllLoop_concat (dicts : List (Dict σ)) (mw : Nat) (segs : List Segment)
    (hv : ∀ sg ∈ segs, sg.Valid dicts mw) (f : Nat) (d : Decoder σ) (hd : d.dicts = dicts ∧ d.maxWindow = mw)
    (rest : Src) (room : Nat) (out : Array Nat) (hroom : (totalContent segs).size ≤ room) :
    ∃ d', (d'.dicts = dicts ∧ d'.maxWindow = mw) ∧
      decodeAllLoop (segs.length + f) d (totalBytes segs ++ rest) room out =
        decodeAllLoop f d' rest (room - (totalContent segs).size) (out ++ totalContent segs) := by
  induction segs generalizing d room out with
  | nil => exact ⟨d, hd, by simp [totalBytes, totalContent]⟩
  | cons sg segs ih =>
    have hvs : ∀ s ∈ segs, s.Valid dicts mw := fun s hs => hv s (List.mem_cons_of_mem _ hs)
    have hb : totalBytes (sg :: segs) ++ rest = sg.bytes ++ (totalBytes segs ++ rest) := by
      simp [totalBytes]
    have hc : totalContent (sg :: segs) = sg.content ++ totalContent segs := rfl
    rw [hb, hc, show (sg :: segs).length + f = (segs.length + f) + 1 by simp; omega]
    rw [hc, Array.size_append] at hroom
    cases sg with
    | skip b =>
      have hsk : IsSkippable b := hv _ List.mem_cons_self
      obtain ⟨h8, hlo, hhi, hlen⟩ := hsk
      have e1 : (b ++ (totalBytes segs ++ rest)).take 4 = b.take 4 := List.take_append_of_le_length (by omega)
      have e2 : ((b ++ (totalBytes segs ++ rest)).drop 4).take 4 = (b.drop 4).take 4 := by
        rw [List.drop_append_of_le_length (by omega), List.take_append_of_le_length (by rw [List.length_drop]; omega)]
      simp only [Segment.bytes, Segment.content]
      rw [decodeAllLoop_skip _ d _ room out (by rw [List.length_append]; omega) (by rw [e1]; exact ⟨hlo, hhi⟩)
        (by rw [e2, hlen, List.length_append]; omega)]
      rw [e2, hlen, show 8 + (b.length - 8) = b.length by omega, List.drop_left]
      obtain ⟨d', hd', he⟩ := ih hvs d hd room out (by simp only [Segment.content] at hroom; simpa using hroom)
      exact ⟨d', hd', by rw [he]; simp⟩
    | frame b c =>
      obtain ⟨st, s1, d2, hr, hfr⟩ := hv _ List.mem_cons_self
      simp only [Segment.bytes, Segment.content] at hroom ⊢
      have hrc := resetCore_replace _ _ _ _ _ hr
      have hne : b ++ (totalBytes segs ++ rest) ≠ [] := by
        intro h
        have : b.length = 0 := by
          have := congrArg List.length h
          simp only [List.length_append, List.length_nil] at this; omega
        have := hrc.2.2.2.2.2.2.1
        have := hrc.2.2.2.2.2.2.2.1
        omega
      rw [decodeAllLoop_succ _ _ _ _ _ hne]
      have hreset : d.reset (b ++ (totalBytes segs ++ rest)) =
          ({ d with state := some st }, .ok (s1 ++ (totalBytes segs ++ rest))) := by
        simp only [Decoder.reset, hd.1, hd.2, resetCore_append dicts mw b _ st s1 hr]
      rw [hreset]
      simp only
      have hd1 : ({ d with state := some st } : Decoder σ) = { state := some st, dicts := dicts, maxWindow := mw } := by
        obtain ⟨s0, di, m⟩ := d
        simp only at hd
        simp [hd.1, hd.2]
      obtain ⟨y, hy1, hy2⟩ := decodeAllFrame_append (s1.length + 2) ((s1 ++ (totalBytes segs ++ rest)).length + 2)
        { state := some st, dicts := dicts, maxWindow := mw } d2 s1 [] (totalBytes segs ++ rest) c.size 0 (room - c.size)
        #[] c out (by simp [Decoder.blocksDone, hrc.1]) (by omega) (by rw [List.length_append]; omega) hfr
      have hy : y = c := by simpa using hy1.symm
      subst hy
      rw [hd1, show room = y.size + (room - y.size) by omega, hy2]
      simp only [List.nil_append, Nat.zero_add]
      have hd2 : d2.dicts = dicts ∧ d2.maxWindow = mw := by
        obtain ⟨-, -, _, -, -, -, hstep⟩ := decodeAllFrame_ok _ _ _ _ _ _ _ _ _ (by omega) hfr
        exact ⟨hstep.1, hstep.2.1⟩
      obtain ⟨d', hd', he⟩ := ih hvs d2 hd2 (room - y.size) (out ++ y) (by omega)
      refine ⟨d', hd', ?_⟩
      have e : y.size + (room - y.size) - (y ++ totalContent segs).size = room - y.size - (totalContent segs).size := by
        rw [Array.size_append]; omega
      rw [e, he, Array.append_assoc]


theorem Segment.Valid.bytes_pos {dicts : List (Dict σ)} {mw : Nat} {sg : Segment} (h : sg.Valid dicts mw) :
    1 ≤ sg.bytes.length := by
  cases sg with
  | skip b => have := h.1; simp only [Segment.bytes]; omega
  | frame b c =>
    obtain ⟨st, s1, d2, hr, -⟩ := h
    have hrc := resetCore_replace _ _ _ _ _ hr
    have := hrc.2.2.2.2.2.2.1
    have := hrc.2.2.2.2.2.2.2.1
    simp only [Segment.bytes]; omega

/-- `decode_all_concat`: ANY concatenation of valid frames and skippable frames (any number, any
order) decodes through `decode_all` to the concatenation of the frames' contents — exactly, with the
whole input consumed — for every target at least that large -/
theorem Decoder.decodeAll_concat (segs : List Segment) (d : Decoder σ)
    (hv : ∀ sg ∈ segs, sg.Valid d.dicts d.maxWindow) (room : Nat) (hroom : (totalContent segs).size ≤ room) :
    ∃ d', d.decodeAll (totalBytes segs) room = (d', .ok (totalContent segs)) := by
  have hlen : segs.length ≤ (totalBytes segs).length := by
    clear hroom
    induction segs with
    | nil => simp
    | cons sg segs ih =>
      have := (hv sg List.mem_cons_self).bytes_pos
      have := ih (fun s hs => hv s (List.mem_cons_of_mem _ hs))
      simp only [totalBytes, List.map_cons, List.flatten_cons, List.length_append, List.length_cons] at *
      omega
  obtain ⟨d', -, he⟩ := decodeAllLoop_concat d.dicts d.maxWindow segs hv ((totalBytes segs).length + 1 - segs.length) d
    ⟨rfl, rfl⟩ [] room #[] hroom
  refine ⟨d', ?_⟩
  simp only [Decoder.decodeAll]
  rw [List.append_nil, show segs.length + ((totalBytes segs).length + 1 - segs.length) = (totalBytes segs).length + 1 by omega] at he
  rw [he]
  generalize (totalBytes segs).length + 1 - segs.length = f
  cases f with
  | zero => simp [decodeAllLoop]
  | succ f => simp [decodeAllLoop]



/-! ### a checker for `Segment.Valid` (for non-vacuity examples and tests) -/

def Segment.validB (dicts : List (Dict σ)) (mw : Nat) : Segment → Bool
  | .skip b =>
    decide (8 ≤ b.length) && decide (Gen.skipMagicLo ≤ leNat (b.take 4)) && decide (leNat (b.take 4) ≤ Gen.skipMagicHi) &&
      decide (leNat ((b.drop 4).take 4) = b.length - 8)
  | .frame b c =>
    match resetCore dicts mw b with
    | .replace st (.ok s1) =>
      match decodeAllFrame (s1.length + 2) { state := some st, dicts := dicts, maxWindow := mw } s1 c.size #[] with
      | (_, .ok (s', r', out)) => s'.isEmpty && decide (r' = 0) && decide (out = c)
      | _ => false
    | _ => false

theorem Segment.valid_of_validB (dicts : List (Dict σ)) (mw : Nat) (sg : Segment) (h : sg.validB dicts mw = true) :
    sg.Valid dicts mw := by
  cases sg with
  | skip b =>
    simp only [Segment.validB, Bool.and_eq_true, decide_eq_true_eq] at h
    exact ⟨h.1.1.1, h.1.1.2, h.1.2, h.2⟩
  | frame b c =>
    simp only [Segment.validB] at h
    split at h
    · rename_i st s1 hr
      split at h
      · rename_i d2 s' r' out hfr
        simp only [Bool.and_eq_true, decide_eq_true_eq, List.isEmpty_iff] at h
        obtain ⟨⟨rfl, rfl⟩, rfl⟩ := h
        exact ⟨st, s1, d2, hr, hfr⟩
      · cases h
    · cases h


/-! ### truncated sources: the frame header -/

theorem readExact_take_fits (m j : Nat) (X : Src) (t r : List Nat) (h : readExact m X = some (t, r)) (hm : m ≤ j) :
    readExact m (X.take j) = some (t, r.take (j - m)) := by
  rw [readExact_take, if_pos hm, h]; rfl

/-- a frame header read from `s` is read identically from any prefix of `s` that contains it -/
theorem readFrameHeader_take_fits (s : Src) (h : FHeader) (n : Nat) (rest : Src) (k : Nat)
    (hr : readFrameHeader s = .ok (h, n, rest)) (hk : n ≤ k) :
    readFrameHeader (s.take k) = .ok (h, n, rest.take (k - n)) := by
  simp only [readFrameHeader] at hr ⊢
  split at hr
  · cases hr
  · rename_i m s1 h4
    split at hr
    · split at hr <;> cases hr
    · rename_i hskip
      split at hr
      · cases hr
      · rename_i hmag
        split at hr
        · cases hr
        · rename_i dd s2 h1
          split at hr
          · cases hr
          · rename_i wd s3 hw
            split at hr
            · cases hr
            · rename_i db s4 hdid
              split at hr
              · cases hr
              · rename_i fb s5 hf
                simp only [Except.ok.injEq, Prod.mk.injEq] at hr
                obtain ⟨hh, hnn, hrr⟩ := hr
                -- budgets
                have hk4 : 4 ≤ k := by omega
                rw [readExact_take_fits 4 k s _ _ h4 hk4]
                simp only
                rw [if_neg hskip, if_neg hmag, readExact_take_fits 1 (k - 4) s1 _ _ h1 (by omega)]
                simp only
                by_cases hsi : dd.headD 0 / 32 % 2 = 1
                · simp only [hsi, if_true] at hw hnn hf hh ⊢
                  simp only [Option.some.injEq, Prod.mk.injEq] at hw
                  obtain ⟨rfl, rfl⟩ := hw
                  rw [readExact_take_fits _ (k - 4 - 1) s2 _ _ hdid (by omega)]
                  simp only
                  rw [readExact_take_fits _ (k - 4 - 1 - dictIdBytes (dd.headD 0)) s4 _ _ hf (by omega)]
                  simp only [Except.ok.injEq, Prod.mk.injEq]
                  refine ⟨hh, hnn, ?_⟩
                  rw [hrr]; congr 1; omega
                · simp only [hsi, if_false] at hw hnn hf hh ⊢
                  rw [readExact_take_fits 1 (k - 4 - 1) s2 _ _ hw (by omega)]
                  simp only
                  rw [readExact_take_fits _ (k - 4 - 1 - 1) s3 _ _ hdid (by omega)]
                  simp only
                  rw [readExact_take_fits _ (k - 4 - 1 - 1 - dictIdBytes (dd.headD 0)) s4 _ _ hf (by omega)]
                  simp only [Except.ok.injEq, Prod.mk.injEq]
                  refine ⟨hh, hnn, ?_⟩
                  rw [hrr]; congr 1; omega


theorem resetCore_take_fits (dicts : List (Dict σ)) (mw : Nat) (f : Src) (st : FState σ) (s1 : Src) (k : Nat)
    (h : resetCore dicts mw f = .replace st (.ok s1)) (hk : st.bytesRead ≤ k) :
    resetCore dicts mw (f.take k) = .replace st (.ok (s1.take (k - st.bytesRead))) := by
  simp only [resetCore] at h ⊢
  split at h
  · cases h
  · rename_i hd n rest hr
    have hbr : st.bytesRead = n := by
      split at h
      · cases h
      · split at h
        · cases h
        · simp only [applyDictChoice, freshState, FState.withDict] at h
          repeat' split at h
          all_goals first | (cases h; done) | (simp only [ResetResult.replace.injEq] at h; rw [← h.1])
    rw [readFrameHeader_take_fits f hd n rest k hr (by omega)]
    simp only
    split at h
    · cases h
    · rename_i w hw
      split at h
      · cases h
      · rename_i hlim
        rw [if_neg hlim]
        simp only [applyDictChoice] at h ⊢
        split at h
        · simp only [ResetResult.replace.injEq, Out.ok.injEq] at h
          simp only [ResetResult.replace.injEq, Out.ok.injEq]
          exact ⟨h.1, by rw [h.2, hbr]⟩
        · split at h
          · cases h
          · simp only [ResetResult.replace.injEq, Out.ok.injEq] at h
            simp only [ResetResult.replace.injEq, Out.ok.injEq]
            exact ⟨h.1, by rw [h.2, hbr]⟩

/-- `reset` on a truncated source that still contains the whole frame header: same state, rest truncated -/
theorem Decoder.reset_take_fits (d d0 : Decoder σ) (f rest : Src) (k : Nat) (h : d.reset f = (d0, .ok rest))
    (hk : d0.bytesRead ≤ k) : d.reset (f.take k) = (d0, .ok (rest.take (k - d0.bytesRead))) := by
  rcases Decoder.reset_cases d f with ⟨e, he⟩ | ⟨st, o, he, hrc⟩
  · rw [he] at h; cases h
  · rw [he] at h
    simp only [Prod.mk.injEq] at h
    obtain ⟨rfl, rfl⟩ := h
    simp only [Decoder.bytesRead] at hk ⊢
    simp only [Decoder.reset, resetCore_take_fits d.dicts d.maxWindow f st rest k hrc hk]


end Zstd.Model
