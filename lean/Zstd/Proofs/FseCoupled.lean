import Zstd.Proofs.FseStreamInter
import Zstd.Proofs.FseEncTable
import Zstd.Proofs.FseDecTable
/-
Glue: the encoder table and the decoder table that the two builders produce from one valid
distribution are `Coupled` (and `Coupled2` under zero-bit avoidance), so the stream round-trip
theorems of `FseStream`/`FseStreamInter` apply to the real tables.
-/
namespace Zstd.Proofs.FseCoupled
open Zstd Zstd.Model.Fse Zstd.Model.BitIO Zstd.Proofs.FseStream Zstd.Proofs.FseStreamInter

/-- the two copies of `ValidDist` are the same proposition -/
theorem validDist_iff {al : Nat} {probs : List Int} :
    FseEncTable.ValidDist al probs ↔ FseDecTable.ValidDist al probs := Iff.rfl

/-- symbols that may occur in a stream coded with the tables of `probs` -/
def usableOf (probs : List Int) (s : Nat) : Prop := probs.getD s 0 ≠ 0

theorem accLog_of_size {et : ETable} {al : Nat} (h : et.tableSize = 2 ^ al) : et.accLog = .ok al := by
  unfold ETable.accLog
  rw [h, if_neg (by have := Nat.two_pow_pos al; omega), Nat.log2_two_pow]

section
variable {al : Nat} {probs : List Int} {maxSymbol : Nat} {et : ETable} {dec : Array DEntry} {ctr : Array Nat}
  {dt : DTable}

theorem good_of_mem (hb : FseEncTable.EncBuildable al probs) (hms : probs.length ≤ maxSymbol + 1)
    (het : buildTableFromProbabilities probs al = .ok et)
    (hdec : buildDecodingTableCore al probs.toArray maxSymbol = .ok (dec, ctr))
    (hdt : dt.decode = dec) {s : Nat} {st : EState}
    (hmem : st ∈ (et.states.getD s {}).states.toList) :
    Good dt al s st ∧ st.lastIndex = st.baseline + 2 ^ st.numBits - 1 := by
  obtain ⟨et', dec', ctr', het', hdec', _, _, hdsz, _, hconv, _, _⟩ := FseEncTable.enc_table_eq_dec_table hb hms
  rw [het] at het'; cases het'
  rw [hdec] at hdec'; cases hdec'
  obtain ⟨hidx, hsym, hbl, hnb, hli⟩ := hconv s st hmem
  have hw := FseDecTable.dec_entry_within al probs maxSymbol (validDist_iff.mp hb.1) hms dec ctr hdec st.index hidx
  refine ⟨⟨hidx, ?_, by rw [hnb]; exact hw.1⟩, hli⟩
  rw [hdt]
  have hlt : st.index < dec.size := by rw [hdsz]; exact hidx
  have hget : dec.getD st.index {} = dec[st.index] := by
    simp [Array.getD, hlt]
  rw [Array.getElem?_eq_getElem hlt]
  congr 1
  rw [hget] at hsym hbl hnb
  cases hd : dec[st.index] with
  | mk b n sy =>
    rw [hd] at hsym hbl hnb
    simp only at hsym hbl hnb
    simp [entryOf, hsym, hbl, hnb]

/-- **the built tables are coupled** -/
theorem coupled_of_buildable (hb : FseEncTable.EncBuildable al probs) (hms : probs.length ≤ maxSymbol + 1)
    (het : buildTableFromProbabilities probs al = .ok et)
    (hdec : buildDecodingTableCore al probs.toArray maxSymbol = .ok (dec, ctr))
    (hdt : dt.decode = dec) (hal : dt.accuracyLog = al) :
    Coupled et dt al (usableOf probs) := by
  obtain ⟨et', dec', ctr', het', hdec', hts, _, _, _, _, _, _⟩ := FseEncTable.enc_table_eq_dec_table hb hms
  rw [het] at het'; cases het'
  have hv := hb.1
  refine ⟨by have := hv.1; omega, by have := hv.2.1; omega, accLog_of_size hts, hal, ?_, ?_⟩
  · intro s hs
    obtain ⟨st, hst, hhead, _, _⟩ := FseEncTable.enc_start_state hb het hs
    exact ⟨st, hst, (good_of_mem hb hms het hdec hdt (List.mem_of_mem_head? hhead)).1⟩
  · intro s idx hs hidx
    obtain ⟨st, hst, hcont, hmem⟩ := FseEncTable.enc_next_state_total hb het hs hidx
    obtain ⟨hg, hli⟩ := good_of_mem hb hms het hdec hdt hmem
    have hpos := Nat.two_pow_pos st.numBits
    simp only [EState.contains, Bool.and_eq_true, decide_eq_true_eq, Bool.decide_and] at hcont
    refine ⟨st, hst, hcont.1, ?_, hg⟩
    have := hcont.2
    omega

/-- zero-bit avoidance: no probability above half of the table -/
def Avoids (al : Nat) (probs : List Int) : Prop := ∀ p ∈ probs, p ≤ ((2 ^ (al - 1) : Nat) : Int)

/-- **with zero-bit avoidance the built tables are `Coupled2`** -/
theorem coupled2_of_buildable (hb : FseEncTable.EncBuildable al probs) (hms : probs.length ≤ maxSymbol + 1)
    (hav : Avoids al probs)
    (het : buildTableFromProbabilities probs al = .ok et)
    (hdec : buildDecodingTableCore al probs.toArray maxSymbol = .ok (dec, ctr))
    (hdt : dt.decode = dec) (hal : dt.accuracyLog = al) :
    Coupled2 et dt al (usableOf probs) := by
  have hc := coupled_of_buildable hb hms het hdec hdt hal
  have hv := validDist_iff.mp hb.1
  obtain ⟨hsz, hsymb, _, hent, hrk⟩ := FseDecTable.dec_table_char al probs maxSymbol hv hms dec ctr hdec
  refine { toCoupled := hc, decSize := by rw [hdt]; exact hsz, startBits := ?_ }
  intro s st hs hst
  obtain ⟨st', hst', hhead, hbase, _⟩ := FseEncTable.enc_start_state hb het hs
  rw [hst] at hst'; cases hst'
  obtain ⟨⟨hidx, hget, _⟩, _⟩ := good_of_mem hb hms het hdec hdt (List.mem_of_mem_head? hhead)
  refine ⟨?_, by rw [hbase]; exact Nat.two_pow_pos al⟩
  -- the entry at `st.index` is `rfcEntry al p k` with `k < p ≤ 2^(al-1)`
  rw [hdt] at hget
  have hlt : st.index < dec.size := by rw [hsz]; exact hidx
  have hgd : dec.getD st.index {} = entryOf s st := by
    rw [Array.getElem?_eq_getElem hlt] at hget
    simp only [Option.some.injEq] at hget
    simp [Array.getD, hlt, hget]
  have he := hent st.index hidx
  have hr := hrk st.index hidx
  rw [hgd] at he hr
  simp only [entryOf] at he hr
  -- number of states of `s`
  have hn : FseDecTable.nStates probs s ≤ 2 ^ (al - 1) := by
    unfold FseDecTable.nStates
    simp only []
    split
    · exact Nat.one_le_two_pow
    · have hmem : probs.getD s 0 ∈ probs := by
        have hslt : s < probs.length := by
          have := (hsymb st.index hidx).1
          rw [hgd] at this
          simpa [entryOf] using this
        have hg : probs.getD s 0 = probs[s] := by simp [List.getD, hslt]
        rw [hg]
        exact List.getElem_mem hslt
      exact Int.toNat_le.mpr (hav _ hmem)
  have hnb : st.numBits = al - Nat.log2 (FseDecTable.nStates probs s + FseDecTable.rank dec st.index) := by
    have := congrArg Prod.snd he
    simpa [FseFin.rfcEntry] using this
  have h5 : 1 ≤ al := by have := hb.1.1; omega
  have hlog : Nat.log2 (FseDecTable.nStates probs s + FseDecTable.rank dec st.index) < al := by
    have hne : FseDecTable.nStates probs s + FseDecTable.rank dec st.index ≠ 0 := by omega
    rw [Nat.log2_lt hne]
    have h2 : 2 ^ al = 2 * 2 ^ (al - 1) := by
      rw [← Nat.pow_succ']
      congr 1
      omega
    omega
  omega

end

end Zstd.Proofs.FseCoupled
