import Zstd.Proofs.FrameDecoderRefine
import Zstd.Proofs.FrameDecoderNoFault
/-
C01 at the block and frame level: `decompress_block`, the block loop and the frame decoder refine
the Spec (`decodeCompressedBlock`, `decodeBlocks`, `decodeFrame`), given the entropy stand-ins.
-/
set_option linter.unusedSectionVars false
namespace Zstd.Model
open Zstd


theorem parseLitHeader_bounds (raw : List Nat) (h : Spec.LitHeader) (hp : Spec.parseLitHeader raw = some h) :
    1 ≤ h.hdrLen ∧ h.hdrLen ≤ raw.length := by
  cases raw with
  | nil => simp [Spec.parseLitHeader] at hp
  | cons b0 tl =>
    simp only [Spec.parseLitHeader] at hp
    repeat' split at hp
    all_goals first | (cases hp; done) | skip
    all_goals
      cases hp
      simp only [List.length_cons] at *
      omega

/-- the literals section only looks at its own bytes: header + (regenerated | 1 | compressed) size -/
theorem decodeLiterals_take (bytes : List Nat) (prev : Option Spec.Huffman.Table) (lits : List Nat) (used : Nat)
    (huf : Option Spec.Huffman.Table) (h : Spec.decodeLiterals bytes prev = some (lits, used, huf)) :
    ∃ hd, Spec.parseLitHeader bytes = some hd ∧
      used = hd.hdrLen + (if hd.ltype = 0 then hd.regen else if hd.ltype = 1 then 1 else hd.comp) ∧
      used ≤ bytes.length ∧
      ∀ m, used ≤ m → Spec.decodeLiterals (bytes.take m) prev = some (lits, used, huf) := by
  simp only [Spec.decodeLiterals] at h
  split at h
  · cases h
  · rename_i hd hhd
    refine ⟨hd, hhd, ?_⟩
    have hbody : ∀ m, (bytes.take m).drop hd.hdrLen = (bytes.drop hd.hdrLen).take (m - hd.hdrLen) := by
      intro m; rw [List.drop_take]
    have hhl := parseLitHeader_bounds bytes hd hhd
    by_cases h0 : hd.ltype = 0
    · simp only [h0, if_true] at h ⊢
      split at h
      · cases h
      · rename_i hlen
        simp only [Option.some.injEq, Prod.mk.injEq] at h
        obtain ⟨rfl, rfl, rfl⟩ := h
        simp only [List.length_drop] at hlen
        refine ⟨rfl, by omega, ?_⟩
        intro m hm
        simp only [Spec.decodeLiterals, parseLitHeader_take bytes hd m hhd (by omega), h0, if_true, hbody,
          List.length_take, List.length_drop]
        rw [if_neg (by omega), List.take_take, Nat.min_eq_left (by omega)]
    · simp only [h0, if_false] at h ⊢
      by_cases h1 : hd.ltype = 1
      · simp only [h1, if_true] at h ⊢
        split at h
        · cases h
        · rename_i b tl hb
          simp only [Option.some.injEq, Prod.mk.injEq] at h
          obtain ⟨rfl, rfl, rfl⟩ := h
          have hl : 1 ≤ (bytes.drop hd.hdrLen).length := by rw [hb]; simp
          rw [List.length_drop] at hl
          refine ⟨rfl, by omega, ?_⟩
          intro m hm
          simp only [Spec.decodeLiterals, parseLitHeader_take bytes hd m hhd (by omega), h1, if_true, hbody, hb]
          obtain ⟨k, hk⟩ : ∃ k, m - hd.hdrLen = k + 1 := ⟨m - hd.hdrLen - 1, by omega⟩
          rw [hk, List.take_succ_cons]
          simp
      · simp only [h1, if_false] at h ⊢
        split at h
        · cases h
        · rename_i hlen
          simp only [List.length_drop] at hlen
          have key : ∀ m, hd.hdrLen + hd.comp ≤ m →
              ((bytes.drop hd.hdrLen).take (m - hd.hdrLen)).take hd.comp = (bytes.drop hd.hdrLen).take hd.comp := by
            intro m hm; rw [List.take_take, Nat.min_eq_left (by omega)]
          -- everything below depends on `payload = body.take comp` only
          have hused : used = hd.hdrLen + hd.comp := by
            repeat' split at h
            all_goals first | (cases h; done) | (simp only [Option.some.injEq, Prod.mk.injEq] at h; exact h.2.1.symm)
          refine ⟨hused, by omega, ?_⟩
          intro m hm
          simp only [Spec.decodeLiterals, parseLitHeader_take bytes hd m hhd (by omega), h0, h1, if_false, hbody]
          have hl' : ¬ ((bytes.drop hd.hdrLen).take (m - hd.hdrLen)).length < hd.comp := by
            rw [List.length_take, List.length_drop]; omega
          rw [if_neg hl', key m (by omega)]
          exact h


theorem execSequences_lits_le (window : Nat) (dict : Array Nat) (seqs : List Spec.Seq) (lits : List Nat)
    (h h' : Spec.OffHist) (out out' : Array Nat)
    (hs : Spec.execSequences window dict seqs lits h out = some (out', h')) :
    lits.length ≤ finalSeqSum seqs lits 0 := by
  induction seqs generalizing lits h out with
  | nil => simp [finalSeqSum]
  | cons s rest ih =>
    simp only [Spec.execSequences] at hs
    simp only [finalSeqSum]
    rw [finalSeqSum_shift]
    split at hs
    · cases hs
    · rename_i hll
      have key : ∀ h2 out2, Spec.execSequences window dict rest (lits.drop s.ll) h2 out2 = some (out', h') →
          lits.length ≤ 0 + s.ml + s.ll + finalSeqSum rest (lits.drop s.ll) 0 := by
        intro h2 out2 hrec
        have := ih _ _ _ hrec
        rw [List.length_drop] at this
        omega
      repeat' split at hs
      all_goals first | (cases hs; done) | exact key _ _ hs

theorem parseSeqCount_zero (raw : List Nat) (u : Nat) (h : Spec.parseSeqCount raw = some (0, u)) :
    u = (if raw.headD 0 = 0 then 1 else 2) := by
  cases raw with
  | nil => simp [Spec.parseSeqCount] at h
  | cons b0 rest =>
    simp only [Spec.parseSeqCount] at h
    split at h
    · rename_i hb; simp only [Option.some.injEq, Prod.mk.injEq] at h; simp [hb, h.2.symm]
    · rename_i hb
      split at h
      · simp only [Option.some.injEq, Prod.mk.injEq] at h; omega
      · split at h
        · split at h
          · simp only [Option.some.injEq, Prod.mk.injEq] at h; simp [hb, h.2.symm]
          · cases h
        · split at h
          · simp only [Option.some.injEq, Prod.mk.injEq] at h; omega
          · cases h

/-- `decompress_block` refines the Spec's `decodeCompressedBlock`: same output, same entropy state
(tables, Huffman table, offset history) -/
theorem decompressBlock_refines (bytes : List Nat) (e e' : Spec.Entropy) (b : DBuf) (out' : Array Nat)
    (htot : b.totalOut ≤ b.content.size)
    (hs : Spec.decodeCompressedBlock b.window b.dict bytes e b.content = some (out', e')) :
    ∃ b', decompressBlock bytes e b = ((b', e'), .ok ()) ∧ RefinesOut b b' out' := by
  simp only [Spec.decodeCompressedBlock] at hs
  split at hs
  · cases hs
  · rename_i lits used huf hlit
    split at hs
    · cases hs
    · rename_i seqs e1 hseq
      split at hs
      · cases hs
      · rename_i out2 h2 hexec
        split at hs
        · cases hs
        · rename_i hsize
          simp only [Option.some.injEq, Prod.mk.injEq] at hs
          obtain ⟨rfl, rfl⟩ := hs
          have hsz := execSequences_size _ _ _ _ _ _ _ _ hexec
          have hle := execSequences_lits_le _ _ _ _ _ _ _ _ hexec
          have e1' : Spec.blockMaxSize = 131072 := by decide
          have e2' : Gen.maxBlockSize = 131072 := by decide
          have hfin : finalSeqSum seqs lits 0 ≤ 131072 := by
            have : out2.size - b.content.size ≤ Spec.blockMaxSize := by
              have := Nat.min_le_right b.window Spec.blockMaxSize; omega
            omega
          -- literals
          obtain ⟨hd, hhd, hused, hul, htake⟩ := decodeLiterals_take bytes e.huf lits used huf hlit
          obtain ⟨hd', hhd', hlen⟩ := decodeLiterals_length _ _ _ _ _ hlit
          rw [hhd] at hhd'; cases hhd'
          have hlitM : decodeLiteralsM bytes e.huf = .ok (lits, used, huf, hd) := by
            simp only [decodeLiteralsM, hhd]
            rw [if_neg (by omega)]
            rw [if_neg (by rw [List.length_drop]; omega), ← hused, htake used (Nat.le_refl _)]
          simp only [decompressBlock, hlitM]
          -- sequences
          cases hcnt : Spec.parseSeqCount (bytes.drop used) with
          | none => simp [Spec.decodeSequences, hcnt] at hseq
          | some p =>
            obtain ⟨n, u⟩ := p
            simp only
            by_cases hn : n = 0
            · subst hn
              simp only [Spec.decodeSequences, hcnt, if_true] at hseq
              simp only [if_true]
              split at hseq
              · rename_i hlu
                simp only [Option.some.injEq, Prod.mk.injEq] at hseq
                obtain ⟨rfl, rfl⟩ := hseq
                have hu := parseSeqCount_zero _ _ hcnt
                rw [if_neg (by rw [← hu]; omega)]
                simp only [Spec.execSequences, Option.some.injEq, Prod.mk.injEq] at hexec
                obtain ⟨rfl, rfl⟩ := hexec
                refine ⟨b.push lits.toArray, rfl, rfl, rfl, rfl, rfl, ?_⟩
                simp only [DBuf.push, Array.size_append]; omega
              · cases hseq
            · simp only [hn, if_false]
              simp only [decodeSequencesM, hseq]
              have hov := decodeSequences_ov _ _ _ _ hseq
              obtain ⟨b', he, hr⟩ := executeSequences_refines_aux seqs lits e1.hist h2 0 b out2 hov htot hexec (by omega)
              rw [he]
              exact ⟨b', rfl, hr⟩


/-- block headers: the model (table and guard from the source) agrees with the RFC bit-fields on every
legal header -/
theorem parseBlockHeader_refines (b0 b1 b2 : Nat) (h0 : b0 < 256) (h1 : b1 < 256) (h2 : b2 < 256)
    (hok : (Spec.parseBlockHeader b0 b1 b2).btype ≠ 3 ∧ (Spec.parseBlockHeader b0 b1 b2).size ≤ Spec.blockMaxSize) :
    Model.parseBlockHeader b0 b1 b2 = .ok
      { last := (Spec.parseBlockHeader b0 b1 b2).last, btype := (Spec.parseBlockHeader b0 b1 b2).btype,
        decompressedSize := if (Spec.parseBlockHeader b0 b1 b2).btype = 2 then 0 else (Spec.parseBlockHeader b0 b1 b2).size,
        contentSize := if (Spec.parseBlockHeader b0 b1 b2).btype = 1 then 1 else (Spec.parseBlockHeader b0 b1 b2).size } := by
  have hsz : (b0 + 256 * b1 + 65536 * b2) / 8 = b0 / 8 + b1 * 32 + b2 * 8192 := by omega
  have hty : (b0 + 256 * b1 + 65536 * b2) / 2 % 4 = b0 / 2 % 4 := by omega
  have hla : (b0 + 256 * b1 + 65536 * b2) % 2 = b0 % 2 := by omega
  have htl : b0 / 2 % 4 < 4 := Nat.mod_lt _ (by decide)
  simp only [Spec.parseBlockHeader, Model.parseBlockHeader, Spec.blockMaxSize, hsz, hty, hla] at hok ⊢
  generalize b0 / 2 % 4 = t at htl hok
  generalize b0 / 8 + b1 * 32 + b2 * 8192 = sz at hok
  have ht : t = 0 ∨ t = 1 ∨ t = 2 ∨ t = 3 := by omega
  rcases ht with rfl | rfl | rfl | rfl <;>
    simp [lookupNat, Gen.blockTypeMap, Gen.blockSizeTooLarge, Gen.maxBlockSize] at hok ⊢ <;>
    omega

/-! ### the contract C01 needs of a block decoder -/

/-- `Spec ok ⇒ the block decoder returns the same bytes`, with the entropy states related by `coupled`
(equality for the stand-in; "same tables / offset history" for the faithful decoder) -/
class RefinesSpec (σ : Type) [BlockDec σ] where
  coupled : σ → Spec.Entropy → Prop
  coupled_fresh : coupled (BlockDec.fresh : σ) {}
  /-- a Compressed_Block body the Spec accepts is decoded `Ok` to the same output; the entropy states
  stay coupled -/
  refines : ∀ (bytes : List Nat) (s : σ) (e e' : Spec.Entropy) (b : DBuf) (out' : Array Nat),
    Proofs.BitIO.Bytes bytes → coupled s e → b.totalOut ≤ b.content.size →
    Spec.decodeCompressedBlock b.window b.dict bytes e b.content = some (out', e') →
    ∃ b' s', BlockDec.run bytes s b = ((b', s'), .ok ()) ∧ RefinesOut b b' out' ∧ coupled s' e'
  /-- once the output exceeds the window, the (ghost) offsets of a block the Spec accepts are within
  the window -/
  offsets_le : ∀ (window : Nat) (dict : Array Nat) (bytes : List Nat) (s : σ) (e e' : Spec.Entropy)
    (out out' : Array Nat), Proofs.BitIO.Bytes bytes → coupled s e →
    Spec.decodeCompressedBlock window dict bytes e out = some (out', e') → window < out.size →
    ∀ o ∈ BlockDec.offsets bytes s, o ≤ window

variable {σ : Type} [BlockDec σ] [BlockContract σ] [RefinesSpec σ]

/-- the decoder's registered dictionaries are the Spec's: same ids and contents, coupled entropy -/
inductive DictsCoupled : List (Dict σ) → List Spec.Dict → Prop
  | nil : DictsCoupled [] []
  | cons {d : Dict σ} {sd : Spec.Dict} {l1 : List (Dict σ)} {l2 : List Spec.Dict} :
      sd.id = d.id → sd.content = d.content → RefinesSpec.coupled d.entropy sd.entropy →
      DictsCoupled l1 l2 → DictsCoupled (d :: l1) (sd :: l2)

theorem DictsCoupled.find {dicts : List (Dict σ)} {sdicts : List Spec.Dict} (h : DictsCoupled dicts sdicts) (id : Nat) :
    (dicts.find? (fun x => x.id = id) = none ∧ sdicts.find? (fun x => x.id = id) = none) ∨
    ∃ d sd, dicts.find? (fun x => x.id = id) = some d ∧ sdicts.find? (fun x => x.id = id) = some sd ∧
      sd.content = d.content ∧ RefinesSpec.coupled d.entropy sd.entropy := by
  induction h with
  | nil => exact Or.inl ⟨rfl, rfl⟩
  | @cons a b l1 l2 h1 h2 h3 _ ih =>
    by_cases hid : a.id = id
    · right
      exact ⟨a, b, by simp [List.find?, hid], by simp [List.find?, h1, hid], h2, h3⟩
    · have hid' : ¬ b.id = id := by rw [h1]; exact hid
      simp only [List.find?, hid, hid', decide_false]
      exact ih

/-- what the loop of `decode_blocks` does after the last block -/
def finishFrame (st1 : FState σ) (s1 : Src) : FState σ × Out Src :=
  if st1.header.checksumFlag then
    match readExact 4 s1 with
    | none => ({ st1 with finished := true }, .err .checksumRead)
    | some (cb, s2) => ({ st1 with finished := true, bytesRead := st1.bytesRead + 4, checksum := some (leNat cb) }, .ok s2)
  else ({ st1 with finished := true }, .ok s1)



theorem decodeBlocksLoop_last (strat : Strategy) (a c fuel : Nat) (st st1 : FState σ) (s s1 : Src) (bh : BHeader)
    (h : decodeOneBlock st s = (st1, .ok (bh, s1))) (hl : bh.last = true) :
    decodeBlocksLoop strat a c (fuel + 1) st s = finishFrame st1 s1 := by
  rw [decodeBlocksLoop_succ, h]
  simp only [hl, if_true, finishFrame]
  split
  · cases readExact 4 s1 with
    | none => rfl
    | some p => rfl
  · rfl

theorem decodeBlocksLoop_all_next (a c fuel : Nat) (st st1 : FState σ) (s s1 : Src) (bh : BHeader)
    (h : decodeOneBlock st s = (st1, .ok (bh, s1))) (hl : bh.last = false) :
    decodeBlocksLoop .all a c (fuel + 1) st s = decodeBlocksLoop .all a c fuel st1 s1 := by
  rw [decodeBlocksLoop_succ, h]
  simp [hl, stratStop]

/-- the states the refinement relates: buffer = the Spec's output so far, entropy = the Spec's -/
structure SpecState (st : FState σ) (e : Spec.Entropy) (out : Array Nat) : Prop where
  content : st.buf.content = out
  entropy : RefinesSpec.coupled st.entropy e
  totalOut : st.buf.totalOut ≤ st.buf.content.size

/-- one block: the model's `decodeOneBlock` follows the Spec's block step -/
theorem decodeBlocksLoop_refines (fuelS : Nat) (a c fuel : Nat) (bytes : List Nat) (hb : ∀ x ∈ bytes, x < 256)
    (e : Spec.Entropy) (st : FState σ) (out' : Array Nat) (consumed consumed' : Nat)
    (hf : bytes.length < fuel) (hst : SpecState st e st.buf.content)
    (hs : Spec.decodeBlocks st.buf.window st.buf.dict fuelS bytes e st.buf.content consumed = some (out', consumed')) :
    ∃ st' n, consumed' = consumed + n ∧ n ≤ bytes.length ∧
      decodeBlocksLoop .all a c fuel st bytes = finishFrame st' (bytes.drop n) ∧
      st'.buf.content = out' ∧ st'.bytesRead = st.bytesRead + n ∧ st'.header = st.header ∧
      st'.finished = st.finished ∧ st'.checksum = st.checksum ∧
      st'.buf.hashed = st.buf.hashed ∧ st'.buf.window = st.buf.window ∧ st'.buf.dict = st.buf.dict := by
  induction fuelS generalizing fuel bytes e st consumed with
  | zero => simp [Spec.decodeBlocks] at hs
  | succ fuelS ih =>
    obtain ⟨fuel, rfl⟩ : ∃ g, fuel = g + 1 := ⟨fuel - 1, by omega⟩
    match bytes, hb, hf, hs with
    | b0 :: b1 :: b2 :: body, hb, hf, hs =>
      have h0 : b0 < 256 := hb b0 (by simp)
      have h1 : b1 < 256 := hb b1 (by simp)
      have h2 : b2 < 256 := hb b2 (by simp)
      have hbody : ∀ x ∈ body, x < 256 := fun x hx => hb x (by simp [hx])
      simp only [Spec.decodeBlocks] at hs
      generalize hH : Spec.parseBlockHeader b0 b1 b2 = H at hs
      have hmin : min st.buf.window Spec.blockMaxSize ≤ Spec.blockMaxSize := Nat.min_le_right _ _
      -- the model's view of the source
      have hlen3 : ¬ (b0 :: b1 :: b2 :: body).length < 3 := by simp
      have hg0 : (b0 :: b1 :: b2 :: body).getD 0 0 = b0 := rfl
      have hg1 : (b0 :: b1 :: b2 :: body).getD 1 0 = b1 := rfl
      have hg2 : (b0 :: b1 :: b2 :: body).getD 2 0 = b2 := rfl
      have hd3 : (b0 :: b1 :: b2 :: body).drop 3 = body := rfl
      have hone : ∀ (hok : H.btype ≠ 3 ∧ H.size ≤ Spec.blockMaxSize),
          decodeOneBlock st (b0 :: b1 :: b2 :: body) =
            let bh : BHeader := { last := H.last, btype := H.btype, decompressedSize := if H.btype = 2 then 0 else H.size,
                                  contentSize := if H.btype = 1 then 1 else H.size }
            if (b0 :: b1 :: b2 :: body).length < 3 + bh.contentSize then
              ({ st with bytesRead := st.bytesRead + 3 }, .err .blockBodyRead)
            else ((blockBody st bh (body.take bh.contentSize)).1,
                  (blockBody st bh (body.take bh.contentSize)).2.mapOk (fun _ => (bh, (b0 :: b1 :: b2 :: body).drop (3 + bh.contentSize)))) := by
        intro hok
        rw [decodeOneBlock_eq, if_neg hlen3, hg0, hg1, hg2, parseBlockHeader_refines b0 b1 b2 h0 h1 h2 (by rw [hH]; exact hok), hH, hd3]
      -- common continuation: after a successful block step
      have hcont : ∀ (st1 : FState σ) (bh : BHeader) (n1 : Nat) (e1 : Spec.Entropy) (out1 : Array Nat),
          decodeOneBlock st (b0 :: b1 :: b2 :: body) = (st1, .ok (bh, (b0 :: b1 :: b2 :: body).drop n1)) →
          bh.last = H.last → 3 ≤ n1 → n1 ≤ (b0 :: b1 :: b2 :: body).length →
          SpecState st1 e1 out1 → st1.bytesRead = st.bytesRead + n1 → st1.header = st.header →
          st1.finished = st.finished → st1.checksum = st.checksum →
          st1.buf.hashed = st.buf.hashed → st1.buf.window = st.buf.window → st1.buf.dict = st.buf.dict →
          (if H.last = true then some (out1, consumed + n1)
           else Spec.decodeBlocks st.buf.window st.buf.dict fuelS ((b0 :: b1 :: b2 :: body).drop n1) e1 out1 (consumed + n1))
            = some (out', consumed') →
          ∃ st' n, consumed' = consumed + n ∧ n ≤ (b0 :: b1 :: b2 :: body).length ∧
            decodeBlocksLoop .all a c (fuel + 1) st (b0 :: b1 :: b2 :: body) = finishFrame st' ((b0 :: b1 :: b2 :: body).drop n) ∧
            st'.buf.content = out' ∧ st'.bytesRead = st.bytesRead + n ∧ st'.header = st.header ∧
            st'.finished = st.finished ∧ st'.checksum = st.checksum ∧
            st'.buf.hashed = st.buf.hashed ∧ st'.buf.window = st.buf.window ∧ st'.buf.dict = st.buf.dict := by
        intro st1 bh n1 e1 out1 hdec hlast h3 hn1 hss hbr hhd hfi hck hhs hw hdi hrest
        by_cases hl : H.last = true
        · rw [if_pos hl] at hrest
          simp only [Option.some.injEq, Prod.mk.injEq] at hrest
          obtain ⟨rfl, rfl⟩ := hrest
          exact ⟨st1, n1, rfl, hn1, decodeBlocksLoop_last _ _ _ _ _ _ _ _ _ hdec (by rw [hlast, hl]),
            hss.content, hbr, hhd, hfi, hck, hhs, hw, hdi⟩
        · rw [if_neg hl] at hrest
          have hl' : bh.last = false := by rw [hlast]; simpa using hl
          rw [decodeBlocksLoop_all_next _ _ _ _ _ _ _ _ hdec hl']
          have hrest' : Spec.decodeBlocks st1.buf.window st1.buf.dict fuelS ((b0 :: b1 :: b2 :: body).drop n1) e1
              st1.buf.content (consumed + n1) = some (out', consumed') := by
            rw [hw, hdi, hss.content]; exact hrest
          obtain ⟨st', n, h1', h2', h3', h4', h5', h6', h7', h8', h9', h10', h11'⟩ :=
            ih fuel ((b0 :: b1 :: b2 :: body).drop n1) (fun x hx => hb x (List.mem_of_mem_drop hx)) e1 st1 (consumed + n1)
              (by rw [List.length_drop]; omega) ⟨rfl, hss.entropy, hss.totalOut⟩ hrest'
          rw [List.length_drop] at h2'
          refine ⟨st', n1 + n, by omega, by omega, by rw [h3', List.drop_drop], h4', by omega, h6'.trans hhd,
            h7'.trans hfi, h8'.trans hck, h9'.trans hhs, h10'.trans hw, h11'.trans hdi⟩
      have hbm : Spec.blockMaxSize = 131072 := by decide
      have hdrop : ∀ n, (b0 :: b1 :: b2 :: body).drop (3 + n) = body.drop n := by
        intro n; rw [Nat.add_comm]; rfl
      by_cases ht3 : H.btype = 3
      · simp [ht3] at hs
      · simp only [ht3, if_false] at hs
        by_cases ht0 : H.btype = 0
        · -- Raw_Block
          rw [if_pos ht0] at hs
          split at hs
          · cases hs
          · rename_i hcond
            have hsz1 : H.size ≤ Spec.blockMaxSize := by omega
            have hsz2 : H.size ≤ body.length := by omega
            have hblk := hone ⟨ht3, hsz1⟩
            simp only [ht0, (by decide : ¬ (0:Nat) = 1), (by decide : ¬ (0:Nat) = 2), if_false] at hblk
            rw [if_neg (by simp only [List.length_cons]; omega)] at hblk
            simp only [blockBody, Out.mapOk, (by decide : ¬ (0:Nat) = 1), if_false, if_true] at hblk
            refine hcont _ _ (3 + H.size) e (st.buf.content ++ (body.take H.size).toArray) hblk rfl
              (by omega) (by simp only [List.length_cons]; omega)
              ⟨rfl, hst.entropy, ?_⟩ (by simp; omega) rfl rfl rfl rfl rfl rfl ?_
            · have := hst.totalOut
              simp only [Array.size_append]; omega
            · rw [hdrop, ← Nat.add_assoc]; exact hs
        · by_cases ht1 : H.btype = 1
          · -- RLE_Block
            rw [if_neg ht0, if_pos ht1] at hs
            split at hs
            · cases hs
            · rename_i hcond
              have hsz1 : H.size ≤ Spec.blockMaxSize := by omega
              split at hs
              · cases hs
              · rename_i b rest
                have hblk := hone ⟨ht3, hsz1⟩
                simp only [ht1, (by decide : ¬ (1:Nat) = 2), if_false, if_true] at hblk
                rw [if_neg (by simp only [List.length_cons]; omega)] at hblk
                simp only [blockBody, Out.mapOk, if_true, List.take_succ_cons, List.take_zero, List.headD_cons] at hblk
                refine hcont _ _ (3 + 1) e (st.buf.content ++ Array.replicate H.size b) hblk rfl
                  (by omega) (by simp only [List.length_cons]; omega)
                  ⟨rfl, hst.entropy, ?_⟩ (by simp) rfl rfl rfl rfl rfl rfl ?_
                · have := hst.totalOut
                  simp only [Array.size_append]; omega
                · rw [hdrop]; exact hs
          · -- Compressed_Block
            rw [if_neg ht0, if_neg ht1] at hs
            split at hs
            · cases hs
            · rename_i hcond
              have hsz1 : H.size ≤ Spec.blockMaxSize := by omega
              have hsz2 : H.size ≤ body.length := by omega
              split at hs
              · cases hs
              · rename_i out1 e1 hcb
                have hblk := hone ⟨ht3, hsz1⟩
                simp only [ht1, if_false] at hblk
                rw [if_neg (by simp only [List.length_cons]; omega)] at hblk
                obtain ⟨b', s', hdb, hrb, hcp⟩ := RefinesSpec.refines (body.take H.size) st.entropy e e1 st.buf out1
                  (fun x hx => hbody x (List.mem_of_mem_take hx)) hst.entropy hst.totalOut hcb
                simp only [blockBody, ht0, ht1, if_false, hdb, Out.mapOk] at hblk
                refine hcont _ _ (3 + H.size) e1 out1 hblk rfl
                  (by omega) (by simp only [List.length_cons]; omega)
                  ⟨hrb.content, hcp, hrb.totalOut⟩ (by simp; omega) rfl rfl rfl hrb.hashed hrb.window hrb.dict ?_
                rw [hdrop, ← Nat.add_assoc]; exact hs



/-! ### frame header and whole frame -/

theorem take1_headD (l : List Nat) (n : Nat) (h : n < l.length) : ((l.drop n).take 1).headD 0 = l.getD n 0 := by
  induction l generalizing n with
  | nil => simp at h
  | cons a l ih =>
    cases n with
    | zero => simp
    | succ n => simp only [List.drop_succ_cons, List.getD_cons_succ]; exact ih n (by simpa using h)

theorem dictIdBytes_eq (d : Nat) : dictIdBytes d = Spec.didFieldSize (Spec.parseFrameDesc d) := by
  have h : d % 4 < 4 := Nat.mod_lt _ (by decide)
  simp only [dictIdBytes, Spec.didFieldSize, Spec.parseFrameDesc]
  generalize d % 4 = t at h
  have : t = 0 ∨ t = 1 ∨ t = 2 ∨ t = 3 := by omega
  rcases this with rfl | rfl | rfl | rfl <;> simp [lookupNat, Gen.dictIdBytes]

theorem fcsBytes_eq (d w fc : Nat) (di : Option Nat) (hd : d < 256) :
    fcsBytes ⟨d, w, di, fc⟩ = Spec.fcsFieldSize (Spec.parseFrameDesc d) := by
  have h : d / 64 < 4 := by omega
  simp only [fcsBytes, Spec.fcsFieldSize, Spec.parseFrameDesc, FHeader.singleSegment]
  generalize d / 64 = t at h
  have : t = 0 ∨ t = 1 ∨ t = 2 ∨ t = 3 := by omega
  rcases this with rfl | rfl | rfl | rfl <;> simp [lookupNat, Gen.fcsBytes, Gen.fcsBytesFlag0]


/-- frame headers: whenever the Spec parses a header, the model's `read_frame_header` reads the same
fields, consumes the same number of bytes, and `window_size()` is the Spec's window -/
theorem readFrameHeader_refines (bytes : List Nat) (hb : ∀ x ∈ bytes, x < 256) (h : Spec.FrameHeader)
    (hs : Spec.parseFrameHeader bytes = some h) :
    ∃ fh, readFrameHeader bytes = .ok (fh, h.hdrLen, bytes.drop h.hdrLen) ∧
      fh.windowSize = .ok h.window ∧ fh.dictId = h.dictId ∧ fh.checksumFlag = h.desc.checksum ∧
      5 ≤ h.hdrLen ∧ h.hdrLen ≤ bytes.length := by
  simp only [Spec.parseFrameHeader] at hs
  generalize hd : bytes.getD 4 0 = d at hs
  generalize hsg : (Spec.parseFrameDesc d).singleSegment = single at hs
  have hsingle : single = decide (d / 32 % 2 = 1) := by rw [← hsg]; rfl
  generalize hdl : Spec.didFieldSize (Spec.parseFrameDesc d) = dlen at hs
  generalize hfl : Spec.fcsFieldSize (Spec.parseFrameDesc d) = flen at hs
  generalize hwl : (if single = true then 0 else 1) = wlen at hs
  by_cases hc1 : bytes.length < 5 ∨ leNat (bytes.take 4) ≠ Spec.magic
  · rw [if_pos hc1] at hs; cases hs
  · rw [if_neg hc1] at hs
    have hlen5 : 5 ≤ bytes.length := by omega
    have hmag : leNat (bytes.take 4) = Spec.magic := by
      by_cases hm : leNat (bytes.take 4) = Spec.magic
      · exact hm
      · exact absurd (Or.inr hm) hc1
    by_cases hres : d / 8 % 2 = 1
    · rw [if_pos hres] at hs; cases hs
    · rw [if_neg hres] at hs
      by_cases htot : bytes.length < 5 + wlen + dlen + flen
      · rw [if_pos htot] at hs; cases hs
      · rw [if_neg htot] at hs
        have hwinok : h.window = (if single = true then h.window else Spec.windowSize (bytes.getD 5 0)) ∧
            (single = false → Spec.windowMin ≤ h.window ∧ h.window ≤ Spec.windowMax) ∧
            h = { desc := Spec.parseFrameDesc d,
                  window := if single = true then
                      (if flen = 2 then leNat (List.take flen (List.drop (5 + wlen + dlen) bytes)) + 256
                       else leNat (List.take flen (List.drop (5 + wlen + dlen) bytes)))
                    else Spec.windowSize (bytes.getD 5 0),
                  dictId := if dlen = 0 ∨ leNat (List.take dlen (List.drop (5 + wlen) bytes)) = 0 then none
                    else some (leNat (List.take dlen (List.drop (5 + wlen) bytes))),
                  contentSize := if flen = 0 then none else some
                    (if flen = 2 then leNat (List.take flen (List.drop (5 + wlen + dlen) bytes)) + 256
                     else leNat (List.take flen (List.drop (5 + wlen + dlen) bytes))),
                  hdrLen := 5 + wlen + dlen + flen } := by
          cases hsv : single with
          | true =>
            simp only [hsv, not_true_eq_false, false_and, if_false, if_true, Option.some.injEq] at hs
            rw [← hs]; simp
          | false =>
            simp only [hsv, Bool.false_eq_true, not_false_eq_true, true_and, if_false] at hs
            by_cases hw : Spec.windowSize (bytes.getD 5 0) < Spec.windowMin ∨ Spec.windowSize (bytes.getD 5 0) > Spec.windowMax
            · rw [if_pos hw] at hs; cases hs
            · rw [if_neg hw] at hs
              simp only [Option.some.injEq] at hs
              rw [← hs]
              simp only [Bool.false_eq_true, if_false, true_and]
              exact ⟨fun _ => by omega, trivial⟩
        obtain ⟨hw1, hw2, hs⟩ := hwinok
        · have hd256 : d < 256 := by
            rw [← hd, List.getD_eq_getElem?_getD, List.getElem?_eq_getElem (by omega)]
            exact hb _ (List.getElem_mem _)
          have htot' : 5 + wlen + dlen + flen ≤ bytes.length := by omega
          -- the model's reads
          have r4 : readExact 4 bytes = some (bytes.take 4, bytes.drop 4) := by
            rw [readExact_eq_some]; exact ⟨by omega, rfl, rfl⟩
          have r1 : readExact 1 (bytes.drop 4) = some ((bytes.drop 4).take 1, bytes.drop 5) := by
            rw [readExact_eq_some, List.length_drop, List.drop_drop]; exact ⟨by omega, rfl, rfl⟩
          have hdesc : ((bytes.drop 4).take 1).headD 0 = d := by rw [take1_headD _ _ (by omega), hd]
          have hmagic1 : ¬ (Gen.skipMagicLo ≤ Spec.magic ∧ Spec.magic ≤ Gen.skipMagicHi) := by decide
          have hmagic2 : ¬ Spec.magic ≠ Gen.magicNum := by decide
          simp only [readFrameHeader, r4, hmag, hmagic1, hmagic2, if_false, r1, hdesc]
          have hrw : (if d / 32 % 2 = 1 then some ([0], bytes.drop 5) else readExact 1 (bytes.drop 5)) =
              some (if d / 32 % 2 = 1 then [0] else (bytes.drop 5).take 1, bytes.drop (5 + wlen)) := by
            by_cases hsi : d / 32 % 2 = 1
            · have : single = true := by rw [hsingle]; simpa using hsi
              simp only [this, if_true] at hwl
              subst hwl
              simp [hsi]
            · have : single = false := by rw [hsingle]; simpa using hsi
              simp only [this, Bool.false_eq_true, if_false] at hwl
              subst hwl
              rw [if_neg hsi, if_neg hsi, readExact_eq_some, List.length_drop, List.drop_drop]
              exact ⟨by omega, rfl, rfl⟩
          rw [hrw]
          simp only
          have hdlen : dictIdBytes d = dlen := by rw [dictIdBytes_eq, hdl]
          have rd : readExact dlen (bytes.drop (5 + wlen)) =
              some ((bytes.drop (5 + wlen)).take dlen, bytes.drop (5 + wlen + dlen)) := by
            rw [readExact_eq_some, List.length_drop, List.drop_drop]; exact ⟨by omega, rfl, rfl⟩
          rw [hdlen, rd]
          simp only
          have hflen : ∀ w di, fcsBytes ⟨d, w, di, 0⟩ = flen := by
            intro w di; rw [fcsBytes_eq d w 0 di hd256, hfl]
          rw [hflen]
          have rf : readExact flen (bytes.drop (5 + wlen + dlen)) =
              some ((bytes.drop (5 + wlen + dlen)).take flen, bytes.drop (5 + wlen + dlen + flen)) := by
            rw [readExact_eq_some, List.length_drop, List.drop_drop]; exact ⟨by omega, rfl, rfl⟩
          rw [rf]
          simp only
          have hhl : h.hdrLen = 5 + wlen + dlen + flen := by rw [hs]
          have hwl' : (if d / 32 % 2 = 1 then 0 else 1) = wlen := by
            rw [← hwl, hsingle]; by_cases hsi : d / 32 % 2 = 1 <;> simp [hsi]
          refine ⟨_, by rw [hhl, hwl'], ?_, ?_, ?_, by omega, by omega⟩
          · -- window
            simp only [FHeader.windowSize, FHeader.singleSegment]
            by_cases hsi : d / 32 % 2 = 1
            · have hst : single = true := by rw [hsingle]; simpa using hsi
              simp only [hsi, decide_true, if_true]
              rw [hs]
              simp only [hst, if_true]
              by_cases hf0 : flen = 0
              · subst hf0; simp [leNat]
              · simp only [hf0, if_false]
            · have hsf : single = false := by rw [hsingle]; simpa using hsi
              simp only [hsi, decide_false, Bool.false_eq_true, if_false]
              have hwd : ((bytes.drop 5).take 1).headD 0 = bytes.getD 5 0 := by
                simp only [hsf, Bool.false_eq_true, if_false] at hwl
                exact take1_headD _ _ (by omega)
              rw [hwd]
              have hwv := hw2 hsf
              rw [hs] at hwv ⊢
              simp only [hsf, Bool.false_eq_true, if_false] at hwv ⊢
              have e1 : Spec.windowMin = 1024 := by decide
              have e2 : Spec.windowMax = 4123168604160 := by decide
              simp only [Spec.windowSize] at hwv ⊢
              simp only [Gen.windowMinOk, Gen.windowMaxOk, Gen.minWindowSize, Gen.maxWindowSize]
              generalize 2 ^ (10 + bytes.getD 5 0 / 8) + 2 ^ (10 + bytes.getD 5 0 / 8) / 8 * (bytes.getD 5 0 % 8) = w at hwv ⊢
              have a : w ≥ 1024 := by omega
              have b : w ≤ 4123168604160 := by omega
              simp [a, b]
          · rw [hs]
          · rw [hs]; simp [FHeader.checksumFlag, Spec.parseFrameDesc]


/-- what `Spec.decodeFrame f = some r` says, in the model's terms: `reset` succeeds with a fresh state
`st0` whose window / dictionary / entropy are the Spec's, and the Spec's block run from there yields the
content; plus where the frame ends and its checksum -/
theorem decodeFrame_setup (d : Decoder σ) (sdicts : List Spec.Dict) (hdc : DictsCoupled d.dicts sdicts)
    (f : List Nat) (hb : ∀ x ∈ f, x < 256) (r : Spec.FrameResult)
    (hs : Spec.decodeFrame f sdicts = some r) (hlim : r.header.window ≤ d.maxWindow) :
    ∃ (st0 : FState σ) (e0 : Spec.Entropy) (hdrLen consumed : Nat) (out : Array Nat),
      d.reset f = ({ d with state := some st0 }, .ok (f.drop hdrLen)) ∧ 5 ≤ hdrLen ∧ hdrLen ≤ f.length ∧
      st0.finished = false ∧ st0.checksum = none ∧ st0.bytesRead = hdrLen ∧ st0.buf.content = #[] ∧
      st0.buf.totalOut = 0 ∧ st0.buf.hashed = #[] ∧ RefinesSpec.coupled st0.entropy e0 ∧
      Spec.decodeBlocks st0.buf.window st0.buf.dict (f.length + 1) (f.drop hdrLen) e0 st0.buf.content hdrLen = some (out, consumed) ∧
      r.content = out.toList ∧
      ((st0.header.checksumFlag = true ∧ 4 ≤ (f.drop consumed).length ∧ r.consumed = consumed + 4 ∧
          r.checksum = some (leNat ((f.drop consumed).take 4))) ∨
       (st0.header.checksumFlag = false ∧ r.consumed = consumed ∧ r.checksum = none)) := by
  simp only [Spec.decodeFrame] at hs
  split at hs
  · cases hs
  · rename_i h hh
    obtain ⟨fh, hrf, hws, hdid, hck, h5, hhl⟩ := readFrameHeader_refines f hb h hh
    split at hs
    · cases hs
    · rename_i dsel hsel
      split at hs
      · cases hs
      · rename_i out consumed hblocks
        -- what the Spec returns
        have hr : r.header = h ∧ r.content = out.toList ∧
            ((h.desc.checksum = true ∧ 4 ≤ (f.drop consumed).length ∧ r.consumed = consumed + 4 ∧
                r.checksum = some (leNat ((f.drop consumed).take 4))) ∨
             (h.desc.checksum = false ∧ r.consumed = consumed ∧ r.checksum = none)) := by
          have hs' : (if h.desc.checksum = true then
                if ((f.drop consumed).take 4).length < 4 then none
                else if leNat ((f.drop consumed).take 4) ≠ Spec.Xxh64.checksum32 out.toList then none
                else some (⟨out.toList, consumed + 4, h, some (leNat ((f.drop consumed).take 4))⟩ : Spec.FrameResult)
              else some ⟨out.toList, consumed, h, none⟩) = some r := by
            cases hcsz : h.contentSize with
            | none => simpa [hcsz] using hs
            | some n =>
              simp only [hcsz] at hs
              by_cases hn : n ≠ out.size
              · simp [hn] at hs
              · simpa [hn] using hs
          clear hs
          have hs := hs'
          · by_cases hcks : h.desc.checksum = true
            · rw [if_pos hcks] at hs
              by_cases hl4 : ((f.drop consumed).take 4).length < 4
              · rw [if_pos hl4] at hs; cases hs
              · rw [if_neg hl4] at hs
                by_cases hne : leNat ((f.drop consumed).take 4) ≠ Spec.Xxh64.checksum32 out.toList
                · rw [if_pos hne] at hs; cases hs
                · rw [if_neg hne] at hs
                  simp only [Option.some.injEq] at hs
                  rw [← hs]
                  simp only [List.length_take] at hl4
                  exact ⟨rfl, rfl, Or.inl ⟨hcks, by omega, rfl, rfl⟩⟩
            · rw [if_neg hcks] at hs
              simp only [Option.some.injEq] at hs
              rw [← hs]
              exact ⟨rfl, rfl, Or.inr ⟨by simpa using hcks, rfl, rfl⟩⟩
        obtain ⟨hrh, hrc, hrk⟩ := hr
        rw [hrh] at hlim
        have hlim' : Gen.windowOverLimit h.window d.maxWindow = false := by
          simp only [Gen.windowOverLimit, decide_eq_false_iff_not]; omega
        -- the dictionary choice
        have hdsel : (h.dictId = none ∧ dsel = none) ∨
            (∃ id dict sd, h.dictId = some id ∧ d.dicts.find? (fun x => x.id = id) = some dict ∧ dsel = some sd ∧
              sd.content = dict.content ∧ RefinesSpec.coupled dict.entropy sd.entropy) := by
          cases hdi : h.dictId with
          | none =>
            rw [hdi] at hsel
            simp only [Option.some.injEq] at hsel
            exact Or.inl ⟨rfl, hsel.symm⟩
          | some id =>
            rw [hdi] at hsel
            rcases hdc.find id with ⟨-, hn⟩ | ⟨dict, sd, hfd, hfs, hc1, hc2⟩
            · simp [hn] at hsel
            · simp only [hfs, Option.map_some, Option.some.injEq] at hsel
              exact Or.inr ⟨id, dict, sd, rfl, hfd, hsel.symm, hc1, hc2⟩
        -- the model's `reset`: the state and the Spec's (entropy, dictionary content)
        obtain ⟨st0, e0, hreset, hst0, hent, hblocks'⟩ : ∃ (st0 : FState σ) (e0 : Spec.Entropy),
            resetCore d.dicts d.maxWindow f = .replace st0 (.ok (f.drop h.hdrLen)) ∧
            (st0.header = fh ∧ st0.finished = false ∧ st0.checksum = none ∧ st0.bytesRead = h.hdrLen ∧
             st0.blockCounter = 0 ∧ st0.buf.content = #[] ∧ st0.buf.window = h.window ∧ st0.buf.totalOut = 0 ∧
             st0.buf.hashed = #[]) ∧ RefinesSpec.coupled st0.entropy e0 ∧
            Spec.decodeBlocks st0.buf.window st0.buf.dict (f.length + 1) (f.drop h.hdrLen) e0 st0.buf.content h.hdrLen
              = some (out, consumed) := by
          rcases hdsel with ⟨hdi, rfl⟩ | ⟨id, dict, sd, hdi, hfd, rfl, hc1, hc2⟩
          · refine ⟨freshState fh h.hdrLen h.window, {}, ?_, ⟨rfl, rfl, rfl, rfl, rfl, rfl, rfl, rfl, rfl⟩,
              RefinesSpec.coupled_fresh, hblocks⟩
            simp only [resetCore, hrf, hws, hlim', Bool.false_eq_true, if_false, applyDictChoice, freshState, hdid, hdi]
          · refine ⟨(freshState fh h.hdrLen h.window).withDict dict, sd.entropy, ?_,
              ⟨rfl, rfl, rfl, rfl, rfl, rfl, rfl, rfl, rfl⟩, hc2, ?_⟩
            · simp only [resetCore, hrf, hws, hlim', Bool.false_eq_true, if_false, applyDictChoice, freshState, hdid, hdi, hfd]
            · simp only at hblocks
              rw [hc1] at hblocks
              exact hblocks
        obtain ⟨hh0, hf0, hc0, hbr0, hbc0, hco0, hw0, hto0, hha0⟩ := hst0
        have hres : d.reset f = ({ d with state := some st0 }, .ok (f.drop h.hdrLen)) := by
          simp only [Decoder.reset, hreset]
        refine ⟨st0, e0, h.hdrLen, consumed, out, hres, h5, hhl, hf0, hc0, hbr0, hco0, hto0, hha0, hent, hblocks', hrc, ?_⟩
        rcases hrk with ⟨hcks, hl4, hrcons, hrck⟩ | ⟨hcks, hrcons, hrck⟩
        · exact Or.inl ⟨by rw [hh0, hck, hcks], hl4, hrcons, hrck⟩
        · exact Or.inr ⟨by rw [hh0, hck, hcks], hrcons, hrck⟩




/-- `decodeFrame_refines`: every frame the Spec accepts (with dictionaries coupled to the decoder's,
window within the decoder's limit) is decoded by `reset` + `decode_blocks(All)` to the Spec's content,
consuming exactly the Spec's byte count, finished, with the frame's stored checksum — C01 at the frame
level, for every block decoder that refines the Spec -/
theorem decodeFrame_refines (d : Decoder σ) (sdicts : List Spec.Dict) (hdc : DictsCoupled d.dicts sdicts)
    (f : List Nat) (hb : ∀ x ∈ f, x < 256) (r : Spec.FrameResult)
    (hs : Spec.decodeFrame f sdicts = some r) (hlim : r.header.window ≤ d.maxWindow) :
    ∃ d0 d1 rest st1, d.reset f = (d0, .ok rest) ∧
      d0.decodeBlocks rest .all = (d1, .ok (f.drop r.consumed, true)) ∧ d1.state = some st1 ∧
      st1.buf.content.toList = r.content ∧ d1.isFinished = true ∧ st1.bytesRead = r.consumed ∧
      st1.checksum = r.checksum ∧ st1.buf.hashed = #[] ∧ r.consumed ≤ f.length := by
  obtain ⟨st0, e0, hdrLen, consumed, out, hres, h5, hhl, hf0, hc0, hbr0, hco0, hto0, hha0, hent, hblocks', hrc, hrk⟩ :=
    decodeFrame_setup d sdicts hdc f hb r hs hlim
  have hbrest : ∀ x ∈ f.drop hdrLen, x < 256 := fun x hx => hb x (List.mem_of_mem_drop hx)
  have hss : SpecState st0 e0 st0.buf.content := ⟨rfl, hent, by rw [hto0]; omega⟩
  obtain ⟨st', n, hcn, hnl, hloop, hcont, hbr', hhd', hfi', hck', hhs', hw', hdi'⟩ :=
    decodeBlocksLoop_refines (f.length + 1) st0.buf.content.size st0.blockCounter ((f.drop hdrLen).length + 1)
      (f.drop hdrLen) hbrest e0 st0 out hdrLen consumed (by omega) hss hblocks'
  have hdb := Decoder.decodeBlocks_some ({ d with state := some st0 } : Decoder σ) st0 (f.drop hdrLen) .all rfl
  rw [hloop] at hdb
  have hdrop : (f.drop hdrLen).drop n = f.drop consumed := by rw [List.drop_drop, hcn]
  rw [List.length_drop] at hnl
  rcases hrk with ⟨hcks, hl4, hrcons, hrck⟩ | ⟨hcks, hrcons, hrck⟩
  · have hflag : st'.header.checksumFlag = true := by rw [hhd', hcks]
    have hre : readExact 4 (f.drop consumed) = some ((f.drop consumed).take 4, (f.drop consumed).drop 4) := by
      rw [readExact_eq_some]; exact ⟨hl4, rfl, rfl⟩
    simp only [finishFrame, hflag, if_true, hdrop, hre] at hdb
    refine ⟨_, ({ state := some ({ st' with finished := true, bytesRead := st'.bytesRead + 4, checksum := some (leNat ((f.drop consumed).take 4)) } : FState σ), dicts := d.dicts, maxWindow := d.maxWindow } : Decoder σ), _, _, hres, ?_, rfl, ?_, ?_, ?_, ?_, ?_, ?_⟩
    · rw [hdb, hrcons, List.drop_drop]
    · simp only; rw [hcont, hrc]
    · simp [Decoder.isFinished, hflag]
    · simp only; rw [hbr', hbr0, hrcons]; omega
    · simp only; rw [hrck]
    · simp only; rw [hhs', hha0]
    · rw [hrcons]; rw [List.length_drop] at hl4; omega
  · have hflag : st'.header.checksumFlag = false := by rw [hhd', hcks]
    simp only [finishFrame, hflag, Bool.false_eq_true, if_false, hdrop] at hdb
    refine ⟨_, ({ state := some ({ st' with finished := true } : FState σ), dicts := d.dicts, maxWindow := d.maxWindow } : Decoder σ), _, _, hres, ?_, rfl, ?_, ?_, ?_, ?_, ?_, ?_⟩
    · rw [hdb, hrcons]
    · simp only; rw [hcont, hrc]
    · simp [Decoder.isFinished, hflag]
    · simp only; rw [hbr', hbr0, hrcons]; omega
    · simp only; rw [hck', hc0, hrck]
    · simp only; rw [hhs', hha0]
    · rw [hrcons]; omega


end Zstd.Model
