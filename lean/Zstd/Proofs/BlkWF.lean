import Zstd.Model.BlockDecode
import Zstd.Proofs.BitIO
/-
Well-formedness predicates for the entropy state of the block decoder (`Blk.Scratch`): what the table
builders establish and what the decoding loops need in order not to index out of range, overflow or
spin.  Shared by `Proofs/BlkFse` (FSE builders), `Proofs/BlkHuf` (Huffman / literals) and
`Proofs/BlockNoFault` (sequence loop, composition).  Definitions only.
-/
namespace Zstd.Proofs.Blk
open Zstd Zstd.Model

/-- what the sequence loop needs of one FSE decoder-table entry -/
def EntryOK (al maxSymbol : Nat) (e : Fse.DEntry) : Prop :=
  e.symbol ≤ maxSymbol ∧ e.baseLine + 2 ^ e.numBits ≤ 2 ^ al ∧ e.numBits ≤ al

/-- an FSE decoder table as `build_decoder` / `build_from_probabilities` leave it on success -/
structure FseBuilt (maxLog : Nat) (t : Fse.DTable) : Prop where
  al_pos : 1 ≤ t.accuracyLog
  al_le : t.accuracyLog ≤ maxLog
  size : t.decode.size = 2 ^ t.accuracyLog
  entries : ∀ e ∈ t.decode.toList, EntryOK t.accuracyLog t.maxSymbol e

/-- uninitialised (`accuracy_log == 0`, as after `new` / `reset`) or built -/
def FseWF (maxLog : Nat) (t : Fse.DTable) : Prop := t.accuracyLog = 0 ∨ FseBuilt maxLog t

/-- a Huffman decoder table as `build_decoder` leaves it on success: `decode` has `2^max_num_bits`
cells, every cell consumes between 1 and `max_num_bits` bits -/
structure HufBuilt (t : Huf.DecTable) : Prop where
  pos : 1 ≤ t.maxNumBits
  le : t.maxNumBits ≤ 11
  size : t.decode.size = 2 ^ t.maxNumBits
  entries : ∀ e ∈ t.decode.toList, 1 ≤ e.numBits ∧ e.numBits ≤ t.maxNumBits

/-- empty (`max_num_bits == 0`, as after `new` / `reset`: a Treeless section is then rejected with
`UninitializedHuffmanTable`) or built -/
def HufWF (t : Huf.DecTable) : Prop := t.maxNumBits = 0 ∨ HufBuilt t

/-- the Spec-level FSE table used by the Huffman model for compressed weights (`read_weights`) -/
structure SpecTableOK (ft : Spec.Fse.Table) : Prop where
  al_pos : 1 ≤ ft.accLog
  size : ft.entries.size = 2 ^ ft.accLog
  entries : ∀ e ∈ ft.entries.toList, e.baseline + 2 ^ e.nbBits ≤ 2 ^ ft.accLog

/-- every table the weights reader can obtain (max log 6, max symbol 255) is well formed; proved in
`Proofs/BlkFseSpec` (`specFseOK`).  (Was a hypothesis of `Proofs/BlkHuf` while the Huffman model read
its compressed weights through the Spec-level FSE table; `read_weights` now uses the shared
`Fse.DTable` / `Fse.Decoder` / `BitReaderRev` models and `Proofs/BlkHufWeights` needs no hypothesis.) -/
def SpecFseOK : Prop :=
  ∀ (bytes : List Nat) (al : Nat) (probs : List Int) (used : Nat) (ft : Spec.Fse.Table),
    Spec.Fse.readDescription bytes Gen.hufWeightsMaxLogDec Gen.hufFseMaxSymbol = some (al, probs, used) →
    Spec.Fse.buildTable al probs = some ft → SpecTableOK ft ∧ used ≤ bytes.length

/-- what `decompress_block` guarantees about the slice it hands to `decode_literals`
(block_decoder.rs:120-172: `upper_limit_for_literals` + the length check) and about the section
(`parse_from_header`: a compressed size and 1 or 4 streams for the Huffman-coded types) -/
structure LitPre (sec : Huf.LitSection) (src : List Nat) : Prop where
  raw : sec.lsType = .raw → src.length = sec.regeneratedSize
  rle : sec.lsType = .rle → src.length = 1
  comp : sec.lsType = .compressed ∨ sec.lsType = .treeless →
    sec.compressedSize = some src.length ∧ (sec.numStreams = some 1 ∨ sec.numStreams = some 4)

end Zstd.Proofs.Blk
