import Zstd.Proofs.MatchParse
/-
Helper lemmas for C17, part 6: absence of panics.  Needs (a) a hash that stays inside the slot
array (`KeyOk`), (b) the invariant on the content of the suffix stores: every stored index `idx` of
an entry satisfies `idx + MIN_MATCH_LEN ≤ |data|`, in the entry being matched additionally
`idx < suffix_idx`; pooled (recycled) stores are empty.
-/
namespace Zstd.Proofs.MG
open Zstd Zstd.Model.MG

/-- the hash stays inside the slot array (for stores with `len_log > 0` and at least one slot —
all stores the driver ever creates, see `StoreOk`) -/
def KeyOk (key : KeyFn) : Prop :=
  ∀ lenLog n (kb : List Byte), 0 < lenLog → 0 < n → kb.length = minMatchLen → key lenLog n kb < n

def StoreOk (st : SuffixStore) : Prop := 0 < st.lenLog ∧ 0 < st.slots.size

/-- every stored index is below `bound` and is the start of a full key inside a block of length `len` -/
def IdxOk (st : SuffixStore) (bound len : Nat) : Prop :=
  ∀ k (h : k < st.slots.size) idx, st.slots[k] = some idx → idx < bound ∧ idx + minMatchLen ≤ len

def StoreEmpty (st : SuffixStore) : Prop := ∀ k (h : k < st.slots.size), st.slots[k] = none

theorem idxOk_of_empty {st : SuffixStore} (h : StoreEmpty st) (b len : Nat) : IdxOk st b len := by
  intro k hk idx hs
  rw [h k hk] at hs
  cases hs

theorem idxOk_mono {st : SuffixStore} {b b' len : Nat} (h : IdxOk st b len) (hb : b ≤ b') : IdxOk st b' len := by
  intro k hk idx hs
  obtain ⟨h1, h2⟩ := h k hk idx hs
  exact ⟨by omega, h2⟩

theorem keyAt_length (data : Array Byte) (p : Nat) (h : p + minMatchLen ≤ data.size) :
    (keyAt data p).length = minMatchLen := by
  simp [keyAt]; omega

theorem get_ok (key : KeyFn) (hk : KeyOk key) (st : SuffixStore) (hst : StoreOk st) (kb : List Byte)
    (hkb : kb.length = minMatchLen) :
    ∃ r, st.get key kb = .ok r ∧ ∀ idx, r = some idx → ∃ k, ∃ h : k < st.slots.size, st.slots[k] = some idx := by
  have := hk st.lenLog st.slots.size kb hst.1 hst.2 hkb
  unfold SuffixStore.get
  simp only [this, dite_true]
  exact ⟨_, rfl, fun idx h => ⟨_, this, h⟩⟩

theorem insertIfAbsent_ok (key : KeyFn) (hk : KeyOk key) (st : SuffixStore) (hst : StoreOk st) (kb : List Byte)
    (hkb : kb.length = minMatchLen) (idx b len : Nat) (hi : IdxOk st b len) (h1 : idx < b) (h2 : idx + minMatchLen ≤ len) :
    ∃ st', st.insertIfAbsent key kb idx = .ok st' ∧ StoreOk st' ∧ IdxOk st' b len := by
  have hlt := hk st.lenLog st.slots.size kb hst.1 hst.2 hkb
  unfold SuffixStore.insertIfAbsent
  simp only [hlt, dite_true]
  split
  · exact ⟨st, rfl, hst, hi⟩
  · refine ⟨_, rfl, ⟨hst.1, by simp; exact hst.2⟩, ?_⟩
    intro k hk' idx' hs
    simp only [Array.size_set] at hk'
    simp only [Array.getElem_set] at hs
    split at hs
    · cases hs; exact ⟨h1, h2⟩
    · exact hi k hk' idx' hs

theorem addSuffixLoop_ok (key : KeyFn) (hk : KeyOk key) (data : Array Byte) :
    ∀ (n p : Nat) (st : SuffixStore) (b : Nat), StoreOk st → IdxOk st b data.size → p + n ≤ b →
      (n = 0 ∨ p + n - 1 + minMatchLen ≤ data.size) →
      ∃ st', addSuffixLoop key data n p st = .ok st' ∧ StoreOk st' ∧ IdxOk st' b data.size := by
  intro n
  induction n with
  | zero => intro p st b h1 h2 _ _; exact ⟨st, rfl, h1, h2⟩
  | succ n ih =>
    intro p st b h1 h2 h3 h4
    unfold addSuffixLoop
    have hp : p + minMatchLen ≤ data.size := by omega
    obtain ⟨st1, e1, s1, i1⟩ := insertIfAbsent_ok key hk st h1 (keyAt data p) (keyAt_length data p hp) p b data.size h2
      (by omega) hp
    rw [e1]
    simp only []
    exact ih (p + 1) st1 b s1 i1 (by omega) (by omega)

theorem addSuffixesTill_ok (key : KeyFn) (hk : KeyOk key) (data : Array Byte) (st : SuffixStore) (s idx : Nat)
    (h1 : StoreOk st) (h2 : IdxOk st s data.size) (h3 : s ≤ idx) (h4 : idx ≤ data.size) :
    ∃ st', addSuffixesTill key data st s idx = .ok st' ∧ StoreOk st' ∧ IdxOk st' idx data.size := by
  unfold addSuffixesTill
  split
  · exact ⟨st, rfl, h1, idxOk_mono h2 h3⟩
  · have hc : ¬ (s > idx ∨ idx > data.size) := by omega
    simp only [hc, if_false]
    have := minMatchLen_pos
    exact addSuffixLoop_ok key hk data _ s st idx h1 (idxOk_mono h2 h3) (by omega) (by omega)

/-- what the candidate lookup needs of an older (not last) window entry -/
def OlderOk (older : List Entry) : Prop :=
  ∀ e ∈ older, StoreOk e.suffixes ∧ IdxOk e.suffixes e.data.size e.data.size ∧ e.data.size ≤ e.baseOffset

theorem candOf_ok_older (key : KeyFn) (hk : KeyOk key) (cur : Array Byte) (s : Nat) (kb : List Byte)
    (hkb : kb.length = minMatchLen) (e : Entry)
    (h : StoreOk e.suffixes ∧ IdxOk e.suffixes e.data.size e.data.size ∧ e.data.size ≤ e.baseOffset) :
    ∃ r, candOf key cur s kb e false = .ok r := by
  obtain ⟨h1, h2, h3⟩ := h
  obtain ⟨r, hr, hidx⟩ := get_ok key hk e.suffixes h1 kb hkb
  unfold candOf
  rw [hr]
  cases r with
  | none => exact ⟨_, rfl⟩
  | some mi =>
    obtain ⟨k, hk', hs⟩ := hidx mi rfl
    obtain ⟨g1, g2⟩ := h2 k hk' mi hs
    simp only [Bool.false_eq_true, if_false]
    have hc : ¬ (mi > e.data.size ∨ e.data.size > e.data.size) := by omega
    simp only [hc, if_false]
    split
    · have : ¬ (e.baseOffset + s < mi) := by omega
      simp only [this, if_false]
      exact ⟨_, rfl⟩
    · exact ⟨_, rfl⟩

theorem candOf_ok_last (key : KeyFn) (hk : KeyOk key) (cur : Array Byte) (s : Nat) (kb : List Byte)
    (hkb : kb.length = minMatchLen) (e : Entry)
    (h1 : StoreOk e.suffixes) (h2 : IdxOk e.suffixes s e.data.size) (h3 : s ≤ e.data.size) :
    ∃ r, candOf key cur s kb e true = .ok r := by
  obtain ⟨r, hr, hidx⟩ := get_ok key hk e.suffixes h1 kb hkb
  unfold candOf
  rw [hr]
  cases r with
  | none => exact ⟨_, rfl⟩
  | some mi =>
    obtain ⟨k, hk', hs⟩ := hidx mi rfl
    obtain ⟨g1, g2⟩ := h2 k hk' mi hs
    simp only [if_true]
    have hc : ¬ (mi > s ∨ s > e.data.size) := by omega
    simp only [hc, if_false]
    split
    · have : ¬ (e.baseOffset + s < mi) := by omega
      simp only [this, if_false]
      exact ⟨_, rfl⟩
    · exact ⟨_, rfl⟩

theorem findCandidate_ok (key : KeyFn) (hk : KeyOk key) (cur : Array Byte) (s : Nat) (kb : List Byte)
    (hkb : kb.length = minMatchLen) (lastE : Entry)
    (h1 : StoreOk lastE.suffixes) (h2 : IdxOk lastE.suffixes s lastE.data.size) (h3 : s ≤ lastE.data.size) :
    ∀ (older : List Entry) (cand : Option (Nat × Nat)), OlderOk older →
      ∃ r, findCandidate key cur s kb (older ++ [lastE]) cand = .ok r := by
  intro older
  induction older with
  | nil =>
    intro cand _
    obtain ⟨r, hr⟩ := candOf_ok_last key hk cur s kb hkb lastE h1 h2 h3
    simp only [List.nil_append, findCandidate, List.isEmpty_nil, hr]
    cases r <;> exact ⟨_, rfl⟩
  | cons e rest ih =>
    intro cand ho
    have he := ho e (by simp)
    have hrest : OlderOk rest := fun x hx => ho x (by simp [hx])
    obtain ⟨r, hr⟩ := candOf_ok_older key hk cur s kb hkb e he
    have hne : (rest ++ [lastE]).isEmpty = false := by cases rest <;> simp
    simp only [List.cons_append, findCandidate, hne, hr]
    cases r with
    | none => exact ih cand hrest
    | some c => exact ih _ hrest

theorem nextLoop_ok (key : KeyFn) (hk : KeyOk key) (older : List Entry) (last : Entry) (lastIdx : Nat)
    (ho : OlderOk older) :
    ∀ (fuel : Nat) (st : SuffixStore) (s : Nat), last.data.size - s + 1 ≤ fuel → lastIdx ≤ s → s ≤ last.data.size →
      StoreOk st → IdxOk st s last.data.size →
      ∃ o, nextLoop key older last lastIdx fuel st s = .ok o ∧ StoreOk o.store ∧
        IdxOk o.store o.suffixIdx last.data.size := by
  intro fuel
  induction fuel with
  | zero => intro st s hf; omega
  | succ fuel ih =>
    intro st s hf hl hs hst hidx
    unfold nextLoop
    simp only [Zstd.Gen.mgAtEnd, Zstd.Gen.mgPendingLits, Zstd.Gen.mgTailShort, decide_eq_true_eq]
    split
    · split
      · have : ¬ lastIdx > last.data.size := by omega
        simp only [this, if_false]
        exact ⟨_, rfl, hst, hidx⟩
      · exact ⟨_, rfl, hst, hidx⟩
    · split
      · have : ¬ lastIdx > last.data.size := by omega
        simp only [this, if_false]
        exact ⟨_, rfl, hst, idxOk_mono hidx (by omega)⟩
      · rename_i hne hshort
        have hkey : s + minMatchLen ≤ last.data.size := by omega
        have hkb := keyAt_length last.data s hkey
        obtain ⟨r, hr⟩ := findCandidate_ok key hk last.data s (keyAt last.data s) hkb { last with suffixes := st }
          hst hidx hs older none ho
        simp only [hr]
        cases r with
        | some c =>
          obtain ⟨offset, ml⟩ := c
          simp only []
          have hg := findCandidate_sound key last.data s (keyAt last.data s) hs _ none (offset, ml) hr
          rcases hg with hg | hg
          · simp at hg
          · have hml := (goodIn_len hg).2
            simp only [] at hml
            obtain ⟨st', e1, s1, i1⟩ := addSuffixesTill_ok key hk last.data st s (s + ml) hst hidx (by omega) hml
            simp only [e1]
            have : ¬ lastIdx > s := by omega
            simp only [this, if_false]
            exact ⟨_, rfl, s1, i1⟩
        | none =>
          simp only []
          obtain ⟨st', e1, s1, i1⟩ := insertIfAbsent_ok key hk st hst (keyAt last.data s) hkb s (s + 1) last.data.size
            (idxOk_mono hidx (by omega)) (by omega) hkey
          simp only [e1]
          exact ih st' (s + 1) (by omega) (by omega) (by omega) s1 i1

end Zstd.Proofs.MG

namespace Zstd.Proofs.MG
open Zstd Zstd.Model.MG

/-! ### the store invariant of the generator and of the driver -/

structure SOK (g : MatchGenerator) : Prop where
  older : OlderOk g.window.dropLast
  last : ∀ last, g.window.getLast? = some last →
    StoreOk last.suffixes ∧ IdxOk last.suffixes g.suffixIdx last.data.size

/-- the complete invariant of the driver -/
structure Inv (d : Driver) : Prop where
  wf : WF d.mg
  sok : SOK d.mg
  pool : ∀ st ∈ d.suffixPool, StoreOk st ∧ StoreEmpty st

theorem sok_entry_storeOk {g : MatchGenerator} (h : SOK g) : ∀ e ∈ g.window, StoreOk e.suffixes := by
  intro e he
  cases hl : g.window.getLast? with
  | none => rw [List.getLast?_eq_none_iff.mp hl] at he; simp at he
  | some last =>
    rw [eq_dropLast_append_of_getLast? g.window last hl] at he
    simp only [List.mem_append, List.mem_singleton] at he
    rcases he with he | he
    · exact (h.older e he).1
    · subst he; exact (h.last _ hl).1

theorem nextSequence_ok (key : KeyFn) (hk : KeyOk key) (g : MatchGenerator) (hwf : WF g) (hs : SOK g)
    (last : Entry) (hl : g.window.getLast? = some last) :
    ∃ g' r, g.nextSequence key = .ok (g', r) ∧ SOK g' := by
  obtain ⟨h1, h2⟩ := hs.last last hl
  obtain ⟨o, ho, s1, i1⟩ := nextLoop_ok key hk g.window.dropLast last g.lastIdxInSequence hs.older
    (last.data.size - g.suffixIdx + 1) last.suffixes g.suffixIdx (Nat.le_refl _)
    (by rw [hwf.idx_eq]; exact Nat.le_refl _) (hwf.idx_le last hl) h1 h2
  unfold MatchGenerator.nextSequence
  simp only [hl, ho]
  refine ⟨_, _, rfl, ?_, ?_⟩
  · simp only [MatchGenerator.setLast, List.dropLast_concat]
    exact hs.older
  · intro l hl2
    simp only [MatchGenerator.setLast, List.getLast?_concat, Option.some.injEq] at hl2
    subst hl2
    exact ⟨s1, i1⟩

theorem startLoop_ok (key : KeyFn) (hk : KeyOk key) : ∀ (fuel : Nat) (g : MatchGenerator), WF g → SOK g →
    (∃ last, g.window.getLast? = some last ∧ last.data.size - g.suffixIdx + 2 ≤ fuel) →
    ∃ g' seqs, MatchGenerator.startLoop key fuel g = .ok (g', seqs) ∧ SOK g' := by
  intro fuel
  induction fuel with
  | zero => intro g _ _ ⟨_, _, h⟩; omega
  | succ fuel ih =>
    intro g hwf hs ⟨last, hl, hf⟩
    obtain ⟨g1, r, hns, hs1⟩ := nextSequence_ok key hk g hwf hs last hl
    have hwf1 := nextSequence_wf key g g1 r hwf hns
    obtain ⟨last0, hl0, _, ⟨last1, hl1, hd1⟩, _, _, _, hle, hge, hso⟩ := nextSequence_spec key g g1 r hwf hns
    rw [hl] at hl0
    cases hl0
    unfold MatchGenerator.startLoop
    simp only [hns]
    cases r with
    | none => exact ⟨_, _, rfl, hs1⟩
    | some sq =>
      simp only []
      have hprog : last1.data.size - g1.suffixIdx + 2 ≤ fuel := by
        rw [hd1]
        cases sq with
        | literals l =>
          simp only [StepOut] at hso
          omega
        | triple l off ml =>
          simp only [StepOut] at hso
          obtain ⟨s', h1, _, h3, h4⟩ := hso
          have := (goodIn_len h4).1
          have := minMatchLen_pos
          simp only [] at *
          omega
      obtain ⟨g2, rest, h2, hs2⟩ := ih g1 hwf1 hs1 ⟨last1, hl1, hprog⟩
      simp only [h2]
      exact ⟨_, _, rfl, hs2⟩

theorem startMatching_ok (key : KeyFn) (hk : KeyOk key) (g : MatchGenerator) (hwf : WF g) (hs : SOK g)
    (hne : g.window ≠ []) : ∃ g' seqs, g.startMatching key = .ok (g', seqs) ∧ SOK g' := by
  cases hl : g.window.getLast? with
  | none => exact absurd (List.getLast?_eq_none_iff.mp hl) hne
  | some last =>
    apply startLoop_ok key hk _ g hwf hs
    exact ⟨last, hl, by simp [MatchGenerator.startFuel, hl]⟩

theorem skipMatching_ok (key : KeyFn) (hk : KeyOk key) (g : MatchGenerator) (hwf : WF g) (hs : SOK g)
    (hne : g.window ≠ []) : ∃ g', g.skipMatching key = .ok g' ∧ SOK g' := by
  cases hl : g.window.getLast? with
  | none => exact absurd (List.getLast?_eq_none_iff.mp hl) hne
  | some last =>
    obtain ⟨h1, h2⟩ := hs.last last hl
    obtain ⟨st', e1, s1, i1⟩ := addSuffixesTill_ok key hk last.data last.suffixes g.suffixIdx last.data.size h1 h2
      (hwf.idx_le last hl) (Nat.le_refl _)
    unfold MatchGenerator.skipMatching
    simp only [hl, e1]
    refine ⟨_, rfl, ?_, ?_⟩
    · simp only [MatchGenerator.setLast, List.dropLast_concat]
      exact hs.older
    · intro l hl2
      simp only [MatchGenerator.setLast, List.getLast?_concat, Option.some.injEq] at hl2
      subst hl2
      exact ⟨s1, i1⟩

theorem reserveLoop_ok (maxW amount : Nat) (ha : amount ≤ maxW) : ∀ (w : List Entry) (ws : Nat),
    ws = total (shape w) → ∃ r, reserveLoop maxW amount w ws = .ok r := by
  intro w
  induction w with
  | nil =>
    intro ws h
    unfold reserveLoop
    simp only [Zstd.Gen.mgEvictWhile, decide_eq_true_eq]
    have : ¬ (ws + amount > maxW) := by simp at h; omega
    simp only [this, if_false]
    exact ⟨_, rfl⟩
  | cons e rest ih =>
    intro ws h
    unfold reserveLoop
    simp only [Zstd.Gen.mgEvictWhile, decide_eq_true_eq]
    split
    · simp only [shape_cons, total_cons] at h
      have : ¬ ws < e.data.size := by omega
      simp only [this, if_false]
      obtain ⟨r, hr⟩ := ih (ws - e.data.size) (by omega)
      simp only [hr]
      exact ⟨_, rfl⟩
    · exact ⟨_, rfl⟩

theorem addData_ok (g : MatchGenerator) (data : Array Byte) (cap : Nat) (st : SuffixStore)
    (hwf : WF g) (hs : SOK g) (hp : g.processed = true) (hd : data.size ≤ g.maxWindowSize)
    (hst : StoreOk st) (hem : StoreEmpty st) :
    ∃ g' ev, g.addData data cap st = .ok (g', ev) ∧ SOK g' ∧ (∀ e ∈ ev, StoreOk e.suffixes) := by
  obtain ⟨r, hr⟩ := reserveLoop_ok g.maxWindowSize data.size hd g.window g.windowSize hwf.size
  obtain ⟨w, ws, ev⟩ := r
  have hadd : g.addData data cap st = .ok
      ({ g with window := shiftBases w ++ [{ data := data, cap := cap, suffixes := st, baseOffset := 0 }],
                windowSize := ws + data.size, suffixIdx := 0, lastIdxInSequence := 0 }, ev) := by
    unfold MatchGenerator.addData MatchGenerator.reserve
    simp only [hp, Zstd.Gen.mgReserveAssert, hr]
    have : decide (g.maxWindowSize ≥ data.size) = true := by simpa using hd
    simp [this]
  refine ⟨_, _, hadd, ?_, ?_⟩
  · obtain ⟨hw, _, _⟩ := reserveLoop_spec _ _ _ _ _ _ _ hr
    constructor
    · -- older entries of the new window = all kept entries, base offsets shifted
      simp only [List.dropLast_concat, shiftBases]
      cases hl : w.getLast? with
      | none =>
        have : w = [] := List.getLast?_eq_none_iff.mp hl
        subst this
        intro e he; simp at he
      | some last =>
        simp only []
        have hwl := eq_dropLast_append_of_getLast? w last hl
        have hgl : g.window.getLast? = some last := by rw [hw, List.getLast?_append, hl]; simp
        have hgd : g.window.dropLast = ev ++ w.dropLast := by
          rw [hw]
          conv => lhs; rw [hwl, ← List.append_assoc, List.dropLast_concat]
        intro e he
        simp only [List.mem_map] at he
        obtain ⟨e0, he0, rfl⟩ := he
        rw [hwl] at he0
        simp only [List.mem_append, List.mem_singleton] at he0
        rcases he0 with he0 | he0
        · obtain ⟨a1, a2, a3⟩ := hs.older e0 (by rw [hgd]; simp [he0])
          exact ⟨a1, a2, by simp only []; omega⟩
        · subst he0
          obtain ⟨a1, a2⟩ := hs.last _ hgl
          have hproc : g.suffixIdx = e0.data.size := by
            simp only [MatchGenerator.processed, hgl, beq_iff_eq] at hp
            exact hp
          rw [hproc] at a2
          exact ⟨a1, a2, by simp only []; omega⟩
    · intro l hl
      simp only [List.getLast?_concat, Option.some.injEq] at hl
      subst hl
      exact ⟨hst, idxOk_of_empty hem _ _⟩
  · obtain ⟨hw, _, _⟩ := reserveLoop_spec _ _ _ _ _ _ _ hr
    intro e he
    exact sok_entry_storeOk hs e (by rw [hw]; simp [he])

end Zstd.Proofs.MG
