import Zstd.Proofs.HufDec
/-
The direct weight description: what `write_table` writes for at most 16 transmitted weights is read
back by `read_weights` as the same weights, and `build_table_from_weights` re-infers the dropped
last weight, so that the decoder's code lengths are the encoder's.
-/
namespace Zstd.Proofs.Huf
open Zstd Zstd.Model.Huf

theorem nibbles_directBytes : ∀ (ws : List Nat), (∀ w ∈ ws, w < 16) →
    ∃ bs, directBytes ws = .ok bs ∧ bs.length = (ws.length + 1) / 2 ∧
      ∀ tail, nibbles ws.length (bs ++ tail) = .ok ws
  | [], _ => ⟨[], rfl, rfl, fun _ => rfl⟩
  | [w], h => by
    have hw : w < 16 := h w List.mem_cons_self
    refine ⟨[w * 2 ^ Gen.hufOddShift % 256], ?_, by simp, ?_⟩
    · simp only [directBytes]; rw [if_neg (by omega)]
    · intro tail
      simp only [List.length_cons, List.length_nil, List.cons_append, List.nil_append, nibbles,
        Gen.hufEvenIdxHigh, Gen.hufOddShift, if_true]
      congr 2; omega
  | w1 :: w2 :: rest, h => by
    have h1 : w1 < 16 := h w1 List.mem_cons_self
    have h2 : w2 < 16 := h w2 (List.mem_cons_of_mem _ List.mem_cons_self)
    obtain ⟨bs, hb1, hb2, hb3⟩ := nibbles_directBytes rest
      (fun w hw => h w (List.mem_cons_of_mem _ (List.mem_cons_of_mem _ hw)))
    refine ⟨(w2 + 16 * w1) :: bs, ?_, ?_, ?_⟩
    · simp only [directBytes]; rw [if_neg (by omega), hb1]; simp [Gen.hufPairSecondLow]
    · simp only [List.length_cons, hb2]; omega
    · intro tail
      simp only [List.length_cons, List.cons_append, nibbles, hb3 tail, Gen.hufEvenIdxHigh, if_true]
      congr 2
      · omega
      · congr 1; omega

theorem dropLast_append_of_getLast? {l : List Nat} {w : Nat} (h : l.getLast? = some w) :
    l.dropLast ++ [w] = l := by
  rw [List.getLast?_eq_some_iff] at h
  obtain ⟨ys, rfl⟩ := h
  simp

theorem readWeights_direct (st : DecTable) (ws bs tail : List Nat) (hn1 : 1 ≤ ws.length) (hn2 : ws.length ≤ 128)
    (hlen : bs.length = (ws.length + 1) / 2) (hnib : nibbles ws.length (bs ++ tail) = .ok ws) :
    readWeights st ((ws.length + Gen.hufDirectHeaderAddEnc) :: (bs ++ tail))
      = ({ st with weights := ws }, .ok (1 + bs.length)) := by
  have hA : Gen.hufDirectHeaderAddEnc = 127 := rfl
  have hB : Gen.hufFseHeaderMax = 127 := rfl
  have hC : Gen.hufDirectHeaderSubDec = 127 := rfl
  have e : ws.length + Gen.hufDirectHeaderAddEnc - Gen.hufDirectHeaderSubDec = ws.length := by omega
  have hneed : ¬ (bs ++ tail).length < (if ws.length % 2 = 0 then ws.length / 2 else ws.length / 2 + 1) := by
    rw [List.length_append, hlen]; split <;> omega
  have hres : (if (8 + 4 * ws.length) % 8 = 0 then (8 + 4 * ws.length) / 8 else (8 + 4 * ws.length) / 8 + 1)
      = 1 + bs.length := by
    rw [hlen]; split <;> omega
  unfold readWeights
  simp only
  rw [if_neg (by omega), e, if_neg hneed, hnib]
  simp only [hres]

/-- the encoder table is a complete code of depth `M ≤ 11` over at least two symbols, the last of
which is used (true for every table `build_from_data` returns) -/
structure KraftTable (t : EncTable) (M : Nat) : Prop where
  two : 2 ≤ t.codes.length
  len256 : t.codes.length ≤ 256
  le : ∀ c ∈ t.codes, c.2 ≤ M
  has : ∃ c ∈ t.codes, c.2 = M
  m1 : 1 ≤ M
  m11 : M ≤ 11
  lastUsed : ∀ c, t.codes.getLast? = some c → 1 ≤ c.2
  kraft : weightSum (t.codes.map fun c => if c.2 = 0 then 0 else M - c.2 + 1) = 2 ^ M

theorem foldl_max_eq (l : List (Nat × Nat)) (M : Nat) (hle : ∀ c ∈ l, c.2 ≤ M) :
    ∀ acc, acc ≤ M → (acc = M ∨ ∃ c ∈ l, c.2 = M) → l.foldl (fun m c => Nat.max m c.2) acc = M := by
  induction l with
  | nil => intro acc _ h; rcases h with h | ⟨c, hc, _⟩
           · exact h
           · cases hc
  | cons x xs ih =>
    intro acc hacc h
    have hx : x.2 ≤ M := hle x List.mem_cons_self
    rw [List.foldl_cons]
    apply ih (fun c hc => hle c (List.mem_cons_of_mem _ hc)) _ (Nat.max_le.mpr ⟨hacc, hx⟩)
    rcases h with h | ⟨c, hc, hcm⟩
    · left; subst h; exact Nat.max_eq_left hx
    · rcases List.mem_cons.mp hc with rfl | hc
      · left; rw [← hcm]; exact Nat.max_eq_right (by omega)
      · right; exact ⟨c, hc, hcm⟩

theorem weights_of_kraft {t : EncTable} {M : Nat} (k : KraftTable t M) :
    weights t = .ok (t.codes.map fun c => if c.2 = 0 then 0 else M - c.2 + 1) := by
  unfold weights
  have hmax := foldl_max_eq t.codes M k.le 0 (Nat.zero_le _) (Or.inr k.has)
  cases hc : t.codes with
  | nil => have := k.two; rw [hc] at this; simp at this
  | cons c cs => simp only; rw [← hc, hmax]

theorem log2_eq_of_bounds {n k : Nat} (h1 : 2 ^ k ≤ n) (h2 : n < 2 ^ (k + 1)) : Nat.log2 n = k := by
  have hn : n ≠ 0 := by have := Nat.two_pow_pos k; omega
  have a : Nat.log2 n < k + 1 := (Nat.log2_lt hn).mpr h2
  have b : ¬ Nat.log2 n < k := by rw [Nat.log2_lt hn]; omega
  omega

theorem weightSum_dropLast (ws : List Nat) (w : Nat) (h : ws.getLast? = some w) :
    weightSum ws = weightSum ws.dropLast + (if w > 0 then 2 ^ (w - 1) else 0) := by
  have : ws = ws.dropLast ++ [w] := (dropLast_append_of_getLast? h).symm
  conv => lhs; rw [this]
  rw [weightSum_append]; simp [weightSum]

/-- all weights of a table, as `HuffmanEncoder::weights` computes them -/
def encWeights (t : EncTable) (M : Nat) : List Nat := t.codes.map fun c => if c.2 = 0 then 0 else M - c.2 + 1

/-- For a complete encoder table the transmitted weights (all but the last) pass every check of
the decoder, give back `M` as Max_Number_of_Bits, and the code lengths the decoder derives from
them — including the one of the dropped last symbol — are the encoder's. -/
theorem kraft_weights_good {t : EncTable} {M : Nat} (k : KraftTable t M) :
    GoodWeights (encWeights t M).dropLast ∧ maxBitsOf (encWeights t M).dropLast = M ∧
      allBitsOf (encWeights t M).dropLast = t.codes.map (·.2) ∧
      (encWeights t M).dropLast.length = t.codes.length - 1 ∧
      (∀ w ∈ (encWeights t M).dropLast, w < 16) := by
  let wsAll := encWeights t M
  have hlenAll : wsAll.length = t.codes.length := by simp [wsAll, encWeights]
  have hlt16 : ∀ w ∈ wsAll.dropLast, w < 16 := by
    intro w hw
    have hw' : w ∈ wsAll := List.dropLast_subset _ hw
    simp only [wsAll, encWeights, List.mem_map] at hw'
    obtain ⟨c, _, rfl⟩ := hw'
    have := k.m11
    split <;> omega
  have hdl : wsAll.dropLast.length = t.codes.length - 1 := by simp [hlenAll]
  have hne : t.codes ≠ [] := by intro h; have := k.two; rw [h] at this; simp at this
  obtain ⟨cl, hcl⟩ : ∃ c, t.codes.getLast? = some c := ⟨t.codes.getLast hne, List.getLast?_eq_some_getLast hne⟩
  have hcl1 : 1 ≤ cl.2 := k.lastUsed cl hcl
  have hclM : cl.2 ≤ M := k.le cl (List.mem_of_getLast? hcl)
  let wLast := M - cl.2 + 1
  have hwl : wsAll.getLast? = some wLast := by
    simp only [wsAll, encWeights, List.getLast?_map, hcl, Option.map_some]
    have : ¬ cl.2 = 0 := by omega
    simp [this, wLast]
  have hwl1 : 1 ≤ wLast := by simp [wLast]
  have hwlM : wLast ≤ M := by simp only [wLast]; omega
  have hsumAll : weightSum wsAll = 2 ^ M := k.kraft
  have hsplit := weightSum_dropLast wsAll wLast hwl
  have hwlpos : wLast > 0 := by omega
  simp only [hwlpos, if_true] at hsplit
  have hpowlt : 2 ^ (wLast - 1) ≤ 2 ^ (M - 1) := Nat.pow_le_pow_right (by omega) (by omega)
  have hM2 : 2 ^ M = 2 * 2 ^ (M - 1) := by
    have : M = (M - 1) + 1 := by have := k.m1; omega
    conv => lhs; rw [this, Nat.pow_succ]
    omega
  have hsum' : weightSum wsAll.dropLast = 2 ^ M - 2 ^ (wLast - 1) := by omega
  have hlog : Nat.log2 (weightSum wsAll.dropLast) = M - 1 := by
    apply log2_eq_of_bounds
    · omega
    · have : M - 1 + 1 = M := by have := k.m1; omega
      rw [this]
      have := Nat.two_pow_pos (wLast - 1)
      omega
  have hmb : maxBitsOf wsAll.dropLast = M := by
    simp only [maxBitsOf, hlog]; have := k.m1; omega
  have hleft : 2 ^ maxBitsOf wsAll.dropLast - weightSum wsAll.dropLast = 2 ^ (wLast - 1) := by
    rw [hmb, hsum']
    have := Nat.two_pow_pos (wLast - 1)
    omega
  have hlw : lastWeightOf wsAll.dropLast = wLast := by
    simp only [lastWeightOf, hleft, Nat.log2_two_pow]; omega
  have hgood : GoodWeights wsAll.dropLast := by
    refine ⟨?_, ?_, ?_, ?_⟩
    · intro w hw
      have := hlt16 w hw
      have hw' : w ∈ wsAll := List.dropLast_subset _ hw
      simp only [wsAll, encWeights, List.mem_map] at hw'
      obtain ⟨c, _, rfl⟩ := hw'
      have h11 : Gen.hufMaxNumBits = 11 := rfl
      have := k.m11
      split <;> omega
    · have := Nat.two_pow_pos (wLast - 1); omega
    · have e : Nat.log2 (weightSum wsAll.dropLast) + 1 = maxBitsOf wsAll.dropLast := rfl
      rw [e, hleft, isPow2_iff]
      exact ⟨by have := Nat.two_pow_pos (wLast - 1); omega, by rw [Nat.log2_two_pow]⟩
    · have e : Nat.log2 (weightSum wsAll.dropLast) + 1 = maxBitsOf wsAll.dropLast := rfl
      have h11 : Gen.hufMaxNumBits = 11 := rfl
      rw [e, hmb, h11]; exact k.m11
  refine ⟨hgood, hmb, ?_, hdl, hlt16⟩
  have hrec : wsAll.dropLast ++ [wLast] = wsAll := dropLast_append_of_getLast? hwl
  show bitsOf (maxBitsOf wsAll.dropLast) (wsAll.dropLast ++ [lastWeightOf wsAll.dropLast]) = _
  rw [hmb, hlw, hrec]
  simp only [bitsOf, wsAll, encWeights, List.map_map]
  apply List.map_congr_left
  intro c hc
  have := k.le c hc
  simp only [Function.comp]
  by_cases h0 : c.2 = 0
  · simp [h0]
  · have : M - c.2 + 1 > 0 := by omega
    simp only [h0, if_false, this, if_true]; omega

/-- after `read_weights` delivered the encoder's transmitted weights, `build_table_from_weights`
yields the encoder's code lengths -/
theorem build_after_read {t : EncTable} {M : Nat} (k : KraftTable t M) (st : DecTable)
    (hst : st.weights = (encWeights t M).dropLast) :
    ∃ st', buildTableFromWeights st = (st', .ok ()) ∧ st'.bits = t.codes.map (·.2) ∧ st'.maxNumBits = M := by
  obtain ⟨hgood, hmb, hbits, hdl, _⟩ := kraft_weights_good k
  have hlen : st.weights.length ≤ 257 := by
    rw [hst, hdl]; have := k.len256; omega
  rw [← hst] at hgood hmb hbits
  obtain ⟨ri, dec, hbuild, _⟩ := buildTable_good st hlen hgood
  exact ⟨_, hbuild, hbits, hmb⟩

/-- **Direct weight description round trip.**  For a complete encoder table with at most 16
transmitted weights: `write_table` does not panic, the decoder (whatever its previous state) reads
the description back, consumes exactly its bytes, and ends up with the encoder's code lengths
(`bits`), including the length of the last symbol whose weight is not transmitted. -/
theorem direct_roundtrip (fseEnc : List Nat → Except Fault (List Nat)) (t : EncTable) (M : Nat)
    (k : KraftTable t M) (hdirect : t.codes.length - 1 ≤ 16) (st : DecTable) (tail : List Nat) :
    ∃ desc, writeTable fseEnc t = .ok desc ∧
      ∃ st', buildDecoder st (desc ++ tail) = (st', .ok desc.length) ∧
        st'.bits = t.codes.map (·.2) ∧ st'.maxNumBits = M := by
  obtain ⟨_, _, _, hdl, hlt16⟩ := kraft_weights_good k
  have hwAll : weights t = .ok (encWeights t M) := weights_of_kraft k
  obtain ⟨bs, hb1, hb2, hb3⟩ := nibbles_directBytes (encWeights t M).dropLast hlt16
  have hnofse : Gen.hufUseFse (encWeights t M).dropLast.length Gen.hufDirectMax = false := by
    simp only [Gen.hufUseFse, Gen.hufDirectMax]; exact decide_eq_false (by omega)
  have hwrite : writeTable fseEnc t = .ok (((encWeights t M).dropLast.length + Gen.hufDirectHeaderAddEnc) :: bs) := by
    unfold writeTable
    rw [hwAll]
    simp only [hnofse, hb1, Bool.false_eq_true, if_false]
  refine ⟨_, hwrite, ?_⟩
  have hn1 : 1 ≤ (encWeights t M).dropLast.length := by rw [hdl]; have := k.two; omega
  have hread := readWeights_direct { st with decode := #[] } (encWeights t M).dropLast bs tail hn1 (by omega) hb2 (hb3 tail)
  obtain ⟨st', hbuild, hbits, hmb⟩ := build_after_read k
    { decode := #[], weights := (encWeights t M).dropLast, maxNumBits := st.maxNumBits, bits := st.bits } rfl
  refine ⟨st', ?_, hbits, hmb⟩
  unfold buildDecoder
  simp only [List.cons_append]
  rw [hread]
  simp only
  rw [hbuild]
  simp [Nat.add_comm]

/-- The contract of the FSE coder of the weights, at the interface the Huffman code uses: whatever
`fseEnc` (= `build_table_from_data(ws, 6, true)`, `write_table`, `encode_interleaved(ws)`) returns
for `ws` is read back by the FSE branch of `read_weights` — table description, two interleaved
states, termination rule — as exactly `ws`, consuming the size byte and the payload.
C12 discharges it: `write_read_table` (the description is parsed into the encoder's distribution),
`enc_table_eq_dec_table` and `encode_decode_interleaved` (the two-state loop returns the symbols). -/
def FseWeightsContract (fseEnc : List Nat → Except Fault (List Nat)) : Prop :=
  ∀ (ws bytes : List Nat), fseEnc ws = .ok bytes → bytes.length < 128 →
    ∀ (st : DecTable) (tail : List Nat), (∀ b ∈ tail, b < 256) →
      readWeights st (bytes.length :: (bytes ++ tail)) = ({ st with weights := ws }, .ok (1 + bytes.length))

/-- **FSE-compressed weight description round trip** (more than 16 transmitted weights), under the
FSE contract: if the FSE encoder returns `bytes`, then `write_table` panics exactly when
`bytes.length ≥ 128` (the `assert!`), and otherwise the decoder ends up with the encoder's code
lengths, the dropped last weight re-inferred, the description exactly consumed. -/
theorem fse_roundtrip (fseEnc : List Nat → Except Fault (List Nat)) (hfse : FseWeightsContract fseEnc)
    (t : EncTable) (M : Nat) (k : KraftTable t M) (hfseform : t.codes.length - 1 > 16)
    (bytes : List Nat) (henc : fseEnc (encWeights t M).dropLast = .ok bytes) (hsmall : bytes.length < 128)
    (st : DecTable) (tail : List Nat) (htail : ∀ b ∈ tail, b < 256) :
    writeTable fseEnc t = .ok (bytes.length :: bytes) ∧
      ∃ st', buildDecoder st ((bytes.length :: bytes) ++ tail) = (st', .ok (bytes.length :: bytes).length) ∧
        st'.bits = t.codes.map (·.2) ∧ st'.maxNumBits = M := by
  obtain ⟨_, _, _, hdl, _⟩ := kraft_weights_good k
  have hwAll : weights t = .ok (encWeights t M) := weights_of_kraft k
  have huse : Gen.hufUseFse (encWeights t M).dropLast.length Gen.hufDirectMax = true := by
    simp only [Gen.hufUseFse, Gen.hufDirectMax]; exact decide_eq_true (by omega)
  have hok : Gen.hufFseLenOk bytes.length Gen.hufFseLenBound = true := by
    simp only [Gen.hufFseLenOk, Gen.hufFseLenBound]; exact decide_eq_true hsmall
  have hwrite : writeTable fseEnc t = .ok (bytes.length :: bytes) := by
    unfold writeTable
    rw [hwAll]
    simp only [huse, henc, hok, if_true, Bool.not_true, Bool.false_eq_true, if_false]
  refine ⟨hwrite, ?_⟩
  have hread := hfse _ _ henc hsmall { st with decode := #[] } tail htail
  obtain ⟨st', hbuild, hbits, hmb⟩ := build_after_read k
    { decode := #[], weights := (encWeights t M).dropLast, maxNumBits := st.maxNumBits, bits := st.bits } rfl
  refine ⟨st', ?_, hbits, hmb⟩
  unfold buildDecoder
  simp only [List.cons_append]
  rw [hread]
  simp only
  rw [hbuild]
  simp [Nat.add_comm]

/-- the `assert!(encoded_len < 128)` of `write_table` fires exactly when the FSE encoder returns
128 bytes or more -/
theorem writeTable_assert_iff (fseEnc : List Nat → Except Fault (List Nat)) (t : EncTable) (M : Nat)
    (k : KraftTable t M) (hfseform : t.codes.length - 1 > 16)
    (bytes : List Nat) (henc : fseEnc (encWeights t M).dropLast = .ok bytes) :
    writeTable fseEnc t = .error (.assert "huff0_encoder.rs:write_table:encoded_len<128") ↔ 128 ≤ bytes.length := by
  obtain ⟨_, _, _, hdl, _⟩ := kraft_weights_good k
  have hwAll : weights t = .ok (encWeights t M) := weights_of_kraft k
  have huse : Gen.hufUseFse (encWeights t M).dropLast.length Gen.hufDirectMax = true := by
    simp only [Gen.hufUseFse, Gen.hufDirectMax]; exact decide_eq_true (by omega)
  unfold writeTable
  rw [hwAll]
  simp only [huse, henc, if_true]
  by_cases h : bytes.length < 128
  · have hok : Gen.hufFseLenOk bytes.length Gen.hufFseLenBound = true := by
      simp only [Gen.hufFseLenOk, Gen.hufFseLenBound]; exact decide_eq_true h
    simp only [hok, Bool.not_true, Bool.false_eq_true, if_false]
    constructor
    · intro h'; cases h'
    · intro h'; omega
  · have hok : Gen.hufFseLenOk bytes.length Gen.hufFseLenBound = false := by
      simp only [Gen.hufFseLenOk, Gen.hufFseLenBound]; exact decide_eq_false h
    simp only [hok, Bool.not_false, if_true]
    constructor
    · intro _; omega
    · intro _; trivial

end Zstd.Proofs.Huf
