import Zstd.Model.FrameDecoder
import Zstd.Proofs.FrameDecoderContract
/-
Helper lemmas for C09: the decode buffer's match copy (`DBuf.repeat`, mirroring
`DecodeBuffer::repeat` / `repeat_in_chunks` / `repeat_from_dict`) against the RFC semantics
`Spec.matchCopy` (byte-by-byte copy from the virtual history `dict ++ output`).

Only core Lean; no definition of Model or Spec is changed.
-/
namespace Zstd.Proofs.DictCopy
open Zstd Zstd.Model

/-! ### `Spec.matchCopy`: splitting, length, the two one-region cases -/

/-- a copy of `a + b` bytes is a copy of `a` bytes followed by a copy of `b` bytes at the same offset -/
theorem matchCopy_add (dict : Array Nat) : ∀ (a b offset : Nat) (out : Array Nat),
    Spec.matchCopy dict (a + b) offset out =
      (Spec.matchCopy dict a offset out).bind (Spec.matchCopy dict b offset) := by
  intro a
  induction a with
  | zero => intro b offset out; simp [Spec.matchCopy]
  | succ a ih =>
    intro b offset out
    have e : a + 1 + b = (a + b) + 1 := by omega
    rw [e]
    unfold Spec.matchCopy
    split
    · split
      · exact ih b offset _
      · rfl
    · simp only []
      split
      · split
        · exact ih b offset _
        · rfl
      · rfl

/-- a successful copy appends exactly `n` bytes -/
theorem matchCopy_size (dict : Array Nat) : ∀ (n offset : Nat) (out out' : Array Nat),
    Spec.matchCopy dict n offset out = some out' → out'.size = out.size + n := by
  intro n
  induction n with
  | zero => intro offset out out' h; simp [Spec.matchCopy] at h; subst h; rfl
  | succ n ih =>
    intro offset out out' h
    unfold Spec.matchCopy at h
    split at h
    · split at h
      · have := ih _ _ _ h; simp only [Array.size_push] at this; omega
      · cases h
    · simp only [] at h
      split at h
      · split at h
        · have := ih _ _ _ h; simp only [Array.size_push] at this; omega
        · cases h
      · cases h

/-- a successful copy only appends: the old output is a prefix of the new one -/
theorem matchCopy_prefix (dict : Array Nat) : ∀ (n offset : Nat) (out out' : Array Nat),
    Spec.matchCopy dict n offset out = some out' → out'.extract 0 out.size = out := by
  intro n
  induction n with
  | zero => intro offset out out' h; simp [Spec.matchCopy] at h; subst h; simp
  | succ n ih =>
    intro offset out out' h
    have key : ∀ b, Spec.matchCopy dict n offset (out.push b) = some out' →
        out'.extract 0 out.size = out := by
      intro b hb
      have h1 := ih _ _ _ hb
      have h2 : (out'.extract 0 (out.push b).size).extract 0 out.size = (out.push b).extract 0 out.size := by
        rw [h1]
      simp only [Array.size_push, Array.extract_extract, Nat.zero_add] at h2
      rw [Nat.min_eq_left (Nat.le_succ _)] at h2
      rw [h2]; simp
    unfold Spec.matchCopy at h
    split at h
    · split at h
      · exact key _ h
      · cases h
    · simp only [] at h
      split at h
      · split at h
        · exact key _ h
        · cases h
      · cases h

/-- a copy of at least one byte is defined only if the offset stays inside `dict ++ out` -/
theorem matchCopy_some_reach (dict : Array Nat) (n offset : Nat) (out out' : Array Nat)
    (hn : 0 < n) (h : Spec.matchCopy dict n offset out = some out') :
    offset ≤ out.size + dict.size := by
  obtain ⟨m, rfl⟩ : ∃ m, n = m + 1 := ⟨n - 1, by omega⟩
  unfold Spec.matchCopy at h
  split at h
  · omega
  · simp only [] at h
    split at h
    · omega
    · cases h

/-- … and, for at least one byte, only if the offset is not zero -/
theorem matchCopy_some_pos (dict : Array Nat) (n offset : Nat) (out out' : Array Nat)
    (hn : 0 < n) (h : Spec.matchCopy dict n offset out = some out') : 0 < offset := by
  obtain ⟨m, rfl⟩ : ∃ m, n = m + 1 := ⟨n - 1, by omega⟩
  unfold Spec.matchCopy at h
  split at h
  · rename_i hle
    split at h
    · rename_i b hb
      have := (Array.getElem?_eq_some_iff.mp hb).1
      omega
    · cases h
  · omega

/-- region 1: the match lies in the produced output (including the overlapping case
`offset < n`): the RFC copy is the model's `copyWithin` -/
theorem matchCopy_within (dict : Array Nat) : ∀ (n offset : Nat) (out : Array Nat),
    0 < offset → offset ≤ out.size →
    Spec.matchCopy dict n offset out = some (copyWithin n offset out) := by
  intro n
  induction n with
  | zero => intro offset out _ _; simp [Spec.matchCopy, copyWithin]
  | succ n ih =>
    intro offset out hpos hle
    unfold Spec.matchCopy copyWithin
    simp only [hle, ↓reduceIte]
    have hlt : out.size - offset < out.size := by omega
    rw [Array.getElem?_eq_getElem hlt]
    simp only []
    have : out.getD (out.size - offset) 0 = out[out.size - offset] := by
      simp [Array.getD, hlt]
    rw [this]
    exact ih offset _ hpos (by simp; omega)

/-- one byte taken from the dictionary -/
theorem matchCopy_one_dict (dict : Array Nat) (offset : Nat) (out : Array Nat)
    (hlt : out.size < offset) (hle : offset - out.size ≤ dict.size) :
    Spec.matchCopy dict 1 offset out =
      some (out.push (dict[dict.size - (offset - out.size)]'(by omega))) := by
  unfold Spec.matchCopy
  have h1 : ¬ offset ≤ out.size := by omega
  simp only [h1, ↓reduceIte, hle]
  have hidx : dict.size - (offset - out.size) < dict.size := by omega
  rw [Array.getElem?_eq_getElem hidx]
  simp [Spec.matchCopy]

/-- region 2: the first `k` bytes of a match that starts `offset - out.size` bytes before the end
of the dictionary (`k` not beyond the end of the dictionary): a slice of the dictionary -/
theorem matchCopy_fromDict (dict : Array Nat) : ∀ (k offset : Nat) (out : Array Nat),
    out.size < offset → offset - out.size ≤ dict.size → k ≤ offset - out.size →
    Spec.matchCopy dict k offset out =
      some (out ++ dict.extract (dict.size - (offset - out.size)) (dict.size - (offset - out.size) + k)) := by
  intro k
  induction k with
  | zero => intro offset out _ _ _; simp [Spec.matchCopy]
  | succ k ih =>
    intro offset out hlt hle hk
    rw [matchCopy_add, ih offset out hlt hle (by omega)]
    simp only [Option.bind_some]
    generalize hs : dict.size - (offset - out.size) = s
    have hsz : (out ++ dict.extract s (s + k)).size = out.size + k := by
      simp only [Array.size_append, Array.size_extract]; omega
    rw [matchCopy_one_dict dict offset _ (by omega) (by omega)]
    congr 1
    have hidx : dict.size - (offset - (out ++ dict.extract s (s + k)).size) = s + k := by omega
    simp only [hidx]
    rw [← Nat.add_assoc, Array.extract_succ_right (by omega) (by omega), Array.append_push]

/-! ### `DBuf.repeat` -/

/-- the size of the dictionary tail the model prepends in the straddling case -/
theorem dict_tail_size (dict : Array Nat) (k : Nat) (hk : k ≤ dict.size) :
    (dict.extract (dict.size - k) dict.size).size = k := by
  simp only [Array.size_extract]; omega

/-- region 3 (straddling): `k = offset - out.size` bytes come from the end of the dictionary, the
rest is an overlapping copy inside the output at the SAME offset — which at that point equals the
whole length of the output (the Rust code's `self.repeat(self.buffer.len(), …)`) -/
theorem matchCopy_straddle (dict : Array Nat) (n offset : Nat) (out : Array Nat)
    (hlt : out.size < offset) (hle : offset - out.size ≤ dict.size) (hn : offset - out.size < n) :
    Spec.matchCopy dict n offset out =
      some (copyWithin (n - (offset - out.size)) offset
              (out ++ dict.extract (dict.size - (offset - out.size)) dict.size)) ∧
    (out ++ dict.extract (dict.size - (offset - out.size)) dict.size).size = offset := by
  have hsz : (out ++ dict.extract (dict.size - (offset - out.size)) dict.size).size = offset := by
    rw [Array.size_append, dict_tail_size dict _ hle]; omega
  refine ⟨?_, hsz⟩
  have e : n = (offset - out.size) + (n - (offset - out.size)) := by omega
  conv => lhs; rw [e]
  rw [matchCopy_add, matchCopy_fromDict dict _ offset out hlt hle (Nat.le_refl _)]
  simp only [Option.bind_some]
  have e2 : dict.size - (offset - out.size) + (offset - out.size) = dict.size := by omega
  rw [e2]
  exact matchCopy_within dict _ offset _ (by omega) (by omega)

/-- `DBuf.repeat` without the dead `off' = 0` branch and with the continuation offset written as
the original offset: in the straddling case the buffer length after the dictionary part IS the
offset.  (So the branch the model keeps for "offset 0 on an empty buffer" is unreachable.) -/
theorem repeat_eq (b : DBuf) (offset ml : Nat) :
    b.repeat offset ml =
      if offset > b.content.size then
        if b.totalOut ≤ b.window then
          if offset - b.content.size > b.dict.size then .error .execNotEnoughDict
          else if offset - b.content.size < ml then
            .ok { b with
              content := copyWithin (ml - (offset - b.content.size)) offset
                (b.content ++ b.dict.extract (b.dict.size - (offset - b.content.size)) b.dict.size),
              totalOut := b.totalOut + ml }
          else
            .ok { b with content := b.content ++ b.dict.extract (b.dict.size - (offset - b.content.size)) (b.dict.size - (offset - b.content.size) + ml) }
        else .error .execOffsetTooBig
      else .ok { b with content := copyWithin ml offset b.content, totalOut := b.totalOut + ml } := by
  unfold DBuf.repeat
  split
  · rename_i h1
    split
    · simp only []
      split
      · rfl
      · rename_i h3
        split
        · rename_i h4
          have hsz : (b.content ++ b.dict.extract (b.dict.size - (offset - b.content.size)) b.dict.size).size
              = offset := by
            rw [Array.size_append, dict_tail_size b.dict _ (by omega)]; omega
          have hne : ¬ offset = 0 := by omega
          simp only [hsz, hne, ↓reduceIte]
          have : b.totalOut + (offset - b.content.size) + (ml - (offset - b.content.size)) = b.totalOut + ml := by
            omega
          rw [this]
        · rfl
    · rfl
  · rfl

/-- the model's copy is the RFC copy whenever the model accepts -/
theorem repeat_ok_matchCopy (b b' : DBuf) (offset ml : Nat)
    (h : b.repeat offset ml = .ok b') (hpos : 0 < offset) :
    Spec.matchCopy b.dict ml offset b.content = some b'.content := by
  rw [repeat_eq] at h
  split at h
  · rename_i h1
    split at h
    · split at h
      · cases h
      · rename_i h3
        split at h
        · rename_i h4
          injection h with h; subst h
          exact (matchCopy_straddle b.dict ml offset b.content h1 (by omega) h4).1
        · rename_i h4
          injection h with h; subst h
          exact matchCopy_fromDict b.dict ml offset b.content h1 (by omega) (by omega)
    · cases h
  · rename_i h1
    injection h with h; subst h
    exact matchCopy_within b.dict ml offset b.content hpos (by omega)

/-- what `repeat` leaves untouched, and the two counters -/
theorem repeat_frame (b b' : DBuf) (offset ml : Nat) (h : b.repeat offset ml = .ok b') :
    b'.dict = b.dict ∧ b'.window = b.window ∧ b'.hashed = b.hashed ∧
    (b'.totalOut = b.totalOut + ml ∨ (b'.totalOut = b.totalOut ∧ b.content.size + ml ≤ offset)) := by
  rw [repeat_eq] at h
  split at h
  · split at h
    · split at h
      · cases h
      · split at h
        · injection h with h; subst h; exact ⟨rfl, rfl, rfl, .inl rfl⟩
        · injection h with h; subst h; exact ⟨rfl, rfl, rfl, .inr ⟨rfl, by omega⟩⟩
    · cases h
  · injection h with h; subst h; exact ⟨rfl, rfl, rfl, .inl rfl⟩

theorem copyWithin_size : ∀ (n offset : Nat) (c : Array Nat), (copyWithin n offset c).size = c.size + n := by
  intro n
  induction n with
  | zero => intro offset c; rfl
  | succ n ih => intro offset c; unfold copyWithin; rw [ih]; simp only [Array.size_push]; omega

/-- `repeat` appends exactly `ml` bytes (no `0 < offset` needed) -/
theorem repeat_size (b b' : DBuf) (offset ml : Nat) (h : b.repeat offset ml = .ok b') :
    b'.content.size = b.content.size + ml := by
  rw [repeat_eq] at h
  split at h
  · rename_i h1
    split at h
    · split at h
      · cases h
      · rename_i h3
        split at h
        · rename_i h4
          injection h with h; subst h
          simp only [copyWithin_size, Array.size_append]
          rw [dict_tail_size b.dict _ (by omega)]; omega
        · injection h with h; subst h
          simp only [Array.size_append, Array.size_extract]; omega
    · cases h
  · injection h with h; subst h
    simp only [copyWithin_size]

/-- the model accepts exactly when: the offset stays inside `dict ++ content`, and the dictionary
is touched only while the counter is within the window -/
theorem repeat_isOk_iff (b : DBuf) (offset ml : Nat) :
    (∃ b', b.repeat offset ml = .ok b') ↔
      (offset > b.content.size → b.totalOut ≤ b.window ∧ offset ≤ b.content.size + b.dict.size) := by
  rw [repeat_eq]
  constructor
  · rintro ⟨b', h⟩ h1
    simp only [h1, ↓reduceIte] at h
    split at h
    · rename_i h2
      split at h
      · cases h
      · exact ⟨h2, by omega⟩
    · cases h
  · intro hc
    split
    · rename_i h1
      obtain ⟨h2, h3⟩ := hc h1
      have n3 : ¬ offset - b.content.size > b.dict.size := by omega
      simp only [h2, ↓reduceIte, n3]
      split <;> exact ⟨_, rfl⟩
    · exact ⟨_, rfl⟩

/-! ### the output counter never over-counts

The real number of bytes a frame has produced so far is (bytes already drained) + (bytes still
buffered) = `hashed.size + content.size` (every drain goes through `DBuf.take`, which feeds the
hasher).  `totalOut` is the Rust `total_output_counter`. -/

/-- the invariant: the counter is a lower bound of the bytes really produced -/
def CounterOk (b : DBuf) : Prop := b.totalOut ≤ b.hashed.size + b.content.size

theorem counterOk_reset (b : DBuf) (w : Nat) : CounterOk (b.reset w) := by
  simp [CounterOk, DBuf.reset]

theorem counterOk_push (b : DBuf) (data : Array Nat) (h : CounterOk b) : CounterOk (b.push data) := by
  simp only [CounterOk, DBuf.push, Array.size_append] at *; omega

theorem counterOk_repeat (b b' : DBuf) (offset ml : Nat) (hr : b.repeat offset ml = .ok b')
    (h : CounterOk b) : CounterOk b' := by
  have hs := repeat_size b b' offset ml hr
  obtain ⟨_, _, hh, ht⟩ := repeat_frame b b' offset ml hr
  simp only [CounterOk] at *
  rw [hh]; omega

theorem counterOk_take (b : DBuf) (n : Nat) (h : CounterOk b) : CounterOk (b.take n).2 := by
  simp only [CounterOk, DBuf.take, Array.size_append, Array.size_extract] at *; omega

/-- appending without counting (what Raw and RLE blocks do: `extend_from_reader`,
`extend_and_fill`) keeps the invariant -/
theorem counterOk_append (b : DBuf) (data : Array Nat) (h : CounterOk b) :
    CounterOk { b with content := b.content ++ data } := by
  simp only [CounterOk, Array.size_append] at *; omega

/-- a whole block's sequence execution keeps the invariant (also on the error paths, where the
buffer is left as the Rust code leaves it) -/
theorem counterOk_executeSequences : ∀ (seqs : List Spec.Seq) (lits : List Nat) (h : Nat × Nat × Nat)
    (seqSum : Nat) (b : DBuf), CounterOk b → CounterOk (executeSequences seqs lits h seqSum b).1.1 := by
  intro seqs
  induction seqs with
  | nil =>
    intro lits h seqSum b hb
    unfold executeSequences
    split
    · exact hb
    · split
      · exact hb
      · exact counterOk_push _ _ hb
  | cons s rest ih =>
    intro lits h seqSum b hb
    unfold executeSequences
    split
    · exact hb
    · split
      · exact hb
      · simp only []
        have hb1 : CounterOk (if s.ll > 0 then b.push (lits.take s.ll).toArray else b) := by
          split
          · exact counterOk_push _ _ hb
          · exact hb
        split
        · exact hb1
        · split
          · exact hb1
          · split
            · exact hb1
            · rename_i b2 hr
              apply ih
              split at hr
              · exact counterOk_repeat _ _ _ _ hr hb1
              · injection hr with hr; subst hr; exact hb1

/-! ### completeness of `repeat` w.r.t. the RFC copy -/

theorem repeat_eq_matchCopy (b : DBuf) (offset ml : Nat) (out' : Array Nat)
    (hpos : 0 < offset) (hml : 0 < ml ∨ offset ≤ b.content.size + b.dict.size)
    (h : Spec.matchCopy b.dict ml offset b.content = some out')
    (hw : offset > b.content.size → b.totalOut ≤ b.window) :
    ∃ b', b.repeat offset ml = .ok b' ∧ b'.content = out' ∧ b'.dict = b.dict ∧
      b'.window = b.window ∧ b'.hashed = b.hashed := by
  have hreach : offset ≤ b.content.size + b.dict.size := by
    rcases hml with hml | hml
    · exact matchCopy_some_reach _ _ _ _ _ hml h
    · exact hml
  obtain ⟨b', hb'⟩ := (repeat_isOk_iff b offset ml).mpr (fun h1 => ⟨hw h1, hreach⟩)
  have hc := repeat_ok_matchCopy b b' offset ml hb' hpos
  rw [h] at hc
  obtain ⟨hd, hwin, hh, _⟩ := repeat_frame b b' offset ml hb'
  exact ⟨b', hb', (Option.some.inj hc).symm, hd, hwin, hh⟩

theorem seqCopy_eq_matchCopy (b : DBuf) (offset ml : Nat) (out' : Array Nat)
    (hpos : 0 < offset)
    (h : Spec.matchCopy b.dict ml offset b.content = some out')
    (hw : offset > b.content.size → b.totalOut ≤ b.window) :
    ∃ b', (if ml > 0 then b.repeat offset ml else .ok b) = .ok b' ∧ b'.content = out' ∧
      b'.dict = b.dict ∧ b'.window = b.window ∧ b'.hashed = b.hashed := by
  by_cases hml : ml > 0
  · simp only [hml, ↓reduceIte]
    exact repeat_eq_matchCopy b offset ml out' hpos (.inl hml) h hw
  · have : ml = 0 := by omega
    subst this
    simp only [Spec.matchCopy, Option.some.injEq] at h
    exact ⟨b, by simp, h, rfl, rfl, rfl⟩

theorem counterOk_seqCopy (b b' : DBuf) (offset ml : Nat)
    (hr : (if ml > 0 then b.repeat offset ml else .ok b) = .ok b') (h : CounterOk b) : CounterOk b' := by
  split at hr
  · exact counterOk_repeat b b' offset ml hr h
  · injection hr with hr; subst hr; exact h

/-! ### a whole block: `executeSequences` refines `Spec.execSequences`, dictionary included

The Spec works on everything the frame has produced so far; the model's buffer holds only what has
not been drained yet.  The full output is `hashed ++ content` (drains move bytes from the front of
`content` to the hasher). -/

/-- enough history is retained: the buffer holds at least the last `window` bytes of the output —
or all of it.  (`drain_to_window_size`, the only drain before the frame is finished, keeps this.) -/
def Retained (b : DBuf) : Prop := min b.window (b.hashed.size + b.content.size) ≤ b.content.size

theorem retained_grow (b b' : DBuf) (hh : b'.hashed = b.hashed) (hw : b'.window = b.window)
    (hs : b.content.size ≤ b'.content.size) (h : Retained b) : Retained b' := by
  simp only [Retained] at *
  rw [hh, hw]
  omega

theorem retained_reset (b : DBuf) (w : Nat) : Retained (b.reset w) := by
  simp [Retained, DBuf.reset]

/-- draining down to the window (what `can_drain_to_window_size` allows) keeps the invariant -/
theorem retained_take (b : DBuf) (n : Nat) (hn : n + b.window ≤ b.content.size) :
    Retained (b.take n).2 := by
  simp only [Retained, DBuf.take, Array.size_append, Array.size_extract] at *
  omega

theorem copyWithin_prefix (pre : Array Nat) : ∀ (n offset : Nat) (c : Array Nat),
    0 < offset → offset ≤ c.size →
    copyWithin n offset (pre ++ c) = pre ++ copyWithin n offset c := by
  intro n
  induction n with
  | zero => intro offset c _ _; rfl
  | succ n ih =>
    intro offset c hpos hle
    unfold copyWithin
    have h1 : (pre ++ c).size - offset < (pre ++ c).size := by
      simp only [Array.size_append]; omega
    have h2 : c.size - offset < c.size := by omega
    have e : (pre ++ c).getD ((pre ++ c).size - offset) 0 = c.getD (c.size - offset) 0 := by
      simp only [Array.getD_eq_getD_getElem?]
      rw [Array.getElem?_append_right (by simp only [Array.size_append]; omega)]
      congr 2
      simp only [Array.size_append]; omega
    rw [e, ← Array.append_push]
    exact ih offset _ hpos (by simp only [Array.size_push]; omega)

/-- a match inside the retained part does not see what was drained before it -/
theorem matchCopy_within_prefix (dict pre : Array Nat) (n offset : Nat) (c : Array Nat)
    (hpos : 0 < offset) (hle : offset ≤ c.size) :
    Spec.matchCopy dict n offset (pre ++ c) = some (pre ++ copyWithin n offset c) := by
  rw [matchCopy_within dict n offset (pre ++ c) hpos (by simp only [Array.size_append]; omega),
    copyWithin_prefix pre n offset c hpos hle]

/-- the match step of one sequence, against the RFC's two admissibility tests -/
theorem seqCopy_refines (b : DBuf) (offset ml : Nat) (out2 : Array Nat)
    (hpos : 0 < offset) (hinv : CounterOk b) (hret : Retained b)
    (hspec : Spec.matchCopy b.dict ml offset (b.hashed ++ b.content) = some out2)
    (hwin : if offset > b.hashed.size + b.content.size
              then b.hashed.size + b.content.size ≤ b.window else offset ≤ b.window) :
    ∃ b2, (if ml > 0 then b.repeat offset ml else .ok b) = .ok b2 ∧ b2.hashed = b.hashed ∧
      b.hashed ++ b2.content = out2 ∧ b2.dict = b.dict ∧ b2.window = b.window ∧
      CounterOk b2 ∧ Retained b2 := by
  have hsz := matchCopy_size _ _ _ _ _ hspec
  split at hwin
  · -- reaching into the dictionary: nothing can have been drained yet
    rename_i hgt
    have hh0 : b.hashed.size = 0 := by
      simp only [Retained] at hret; omega
    have hh : b.hashed = #[] := Array.eq_empty_of_size_eq_zero hh0
    rw [hh, Array.empty_append] at hspec
    obtain ⟨b2, hb2, hc, hd, hw, hhs⟩ := seqCopy_eq_matchCopy b offset ml out2 hpos hspec
      (fun _ => by simp only [CounterOk] at hinv; omega)
    refine ⟨b2, hb2, hhs, by rw [hh, Array.empty_append]; exact hc, hd, hw,
      counterOk_seqCopy b b2 offset ml hb2 hinv, ?_⟩
    refine retained_grow b b2 hhs hw ?_ hret
    rw [hc, hsz, hh]; simp
  · rename_i hle
    have hle2 : offset ≤ b.content.size := by
      simp only [Retained] at hret; omega
    rw [matchCopy_within_prefix b.dict b.hashed ml offset b.content hpos hle2] at hspec
    have hspec := (Option.some.inj hspec).symm
    by_cases hml : ml > 0
    · simp only [hml, ↓reduceIte]
      have hr : b.repeat offset ml =
          .ok { b with content := copyWithin ml offset b.content, totalOut := b.totalOut + ml } := by
        rw [repeat_eq]
        have : ¬ offset > b.content.size := by omega
        simp only [this, ↓reduceIte]
      refine ⟨_, hr, rfl, hspec.symm, rfl, rfl, counterOk_repeat b _ offset ml hr hinv, ?_⟩
      refine retained_grow b _ rfl rfl ?_ hret
      simp only [copyWithin_size]; omega
    · have : ml = 0 := by omega
      subst this
      simp only [Nat.lt_irrefl, ↓reduceIte]
      exact ⟨b, rfl, rfl, by rw [hspec]; rfl, rfl, rfl, hinv, hret⟩

theorem execSequences_size_le (window : Nat) (dict : Array Nat) :
    ∀ (seqs : List Spec.Seq) (lits : List Nat) (hist : Spec.OffHist) (out out' : Array Nat)
      (h' : Spec.OffHist),
      Spec.execSequences window dict seqs lits hist out = some (out', h') → out.size ≤ out'.size := by
  intro seqs
  induction seqs with
  | nil =>
    intro lits hist out out' h' h
    simp only [Spec.execSequences, Option.some.injEq, Prod.mk.injEq] at h
    rw [← h.1]; simp
  | cons s rest ih =>
    intro lits hist out out' h' h
    unfold Spec.execSequences at h
    split at h
    · cases h
    · simp only [] at h
      split at h
      · cases h
      · split at h
        · split at h
          · cases h
          · split at h
            · cases h
            · rename_i out2 hm
              have h1 := matchCopy_size _ _ _ _ _ hm
              have h2 := ih _ _ _ _ _ h
              simp only [Array.size_append] at h1; omega
        · split at h
          · cases h
          · split at h
            · cases h
            · rename_i out2 hm
              have h1 := matchCopy_size _ _ _ _ _ hm
              have h2 := ih _ _ _ _ _ h
              simp only [Array.size_append] at h1; omega

/-- the offset-history step of the code is the RFC's rule (same statement as
`Props.C01.offsetHistory_refines`) -/
theorem offsetHistory_refines (ov ll : Nat) (h : Spec.OffHist) (hov : ov ≥ 1) :
    doOffsetHistory ov ll (h.r1, h.r2, h.r3) =
      .ok ((Spec.repeatOffsets ov (ll = 0) h).1,
           ((Spec.repeatOffsets ov (ll = 0) h).2.r1, (Spec.repeatOffsets ov (ll = 0) h).2.r2,
            (Spec.repeatOffsets ov (ll = 0) h).2.r3)) := by
  unfold doOffsetHistory Spec.repeatOffsets
  have h0 : ov ≠ 0 := by omega
  simp only [h0, ↓reduceIte]
  by_cases hll : ll = 0
  · subst hll
    by_cases h3 : ov > 3
    · have : ¬ ov = 1 := by omega
      have : ¬ ov = 2 := by omega
      have : ¬ ov = 3 := by omega
      simp [*]
    · have : ov = 1 ∨ ov = 2 ∨ ov = 3 := by omega
      rcases this with rfl | rfl | rfl <;> simp
  · have hpos : ll > 0 := by omega
    by_cases h3 : ov > 3
    · have : ¬ ov = 1 := by omega
      have : ¬ ov = 2 := by omega
      have : ¬ ov = 3 := by omega
      simp [*]
    · have : ov = 1 ∨ ov = 2 ∨ ov = 3 := by omega
      rcases this with rfl | rfl | rfl <;> simp [hpos, hll]

/-- the literal push of one sequence -/
theorem litPush_refines (b : DBuf) (lits : List Nat) (ll : Nat) (hinv : CounterOk b) (hret : Retained b) :
    let b1 := if ll > 0 then b.push (lits.take ll).toArray else b
    b1.content = b.content ++ (lits.take ll).toArray ∧ b1.hashed = b.hashed ∧ b1.dict = b.dict ∧
      b1.window = b.window ∧ CounterOk b1 ∧ Retained b1 := by
  simp only []
  split
  · refine ⟨rfl, rfl, rfl, rfl, counterOk_push _ _ hinv, retained_grow b _ rfl rfl ?_ hret⟩
    simp [DBuf.push]
  · have : ll = 0 := by omega
    subst this
    exact ⟨by simp, rfl, rfl, rfl, hinv, hret⟩

/-- Sequence execution of a whole block: whenever the RFC executor accepts (with the dictionary,
its window tests and its offset rules), the model — in a state that retains enough history and
whose counter does not over-count — accepts, appends the same bytes and leaves the same offset
history; the invariants are kept.  `seqSum + growth ≤ maxBlockSize` is the code's own block-size
guard (the RFC executor's caller checks `growth ≤ min window blockMaxSize`). -/
theorem executeSequences_refines (window : Nat) (dict : Array Nat) :
    ∀ (seqs : List Spec.Seq) (lits : List Nat) (hist : Spec.OffHist) (out out' : Array Nat)
      (h' : Spec.OffHist) (seqSum : Nat) (b : DBuf),
      Spec.execSequences window dict seqs lits hist out = some (out', h') →
      (∀ s ∈ seqs, s.ov ≥ 1) →
      b.dict = dict → b.window = window → b.hashed ++ b.content = out →
      CounterOk b → Retained b →
      seqSum + (out'.size - out.size) ≤ Gen.maxBlockSize →
      ∃ b', executeSequences seqs lits (hist.r1, hist.r2, hist.r3) seqSum b
              = ((b', (h'.r1, h'.r2, h'.r3)), .ok ()) ∧
        b'.hashed = b.hashed ∧ b.hashed ++ b'.content = out' ∧ b'.dict = dict ∧ b'.window = window ∧
        CounterOk b' ∧ Retained b' := by
  intro seqs
  induction seqs with
  | nil =>
    intro lits hist out out' h' seqSum b hs _ hd hw hout hinv hret hsum
    simp only [Spec.execSequences, Option.some.injEq, Prod.mk.injEq] at hs
    obtain ⟨ho, hh⟩ := hs
    subst hh
    unfold executeSequences
    split
    · rename_i hemp
      have : lits = [] := by simpa using hemp
      subst this
      refine ⟨b, rfl, rfl, ?_, hd, hw, hinv, hret⟩
      rw [hout, ← ho]; simp
    · have hsz : out'.size - out.size = lits.length := by
        rw [← ho]; simp
      have : ¬ seqSum + lits.length > Gen.maxBlockSize := by omega
      simp only [this, ↓reduceIte]
      refine ⟨_, rfl, rfl, ?_, hd, hw, counterOk_push _ _ hinv, retained_grow b _ rfl rfl ?_ hret⟩
      · rw [← ho, ← hout]; simp [DBuf.push]
      · simp [DBuf.push]
  | cons s rest ih =>
    intro lits hist out out' h' seqSum b hs hov hd hw hout hinv hret hsum
    have hov1 : s.ov ≥ 1 := hov s (by simp)
    have hovr : ∀ t ∈ rest, t.ov ≥ 1 := fun t ht => hov t (by simp [ht])
    have hmono := execSequences_size_le window dict _ _ _ _ _ _ hs
    unfold Spec.execSequences at hs
    split at hs
    · cases hs
    · rename_i hll
      simp only [] at hs
      obtain ⟨hc1, hh1, hd1, hw1, hinv1, hret1⟩ := litPush_refines b lits s.ll hinv hret
      unfold executeSequences
      rw [offsetHistory_refines s.ov s.ll hist hov1]
      generalize hb1 : (if s.ll > 0 then b.push (lits.take s.ll).toArray else b) = b1 at *
      generalize hro : Spec.repeatOffsets s.ov (decide (s.ll = 0)) hist = ro at *
      obtain ⟨offset, hist1⟩ := ro
      simp only [] at hs ⊢
      have hout1 : b1.hashed ++ b1.content = out ++ (lits.take s.ll).toArray := by
        rw [hh1, hc1, ← Array.append_assoc, hout]
      have hsz1 : (out ++ (lits.take s.ll).toArray).size = b1.hashed.size + b1.content.size := by
        rw [← hout1]; simp
      -- the tail of both branches
      have fin : ∀ out2, Spec.matchCopy dict s.ml offset (out ++ (lits.take s.ll).toArray) = some out2 →
          Spec.execSequences window dict rest (lits.drop s.ll) hist1 out2 = some (out', h') →
          offset ≠ 0 →
          (if offset > b1.hashed.size + b1.content.size
              then b1.hashed.size + b1.content.size ≤ b1.window else offset ≤ b1.window) →
          ∃ b', (if seqSum + s.ll + s.ml > Gen.maxBlockSize then ((b, (hist.r1, hist.r2, hist.r3)), Out.err DErr.execBlockSizeExceeded)
              else if s.ll > lits.length then ((b, (hist.r1, hist.r2, hist.r3)), Out.err DErr.execNotEnoughLiterals)
              else if offset = 0 then ((b1, (hist1.r1, hist1.r2, hist1.r3)), Out.err DErr.execZeroOffset)
              else match (if s.ml > 0 then b1.repeat offset s.ml else .ok b1) with
                | .error e => ((b1, (hist1.r1, hist1.r2, hist1.r3)), Out.err e)
                | .ok b2 => executeSequences rest (lits.drop s.ll) (hist1.r1, hist1.r2, hist1.r3) (seqSum + s.ml + s.ll) b2)
              = ((b', (h'.r1, h'.r2, h'.r3)), .ok ()) ∧
            b'.hashed = b.hashed ∧ b.hashed ++ b'.content = out' ∧ b'.dict = dict ∧ b'.window = window ∧
            CounterOk b' ∧ Retained b' := by
        intro out2 hm hrest hne hwin
        have hm' := hm
        rw [← hout1, ← hd, ← hd1] at hm'
        obtain ⟨b2, hb2, hh2, hc2, hd2, hw2, hinv2, hret2⟩ :=
          seqCopy_refines b1 offset s.ml out2 (by omega) hinv1 hret1 hm' hwin
        have hsz2 := matchCopy_size _ _ _ _ _ hm
        have hmono2 := execSequences_size_le window dict _ _ _ _ _ _ hrest
        have hlen : (lits.take s.ll).length = s.ll := by simp; omega
        simp only [Array.size_append, List.size_toArray, hlen] at hsz2
        have n1 : ¬ seqSum + s.ll + s.ml > Gen.maxBlockSize := by omega
        simp only [n1, hll, hne, ↓reduceIte, hb2]
        obtain ⟨b', hb', hh', hc', hd', hw', hinv', hret'⟩ :=
          ih (lits.drop s.ll) hist1 out2 out' h' (seqSum + s.ml + s.ll) b2 hrest hovr
            (by rw [hd2, hd1, hd]) (by rw [hw2, hw1, hw]) (by rw [hh2, hc2]) hinv2 hret2 (by omega)
        refine ⟨b', hb', by rw [hh', hh2, hh1], ?_, hd', hw', hinv', hret'⟩
        rw [← hh1, ← hh2]; exact hc'
      split at hs
      · cases hs
      · rename_i hne
        split at hs
        · rename_i hgt
          split at hs
          · cases hs
          · rename_i hok
            split at hs
            · cases hs
            · rename_i out2 hm
              apply fin out2 hm hs hne
              have : offset > b1.hashed.size + b1.content.size := by omega
              simp only [this, ↓reduceIte]
              rw [hw1, hw]; omega
        · rename_i hngt
          split at hs
          · cases hs
          · rename_i hok
            split at hs
            · cases hs
            · rename_i out2 hm
              apply fin out2 hm hs hne
              have : ¬ offset > b1.hashed.size + b1.content.size := by omega
              simp only [this, ↓reduceIte]
              rw [hw1, hw]; omega

/-! ### one level closer to the Rust: `extend_from_within`, `repeat_in_chunks`, the re-entry

`DBuf.repeat` describes the in-buffer copy as the byte-by-byte `copyWithin`.  The Rust code copies
slices: `extend_from_within_unchecked(start, len)` when source and destination do not overlap, and
`repeat_in_chunks` (chunks of `offset` bytes) when they do; the straddling case re-enters `repeat`
with `offset = self.buffer.len()`.  `repeatRust` below follows those statements one by one on the
abstract content; `repeatRust_eq` proves it equal to `DBuf.repeat` for every offset ≥ 1.  (Auxiliary
definitions of this file only — nothing in Model changes.) -/

/-- `RingBuffer::extend_from_within_unchecked(start, len)` on the abstract content
(pre: `start + len ≤ c.size`) -/
def extendFromWithin (c : Array Nat) (start len : Nat) : Array Nat := c ++ c.extract start (start + len)

/-- the `while copied_counter_left > 0` loop of `repeat_in_chunks`; fuel = an upper bound of the
number of iterations (`left` suffices when `offset ≥ 1`; with `offset = 0` the Rust loop does not
terminate) -/
def repeatInChunks (offset : Nat) : Nat → Nat → Nat → Array Nat → Array Nat
  | 0, _, _, c => c
  | fuel + 1, left, start, c =>
    if left > 0 then
      let chunk := min offset left
      repeatInChunks offset fuel (left - chunk) (start + chunk) (extendFromWithin c start chunk)
    else c

/-- the `else` branch of `DecodeBuffer::repeat` (`offset ≤ self.buffer.len()`) -/
def repeatWithin (b : DBuf) (offset ml : Nat) : DBuf :=
  let bufLen := b.content.size
  let startIdx := bufLen - offset
  let endIdx := startIdx + ml
  { b with
    content := if endIdx > bufLen then repeatInChunks offset ml ml startIdx b.content
               else extendFromWithin b.content startIdx ml,
    totalOut := b.totalOut + ml }

/-- `DecodeBuffer::repeat` + `repeat_from_dict`, statement by statement -/
def repeatRust (b : DBuf) (offset ml : Nat) : Except DErr DBuf :=
  if offset > b.content.size then
    if b.totalOut ≤ b.window then
      let fromDict := offset - b.content.size
      if fromDict > b.dict.size then .error .execNotEnoughDict
      else if fromDict < ml then
        let b1 := { b with content := b.content ++ b.dict.extract (b.dict.size - fromDict) b.dict.size,
                            totalOut := b.totalOut + fromDict }
        -- `return self.repeat(self.buffer.len(), match_length - bytes_from_dict)`:
        -- `offset > self.buffer.len()` is false there, so it is the `else` branch
        .ok (repeatWithin b1 b1.content.size (ml - fromDict))
      else
        let low := b.dict.size - fromDict
        .ok { b with content := b.content ++ b.dict.extract low (low + ml) }
    else .error .execOffsetTooBig
  else .ok (repeatWithin b offset ml)

theorem copyWithin_add (offset : Nat) : ∀ (a k : Nat) (c : Array Nat),
    copyWithin (a + k) offset c = copyWithin k offset (copyWithin a offset c) := by
  intro a
  induction a with
  | zero => intro k c; simp [copyWithin]
  | succ a ih =>
    intro k c
    have e : a + 1 + k = (a + k) + 1 := by omega
    have e1 : ∀ (n : Nat) (c : Array Nat), copyWithin (n + 1) offset c =
        copyWithin n offset (c.push (c.getD (c.size - offset) 0)) := fun _ _ => rfl
    rw [e, e1, e1, ih]

/-- a non-overlapping copy (`k ≤ offset`) is one slice copy -/
theorem copyWithin_noOverlap (offset : Nat) : ∀ (k : Nat) (c : Array Nat),
    0 < offset → offset ≤ c.size → k ≤ offset →
    copyWithin k offset c = extendFromWithin c (c.size - offset) k := by
  intro k
  induction k with
  | zero => intro c _ _ _; simp [copyWithin, extendFromWithin]
  | succ k ih =>
    intro c hpos hle hk
    rw [copyWithin_add, ih c hpos hle (by omega)]
    unfold extendFromWithin
    generalize hs : c.size - offset = s
    have hsz : (c ++ c.extract s (s + k)).size = c.size + k := by
      simp only [Array.size_append, Array.size_extract]; omega
    simp only [copyWithin]
    rw [← Nat.add_assoc, Array.extract_succ_right (by omega) (by omega), Array.append_push]
    congr 1
    simp only [Array.getD_eq_getD_getElem?]
    have hidx : (c ++ c.extract s (s + k)).size - offset = s + k := by omega
    rw [hidx, Array.getElem?_append_left (by omega), Array.getElem?_eq_getElem (by omega)]
    rfl

/-- the chunk loop is the byte-by-byte copy -/
theorem repeatInChunks_eq (offset : Nat) : ∀ (fuel left : Nat) (c : Array Nat),
    0 < offset → offset ≤ c.size → left ≤ fuel →
    repeatInChunks offset fuel left (c.size - offset) c = copyWithin left offset c := by
  intro fuel
  induction fuel with
  | zero =>
    intro left c _ _ hl
    have : left = 0 := by omega
    subst this; rfl
  | succ fuel ih =>
    intro left c hpos hle hl
    unfold repeatInChunks
    split
    · rename_i hl0
      simp only []
      have hchunk : min offset left ≤ offset := Nat.min_le_left _ _
      rw [← copyWithin_noOverlap offset (min offset left) c hpos hle hchunk]
      have hsz := copyWithin_size (min offset left) offset c
      have hstart : c.size - offset + min offset left = (copyWithin (min offset left) offset c).size - offset := by
        omega
      rw [hstart, ih _ _ hpos (by omega) (by omega), ← copyWithin_add]
      congr 1
      omega
    · have : left = 0 := by omega
      subst this; rfl

theorem repeatWithin_eq (b : DBuf) (offset ml : Nat) (hpos : 0 < offset) (hle : offset ≤ b.content.size) :
    repeatWithin b offset ml =
      { b with content := copyWithin ml offset b.content, totalOut := b.totalOut + ml } := by
  unfold repeatWithin
  simp only []
  split
  · rw [repeatInChunks_eq offset ml ml b.content hpos hle (Nat.le_refl _)]
  · rw [copyWithin_noOverlap offset ml b.content hpos hle (by omega)]

/-- the statement-by-statement version equals the model's `DBuf.repeat` for every offset ≥ 1
(for `offset = 0`, `ml > 0` the Rust `repeat_in_chunks` loop does not terminate; the sequence
executor rejects offset 0 before calling `repeat`) -/
theorem repeatRust_eq (b : DBuf) (offset ml : Nat) (hpos : 0 < offset) :
    repeatRust b offset ml = b.repeat offset ml := by
  rw [repeat_eq]
  unfold repeatRust
  split
  · rename_i h1
    split
    · simp only []
      split
      · rfl
      · rename_i h3
        split
        · rename_i h4
          have hsz : (b.content ++ b.dict.extract (b.dict.size - (offset - b.content.size)) b.dict.size).size
              = offset := by
            rw [Array.size_append, dict_tail_size b.dict _ (by omega)]; omega
          rw [hsz, repeatWithin_eq _ offset _ hpos (by simp only [hsz]; omega)]
          simp only []
          have : b.totalOut + (offset - b.content.size) + (ml - (offset - b.content.size)) = b.totalOut + ml := by
            omega
          rw [this]
        · rfl
    · rfl
  · rw [repeatWithin_eq b offset ml hpos (by omega)]

/-- with `offset = 0` every chunk is empty: the loop makes no progress whatever the fuel (the Rust
`while copied_counter_left > 0` spins forever); unreachable from `execute_sequences`, which
rejects offset 0 first (`execZeroOffset`) -/
theorem repeatInChunks_offset_zero_stuck : ∀ (fuel left start : Nat) (c : Array Nat),
    repeatInChunks 0 fuel left start c = c := by
  intro fuel
  induction fuel with
  | zero => intro left start c; rfl
  | succ fuel ih =>
    intro left start c
    unfold repeatInChunks
    split
    · simp only [Nat.zero_min, Nat.add_zero, Nat.sub_zero]
      rw [ih]
      simp only [extendFromWithin, Nat.add_zero]
      rw [Array.extract_empty_of_stop_le_start (Nat.le_refl _), Array.append_empty]
    · rfl

/-! ### every block keeps the invariants (all paths, errors included) -/

/-- `b'` arises from `b` by appending to the content, advancing the counter by at most the number
of bytes appended; dictionary, window and hasher input untouched -/
structure Grows (b b' : DBuf) : Prop where
  hashed : b'.hashed = b.hashed
  window : b'.window = b.window
  dict : b'.dict = b.dict
  size : b.content.size ≤ b'.content.size
  count : b'.totalOut + b.content.size ≤ b.totalOut + b'.content.size

theorem Grows.refl (b : DBuf) : Grows b b := ⟨rfl, rfl, rfl, Nat.le_refl _, Nat.le_refl _⟩

theorem Grows.trans {a b c : DBuf} (h1 : Grows a b) (h2 : Grows b c) : Grows a c :=
  ⟨h2.hashed.trans h1.hashed, h2.window.trans h1.window, h2.dict.trans h1.dict,
   Nat.le_trans h1.size h2.size, by have := h1.count; have := h2.count; have := h1.size; omega⟩

theorem Grows.counterOk {b b' : DBuf} (g : Grows b b') (h : CounterOk b) : CounterOk b' := by
  have := g.count; have := g.size
  simp only [CounterOk] at *; rw [g.hashed]; omega

theorem Grows.retained {b b' : DBuf} (g : Grows b b') (h : Retained b) : Retained b' :=
  retained_grow b b' g.hashed g.window g.size h

theorem grows_push (b : DBuf) (data : Array Nat) : Grows b (b.push data) :=
  ⟨rfl, rfl, rfl, by simp [DBuf.push], by simp only [DBuf.push, Array.size_append]; omega⟩

theorem grows_append (b : DBuf) (data : Array Nat) : Grows b { b with content := b.content ++ data } :=
  ⟨rfl, rfl, rfl, by simp, by simp only [Array.size_append]; omega⟩

theorem grows_repeat (b b' : DBuf) (offset ml : Nat) (h : b.repeat offset ml = .ok b') : Grows b b' := by
  have hs := repeat_size b b' offset ml h
  obtain ⟨hd, hw, hh, ht⟩ := repeat_frame b b' offset ml h
  exact ⟨hh, hw, hd, by omega, by omega⟩

theorem grows_executeSequences : ∀ (seqs : List Spec.Seq) (lits : List Nat) (h : Nat × Nat × Nat)
    (seqSum : Nat) (b : DBuf), Grows b (executeSequences seqs lits h seqSum b).1.1 := by
  intro seqs
  induction seqs with
  | nil =>
    intro lits h seqSum b
    unfold executeSequences
    split
    · exact Grows.refl b
    · split
      · exact Grows.refl b
      · exact grows_push _ _
  | cons s rest ih =>
    intro lits h seqSum b
    unfold executeSequences
    split
    · exact Grows.refl b
    · split
      · exact Grows.refl b
      · simp only []
        have hb1 : Grows b (if s.ll > 0 then b.push (lits.take s.ll).toArray else b) := by
          split
          · exact grows_push _ _
          · exact Grows.refl b
        split
        · exact hb1
        · split
          · exact hb1
          · split
            · exact hb1
            · rename_i b2 hr
              refine Grows.trans (Grows.trans hb1 ?_) (ih _ _ _ b2)
              split at hr
              · exact grows_repeat _ _ _ _ hr
              · injection hr with hr; subst hr; exact Grows.refl _

theorem grows_decompressBlock (content : List Nat) (e : Spec.Entropy) (b : DBuf) :
    Grows b (decompressBlock content e b).1.1 := by
  unfold decompressBlock
  split
  · exact Grows.refl b
  · simp only []
    split
    · exact Grows.refl b
    · split
      · split <;> (split <;> first | exact Grows.refl b | exact grows_push _ _)
      · split
        · exact Grows.refl b
        · rename_i seqs e' _
          exact grows_executeSequences seqs _ _ 0 b

/-- every block decoder satisfying `BlockContract` grows the buffer in the sense of `Grows` -/
theorem grows_run {σ : Type} [BlockDec σ] [BlockContract σ] (content : List Nat) (e : σ) (b : DBuf) :
    Grows b (BlockDec.run content e b).1.1 := by
  obtain ⟨x, hx, -⟩ := BlockContract.appends content e b
  exact ⟨hx.hashed, hx.window, hx.dict, by rw [hx.size]; omega, BlockContract.counter content e b⟩

theorem grows_decodeOneBlock {σ : Type} [BlockDec σ] [BlockContract σ] (st : FState σ) (s : Src) :
    Grows st.buf (decodeOneBlock st s).1.buf := by
  unfold decodeOneBlock
  split
  · exact Grows.refl _
  · split
    · exact Grows.refl _
    · simp only []
      split
      · split
        · exact Grows.refl _
        · exact grows_append _ _
      · split
        · split
          · exact Grows.refl _
          · exact grows_append _ _
        · split
          · exact Grows.refl _
          · rename_i content s2 _
            have := grows_run content st.entropy st.buf
            split <;> rename_i hdb <;> rw [hdb] at this <;> exact this

end Zstd.Proofs.DictCopy
