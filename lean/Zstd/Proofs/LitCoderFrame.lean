import Zstd.Proofs.LitCoderTotal
import Zstd.Proofs.SeqFrame
/-
C02 / C16, frame level, with the literal coder's contract and totality discharged:

  for every well-behaved matcher (`ValidMatcher`, `window_size() + 3 < 2^32`) and every byte string,
  `compress` at `Fastest` with the REAL block encoder either returns a frame that the strict Spec decodes
  to exactly the input, or panics at the `assert!(encoded_len < 128)` of `write_table`
  (`compress_real_correct_or_assert`, unconditional); under `FseWeightsLt128` (a theorem of C13, instantiated
  in `Props/C16.lean` / `Props/C02.lean`) it returns (`compress_real_correct`); and WHENEVER it returns, the
  frame decodes to the input (`compress_real_decodes`, no hypothesis on bytes or on the obligation).

New against `Proofs/SeqFrame.lean`: totality is proved along the block loop with an invariant on the
encoder state (`GoodState`: the remembered Huffman table is canonical), because `compress_literals` is
not total on arbitrary remembered tables; and the input must consist of bytes (`< 256`), because the
model's `Byte` is `Nat` and a literal `≥ 256` has no code.
-/
namespace Zstd.Proofs.LitCoder
open Zstd Zstd.Spec Zstd.Model Zstd.Model.Huf Zstd.Model.Enc Zstd.Proofs.Huf Zstd.Proofs.Enc
open Zstd.Proofs.SeqBlock Zstd.Proofs.SeqSection Zstd.Proofs.SeqFrame

/-- the encoder state a frame can reach: the remembered table, if any, came out of `build_from_data` -/
def GoodState (st : EncState EncTable) : Prop := ∀ tp, st.lastHuff = some tp → GoodTable tp

/-! ### the literals of a valid parse are bytes of the data -/

theorem copyMatch_mem : ∀ (n off : Nat) (out out' : Array Byte), copyMatch n off out = some out' →
    ∀ x ∈ out.toList, x ∈ out'.toList := by
  intro n
  induction n with
  | zero => intro off out out' h; simp [copyMatch] at h; subst h; exact fun x hx => hx
  | succ n ih =>
    intro off out out' h
    simp only [copyMatch] at h
    split at h
    · cases h
    · split at h
      · intro x hx
        exact ih _ _ _ h x (by simp [hx])
      · cases h

theorem execParse_mem (w : Nat) : ∀ (seqs : List MSeq) (tail : List Byte) (out out' : Array Byte),
    execParse w seqs tail out = some out' →
    (∀ x ∈ out.toList, x ∈ out'.toList) ∧ ∀ x ∈ parseLiterals ⟨seqs, tail⟩, x ∈ out'.toList := by
  intro seqs
  induction seqs with
  | nil =>
    intro tail out out' h
    simp only [execParse, Option.some.injEq] at h
    subst h
    refine ⟨fun x hx => by simp [hx], fun x hx => ?_⟩
    simp only [parseLiterals, List.flatMap_nil, List.nil_append] at hx
    simp [hx]
  | cons s rest ih =>
    intro tail out out' h
    simp only [execParse] at h
    split at h
    · cases h
    · split at h
      · cases h
      · rename_i out2 hcm
        obtain ⟨h1, h2⟩ := ih tail out2 out' h
        have hcm' := copyMatch_mem _ _ _ _ hcm
        refine ⟨fun x hx => h1 x (hcm' x (by simp [hx])), ?_⟩
        intro x hx
        simp only [parseLiterals, List.flatMap_cons, List.append_assoc, List.mem_append] at hx
        rcases hx with hx | hx
        · exact h1 x (hcm' x (by simp [hx]))
        · exact h2 x (by simp only [parseLiterals, List.mem_append]; exact hx)

theorem validParse_literals_mem {w : Nat} {pre blk : List Byte} {p : Parse} (hv : validParse w pre blk p = true) :
    ∀ x ∈ parseLiterals p, x ∈ pre ++ blk := by
  obtain ⟨seqs, tail⟩ := p
  simp only [validParse] at hv
  split at hv
  · rename_i out hex
    have hout : out.toList = pre ++ blk := by simpa using hv
    intro x hx
    rw [← hout]
    exact (execParse_mem w seqs tail _ out hex).2 x hx
  · cases hv

/-! ### `compress_block` with the real coders: returns or hits the `assert!` -/

theorem compressBlockReal_total_or (w : Nat) (hw32 : w + 3 < 2 ^ 32) (pre blk : List Byte) (p : Parse)
    (st : EncState EncTable) (hv : validParse w pre blk p = true) (hblk : blk.length ≤ 131072)
    (hbytes : ∀ b ∈ pre ++ blk, b < 256) (hst : GoodState st) :
    (∃ bytes st', compressBlockReal p st = .ok (bytes, st') ∧ GoodState st') ∨
      (∃ f, compressBlockReal p st = .error f ∧ WriteTableAssert f) := by
  obtain ⟨hcount, hall⟩ := codes_in_range w pre blk p hv hblk (Or.inl hw32)
  have hlitmem := validParse_literals_mem hv
  obtain ⟨seqs, tail⟩ := p
  obtain ⟨hspan, hbounds, _, hlits⟩ := validParse_bounds w pre blk seqs tail hv
  have hr : mapMExcept toRSeq seqs = .ok (seqs.map rOfM) :=
    mapMExcept_eq_map toRSeq rOfM seqs (fun s hs => (hall s hs).1)
  -- the literals step
  have hlitstep : (∃ lb st1, litStep realCoders (parseLiterals ⟨seqs, tail⟩) st = .ok (lb, st1) ∧ GoodState st1) ∨
      (∃ f, litStep realCoders (parseLiterals ⟨seqs, tail⟩) st = .error f ∧ WriteTableAssert f) := by
    simp only [litStep]
    split
    · rename_i hg
      have h1024 : 1024 < (parseLiterals ⟨seqs, tail⟩).length := by
        simpa [litHuffGuard_eq, litHuffThreshold_eq] using hg
      rcases compressLiterals_total_or_assert (parseLiterals ⟨seqs, tail⟩) st.lastHuff
          (fun b hb => hbytes b (hlitmem b hb)) (by omega) (by omega) hst with ⟨bytes, t, hc, hgood⟩ | ⟨f, hc, hA⟩
      · left
        have hc' : realCoders.compressLiterals (parseLiterals ⟨seqs, tail⟩) st.lastHuff = .ok (bytes, t) := hc
        rw [hc']
        cases t with
        | none => exact ⟨bytes, st, rfl, hst⟩
        | some t' =>
          refine ⟨bytes, { st with lastHuff := some t' }, rfl, ?_⟩
          intro tp htp
          simp only [Option.some.injEq] at htp
          subst htp
          exact hgood _ rfl
      · right
        have hc' : realCoders.compressLiterals (parseLiterals ⟨seqs, tail⟩) st.lastHuff = .error f := hc
        rw [hc']
        exact ⟨f, rfl, hA⟩
    · left
      obtain ⟨hdr, hraw, _⟩ := rawLiterals_decodes (parseLiterals ⟨seqs, tail⟩) [] none (by omega)
      rw [hraw]; exact ⟨_, st, rfl, hst⟩
  rcases hlitstep with ⟨litBytes, st1, hls, hst1⟩ | ⟨f, hls, hA⟩
  · left
    unfold compressBlockReal compressBlock
    simp only [hr, hls]
    split
    · exact ⟨_, st1, rfl, hst1⟩
    · rename_i hne
      have hne' : seqs.map rOfM ≠ [] := by
        intro h; rw [h] at hne; simp at hne
      have hin : ∀ r ∈ seqs.map rOfM, InRange r := by
        intro r hrm
        obtain ⟨s, hs, rfl⟩ := List.mem_map.mp hrm
        obtain ⟨h3, ho1, how, _, hlm⟩ := hbounds s hs
        simp only [InRange, rOfM]
        omega
      obtain ⟨lls, mls, ofs, cnt, body, LL, OF, ML, h1, h2, h3, hc, hbody, _, _⟩ :=
        encode_decode_sequences (seqs.map rOfM) hne' (by simp only [List.length_map]; omega) hin {}
      have hseq : realCoders.encodeSeqSection = encodeSeqSectionReal := rfl
      simp only [hc, h1, h2, h3, hseq, hbody]
      exact ⟨_, st1, rfl, hst1⟩
  · right
    refine ⟨f, ?_, hA⟩
    unfold compressBlockReal compressBlock
    simp only [hr, hls]

/-! ### the block loop with an invariant on the encoder state -/

theorem compressLoop_total_or {H : Type} (emit : Emit H) (script : Nat → MBlock)
    (hspace : ∀ i, 0 < (script i).space) (orig : List Byte) (I : EncState H → Prop) (A : Fault → Prop)
    (hstep : ∀ last i st, I st → SeqFrame.blockAt script orig i ≠ [] →
      (∃ bytes st', emit last (SeqFrame.blockAt script orig i) (script i).parse st = .ok (bytes, st') ∧ I st') ∨
      (∃ f, emit last (SeqFrame.blockAt script orig i) (script i).parse st = .error f ∧ A f)) :
    ∀ fuel idx st hashed data frags, data.length < fuel → data = orig.drop (blockStart script idx) → I st →
      (∃ r, compressLoop emit script fuel idx st hashed data frags = .ok r) ∨
      (∃ f, compressLoop emit script fuel idx st hashed data frags = .error f ∧ A f) := by
  intro fuel
  induction fuel with
  | zero => intro idx st hashed data frags h; omega
  | succ fuel ih =>
    intro idx st hashed data frags hfuel hdata hI
    obtain ⟨frags', hs⟩ := compressLoop_step emit script fuel idx st hashed data frags (hspace idx)
    rw [hs]
    simp only
    split
    · exact Or.inl ⟨_, rfl⟩
    · rename_i hne
      have hblk : data.take (script idx).space ≠ [] := by
        intro h; rw [h] at hne; simp at hne
      have hb : SeqFrame.blockAt script orig idx = data.take (script idx).space := by
        unfold SeqFrame.blockAt; rw [← hdata]
      rcases hstep (decide (data.length < (script idx).space)) idx st hI (by rw [hb]; exact hblk) with
        ⟨bytes, st', hem, hI'⟩ | ⟨f, hem, hA⟩
      · rw [hb] at hem
        rw [hem]
        simp only
        split
        · exact Or.inl ⟨_, rfl⟩
        · rename_i hl
          have hge : (script idx).space ≤ data.length := by simp at hl; exact hl
          have hsp := hspace idx
          rcases ih (idx + 1) st' (hashed ++ data.take (script idx).space) (data.drop (script idx).space) frags'
              (by simp; omega) (by rw [hdata, List.drop_drop, blockStart, Nat.add_comm]) hI' with ⟨r, hr⟩ | ⟨f, hr, hA⟩
          · rw [hr]; exact Or.inl ⟨_, rfl⟩
          · rw [hr]; exact Or.inr ⟨f, rfl, hA⟩
      · rw [hb] at hem
        rw [hem]
        exact Or.inr ⟨f, rfl, hA⟩

/-- `compress` returns or fails with an allowed fault, when every block emission from a state satisfying
the invariant does (the invariant holds after the per-frame reset of `last_huff_table`) -/
theorem compressFrame_total_or {H : Type} (hash : Bool) (enc : BlockEnc H) (c : Compressor H) (w : Nat)
    (script : Nat → MBlock) (data : List Byte) (frags : List Nat)
    (hw : w ≤ 2 ^ 41) (hspace : ∀ i, 0 < (script i).space) (I : EncState H → Prop) (A : Fault → Prop)
    (hI0 : ∀ st : EncState H, I { st with lastHuff := none })
    (hstep : ∀ last i st, I st → SeqFrame.blockAt script data i ≠ [] →
      (∃ bytes st', emitBlock c.level enc last (SeqFrame.blockAt script data i) (script i).parse st = .ok (bytes, st') ∧ I st') ∨
      (∃ f, emitBlock c.level enc last (SeqFrame.blockAt script data i) (script i).parse st = .error f ∧ A f)) :
    (∃ frame c', compressFrame hash enc c w script data frags = .ok (frame, c')) ∨
      (∃ f, compressFrame hash enc c w script data frags = .error f ∧ A f) := by
  obtain ⟨e, _, _, hwd, _, _⟩ := headerDescriptor_spec w hw
  unfold compressFrame
  simp only [frameHeader, hwd, frameResetsMatcher_eq', frameResetsHuff_eq, if_true]
  rcases compressLoop_total_or (emitBlock c.level enc) script hspace data I A hstep (data.length + 1) 0
      { c.st with lastHuff := none } (if Gen.frameReseedsHasher then [] else c.hasher) data frags (by omega)
      (by simp [blockStart]) (hI0 c.st) with ⟨r, hr⟩ | ⟨f, hr, hA⟩
  · rw [hr]; exact Or.inl ⟨_, _, rfl⟩
  · rw [hr]; exact Or.inr ⟨f, rfl, hA⟩

/-! ### the frame theorems -/

/-- **whenever `compress` returns, the frame is right** (no hypothesis on the bytes, none on the open
obligation): contract of the literal coder + sequences half + frame plumbing -/
theorem compress_real_decodes (hash : Bool) (c : Compressor EncTable) (hc : c.level = .fastest) (w : Nat)
    (script : Nat → MBlock) (data : List Byte) (frags : List Nat) (hm : ValidMatcher w script data)
    (hw32 : w + 3 < 2 ^ 32) (frame : List Byte) (c' : Compressor EncTable)
    (hrun : compressFrame hash compressBlockReal c w script data frags = .ok (frame, c')) :
    Spec.decodeFrame frame = some (specResult hash w data frame) := by
  have henc : BlockEncCorrect TableRel w (declaredWindow w) (compressBlock realCoders) :=
    blockEncCorrect_of_litCoder TableRel realCoders lit_coder_contract rfl w (declaredWindow w)
      (Zstd.Proofs.SeqExec.le_declaredWindow w hm.window_le) hw32
  apply compressFrame_decodes hash (compressBlock realCoders) c w script data frags (Tracks TableRel)
    (FastPre w (declaredWindow w)) hm.window_le hm.space_pos
    (by rw [hc]; exact emit_fastest_decodes TableRel w _ (compressBlock realCoders) henc)
    (fun st => tracks_none TableRel st {}) _ frame c' hrun
  intro i _
  exact ⟨by rw [min_declared_block w hm.window_le]; exact Nat.le_trans (List.length_take_le _ _) (hm.space_le i),
    hm.parse_ok i⟩

/-- one block emission at `Fastest` with the real coders, from a good state -/
theorem emitFastest_total_or (w : Nat) (script : Nat → MBlock) (data : List Byte) (hm : ValidMatcher w script data)
    (hw32 : w + 3 < 2 ^ 32) (hbytes : ∀ b ∈ data, b < 256) (last : Bool) (i : Nat) (st : EncState EncTable)
    (hst : GoodState st) (hne : SeqFrame.blockAt script data i ≠ []) :
    (∃ bytes st', emitBlock .fastest compressBlockReal last (SeqFrame.blockAt script data i) (script i).parse st
        = .ok (bytes, st') ∧ GoodState st') ∨
      (∃ f, emitBlock .fastest compressBlockReal last (SeqFrame.blockAt script data i) (script i).parse st = .error f ∧
        WriteTableAssert f) := by
  simp only [emitBlock, compressFastest]
  generalize hb : SeqFrame.blockAt script data i = blk at hne
  cases blk with
  | nil => exact absurd rfl hne
  | cons b t =>
    simp only
    split
    · exact Or.inl ⟨_, st, rfl, hst⟩
    · rename_i hnc
      have hconst : isConstant (b :: t) = false := by
        rw [isConstant_cons]; simpa using hnc
      have hv := hm.parse_ok i
      simp only at hv
      unfold SeqFrame.blockAt at hb
      rw [hb] at hv
      have hlen : (b :: t).length ≤ 131072 := by
        rw [← hb]
        have := hm.space_le i
        rw [maxBlockSize_eq] at this
        exact Nat.le_trans (List.length_take_le _ _) this
      have hby : ∀ x ∈ data.take (blockStart script i) ++ (b :: t), x < 256 := by
        intro x hx
        rw [← hb] at hx
        rcases List.mem_append.mp hx with hx | hx
        · exact hbytes x (List.mem_of_mem_take hx)
        · exact hbytes x (List.mem_of_mem_drop (List.mem_of_mem_take hx))
      rcases compressBlockReal_total_or w hw32 _ _ _ st (hv hconst) hlen hby hst with
        ⟨bytes, st1, hr, hst1⟩ | ⟨f, hr, hA⟩
      · left
        rw [hr]
        simp only
        split
        · refine ⟨_, _, rfl, ?_⟩
          split
          · intro tp htp; cases htp
          · exact hst1
        · exact ⟨_, st1, rfl, hst1⟩
      · right
        rw [hr]
        exact ⟨f, rfl, hA⟩

/-- **C16 / C02 at the frame level, UNCONDITIONAL**: for every well-behaved matcher with
`window_size() + 3 < 2^32` and every byte string, `compress` at `Fastest` with the real block encoder
either returns a frame that the strict Spec decodes to exactly the input, or panics at
`assert!(encoded_len < 128)` in `write_table` (with a witness table). -/
theorem compress_real_correct_or_assert (hash : Bool) (c : Compressor EncTable) (hc : c.level = .fastest) (w : Nat)
    (script : Nat → MBlock) (data : List Byte) (frags : List Nat) (hm : ValidMatcher w script data)
    (hw32 : w + 3 < 2 ^ 32) (hbytes : ∀ b ∈ data, b < 256) :
    (∃ frame c', compressFrame hash compressBlockReal c w script data frags = .ok (frame, c') ∧
        Spec.decodeFrame frame = some (specResult hash w data frame)) ∨
      (∃ f, compressFrame hash compressBlockReal c w script data frags = .error f ∧ WriteTableAssert f) := by
  rcases compressFrame_total_or hash compressBlockReal c w script data frags hm.window_le hm.space_pos GoodState
      WriteTableAssert (fun st tp htp => by cases htp)
      (fun last i st hst hne => by
        rw [hc]; exact emitFastest_total_or w script data hm hw32 hbytes last i st hst hne) with
    ⟨frame, c', hrun⟩ | ⟨f, hrun, hA⟩
  · exact Or.inl ⟨frame, c', hrun, compress_real_decodes hash c hc w script data frags hm hw32 frame c' hrun⟩
  · exact Or.inr ⟨f, hrun, hA⟩

/-- **C16 / C02 at the frame level**, given `fse_weights_lt_128` (C13) -/
theorem compress_real_correct (hW : FseWeightsLt128) (hash : Bool) (c : Compressor EncTable)
    (hc : c.level = .fastest) (w : Nat) (script : Nat → MBlock) (data : List Byte) (frags : List Nat)
    (hm : ValidMatcher w script data) (hw32 : w + 3 < 2 ^ 32) (hbytes : ∀ b ∈ data, b < 256) :
    ∃ frame c', compressFrame hash compressBlockReal c w script data frags = .ok (frame, c') ∧
      Spec.decodeFrame frame = some (specResult hash w data frame) := by
  rcases compress_real_correct_or_assert hash c hc w script data frags hm hw32 hbytes with h | ⟨f, _, hA⟩
  · exact h
  · exact absurd hA (not_writeTableAssert hW f)

end Zstd.Proofs.LitCoder
