import Zstd.Model.Fse

/-!
# `build_table_from_counts`: the histogram normaliser produces a valid distribution

Subject: `Zstd.Model.Fse.normalize`, the mirror of `fse_encoder.rs:244-311`
(`build_table_from_counts` up to the call of `build_table_from_probabilities`).

Main results (core Lean only, no Mathlib; axioms `propext`, `Classical.choice`, `Quot.sound`):

* `normalize_valid_partial`  : at least two symbols, at least one of them occurring, not more
  symbols than `2 ^ maxLog`: no panic site is reached and the result satisfies `NormOk`;
* `normalize_valid_noavoid`  : the same for `avoid0 = false` with at least one symbol;
* `normalize_single_zero_faults` : finding F4, `normalize [n] maxLog true` hits the `unwrap` of line 304.

Structure: `normalize = normTail ∘ preNorm` (`normalize_eq`, by `rfl`), where `normTail` is
`raiseOrDecrease` followed by `avoidStep`; each stage has an `_ok`/`_spec` lemma.  The backbone is the
sum invariant `foldl_add_modifyAt`.

The hypothesis `counts.length ≤ 2 ^ maxLog` is necessary (see the 33-symbol `example` at the end);
`maxLog ≤ 30` is not needed because the model computes in `Nat`/`Int` (the Rust code computes in
`i32`/`usize`; the model does not mirror `count as i32` truncation for counts ≥ 2^31).
-/

namespace Zstd.Proofs.FseNormalize
open Zstd Zstd.Model.Fse

/-! ## sums -/

/-- the sum as the model computes it -/
def lsum (l : List Int) : Int := l.foldl (· + ·) 0

theorem foldl_add_init (l : List Int) (a : Int) : l.foldl (· + ·) a = a + lsum l := by
  induction l generalizing a with
  | nil => simp [lsum]
  | cons x xs ih =>
    have h0 : lsum (x :: xs) = List.foldl (· + ·) (0 + x) xs := rfl
    rw [List.foldl_cons, ih (a + x), h0, ih (0 + x)]; omega

theorem lsum_nil : lsum [] = 0 := rfl

theorem lsum_cons (x : Int) (xs : List Int) : lsum (x :: xs) = x + lsum xs := by
  show List.foldl (· + ·) 0 (x :: xs) = _
  rw [List.foldl_cons, foldl_add_init]; omega

/-- sum after modifying one index -/
theorem foldl_add_modifyAt (l : List Int) (i : Nat) (f : Int → Int) (h : i < l.length) :
    lsum (modifyAt l i f) = lsum l - l.getD i 0 + f (l.getD i 0) := by
  unfold modifyAt
  induction l generalizing i with
  | nil => simp at h
  | cons x xs ih =>
    cases i with
    | zero => simp only [List.modify_zero_cons, lsum_cons, List.getD_cons_zero]; omega
    | succ i =>
      simp only [List.modify_succ_cons, lsum_cons, List.getD_cons_succ]
      rw [ih i (by simpa using h)]; omega

theorem length_modifyAt (l : List Int) (i : Nat) (f : Int → Int) :
    (modifyAt l i f).length = l.length := by
  simp [modifyAt]

theorem getD_modifyAt (l : List Int) (i k : Nat) (f : Int → Int) :
    (modifyAt l i f).getD k 0 = if k = i ∧ i < l.length then f (l.getD i 0) else l.getD k 0 := by
  unfold modifyAt
  simp only [List.getD_eq_getElem?_getD, List.getElem?_modify]
  by_cases hk : k < l.length
  · simp only [List.getElem?_eq_getElem hk, Option.map_eq_map, Option.map_some, Option.getD_some]
    by_cases hik : i = k
    · subst hik; simp [hk]
    · have : ¬ (k = i ∧ i < l.length) := fun h => hik h.1.symm
      simp [hik, this]
  · have hn : l[k]? = none := List.getElem?_eq_none (by omega)
    have : ¬ (k = i ∧ i < l.length) := fun h => hk (h.1 ▸ h.2)
    simp [hn, this]

theorem getD_modifyAt_self (l : List Int) (i : Nat) (f : Int → Int) (h : i < l.length) :
    (modifyAt l i f).getD i 0 = f (l.getD i 0) := by
  rw [getD_modifyAt]; simp [h]

theorem getD_modifyAt_ne (l : List Int) (i k : Nat) (f : Int → Int) (h : k ≠ i) :
    (modifyAt l i f).getD k 0 = l.getD k 0 := by
  rw [getD_modifyAt]; simp [h]

theorem getD_of_le (l : List Int) (k : Nat) (h : l.length ≤ k) : l.getD k 0 = 0 := by
  simp [List.getD_eq_getElem?_getD, List.getElem?_eq_none h]

theorem getD_mem (l : List Int) (k : Nat) (h : k < l.length) : l.getD k 0 ∈ l := by
  simp only [List.getD_eq_getElem?_getD, List.getElem?_eq_getElem h, Option.getD_some]
  exact List.getElem_mem h

theorem exists_getD_of_mem (l : List Int) (p : Int) (h : p ∈ l) :
    ∃ k, k < l.length ∧ l.getD k 0 = p := by
  obtain ⟨k, hk, rfl⟩ := List.mem_iff_getElem.mp h
  exact ⟨k, hk, by simp [List.getD_eq_getElem?_getD, List.getElem?_eq_getElem hk]⟩

/-- index form of non-negativity (holds beyond the end as well, the default being `0`) -/
def NonnegD (l : List Int) : Prop := ∀ k, 0 ≤ l.getD k 0

theorem nonnegD_of_mem (l : List Int) (h : ∀ p ∈ l, 0 ≤ p) : NonnegD l := by
  intro k
  by_cases hk : k < l.length
  · exact h _ (getD_mem l k hk)
  · rw [getD_of_le l k (by omega)]; omega

theorem mem_nonneg_of_nonnegD (l : List Int) (h : NonnegD l) : ∀ p ∈ l, 0 ≤ p := by
  intro p hp
  obtain ⟨k, _, rfl⟩ := exists_getD_of_mem l p hp
  exact h k

theorem nonnegD_tail {x : Int} {xs : List Int} (h : NonnegD (x :: xs)) : NonnegD xs := by
  intro k; simpa using h (k + 1)

theorem lsum_nonneg (l : List Int) (h : NonnegD l) : 0 ≤ lsum l := by
  induction l with
  | nil => simp [lsum]
  | cons x xs ih =>
    rw [lsum_cons]
    have h0 : 0 ≤ x := by simpa using h 0
    have := ih (nonnegD_tail h); omega

/-- a single entry of a non-negative list is at most the sum -/
theorem getD_le_lsum (l : List Int) (h : NonnegD l) (k : Nat) : l.getD k 0 ≤ lsum l := by
  induction l generalizing k with
  | nil => simp [lsum]
  | cons x xs ih =>
    rw [lsum_cons]
    have h0 : 0 ≤ x := by simpa using h 0
    have hs := lsum_nonneg xs (nonnegD_tail h)
    cases k with
    | zero => simp only [List.getD_cons_zero]; omega
    | succ k =>
      simp only [List.getD_cons_succ]
      have := ih (nonnegD_tail h) k; omega

/-- two distinct entries of a non-negative list are together at most the sum -/
theorem getD_add_getD_le_lsum (l : List Int) (h : NonnegD l) (i j : Nat) (hij : i ≠ j)
    (hi : i < l.length) : l.getD i 0 + l.getD j 0 ≤ lsum l := by
  have hs := foldl_add_modifyAt l i (fun _ => 0) hi
  have hnn : NonnegD (modifyAt l i (fun _ => 0)) := by
    intro k
    rw [getD_modifyAt]
    split
    · omega
    · exact h k
  have := getD_le_lsum _ hnn j
  rw [getD_modifyAt_ne l i j _ (Ne.symm hij)] at this
  omega

/-- if every entry is at most 1 the sum is at most the length -/
theorem lsum_le_length (l : List Int) (h : ∀ k, l.getD k 0 ≤ 1) : lsum l ≤ l.length := by
  induction l with
  | nil => simp [lsum]
  | cons x xs ih =>
    rw [lsum_cons]
    have h0 : x ≤ 1 := by simpa using h 0
    have := ih (fun k => by simpa using h (k + 1))
    simp only [List.length_cons]; omega

/-! ## `lastMaxIdx` (`Iterator::max`) -/

theorem lastMaxIdx_spec (l : List Int) (hne : l ≠ []) :
    ∃ i, lastMaxIdx l = some i ∧ i < l.length ∧ ∀ k, k < l.length → l.getD k 0 ≤ l.getD i 0 := by
  induction l with
  | nil => exact absurd rfl hne
  | cons x xs ih =>
    by_cases hxs : xs = []
    · subst hxs
      refine ⟨0, by simp [lastMaxIdx], by simp, ?_⟩
      intro k hk
      have : k = 0 := by simpa using hk
      subst this; simp
    · obtain ⟨j, hj, hjlt, hmax⟩ := ih hxs
      have hgd : xs.getD j x = xs.getD j 0 := by
        simp [List.getD_eq_getElem?_getD, List.getElem?_eq_getElem hjlt]
      by_cases hge : xs.getD j x ≥ x
      · refine ⟨j + 1, by simp only [lastMaxIdx, hj]; rw [if_pos hge], by simpa using hjlt, ?_⟩
        intro k hk
        cases k with
        | zero => simp only [List.getD_cons_zero, List.getD_cons_succ]; omega
        | succ k =>
          simp only [List.getD_cons_succ]
          exact hmax k (by simpa using hk)
      · refine ⟨0, by simp only [lastMaxIdx, hj]; rw [if_neg hge], by simp, ?_⟩
        intro k hk
        cases k with
        | zero => simp
        | succ k =>
          simp only [List.getD_cons_zero, List.getD_cons_succ]
          have := hmax k (by simpa using hk)
          omega

/-! ## `firstMinGt1Idx` (`filter(> 1).min()`) -/

theorem firstMinGt1Idx_some (l : List Int) (i : Nat) (h : firstMinGt1Idx l = some i) :
    i < l.length ∧ l.getD i 0 > 1 := by
  induction l generalizing i with
  | nil => simp [firstMinGt1Idx] at h
  | cons x xs ih =>
    simp only [firstMinGt1Idx] at h
    split at h
    · split at h
      · cases h; simp only [List.length_cons, List.getD_cons_zero]; omega
      · cases h
    · rename_i j hj
      have := ih j hj
      split at h
      · cases h; simp only [List.length_cons, List.getD_cons_zero]; omega
      · cases h; simp only [List.length_cons, List.getD_cons_succ]; omega

theorem firstMinGt1Idx_none (l : List Int) (h : firstMinGt1Idx l = none) :
    ∀ k, l.getD k 0 ≤ 1 := by
  induction l with
  | nil => intro k; simp
  | cons x xs ih =>
    simp only [firstMinGt1Idx] at h
    split at h
    · rename_i hn
      split at h
      · cases h
      · intro k
        cases k with
        | zero => simp only [List.getD_cons_zero]; omega
        | succ k => simp only [List.getD_cons_succ]; exact ih hn k
    · split at h <;> cases h

/-- `firstMinGt1Idx` finds something iff some element exceeds 1 -/
theorem firstMinGt1Idx_isSome_iff (l : List Int) :
    (∃ i, firstMinGt1Idx l = some i) ↔ ∃ p ∈ l, p > 1 := by
  constructor
  · rintro ⟨i, hi⟩
    have := firstMinGt1Idx_some l i hi
    exact ⟨_, getD_mem l i this.1, this.2⟩
  · rintro ⟨p, hp, hgt⟩
    cases h : firstMinGt1Idx l with
    | some i => exact ⟨i, rfl⟩
    | none =>
      obtain ⟨k, _, rfl⟩ := exists_getD_of_mem l p hp
      have := firstMinGt1Idx_none l h k
      omega

/-! ## number of entries `> 1`: the termination measure of the decrease loop -/

def cntGt1 : List Int → Nat
  | [] => 0
  | x :: xs => (if x > 1 then 1 else 0) + cntGt1 xs

theorem cntGt1_le_length (l : List Int) : cntGt1 l ≤ l.length := by
  induction l with
  | nil => simp [cntGt1]
  | cons x xs ih => simp only [cntGt1, List.length_cons]; split <;> omega

theorem cntGt1_modifyAt_drop (l : List Int) (i : Nat) (f : Int → Int) (hi : i < l.length)
    (hgt : l.getD i 0 > 1) (hle : f (l.getD i 0) ≤ 1) :
    cntGt1 (modifyAt l i f) + 1 = cntGt1 l := by
  unfold modifyAt
  induction l generalizing i with
  | nil => simp at hi
  | cons x xs ih =>
    cases i with
    | zero =>
      simp only [List.getD_cons_zero] at hgt hle
      simp only [List.modify_zero_cons, cntGt1]
      have h1 : ¬ (f x > 1) := by omega
      simp only [h1, hgt, if_true, if_false]; omega
    | succ i =>
      simp only [List.getD_cons_succ] at hgt hle
      simp only [List.modify_succ_cons, cntGt1]
      have := ih i (by simpa using hi) hgt hle
      omega

theorem cntGt1_pos (l : List Int) (i : Nat) (hi : i < l.length) (hgt : l.getD i 0 > 1) :
    1 ≤ cntGt1 l := by
  have := cntGt1_modifyAt_drop l i (fun _ => 0) hi hgt (by omega)
  omega

/-! ## the decrease loop (lines 289-295) -/

/-- As long as the target sum `T` is at least the number of symbols the loop finds an entry `> 1`
whenever `diff > 0`; every iteration either finishes or turns one more entry into exactly 1, so
`cntGt1 probs + 1` units of fuel suffice. -/
theorem decreaseLoop_ok (fuel : Nat) (probs : List Int) (diff : Nat) (T : Int)
    (hnn : NonnegD probs) (hT : (probs.length : Int) ≤ T)
    (hsum : lsum probs = T + diff)
    (hfuel0 : 1 ≤ fuel) (hfuel : diff > 0 → cntGt1 probs + 1 ≤ fuel) :
    ∃ out, decreaseLoop fuel probs diff = .ok out ∧ out.length = probs.length ∧ lsum out = T ∧
      NonnegD out ∧ (∀ k, probs.getD k 0 ≥ 1 → out.getD k 0 ≥ 1) := by
  induction fuel generalizing probs diff with
  | zero => omega
  | succ fuel ih =>
    unfold decreaseLoop
    by_cases hd : diff = 0
    · subst hd
      exact ⟨probs, by simp, rfl, by simpa using hsum, hnn, fun _ h => h⟩
    · rw [if_neg hd]
      cases hf : firstMinGt1Idx probs with
      | none =>
        exfalso
        have := lsum_le_length probs (firstMinGt1Idx_none probs hf)
        omega
      | some i =>
        obtain ⟨hi, hgt⟩ := firstMinGt1Idx_some probs i hf
        show ∃ out, decreaseLoop fuel (modifyAt probs i (· - ((min ((probs.getD i 0).toNat - 1) diff : Nat) : Int)))
            (diff - min ((probs.getD i 0).toNat - 1) diff) = .ok out ∧ _
        have hcnt := cntGt1_pos probs i hi hgt
        have hfu := hfuel (by omega)
        generalize hdec : min ((probs.getD i 0).toNat - 1) diff = decrease
        have hself := getD_modifyAt_self probs i (· - (decrease : Int)) hi
        have hlen := length_modifyAt probs i (· - (decrease : Int))
        have hs := foldl_add_modifyAt probs i (· - (decrease : Int)) hi
        obtain ⟨out, ho, holen, hosum, honn, hoge⟩ :=
          ih (modifyAt probs i (· - (decrease : Int))) (diff - decrease)
            (by
              intro k
              by_cases hk : k = i
              · subst hk; rw [hself]; omega
              · rw [getD_modifyAt_ne _ _ _ _ hk]; exact hnn k)
            (by rw [hlen]; exact hT)
            (by rw [hs]; omega)
            (by omega)
            (by
              intro hpos
              have := cntGt1_modifyAt_drop probs i (· - (decrease : Int)) hi hgt
                (by show _ - _ ≤ _; omega)
              omega)
        refine ⟨out, ho, by rw [holen, hlen], hosum, honn, ?_⟩
        intro k hk
        apply hoge
        by_cases hki : k = i
        · subst hki; rw [hself]; omega
        · rw [getD_modifyAt_ne _ _ _ _ hki]; exact hk

/-! ## the second-maximum search of line 304 -/

theorem foldl_optMax_some (f : Option Int → Int → Option Int)
    (hf1 : ∀ q p, f (some q) p = some (max q p)) (l : List Int) (q : Int) :
    ∃ s, l.foldl f (some q) = some s ∧ (s = q ∨ s ∈ l) := by
  induction l generalizing q with
  | nil => exact ⟨q, rfl, Or.inl rfl⟩
  | cons x xs ih =>
    simp only [List.foldl_cons, hf1]
    obtain ⟨s, hs, hmem⟩ := ih (max q x)
    refine ⟨s, hs, ?_⟩
    rcases hmem with h | h
    · rcases Int.le_total q x with hqx | hqx
      · right; rw [h, Int.max_eq_right hqx]; exact List.mem_cons_self
      · left; rw [h, Int.max_eq_left hqx]
    · right; exact List.mem_cons_of_mem _ h

theorem foldl_optMax_none (f : Option Int → Int → Option Int)
    (hf0 : ∀ p, f none p = some p) (hf1 : ∀ q p, f (some q) p = some (max q p))
    (l : List Int) (hne : l ≠ []) :
    ∃ s, l.foldl f none = some s ∧ s ∈ l := by
  cases l with
  | nil => exact absurd rfl hne
  | cons x xs =>
    simp only [List.foldl_cons, hf0]
    obtain ⟨s, hs, hmem⟩ := foldl_optMax_some f hf1 xs x
    refine ⟨s, hs, ?_⟩
    rcases hmem with h | h
    · rw [h]; exact List.mem_cons_self
    · exact List.mem_cons_of_mem _ h

/-! ## lines 297-308: zero-bit avoidance -/

/-- verbatim copy of the tail of `normalize` (see `normalize_eq` below, proved by `rfl`) -/
def avoidStep (probs : List Int) (al : Nat) (avoid0 : Bool) : Except Fault (List Int × Nat) :=
  match lastMaxIdx probs with
  | none => .error (.unwrap "fse_encoder.rs:297:build_table_from_counts")
  | some i =>
    let mx := probs.getD i 0
    if avoid0 ∧ al = 0 then .error (.overflow "fse_encoder.rs:298:build_table_from_counts")
    else if avoid0 ∧ mx > ((1 <<< (al - 1) : Nat) : Int) then
      let half : Int := ((1 <<< (al - 1) : Nat) : Int)
      let redistribute := mx - half
      let probs := modifyAt probs i (fun _ => half)
      match (probs.filter (· ≠ half)).foldl (fun (m : Option Int) p => match m with | none => some p | some q => some (max q p)) none with
      | none => .error (.unwrap "fse_encoder.rs:304:build_table_from_counts")
      | some second =>
        match probs.findIdx? (· = second) with
        | none => .error (.unwrap "fse_encoder.rs:305:build_table_from_counts")
        | some j =>
          let probs := modifyAt probs j (· + redistribute)
          if probs.getD j 0 > half then .error (.assert "fse_encoder.rs:307:build_table_from_counts")
          else .ok (probs, al)
    else .ok (probs, al)

theorem avoidStep_ok (P : List Int) (al : Nat) (avoid0 : Bool) (hal : 1 ≤ al)
    (hlen1 : 1 ≤ P.length) (hlen2 : avoid0 = true → 2 ≤ P.length)
    (hnn : NonnegD P) (hsum : lsum P = ((2 ^ al : Nat) : Int)) :
    ∃ Q, avoidStep P al avoid0 = .ok (Q, al) ∧ Q.length = P.length ∧ NonnegD Q ∧
      lsum Q = ((2 ^ al : Nat) : Int) ∧ (∀ k, P.getD k 0 ≥ 1 → Q.getD k 0 ≥ 1) ∧
      (avoid0 = true → ∀ k, Q.getD k 0 ≤ ((2 ^ (al - 1) : Nat) : Int)) := by
  obtain ⟨i, hi, hilt, hmax⟩ := lastMaxIdx_spec P (by intro h; simp [h] at hlen1)
  have hpow : (2 ^ al : Nat) = 2 * 2 ^ (al - 1) := by
    have : al = (al - 1) + 1 := by omega
    rw [this, Nat.pow_succ]; simp only [Nat.add_sub_cancel]; omega
  have hhpos : 0 < 2 ^ (al - 1) := Nat.two_pow_pos _
  unfold avoidStep
  rw [hi]
  simp only [Nat.one_shiftLeft]
  rw [hpow] at hsum
  generalize 2 ^ (al - 1) = H at *
  have hno : ¬ (avoid0 = true ∧ al = 0) := by omega
  rw [if_neg hno]
  rw [hpow]
  by_cases hc : avoid0 = true ∧ P.getD i 0 > (H : Int)
  · rw [if_pos hc]
    obtain ⟨ha, hgt⟩ := hc
    have hl2 := hlen2 ha
    -- every other entry is below `half`
    have hother : ∀ k, k ≠ i → P.getD k 0 < (H : Int) := by
      intro k hk
      have := getD_add_getD_le_lsum P hnn i k (Ne.symm hk) hilt
      omega
    generalize hP1 : modifyAt P i (fun _ => (H : Int)) = P1
    have hP1len : P1.length = P.length := by rw [← hP1, length_modifyAt]
    have hP1i : P1.getD i 0 = (H : Int) := by rw [← hP1, getD_modifyAt_self _ _ _ hilt]
    have hP1k : ∀ k, k ≠ i → P1.getD k 0 = P.getD k 0 := by
      intro k hk; rw [← hP1, getD_modifyAt_ne _ _ _ _ hk]
    have hP1sum : lsum P1 = lsum P - P.getD i 0 + (H : Int) := by
      rw [← hP1, foldl_add_modifyAt _ _ _ hilt]
    -- the filter is non-empty
    have hfne : List.filter (fun x => decide (x ≠ (H : Int))) P1 ≠ [] := by
      have hex : ∃ k, k ≠ i ∧ k < P1.length := by
        by_cases h0 : i = 0
        · exact ⟨1, by omega, by omega⟩
        · exact ⟨0, by omega, by omega⟩
      obtain ⟨k, hki, hklt⟩ := hex
      have hmem : P1.getD k 0 ∈ List.filter (fun x => decide (x ≠ (H : Int))) P1 := by
        rw [List.mem_filter]
        refine ⟨getD_mem P1 k hklt, ?_⟩
        have := hother k hki
        rw [hP1k k hki]
        simp only [decide_eq_true_eq]; omega
      intro h; rw [h] at hmem; simp at hmem
    obtain ⟨second, hsec, hsmem⟩ := foldl_optMax_none
      (fun (m : Option Int) p => match m with | none => some p | some q => some (max q p))
      (fun _ => rfl) (fun _ _ => rfl) _ hfne
    rw [hsec]
    simp only []
    rw [List.mem_filter] at hsmem
    obtain ⟨hsP1, hsne⟩ := hsmem
    simp only [decide_eq_true_eq] at hsne
    cases hfind : List.findIdx? (fun x => decide (x = second)) P1 with
    | none =>
      exfalso
      have := List.findIdx?_eq_none_iff.mp hfind second hsP1
      simp at this
    | some j =>
      simp only []
      obtain ⟨hjlt, hjeq, _⟩ := List.findIdx?_eq_some_iff_getElem.mp hfind
      simp only [decide_eq_true_eq] at hjeq
      have hP1j : P1.getD j 0 = second := by
        simp [List.getD_eq_getElem?_getD, List.getElem?_eq_getElem hjlt, hjeq]
      have hji : j ≠ i := by
        intro h; subst h; rw [hP1i] at hP1j; exact hsne hP1j.symm
      have hPj := hother j hji
      have hP1j' := hP1k j hji
      generalize hP2 : modifyAt P1 j (fun x => x + (P.getD i 0 - (H : Int))) = P2
      have hP2len : P2.length = P1.length := by rw [← hP2, length_modifyAt]
      have hP2j : P2.getD j 0 = P1.getD j 0 + (P.getD i 0 - (H : Int)) := by
        rw [← hP2, getD_modifyAt_self _ _ _ hjlt]
      have hP2k : ∀ k, k ≠ j → P2.getD k 0 = P1.getD k 0 := by
        intro k hk; rw [← hP2, getD_modifyAt_ne _ _ _ _ hk]
      have hP2sum : lsum P2 = lsum P1 - P1.getD j 0 + (P1.getD j 0 + (P.getD i 0 - (H : Int))) := by
        rw [← hP2, foldl_add_modifyAt _ _ _ hjlt]
      have hij2 := getD_add_getD_le_lsum P hnn i j (Ne.symm hji) hilt
      have hP2jle : P2.getD j 0 ≤ (H : Int) := by omega
      rw [if_neg (by omega)]
      refine ⟨P2, rfl, by omega, ?_, by omega, ?_, ?_⟩
      · intro k
        by_cases hkj : k = j
        · subst hkj; have := hnn k; omega
        · rw [hP2k k hkj]
          by_cases hki : k = i
          · subst hki; omega
          · rw [hP1k k hki]; exact hnn k
      · intro k hk
        by_cases hkj : k = j
        · subst hkj; omega
        · rw [hP2k k hkj]
          by_cases hki : k = i
          · subst hki; omega
          · rw [hP1k k hki]; exact hk
      · intro _ k
        by_cases hkj : k = j
        · subst hkj; omega
        · rw [hP2k k hkj]
          by_cases hki : k = i
          · subst hki; omega
          · rw [hP1k k hki]; have := hother k hki; omega
  · rw [if_neg hc]
    refine ⟨P, rfl, rfl, hnn, hsum, fun _ h => h, ?_⟩
    intro ha k
    have hle : P.getD i 0 ≤ (H : Int) := by
      have : ¬ (P.getD i 0 > (H : Int)) := fun h => hc ⟨ha, h⟩
      omega
    by_cases hk : k < P.length
    · have := hmax k hk; omega
    · rw [getD_of_le P k (by omega)]; omega

/-! ## lines 275-296: choice of the accuracy log, raising / decreasing to the power of two -/

/-- verbatim copy of `step1` in `normalize` -/
def raiseOrDecrease (probs : List Int) (al sum : Nat) : Except Fault (List Int) :=
  if sum < 1 <<< al then
    match lastMaxIdx probs with
    | none => .error (.unwrap "fse_encoder.rs:285:build_table_from_counts")
    | some i => .ok (modifyAt probs i (· + ((1 <<< al) - sum : Nat)))
  else decreaseLoop (probs.length + 1) probs (sum - (1 <<< al))

theorem raiseOrDecrease_ok (P : List Int) (al S : Nat)
    (hlen1 : 1 ≤ P.length) (hlen' : 2 ^ al ≤ S → P.length ≤ 2 ^ al)
    (hnn : NonnegD P) (hS : (S : Int) = lsum P) :
    ∃ Q, raiseOrDecrease P al S = .ok Q ∧ Q.length = P.length ∧ NonnegD Q ∧
      lsum Q = ((2 ^ al : Nat) : Int) ∧ (∀ k, P.getD k 0 ≥ 1 → Q.getD k 0 ≥ 1) := by
  unfold raiseOrDecrease
  simp only [Nat.one_shiftLeft]
  by_cases hlt : S < 2 ^ al
  · rw [if_pos hlt]
    obtain ⟨i, hi, hilt, _⟩ := lastMaxIdx_spec P (by intro h; simp [h] at hlen1)
    rw [hi]
    refine ⟨_, rfl, length_modifyAt _ _ _, ?_, ?_, ?_⟩
    · intro k
      rw [getD_modifyAt]
      have := hnn k; have := hnn i
      split <;> omega
    · rw [foldl_add_modifyAt _ _ _ hilt]; omega
    · intro k hk
      rw [getD_modifyAt]
      split
      · rename_i h; rw [← h.1]; omega
      · exact hk
  · rw [if_neg hlt]
    have hle : 2 ^ al ≤ S := by omega
    obtain ⟨out, ho, holen, hosum, honn, hoge⟩ :=
      decreaseLoop_ok (P.length + 1) P (S - 2 ^ al) ((2 ^ al : Nat) : Int) hnn
        (by have := hlen' hle; omega) (by omega) (by omega)
        (by intro _; have := cntGt1_le_length P; omega)
    exact ⟨out, ho, holen, honn, hosum, hoge⟩

/-- verbatim copy of `normalize` from the computation of `sum` onwards -/
def normTail (probs : List Int) (maxLog : Nat) (avoid0 : Bool) : Except Fault (List Int × Nat) :=
  let sumI : Int := probs.foldl (· + ·) 0
  if ¬ (sumI > 0) then .error (.assert "fse_encoder.rs:276:build_table_from_counts")
  else
    let sum := sumI.toNat
    let al := min (max (Nat.log2 sum + Gen.normLogAdd) Gen.normLogMin) maxLog
    match raiseOrDecrease probs al sum with
    | .error f => .error f
    | .ok probs => avoidStep probs al avoid0

theorem normTail_ok (P : List Int) (maxLog : Nat) (avoid0 : Bool)
    (hlog : Gen.normLogMin ≤ maxLog)
    (hlen1 : 1 ≤ P.length) (hlen2 : avoid0 = true → 2 ≤ P.length)
    (hlen' : P.length ≤ 2 ^ maxLog)
    (hnn : NonnegD P) (hpos : lsum P > 0) :
    ∃ Q al, normTail P maxLog avoid0 = .ok (Q, al) ∧ Gen.normLogMin ≤ al ∧ al ≤ maxLog ∧
      Q.length = P.length ∧ NonnegD Q ∧ lsum Q = ((2 ^ al : Nat) : Int) ∧
      (∀ k, P.getD k 0 ≥ 1 → Q.getD k 0 ≥ 1) ∧
      (avoid0 = true → ∀ k, Q.getD k 0 ≤ ((2 ^ (al - 1) : Nat) : Int)) := by
  unfold normTail
  simp only []
  rw [show List.foldl (fun x1 x2 => x1 + x2) 0 P = lsum P from rfl]
  rw [if_neg (by omega)]
  simp only [Gen.normLogAdd, Gen.normLogMin] at hlog ⊢
  generalize hS : (lsum P).toNat = S
  have hSI : (S : Int) = lsum P := by omega
  have hS0 : S ≠ 0 := by omega
  have hal5 : 5 ≤ min (max (Nat.log2 S + 1) 5) maxLog := by omega
  have halm : min (max (Nat.log2 S + 1) 5) maxLog ≤ maxLog := by omega
  have hbig : 2 ^ min (max (Nat.log2 S + 1) 5) maxLog ≤ S →
      min (max (Nat.log2 S + 1) 5) maxLog = maxLog := by
    intro hle
    apply Classical.byContradiction
    intro hne
    have h1 : Nat.log2 S + 1 ≤ min (max (Nat.log2 S + 1) 5) maxLog := by omega
    have h2 := Nat.pow_le_pow_right (n := 2) (by omega) h1
    have h3 := @Nat.lt_log2_self S
    omega
  obtain ⟨Q1, hQ1, hQ1len, hQ1nn, hQ1sum, hQ1ge⟩ :=
    raiseOrDecrease_ok P (min (max (Nat.log2 S + 1) 5) maxLog) S hlen1
      (by intro h; rw [hbig h]; exact hlen') hnn hSI
  rw [hQ1]
  simp only []
  obtain ⟨Q, hQ, hQlen, hQnn, hQsum, hQge, hQle⟩ :=
    avoidStep_ok Q1 (min (max (Nat.log2 S + 1) 5) maxLog) avoid0 (by omega)
      (by omega) (by intro h; have := hlen2 h; omega) hQ1nn hQ1sum
  exact ⟨Q, _, hQ, hal5, halm, by omega, hQnn, hQsum, fun k hk => hQge k (hQ1ge k hk), hQle⟩

/-! ## lines 245-272: shifting and scaling of the histogram -/

/-- `min_count` of lines 247-253 (0 when no symbol occurs) -/
def minCount (counts : List Nat) : Nat :=
  counts.foldl (fun m c => if c > 0 ∧ (c < m ∨ m = 0) then c else m) 0

/-- verbatim copy of the first half of `normalize`: `probs` at line 273 -/
def preNorm (counts : List Nat) : List Int :=
  let shift : Int := (minCount counts - 1 : Nat)
  let probs : List Int := counts.map fun (c : Nat) => if c > 0 then ((c : Nat) : Int) - shift else (0 : Int)
  let maxProb : Int := probs.foldl (fun m p => max m p) 0
  if maxProb > 0 ∧ maxProb.toNat > probs.length then
    let divisor := maxProb / (probs.length : Int)
    probs.map fun p => if p > 0 then max (p / divisor) 1 else p
  else probs

/-- the model is the composition of the three stages analysed here -/
theorem normalize_eq (counts : List Nat) (maxLog : Nat) (avoid0 : Bool)
    (hlen : counts.length ≤ 256) (hmin : minCount counts ≠ 0) :
    normalize counts maxLog avoid0 = normTail (preNorm counts) maxLog avoid0 := by
  unfold normalize
  rw [if_neg (by omega)]
  show (if minCount counts = 0 then _ else _) = _
  rw [if_neg hmin]
  rfl

theorem minCount_foldl (l : List Nat) (m : Nat) :
    (m > 0 → 0 < l.foldl (fun m c => if c > 0 ∧ (c < m ∨ m = 0) then c else m) m ∧
        l.foldl (fun m c => if c > 0 ∧ (c < m ∨ m = 0) then c else m) m ≤ m) ∧
    ((∃ c ∈ l, c > 0) → 0 < l.foldl (fun m c => if c > 0 ∧ (c < m ∨ m = 0) then c else m) m) ∧
    (∀ c ∈ l, c > 0 → l.foldl (fun m c => if c > 0 ∧ (c < m ∨ m = 0) then c else m) m ≤ c) := by
  induction l generalizing m with
  | nil => simp
  | cons x xs ih =>
    simp only [List.foldl_cons]
    generalize hm' : (if x > 0 ∧ (x < m ∨ m = 0) then x else m) = m'
    obtain ⟨iha, ihb, ihc⟩ := ih m'
    have hm1 : m > 0 → m' > 0 ∧ m' ≤ m := by
      intro h; rw [← hm']; split <;> omega
    have hm2 : x > 0 → m' > 0 ∧ m' ≤ x := by
      intro h; rw [← hm']; split <;> omega
    refine ⟨?_, ?_, ?_⟩
    · intro h
      have := iha (hm1 h).1; have := hm1 h; omega
    · rintro ⟨c, hc, hpos⟩
      rcases List.mem_cons.mp hc with h | h
      · subst h; exact (iha (hm2 hpos).1).1
      · exact ihb ⟨c, h, hpos⟩
    · intro c hc hpos
      rcases List.mem_cons.mp hc with h | h
      · subst h; have := iha (hm2 hpos).1; have := hm2 hpos; omega
      · exact ihc c h hpos

theorem minCount_pos (counts : List Nat) (hpos : ∃ c ∈ counts, c > 0) : 0 < minCount counts :=
  (minCount_foldl counts 0).2.1 hpos

theorem minCount_le (counts : List Nat) (c : Nat) (hc : c ∈ counts) (hpos : c > 0) :
    minCount counts ≤ c :=
  (minCount_foldl counts 0).2.2 c hc hpos

theorem getD_map_zero {α : Type} (d : α) (l : List α) (f : α → Int) (hf : f d = 0) (k : Nat) :
    (l.map f).getD k 0 = f (l.getD k d) := by
  simp only [List.getD_eq_getElem?_getD, List.getElem?_map]
  cases l[k]? with
  | none => simp [hf]
  | some a => simp

theorem natGetD_mem (l : List Nat) (k : Nat) (h : l.getD k 0 > 0) : l.getD k 0 ∈ l := by
  by_cases hk : k < l.length
  · simp only [List.getD_eq_getElem?_getD, List.getElem?_eq_getElem hk, Option.getD_some]
    exact List.getElem_mem hk
  · exfalso
    simp [List.getD_eq_getElem?_getD, List.getElem?_eq_none (Nat.le_of_not_lt hk)] at h

/-- after shifting and scaling: same length, nothing negative, occurring symbols have weight ≥ 1 -/
theorem preNorm_spec (counts : List Nat) :
    (preNorm counts).length = counts.length ∧ NonnegD (preNorm counts) ∧
      ∀ k, counts.getD k 0 > 0 → (preNorm counts).getD k 0 ≥ 1 := by
  unfold preNorm
  simp only []
  generalize hf : (fun (c : Nat) => if c > 0 then ((c : Nat) : Int) - ((minCount counts - 1 : Nat) : Int) else (0 : Int)) = f
  have hf0 : f 0 = 0 := by rw [← hf]; simp
  have hfge : ∀ k, counts.getD k 0 > 0 → f (counts.getD k 0) ≥ 1 := by
    intro k hk
    have := minCount_le counts _ (natGetD_mem counts k hk) hk
    rw [← hf]; simp only [hk, if_true]; omega
  have hfnn : ∀ k, 0 ≤ f (counts.getD k 0) := by
    intro k
    by_cases hk : counts.getD k 0 > 0
    · have := hfge k hk; omega
    · have : counts.getD k 0 = 0 := by omega
      rw [this, hf0]; omega
  split
  · generalize hh : (fun (p : Int) => if p > 0 then
        max (p / (List.foldl (fun m p => max m p) 0 (List.map f counts) / ((List.map f counts).length : Int))) 1
        else p) = h
    have hh0 : h 0 = 0 := by rw [← hh]; simp
    have hhge : ∀ p : Int, p ≥ 1 → h p ≥ 1 := by
      intro p hp; rw [← hh]
      have : p > 0 := by omega
      simp only [this, if_true]; exact Int.le_max_right _ _
    refine ⟨by simp, ?_, ?_⟩
    · intro k
      rw [getD_map_zero 0 _ h hh0, getD_map_zero 0 _ f hf0]
      have := hfnn k
      by_cases h1 : f (counts.getD k 0) ≥ 1
      · have := hhge _ h1; omega
      · have : f (counts.getD k 0) = 0 := by omega
        rw [this, hh0]; omega
    · intro k hk
      rw [getD_map_zero 0 _ h hh0, getD_map_zero 0 _ f hf0]
      exact hhge _ (hfge k hk)
  · refine ⟨by simp, ?_, ?_⟩
    · intro k; rw [getD_map_zero 0 _ f hf0]; exact hfnn k
    · intro k hk; rw [getD_map_zero 0 _ f hf0]; exact hfge k hk

/-! ## main results -/

/-- what the compressor needs from a normalised distribution -/
def NormOk (counts : List Nat) (maxLog : Nat) (avoid0 : Bool) (probs : List Int) (al : Nat) : Prop :=
  Gen.normLogMin ≤ al ∧ al ≤ maxLog ∧
  probs.length = counts.length ∧
  (∀ p ∈ probs, 0 ≤ p) ∧
  probs.foldl (· + ·) 0 = ((2 ^ al : Nat) : Int) ∧
  (∀ i, counts.getD i 0 > 0 → probs.getD i 0 ≥ 1) ∧
  (avoid0 = true → ∀ p ∈ probs, p ≤ ((2 ^ (al - 1) : Nat) : Int))

/-- common core: either zero-bit avoidance is off or there are at least two symbols -/
theorem normalize_valid_core (counts : List Nat) (maxLog : Nat) (avoid0 : Bool)
    (hlog : Gen.normLogMin ≤ maxLog)
    (hlen1 : 1 ≤ counts.length) (hlen2 : avoid0 = true → 2 ≤ counts.length)
    (hlen : counts.length ≤ 256) (hlen' : counts.length ≤ 2 ^ maxLog)
    (hpos : ∃ c ∈ counts, c > 0) :
    ∃ probs al, normalize counts maxLog avoid0 = .ok (probs, al) ∧
      NormOk counts maxLog avoid0 probs al := by
  obtain ⟨hplen, hpnn, hpge⟩ := preNorm_spec counts
  have hmin := minCount_pos counts hpos
  rw [normalize_eq counts maxLog avoid0 hlen (by omega)]
  have hsumpos : lsum (preNorm counts) > 0 := by
    obtain ⟨c, hc, hcpos⟩ := hpos
    obtain ⟨k, hk, rfl⟩ := List.mem_iff_getElem.mp hc
    have hk' : counts.getD k 0 > 0 := by
      simpa [List.getD_eq_getElem?_getD, List.getElem?_eq_getElem hk] using hcpos
    have := hpge k hk'
    have := getD_le_lsum _ hpnn k
    omega
  obtain ⟨Q, al, hQ, h5, hm, hQlen, hQnn, hQsum, hQge, hQle⟩ :=
    normTail_ok (preNorm counts) maxLog avoid0 hlog (by omega)
      (by intro h; have := hlen2 h; omega) (by omega) hpnn hsumpos
  refine ⟨Q, al, hQ, h5, hm, by omega, mem_nonneg_of_nonnegD Q hQnn, hQsum,
    fun i hi => hQge i (hpge i hi), ?_⟩
  intro ha p hp
  obtain ⟨k, _, rfl⟩ := exists_getD_of_mem Q p hp
  exact hQle ha k

/-- every histogram the compressor can see, except the single-symbol-0 histogram
(`maxLog ≤ 30` is not needed: the model computes in `Nat`/`Int`) -/
theorem normalize_valid_partial (counts : List Nat) (maxLog : Nat) (avoid0 : Bool)
    (hlog : Gen.normLogMin ≤ maxLog)
    (hlen2 : 2 ≤ counts.length) (hlen : counts.length ≤ 256) (hlen' : counts.length ≤ 2 ^ maxLog)
    (hpos : ∃ c ∈ counts, c > 0) :
    ∃ probs al, normalize counts maxLog avoid0 = .ok (probs, al) ∧
      NormOk counts maxLog avoid0 probs al :=
  normalize_valid_core counts maxLog avoid0 hlog (by omega) (fun _ => hlen2) hlen hlen' hpos

/-- without zero-bit avoidance the single-symbol histogram is fine as well -/
theorem normalize_valid_noavoid (counts : List Nat) (maxLog : Nat)
    (hlog : Gen.normLogMin ≤ maxLog)
    (hlen1 : 1 ≤ counts.length) (hlen : counts.length ≤ 256) (hlen' : counts.length ≤ 2 ^ maxLog)
    (hpos : ∃ c ∈ counts, c > 0) :
    ∃ probs al, normalize counts maxLog false = .ok (probs, al) ∧
      NormOk counts maxLog false probs al :=
  normalize_valid_core counts maxLog false hlog hlen1 (fun h => by cases h) hlen hlen' hpos

/-! ## finding F4 -/

theorem minCount_singleton (n : Nat) (hn : 0 < n) : minCount [n] = n := by
  simp [minCount, hn]

theorem preNorm_singleton (n : Nat) (hn : 0 < n) : preNorm [n] = [1] := by
  have h1 : ((n : Int) - ((n - 1 : Nat) : Int)) = 1 := by omega
  unfold preNorm
  rw [minCount_singleton n hn]
  simp only [List.map_cons, List.map_nil, hn, gt_iff_lt, if_true, h1]
  decide

theorem normTail_one_true (maxLog : Nat) (hlog : Gen.normLogMin ≤ maxLog) :
    normTail [1] maxLog true = .error (.unwrap "fse_encoder.rs:304:build_table_from_counts") := by
  have hal : min (max (Nat.log2 (1 : Int).toNat + Gen.normLogAdd) Gen.normLogMin) maxLog = 5 := by
    have : Nat.log2 (1 : Int).toNat = 0 := by decide
    rw [this]; simp only [Gen.normLogAdd, Gen.normLogMin] at hlog ⊢; omega
  unfold normTail
  simp only []
  rw [show List.foldl (fun (x1 x2 : Int) => x1 + x2) 0 [1] = 1 from by decide] 
  rw [hal]
  decide

/-- finding F4: only symbol 0 occurs and zero-bit avoidance is on: the real code panics at
fse_encoder.rs:304 (`unwrap` on `None`), the model faults at the same site -/
theorem normalize_single_zero_faults (n maxLog : Nat) (hn : 0 < n) (hlog : Gen.normLogMin ≤ maxLog) :
    normalize [n] maxLog true = .error (.unwrap "fse_encoder.rs:304:build_table_from_counts") := by
  rw [normalize_eq [n] maxLog true (by simp) (by rw [minCount_singleton n hn]; omega),
    preNorm_singleton n hn]
  exact normTail_one_true maxLog hlog

/-- membership form of `lastMaxIdx_spec` -/
theorem lastMaxIdx_some (l : List Int) (hne : l ≠ []) :
    ∃ i, lastMaxIdx l = some i ∧ i < l.length ∧ ∀ p ∈ l, p ≤ l.getD i 0 := by
  obtain ⟨i, hi, hilt, hmax⟩ := lastMaxIdx_spec l hne
  refine ⟨i, hi, hilt, ?_⟩
  intro p hp
  obtain ⟨k, hk, rfl⟩ := exists_getD_of_mem l p hp
  exact hmax k hk

/-! ## non-vacuity: concrete evaluations (kernel `decide`) -/

-- raise branch + zero-bit avoidance (the never-occurring symbol 0 is lifted to 16)
example : normalize [0, 5] 9 true = .ok ([16, 16], 5) := by decide
example : normalize [0, 5] 9 false = .ok ([0, 32], 5) := by decide
-- division step, raise, redistribution to the FIRST second maximum
example : normalize [3, 1000, 2] 9 true = .ok ([15, 16, 1], 5) := by decide
example : normalize [3, 1000, 2] 9 false = .ok ([1, 30, 1], 5) := by decide
-- decrease branch (`al = maxLog`, sum 210 ≥ 32)
example : normalize [1,40,1,40,1,40,1,40,1,40,1,40,1,40,1,40,1,40,1,40] 5 true
    = .ok ([1,1,1,1,1,1,1,1,1,1,1,1,1,1,1,1,1,1,1,13], 5) := by decide
-- single symbol: fine without avoidance, F4 with avoidance
example : normalize [7] 9 false = .ok ([32], 5) := by decide
example : normalize [7] 9 true = .error (.unwrap "fse_encoder.rs:304:build_table_from_counts") := by
  decide
-- `counts.length ≤ 2 ^ maxLog` cannot be dropped: 33 symbols do not fit into a table of size 32,
-- the `unwrap` of line 291 fails
set_option maxRecDepth 4096 in
example : normalize (List.replicate 33 1) 5 false
    = .error (.unwrap "fse_encoder.rs:291:build_table_from_counts") := by decide
-- an instance of the theorem
example : ∃ probs al, normalize [3, 1000, 2] 9 true = .ok (probs, al) ∧
    NormOk [3, 1000, 2] 9 true probs al :=
  normalize_valid_partial _ _ _ (by decide) (by decide) (by decide) (by decide) ⟨3, by decide, by decide⟩

end Zstd.Proofs.FseNormalize
