import Zstd.Model.FrameDecoder
/-
Helper lemmas about the abstract decode buffer (`DBuf`): `take`, `push`, `copyWithin`, `repeat`.
-/
namespace Zstd.Model
open Zstd

/-! ### `copyWithin` -/

theorem copyWithin_append (n off : Nat) (c : Array Nat) :
    ∃ x : Array Nat, copyWithin n off c = c ++ x ∧ x.size = n := by
  induction n generalizing c with
  | zero => exact ⟨#[], by simp [copyWithin]⟩
  | succ n ih =>
    obtain ⟨x, hx, hs⟩ := ih (c.push (c.getD (c.size - off) 0))
    refine ⟨#[c.getD (c.size - off) 0] ++ x, ?_, ?_⟩
    · rw [copyWithin, hx, Array.push_eq_append, Array.append_assoc]
    · simp [hs]; omega

theorem copyWithin_size (n off : Nat) (c : Array Nat) : (copyWithin n off c).size = c.size + n := by
  obtain ⟨x, hx, hs⟩ := copyWithin_append n off c
  rw [hx, Array.size_append, hs]

/-- `window_suffices` at the level of one match copy: bytes in front of the last `offset` bytes do not
influence what an overlapping copy appends. -/
theorem copyWithin_drop (n off : Nat) (d k : Array Nat) (h : off ≤ k.size) :
    copyWithin n off (d ++ k) = d ++ copyWithin n off k := by
  induction n generalizing k with
  | zero => simp [copyWithin]
  | succ n ih =>
    rw [copyWithin, copyWithin]
    have hx : (d ++ k).getD ((d ++ k).size - off) 0 = k.getD (k.size - off) 0 := by
      simp only [Array.getD_eq_getD_getElem?, Array.size_append]
      rw [Array.getElem?_append_right (by omega)]
      congr 2; omega
    rw [hx, ← Array.append_push]
    exact ih _ (by simp; omega)


/-! ### `take` (what every drain does) -/

theorem DBuf.take_fst (b : DBuf) (n : Nat) : (b.take n).1 = b.content.extract 0 n := rfl
theorem DBuf.take_content (b : DBuf) (n : Nat) :
    (b.take n).2.content = b.content.extract n b.content.size := rfl
theorem DBuf.take_hashed (b : DBuf) (n : Nat) : (b.take n).2.hashed = b.hashed ++ (b.take n).1 := rfl
theorem DBuf.take_window (b : DBuf) (n : Nat) : (b.take n).2.window = b.window := rfl
theorem DBuf.take_dict (b : DBuf) (n : Nat) : (b.take n).2.dict = b.dict := rfl
theorem DBuf.take_totalOut (b : DBuf) (n : Nat) : (b.take n).2.totalOut = b.totalOut := rfl

/-- no byte lost or duplicated: delivered ++ remaining = content -/
theorem DBuf.take_partition (b : DBuf) (n : Nat) : (b.take n).1 ++ (b.take n).2.content = b.content := by
  simp only [DBuf.take]
  apply Array.ext
  · simp; omega
  · intro i h1 h2
    simp only [Array.getElem_append, Array.size_extract, Array.getElem_extract]
    split <;> congr 1 <;> omega

theorem DBuf.take_fst_size (b : DBuf) (n : Nat) : (b.take n).1.size = min n b.content.size := by
  simp [DBuf.take]

theorem DBuf.take_content_size (b : DBuf) (n : Nat) :
    (b.take n).2.content.size = b.content.size - n := by
  simp [DBuf.take]

/-! ### buffers that only grow at the back -/

/-- `b'` is `b` with `x` appended to the content; dictionary, window and hasher untouched -/
structure DBuf.Appends (b b' : DBuf) (x : Array Nat) : Prop where
  content : b'.content = b.content ++ x
  dict : b'.dict = b.dict
  window : b'.window = b.window
  hashed : b'.hashed = b.hashed

theorem DBuf.Appends.refl (b : DBuf) : DBuf.Appends b b #[] := ⟨by simp, rfl, rfl, rfl⟩

theorem DBuf.Appends.trans {a b c : DBuf} {x y : Array Nat}
    (h1 : DBuf.Appends a b x) (h2 : DBuf.Appends b c y) : DBuf.Appends a c (x ++ y) :=
  ⟨by rw [h2.content, h1.content, Array.append_assoc], h2.dict.trans h1.dict,
   h2.window.trans h1.window, h2.hashed.trans h1.hashed⟩

theorem DBuf.Appends.size {b b' : DBuf} {x : Array Nat} (h : DBuf.Appends b b' x) :
    b'.content.size = b.content.size + x.size := by rw [h.content, Array.size_append]

theorem DBuf.push_appends (b : DBuf) (data : Array Nat) : DBuf.Appends b (b.push data) data :=
  ⟨rfl, rfl, rfl, rfl⟩

/-- `repeat` appends exactly `ml` bytes or fails without touching the buffer -/
theorem DBuf.repeat_appends (b b2 : DBuf) (off ml : Nat) (h : b.repeat off ml = .ok b2) :
    ∃ x, DBuf.Appends b b2 x ∧ x.size = ml := by
  simp only [DBuf.repeat] at h
  split at h
  · rename_i hoff
    split at h
    · split at h
      · cases h
      · rename_i hfd
        split at h
        · rename_i hlt
          have hsz : (b.dict.extract (b.dict.size - (off - b.content.size)) b.dict.size).size
              = off - b.content.size := by simp; omega
          split at h
          · rename_i h0
            simp only [Array.size_append, hsz] at h0
            omega
          · cases h
            obtain ⟨x, hx, hs⟩ := copyWithin_append (ml - (off - b.content.size))
              (b.content ++ b.dict.extract (b.dict.size - (off - b.content.size)) b.dict.size).size
              (b.content ++ b.dict.extract (b.dict.size - (off - b.content.size)) b.dict.size)
            refine ⟨b.dict.extract (b.dict.size - (off - b.content.size)) b.dict.size ++ x, ⟨?_, rfl, rfl, rfl⟩, ?_⟩
            · simp only [hx, Array.append_assoc]
            · simp only [Array.size_append, hsz, hs]; omega
        · cases h
          exact ⟨_, ⟨rfl, rfl, rfl, rfl⟩, by simp; omega⟩
    · cases h
  · cases h
    obtain ⟨x, hx, hs⟩ := copyWithin_append ml off b.content
    exact ⟨x, ⟨hx, rfl, rfl, rfl⟩, hs⟩

/-- `window_suffices`: a match whose offset lies inside the retained part `k` appends the same bytes
whatever was in front of `k` (and never looks at the dictionary or at `totalOut`) -/
theorem DBuf.repeat_drop (b : DBuf) (d k : Array Nat) (off ml : Nat) (h : off ≤ k.size) :
    ({ b with content := d ++ k } : DBuf).repeat off ml
      = .ok { b with content := d ++ copyWithin ml off k, totalOut := b.totalOut + ml } ∧
    ({ b with content := k } : DBuf).repeat off ml
      = .ok { b with content := copyWithin ml off k, totalOut := b.totalOut + ml } := by
  constructor
  · unfold DBuf.repeat
    have : ¬ off > (d ++ k).size := by simp; omega
    simp only [this, if_false, copyWithin_drop ml off d k h]
  · unfold DBuf.repeat
    have : ¬ off > k.size := by omega
    simp only [this, if_false]

end Zstd.Model
