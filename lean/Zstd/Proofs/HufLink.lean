import Zstd.Proofs.HufEnc
import Zstd.Proofs.HufCanon
import Zstd.Proofs.HufStream
/-
The link between the two halves: the code `c_s` that `build_from_weights` gives symbol `s` and the
first table cell that `build_table_from_weights` gives it are the same number in the same unit —
`c_s · 2^(w_s − 1)` = mass of the symbols that sort before `s` by (weight, symbol) = `cellPos`.
Hence the decoder's table decodes the encoder's code (`DecodesCode`).
-/
namespace Zstd.Proofs.Huf
open Zstd Zstd.Model.Huf

/-! ### the entries that sort before a given one -/

/-- strictly before `x` in the order of `build_from_weights` -/
def strictLt (x e : Nat × Nat) : Bool := e.2 < x.2 || (e.2 == x.2 && e.1 < x.1)

theorem strictLt_iff (x e : Nat × Nat) : strictLt x e = true ↔ (entryLe e x = true ∧ e ≠ x) := by
  obtain ⟨a, b⟩ := x
  obtain ⟨c, d⟩ := e
  simp only [strictLt, entryLe, Bool.or_eq_true, Bool.and_eq_true, decide_eq_true_eq, beq_iff_eq, ne_eq,
    Prod.mk.injEq]
  omega

theorem entryLe_antisymm {a b : Nat × Nat} (h1 : entryLe a b = true) (h2 : entryLe b a = true) : a = b := by
  obtain ⟨a1, a2⟩ := a
  obtain ⟨b1, b2⟩ := b
  simp only [entryLe, Bool.or_eq_true, Bool.and_eq_true, decide_eq_true_eq, beq_iff_eq] at h1 h2
  simp only [Prod.mk.injEq]; omega

theorem filter_eq_self_of {α : Type} {p : α → Bool} {l : List α} (h : ∀ a ∈ l, p a = true) : l.filter p = l :=
  List.filter_eq_self.mpr h

theorem filter_eq_nil_of {α : Type} {p : α → Bool} {l : List α} (h : ∀ a ∈ l, p a = false) : l.filter p = [] := by
  rw [List.filter_eq_nil_iff]
  intro a ha; rw [h a ha]; simp

/-- in a sorted list without repetitions the elements before position `idx` are exactly those
strictly less than the element at `idx` -/
theorem sorted_take_eq_filter (S : List (Nat × Nat)) (hs : S.Pairwise (fun a b => entryLe a b = true))
    (hn : S.Pairwise (fun a b => a ≠ b)) (idx : Nat) (x : Nat × Nat) (hx : S[idx]? = some x) :
    S.take idx = S.filter (strictLt x) := by
  have hlt : idx < S.length := by
    rcases Nat.lt_or_ge idx S.length with h | h
    · exact h
    · rw [List.getElem?_eq_none h] at hx; cases hx
  have hxe : S[idx] = x := by rw [List.getElem?_eq_getElem hlt] at hx; simpa using hx
  have hsplit : S = S.take idx ++ x :: S.drop (idx + 1) := by
    rw [← hxe, List.getElem_cons_drop, List.take_append_drop]
  have hs' := hs
  have hn' := hn
  rw [hsplit, List.pairwise_append] at hs' hn'
  obtain ⟨_, hs2, hs3⟩ := hs'
  obtain ⟨_, hn2, hn3⟩ := hn'
  rw [List.pairwise_cons] at hs2 hn2
  conv => rhs; rw [hsplit]
  rw [List.filter_append, List.filter_cons]
  have h1 : (S.take idx).filter (strictLt x) = S.take idx := by
    apply filter_eq_self_of
    intro a ha
    rw [strictLt_iff]
    exact ⟨hs3 a ha x List.mem_cons_self, hn3 a ha x List.mem_cons_self⟩
  have h2 : strictLt x x = false := by
    cases h : strictLt x x with
    | false => rfl
    | true => exact absurd rfl ((strictLt_iff x x).mp h).2
  have h3 : (S.drop (idx + 1)).filter (strictLt x) = [] := by
    apply filter_eq_nil_of
    intro b hb
    cases h : strictLt x b with
    | false => rfl
    | true =>
      obtain ⟨q1, q2⟩ := (strictLt_iff x b).mp h
      exact absurd (entryLe_antisymm q1 (hs2.1 b hb)) q2
  rw [h1, h2, h3]; simp

/-- mass of the symbols that sort before (symbol `s`, weight `w`) -/
def lessMass (w s : Nat) : List Nat → Nat → Nat
  | [], _ => 0
  | x :: xs, k => (if x > 0 ∧ (x < w ∨ (x = w ∧ k < s)) then 2 ^ (x - 1) else 0) + lessMass w s xs (k + 1)

theorem massL_filter_sortEntries (w s : Nat) : ∀ (ws : List Nat) (k : Nat), k + ws.length ≤ 256 →
    massL ((sortEntries ws k).filter (strictLt (s, w))) = lessMass w s ws k
  | [], _, _ => rfl
  | x :: xs, k, h => by
    simp only [List.length_cons] at h
    have ih := massL_filter_sortEntries w s xs (k + 1) (by omega)
    have hk : k % 256 = k := Nat.mod_eq_of_lt (by omega)
    simp only [sortEntries, lessMass]
    by_cases hx : x > 0
    · rw [if_pos hx, List.filter_cons]
      by_cases hc : x < w ∨ (x = w ∧ k < s)
      · have hlt : strictLt (s, w) (k % 256, x) = true := by
          simp only [strictLt, hk, Bool.or_eq_true, Bool.and_eq_true, decide_eq_true_eq, beq_iff_eq]; omega
        simp only [hlt, if_true]
        rw [if_pos ⟨hx, hc⟩, massL, ih]
      · have hlt : strictLt (s, w) (k % 256, x) = false := by
          cases h' : strictLt (s, w) (k % 256, x) with
          | false => rfl
          | true =>
            simp only [strictLt, hk, Bool.or_eq_true, Bool.and_eq_true, decide_eq_true_eq, beq_iff_eq] at h'
            omega
        simp only [hlt, Bool.false_eq_true, if_false]
        rw [if_neg (fun h' => hc h'.2), ih, Nat.zero_add]
    · rw [if_neg hx, if_neg (fun h' => hx h'.1), ih, Nat.zero_add]

/-- mass of the symbols lighter than `w` -/
def lowMass (w : Nat) : List Nat → Nat
  | [] => 0
  | x :: xs => (if x > 0 ∧ x < w then 2 ^ (x - 1) else 0) + lowMass w xs

theorem lessMass_eq (w s : Nat) (hw : 1 ≤ w) : ∀ (ws : List Nat) (k : Nat),
    lessMass w s ws k = lowMass w ws + countBits w (ws.take (s - k)) * 2 ^ (w - 1)
  | [], _ => by simp [lessMass, lowMass, countBits]
  | x :: xs, k => by
    rw [lessMass, lowMass, lessMass_eq w s hw xs (k + 1)]
    by_cases hks : k < s
    · have e : s - k = (s - (k + 1)) + 1 := by omega
      rw [e, List.take_succ_cons, countBits]
      by_cases hxw : x = w
      · subst hxw
        have c1 : x > 0 ∧ (x < x ∨ (x = x ∧ k < s)) := by omega
        have c2 : ¬ (x > 0 ∧ x < x) := by omega
        rw [if_pos c1, if_neg c2, if_pos rfl, Nat.add_mul]; omega
      · rw [if_neg hxw, Nat.zero_add]
        by_cases hlow : x > 0 ∧ x < w
        · rw [if_pos hlow, if_pos ⟨hlow.1, Or.inl hlow.2⟩]; omega
        · rw [if_neg hlow, if_neg (by omega)]; omega
    · have e1 : s - k = 0 := by omega
      have e2 : s - (k + 1) = 0 := by omega
      rw [e1, e2, List.take_zero, List.take_zero]
      simp only [countBits, Nat.zero_mul, Nat.add_zero]
      by_cases hlow : x > 0 ∧ x < w
      · rw [if_pos hlow, if_pos ⟨hlow.1, Or.inl hlow.2⟩]
      · rw [if_neg hlow, if_neg (by omega)]

theorem specOff_cons (x : Nat) (xs : List Nat) : ∀ k,
    specOff (x :: xs) k = specOff xs k + (if 1 ≤ x ∧ x ≤ k then 2 ^ (x - 1) else 0)
  | 0 => by
    have : ¬ (1 ≤ x ∧ x ≤ 0) := by omega
    rw [if_neg this]; rfl
  | k + 1 => by
    rw [specOff, specOff, specOff_cons x xs k, countBits, Nat.add_mul]
    by_cases hx : x = k + 1
    · subst hx
      have c1 : ¬ (1 ≤ k + 1 ∧ k + 1 ≤ k) := by omega
      have c2 : 1 ≤ k + 1 ∧ k + 1 ≤ k + 1 := by omega
      rw [if_neg c1, if_pos c2, if_pos rfl]
      simp only [Nat.add_sub_cancel, Nat.one_mul]; omega
    · rw [if_neg hx, Nat.zero_mul, Nat.zero_add]
      by_cases hc : 1 ≤ x ∧ x ≤ k
      · rw [if_pos hc, if_pos (by omega)]; omega
      · rw [if_neg hc, if_neg (by omega)]; omega

theorem lowMass_eq_specOff (w : Nat) (hw : 1 ≤ w) : ∀ (ws : List Nat), lowMass w ws = specOff ws (w - 1)
  | [] => by
    have : ∀ k, specOff [] k = 0 := by
      intro k; induction k with
      | zero => rfl
      | succ k ih => simp [specOff, ih, countBits]
    simp [lowMass, this]
  | x :: xs => by
    rw [lowMass, specOff_cons, lowMass_eq_specOff w hw xs]
    by_cases hc : x > 0 ∧ x < w
    · rw [if_pos hc, if_pos (by omega)]; omega
    · rw [if_neg hc, if_neg (by omega)]; omega

/-! ### positions of the encoder's codes -/

/-- The code of every used symbol, in the unit of the decoder's table: `c_s · 2^(w_s − 1)` is the mass
of the lighter symbols plus the mass of the equally heavy symbols with a smaller number. -/
theorem buildFromWeights_pos (ws : List Nat) (m : Nat) (hlen : ws.length ≤ 256) (hm : m ≤ 32)
    (hle : ∀ w ∈ ws, w ≤ m) (hk : weightSum ws = 2 ^ m) (t : EncTable) (hb : buildFromWeights ws = .ok t) :
    ∀ (s : Nat) (h : s < ws.length), ws[s] > 0 →
      ∃ c, t.codes[s]? = some (c, m + 1 - ws[s]) ∧
        c * 2 ^ (ws[s] - 1) = specOff ws (ws[s] - 1) + countBits ws[s] (ws.take s) * 2 ^ (ws[s] - 1) := by
  let E := sortEntries ws 0
  let S := stableSort entryLe E
  have hperm : S.Perm E := stableSort_perm entryLe E
  have hmassS : massL S = 2 ^ m := by rw [massL_perm hperm, massL_sortEntries, hk]
  have hmemS : ∀ e ∈ S, ∃ s, s < ws.length ∧ ws[s]? = some e.2 ∧ e.2 > 0 ∧ e.1 = s := by
    intro e he
    obtain ⟨s, h1, h2, h3, h4⟩ := mem_sortEntries (hperm.mem_iff.mp he)
    refine ⟨s, h1, h2, h3, ?_⟩
    rw [h4, Nat.zero_add]; exact Nat.mod_eq_of_lt (by omega)
  have hwS : ∀ e ∈ S, 1 ≤ e.2 ∧ e.2 ≤ m ∧ e.1 < ws.length := by
    intro e he
    obtain ⟨s, h1, h2, h3, h4⟩ := hmemS e he
    refine ⟨h3, ?_, by omega⟩
    have : e.2 ∈ ws := by
      rw [List.getElem?_eq_getElem h1] at h2
      simp only [Option.some.injEq] at h2
      rw [← h2]; exact List.getElem_mem _
    exact hle _ this
  have hsum : massSum S 0 = .ok (2 ^ m) := by
    have := massSum_ok S 0 (fun e he => by have := (hwS e he).2.1; omega)
      (by rw [Nat.zero_add, hmassS]; exact Nat.pow_lt_pow_right (by omega) (by omega))
    rw [this, Nat.zero_add, hmassS]
  have hpow : isPow2 (2 ^ m) = true := by
    rw [isPow2_iff]; exact ⟨by have := Nat.two_pow_pos m; omega, by rw [Nat.log2_two_pow]⟩
  have hsortedLe : S.Pairwise (fun a b => entryLe a b = true) :=
    stableSort_pairwise entryLe entryLe_tot entryLe_trans E
  have hsorted : S.Pairwise (fun a b => a.2 ≤ b.2) := hsortedLe.imp entryLe_weight
  have hnodup : S.Pairwise (fun a b => a.1 ≠ b.1) :=
    (List.Perm.pairwise_iff (fun h => Ne.symm h) hperm).mpr (sortEntries_nodup ws 0 (by omega))
  have hnodup' : S.Pairwise (fun a b => a ≠ b) := hnodup.imp (fun h h' => h (by rw [h']))
  obtain ⟨codes', r1, r2, r3, r4⟩ := assignCodes_spec m hm S 0 0 0 (List.replicate ws.length (0, 0)) hsorted
    (fun e he => by
      obtain ⟨a, b, c⟩ := hwS e he
      exact ⟨Nat.zero_le _, a, b, by simpa using c⟩)
    (fun h => by omega) (fun _ => rfl) (by rw [Nat.zero_mul, Nat.zero_add, hmassS])
  have r4' := r4 hnodup
  simp only [Nat.zero_mul, Nat.zero_add] at r4'
  have hsum' : massSum (stableSort entryLe (sortEntries ws 0)) 0 = .ok (2 ^ m) := hsum
  have r1' : assignCodes m (stableSort entryLe (sortEntries ws 0)) 0 0 0 (List.replicate ws.length (0, 0))
      = .ok codes' := r1
  have hbuild : buildFromWeights ws = .ok { codes := codes' } := by
    unfold buildFromWeights
    simp only [hsum', hpow, Bool.not_true, Bool.false_eq_true, if_false, Nat.log2_two_pow, r1']
  rw [hbuild] at hb
  simp only [Except.ok.injEq] at hb
  subst hb
  intro s h h0
  have hmem : ((0 + s) % 256, ws[s]) ∈ E := sortEntries_mem_of h h0
  rw [Nat.zero_add, Nat.mod_eq_of_lt (by omega)] at hmem
  obtain ⟨idx, hidx⟩ := List.getElem?_of_mem (hperm.mem_iff.mpr hmem)
  obtain ⟨c, q1, q2⟩ := r4' idx _ hidx
  have hwm : ws[s] ≤ m := hle _ (List.getElem_mem _)
  refine ⟨c, ?_, ?_⟩
  · simp only at q1
    rw [q1]; congr 2; omega
  · simp only at q2
    rw [q2, sorted_take_eq_filter S hsortedLe hnodup' idx _ hidx]
    have hp : (S.filter (strictLt (s, ws[s]))).Perm (E.filter (strictLt (s, ws[s]))) := hperm.filter _
    rw [massL_perm hp, massL_filter_sortEntries _ _ ws 0 (by omega), lessMass_eq _ _ (by omega),
      lowMass_eq_specOff _ (by omega)]
    simp

end Zstd.Proofs.Huf
