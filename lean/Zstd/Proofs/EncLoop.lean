import Zstd.Model.FrameCompressor
/-
Helper lemmas for C02 / C15 / C16: the read loop in closed form and an induction principle for the
block loop of `FrameCompressor::compress`.
-/
namespace Zstd.Proofs.Enc
open Zstd Zstd.Model.Enc

/-! ### values extracted from the source, as rewriting lemmas (they break when the source changes) -/
theorem readZeroMeansLast_eq : Gen.readZeroMeansLast = true := rfl
theorem readFullMeansLast_eq : Gen.readFullMeansLast = false := rfl
theorem readFullGuard_eq (a b : Nat) : Gen.readFullGuard a b = decide (a = b) := rfl
theorem hashesInputBlock_eq : Gen.hashesInputBlock = true := rfl

/-- the `'read_loop` in closed form: whatever the fragmentation, the block is the next
`space` bytes (fewer at the end of the data), and `last_block` is set iff the data ran out before
the space was full -/
theorem readLoop_spec (space : Nat) :
    ∀ (fuel : Nat) (acc data : List Byte) (frags : List Nat),
      data.length < fuel → acc.length < space →
      ∃ frags', readLoop fuel space acc data frags =
        some (acc ++ data.take (space - acc.length), decide (data.length < space - acc.length),
              data.drop (space - acc.length), frags') := by
  intro fuel
  induction fuel with
  | zero => intro acc data frags h; omega
  | succ fuel ih =>
    intro acc data frags hfuel hacc
    -- the number of bytes this read delivers
    have hwant : ∃ want, 1 ≤ want ∧ want ≤ space - acc.length ∧
        readOnce data frags (space - acc.length) =
          (data.take (min want data.length), data.drop (min want data.length), frags.tail) := by
      cases frags with
      | nil => exact ⟨space - acc.length, by omega, by omega, rfl⟩
      | cons f fs => exact ⟨min (max f 1) (space - acc.length), by omega, by omega, rfl⟩
    obtain ⟨want, hw1, hw2, hread⟩ := hwant
    obtain ⟨n, hn⟩ : ∃ n, n = min want data.length := ⟨_, rfl⟩
    rw [← hn] at hread
    simp only [readLoop, hread]
    have hlen : (List.take n data).length = n := by simp; omega
    by_cases hd : data.length = 0
    · -- end of data
      have : data = [] := List.eq_nil_of_length_eq_zero hd
      subst this
      refine ⟨frags.tail, ?_⟩
      simp [readZeroMeansLast_eq]
      omega
    · rw [if_neg (by rw [hlen]; omega)]
      simp only [readFullGuard_eq, List.length_append, hlen, readFullMeansLast_eq]
      by_cases hfull : acc.length + n = space
      · -- the space is full
        refine ⟨frags.tail, ?_⟩
        have e : space - acc.length = n := by omega
        rw [e]
        have : ¬ data.length < n := by omega
        simp [hfull, this]
      · simp only [hfull, decide_false]
        have hlt : n < space - acc.length := by omega
        obtain ⟨frags', hrec⟩ := ih (acc ++ data.take n) (data.drop n) frags.tail
          (by simp; omega) (by simp; omega)
        refine ⟨frags', ?_⟩
        simp only [Bool.false_eq_true, ↓reduceIte]
        rw [hrec]
        obtain ⟨m, hm⟩ : ∃ m, m = space - (acc ++ data.take n).length := ⟨_, rfl⟩
        have hk : space - acc.length = n + m := by
          rw [hm, List.length_append, hlen]; omega
        rw [← hm, hk]
        congr 1
        refine Prod.ext ?_ (Prod.ext ?_ (Prod.ext ?_ rfl))
        · simp only [List.append_assoc]
          congr 1
          rw [List.take_add]
        · simp only [List.length_drop, decide_eq_decide]
          omega
        · simp only [List.drop_drop]

/-- one iteration of the block loop, with the read loop replaced by its closed form -/
theorem compressLoop_step {H : Type} (emit : Emit H) (script : Nat → MBlock) (fuel idx : Nat)
    (st : EncState H) (hashed data : List Byte) (frags : List Nat) (hsp : 0 < (script idx).space) :
    ∃ frags',
      compressLoop emit script (fuel + 1) idx st hashed data frags =
        (let space := (script idx).space
         let blk := data.take space
         let last := decide (data.length < space)
         if blk.isEmpty then .ok ⟨blockHeader true Gen.blockTypeRaw 0, hashed ++ blk, st, idx + 1⟩
         else
           match emit last blk (script idx).parse st with
           | .error f => .error f
           | .ok (bytes, st') =>
             if last then .ok ⟨bytes, hashed ++ blk, st', idx + 1⟩
             else
               match compressLoop emit script fuel (idx + 1) st' (hashed ++ blk) (data.drop space) frags' with
               | .error f => .error f
               | .ok r => .ok { r with bytes := bytes ++ r.bytes }) := by
  obtain ⟨frags', h⟩ := readLoop_spec (script idx).space (data.length + 1) [] data frags (by omega) (by simpa using hsp)
  refine ⟨frags', ?_⟩
  simp only [compressLoop, h, hashesInputBlock_eq]
  simp only [List.nil_append, List.length_nil, Nat.sub_zero, ↓reduceIte]
  rfl

/-- Induction principle for the block loop (spaces non-empty, enough fuel): it is enough to consider
(a) no data left: the empty last raw block, (b) a final partial block, (c) a full block followed by
the rest of the loop. -/
theorem compressLoop_induct {H : Type} (emit : Emit H) (script : Nat → MBlock)
    (hspace : ∀ i, 0 < (script i).space)
    (P : Nat → EncState H → List Byte → List Byte → LoopOut H → Prop)
    (hempty : ∀ idx st hashed,
      P idx st hashed [] ⟨blockHeader true Gen.blockTypeRaw 0, hashed, st, idx + 1⟩)
    (hlast : ∀ idx st hashed data bytes st', data ≠ [] → data.length < (script idx).space →
      emit true data (script idx).parse st = .ok (bytes, st') →
      P idx st hashed data ⟨bytes, hashed ++ data, st', idx + 1⟩)
    (hstep : ∀ idx st hashed data bytes st' r, (script idx).space ≤ data.length →
      emit false (data.take (script idx).space) (script idx).parse st = .ok (bytes, st') →
      P (idx + 1) st' (hashed ++ data.take (script idx).space) (data.drop (script idx).space) r →
      P idx st hashed data { r with bytes := bytes ++ r.bytes }) :
    ∀ fuel idx st hashed data frags r, data.length < fuel →
      compressLoop emit script fuel idx st hashed data frags = .ok r → P idx st hashed data r := by
  intro fuel
  induction fuel with
  | zero => intro idx st hashed data frags r h; omega
  | succ fuel ih =>
    intro idx st hashed data frags r hfuel hrun
    obtain ⟨frags', hs⟩ := compressLoop_step emit script fuel idx st hashed data frags (hspace idx)
    rw [hs] at hrun
    simp only at hrun
    have hsp := hspace idx
    by_cases hd : data = []
    · subst hd
      simp at hrun
      subst hrun
      simpa using hempty idx st hashed
    · have hne : (data.take (script idx).space).isEmpty = false := by
        cases data with
        | nil => exact absurd rfl hd
        | cons a as =>
          cases hspc : (script idx).space with
          | zero => omega
          | succ n => simp
      rw [hne] at hrun
      simp only [Bool.false_eq_true, ↓reduceIte] at hrun
      by_cases hl : data.length < (script idx).space
      · have htake : data.take (script idx).space = data := List.take_of_length_le (by omega)
        simp only [hl, decide_true, htake] at hrun
        split at hrun
        · cases hrun
        · rename_i bytes st' hem
          simp only [↓reduceIte, Except.ok.injEq] at hrun
          subst hrun
          exact hlast idx st hashed data bytes st' hd hl hem
      · simp only [hl, decide_false] at hrun
        split at hrun
        · cases hrun
        · rename_i bytes st' hem
          simp only [Bool.false_eq_true, ↓reduceIte] at hrun
          split at hrun
          · cases hrun
          · rename_i r' hrec
            simp only [Except.ok.injEq] at hrun
            subst hrun
            have hlen : (data.drop (script idx).space).length < fuel := by
              simp; omega
            exact hstep idx st hashed data bytes st' r' (by omega) hem
              (ih (idx + 1) st' _ _ frags' r' hlen hrec)

/-- with enough fuel, a fault of the block loop is a fault of the per-block emitter
(in particular it is never the model's out-of-fuel marker) -/
theorem compressLoop_error {H : Type} (emit : Emit H) (script : Nat → MBlock)
    (hspace : ∀ i, 0 < (script i).space) :
    ∀ fuel idx st hashed data frags f, data.length < fuel →
      compressLoop emit script fuel idx st hashed data frags = .error f →
      ∃ last blk i st0, blk ≠ [] ∧ blk.length ≤ (script i).space ∧ emit last blk (script i).parse st0 = .error f := by
  intro fuel
  induction fuel with
  | zero => intro idx st hashed data frags f h; omega
  | succ fuel ih =>
    intro idx st hashed data frags f hfuel hrun
    obtain ⟨frags', hs⟩ := compressLoop_step emit script fuel idx st hashed data frags (hspace idx)
    rw [hs] at hrun
    simp only at hrun
    have hsp := hspace idx
    split at hrun
    · cases hrun
    · rename_i hne
      have hblk : data.take (script idx).space ≠ [] := by
        intro h; rw [h] at hne; simp at hne
      split at hrun
      · rename_i f' hem
        cases hrun
        exact ⟨_, _, idx, st, hblk, List.length_take_le _ _, hem⟩
      · rename_i bytes st' hem
        split at hrun
        · cases hrun
        · rename_i hl
          split at hrun
          · rename_i f' hrec
            cases hrun
            have hge : (script idx).space ≤ data.length := by
              simp at hl; exact hl
            exact ih (idx + 1) st' _ _ frags' f (by simp; omega) hrec
          · cases hrun

end Zstd.Proofs.Enc
