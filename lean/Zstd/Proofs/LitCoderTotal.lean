import Zstd.Proofs.LitCoderContract
/-
C02 / C16, literal coder, part 7: TOTALITY of the real `compress_literals` on what `compress_block`
can hand it from a reachable encoder state.

`compress_literals` is NOT total on arbitrary arguments of the model's types (see
`Props.C16.lit_coder_total_unrestricted_false`): the model's bytes are `Nat`s (a literal ≥ 256 has no
code), and a remembered table is an arbitrary code list (a garbage table faults in the bit writer).
What is true, and what the frame-level theorems need:

  for byte strings (`< 256`) of 1 … 128 Ki literals, from a remembered table that is canonical
  (`GoodTable`: it came out of `build_from_data`), `compress_literals` returns, and the table it
  returns is canonical again —

provided `write_table` does not hit `assert!(encoded_len < 128)` on the new table (`FseWeightsLt128`; by
`C13.fse_weights_lt_128_canon_partial` that assert is the ONLY reachable panic site).  `FseWeightsLt128` is an
instance of `C13.fse_weights_lt_128_full` (`fseWeightsLt128_of_full`), which C13 proves
(`fse_weights_lt_128_full_holds`); the `_or_assert` theorems below do not use it.
-/
namespace Zstd.Proofs.LitCoder
open Zstd Zstd.Model Zstd.Model.Huf Zstd.Model.Enc Zstd.Proofs.Huf Zstd.Proofs.Enc

/-- a table as `build_from_data` returns it -/
def GoodTable (t : EncTable) : Prop := ∃ wd m, CanonTable t wd m

/-- C13's `fse_weights_lt_128` in the form used here: `write_table` succeeds on every table `build_from_data`
returns for a byte string (instance of `C13.fse_weights_lt_128_full`, see `fseWeightsLt128_of_full`) -/
def FseWeightsLt128 : Prop :=
  ∀ (lits : List Nat) (t : EncTable), (∀ b ∈ lits, b < 256) → buildFromData lits = .ok t →
    ∃ desc, writeTable Enc.fseWeights t = .ok desc

theorem fseWeightsLt128_of_full (h : Zstd.Props.C13.fse_weights_lt_128_full) : FseWeightsLt128 := by
  intro lits t _ hb
  exact h (countsOf lits) t (buildFromCounts_two hb).1 hb

/-! ### `can_encode` -/

theorem canEncodeLoop_some : ∀ (os ss : List (Nat × Nat)) (sum r : Nat), canEncodeLoop os ss sum = some r →
    ∀ i (h : i < os.length) (h' : i < ss.length), os[i].2 ≠ 0 → ss[i].2 ≠ 0
  | [], _, _, _, _ => by intro i h; simp at h
  | _ :: _, [], _, _, _ => by intro i _ h'; simp at h'
  | (a, o) :: os, (b, s) :: ss, sum, r, hr => by
    simp only [canEncodeLoop] at hr
    by_cases hc : o ≠ 0 ∧ s = 0
    · rw [if_pos hc] at hr; cases hr
    · rw [if_neg hc] at hr
      intro i h h' hne
      cases i with
      | zero =>
        simp only [List.getElem_cons_zero] at hne ⊢
        intro h0; exact hc ⟨hne, h0⟩
      | succ i =>
        simp only [List.getElem_cons_succ] at hne ⊢
        exact canEncodeLoop_some os ss _ r hr i (by simpa using h) (by simpa using h') hne

/-- `can_encode` says yes only if every symbol that has a code in `other` has one in `self` -/
theorem canEncode_some {self other : EncTable} {diff : Nat} (h : canEncode self other = some diff) :
    ∀ i (hi : i < other.codes.length), other.codes[i].2 ≠ 0 →
      ∃ h' : i < self.codes.length, self.codes[i].2 ≠ 0 := by
  unfold canEncode at h
  by_cases hl : other.codes.length > self.codes.length
  · rw [if_pos hl] at h; cases h
  · rw [if_neg hl] at h
    intro i hi hne
    have h' : i < self.codes.length := by omega
    exact ⟨h', canEncodeLoop_some _ _ _ _ h i hi h' hne⟩

/-- … hence every string the new table encodes, the old (canonical) table encodes as well -/
theorem encodable_of_canEncode {tp newT : EncTable} {wd wd' : List Nat} {m m' diff : Nat}
    (c : CanonTable newT wd m) (c' : CanonTable tp wd' m') (h : canEncode tp newT = some diff)
    {lits : List Nat} (he : Encodable wd lits) : Encodable wd' lits := by
  intro s hs
  obtain ⟨hs1, hw⟩ := he s hs
  have ok := c.codesOk
  have ok' := c'.codesOk
  have hsc : s < newT.codes.length := by rw [ok.len]; exact hs1
  obtain ⟨_, q⟩ := c.code s newT.codes[s] (List.getElem?_eq_getElem hsc)
  have hwm := c.le wd[s] (List.getElem_mem _)
  have hne : newT.codes[s].2 ≠ 0 := by rw [q, if_neg (by omega)]; omega
  obtain ⟨hs2, hne'⟩ := canEncode_some h s hsc hne
  obtain ⟨hs3, q'⟩ := c'.code s tp.codes[s] (List.getElem?_eq_getElem hs2)
  refine ⟨hs3, ?_⟩
  apply Classical.byContradiction
  intro h0
  rw [q', if_pos (by omega)] at hne'
  exact hne' rfl

/-- the table choice, with the `can_encode` fact kept -/
theorem compressLiteralsReal_cases' (first : Byte) (tl : List Byte) (prev : Option EncTable) (newT : EncTable)
    (hall : (first :: tl).all (fun x => x == first) = false)
    (hb : buildFromData (first :: tl) = .ok newT) :
    compressLiteralsReal (first :: tl) prev = litTail (first :: tl) newT newT true ∨
      ∃ tp diff, prev = some tp ∧ canEncode tp newT = some diff ∧
        compressLiteralsReal (first :: tl) prev = litTail (first :: tl) newT tp false := by
  cases prev with
  | none =>
    left
    simp only [compressLiteralsReal, hall, Bool.false_eq_true, if_false, hb]
    rfl
  | some tp =>
    cases hcan : canEncode tp newT with
    | none =>
      left
      simp only [compressLiteralsReal, hall, Bool.false_eq_true, if_false, hb, hcan]
      rfl
    | some diff =>
      by_cases hg : Gen.treelessDiffGuard diff Gen.treelessDiffK = true
      · left
        simp only [compressLiteralsReal, hall, Bool.false_eq_true, if_false, hb, hcan, hg, if_true]
        rfl
      · right
        refine ⟨tp, diff, rfl, hcan, ?_⟩
        simp only [compressLiteralsReal, hall, Bool.false_eq_true, if_false, hb, hcan, hg]
        rfl

/-! ### totality after the table choice -/

theorem litSizeFormat_ok (n : Nat) (h : n ≤ 131072) : ∃ sf sb, litSizeFormat n = .ok (sf, sb) := by
  simp only [litSizeFormat, Gen.litSizeFormatArms, List.find?]
  by_cases h1 : n < 6
  · exact ⟨0, 10, by simp [h1]⟩
  · by_cases h2 : n < 1024
    · have a1 : 6 ≤ n := by omega
      exact ⟨1, 10, by simp [h1, h2, a1]⟩
    · by_cases h3 : n < 16384
      · have a1 : 6 ≤ n := by omega
        have a2 : 1024 ≤ n := by omega
        exact ⟨2, 14, by simp [h1, h2, h3, a1, a2]⟩
      · have a1 : 6 ≤ n := by omega
        have a2 : 1024 ≤ n := by omega
        have a3 : 16384 ≤ n := by omega
        have a4 : n < 262144 := by omega
        exact ⟨3, 18, by simp [h1, h2, h3, a1, a2, a3, a4]⟩

/-- `compress_literals` after the table choice does not panic: canonical table, encodable literals,
at most 128 Ki of them, and (if the table is new) a description that `write_table` can write -/
theorem litTail_total (lits : List Byte) (newT table : EncTable) (newTable : Bool) {wd : List Nat} {m : Nat}
    (c : CanonTable table wd m) (henc : Encodable wd lits) (hmax : lits.length ≤ 131072)
    (hwt : newTable = true → ∃ desc, writeTable fseWeights table = .ok desc) :
    ∃ bytes tret, litTail lits newT table newTable = .ok (bytes, tret) ∧ (tret = none ∨ tret = some newT) := by
  obtain ⟨sf, sb, hf⟩ := litSizeFormat_ok lits.length hmax
  obtain ⟨_, _, hsf0, _⟩ := litSizeFormat_arm hf
  have hdesc : ∃ desc, (if newTable then writeTable fseWeights table else .ok []) = .ok desc := by
    cases newTable with
    | true => obtain ⟨d, hd⟩ := hwt rfl; exact ⟨d, by simpa using hd⟩
    | false => exact ⟨[], rfl⟩
  obtain ⟨desc, hdesc⟩ := hdesc
  have hencoded : ∃ encoded, (if sf = 0 then Huf.encode fseWeights table lits newTable
      else Huf.encode4x fseWeights table lits newTable) = .ok encoded := by
    by_cases h0 : sf = 0
    · rw [if_pos h0]
      obtain ⟨stream, hs⟩ := encodeStream_ok c lits henc
      exact ⟨desc ++ stream, by simp only [encode, hdesc, hs]⟩
    · rw [if_neg h0]
      have h6 : 6 ≤ lits.length := by
        rcases Nat.lt_or_ge lits.length 6 with hlt | hge
        · exact absurd (hsf0.mpr hlt) h0
        · exact hge
      obtain ⟨s1, h1⟩ := encodeStream_ok c _ (henc.take ((lits.length + 3) / 4))
      obtain ⟨s2, h2⟩ := encodeStream_ok c _ ((henc.drop ((lits.length + 3) / 4)).take ((lits.length + 3) / 4))
      obtain ⟨s3, h3⟩ := encodeStream_ok c _ ((henc.drop ((lits.length + 3) / 4 * 2)).take ((lits.length + 3) / 4))
      obtain ⟨s4, h4⟩ := encodeStream_ok c _ (henc.drop ((lits.length + 3) / 4 * 3))
      have b1 := encodeStream_length_le c h1
      have b2 := encodeStream_length_le c h2
      have b3 := encodeStream_length_le c h3
      simp only [List.length_take, List.length_drop] at b1 b2 b3
      exact ⟨desc ++ body4 s1 s2 s3 s4,
        encode4x_eq fseWeights table lits newTable desc s1 s2 s3 s4 (by omega) (by omega) hdesc h1 h2 h3 h4
          (by omega) (by omega) (by omega)⟩
  obtain ⟨encoded, hencoded⟩ := hencoded
  unfold litTail
  rw [hf]
  simp only
  rw [hencoded]
  simp only
  by_cases hg : Gen.litRawFallbackGuard ((4 + 2 * sb) / 8 + encoded.length) lits.length = true
  · rw [if_pos hg]
    obtain ⟨hdr, hraw, _⟩ := rawLiterals_decodes lits [] none (by omega)
    rw [hraw]
    exact ⟨_, none, rfl, Or.inl rfl⟩
  · rw [if_neg hg]
    refine ⟨_, _, rfl, ?_⟩
    cases newTable with
    | true => right; rfl
    | false => left; rfl

/-! ### totality of `compress_literals` -/

theorem exists_ne_of_not_all {first : Nat} {l : List Nat} (h : l.all (fun x => x == first) = false) :
    ∃ x ∈ l, x ≠ first := by
  have : ¬ (l.all (fun x => x == first) = true) := by rw [h]; decide
  rw [List.all_eq_true] at this
  apply Classical.byContradiction
  intro hn
  apply this
  intro x hx
  have : ¬ x ≠ first := fun hne => hn ⟨x, hx, hne⟩
  simpa using this

/-- **`compress_literals` does not panic** on a byte string of 1 … 128 Ki literals from a canonical
remembered table (or none), given `FseWeightsLt128`; the table it returns is canonical again. -/
theorem compressLiterals_total (hW : FseWeightsLt128) (lits : List Byte) (prev : Option EncTable)
    (hb : ∀ b ∈ lits, b < 256) (h1 : 1 ≤ lits.length) (hmax : lits.length ≤ 131072)
    (hprev : ∀ tp, prev = some tp → GoodTable tp) :
    ∃ bytes t, compressLiteralsReal lits prev = .ok (bytes, t) ∧ (∀ h, t = some h → GoodTable h) := by
  cases lits with
  | nil => simp at h1
  | cons first tl =>
    by_cases hall : (first :: tl).all (fun x => x == first) = true
    · obtain ⟨bytes, h, _⟩ := compressLiterals_single_value first tl prev hall (by omega) [] none
      exact ⟨bytes, none, h, fun h hh => by cases hh⟩
    · have hall' : (first :: tl).all (fun x => x == first) = false := by simpa using hall
      obtain ⟨x, hx, hne⟩ := exists_ne_of_not_all hall'
      obtain ⟨newT, hbuild⟩ := buildFromData_total hb (a := first) (b := x) List.mem_cons_self hx (Ne.symm hne)
      obtain ⟨wd, m, c, henc⟩ := buildFromData_canon hb hbuild
      rcases compressLiteralsReal_cases' first tl prev newT hall' hbuild with hcase | ⟨tp, diff, rfl, hcan, hcase⟩
      · obtain ⟨bytes, tret, ht, hres⟩ := litTail_total (first :: tl) newT newT true c henc hmax
          (fun _ => hW _ newT hb hbuild)
        refine ⟨bytes, tret, by rw [hcase]; exact ht, ?_⟩
        intro h hh
        rcases hres with rfl | rfl
        · cases hh
        · simp only [Option.some.injEq] at hh; subst hh; exact ⟨wd, m, c⟩
      · obtain ⟨wd', m', c'⟩ := hprev tp rfl
        have henc' := encodable_of_canEncode c c' hcan henc
        obtain ⟨bytes, tret, ht, hres⟩ := litTail_total (first :: tl) newT tp false c' henc' hmax
          (fun h => by cases h)
        refine ⟨bytes, tret, by rw [hcase]; exact ht, ?_⟩
        intro h hh
        rcases hres with rfl | rfl
        · cases hh
        · simp only [Option.some.injEq] at hh; subst hh; exact ⟨wd, m, c⟩

/-- the RLE branch for `n + 1` copies of one value, with `n` a variable (so that nothing tries to evaluate
the list when `n` is huge) -/
theorem rle_branch (b : Byte) (n : Nat) (prev : Option EncTable) :
    compressLiteralsReal (List.replicate (n + 1) b) prev =
      match rleLiterals b (n + 1) with
      | .error f => .error f
      | .ok bytes => .ok (bytes, none) := by
  have hall : (b :: List.replicate n b).all (fun x => x == b) = true := by
    rw [List.all_eq_true]
    intro x hx
    rcases List.mem_cons.mp hx with rfl | hx
    · simp
    · rw [List.eq_of_mem_replicate hx]; simp
  rw [List.replicate_succ]
  simp only [compressLiteralsReal, hall, if_true, List.length_cons, List.length_replicate]
  cases rleLiterals b (n + 1) <;> rfl

/-! ### without the obligation: the only panic is the `assert!` of `write_table` -/

/-- the fault `write_table` raises when the FSE-compressed weights need 128 bytes or more, together with a
witness: a byte string whose `build_from_data` table makes `write_table` raise it -/
def WriteTableAssert (f : Fault) : Prop :=
  f = .assert "huff0_encoder.rs:write_table:encoded_len<128" ∧
    ∃ (lits : List Nat) (t : EncTable), (∀ b ∈ lits, b < 256) ∧ buildFromData lits = .ok t ∧
      writeTable Enc.fseWeights t = .error f

theorem not_writeTableAssert (hW : FseWeightsLt128) (f : Fault) : ¬ WriteTableAssert f := by
  rintro ⟨_, lits, t, hb, hbuild, herr⟩
  obtain ⟨desc, hd⟩ := hW lits t hb hbuild
  rw [hd] at herr; cases herr

/-- a panic of `write_table` is the panic of `compress_literals` (it is the first thing that can fail
once the size format is known) -/
theorem litTail_error_of_writeTable (lits : List Byte) (newT table : EncTable) (f : Fault)
    (h1 : 1 ≤ lits.length) (hmax : lits.length ≤ 131072) (hwt : writeTable fseWeights table = .error f) :
    litTail lits newT table true = .error f := by
  obtain ⟨sf, sb, hf⟩ := litSizeFormat_ok lits.length hmax
  obtain ⟨_, _, hsf0, _⟩ := litSizeFormat_arm hf
  unfold litTail
  rw [hf]
  simp only
  by_cases h0 : sf = 0
  · simp only [h0, if_true, encode, hwt]
  · have h6 : 6 ≤ lits.length := by
      rcases Nat.lt_or_ge lits.length 6 with hlt | hge
      · exact absurd (hsf0.mpr hlt) h0
      · exact hge
    have hok : Gen.hufEnc4LenOk lits.length Gen.hufEnc4MinLen = true := by
      simp only [Gen.hufEnc4LenOk, Gen.hufEnc4MinLen]; exact decide_eq_true (by omega)
    have hsplit : (lits.length + Gen.hufSplitDiv - 1) / Gen.hufSplitDiv = (lits.length + 3) / 4 := by
      simp only [Gen.hufSplitDiv]; omega
    simp only [h0, if_false, encode4x, hok, Bool.not_true, Bool.false_eq_true, hsplit, if_true, hwt]
    rw [if_neg (by omega)]

/-- **`compress_literals` either returns or panics at the `assert!` of `write_table`** — unconditionally,
on byte strings of 1 … 128 Ki literals from a canonical remembered table -/
theorem compressLiterals_total_or_assert (lits : List Byte) (prev : Option EncTable)
    (hb : ∀ b ∈ lits, b < 256) (h1 : 1 ≤ lits.length) (hmax : lits.length ≤ 131072)
    (hprev : ∀ tp, prev = some tp → GoodTable tp) :
    (∃ bytes t, compressLiteralsReal lits prev = .ok (bytes, t) ∧ (∀ h, t = some h → GoodTable h)) ∨
      (∃ f, compressLiteralsReal lits prev = .error f ∧ WriteTableAssert f) := by
  cases lits with
  | nil => simp at h1
  | cons first tl =>
    by_cases hall : (first :: tl).all (fun x => x == first) = true
    · left
      obtain ⟨bytes, h, _⟩ := compressLiterals_single_value first tl prev hall (by omega) [] none
      exact ⟨bytes, none, h, fun h hh => by cases hh⟩
    · have hall' : (first :: tl).all (fun x => x == first) = false := by simpa using hall
      obtain ⟨x, hx, hne⟩ := exists_ne_of_not_all hall'
      obtain ⟨newT, hbuild⟩ := buildFromData_total hb (a := first) (b := x) List.mem_cons_self hx (Ne.symm hne)
      obtain ⟨wd, m, c, henc⟩ := buildFromData_canon hb hbuild
      rcases compressLiteralsReal_cases' first tl prev newT hall' hbuild with hcase | ⟨tp, diff, rfl, hcan, hcase⟩
      · rcases Zstd.Props.C13.fse_weights_lt_128_canon_partial c with ⟨desc, hdesc⟩ | ⟨_, _, _, hass⟩
        · left
          obtain ⟨bytes, tret, ht, hres⟩ := litTail_total (first :: tl) newT newT true c henc hmax
            (fun _ => ⟨desc, hdesc⟩)
          refine ⟨bytes, tret, by rw [hcase]; exact ht, ?_⟩
          intro h hh
          rcases hres with rfl | rfl
          · cases hh
          · simp only [Option.some.injEq] at hh; subst hh; exact ⟨wd, m, c⟩
        · right
          refine ⟨_, ?_, rfl, first :: tl, newT, hb, hbuild, hass⟩
          rw [hcase]
          exact litTail_error_of_writeTable _ newT newT _ h1 hmax hass
      · left
        obtain ⟨wd', m', c'⟩ := hprev tp rfl
        have henc' := encodable_of_canEncode c c' hcan henc
        obtain ⟨bytes, tret, ht, hres⟩ := litTail_total (first :: tl) newT tp false c' henc' hmax
          (fun h => by cases h)
        refine ⟨bytes, tret, by rw [hcase]; exact ht, ?_⟩
        intro h hh
        rcases hres with rfl | rfl
        · cases hh
        · simp only [Option.some.injEq] at hh; subst hh; exact ⟨wd, m, c⟩

end Zstd.Proofs.LitCoder
