import Zstd.Proofs.SeqBlock
import Zstd.Proofs.EncLoop
import Zstd.Proofs.EncRoundtrip
/-
Frame level, with the sequences half of the block encoder discharged: `compress` with ANY
well-behaved matcher (window + 3 < 2^32) completes and the strict Spec decodes the frame to the input,
given exactly two facts about the LITERAL coder (C13): its contract `LitCoderCorrect` and its totality
on what `compress_block` hands it (more than 1024 and at most 128 Ki literals).

`compressLoop_error_at` strengthens `Proofs.Enc.compressLoop_error`: the block on which the emitter
failed is the block of the data at that script index (so that the matcher's promise about THAT block
can be used to show totality).
-/
namespace Zstd.Proofs.SeqFrame
open Zstd Zstd.Spec Zstd.Model Zstd.Model.Enc Zstd.Proofs.Enc Zstd.Proofs.SeqBlock Zstd.Proofs.SeqSection
open Zstd.Proofs.SeqExec

/-- the block of `orig` at script index `i` -/
def blockAt (script : Nat → MBlock) (orig : List Byte) (i : Nat) : List Byte :=
  (orig.drop (blockStart script i)).take (script i).space

theorem compressLoop_error_at {H : Type} (emit : Emit H) (script : Nat → MBlock)
    (hspace : ∀ i, 0 < (script i).space) (orig : List Byte) :
    ∀ fuel idx st hashed data frags f, data.length < fuel → data = orig.drop (blockStart script idx) →
      compressLoop emit script fuel idx st hashed data frags = .error f →
      ∃ last i st0, blockAt script orig i ≠ [] ∧ emit last (blockAt script orig i) (script i).parse st0 = .error f := by
  intro fuel
  induction fuel with
  | zero => intro idx st hashed data frags f h; omega
  | succ fuel ih =>
    intro idx st hashed data frags f hfuel hdata hrun
    obtain ⟨frags', hs⟩ := compressLoop_step emit script fuel idx st hashed data frags (hspace idx)
    rw [hs] at hrun
    simp only at hrun
    split at hrun
    · cases hrun
    · rename_i hne
      have hblk : data.take (script idx).space ≠ [] := by
        intro h; rw [h] at hne; simp at hne
      split at hrun
      · rename_i f' hem
        cases hrun
        refine ⟨decide (data.length < (script idx).space), idx, st, ?_, ?_⟩
        · unfold blockAt; rw [← hdata]; exact hblk
        · unfold blockAt; rw [← hdata]; exact hem
      · rename_i bytes st' hem
        split at hrun
        · cases hrun
        · rename_i hl
          split at hrun
          · rename_i f' hrec
            cases hrun
            have hge : (script idx).space ≤ data.length := by
              simp at hl; exact hl
            have hsp := hspace idx
            exact ih (idx + 1) st' _ _ frags' f (by simp; omega)
              (by rw [hdata, List.drop_drop, blockStart, Nat.add_comm]) hrec
          · cases hrun

theorem frameResetsMatcher_eq' : Gen.frameResetsMatcher = true := rfl

/-- `compress` does not panic when the per-block emitter does not panic ON THE BLOCKS OF THE DATA -/
theorem compressFrame_no_fault_at {H : Type} (hash : Bool) (enc : BlockEnc H) (c : Compressor H) (w : Nat)
    (script : Nat → MBlock) (data : List Byte) (frags : List Nat)
    (hw : w ≤ 2 ^ 41) (hspace : ∀ i, 0 < (script i).space)
    (htotal : ∀ last i st, blockAt script data i ≠ [] →
      ∃ r, emitBlock c.level enc last (blockAt script data i) (script i).parse st = .ok r) :
    ∃ frame c', compressFrame hash enc c w script data frags = .ok (frame, c') := by
  obtain ⟨e, _, _, hwd, _, _⟩ := headerDescriptor_spec w hw
  unfold compressFrame
  simp only [frameHeader, hwd, frameResetsMatcher_eq', if_true]
  split
  · rename_i f hloop
    obtain ⟨last, i, st0, hne, herr⟩ :=
      compressLoop_error_at (emitBlock c.level enc) script hspace data _ _ _ _ _ _ f (by omega)
        (by simp [blockStart]) hloop
    obtain ⟨r, hr⟩ := htotal last i st0 hne
    rw [hr] at herr; cases herr
  · exact ⟨_, _, rfl⟩

/-- `compress_block` over the real sequence coder is total on valid parses when the literal coder is
total on what it is handed -/
theorem compressBlock_total {H : Type} (cd : Coders H) (hseq : cd.encodeSeqSection = encodeSeqSectionReal)
    (hlit : ∀ lits prev, 1024 < lits.length → lits.length ≤ 131072 → ∃ r, cd.compressLiterals lits prev = .ok r)
    (w : Nat) (hw32 : w + 3 < 2 ^ 32) (pre blk : List Byte) (p : Parse) (st : EncState H)
    (hv : validParse w pre blk p = true) (hblk : blk.length ≤ 131072) :
    ∃ r, compressBlock cd p st = .ok r := by
  obtain ⟨hcount, hall⟩ := codes_in_range w pre blk p hv hblk (Or.inl hw32)
  obtain ⟨seqs, tail⟩ := p
  obtain ⟨hspan, hbounds, _, hlits⟩ := validParse_bounds w pre blk seqs tail hv
  have hr : mapMExcept toRSeq seqs = .ok (seqs.map rOfM) :=
    mapMExcept_eq_map toRSeq rOfM seqs (fun s hs => (hall s hs).1)
  -- the literals step
  have hlitstep : ∃ r, litStep cd (parseLiterals ⟨seqs, tail⟩) st = .ok r := by
    simp only [litStep]
    split
    · rename_i hg
      have h1024 : 1024 < (parseLiterals ⟨seqs, tail⟩).length := by
        simpa [litHuffGuard_eq, litHuffThreshold_eq] using hg
      obtain ⟨⟨bytes, t⟩, hc⟩ := hlit (parseLiterals ⟨seqs, tail⟩) st.lastHuff h1024 (by omega)
      rw [hc]
      cases t <;> exact ⟨_, rfl⟩
    · obtain ⟨hdr, hraw, _⟩ := rawLiterals_decodes (parseLiterals ⟨seqs, tail⟩) [] none (by omega)
      rw [hraw]; exact ⟨_, rfl⟩
  obtain ⟨⟨litBytes, st1⟩, hls⟩ := hlitstep
  unfold compressBlock
  simp only [hr, hls]
  split
  · exact ⟨_, rfl⟩
  · rename_i hne
    have hne' : seqs.map rOfM ≠ [] := by
      intro h; rw [h] at hne; simp at hne
    have hin : ∀ r ∈ seqs.map rOfM, InRange r := by
      intro r hrm
      obtain ⟨s, hs, rfl⟩ := List.mem_map.mp hrm
      obtain ⟨h3, ho1, how, _, hlm⟩ := hbounds s hs
      simp only [InRange, rOfM]
      omega
    obtain ⟨lls, mls, ofs, cnt, body, LL, OF, ML, h1, h2, h3, hc, hbody, _, _⟩ :=
      encode_decode_sequences (seqs.map rOfM) hne' (by simp only [List.length_map]; omega) hin {}
    simp only [hc, h1, h2, h3, hseq, hbody]
    exact ⟨_, rfl⟩

/-- **C16 (and C02 through the built-in matcher's validity, C17) reduced to the literal coder.**
For every well-behaved matcher with `window_size() + 3 < 2^32`, every block encoder
`compress_block` over a literal coder that (1) satisfies its contract `LitCoderCorrect` and (2) does
not panic on more than 1024 and at most 128 Ki literals, and the REAL sequence coder: compression at
`Fastest` completes and the strict Spec decodes the frame to exactly the input. -/
theorem compress_with_matcher_correct_of_litCoder {H : Type} (R : H → Spec.Huffman.Table → Prop)
    (cd : Coders H) (hcd : LitCoderCorrect R cd) (hseq : cd.encodeSeqSection = encodeSeqSectionReal)
    (hlit : ∀ lits prev, 1024 < lits.length → lits.length ≤ 131072 → ∃ r, cd.compressLiterals lits prev = .ok r)
    (hash : Bool) (c : Compressor H) (hc : c.level = .fastest) (w : Nat) (script : Nat → MBlock)
    (data : List Byte) (frags : List Nat) (hm : ValidMatcher w script data) (hw32 : w + 3 < 2 ^ 32) :
    ∃ frame c', compressFrame hash (compressBlock cd) c w script data frags = .ok (frame, c') ∧
      Spec.decodeFrame frame = some (specResult hash w data frame) := by
  have henc : BlockEncCorrect R w (declaredWindow w) (compressBlock cd) :=
    blockEncCorrect_of_litCoder R cd hcd hseq w (declaredWindow w) (le_declaredWindow w hm.window_le) hw32
  obtain ⟨frame, c', hrun⟩ := compressFrame_no_fault_at hash (compressBlock cd) c w script data frags
    hm.window_le hm.space_pos (by
      intro last i st hne
      rw [hc]
      simp only [emitBlock, compressFastest]
      generalize hb : blockAt script data i = blk at hne
      cases blk with
      | nil => exact absurd rfl hne
      | cons b t =>
        simp only
        split
        · exact ⟨_, rfl⟩
        · rename_i hnc
          have hconst : isConstant (b :: t) = false := by
            rw [isConstant_cons]; simpa using hnc
          have hv := hm.parse_ok i
          simp only at hv
          unfold blockAt at hb
          rw [hb] at hv
          have hlen : (b :: t).length ≤ 131072 := by
            rw [← hb]
            have := hm.space_le i
            rw [maxBlockSize_eq] at this
            exact Nat.le_trans (List.length_take_le _ _) this
          obtain ⟨⟨bytes, st1⟩, hr⟩ := compressBlock_total cd hseq hlit w hw32 _ _ _ st (hv hconst) hlen
          rw [hr]
          simp only
          split <;> exact ⟨_, rfl⟩)
  refine ⟨frame, c', hrun, ?_⟩
  apply compressFrame_decodes hash (compressBlock cd) c w script data frags (Tracks R)
    (FastPre w (declaredWindow w)) hm.window_le hm.space_pos
    (by rw [hc]; exact emit_fastest_decodes R w _ (compressBlock cd) henc) (fun st => tracks_none R st {}) _ frame c' hrun
  intro i _
  exact ⟨by rw [min_declared_block w hm.window_le]; exact Nat.le_trans (List.length_take_le _ _) (hm.space_le i),
    hm.parse_ok i⟩

end Zstd.Proofs.SeqFrame
