import Zstd.Spec.Io
/- helper lemmas for C18: the model with the arms of `Cfg.std` equals the Spec, for every script -/
namespace Zstd.Proofs.Io
open Zstd Zstd.Model.Io

@[simp] theorem std1 : Cfg.std.readExactZeroBreaks = true := rfl
@[simp] theorem std2 : Cfg.std.readExactRetriesInterrupted = true := rfl
@[simp] theorem std3 : Cfg.std.readExactReturnsOtherErrors = true := rfl
@[simp] theorem std4 : Cfg.std.readExactEofIsUnexpectedEof = true := rfl
@[simp] theorem std5 : Cfg.std.readToEndChunk = 16384 := rfl
@[simp] theorem std6 : Cfg.std.readToEndPropagatesEveryError = true := rfl
@[simp] theorem std7 : Cfg.std.readToEndStopsAtZero = true := rfl
@[simp] theorem std8 : Cfg.std.takeZeroLimitReturnsZero = true := rfl
@[simp] theorem std9 : Cfg.std.takeClampsRequest = true := rfl
@[simp] theorem std10 : Cfg.std.takeDecrementsLimit = true := rfl
@[simp] theorem std11 : Cfg.std.writeAllZeroIsError = true := rfl
@[simp] theorem std12 : Cfg.std.writeAllAdvances = true := rfl
@[simp] theorem std13 : Cfg.std.writeAllRetriesInterrupted = true := rfl
@[simp] theorem std14 : Cfg.std.writeAllReturnsOtherErrors = true := rfl
@[simp] theorem std15 : Cfg.std.sliceReadIsMinCopy = true := rfl
@[simp] theorem std16 : Cfg.std.sliceWriteIsMinCopy = true := rfl
@[simp] theorem std17 : Cfg.std.vecWriteAppendsAll = true := rfl

theorem take_min_length {α} (l : List α) (a : Nat) : l.take (min a l.length) = l.take a := by
  by_cases h : a ≤ l.length
  · rw [Nat.min_eq_left h]
  · rw [Nat.min_eq_right (by omega), List.take_length, List.take_of_length_le (by omega)]

theorem drop_min_length {α} (l : List α) (a : Nat) : l.drop (min a l.length) = l.drop a := by
  by_cases h : a ≤ l.length
  · rw [Nat.min_eq_left h]
  · rw [Nat.min_eq_right (by omega), List.drop_length, List.drop_of_length_le (by omega)]

theorem readExact_std (script : List Resp) (src : List Byte) (need : Nat) :
    readExact Cfg.std script src need = Spec.Io.readExact script src need := by
  induction script generalizing src need with
  | nil => cases need <;> simp [readExact, Spec.Io.readExact]
  | cons r s ih =>
    cases need with
    | zero => simp [readExact, Spec.Io.readExact]
    | succ need =>
      cases r with
      | data k =>
        simp only [readExact, Spec.Io.readExact, List.length_take, std1, std4, if_true, take_min_length, drop_min_length, ih]
        by_cases h : min (min k (need + 1)) src.length = 0
        · simp only [h, if_true]
          have : min k (need + 1) = 0 ∨ src.length = 0 := by omega
          rcases this with h' | h'
          · simp [h']
          · have : src = [] := List.eq_nil_of_length_eq_zero h'
            simp [this]
        · simp only [h, if_false]
          rfl
      | eof => simp [readExact, Spec.Io.readExact]
      | interrupted => simp [readExact, Spec.Io.readExact, ih]
      | error k => simp [readExact, Spec.Io.readExact]


/-- `read_to_end` agrees with the std contract on every script that has no `Interrupted` in it -/
theorem readToEnd_std (script : List Resp) (src : List Byte) (h : Resp.interrupted ∉ script) :
    readToEnd Cfg.std script src = Spec.Io.readToEnd 16384 script src := by
  induction script generalizing src with
  | nil => simp [readToEnd, Spec.Io.readToEnd]
  | cons r s ih =>
    have hs : Resp.interrupted ∉ s := fun hm => h (List.mem_cons_of_mem _ hm)
    cases r with
    | data k =>
      simp only [readToEnd, Spec.Io.readToEnd, List.length_take, std5, std7, if_true, take_min_length, drop_min_length, ih _ hs]
      by_cases h0 : min (min k 16384) src.length = 0
      · simp only [h0, if_true]
        have : min k 16384 = 0 ∨ src.length = 0 := by omega
        rcases this with h' | h'
        · simp [h']
        · have : src = [] := List.eq_nil_of_length_eq_zero h'
          simp [this]
      · simp only [h0, if_false]
        rfl
    | eof => simp [readToEnd, Spec.Io.readToEnd]
    | interrupted => exact absurd List.mem_cons_self h
    | error k => simp [readToEnd, Spec.Io.readToEnd]

theorem writeAll_std (script : List Resp) (sink buf : List Byte) :
    writeAll Cfg.std script sink buf = Spec.Io.writeAll script sink buf := by
  induction script generalizing sink buf with
  | nil => cases buf <;> simp [writeAll, Spec.Io.writeAll]
  | cons r s ih =>
    cases buf with
    | nil => simp [writeAll, Spec.Io.writeAll]
    | cons b bs =>
      cases r with
      | data k =>
        simp only [writeAll, Spec.Io.writeAll, std11, std12, if_true, ih]
      | eof => simp [writeAll, Spec.Io.writeAll]
      | interrupted => simp [writeAll, Spec.Io.writeAll, ih]
      | error k => simp [writeAll, Spec.Io.writeAll]

/-- a reader never delivers more than it was asked for -/
theorem Reader.read_le (r : Reader) (req : Nat) (bs : List Byte) (r' : Reader)
    (h : r.read req = (.ok bs, r')) : bs.length ≤ req := by
  unfold Reader.read at h
  split at h <;> simp at h <;> obtain ⟨h1, _⟩ := h <;> subst h1 <;> simp [List.length_take] <;> omega

theorem take_std (t : Take) (req : Nat) (hl : t.limit < 2 ^ 64) :
    Take.read Cfg.std 64 t req = .ok (Spec.Io.takeRead t req) := by
  unfold Take.read Spec.Io.takeRead
  by_cases h0 : t.limit = 0
  · simp [h0]
  · have hu : asUsize 64 t.limit = t.limit := Nat.mod_eq_of_lt hl
    simp only [std8, std9, std10, Bool.true_and, beq_iff_eq, h0, if_false, if_true, hu]
    cases hr : t.inner.read (min t.limit req) with
    | mk res r' =>
      cases res with
      | error k => simp
      | ok bs =>
        have := Reader.read_le _ _ _ _ hr
        have hle : bs.length ≤ t.limit := by omega
        simp [hle]

theorem take_split {α} (l : List α) (m N : Nat) (h : m ≤ N) : l.take m ++ (l.drop m).take (N - m) = l.take N := by
  conv => rhs; rw [show N = m + (N - m) by omega, List.take_add]

/-! declarative consequences of the Spec (what the contract promises, in words of the result) -/

/-- `read_exact` succeeded ⇒ the buffer holds exactly the next `need` bytes of the stream and the
stream has advanced by exactly `need` -/
theorem spec_readExact_ok (script : List Resp) (src : List Byte) (need : Nat) (bs : List Byte) (r : Reader)
    (h : Spec.Io.readExact script src need = (.ok bs, r)) :
    bs = src.take need ∧ bs.length = need ∧ r.src = src.drop need := by
  induction script generalizing src need bs r with
  | nil =>
    cases need with
    | zero => simp [Spec.Io.readExact] at h; obtain ⟨h1, h2⟩ := h; subst h1; subst h2; simp
    | succ n => simp [Spec.Io.readExact] at h
  | cons x s ih =>
    cases need with
    | zero => simp [Spec.Io.readExact] at h; obtain ⟨h1, h2⟩ := h; subst h1; subst h2; simp
    | succ n =>
      cases x with
      | data k =>
        simp only [Spec.Io.readExact] at h
        split at h
        · simp at h
        · rename_i hn
          split at h
          · rename_i bs' r' hrec
            simp at h
            obtain ⟨h1, h2⟩ := h
            have := ih _ _ _ _ hrec
            obtain ⟨e1, e2, e3⟩ := this
            subst h1; subst h2
            have hm : min (min k (n + 1)) src.length ≤ n + 1 := by omega
            have hm2 : min (min k (n + 1)) src.length ≤ src.length := by omega
            refine ⟨?_, ?_, ?_⟩
            · rw [e1]; simpa [Nat.min_assoc] using take_split src _ _ hm
            · rw [List.length_append, e2, List.length_take]; omega
            · rw [e3, List.drop_drop]; congr 1; omega
          · rename_i hne
            cases hrec : Spec.Io.readExact s (List.drop (min (min k (n + 1)) src.length) src) (n + 1 - min (min k (n + 1)) src.length) with
            | mk res r' =>
              rw [hrec] at h
              cases res with
              | ok b => exact absurd hrec (hne b r')
              | err e => simp at h
              | hang => simp at h
      | eof => simp [Spec.Io.readExact] at h
      | interrupted => simp only [Spec.Io.readExact] at h; exact ih _ _ _ _ h
      | error k => simp [Spec.Io.readExact] at h

/-- `read_exact` never hangs and never reports `Interrupted` (scripts keep `Interrupted` in its own constructor) -/
theorem spec_readExact_total (script : List Resp) (src : List Byte) (need : Nat)
    (hs : Resp.error .interrupted ∉ script) :
    (Spec.Io.readExact script src need).1 ≠ .hang ∧ (Spec.Io.readExact script src need).1 ≠ .err .interrupted := by
  induction script generalizing src need with
  | nil => cases need <;> simp [Spec.Io.readExact]
  | cons x s ih =>
    have hs' : Resp.error .interrupted ∉ s := fun hm => hs (List.mem_cons_of_mem _ hm)
    cases need with
    | zero => simp [Spec.Io.readExact]
    | succ n =>
      cases x with
      | data k =>
        simp only [Spec.Io.readExact]
        split
        · simp
        · have := ih (List.drop (min (min k (n + 1)) src.length) src) (n + 1 - min (min k (n + 1)) src.length) hs'
          split
          · simp
          · rename_i hne
            exact this
      | eof => simp [Spec.Io.readExact]
      | interrupted => simp only [Spec.Io.readExact]; exact ih _ _ hs'
      | error k =>
        simp only [Spec.Io.readExact]
        refine ⟨by simp, ?_⟩
        intro h
        apply hs
        simp at h
        rw [h]
        exact List.mem_cons_self

/-- whatever happens, `write_all` has handed a prefix of the buffer to the sink; on success, all of it -/
theorem spec_writeAll_prefix (script : List Resp) (sink buf : List Byte) :
    (∃ n, (Spec.Io.writeAll script sink buf).2.sink = sink ++ buf.take n) ∧
    ((Spec.Io.writeAll script sink buf).1 = .ok () → (Spec.Io.writeAll script sink buf).2.sink = sink ++ buf) ∧
    (Spec.Io.writeAll script sink buf).1 ≠ .hang := by
  induction script generalizing sink buf with
  | nil =>
    cases buf with
    | nil => simp [Spec.Io.writeAll]
    | cons b bs => simp [Spec.Io.writeAll]
  | cons x s ih =>
    cases buf with
    | nil => simp [Spec.Io.writeAll]
    | cons b bs =>
      cases x with
      | data k =>
        simp only [Spec.Io.writeAll]
        split
        · simp
        · obtain ⟨⟨n, hn⟩, hok, hh⟩ := ih (sink ++ List.take (min k (bs.length + 1)) (b :: bs)) (List.drop (min k (bs.length + 1)) (b :: bs))
          refine ⟨⟨min k (bs.length + 1) + n, ?_⟩, ?_, hh⟩
          · rw [hn, List.append_assoc, List.take_add]
          · intro h
            rw [hok h, List.append_assoc, List.take_append_drop]
      | eof => simp [Spec.Io.writeAll]
      | interrupted => simp only [Spec.Io.writeAll]; exact ih sink (b :: bs)
      | error k => simp [Spec.Io.writeAll]

/-- `Take` never yields more than its limit, and the limit shrinks by what was yielded -/
theorem spec_take_le (t : Take) (req : Nat) (bs : List Byte) (t' : Take)
    (h : Spec.Io.takeRead t req = (.ok bs, t')) : bs.length ≤ t.limit ∧ bs.length ≤ req ∧ t'.limit = t.limit - bs.length := by
  unfold Spec.Io.takeRead at h
  split at h
  · simp at h; obtain ⟨h1, h2⟩ := h; subst h1; subst h2; simp
  · split at h
    · rename_i bs' r hr
      simp at h
      obtain ⟨h1, h2⟩ := h
      have := Reader.read_le _ _ _ _ hr
      subst h1; subst h2
      simp; omega
    · simp at h

end Zstd.Proofs.Io
