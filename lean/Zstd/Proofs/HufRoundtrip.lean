import Zstd.Proofs.HufLink
import Zstd.Proofs.HufDesc
import Zstd.Proofs.HufCounts
/-
From a canonical encoder table to the literals round trips: the table the decoder builds from the
description decodes the encoder's code (`DecodesCode`), hence `decompress_literals` regenerates the
literals from what `encode` / `encode4x` wrote, for one stream and for four.
-/
namespace Zstd.Proofs.Huf
open Zstd Zstd.Model.Huf Zstd.Model.Huf.Bits

/-- A table as the compressor builds it: `build_from_weights` of Kraft-complete weights over at most
256 symbols, depth `m ≤ 11`, with a symbol of weight 1 (so that the decoder's Max_Number_of_Bits is
`m`) and the last symbol used (its weight is the one that is not transmitted). -/
structure CanonTable (t : EncTable) (wd : List Nat) (m : Nat) : Prop where
  build : buildFromWeights wd = .ok t
  two : 2 ≤ wd.length
  len256 : wd.length ≤ 256
  m1 : 1 ≤ m
  m11 : m ≤ 11
  le : ∀ w ∈ wd, w ≤ m
  sum : weightSum wd = 2 ^ m
  one : 1 ∈ wd
  lastUsed : ∀ w, wd.getLast? = some w → 1 ≤ w

theorem CanonTable.codesOk {t : EncTable} {wd : List Nat} {m : Nat} (c : CanonTable t wd m) :
    CodesOk wd m t.codes := by
  obtain ⟨t', h1, h2⟩ := buildFromWeights_ok wd m c.len256 (by have := c.m11; omega) c.le c.sum
  rw [c.build] at h1
  simp only [Except.ok.injEq] at h1
  subst h1; exact h2

/-- every code of a canonical table in terms of the weight of its symbol -/
theorem CanonTable.code {t : EncTable} {wd : List Nat} {m : Nat} (c : CanonTable t wd m)
    (s : Nat) (cd : Nat × Nat) (hc : t.codes[s]? = some cd) :
    ∃ (h : s < wd.length), cd.2 = (if wd[s] = 0 then 0 else m + 1 - wd[s]) := by
  have ok := c.codesOk
  have hs' : s < wd.length := by
    rcases Nat.lt_or_ge s t.codes.length with h | h
    · rw [ok.len] at h; exact h
    · rw [List.getElem?_eq_none h] at hc; cases hc
  refine ⟨hs', ?_⟩
  by_cases h0 : wd[s] = 0
  · rw [ok.unused s hs' h0] at hc
    simp only [Option.some.injEq] at hc
    rw [← hc]; simp [h0]
  · obtain ⟨c', q1, _⟩ := ok.used s hs' (by omega)
    rw [q1] at hc
    simp only [Option.some.injEq] at hc
    rw [← hc]; simp [h0]

theorem CanonTable.encWeights_eq {t : EncTable} {wd : List Nat} {m : Nat} (c : CanonTable t wd m) :
    encWeights t m = wd := by
  have ok := c.codesOk
  unfold encWeights
  apply List.ext_getElem?
  intro s
  rw [List.getElem?_map]
  rcases Nat.lt_or_ge s wd.length with h | h
  · have hc : s < t.codes.length := by rw [ok.len]; exact h
    rw [List.getElem?_eq_getElem hc, List.getElem?_eq_getElem h]
    obtain ⟨_, q2⟩ := c.code s t.codes[s] (List.getElem?_eq_getElem hc)
    simp only [Option.map_some, Option.some.injEq, q2]
    have := c.le wd[s] (List.getElem_mem _)
    by_cases h0 : wd[s] = 0
    · simp [h0]
    · rw [if_neg h0, if_neg (by omega)]; omega
  · rw [List.getElem?_eq_none (by rw [ok.len]; exact h), List.getElem?_eq_none h]; rfl

/-- a canonical table is a complete code in the sense of the description round trips -/
theorem CanonTable.kraft {t : EncTable} {wd : List Nat} {m : Nat} (c : CanonTable t wd m) : KraftTable t m := by
  have ok := c.codesOk
  refine ⟨by rw [ok.len]; exact c.two, by rw [ok.len]; exact c.len256, ?_, ?_, c.m1, c.m11, ?_, ?_⟩
  · intro cd hcd
    obtain ⟨s, hs'⟩ := List.mem_iff_getElem?.mp hcd
    obtain ⟨_, q⟩ := c.code s cd hs'
    rw [q]; split <;> omega
  · obtain ⟨s, hs'⟩ := List.mem_iff_getElem?.mp c.one
    have hs'' : s < wd.length := by
      rcases Nat.lt_or_ge s wd.length with h | h
      · exact h
      · rw [List.getElem?_eq_none h] at hs'; cases hs'
    have hw1 : wd[s] = 1 := by rw [List.getElem?_eq_getElem hs''] at hs'; simpa using hs'
    obtain ⟨c', q1, _⟩ := ok.used s hs'' (by omega)
    refine ⟨_, List.mem_iff_getElem?.mpr ⟨s, q1⟩, ?_⟩
    simp only [hw1]; omega
  · intro cd hcd
    rw [List.getLast?_eq_getElem?, ok.len] at hcd
    obtain ⟨hL, q2⟩ := c.code _ cd hcd
    have hw := c.lastUsed wd[wd.length - 1] (by rw [List.getLast?_eq_getElem?, List.getElem?_eq_getElem hL])
    have := c.le wd[wd.length - 1] (List.getElem_mem _)
    rw [q2, if_neg (by omega)]; omega
  · have := c.encWeights_eq
    unfold encWeights at this
    rw [this]; exact c.sum

/-! ### the decoder's table decodes the encoder's code -/

theorem bitsOf_eq_codes {t : EncTable} {wd : List Nat} {m : Nat} (c : CanonTable t wd m) :
    bitsOf m wd = t.codes.map (·.2) := by
  have ok := c.codesOk
  apply List.ext_getElem?
  intro s
  simp only [bitsOf, List.getElem?_map]
  rcases Nat.lt_or_ge s wd.length with h | h
  · have hc : s < t.codes.length := by rw [ok.len]; exact h
    rw [List.getElem?_eq_getElem hc, List.getElem?_eq_getElem h]
    obtain ⟨_, q2⟩ := c.code s t.codes[s] (List.getElem?_eq_getElem hc)
    simp only [Option.map_some, Option.some.injEq, q2]
    by_cases h0 : wd[s] = 0
    · simp [h0]
    · have : wd[s] > 0 := by omega
      simp [h0, this]
  · rw [List.getElem?_eq_none h, List.getElem?_eq_none (by rw [ok.len]; exact h)]; rfl

/-- After `read_weights` delivered the transmitted weights of a canonical table,
`build_table_from_weights` yields a table that decodes the encoder's code. -/
theorem decodes_of_canon {t : EncTable} {wd : List Nat} {m : Nat} (c : CanonTable t wd m) (st : DecTable)
    (hst : st.weights = wd.dropLast) :
    ∃ st', buildTableFromWeights st = (st', .ok ()) ∧ DecodesCode st' t m ∧ st'.bits = t.codes.map (·.2) ∧
      st'.weights = wd.dropLast := by
  have k := c.kraft
  obtain ⟨hgood, hmb, hbits, hdl, _⟩ := kraft_weights_good k
  rw [c.encWeights_eq] at hgood hmb hbits hdl
  have hlen : st.weights.length ≤ 257 := by rw [hst, hdl]; have := k.len256; omega
  rw [← hst] at hgood
  obtain ⟨ri, dec, hbuild, hinv⟩ := buildTable_good st hlen hgood
  rw [hst, hmb, hbits, ← bitsOf_eq_codes c] at hbuild hinv
  have ok := c.codesOk
  refine ⟨_, hbuild, ⟨rfl, hinv.size, c.m1, c.m11, ?_⟩, bitsOf_eq_codes c, rfl⟩
  intro s cd nb hcode hnb
  obtain ⟨hs, q2⟩ := c.code s (cd, nb) hcode
  simp only at q2
  have hw0 : wd[s] ≠ 0 := by intro h0; rw [if_pos h0] at q2; omega
  rw [if_neg hw0] at q2
  have hwm : wd[s] ≤ m := c.le _ (List.getElem_mem _)
  obtain ⟨c', p1, p2⟩ := buildFromWeights_pos wd m c.len256 (by have := c.m11; omega) c.le c.sum t c.build s hs
    (by omega)
  rw [p1] at hcode
  simp only [Option.some.injEq, Prod.mk.injEq] at hcode
  obtain ⟨hcc, _⟩ := hcode
  subst hcc
  obtain ⟨c'', u1, u2⟩ := ok.used s hs (by omega)
  rw [p1] at u1
  simp only [Option.some.injEq, Prod.mk.injEq] at u1
  refine ⟨by omega, by rw [q2, u1.1]; exact u2, ?_⟩
  intro j hj
  have hsb : s < (bitsOf m wd).length := by simpa [bitsOf] using hs
  have hb : (bitsOf m wd)[s] = nb := by
    simp only [bitsOf, List.getElem_map]
    rw [if_pos (by omega)]; omega
  have hcell := hinv.cells s hsb (by rw [hb]; omega) j (by rw [hb]; exact hj)
  have e1 : m - nb = wd[s] - 1 := by omega
  have hpos : cellPos m (bitsOf m wd) ((bitsOf m wd).take s) (bitsOf m wd)[s] = c' * 2 ^ (m - nb) := by
    rw [hb]
    simp only [cellPos]
    rw [e1, riSum_eq_specOff m c.le _ (by omega), bitsOf_take]
    have e2 : nb = m + 1 - wd[s] := q2
    rw [e2, countBits_bitsOf m (fun w hw => c.le w (List.mem_of_mem_take hw)) (by omega) hwm]
    exact p2.symm
  rw [hpos, hb, Nat.mod_eq_of_lt (by have := c.len256; omega)] at hcell
  exact hcell

/-- the description `desc` is read back as the weights `ws` from every state, whatever bytes follow,
consuming exactly `desc` -/
def DescReads (desc ws : List Nat) : Prop :=
  ∀ (st : DecTable) (tail : List Nat), (∀ b ∈ tail, b < 256) →
    readWeights st (desc ++ tail) = ({ st with weights := ws }, .ok desc.length)

theorem buildDecoder_of_reads {t : EncTable} {wd : List Nat} {m : Nat} (c : CanonTable t wd m)
    (desc : List Nat) (hr : DescReads desc wd.dropLast) (st : DecTable) (tail : List Nat)
    (htail : ∀ b ∈ tail, b < 256) :
    ∃ st', buildDecoder st (desc ++ tail) = (st', .ok desc.length) ∧ DecodesCode st' t m ∧
      st'.bits = t.codes.map (·.2) := by
  obtain ⟨st', h1, h2, h3, _⟩ := decodes_of_canon c
    { decode := #[], weights := wd.dropLast, maxNumBits := st.maxNumBits, bits := st.bits } rfl
  refine ⟨st', ?_, h2, h3⟩
  unfold buildDecoder
  simp only
  rw [hr { st with decode := #[] } tail htail]
  simp only
  rw [h1]

/-- the direct description of a canonical table is read back -/
theorem descReads_direct (fseEnc : List Nat → Except Fault (List Nat)) {t : EncTable} {wd : List Nat} {m : Nat}
    (c : CanonTable t wd m) (hdirect : wd.length - 1 ≤ 16) :
    ∃ desc, writeTable fseEnc t = .ok desc ∧ DescReads desc wd.dropLast := by
  have k := c.kraft
  obtain ⟨_, _, _, hdl, hlt16⟩ := kraft_weights_good k
  have hwAll : weights t = .ok (encWeights t m) := weights_of_kraft k
  rw [c.encWeights_eq] at hdl hlt16 hwAll
  obtain ⟨bs, hb1, hb2, hb3⟩ := nibbles_directBytes wd.dropLast hlt16
  have hdl' : wd.dropLast.length = wd.length - 1 := by simp
  have hnofse : Gen.hufUseFse wd.dropLast.length Gen.hufDirectMax = false := by
    simp only [Gen.hufUseFse, Gen.hufDirectMax]; exact decide_eq_false (by omega)
  refine ⟨(wd.dropLast.length + Gen.hufDirectHeaderAddEnc) :: bs, ?_, ?_⟩
  · unfold writeTable
    rw [hwAll]
    simp only [hnofse, hb1, Bool.false_eq_true, if_false]
  · intro st tail _
    have hn1 : 1 ≤ wd.dropLast.length := by rw [hdl']; have := c.two; omega
    have := readWeights_direct st wd.dropLast bs tail hn1 (by omega) hb2 (hb3 tail)
    simp only [List.cons_append, List.length_cons]
    rw [this, Nat.add_comm]

/-! ### encoding never faults on symbols that have a code -/

theorem codeBits_ok {t : EncTable} {wd : List Nat} {m : Nat} (c : CanonTable t wd m) :
    ∀ (data : List Nat), (∀ s ∈ data, ∃ h : s < wd.length, wd[s] > 0) → ∃ bits, codeBits t data = .ok bits
  | [], _ => ⟨[], rfl⟩
  | s :: rest, h => by
    obtain ⟨hs, h0⟩ := h s List.mem_cons_self
    obtain ⟨bits, hb⟩ := codeBits_ok c rest (fun x hx => h x (List.mem_cons_of_mem _ hx))
    obtain ⟨cd, q1, q2⟩ := c.codesOk.used s hs h0
    have hwm : wd[s] ≤ m := c.le _ (List.getElem_mem _)
    refine ⟨bitsBE (m + 1 - wd[s]) cd ++ bits, ?_⟩
    simp only [codeBits, q1, hb]
    rw [if_neg (by omega), if_neg (by omega)]

theorem encodeStream_ok {t : EncTable} {wd : List Nat} {m : Nat} (c : CanonTable t wd m)
    (data : List Nat) (h : ∀ s ∈ data, ∃ h : s < wd.length, wd[s] > 0) : ∃ bytes, encodeStream t data = .ok bytes := by
  obtain ⟨bits, hb⟩ := codeBits_ok c data h
  exact ⟨_, by unfold encodeStream; rw [hb]⟩

theorem encodeStream_length_pos {t : EncTable} {data bytes : List Nat} (h : encodeStream t data = .ok bytes) :
    1 ≤ bytes.length := by
  unfold encodeStream at h
  cases hcb : codeBits t data with
  | error f => rw [hcb] at h; cases h
  | ok S =>
    rw [hcb] at h
    simp only [Except.ok.injEq] at h
    subst h
    have h8 := packRev_length _ (finishStream_length S)
    have : 1 ≤ (finishStream S).length := by
      unfold finishStream
      simp only [List.length_append, List.length_cons]; omega
    omega

/-! ### the encoder writes bytes -/

theorem valBE8_lt (b7 b6 b5 b4 b3 b2 b1 b0 : Bool) : valBE [b7, b6, b5, b4, b3, b2, b1, b0] 0 < 256 := by
  have := valBE_lt [b7, b6, b5, b4, b3, b2, b1, b0]
  simpa using this

theorem packRevAux_bytes : ∀ (r : List Bool) (acc : List Nat), (∀ b ∈ acc, b < 256) → ∀ b ∈ packRevAux r acc, b < 256
  | b7 :: b6 :: b5 :: b4 :: b3 :: b2 :: b1 :: b0 :: rest, acc, h => by
    simp only [packRevAux]
    apply packRevAux_bytes rest
    intro b hb
    rcases List.mem_cons.mp hb with rfl | hb
    · exact valBE8_lt _ _ _ _ _ _ _ _
    · exact h b hb
  | [], acc, h => by simpa [packRevAux] using h
  | [_], acc, h => by simpa [packRevAux] using h
  | [_, _], acc, h => by simpa [packRevAux] using h
  | [_, _, _], acc, h => by simpa [packRevAux] using h
  | [_, _, _, _], acc, h => by simpa [packRevAux] using h
  | [_, _, _, _, _], acc, h => by simpa [packRevAux] using h
  | [_, _, _, _, _, _], acc, h => by simpa [packRevAux] using h
  | [_, _, _, _, _, _, _], acc, h => by simpa [packRevAux] using h

theorem encodeStream_bytes {t : EncTable} {data bytes : List Nat} (h : encodeStream t data = .ok bytes) :
    ∀ b ∈ bytes, b < 256 := by
  unfold encodeStream at h
  cases hcb : codeBits t data with
  | error f => rw [hcb] at h; cases h
  | ok S =>
    rw [hcb] at h
    simp only [Except.ok.injEq] at h
    subst h
    exact packRevAux_bytes _ [] (fun b hb => by cases hb)

/-! ### `decompress_literals`, one stream -/

/-- a Compressed / Treeless literals section header -/
def litSection (ty : LitType) (regen csize streams : Nat) : LitSection :=
  { lsType := ty, regeneratedSize := regen, compressedSize := some csize, numStreams := some streams }

/-- **One stream, section level.**  `desc ++ stream` (table description followed by the stream) or,
for a Treeless section, `stream` alone against a table that already decodes the code. -/
theorem decompress_1stream (t : EncTable) (m : Nat) (data stream : List Nat)
    (henc : encodeStream t data = .ok stream)
    (desc : List Nat) (st st' : DecTable) (tail target : List Nat)
    (hbuild : buildDecoder st (desc ++ stream) = (st', .ok desc.length)) (dc : DecodesCode st' t m) :
    decompressLiterals (litSection .compressed (target.length + data.length) (desc ++ stream).length 1) st
        ((desc ++ stream) ++ tail) target
      = (st', .ok (target ++ data, (desc ++ stream).length)) := by
  unfold decompressLiterals litSection
  simp only
  rw [if_neg (by simp), List.take_left' rfl, hbuild]
  simp only
  have h14 : ¬ (1 = 4) := by omega
  rw [if_neg h14, if_neg (by simp), List.drop_left' rfl]
  rw [decodeOneStream_encodeStream st' t m dc data stream henc false target.reverse]
  simp only [List.reverse_append, List.reverse_reverse, List.length_append]
  rw [if_neg (by simp)]

theorem decompress_1stream_treeless (t : EncTable) (m : Nat) (data stream : List Nat)
    (henc : encodeStream t data = .ok stream) (st : DecTable) (tail target : List Nat) (dc : DecodesCode st t m) :
    decompressLiterals (litSection .treeless (target.length + data.length) stream.length 1) st
        (stream ++ tail) target
      = (st, .ok (target ++ data, stream.length)) := by
  unfold decompressLiterals litSection
  simp only
  rw [if_neg (by simp), List.take_left' rfl]
  have hmb : ¬ st.maxNumBits = 0 := by rw [dc.mb]; have := dc.m1; omega
  rw [if_neg hmb]
  simp only
  have h14 : ¬ (1 = 4) := by omega
  rw [if_neg h14, if_neg (by simp), List.drop_zero]
  rw [decodeOneStream_encodeStream st t m dc data stream henc false target.reverse]
  simp only [List.reverse_append, List.reverse_reverse, List.length_append, Nat.zero_add]
  rw [if_neg (by simp)]

/-! ### `decompress_literals`, four streams -/

theorem leBytes2 (n : Nat) : leBytes 2 n = [n % 256, n / 256 % 256] := rfl

/-- the body of a 4-stream section: jump table and streams -/
def body4 (s1 s2 s3 s4 : List Nat) : List Nat :=
  leBytes 2 s1.length ++ leBytes 2 s2.length ++ leBytes 2 s3.length ++ s1 ++ s2 ++ s3 ++ s4

theorem body4_length (s1 s2 s3 s4 : List Nat) :
    (body4 s1 s2 s3 s4).length = 6 + s1.length + s2.length + s3.length + s4.length := by
  simp [body4, leBytes_length]; omega

/-- what the 4-stream branch of `decompress_literals` computes on a well-formed body -/
theorem jump_split (s1 s2 s3 s4 : List Nat) (l1 : s1.length < 65536) (l2 : s2.length < 65536) (l3 : s3.length < 65536) :
    ∃ b0 b1 b2 b3 b4 b5, body4 s1 s2 s3 s4 = b0 :: b1 :: b2 :: b3 :: b4 :: b5 :: (s1 ++ s2 ++ s3 ++ s4) ∧
      b0 + b1 * 256 = s1.length ∧ b2 + b3 * 256 = s2.length ∧ b4 + b5 * 256 = s3.length := by
  refine ⟨s1.length % 256, s1.length / 256 % 256, s2.length % 256, s2.length / 256 % 256,
    s3.length % 256, s3.length / 256 % 256, ?_, by omega, by omega, by omega⟩
  simp [body4, leBytes2, List.append_assoc]

theorem decompress_4streams (t : EncTable) (m : Nat) (d1 d2 d3 d4 s1 s2 s3 s4 : List Nat)
    (h1 : encodeStream t d1 = .ok s1) (h2 : encodeStream t d2 = .ok s2)
    (h3 : encodeStream t d3 = .ok s3) (h4 : encodeStream t d4 = .ok s4)
    (l1 : s1.length < 65536) (l2 : s2.length < 65536) (l3 : s3.length < 65536)
    (desc : List Nat) (st st' : DecTable) (tail target : List Nat)
    (hbuild : buildDecoder st (desc ++ body4 s1 s2 s3 s4) = (st', .ok desc.length)) (dc : DecodesCode st' t m) :
    decompressLiterals (litSection .compressed (target.length + (d1 ++ d2 ++ d3 ++ d4).length)
        (desc ++ body4 s1 s2 s3 s4).length 4) st ((desc ++ body4 s1 s2 s3 s4) ++ tail) target
      = (st', .ok (target ++ (d1 ++ d2 ++ d3 ++ d4), (desc ++ body4 s1 s2 s3 s4).length)) := by
  obtain ⟨b0, b1, b2, b3, b4, b5, hb, j1, j2, j3⟩ := jump_split s1 s2 s3 s4 l1 l2 l3
  unfold decompressLiterals litSection
  simp only
  rw [if_neg (by simp), List.take_left' rfl, hbuild]
  simp only
  rw [if_pos trivial, List.drop_left' rfl]
  have hmiss : Gen.hufJumpHeaderMissing (body4 s1 s2 s3 s4).length Gen.hufJumpHeaderLen = false := by
    simp only [Gen.hufJumpHeaderMissing, Gen.hufJumpHeaderLen, body4_length]; exact decide_eq_false (by omega)
  rw [hmiss, hb]
  simp only [Bool.false_eq_true, if_false]
  have hfar : Gen.hufJumpTooFar (s1 ++ s2 ++ s3 ++ s4).length (b0 + b1 * 256 + b2 + b3 * 256 + b4 + b5 * 256) = false := by
    simp only [Gen.hufJumpTooFar, List.length_append]; exact decide_eq_false (by omega)
  rw [hfar]
  simp only [Bool.false_eq_true, if_false]
  have e1 : (s1 ++ s2 ++ s3 ++ s4).take (b0 + b1 * 256) = s1 := by
    rw [j1, List.append_assoc, List.append_assoc]; exact List.take_left' rfl
  have e2 : ((s1 ++ s2 ++ s3 ++ s4).drop (b0 + b1 * 256)).take (b0 + b1 * 256 + b2 + b3 * 256 - (b0 + b1 * 256)) = s2 := by
    have : b0 + b1 * 256 + b2 + b3 * 256 - (b0 + b1 * 256) = s2.length := by omega
    rw [this, j1, List.append_assoc, List.append_assoc, List.drop_left' rfl]
    exact List.take_left' rfl
  have e3 : ((s1 ++ s2 ++ s3 ++ s4).drop (b0 + b1 * 256 + b2 + b3 * 256)).take
      (b0 + b1 * 256 + b2 + b3 * 256 + b4 + b5 * 256 - (b0 + b1 * 256 + b2 + b3 * 256)) = s3 := by
    have h' : b0 + b1 * 256 + b2 + b3 * 256 + b4 + b5 * 256 - (b0 + b1 * 256 + b2 + b3 * 256) = s3.length := by omega
    have h'' : b0 + b1 * 256 + b2 + b3 * 256 = (s1 ++ s2).length := by rw [List.length_append]; omega
    rw [h', h'', List.append_assoc (s1 ++ s2), List.drop_left' rfl]
    exact List.take_left' rfl
  have e4 : (s1 ++ s2 ++ s3 ++ s4).drop (b0 + b1 * 256 + b2 + b3 * 256 + b4 + b5 * 256) = s4 := by
    have h'' : b0 + b1 * 256 + b2 + b3 * 256 + b4 + b5 * 256 = (s1 ++ s2 ++ s3).length := by
      simp only [List.length_append]; omega
    rw [h'']; exact List.drop_left' rfl
  rw [e1, e2, e3, e4, decodeOneStream_encodeStream st' t m dc d1 s1 h1 true target.reverse]
  simp only
  rw [decodeOneStream_encodeStream st' t m dc d2 s2 h2 true]
  simp only
  rw [decodeOneStream_encodeStream st' t m dc d3 s3 h3 true]
  simp only
  rw [decodeOneStream_encodeStream st' t m dc d4 s4 h4 true]
  simp only [List.reverse_append, List.reverse_reverse]
  rw [if_neg (by simp [List.append_assoc])]
  simp [body4_length, List.append_assoc]
  omega

theorem decompress_4streams_treeless (t : EncTable) (m : Nat) (d1 d2 d3 d4 s1 s2 s3 s4 : List Nat)
    (h1 : encodeStream t d1 = .ok s1) (h2 : encodeStream t d2 = .ok s2)
    (h3 : encodeStream t d3 = .ok s3) (h4 : encodeStream t d4 = .ok s4)
    (l1 : s1.length < 65536) (l2 : s2.length < 65536) (l3 : s3.length < 65536)
    (st : DecTable) (tail target : List Nat) (dc : DecodesCode st t m) :
    decompressLiterals (litSection .treeless (target.length + (d1 ++ d2 ++ d3 ++ d4).length)
        (body4 s1 s2 s3 s4).length 4) st (body4 s1 s2 s3 s4 ++ tail) target
      = (st, .ok (target ++ (d1 ++ d2 ++ d3 ++ d4), (body4 s1 s2 s3 s4).length)) := by
  obtain ⟨b0, b1, b2, b3, b4, b5, hb, j1, j2, j3⟩ := jump_split s1 s2 s3 s4 l1 l2 l3
  unfold decompressLiterals litSection
  simp only
  rw [if_neg (by simp), List.take_left' rfl]
  have hmb : ¬ st.maxNumBits = 0 := by rw [dc.mb]; have := dc.m1; omega
  rw [if_neg hmb]
  simp only
  rw [if_pos trivial, List.drop_zero]
  have hmiss : Gen.hufJumpHeaderMissing (body4 s1 s2 s3 s4).length Gen.hufJumpHeaderLen = false := by
    simp only [Gen.hufJumpHeaderMissing, Gen.hufJumpHeaderLen, body4_length]; exact decide_eq_false (by omega)
  rw [hmiss, hb]
  simp only [Bool.false_eq_true, if_false]
  have hfar : Gen.hufJumpTooFar (s1 ++ s2 ++ s3 ++ s4).length (b0 + b1 * 256 + b2 + b3 * 256 + b4 + b5 * 256) = false := by
    simp only [Gen.hufJumpTooFar, List.length_append]; exact decide_eq_false (by omega)
  rw [hfar]
  simp only [Bool.false_eq_true, if_false]
  have e1 : (s1 ++ s2 ++ s3 ++ s4).take (b0 + b1 * 256) = s1 := by
    rw [j1, List.append_assoc, List.append_assoc]; exact List.take_left' rfl
  have e2 : ((s1 ++ s2 ++ s3 ++ s4).drop (b0 + b1 * 256)).take (b0 + b1 * 256 + b2 + b3 * 256 - (b0 + b1 * 256)) = s2 := by
    have : b0 + b1 * 256 + b2 + b3 * 256 - (b0 + b1 * 256) = s2.length := by omega
    rw [this, j1, List.append_assoc, List.append_assoc, List.drop_left' rfl]
    exact List.take_left' rfl
  have e3 : ((s1 ++ s2 ++ s3 ++ s4).drop (b0 + b1 * 256 + b2 + b3 * 256)).take
      (b0 + b1 * 256 + b2 + b3 * 256 + b4 + b5 * 256 - (b0 + b1 * 256 + b2 + b3 * 256)) = s3 := by
    have h' : b0 + b1 * 256 + b2 + b3 * 256 + b4 + b5 * 256 - (b0 + b1 * 256 + b2 + b3 * 256) = s3.length := by omega
    have h'' : b0 + b1 * 256 + b2 + b3 * 256 = (s1 ++ s2).length := by rw [List.length_append]; omega
    rw [h', h'', List.append_assoc (s1 ++ s2), List.drop_left' rfl]
    exact List.take_left' rfl
  have e4 : (s1 ++ s2 ++ s3 ++ s4).drop (b0 + b1 * 256 + b2 + b3 * 256 + b4 + b5 * 256) = s4 := by
    have h'' : b0 + b1 * 256 + b2 + b3 * 256 + b4 + b5 * 256 = (s1 ++ s2 ++ s3).length := by
      simp only [List.length_append]; omega
    rw [h'']; exact List.drop_left' rfl
  rw [e1, e2, e3, e4, decodeOneStream_encodeStream st t m dc d1 s1 h1 true target.reverse]
  simp only
  rw [decodeOneStream_encodeStream st t m dc d2 s2 h2 true]
  simp only
  rw [decodeOneStream_encodeStream st t m dc d3 s3 h3 true]
  simp only
  rw [decodeOneStream_encodeStream st t m dc d4 s4 h4 true]
  simp only [List.reverse_append, List.reverse_reverse]
  rw [if_neg (by simp [List.append_assoc])]
  simp [body4_length, List.append_assoc]
  omega

/-! ### stream sizes -/

theorem codeBits_length_le {t : EncTable} {wd : List Nat} {m : Nat} (c : CanonTable t wd m) :
    ∀ {data : List Nat} {bits : List Bool}, codeBits t data = .ok bits → bits.length ≤ m * data.length
  | [], _, h => by simp only [codeBits, Except.ok.injEq] at h; subst h; simp
  | s :: rest, bits, h => by
    obtain ⟨cd, nb, bits', hcode, hnb, _, hr, rfl⟩ := codeBits_cons h
    have := codeBits_length_le c hr
    obtain ⟨hs, q⟩ := c.code s (cd, nb) hcode
    simp only at q
    have hnbm : nb ≤ m := by rw [q]; split <;> omega
    rw [List.length_append, bitsBE_length, List.length_cons, Nat.mul_succ]; omega

theorem encodeStream_length_le {t : EncTable} {wd : List Nat} {m : Nat} (c : CanonTable t wd m)
    {data bytes : List Nat} (h : encodeStream t data = .ok bytes) : 8 * bytes.length ≤ 11 * data.length + 8 := by
  unfold encodeStream at h
  cases hcb : codeBits t data with
  | error f => rw [hcb] at h; cases h
  | ok S =>
    rw [hcb] at h
    simp only [Except.ok.injEq] at h
    subst h
    rw [packRev_length _ (finishStream_length S)]
    have h1 := codeBits_length_le c hcb
    have h2 : m * data.length ≤ 11 * data.length := Nat.mul_le_mul_right _ c.m11
    have : (finishStream S).length ≤ S.length + 8 := by
      unfold finishStream
      simp only [List.length_append, List.length_replicate, List.length_cons]
      split <;> omega
    omega

/-! ### `encode` / `encode4x` followed by `decode_literals` -/

/-- the symbols the encoder accepts: those with a code -/
def Encodable (wd : List Nat) (data : List Nat) : Prop := ∀ s ∈ data, ∃ h : s < wd.length, wd[s] > 0

theorem Encodable.take {wd data : List Nat} (h : Encodable wd data) (n : Nat) : Encodable wd (data.take n) :=
  fun s hs => h s (List.mem_of_mem_take hs)
theorem Encodable.drop {wd data : List Nat} (h : Encodable wd data) (n : Nat) : Encodable wd (data.drop n) :=
  fun s hs => h s (List.mem_of_mem_drop hs)

/-- **One stream with its table** -/
theorem roundtrip_1stream (fseEnc : List Nat → Except Fault (List Nat)) {t : EncTable} {wd : List Nat} {m : Nat}
    (c : CanonTable t wd m) (data : List Nat) (hdata : Encodable wd data)
    (desc : List Nat) (hdesc : writeTable fseEnc t = .ok desc) (hr : DescReads desc wd.dropLast) :
    ∃ bytes, encode fseEnc t data true = .ok bytes ∧
      ∀ (st : DecTable) (tail target : List Nat), ∃ st',
        decodeLiterals (litSection .compressed (target.length + data.length) bytes.length 1) st (bytes ++ tail) target
          = (st', .ok (target ++ data, bytes.length)) ∧ DecodesCode st' t m := by
  obtain ⟨stream, hs⟩ := encodeStream_ok c data hdata
  refine ⟨desc ++ stream, by simp [encode, hdesc, hs], ?_⟩
  intro st tail target
  obtain ⟨st', hb, dc, _⟩ := buildDecoder_of_reads c desc hr st stream (encodeStream_bytes hs)
  refine ⟨st', ?_, dc⟩
  have := decompress_1stream t m data stream hs desc st st' tail target hb dc
  unfold decodeLiterals
  simp only [litSection] at this ⊢
  exact this

/-- **One stream, treeless** (`with_table = false`) against a decoder table that decodes the code -/
theorem roundtrip_1stream_treeless (fseEnc : List Nat → Except Fault (List Nat)) {t : EncTable} {wd : List Nat} {m : Nat}
    (c : CanonTable t wd m) (data : List Nat) (hdata : Encodable wd data) :
    ∃ bytes, encode fseEnc t data false = .ok bytes ∧
      ∀ (st : DecTable) (tail target : List Nat), DecodesCode st t m →
        decodeLiterals (litSection .treeless (target.length + data.length) bytes.length 1) st (bytes ++ tail) target
          = (st, .ok (target ++ data, bytes.length)) := by
  obtain ⟨stream, hs⟩ := encodeStream_ok c data hdata
  refine ⟨stream, by simp [encode, hs], ?_⟩
  intro st tail target dc
  have := decompress_1stream_treeless t m data stream hs st tail target dc
  unfold decodeLiterals
  simp only [litSection] at this ⊢
  exact this

/-- what `encode4x` returns when nothing faults -/
theorem encode4x_eq (fseEnc : List Nat → Except Fault (List Nat)) (t : EncTable) (data : List Nat) (withTable : Bool)
    (desc s1 s2 s3 s4 : List Nat) (hlen : 4 ≤ data.length) (h5 : data.length ≠ 5)
    (hdesc : (if withTable then writeTable fseEnc t else .ok []) = .ok desc)
    (h1 : encodeStream t (data.take ((data.length + 3) / 4)) = .ok s1)
    (h2 : encodeStream t ((data.drop ((data.length + 3) / 4)).take ((data.length + 3) / 4)) = .ok s2)
    (h3 : encodeStream t ((data.drop ((data.length + 3) / 4 * 2)).take ((data.length + 3) / 4)) = .ok s3)
    (h4 : encodeStream t (data.drop ((data.length + 3) / 4 * 3)) = .ok s4)
    (l1 : s1.length ≤ 65535) (l2 : s2.length ≤ 65535) (l3 : s3.length ≤ 65535) :
    encode4x fseEnc t data withTable = .ok (desc ++ body4 s1 s2 s3 s4) := by
  unfold encode4x
  have hok : Gen.hufEnc4LenOk data.length Gen.hufEnc4MinLen = true := by
    simp only [Gen.hufEnc4LenOk, Gen.hufEnc4MinLen]; exact decide_eq_true hlen
  have hsplit : (data.length + Gen.hufSplitDiv - 1) / Gen.hufSplitDiv = (data.length + 3) / 4 := by
    simp only [Gen.hufSplitDiv]; omega
  simp only [hok, Bool.not_true, Bool.false_eq_true, if_false, hsplit]
  rw [if_neg (by omega), hdesc]
  simp only [h1, h2, h3, h4]
  rw [if_neg (by omega)]
  simp [body4, List.append_assoc]

theorem split4 (data : List Nat) (hlen : 4 ≤ data.length) (h5 : data.length ≠ 5) :
    data.take ((data.length + 3) / 4) ++ (data.drop ((data.length + 3) / 4)).take ((data.length + 3) / 4)
      ++ (data.drop ((data.length + 3) / 4 * 2)).take ((data.length + 3) / 4)
      ++ data.drop ((data.length + 3) / 4 * 3) = data := by
  have e2 : (data.length + 3) / 4 * 2 = (data.length + 3) / 4 + (data.length + 3) / 4 := by omega
  have e3 : (data.length + 3) / 4 * 3 = (data.length + 3) / 4 + ((data.length + 3) / 4 + (data.length + 3) / 4) := by omega
  rw [e2, e3, ← List.drop_drop, ← List.drop_drop, ← List.drop_drop]
  rw [List.append_assoc, List.append_assoc, List.take_append_drop, List.take_append_drop, List.take_append_drop]

/-- **Four streams with the table** -/
theorem roundtrip_4streams (fseEnc : List Nat → Except Fault (List Nat)) {t : EncTable} {wd : List Nat} {m : Nat}
    (c : CanonTable t wd m) (data : List Nat) (hdata : Encodable wd data)
    (hlen : 4 ≤ data.length) (h5 : data.length ≠ 5) (hmax : data.length ≤ 131072)
    (desc : List Nat) (hdesc : writeTable fseEnc t = .ok desc) (hr : DescReads desc wd.dropLast) :
    ∃ bytes, encode4x fseEnc t data true = .ok bytes ∧
      ∀ (st : DecTable) (tail target : List Nat), ∃ st',
        decodeLiterals (litSection .compressed (target.length + data.length) bytes.length 4) st (bytes ++ tail) target
          = (st', .ok (target ++ data, bytes.length)) ∧ DecodesCode st' t m := by
  obtain ⟨s1, h1⟩ := encodeStream_ok c _ (hdata.take ((data.length + 3) / 4))
  obtain ⟨s2, h2⟩ := encodeStream_ok c _ ((hdata.drop ((data.length + 3) / 4)).take ((data.length + 3) / 4))
  obtain ⟨s3, h3⟩ := encodeStream_ok c _ ((hdata.drop ((data.length + 3) / 4 * 2)).take ((data.length + 3) / 4))
  obtain ⟨s4, h4⟩ := encodeStream_ok c _ (hdata.drop ((data.length + 3) / 4 * 3))
  have b1 := encodeStream_length_le c h1
  have b2 := encodeStream_length_le c h2
  have b3 := encodeStream_length_le c h3
  simp only [List.length_take, List.length_drop] at b1 b2 b3
  have l1 : s1.length ≤ 65535 := by omega
  have l2 : s2.length ≤ 65535 := by omega
  have l3 : s3.length ≤ 65535 := by omega
  refine ⟨desc ++ body4 s1 s2 s3 s4,
    encode4x_eq fseEnc t data true desc s1 s2 s3 s4 hlen h5 (by simp [hdesc]) h1 h2 h3 h4 l1 l2 l3, ?_⟩
  intro st tail target
  have hbody : ∀ b ∈ body4 s1 s2 s3 s4, b < 256 := by
    intro b hb
    simp only [body4, List.mem_append] at hb
    rcases hb with (((((hb | hb) | hb) | hb) | hb) | hb) | hb
    · exact leBytes_lt _ _ b hb
    · exact leBytes_lt _ _ b hb
    · exact leBytes_lt _ _ b hb
    · exact encodeStream_bytes h1 b hb
    · exact encodeStream_bytes h2 b hb
    · exact encodeStream_bytes h3 b hb
    · exact encodeStream_bytes h4 b hb
  obtain ⟨st', hb, dc, _⟩ := buildDecoder_of_reads c desc hr st (body4 s1 s2 s3 s4) hbody
  refine ⟨st', ?_, dc⟩
  have := decompress_4streams t m _ _ _ _ s1 s2 s3 s4 h1 h2 h3 h4 (by omega) (by omega) (by omega)
    desc st st' tail target hb dc
  rw [split4 data hlen h5] at this
  unfold decodeLiterals
  simp only [litSection] at this ⊢
  exact this

/-- **Four streams, treeless** -/
theorem roundtrip_4streams_treeless (fseEnc : List Nat → Except Fault (List Nat)) {t : EncTable} {wd : List Nat} {m : Nat}
    (c : CanonTable t wd m) (data : List Nat) (hdata : Encodable wd data)
    (hlen : 4 ≤ data.length) (h5 : data.length ≠ 5) (hmax : data.length ≤ 131072) :
    ∃ bytes, encode4x fseEnc t data false = .ok bytes ∧
      ∀ (st : DecTable) (tail target : List Nat), DecodesCode st t m →
        decodeLiterals (litSection .treeless (target.length + data.length) bytes.length 4) st (bytes ++ tail) target
          = (st, .ok (target ++ data, bytes.length)) := by
  obtain ⟨s1, h1⟩ := encodeStream_ok c _ (hdata.take ((data.length + 3) / 4))
  obtain ⟨s2, h2⟩ := encodeStream_ok c _ ((hdata.drop ((data.length + 3) / 4)).take ((data.length + 3) / 4))
  obtain ⟨s3, h3⟩ := encodeStream_ok c _ ((hdata.drop ((data.length + 3) / 4 * 2)).take ((data.length + 3) / 4))
  obtain ⟨s4, h4⟩ := encodeStream_ok c _ (hdata.drop ((data.length + 3) / 4 * 3))
  have b1 := encodeStream_length_le c h1
  have b2 := encodeStream_length_le c h2
  have b3 := encodeStream_length_le c h3
  simp only [List.length_take, List.length_drop] at b1 b2 b3
  have l1 : s1.length ≤ 65535 := by omega
  have l2 : s2.length ≤ 65535 := by omega
  have l3 : s3.length ≤ 65535 := by omega
  refine ⟨body4 s1 s2 s3 s4, ?_, ?_⟩
  · have := encode4x_eq fseEnc t data false [] s1 s2 s3 s4 hlen h5 (by simp) h1 h2 h3 h4 l1 l2 l3
    simpa using this
  · intro st tail target dc
    have := decompress_4streams_treeless t m _ _ _ _ s1 s2 s3 s4 h1 h2 h3 h4 (by omega) (by omega) (by omega)
      st tail target dc
    rw [split4 data hlen h5] at this
    unfold decodeLiterals
    simp only [litSection] at this ⊢
    exact this

end Zstd.Proofs.Huf
