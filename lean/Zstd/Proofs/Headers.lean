import Zstd.Model.Headers
import Zstd.Spec.Tables
import Zstd.Spec.Headers
/-
Helper lemmas for C14/C11 (headers).  The shift/mask expressions extracted from the source
(`Zstd.Gen.*`) are rewritten to `/`, `%`, `*` on `Nat` (`>>>`, `<<<`, `&&& (2^k-1)`, and `|||` of
disjoint bit ranges) and compared with the RFC transcription by linear arithmetic (`omega`).
-/
set_option linter.unusedSimpArgs false
set_option linter.unusedVariables false
namespace Zstd.Proofs.Headers
open Zstd Zstd.Model Zstd.Model.Hdr


theorem and1 (x : Nat) : x &&& 1 = x % 2 := Nat.and_two_pow_sub_one_eq_mod x 1
theorem and3 (x : Nat) : x &&& 3 = x % 4 := Nat.and_two_pow_sub_one_eq_mod x 2
theorem and7 (x : Nat) : x &&& 7 = x % 8 := Nat.and_two_pow_sub_one_eq_mod x 3
theorem and63 (x : Nat) : x &&& 63 = x % 64 := Nat.and_two_pow_sub_one_eq_mod x 6

/-- `a ||| b = a + b` when `a` is a multiple of `2^i` and `b < 2^i` -/
theorem or_eq_add (i a b : Nat) (hb : b < 2 ^ i) : (a <<< i) ||| b = a <<< i + b :=
  (Nat.shiftLeft_add_eq_or_of_lt hb a).symm

theorem blockSizeExpr_eq (b0 b1 b2 : Nat) (h0 : b0 < 256) (h1 : b1 < 256) (h2 : b2 < 256) :
    Gen.blockSizeExpr b0 b1 b2 = (b0 + 256 * b1 + 65536 * b2) / 8 := by
  unfold Gen.blockSizeExpr
  have e1 : (b0 >>> 3) ||| (b1 <<< 5) = b1 <<< 5 + b0 >>> 3 := by
    rw [Nat.or_comm]; exact or_eq_add 5 b1 _ (by simp only [Nat.shiftRight_eq_div_pow]; omega)
  rw [e1]
  have e2 : (b1 <<< 5 + b0 >>> 3) ||| (b2 <<< 13) = b2 <<< 13 + (b1 <<< 5 + b0 >>> 3) := by
    rw [Nat.or_comm]; exact or_eq_add 13 b2 _ (by simp only [Nat.shiftRight_eq_div_pow, Nat.shiftLeft_eq]; omega)
  rw [e2]
  simp only [Nat.shiftRight_eq_div_pow, Nat.shiftLeft_eq]
  omega

theorem blockTypeExpr_eq (b0 b1 b2 : Nat) : Gen.blockTypeExpr b0 b1 b2 = b0 / 2 % 4 := by
  simp only [Gen.blockTypeExpr, and3, Nat.shiftRight_eq_div_pow, Nat.pow_one]

theorem blockLastExpr_eq (b0 b1 b2 : Nat) : Gen.blockLastExpr b0 b1 b2 = b0 % 2 := by
  simp only [Gen.blockLastExpr, and1]

theorem blockTypeMap_id : ∀ t, t < 4 → lookupArm Gen.blockTypeMap t = some t := by decide

theorem readBlockHeader_eq (b0 b1 b2 : Nat) (rest : List Nat) (h0 : b0 < 256) (h1 : b1 < 256) (h2 : b2 < 256) :
    readBlockHeader (b0 :: b1 :: b2 :: rest) =
      (let h := Spec.parseBlockHeader b0 b1 b2
       if h.btype = 3 then .error .reserved
       else if h.size > Spec.blockMaxSize then .error (.tooLarge h.size)
       else .ok ({ last := h.last, btype := h.btype,
                   decompressedSize := if h.btype = 2 then 0 else h.size,
                   contentSize := if h.btype = 1 then 1 else h.size }, 3)) := by
  have ht : (b0 + 256 * b1 + 65536 * b2) / 2 % 4 = b0 / 2 % 4 := by omega
  have hl : (b0 + 256 * b1 + 65536 * b2) % 2 = b0 % 2 := by omega
  have hlt : b0 / 2 % 4 < 4 := by omega
  simp only [readBlockHeader, blockType, blockContentSize, blockTypeExpr_eq, blockLastExpr_eq,
    blockSizeExpr_eq b0 b1 b2 h0 h1 h2, blockTypeMap_id _ hlt, Spec.parseBlockHeader, ht, hl,
    Gen.blockSizeTooLarge, Gen.maxBlockSize, Spec.blockMaxSize]
  by_cases h3 : b0 / 2 % 4 = 3
  · simp only [h3, if_true]
  · simp only [h3, if_false]
    by_cases hs : (b0 + 256 * b1 + 65536 * b2) / 8 > 131072
    · simp [hs]
    · have : b0 / 2 % 4 = 0 ∨ b0 / 2 % 4 = 1 ∨ b0 / 2 % 4 = 2 := by omega
      rcases this with h | h | h <;> simp [hs, h, sizeByType, lookupArm, Gen.blockDecompressedSizeArms, Gen.blockContentSizeArms]


/-! ## block header writer -/


theorem encBlockTypeMap_id : ∀ t, t ≤ 2 → lookupArm Gen.encBlockTypeMap t = some t := by decide

/-- the three bytes the encoder writes are the little-endian bytes of `size*8 + type*2 + last` -/
theorem serializeBlockHeader_eq (last : Bool) (t size : Nat) (ht : t ≤ 2) (hs : size < 2 ^ 21) :
    serializeBlockHeader last t size =
      .ok (let h := size * 8 + t * 2 + last.toNat; [h % 256, h / 256 % 256, h / 65536 % 256]) := by
  have hl : last.toNat < 2 := by cases last <;> decide
  have e0 : (size <<< 3) % 2 ^ 32 = size <<< 3 := by
    simp only [Nat.shiftLeft_eq]; omega
  have e1 : (size <<< 3) ||| (t <<< 1) = size <<< 3 + t <<< 1 :=
    or_eq_add 3 size _ (by simp only [Nat.shiftLeft_eq]; omega)
  have e2 : size <<< 3 + t <<< 1 = (size * 4 + t) <<< 1 := by simp only [Nat.shiftLeft_eq]; omega
  have e3 : ((size * 4 + t) <<< 1) ||| last.toNat = (size * 4 + t) <<< 1 + last.toNat :=
    or_eq_add 1 _ _ (by omega)
  simp only [serializeBlockHeader, encBlockTypeMap_id t ht, Gen.encBlockSizeShift, Gen.encBlockTypeShift,
    Gen.encBlockBytes, e0, e1, e2, e3, leBytes]
  simp only [Nat.shiftLeft_eq]
  have : (size * 4 + t) * 2 ^ 1 + last.toNat = size * 8 + t * 2 + last.toNat := by omega
  rw [this]
  have : (size * 8 + t * 2 + last.toNat) / 256 / 256 = (size * 8 + t * 2 + last.toNat) / 65536 := by omega
  rw [this]

/-! ## literals section header parser -/


theorem byteAt_lt (raw : List Nat) (h : ∀ b ∈ raw, b < 256) (i : Nat) : byteAt raw i < 256 := by
  unfold byteAt
  cases hi : raw[i]? with
  | none => simp
  | some v => exact h v (List.mem_of_getElem? hi)

theorem leNat_take1 : ∀ raw : List Nat, 1 ≤ raw.length → leNat (raw.take 1) = byteAt raw 0
  | a :: _, _ => by simp [leNat, byteAt]
theorem leNat_take2 : ∀ raw : List Nat, 2 ≤ raw.length → leNat (raw.take 2) = byteAt raw 0 + 256 * byteAt raw 1
  | a :: b :: _, _ => by simp [leNat, byteAt]
  | [_], h => by simp at h
  | [], h => by simp at h
theorem leNat_take3 : ∀ raw : List Nat, 3 ≤ raw.length →
    leNat (raw.take 3) = byteAt raw 0 + 256 * byteAt raw 1 + 65536 * byteAt raw 2
  | a :: b :: c :: _, _ => by simp [leNat, byteAt]; omega
  | [_, _], h => by simp at h
  | [_], h => by simp at h
  | [], h => by simp at h
theorem leNat_take4 : ∀ raw : List Nat, 4 ≤ raw.length →
    leNat (raw.take 4) = byteAt raw 0 + 256 * byteAt raw 1 + 65536 * byteAt raw 2 + 16777216 * byteAt raw 3
  | a :: b :: c :: d :: _, _ => by simp [leNat, byteAt]; omega
  | [_, _, _], h => by simp at h
  | [_, _], h => by simp at h
  | [_], h => by simp at h
  | [], h => by simp at h
theorem leNat_take5 : ∀ raw : List Nat, 5 ≤ raw.length →
    leNat (raw.take 5) = byteAt raw 0 + 256 * byteAt raw 1 + 65536 * byteAt raw 2 + 16777216 * byteAt raw 3
      + 4294967296 * byteAt raw 4
  | a :: b :: c :: d :: e :: _, _ => by simp [leNat, byteAt]; omega
  | [_, _, _, _], h => by simp at h
  | [_, _, _], h => by simp at h
  | [_, _], h => by simp at h
  | [_], h => by simp at h
  | [], h => by simp at h

theorem litTypeMap_id : ∀ t, t < 4 → lookupArm Gen.litTypeMap t = some t := by decide
theorem litSectionType_eq (x : Nat) : litSectionType x = .ok (x % 4) := by
  have : x % 4 < 4 := by omega
  simp only [litSectionType, Gen.litTypeOfRaw, and3, litTypeMap_id _ this]
theorem litNeeded_eq : ∀ r0, r0 < 256 → litHeaderBytesNeeded r0 = .ok (Spec.Hdr.litHeaderSize r0) := by decide +kernel


theorem leNat_take_eq (raw : List Nat) (hb : ∀ b ∈ raw, b < 256) (n : Nat) (hn : 1 ≤ n ∧ n ≤ 5) (hl : ¬ raw.length < n) :
    leNat (raw.take n) = (byteAt raw 0 + 256 * byteAt raw 1 + 65536 * byteAt raw 2 + 16777216 * byteAt raw 3
      + 4294967296 * byteAt raw 4) % 256 ^ n := by
  have b0 := byteAt_lt raw hb 0
  have b1 := byteAt_lt raw hb 1
  have b2 := byteAt_lt raw hb 2
  have b3 := byteAt_lt raw hb 3
  have b4 := byteAt_lt raw hb 4
  have : n = 1 ∨ n = 2 ∨ n = 3 ∨ n = 4 ∨ n = 5 := by omega
  rcases this with h | h | h | h | h <;> subst h
  · rw [leNat_take1 _ (by omega)]; omega
  · rw [leNat_take2 _ (by omega)]; omega
  · rw [leNat_take3 _ (by omega)]; omega
  · rw [leNat_take4 _ (by omega)]; omega
  · rw [leNat_take5 _ (by omega)]; omega

theorem litHeaderSize_range (r0 : Nat) : 1 ≤ Spec.Hdr.litHeaderSize r0 ∧ Spec.Hdr.litHeaderSize r0 ≤ 5 := by
  unfold Spec.Hdr.litHeaderSize
  simp only []
  split <;> split <;> (try split) <;> omega

theorem ok_lit_ext {a a' : Nat} {c c' : Option Nat} {s : Option Nat} {t n : Nat} (h1 : a = a') (h2 : c = c') :
    (Except.ok (({ regen := a, comp := c, streams := s, ty := t } : LitSection), n) : Except LitHdrErr (LitSection × Nat)) =
      .ok ({ regen := a', comp := c', streams := s, ty := t }, n) := by
  subst h1 h2; rfl

set_option hygiene false in
macro "lit_case" k:num : tactic => `(tactic| (
  have hk : Spec.Hdr.litHeaderSize r0 = $k := by
    simp (config := { decide := true }) only [Spec.Hdr.litHeaderSize, ht, hs]
  rw [hk] at hlen ⊢
  have ht' : ((r0 + 256 * r1 + 65536 * r2 + 16777216 * r3 + 4294967296 * r4) % 256 ^ $k) % 4 = r0 % 4 := by omega
  have hs' : ((r0 + 256 * r1 + 65536 * r2 + 16777216 * r3 + 4294967296 * r4) % 256 ^ $k) / 4 % 4 = r0 / 4 % 4 := by omega
  generalize hV : (r0 + 256 * r1 + 65536 * r2 + 16777216 * r3 + 4294967296 * r4) % 256 ^ $k = V at *
  rw [hm, ht, hs]
  simp only [Gen.litParseRawRle, Gen.litParseCompressed, Gen.litParseRawRleReach, Gen.litParseCompressedReach,
    Gen.litStreams, lookupArm]
  simp (config := { decide := true }) only [hlen, if_true, if_false, true_or, or_true, or_false, false_or]
  rw [ht] at ht'
  rw [hs] at hs'
  simp (config := { decide := true }) only [Spec.Hdr.litHeaderOfValue, ht', hs', if_true, if_false]
  clear hb e0 hr1 hr2 hr3 hr4 hlen hk hm
  apply ok_lit_ext
  · simp only [Nat.shiftRight_eq_div_pow, Nat.shiftLeft_eq, and3, and63]; omega
  · first
    | exact rfl
    | (apply congrArg some; simp only [Nat.shiftRight_eq_div_pow, Nat.shiftLeft_eq, and3, and63]; omega)))

theorem parseLitHeader_eq (self : LitSection) (raw : List Nat) (hb : ∀ b ∈ raw, b < 256) :
    parseLitHeader self raw =
      match raw with
      | [] => .error (.getBits 2 0)
      | r0 :: _ =>
        match Spec.Hdr.parseLitHeader raw with
        | none => .error (.notEnoughBytes raw.length (Spec.Hdr.litHeaderSize r0))
        | some h => .ok ({ ty := h.ltype, regen := h.regen, comp := h.comp,
                           streams := if h.ltype < 2 then self.streams else h.streams }, h.size) := by
  cases raw with
  | nil => rfl
  | cons r0 tail =>
    have h0 : r0 < 256 := hb r0 (by simp)
    have b1 := byteAt_lt (r0 :: tail) hb 1
    have b2 := byteAt_lt (r0 :: tail) hb 2
    have b3 := byteAt_lt (r0 :: tail) hb 3
    have b4 := byteAt_lt (r0 :: tail) hb 4
    have e0 : byteAt (r0 :: tail) 0 = r0 := by simp [byteAt]
    simp only [Spec.Hdr.parseLitHeader, parseLitHeader, litSectionType_eq, litNeeded_eq r0 h0]
    by_cases hlen : (r0 :: tail).length < Spec.Hdr.litHeaderSize r0
    · simp only [hlen, if_true]
    · simp only [hlen, if_false]
      rw [leNat_take_eq _ hb _ (litHeaderSize_range r0) hlen, e0]
      have hm : r0 % 4 % 4 = r0 % 4 := by omega
      generalize hr1 : byteAt (r0 :: tail) 1 = r1 at *
      generalize hr2 : byteAt (r0 :: tail) 2 = r2 at *
      generalize hr3 : byteAt (r0 :: tail) 3 = r3 at *
      generalize hr4 : byteAt (r0 :: tail) 4 = r4 at *
      have ht : r0 % 4 = 0 ∨ r0 % 4 = 1 ∨ r0 % 4 = 2 ∨ r0 % 4 = 3 := by omega
      have hs : r0 / 4 % 4 = 0 ∨ r0 / 4 % 4 = 1 ∨ r0 / 4 % 4 = 2 ∨ r0 / 4 % 4 = 3 := by omega
      rcases ht with ht | ht | ht | ht <;> rcases hs with hs | hs | hs | hs
      · lit_case 1
      · lit_case 2
      · lit_case 1
      · lit_case 3
      · lit_case 1
      · lit_case 2
      · lit_case 1
      · lit_case 3
      · lit_case 3
      · lit_case 3
      · lit_case 4
      · lit_case 5
      · lit_case 3
      · lit_case 3
      · lit_case 4
      · lit_case 5

/-! ## BitWriter and the literals-section header writers -/


/-- one `write_bits` that fits the partial word: the bits are added above the ones already there -/
theorem writeBits_ok (o : List Nat) (p b v n : Nat) (hn : 0 < n) (hv : v < 2 ^ n) (hb : n + b < 64)
    (hp : p < 2 ^ b) :
    BW.writeBits { out := o, part := p, bits := b } v n = .ok { out := o, part := p + v * 2 ^ b, bits := b + n } ∧
      p + v * 2 ^ b < 2 ^ (b + n) := by
  have hlt : p + v * 2 ^ b < 2 ^ (b + n) := by
    rw [Nat.pow_add]
    have : v * 2 ^ b ≤ (2 ^ n - 1) * 2 ^ b := Nat.mul_le_mul_right _ (by omega)
    have e : (2 ^ n - 1) * 2 ^ b = 2 ^ n * 2 ^ b - 2 ^ b := by
      rw [Nat.sub_mul, Nat.one_mul]
    have : 2 ^ b ≤ 2 ^ n * 2 ^ b := Nat.le_mul_of_pos_left _ (Nat.two_pow_pos n)
    rw [Nat.mul_comm (2 ^ b) (2 ^ n)]
    omega
  refine ⟨?_, hlt⟩
  have h0 : ¬ n = 0 := by omega
  have h1 : ¬ (v > 0 ∧ Nat.log2 v > n) := by
    intro ⟨hpos, hl⟩
    have : Nat.log2 v < n := (Nat.log2_lt (by omega)).2 hv
    omega
  have h64 : (2 : Nat) ^ (b + n) ≤ 2 ^ 64 := Nat.pow_le_pow_right (by decide) (by omega)
  have hor : p ||| (v <<< b) = p + v * 2 ^ b := by
    rw [Nat.or_comm, or_eq_add _ _ _ hp, Nat.shiftLeft_eq, Nat.add_comm]
  simp only [BW.writeBits, h0, h1, hb, if_false, if_true, hor]
  rw [Nat.mod_eq_of_lt (by omega)]

theorem size_arms : ∀ regen, regen < 262144 →
    litSizeFormat Gen.litSizeFormatArms regen =
      some (if regen < 6 then (0, 10) else if regen < 1024 then (1, 10) else if regen < 16384 then (2, 14) else (3, 18)) := by
  intro regen h
  simp only [litSizeFormat, Gen.litSizeFormatArms]
  by_cases h1 : regen < 6
  · simp [h1]
  · by_cases h2 : regen < 1024
    · have : 6 ≤ regen := by omega
      simp [h1, h2, this]
    · by_cases h3 : regen < 16384
      · have : 1024 ≤ regen := by omega
        have : 6 ≤ regen := by omega
        simp [h1, h2, h3, *]
      · have : 1024 ≤ regen := by omega
        have : 6 ≤ regen := by omega
        have : 16384 ≤ regen := by omega
        simp [h1, h2, h3, h, *]

theorem size_arms_none : ∀ regen, 262144 ≤ regen → litSizeFormat Gen.litSizeFormatArms regen = none := by
  intro regen h
  have : ¬ regen < 6 := by omega
  have : ¬ regen < 1024 := by omega
  have : ¬ regen < 16384 := by omega
  have : ¬ regen < 262144 := by omega
  simp [litSizeFormat, Gen.litSizeFormatArms, *]

/-- the compressed/treeless header is the little-endian image of
`type + 4·format + 16·regen + 2^(4+bits)·comp` -/
theorem compressedLiteralsHeader_eq (newTable : Bool) (regen comp sf sb : Nat)
    (harm : litSizeFormat Gen.litSizeFormatArms regen = some (sf, sb))
    (hsf : sf < 4) (hsb : sb = 10 ∨ sb = 14 ∨ sb = 18) (hr : regen < 2 ^ sb) (hc : comp < 2 ^ sb) :
    compressedLiteralsHeader newTable regen comp =
      .ok (leBytes ((4 + 2 * sb) / 8) ((if newTable then 2 else 3) + 4 * sf + 16 * regen + 2 ^ (4 + sb) * comp)) := by
  have hr32 : regen % 2 ^ 32 = regen := by
    apply Nat.mod_eq_of_lt
    have : (2 : Nat) ^ sb ≤ 2 ^ 32 := Nat.pow_le_pow_right (by decide) (by omega)
    omega
  have ht : (if newTable then Gen.litTypeNewTable else Gen.litTypeReuseTable) < 2 ^ 2 := by
    cases newTable <;> decide
  have hte : (if newTable then Gen.litTypeNewTable else Gen.litTypeReuseTable) = (if newTable then 2 else 3) := by
    cases newTable <;> rfl
  simp only [compressedLiteralsHeader, harm, hr32, BW.writeAll, Gen.litTypeBits, Gen.litSizeFormatBits, BW.new]
  generalize hT : (if newTable = true then Gen.litTypeNewTable else Gen.litTypeReuseTable) = T at *
  obtain ⟨e1, p1⟩ := writeBits_ok [] 0 0 T 2 (by decide) ht (by decide) (by decide)
  simp only [e1]
  obtain ⟨e2, p2⟩ := writeBits_ok [] (0 + T * 2 ^ 0) (0 + 2) sf 2 (by decide) (by omega) (by decide) p1
  simp only [e2]
  obtain ⟨e3, p3⟩ := writeBits_ok [] _ (0 + 2 + 2) regen sb (by omega) hr (by omega) p2
  simp only [e3]
  obtain ⟨e4, p4⟩ := writeBits_ok [] _ (0 + 2 + 2 + sb) comp sb (by omega) hc (by omega) p3
  simp only [e4]
  have hbits : 0 + 2 + 2 + sb + sb = 4 + 2 * sb := by omega
  have h8 : (4 + 2 * sb) % 8 = 0 := by omega
  simp only [BW.dump, BW.misaligned, BW.index, BW.flush, List.length_nil, Nat.mul_zero, Nat.zero_add, hbits, h8,
    if_true, ne_eq, not_true_eq_false, if_false, List.nil_append]
  rw [hbits] at p4
  have h88 : 8 * ((4 + 2 * sb) / 8) = 4 + 2 * sb := by omega
  have hz : (0 + T * 2 ^ 0 + sf * 2 ^ (0 + 2) + regen * 2 ^ (0 + 2 + 2) +
      comp * 2 ^ (0 + 2 + 2 + sb)) >>> (8 * ((4 + 2 * sb) / 8)) = 0 := by
    rw [Nat.shiftRight_eq_div_pow, h88]
    exact Nat.div_eq_of_lt p4
  simp only [Nat.zero_add] at hz ⊢
  simp only [hz, not_true_eq_false, if_false]
  congr 2
  have e5 : (2:Nat) ^ (2 + 2 + sb) = 2 ^ (4 + sb) := by congr 1
  rw [e5, Nat.mul_comm (2 ^ (4 + sb)) comp, hte]
  generalize comp * 2 ^ (4 + sb) = X
  omega

theorem leBytes_succ (k v : Nat) : leBytes (k + 1) v = (v % 256) :: leBytes k (v / 256) := rfl

/-- RFC reading of a header that is the little-endian image of `V` -/
theorem spec_parse_leBytes (k V : Nat) (rest : List Nat) (hk1 : 1 ≤ k)
    (hk : Spec.Hdr.litHeaderSize (V % 256) = k) (hV : V < 256 ^ k) :
    Spec.Hdr.parseLitHeader (leBytes k V ++ rest) = some (Spec.Hdr.litHeaderOfValue V) := by
  obtain ⟨j, rfl⟩ : ∃ j, k = j + 1 := ⟨k - 1, by omega⟩
  have hlen : ¬ ((leBytes (j + 1) V ++ rest).length < j + 1) := by
    simp only [List.length_append, leBytes_length]; omega
  have htake : (leBytes (j + 1) V ++ rest).take (j + 1) = leBytes (j + 1) V := by
    rw [List.take_append_of_le_length (by simp only [leBytes_length]; omega)]
    exact List.take_of_length_le (by simp only [leBytes_length]; omega)
  have hle : leNat (leBytes (j + 1) V) = V := by
    rw [leNat_leBytes, Nat.mod_eq_of_lt hV]
  rw [show leBytes (j + 1) V ++ rest = (V % 256) :: (leBytes j (V / 256) ++ rest) from rfl] at hlen htake ⊢
  simp only [Spec.Hdr.parseLitHeader, hk, hlen, if_false, htake, hle]

theorem bytes_append_lt (k V : Nat) (rest : List Nat) (hr : ∀ b ∈ rest, b < 256) :
    ∀ b ∈ leBytes k V ++ rest, b < 256 := by
  intro b hb
  rcases List.mem_append.1 hb with h | h
  · exact leBytes_lt k V b h
  · exact hr b h

/-- the RFC fields of the value `T + 4·sf + 16·regen + 2^(4+sb)·comp` for the four (format, bits) pairs -/
theorem spec_fields (T sf sb regen comp : Nat) (hT : T = 2 ∨ T = 3)
    (hp : (sf = 0 ∧ sb = 10) ∨ (sf = 1 ∧ sb = 10) ∨ (sf = 2 ∧ sb = 14) ∨ (sf = 3 ∧ sb = 18))
    (hr : regen < 2 ^ sb) (hc : comp < 2 ^ sb) :
    Spec.Hdr.litHeaderSize ((T + 4 * sf + 16 * regen + 2 ^ (4 + sb) * comp) % 256) = (4 + 2 * sb) / 8 ∧
    T + 4 * sf + 16 * regen + 2 ^ (4 + sb) * comp < 256 ^ ((4 + 2 * sb) / 8) ∧
    Spec.Hdr.litHeaderOfValue (T + 4 * sf + 16 * regen + 2 ^ (4 + sb) * comp) =
      ⟨T, regen, some comp, some (if sf = 0 then 1 else 4), (4 + 2 * sb) / 8⟩ := by
  have nT : ¬ T < 2 := by omega
  rcases hp with ⟨hsf, rfl⟩ | ⟨hsf, rfl⟩ | ⟨hsf, rfl⟩ | ⟨hsf, rfl⟩ <;> (
    generalize hV : T + 4 * sf + 16 * regen + 2 ^ (4 + _) * comp = V
    have f1 : V % 256 % 4 = V % 4 := by omega
    have f2 : V % 256 / 4 % 4 = V / 4 % 4 := by omega
    have g1 : V % 4 = T := by omega
    have g2 : V / 4 % 4 = sf := by omega
    refine ⟨?_, by omega, ?_⟩
    · simp (config := { decide := true }) only [Spec.Hdr.litHeaderSize, f1, f2, g1, g2, nT, if_false, hsf]
    · simp (config := { decide := true }) only [Spec.Hdr.litHeaderOfValue, g1, g2, nT, if_false, hsf, if_true]
      refine Spec.Hdr.LitHeader.mk.injEq .. ▸ ⟨rfl, by omega, ?_, rfl, rfl⟩
      apply congrArg some; omega)

/-- the raw-literals header is the little-endian image of `0 + 4·3 + 16·n` in three bytes -/
theorem rawLiteralsHeader_eq (n : Nat) (hn : n < 2 ^ 20) : rawLiteralsHeader n = .ok (leBytes 3 (12 + 16 * n)) := by
  have hr32 : n % 2 ^ 32 = n := Nat.mod_eq_of_lt (by omega)
  simp only [rawLiteralsHeader, rawLiteralsWriter, Gen.rawLitWrites, Gen.rawLitSizeBits, List.cons_append, List.nil_append,
    BW.writeAll, hr32, BW.new]
  obtain ⟨e1, p1⟩ := writeBits_ok [] 0 0 0 2 (by decide) (by decide) (by decide) (by decide)
  simp only [e1]
  obtain ⟨e2, p2⟩ := writeBits_ok [] (0 + 0 * 2 ^ 0) (0 + 2) 3 2 (by decide) (by decide) (by decide) p1
  simp only [e2]
  obtain ⟨e3, p3⟩ := writeBits_ok [] _ (0 + 2 + 2) n 20 (by decide) hn (by decide) p2
  simp only [e3]
  simp only [BW.appendBytes, BW.misaligned, BW.index, BW.flush, List.length_nil, List.append_nil]
  simp (config := { decide := true }) only [if_true, if_false, List.nil_append]
  congr 2
  omega

theorem spec_fields_raw (n : Nat) (hn : n < 2 ^ 20) :
    Spec.Hdr.litHeaderSize ((12 + 16 * n) % 256) = 3 ∧ 12 + 16 * n < 256 ^ 3 ∧
    Spec.Hdr.litHeaderOfValue (12 + 16 * n) = ⟨0, n, none, none, 3⟩ := by
  generalize hV : 12 + 16 * n = V
  have f1 : V % 256 % 4 = V % 4 := by omega
  have f2 : V % 256 / 4 % 4 = V / 4 % 4 := by omega
  have g1 : V % 4 = 0 := by omega
  have g2 : V / 4 % 4 = 3 := by omega
  refine ⟨?_, by omega, ?_⟩
  · simp (config := { decide := true }) only [Spec.Hdr.litHeaderSize, f1, f2, g1, g2, if_false, if_true]
  · simp (config := { decide := true }) only [Spec.Hdr.litHeaderOfValue, g1, g2, if_false, if_true]
    refine Spec.Hdr.LitHeader.mk.injEq .. ▸ ⟨rfl, by omega, rfl, rfl, rfl⟩

theorem size_arms_cases (regen sf sb : Nat) (h : litSizeFormat Gen.litSizeFormatArms regen = some (sf, sb)) :
    regen < 2 ^ sb ∧ regen < 262144 ∧ (sf = 0 ↔ regen < 6) ∧
    ((sf = 0 ∧ sb = 10) ∨ (sf = 1 ∧ sb = 10) ∨ (sf = 2 ∧ sb = 14) ∨ (sf = 3 ∧ sb = 18)) := by
  by_cases hreg : regen < 262144
  · rw [size_arms regen hreg] at h
    injection h with h
    by_cases h1 : regen < 6
    · simp only [h1, if_true, Prod.mk.injEq] at h; obtain ⟨rfl, rfl⟩ := h; simp; omega
    · by_cases h2 : regen < 1024
      · simp only [h1, h2, if_true, if_false, Prod.mk.injEq] at h; obtain ⟨rfl, rfl⟩ := h; simp; omega
      · by_cases h3 : regen < 16384
        · simp only [h1, h2, h3, if_true, if_false, Prod.mk.injEq] at h; obtain ⟨rfl, rfl⟩ := h; simp; omega
        · simp only [h1, h2, h3, if_false, Prod.mk.injEq] at h; obtain ⟨rfl, rfl⟩ := h; simp; omega
  · rw [size_arms_none regen (by omega)] at h; cases h



/-! ## frame header -/

theorem fd_single : ∀ d, d < 256 → Gen.fdSingleSegment d = (Spec.parseFrameDesc d).singleSegment := by decide +kernel
theorem fd_checksum : ∀ d, d < 256 → Gen.fdChecksum d = (Spec.parseFrameDesc d).checksum := by decide +kernel
theorem fd_fcsBytes : ∀ d, d < 256 → fcsBytes d = .ok (Spec.fcsFieldSize (Spec.parseFrameDesc d)) := by decide +kernel
theorem fd_dictIdBytes : ∀ d, d < 256 → dictIdBytes d = .ok (Spec.didFieldSize (Spec.parseFrameDesc d)) := by decide +kernel
theorem fd_sizes : ∀ d, d < 256 → Spec.didFieldSize (Spec.parseFrameDesc d) ≤ 4 ∧ Spec.fcsFieldSize (Spec.parseFrameDesc d) ≤ 8 := by
  decide +kernel

theorem window_expr : ∀ wd, wd < 256 → Gen.windowSizeExpr wd = Spec.windowSize wd := by decide +kernel
theorem window_check : ∀ wd, wd < 256 → checkWindowRange (Gen.windowSizeExpr wd) = .ok (Spec.windowSize wd) := by decide +kernel
theorem window_range : ∀ wd, wd < 256 → Spec.windowMin ≤ Spec.windowSize wd ∧ Spec.windowSize wd ≤ Spec.windowMax := by decide +kernel

theorem magic_bytes : leBytes 4 Gen.magicNum = [40, 181, 47, 253] := by decide
theorem readExact_magic (bs : List Nat) : readExact 4 (leBytes 4 Gen.magicNum ++ bs) = some (leBytes 4 Gen.magicNum, bs) := by
  rw [magic_bytes]; rfl
theorem magic_val : leNat (leBytes 4 Gen.magicNum) = Gen.magicNum := by decide
theorem magic_not_skip : ¬ (Gen.skipMagicLo ≤ Gen.magicNum ∧ Gen.magicNum ≤ Gen.skipMagicHi) := by decide

/-- the model's `read_frame_header` after the magic number, in closed form -/
theorem readFrameHeader_eq (d : Nat) (rest : List Nat) (hd : d < 256) :
    readFrameHeader (leBytes 4 Gen.magicNum ++ d :: rest) =
      (let f := Spec.parseFrameDesc d
       let nw := if f.singleSegment then 0 else 1
       let nd := Spec.didFieldSize f
       let nf := Spec.fcsFieldSize f
       if rest.length < nw then .error .windowRead
       else if rest.length < nw + nd then .error .dictIdRead
       else if rest.length < nw + nd + nf then .error .fcsRead
       else
         let did := leNat ((rest.drop nw).take nd)
         let fcs0 := leNat ((rest.drop (nw + nd)).take nf)
         .ok ({ desc := d, windowDescriptor := leNat (rest.take nw),
                dictId := if nd ≠ 0 ∧ did ≠ 0 then some did else none,
                fcs := if nf = 2 then fcs0 + 256 else fcs0 },
              5 + nw + nd + nf, rest.drop (nw + nd + nf))) := by
  have hs := fd_sizes d hd
  simp only [readFrameHeader, readExact_magic, magic_val, magic_not_skip, if_false, ne_eq, not_true_eq_false,
    fd_single d hd, fd_fcsBytes d hd, fd_dictIdBytes d hd, Gen.fcsAddLen, Gen.fcsAdd]
  generalize Spec.didFieldSize (Spec.parseFrameDesc d) = nd at *
  generalize Spec.fcsFieldSize (Spec.parseFrameDesc d) = nf at *
  cases hss : (Spec.parseFrameDesc d).singleSegment
  · -- not single segment: a window descriptor byte follows
    cases rest with
    | nil => simp
    | cons w s3 =>
      simp only [Bool.false_eq_true, if_false, readExact, List.length_cons]
      by_cases h1 : s3.length < nd
      · have : s3.length + 1 < 1 + nd := by omega
        simp [h1, this]
      · have n1 : ¬ (s3.length + 1 < 1 + nd) := by omega
        by_cases h2 : s3.length - nd < nf
        · have : s3.length + 1 < 1 + nd + nf := by omega
          simp [h1, n1, h2, this]
        · have n2 : ¬ (s3.length + 1 < 1 + nd + nf) := by omega
          have e1 : (1 + nd) = nd + 1 := by omega
          have e2 : (1 + nd + nf) = (nd + nf) + 1 := by omega
          have e3 : (6 + nd + nf) % 256 = 6 + nd + nf := by omega
          have n3 : ¬ (s3.length + 1 < nd + 1 + nf) := by omega
          have e4 : nd + 1 + nf = (nd + nf) + 1 := by omega
          simp [h1, n1, h2, n2, e1, e2, e3, leNat, List.drop_drop]
          rw [if_neg n3, e4, List.drop_succ_cons]
          rfl
  · simp only [if_true, readExact, Nat.zero_add, List.drop_zero, List.take_zero, leNat]
    by_cases h1 : rest.length < nd
    · simp [h1]
    · by_cases h2 : rest.length - nd < nf
      · have : rest.length < nd + nf := by omega
        simp [h1, h2, this]
      · have n2 : ¬ (rest.length < nd + nf) := by omega
        have e3 : (5 + nd + nf) % 256 = 5 + nd + nf := by omega
        simp [h1, h2, n2, e3, List.drop_drop]
        rfl


theorem compress_descriptor (hash : Bool) (w : Nat) :
    (compressFrameHeader hash w).descriptor = .ok (4 * hash.toNat) := by
  have h0 : ∀ hash : Bool, (compressFrameHeader hash 0).descriptor = .ok (4 * hash.toNat) := by decide
  rw [← h0 hash]
  simp only [compressFrameHeader, EncFrameHeader.descriptor, Option.isNone_some]
  rfl

/-- `log = window_size.next_power_of_two().ilog2()` -/
def winLog (w : Nat) : Nat := if w ≤ 1 then 0 else Nat.log2 (w - 1) + 1

theorem winLog_spec (w : Nat) : w ≤ 2 ^ winLog w ∧ (2 ≤ w → 2 ^ winLog w < 2 * w) := by
  unfold winLog
  by_cases h : w ≤ 1
  · rw [if_pos h, Nat.pow_zero]; omega
  · rw [if_neg h]
    have h1 : w - 1 ≠ 0 := by omega
    have l1 : 2 ^ Nat.log2 (w - 1) ≤ w - 1 := Nat.log2_self_le h1
    have l2 : w - 1 < 2 ^ (Nat.log2 (w - 1) + 1) := Nat.lt_log2_self
    rw [Nat.pow_succ] at l2 ⊢
    omega

theorem winLog_le (w k : Nat) (h : w ≤ 2 ^ k) : winLog w ≤ k := by
  unfold winLog
  by_cases h1 : w ≤ 1
  · simp only [h1, if_true]; omega
  · simp only [h1, if_false]
    have : w - 1 < 2 ^ k := by have := Nat.two_pow_pos k; omega
    have := (Nat.log2_lt (by omega : w - 1 ≠ 0)).2 this
    omega

theorem nextPowerOfTwo_eq (w : Nat) (h : w ≤ 2 ^ 63) : nextPowerOfTwo w = .ok (2 ^ winLog w) := by
  unfold nextPowerOfTwo winLog
  by_cases h1 : w ≤ 1
  · simp only [h1, if_true, Nat.pow_zero]
  · simp only [h1, if_false]
    have : w - 1 < 2 ^ 63 := by omega
    have hl := (Nat.log2_lt (by omega : w - 1 ≠ 0)).2 this
    have : (2:Nat) ^ (Nat.log2 (w - 1) + 1) ≤ 2 ^ 63 := Nat.pow_le_pow_right (by decide) (by omega)
    have : ¬ ((2:Nat) ^ (Nat.log2 (w - 1) + 1) ≥ 2 ^ 64) := by omega
    simp only [this, if_false]

/-- the window descriptor byte for a requested window up to 2^41: exponent `max(log,11) - 10`, mantissa 0 -/
theorem encWindowDescriptor_eq (w : Nat) (h : w ≤ 2 ^ 41) :
    encWindowDescriptor w = .ok (8 * ((if winLog w > 10 then winLog w else 11) - 10)) := by
  have hl : winLog w ≤ 41 := winLog_le w 41 h
  have h63 : w ≤ 2 ^ 63 := Nat.le_trans h (by decide)
  simp only [encWindowDescriptor, nextPowerOfTwo_eq w h63, Nat.log2_two_pow, Gen.encWinLogAbove, Gen.encWinLogSub,
    Gen.encWinExpElse, Gen.encWinShift, Nat.shiftLeft_eq]
  by_cases h10 : winLog w > 10
  · simp only [h10, if_true]; congr 1; omega
  · simp only [h10, if_false]

/-- decoding that byte: the declared window is `2^max(log, 11)` -/
theorem windowSizeExpr_of_exp (e : Nat) (he : e ≤ 31) : Gen.windowSizeExpr (8 * e) = 2 ^ (10 + e) := by
  have e1 : (8 * e) >>> 3 = e := by rw [Nat.shiftRight_eq_div_pow]; omega
  have e2 : (8 * e) &&& 7 = 0 := by rw [and7]; omega
  simp only [Gen.windowSizeExpr, e1, e2, Nat.mul_zero, Nat.add_zero, Nat.shiftLeft_eq, Nat.one_mul]

end Zstd.Proofs.Headers
