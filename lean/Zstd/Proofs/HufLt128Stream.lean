import Zstd.Proofs.BitIO
import Zstd.Proofs.FseStreamInter
import Zstd.Proofs.FseCoupled
import Zstd.Proofs.FseDecTable
/-
Size of the interleaved FSE stream (`FSEEncoder::encode_interleaved`, stream part): every encoder step
for a symbol `x` writes the `numBits` of a state of `x`, at most `AL − ⌊log₂ p_x⌋` (closed form of the
table); then two state indices of `AL` bits and an end mark of at most 8 bits.  The bound does not
depend on the order of the symbols.
-/
namespace Zstd.Proofs.Huf
open Zstd Zstd.Spec Zstd.Model.BitIO Zstd.Model.Fse Zstd.Proofs.BitIO Zstd.Proofs.FseStream Zstd.Proofs.FseStreamInter

theorem log2_mono {a b : Nat} (ha : 1 ≤ a) (h : a ≤ b) : Nat.log2 a ≤ Nat.log2 b := by
  have ha0 : a ≠ 0 := by omega
  have hb0 : b ≠ 0 := by omega
  have h1 := Nat.log2_self_le ha0
  have h2 : ¬ Nat.log2 b < Nat.log2 a := by
    intro hlt
    have h3 : b < 2 ^ Nat.log2 a := (Nat.log2_lt hb0).mp hlt
    omega
  omega

/-- per-symbol cost: an upper bound for the number of bits of any state of `s` -/
def symCost (al : Nat) (probs : List Int) (s : Nat) : Nat := al - Nat.log2 (FseDecTable.nStates probs s)

variable {et : ETable} {dt : DTable} {al : Nat}

/-- the closed form of the table: a state of `s` reads at most `AL − ⌊log₂ p_s⌋` bits -/
theorem good_numBits_le {probs : List Int} {maxSymbol : Nat} {dec : Array DEntry} {ctr : Array Nat}
    (hv : FseDecTable.ValidDist al probs) (hms : probs.length ≤ maxSymbol + 1)
    (hdec : buildDecodingTableCore al probs.toArray maxSymbol = .ok (dec, ctr)) (hdt : dt.decode = dec)
    {s : Nat} {st : EState} (hg : Good dt al s st) : st.numBits ≤ symCost al probs s := by
  obtain ⟨hsz, hsymb, _, hent, hrk⟩ := FseDecTable.dec_table_char al probs maxSymbol hv hms dec ctr hdec
  obtain ⟨hidx, hget, _⟩ := hg
  rw [hdt] at hget
  have hlt : st.index < dec.size := by rw [hsz]; exact hidx
  have hgd : dec.getD st.index {} = entryOf s st := by
    rw [Array.getElem?_eq_getElem hlt] at hget
    simp only [Option.some.injEq] at hget
    simp [Array.getD, hlt, hget]
  have he := hent st.index hidx
  have hr := hrk st.index hidx
  rw [hgd] at he hr
  simp only [entryOf, FseFin.rfcEntry, Prod.mk.injEq] at he hr
  have hnb := he.2
  have hn1 : 1 ≤ FseDecTable.nStates probs s := by omega
  unfold symCost
  rw [hnb]
  have := log2_mono hn1 (Nat.le_add_right (FseDecTable.nStates probs s) (FseDecTable.rank dec st.index))
  omega

/-- the alternating encoder writes at most the sum of the per-symbol costs -/
theorem encAlt_len {usable : Nat → Prop} (hc : Coupled et dt al usable) (cost : Nat → Nat)
    (hcost : ∀ s st, usable s → Good dt al s st → st.numBits ≤ cost s) :
    ∀ (xs : List Nat) (ca cb : Nat) (a b : EState) (w : BitWriter) (L : List Bool),
      WInv w L → Good dt al ca a → Good dt al cb b → (∀ x ∈ xs, usable x) →
      ∃ w' a' b' F ca' cb', encAlt et xs w a b = .ok (w', a', b') ∧ WInv w' (L ++ F) ∧
        Good dt al ca' a' ∧ Good dt al cb' b' ∧ F.length ≤ (xs.map cost).sum := by
  intro xs
  induction xs with
  | nil =>
    intro ca cb a b w L hw ha hb _
    exact ⟨w, a, b, [], ca, cb, rfl, by simpa using hw, ha, hb, by simp⟩
  | cons x xs ih =>
    intro ca cb a b w L hw ha hb hu
    have hux : usable x := hu x (List.mem_cons_self ..)
    obtain ⟨nx, hnx, hb1, hb2, hgn⟩ := hc.next x a.index hux ha.1
    have hnb : nx.numBits ≤ 63 := by have := hgn.2.2; have := hc.al_le; omega
    obtain ⟨w1, hw1, hinv1⟩ := bitWriter_refines (v := a.index - nx.baseline) hw (by omega) hnb
    obtain ⟨w', a', b', F', ca', cb', henc, hw', hga', hgb', hlen⟩ :=
      ih cb x b nx w1 (L ++ bitsOfLE nx.numBits (a.index - nx.baseline)) hinv1 hb hgn
        (fun y hy => hu y (List.mem_cons_of_mem _ hy))
    refine ⟨w', a', b', bitsOfLE nx.numBits (a.index - nx.baseline) ++ F', ca', cb', ?_, ?_, hga', hgb', ?_⟩
    · simp only [encAlt, encStep, hnx, if_neg (show ¬ a.index < nx.baseline by omega), hw1, henc]
    · simpa [List.append_assoc] using hw'
    · have := hcost x nx hux hgn
      simp only [List.length_append, length_bitsOfLE, List.map_cons, List.sum_cons]
      omega

/-- **size of the interleaved stream** -/
theorem interleaved_len {usable : Nat → Prop} (hc : Coupled2 et dt al usable) (cost : Nat → Nat)
    (hcost : ∀ s st, usable s → Good dt al s st → st.numBits ≤ cost s)
    (data : List Nat) (h4 : 4 ≤ data.length) (hu : ∀ x ∈ data, usable x)
    {w : BitWriter} {L : List Bool} (hw : WInv w L) :
    ∃ w' S, encodeInterleavedStream et w data = .ok w' ∧ WInv w' (L ++ S) ∧ (L.length + S.length) % 8 = 0 ∧
      S.length ≤ (data.map cost).sum + 2 * al + 8 := by
  obtain ⟨ys, c2, c1, rfl⟩ := split_last2 data (by omega)
  have hn : (ys.reverse ++ [c2, c1]).length = ys.length + 2 := by simp
  rw [hn] at h4
  have hu1 : usable c1 := hu c1 (by simp)
  have hu2 : usable c2 := hu c2 (by simp)
  have huy : ∀ y ∈ ys, usable y := fun y hy => hu y (by simp [hy])
  obtain ⟨s1, hs1, hg1⟩ := hc.start c1 hu1
  obtain ⟨s2, hs2, hg2⟩ := hc.start c2 hu2
  obtain ⟨w1, a, b, F, ca', cb', henc, hw1, hga, hgb, hFlen⟩ :=
    encAlt_len hc.toCoupled cost hcost ys c1 c2 s1 s2 w L hw hg1 hg2 huy
  have hal63 : al ≤ 63 := by have := hc.al_le; omega
  obtain ⟨w2, hw2, hinv2⟩ := bitWriter_refines (v := a.index) (n := al) hw1 hga.1 hal63
  obtain ⟨w3, hw3, hinv3⟩ := bitWriter_refines (v := b.index) (n := al) hinv2 hgb.1 hal63
  obtain ⟨w4, m, hw4, hm1, hm8, hinv4, hal4⟩ := writeEndMark_ok hinv3
  refine ⟨w4, F ++ bitsOfLE al a.index ++ bitsOfLE al b.index ++ bitsOfLE m 1, ?_,
    by simpa [List.append_assoc] using hinv4, ?_, ?_⟩
  · rw [encodeInterleavedStream_eq et w ys c2 c1 (by omega)]
    simp only [encodeInterAlt, hs1, hs2, hc.encLog, henc, hw2, hw3, hw4]
  · simp only [List.length_append, length_bitsOfLE] at hal4 ⊢; omega
  · simp only [List.length_append, length_bitsOfLE, List.map_append, List.sum_append, List.map_reverse,
      List.sum_reverse, List.map_cons, List.sum_cons, List.map_nil, List.sum_nil]
    omega

end Zstd.Proofs.Huf
