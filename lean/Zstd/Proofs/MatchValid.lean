import Zstd.Proofs.MatchProtocol
import Zstd.Model.EncCoders
/-
C17 ⇒ C02/C16: the script the built-in matcher produces for a frame (`builtinFrame` of
`Model/EncCoders.lean`, i.e. the C17 model driven the way `FrameCompressor::compress` /
`compress_fastest` drive it: `reset`, then per block `get_next_space`, `commit_space`,
`skip_matching` for a constant block and `start_matching` otherwise) is a `ValidMatcher` in the
sense of the encoder model, and none of these calls panics — for every input and every state of the
driver that the compressor's own call protocol can produce (`BuiltinState`: any history of frames
at any level, including frames that panicked outside the matcher).

The proof does not use that production has a single slice: the invariant is that the bytes the
matcher retains are a SUFFIX of the frame produced so far, whatever was evicted; so a match reported
inside the retained window is a match at the same distance in the frame, and its distance is at
most the advertised window.  (With one 128 KiB slice the retained suffix is the current block only:
`prod_window_is_current_block` of Props/C17.)
-/
namespace Zstd.Proofs.MG
open Zstd Zstd.Model Zstd.Model.MG

/-! ### from the matcher's sequences to the encoder's `Parse` -/

def triplesOf : List Seq → List Enc.MSeq
  | [] => []
  | .triple l o m :: r => ⟨l, o, m⟩ :: triplesOf r
  | .literals _ :: r => triplesOf r

def tailOf : List Seq → List Byte
  | [] => []
  | .triple _ _ _ :: r => tailOf r
  | .literals l :: r => l ++ tailOf r

theorem parseOfSeqs_eq : ∀ (seqs : List Seq) (acc : List Enc.MSeq) (tail : List Byte),
    Enc.parseOfSeqs seqs acc tail = { seqs := acc.reverse ++ triplesOf seqs, tail := tail ++ tailOf seqs } := by
  intro seqs
  induction seqs with
  | nil => intro acc tail; simp [Enc.parseOfSeqs, triplesOf, tailOf]
  | cons sq rest ih =>
    intro acc tail
    cases sq with
    | triple l o m => simp [Enc.parseOfSeqs, triplesOf, tailOf, ih]
    | literals l => simp [Enc.parseOfSeqs, triplesOf, tailOf, ih]

theorem three_le_minMatchLen : 3 ≤ minMatchLen := by decide

/-- the encoder model's match copy (on top of ANY bytes `X` in front of the retained window `C`) -/
theorem enc_copyMatch_spec (X C : List Byte) (off : Nat) : ∀ (ml p : Nat), 1 ≤ off → off ≤ p → p + ml ≤ C.length →
    (∀ k, k < ml → C[p + k - off]? = C[p + k]?) →
    Enc.copyMatch ml off (X ++ C.take p).toArray = some (X ++ C.take (p + ml)).toArray := by
  intro ml
  induction ml with
  | zero => intro p _ _ _ _; simp [Enc.copyMatch]
  | succ ml ih =>
    intro p h1 h2 h3 h4
    unfold Enc.copyMatch
    have hsz : (X ++ C.take p).toArray.size = X.length + p := by simp; omega
    rw [hsz]
    have hcond : ¬ (off = 0 ∨ off > X.length + p) := by omega
    simp only [hcond, if_false]
    have hp : p < C.length := by omega
    have h0 := h4 0 (by omega)
    simp only [Nat.add_zero] at h0
    have hget : (X ++ C.take p).toArray[X.length + p - off]? = some C[p] := by
      rw [List.getElem?_toArray, List.getElem?_append_right (by omega)]
      have e : X.length + p - off - X.length = p - off := by omega
      rw [e, List.getElem?_take_of_lt (by omega), h0]
      simp [hp]
    rw [hget]
    simp only []
    have hpush : (X ++ C.take p).toArray.push C[p] = (X ++ C.take (p + 1)).toArray := by
      rw [List.push_toArray, List.append_assoc, List.take_append_getElem hp]
    rw [hpush]
    have := ih (p + 1) h1 (by omega) (by omega) (by
      intro k hk
      have := h4 (k + 1) (by omega)
      have e1 : p + (k + 1) - off = p + 1 + k - off := by omega
      have e2 : p + (k + 1) = p + 1 + k := by omega
      rwa [e1, e2] at this)
    rw [this]
    have e : p + 1 + ml = p + (ml + 1) := by omega
    rw [e]

/-- the encoder model's executor accepts the reported sequences on top of `X ++` (retained bytes and
the part of the block already reported) and regenerates `X ++` (retained bytes ++ block) -/
theorem parse_execParse (W : Nat) (X : List Byte) (w : Shape) (cur : Array Byte) (b : Nat) (hb : BaseOk w)
    (hlast : w.getLast? = some (cur, b)) (hW : total w ≤ W) :
    ∀ (seqs : List Seq) (pos : Nat), Parse cur w pos seqs →
      Enc.execParse W (triplesOf seqs) (tailOf seqs) (X ++ (flat w).take (total w.dropLast + pos)).toArray
        = some (X ++ flat w).toArray := by
  have htot := total_dropLast_add_last w (cur, b) hlast
  have hflat : flat w = flat w.dropLast ++ cur.toList := by
    conv => lhs; rw [eq_dropLast_append_of_getLast? w (cur, b) hlast]
    simp
  simp only [] at htot
  intro seqs
  induction seqs with
  | nil =>
    intro pos h
    simp only [Parse] at h
    simp only [triplesOf, tailOf, Enc.execParse]
    rw [List.take_of_length_le (by simp; omega)]
    simp
  | cons sq rest ih =>
    intro pos h
    have hl : ∀ e, pos ≤ e → e ≤ cur.size →
        (flat w).take (total w.dropLast + pos) ++ lits cur pos e = (flat w).take (total w.dropLast + e) := by
      intro e h1 h2
      rw [lits_eq, hflat]
      have := take_append_slice (flat w.dropLast) cur.toList pos e h1
      simpa using this
    cases sq with
    | literals l =>
      simp only [Parse] at h
      obtain ⟨h1, h2, h3⟩ := h
      subst h3
      simp only [triplesOf, tailOf, Enc.execParse, List.append_nil]
      rw [h1, List.append_toArray, List.append_assoc, hl cur.size (by omega) (Nat.le_refl _),
        List.take_of_length_le (by simp; omega)]
    | triple l off ml =>
      simp only [Parse] at h
      obtain ⟨s', h1, h2, h3, h4, h5⟩ := h
      obtain ⟨g1, g2, g3, g4, g5⟩ := goodIn_bytes w cur b s' off ml hb hlast h4
      simp only [triplesOf, tailOf, Enc.execParse]
      have hout1 : (X ++ (flat w).take (total w.dropLast + pos)).toArray ++ l.toArray
          = (X ++ (flat w).take (total w.dropLast + s')).toArray := by
        rw [List.append_toArray, List.append_assoc, h2, hl s' h1 (by omega)]
      rw [hout1]
      have hsz : (X ++ (flat w).take (total w.dropLast + s')).toArray.size = X.length + (total w.dropLast + s') := by
        simp; omega
      have h3' := three_le_minMatchLen
      have hpos := minMatchLen_pos
      have hcond : ¬ (ml < 3 ∨ off = 0 ∨ off > W ∨ off > (X ++ (flat w).take (total w.dropLast + s')).toArray.size) := by
        rw [hsz]; omega
      simp only [hcond, if_false]
      rw [enc_copyMatch_spec X (flat w) off ml (total w.dropLast + s') (by omega) g3 (by simp; omega) g5]
      simp only []
      have e : total w.dropLast + s' + ml = total w.dropLast + (s' + ml) := by omega
      rw [e]
      exact ih (s' + ml) h5

/-- **one block**: what `start_matching` reports right after `commit_space` is a valid parse (in the
encoder model's sense, window = the advertised window) of the committed block on top of anything
that ends with the bytes the matcher retains in front of it -/
theorem start_validParse (key : KeyFn) (sl n : Nat) (d d' : Driver) (seqs : List Seq)
    (hr : Reachable key sl n d) (h : d.startMatching key = .ok (d', seqs)) (h0 : d.mg.suffixIdx = 0)
    (X : List Byte) :
    Enc.validParse d.windowSize (X ++ d.windowBytes.take d.retainedBefore) d.block (Enc.parseOfSeqs seqs [] []) = true := by
  obtain ⟨last, hl, hb, hp, _, htot, _⟩ := start_core key sl n d d' seqs hr h
  rw [h0] at hp
  have hex := parse_execParse d.windowSize X _ last.data last.baseOffset hb (shape_getLast? _ _ hl) htot seqs 0 hp
  rw [parseOfSeqs_eq]
  simp only [Enc.validParse, List.reverse_nil, List.nil_append]
  rw [windowBytes_eq, retainedBefore_eq]
  simp only [Nat.add_zero] at hex
  rw [hex]
  simp only []
  have hsplit := (windowBytes_split d last hl).1
  rw [windowBytes_eq, retainedBefore_eq] at hsplit
  rw [List.append_assoc, ← hsplit]
  simp

/-! ### the block loop of one frame -/

/-- states of the built-in matcher that the compressor's own call protocol can produce: reachable
from `new(sl, n)` through calls that did not panic, with every vector of capacity `slice_size`
(only spaces obtained from `get_next_space` were committed) -/
def BuiltinState (sl n : Nat) (d : Driver) : Prop := Reachable realKey sl n d ∧ CapsOk d

theorem builtinState_new (sl n : Nat) : BuiltinState sl n (Driver.new sl n) :=
  ⟨.init, by simp [CapsOk, Driver.new, MatchGenerator.new, caps]⟩

theorem getNextSpace_mg (d : Driver) : d.getNextSpace.1.mg = d.mg := by
  unfold Driver.getNextSpace; split <;> rfl

theorem builtinState_getNextSpace (sl n : Nat) (d : Driver) (h : BuiltinState sl n d) :
    BuiltinState sl n d.getNextSpace.1 ∧ d.getNextSpace.2.size = sl := by
  have hstep : d.step realKey .getNextSpace = .ok d.getNextSpace.1 := rfl
  refine ⟨⟨.step .getNextSpace h.1 hstep, ?_⟩, ?_⟩
  · exact (protocol_caps_preserved_core realKey d _ h.2 .getNextSpace hstep (by intro _ _ hh; cases hh)).1
  · rw [protocol_next_space_core d h.2, slice_size_const_core realKey sl n d h.1]

theorem builtinState_reset (sl n : Nat) (d : Driver) (h : BuiltinState sl n d) : BuiltinState sl n d.reset := by
  have hstep : d.step realKey .reset = .ok d.reset := rfl
  exact ⟨.step .reset h.1 hstep,
    (protocol_caps_preserved_core realKey d _ h.2 .reset hstep (by intro _ _ hh; cases hh)).1⟩

/-- what the blocks `ext` of a script say about the data `rest` that follows `pre` in the frame:
every space has `S` bytes; the parse of a non-constant block regenerates it on top of everything
before it; the blocks reach past the end of the data -/
def BlocksOk (W S : Nat) : List Byte → List Byte → List Enc.MBlock → Prop
  | _, _, [] => False
  | pre, rest, mb :: more =>
    mb.space = S ∧
    (Enc.isConstant (rest.take S) = false → Enc.validParse W pre (rest.take S) mb.parse = true) ∧
    (if rest.length < S then more = [] else BlocksOk W S (pre ++ rest.take S) (rest.drop S) more)

theorem blocksOk_last (W S : Nat) (pre rest : List Byte) (mb : Enc.MBlock) (h1 : mb.space = S)
    (h2 : Enc.isConstant (rest.take S) = false → Enc.validParse W pre (rest.take S) mb.parse = true)
    (h3 : rest.length < S) : BlocksOk W S pre rest [mb] := by
  unfold BlocksOk
  rw [if_pos h3]
  exact ⟨h1, h2, rfl⟩

theorem blocksOk_cons (W S : Nat) (pre rest : List Byte) (mb : Enc.MBlock) (more : List Enc.MBlock) (h1 : mb.space = S)
    (h2 : Enc.isConstant (rest.take S) = false → Enc.validParse W pre (rest.take S) mb.parse = true)
    (h3 : ¬ rest.length < S) (h4 : BlocksOk W S (pre ++ rest.take S) (rest.drop S) more) :
    BlocksOk W S pre rest (mb :: more) := by
  unfold BlocksOk
  rw [if_neg h3]
  exact ⟨h1, h2, h4⟩

theorem suffix_after_commit (pre blk : List Byte) (a b : Nat) :
    ∃ k, (pre.drop a).drop b ++ blk = (pre ++ blk).drop k := by
  by_cases h : a + b ≤ pre.length
  · exact ⟨a + b, by rw [List.drop_drop, List.drop_append_of_le_length h]⟩
  · refine ⟨pre.length, ?_⟩
    rw [List.drop_drop, List.drop_of_length_le (by omega), List.drop_append_of_le_length (Nat.le_refl _),
      List.drop_of_length_le (Nat.le_refl _)]

theorem block_ne_nil_window (d : Driver) (h : d.block ≠ []) : d.mg.window ≠ [] := by
  intro hnil
  apply h
  simp [Driver.block, hnil]

/-- the loop `builtinBlocks` = the block loop of `compress` at the Fastest level seen from the matcher -/
theorem builtinBlocks_spec (sl n : Nat) (hsl : 0 < sl) (hn : 1 ≤ n) :
    ∀ (fuel : Nat) (d : Driver) (rest : List Byte) (acc : Array Enc.MBlock) (pre : List Byte),
      BuiltinState sl n d → d.mg.processed = true → (∃ k, d.windowBytes = pre.drop k) → rest.length + 2 ≤ fuel →
      ∃ d' ext, Enc.builtinBlocks fuel d rest acc = .ok (d', acc ++ ext.toArray) ∧ BuiltinState sl n d' ∧
        BlocksOk (n * sl) sl pre rest ext := by
  intro fuel
  induction fuel with
  | zero => intro d rest acc pre _ _ _ hf; omega
  | succ fuel ih =>
    intro d rest acc pre hbs hproc hsuf hf
    obtain ⟨hbs1, hsz⟩ := builtinState_getNextSpace sl n d hbs
    have hmg := getNextSpace_mg d
    unfold Enc.builtinBlocks
    generalize hgs : d.getNextSpace = gs at hbs1 hsz hmg
    obtain ⟨d1, space⟩ := gs
    simp only [] at hbs1 hsz hmg ⊢
    rw [hsz]
    have hwb1 : d1.windowBytes = d.windowBytes := by simp [Driver.windowBytes, hmg]
    have hproc1 : d1.mg.processed = true := by rw [hmg]; exact hproc
    by_cases hemp : (rest.take sl).isEmpty = true
    · -- no data left: the extra empty block
      simp only [hemp, if_true]
      have hnil : rest.take sl = [] := List.isEmpty_iff.mp hemp
      have hrest : rest = [] := by
        cases rest with
        | nil => rfl
        | cons a as =>
          cases hs : sl with
          | zero => omega
          | succ m => rw [hs] at hnil; simp at hnil
      refine ⟨d1, [⟨sl, {}⟩], by simp, hbs1, ?_⟩
      apply blocksOk_last _ _ _ _ _ rfl
      · intro h; rw [hnil] at h; simp [Enc.isConstant] at h
      · rw [hrest]; simpa using hsl
    · simp only [hemp, Bool.false_eq_true, if_false]
      have hne : rest.take sl ≠ [] := fun h => hemp (List.isEmpty_iff.mpr h)
      -- commit_space
      obtain ⟨hwf1, hmax1⟩ := reachable_wf realKey sl n d1 hbs1.1
      have hlen : (rest.take sl).toArray.size ≤ d1.mg.maxWindowSize := by
        rw [hmax1]
        have : (rest.take sl).length ≤ sl := List.length_take_le _ _
        have : sl ≤ n * sl := Nat.le_mul_of_pos_left sl hn
        simp; omega
      obtain ⟨d2, hcommit, _⟩ := commitSpace_ok d1 (rest.take sl).toArray sl
        (reachable_inv realKey realKey_ok sl n d1 hbs1.1) hproc1 hlen
      simp only [hcommit]
      have hstep2 : d1.step realKey (.commitSpace (rest.take sl).toArray sl) = .ok d2 := hcommit
      have hr2 : Reachable realKey sl n d2 := .step _ hbs1.1 hstep2
      have hc2 : CapsOk d2 := (protocol_caps_preserved_core realKey d1 d2 hbs1.2 _ hstep2 (by
        intro sp cp hh
        cases hh
        refine ⟨by simpa using List.length_take_le _ _, ?_⟩
        rw [slice_size_const_core realKey sl n d1 hbs1.1])).1
      obtain ⟨hs0, hblk, ⟨k, hk⟩, _, hws⟩ := commit_fresh_core realKey sl n d1 d2 hbs1.1 _ _ hcommit
      have hws2 : d2.windowSize = n * sl := by rw [hws]; exact hmax1
      obtain ⟨k0, hk0⟩ := hsuf
      obtain ⟨k', hk'⟩ := suffix_after_commit pre (rest.take sl) k0 k
      have hsuf2 : d2.windowBytes = (pre ++ rest.take sl).drop k' := by rw [hk, hwb1, hk0, hk']
      have hwne : d2.mg.window ≠ [] := block_ne_nil_window d2 (by rw [hblk]; exact hne)
      have hinv2 := reachable_inv realKey realKey_ok sl n d2 hr2
      by_cases hconst : Enc.isConstant (rest.take sl) = true
      · -- constant block: skip_matching
        simp only [hconst, if_true]
        obtain ⟨g3, hskip, _⟩ := skipMatching_ok realKey realKey_ok d2.mg hinv2.wf hinv2.sok hwne
        have hskipd : d2.skipMatching realKey = .ok { d2 with mg := g3 } := by simp [Driver.skipMatching, hskip]
        simp only [hskipd]
        have hstep3 : d2.step realKey .skipMatching = .ok { d2 with mg := g3 } := hskipd
        have hbs3 : BuiltinState sl n { d2 with mg := g3 } :=
          ⟨.step _ hr2 hstep3, (protocol_caps_preserved_core realKey d2 _ hc2 _ hstep3 (by intro _ _ hh; cases hh)).1⟩
        obtain ⟨hwb3, hproc3⟩ := skip_keeps_window_core realKey sl n d2 _ hr2 hskipd
        by_cases hlast : rest.length < sl
        · simp only [hlast, if_true]
          refine ⟨_, [⟨sl, {}⟩], by simp, hbs3, ?_⟩
          exact blocksOk_last _ _ _ _ _ rfl (by intro h; rw [hconst] at h; cases h) hlast
        · simp only [hlast, if_false]
          obtain ⟨d', ext, hrun, hbs', hok⟩ := ih _ (rest.drop sl) (acc.push ⟨sl, {}⟩) (pre ++ rest.take sl) hbs3 hproc3
            ⟨k', by rw [hwb3]; exact hsuf2⟩ (by simp; omega)
          refine ⟨d', ⟨sl, {}⟩ :: ext, by rw [hrun]; simp, hbs', ?_⟩
          exact blocksOk_cons _ _ _ _ _ _ rfl (by intro h; rw [hconst] at h; cases h) hlast hok
      · -- start_matching
        have hconst' : Enc.isConstant (rest.take sl) = false := by simpa using hconst
        simp only [hconst', Bool.false_eq_true, if_false]
        obtain ⟨g3, seqs, hstart, _⟩ := startMatching_ok realKey realKey_ok d2.mg hinv2.wf hinv2.sok hwne
        have hstartd : d2.startMatching realKey = .ok ({ d2 with mg := g3 }, seqs) := by simp [Driver.startMatching, hstart]
        simp only [hstartd]
        have hstep3 : d2.step realKey .startMatching = .ok { d2 with mg := g3 } := by simp [Driver.step, hstartd]
        have hbs3 : BuiltinState sl n { d2 with mg := g3 } :=
          ⟨.step _ hr2 hstep3, (protocol_caps_preserved_core realKey d2 _ hc2 _ hstep3 (by intro _ _ hh; cases hh)).1⟩
        obtain ⟨hwb3, _, hproc3⟩ := matching_keeps_window_core realKey sl n d2 _ seqs hr2 hstartd
        -- the parse is valid on top of the whole frame so far
        have hvalid : Enc.validParse (n * sl) pre (rest.take sl) (Enc.parseOfSeqs seqs [] []) = true := by
          have hv := start_validParse realKey sl n d2 _ seqs hr2 hstartd hs0 ((pre ++ rest.take sl).take k')
          obtain ⟨last, hl2⟩ : ∃ last, d2.mg.window.getLast? = some last := by
            cases hl : d2.mg.window.getLast? with
            | none => exact absurd (List.getLast?_eq_none_iff.mp hl) hwne
            | some last => exact ⟨last, rfl⟩
          have hsplit := (windowBytes_split d2 last hl2).1
          rw [hblk] at hsplit hv
          have hall : (pre ++ rest.take sl).take k' ++ d2.windowBytes = pre ++ rest.take sl := by
            rw [hsuf2]; exact List.take_append_drop _ _
          have hpre : (pre ++ rest.take sl).take k' ++ d2.windowBytes.take d2.retainedBefore = pre := by
            rw [hsplit, ← List.append_assoc] at hall
            exact List.append_cancel_right hall
          rw [hpre, hws2] at hv
          exact hv
        by_cases hlast : rest.length < sl
        · simp only [hlast, if_true]
          refine ⟨_, [⟨sl, Enc.parseOfSeqs seqs [] []⟩], by simp, hbs3, ?_⟩
          exact blocksOk_last _ _ _ _ _ rfl (fun _ => hvalid) hlast
        · simp only [hlast, if_false]
          obtain ⟨d', ext, hrun, hbs', hok⟩ := ih _ (rest.drop sl) (acc.push ⟨sl, Enc.parseOfSeqs seqs [] []⟩)
            (pre ++ rest.take sl) hbs3 hproc3 ⟨k', by rw [hwb3]; exact hsuf2⟩ (by simp; omega)
          refine ⟨d', ⟨sl, Enc.parseOfSeqs seqs [] []⟩ :: ext, by rw [hrun]; simp, hbs', ?_⟩
          exact blocksOk_cons _ _ _ _ _ _ rfl (fun _ => hvalid) hlast hok

/-! ### from the blocks to `ValidMatcher` -/

theorem blocksOk_index (W S : Nat) (_hS : 0 < S) : ∀ (ext : List Enc.MBlock) (pre rest : List Byte),
    BlocksOk W S pre rest ext →
    (∀ mb ∈ ext, mb.space = S) ∧
    ∀ i, Enc.isConstant ((rest.drop (i * S)).take S) = false →
      ∃ mb, ext[i]? = some mb ∧
        Enc.validParse W (pre ++ rest.take (i * S)) ((rest.drop (i * S)).take S) mb.parse = true := by
  intro ext
  induction ext with
  | nil => intro pre rest h; exact h.elim
  | cons mb more ih =>
    intro pre rest h
    unfold BlocksOk at h
    obtain ⟨h1, h2, h3⟩ := h
    by_cases hlast : rest.length < S
    · rw [if_pos hlast] at h3
      subst h3
      refine ⟨by intro x hx; simp at hx; rw [hx]; exact h1, ?_⟩
      intro i hi
      cases i with
      | zero => simp only [Nat.zero_mul, List.drop_zero, List.take_zero, List.append_nil] at hi ⊢; exact ⟨mb, rfl, h2 hi⟩
      | succ i =>
        exfalso
        have : rest.drop ((i + 1) * S) = [] := by
          apply List.drop_of_length_le
          have : S ≤ (i + 1) * S := Nat.le_mul_of_pos_left S (by omega)
          omega
        rw [this] at hi
        simp [Enc.isConstant] at hi
    · rw [if_neg hlast] at h3
      obtain ⟨g1, g2⟩ := ih _ _ h3
      refine ⟨by intro x hx; simp at hx; rcases hx with hx | hx; (rw [hx]; exact h1); exact g1 x hx, ?_⟩
      intro i hi
      cases i with
      | zero => simp only [Nat.zero_mul, List.drop_zero, List.take_zero, List.append_nil] at hi ⊢; exact ⟨mb, rfl, h2 hi⟩
      | succ i =>
        have e1 : (rest.drop S).drop (i * S) = rest.drop ((i + 1) * S) := by
          rw [List.drop_drop]; congr 1; rw [Nat.add_mul]; omega
        have e2 : pre ++ rest.take S ++ (rest.drop S).take (i * S) = pre ++ rest.take ((i + 1) * S) := by
          rw [List.append_assoc]
          congr 1
          have : (i + 1) * S = S + i * S := by rw [Nat.add_mul]; omega
          rw [this, List.take_add]
        have := g2 i (by rw [e1]; exact hi)
        rw [e1, e2] at this
        simpa using this

theorem scriptOfArray_toArray (ext : List Enc.MBlock) (S i : Nat) :
    Enc.scriptOfArray ext.toArray S i = (match ext[i]? with | some b => b | none => ⟨S, {}⟩) := by
  cases h : ext[i]? <;> simp [Enc.scriptOfArray, h]

theorem script_space (ext : List Enc.MBlock) (S : Nat) (h : ∀ mb ∈ ext, mb.space = S) (i : Nat) :
    (Enc.scriptOfArray ext.toArray S i).space = S := by
  rw [scriptOfArray_toArray]
  cases hi : ext[i]? with
  | none => rfl
  | some b => exact h b (List.mem_of_getElem? hi)

theorem blockStart_const (script : Nat → Enc.MBlock) (S : Nat) (h : ∀ i, (script i).space = S) :
    ∀ i, Enc.blockStart script i = i * S := by
  intro i
  induction i with
  | zero => simp [Enc.blockStart]
  | succ i ih => rw [Enc.blockStart, ih, h i, Nat.add_mul]; omega

/-- **the script of one Fastest frame is a valid matcher** (for the slice size `sl` and `n` slices the
driver was created with, as long as spaces fit the format's block maximum and the window its
descriptor); the matcher never panics and ends in a `BuiltinState` again -/
theorem builtinFrame_fastest_valid (sl n : Nat) (hsl : 0 < sl) (hn : 1 ≤ n) (hmax : sl ≤ Gen.maxBlockSize)
    (hw : n * sl ≤ 2 ^ 41) (d : Driver) (hbs : BuiltinState sl n d) (data : List Byte) :
    ∃ d' arr, Enc.builtinFrame .fastest d data = .ok (d', arr) ∧ BuiltinState sl n d' ∧
      Enc.ValidMatcher (n * sl) (Enc.scriptOfArray arr sl) data := by
  have hbs0 := builtinState_reset sl n d hbs
  obtain ⟨_, hproc0⟩ := reset_empties_window_core d
  obtain ⟨d', ext, hrun, hbs', hok⟩ := builtinBlocks_spec sl n hsl hn (data.length + 2) d.reset data #[] []
    hbs0 hproc0 ⟨0, by simp [(reset_empties_window_core d).1]⟩ (Nat.le_refl _)
  refine ⟨d', ext.toArray, by simp [Enc.builtinFrame, hrun], hbs', ?_⟩
  obtain ⟨hsp, hidx⟩ := blocksOk_index (n * sl) sl hsl ext [] data hok
  have hspace := script_space ext sl hsp
  refine ⟨hw, fun i => by rw [hspace i]; exact hsl, fun i => by rw [hspace i]; exact hmax, ?_⟩
  intro i
  simp only []
  rw [blockStart_const _ sl hspace i, hspace i]
  intro hc
  obtain ⟨mb, hmb, hv⟩ := hidx i hc
  rw [scriptOfArray_toArray, hmb]
  simpa using hv

/-! ### all levels: the matcher never panics, the state stays a `BuiltinState` -/

theorem builtinTakeSpaces_state (sl n : Nat) : ∀ (fuel : Nat) (d : Driver) (left : Nat) (acc : Array Enc.MBlock),
    BuiltinState sl n d → BuiltinState sl n (Enc.builtinTakeSpaces fuel d left acc).1 := by
  intro fuel
  induction fuel with
  | zero => intro d left acc h; exact h
  | succ fuel ih =>
    intro d left acc h
    obtain ⟨h1, _⟩ := builtinState_getNextSpace sl n d h
    unfold Enc.builtinTakeSpaces
    generalize d.getNextSpace = gs at h1
    obtain ⟨d1, space⟩ := gs
    simp only [] at h1 ⊢
    split
    · exact h1
    · exact ih _ _ _ h1

/-- **no fault, every level**: driven the way `FrameCompressor::compress` drives it, the built-in
matcher never panics (the model never returns a `Fault`, its fuel included), and it is left in a
`BuiltinState` — so the statement applies again to the next frame of the same compressor -/
theorem builtinFrame_no_fault (sl n : Nat) (hsl : 0 < sl) (hn : 1 ≤ n) (lvl : Enc.Level) (d : Driver)
    (hbs : BuiltinState sl n d) (data : List Byte) :
    ∃ d' arr, Enc.builtinFrame lvl d data = .ok (d', arr) ∧ BuiltinState sl n d' := by
  have hbs0 := builtinState_reset sl n d hbs
  cases lvl with
  | fastest =>
    obtain ⟨_, hproc0⟩ := reset_empties_window_core d
    obtain ⟨d', ext, hrun, hbs', _⟩ := builtinBlocks_spec sl n hsl hn (data.length + 2) d.reset data #[] []
      hbs0 hproc0 ⟨0, by simp [(reset_empties_window_core d).1]⟩ (Nat.le_refl _)
    exact ⟨d', ext.toArray, by simp [Enc.builtinFrame, hrun], hbs'⟩
  | uncompressed =>
    have e : Enc.builtinFrame .uncompressed d data
        = .ok (Enc.builtinTakeSpaces (data.length + 2) d.reset data.length #[]) := rfl
    exact ⟨(Enc.builtinTakeSpaces (data.length + 2) d.reset data.length #[]).1,
      (Enc.builtinTakeSpaces (data.length + 2) d.reset data.length #[]).2, e,
      builtinTakeSpaces_state sl n _ _ _ _ hbs0⟩
  | default => exact ⟨_, _, rfl, (builtinState_getNextSpace sl n _ hbs0).1⟩
  | better => exact ⟨_, _, rfl, (builtinState_getNextSpace sl n _ hbs0).1⟩
  | best => exact ⟨_, _, rfl, (builtinState_getNextSpace sl n _ hbs0).1⟩

/-! ### histories of frames through one compressor -/

/-- the built-in matcher of ONE compressor after a list of `compress()` calls (level, input) — what
`Driver/Enc.lean` `runReuse` threads through the frames of a history; a frame whose matcher model
faults (never, by `builtinFrame_no_fault`) leaves the state as it was -/
def builtinHistory : List (Enc.Level × List Byte) → Driver → Driver
  | [], d => d
  | (lvl, data) :: rest, d =>
    match Enc.builtinFrame lvl d data with
    | .ok (d', _) => builtinHistory rest d'
    | .error _ => builtinHistory rest d

theorem builtinHistory_state (sl n : Nat) (hsl : 0 < sl) (hn : 1 ≤ n) :
    ∀ (jobs : List (Enc.Level × List Byte)) (d : Driver), BuiltinState sl n d → BuiltinState sl n (builtinHistory jobs d) := by
  intro jobs
  induction jobs with
  | nil => intro d h; exact h
  | cons j rest ih =>
    intro d h
    obtain ⟨lvl, data⟩ := j
    obtain ⟨d', arr, hrun, hbs'⟩ := builtinFrame_no_fault sl n hsl hn lvl d h data
    simp only [builtinHistory, hrun]
    exact ih d' hbs'

end Zstd.Proofs.MG
