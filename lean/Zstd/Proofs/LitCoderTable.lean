import Zstd.Proofs.LitCoderStream
import Zstd.Proofs.LitCoderFse
import Zstd.Proofs.HufRoundtrip
import Zstd.Proofs.BlkHufWeightsRefines
import Zstd.Props.C13
/-
C02 / C16, literal coder, part 3: the Huffman tree description against the STRICT specification.

For every canonical encoder table (`CanonTable`, i.e. every table `build_from_data` returns):
whatever `write_table` writes — direct form or FSE-compressed form — `Spec.Huffman.readTable` accepts,
consumes exactly, and the table it builds from the transmitted weights (last weight inferred,
`Max_Number_of_Bits` from the Kraft sum) `SpecDecodes` the encoder's code.
-/
namespace Zstd.Proofs.LitCoder
open Zstd Zstd.Model Zstd.Model.Huf Zstd.Proofs.Huf

/-- the canonical Spec table of the transmitted weights of a canonical encoder table decodes its code -/
theorem spec_table_of_canon {t : EncTable} {wd : List Nat} {m : Nat} (c : CanonTable t wd m) :
    ∃ T, Spec.Huffman.tableOfWeights wd.dropLast = some T ∧ T.maxBits = m ∧ SpecDecodes T t := by
  have k := c.kraft
  obtain ⟨hgood, hmb, _, hdl, _⟩ := kraft_weights_good k
  rw [c.encWeights_eq] at hgood hmb hdl
  have hcw := (Zstd.Props.C13.spec_complete_iff wd.dropLast (maxBitsOf wd.dropLast)
    (wd.dropLast ++ [lastWeightOf wd.dropLast])).mpr ⟨hgood, rfl, rfl⟩
  have hT : Spec.Huffman.tableOfWeights wd.dropLast
      = some (Spec.Huffman.buildTable (maxBitsOf wd.dropLast) (wd.dropLast ++ [lastWeightOf wd.dropLast])) := by
    unfold Spec.Huffman.tableOfWeights
    rw [hcw]
    simp only
    rw [if_neg (by
      simp only [List.length_append, List.length_dropLast, List.length_cons, List.length_nil]
      have := c.len256; have := c.two; omega)]
  refine ⟨_, hT, ?_, ?_⟩
  · simp [Spec.Huffman.buildTable, hmb]
  · -- the model's table has the same cells (C13) and decodes the code (E)
    let st : DecTable := { decode := #[], weights := wd.dropLast, maxNumBits := 0, bits := [] }
    obtain ⟨t1, hb1, hm1, _, _, hcells⟩ := Zstd.Props.C13.huf_table_eq_canonical st _ hT
    obtain ⟨t2, hb2, dc, _, _⟩ := decodes_of_canon c st rfl
    rw [hb1] at hb2
    simp only [Prod.mk.injEq, and_true] at hb2
    subst hb2
    have hmax : (Spec.Huffman.buildTable (maxBitsOf wd.dropLast) (wd.dropLast ++ [lastWeightOf wd.dropLast])).maxBits = m := by
      rw [← hm1, dc.mb]
    constructor
    intro s cd nb hcode hnb _
    obtain ⟨hnbm, _, hc⟩ := dc.cells s cd nb hcode hnb
    rw [hmax]
    refine ⟨hnbm, ?_⟩
    intro j hj
    have hcell := hc j hj
    have h1 := congrArg (fun l => l[cd * 2 ^ (m - nb) + j]?) hcells
    simp only [List.getElem?_map, Array.getElem?_toList, hcell, Option.map_some] at h1
    generalize (Spec.Huffman.buildTable (maxBitsOf wd.dropLast) (wd.dropLast ++ [lastWeightOf wd.dropLast])).entries[cd * 2 ^ (m - nb) + j]? = o at h1
    cases o with
    | none => cases h1
    | some e =>
      simp only [Option.map_some, Option.some.injEq, Prod.mk.injEq] at h1
      obtain ⟨es, eb⟩ := e
      simp only at h1
      rw [← h1.1, ← h1.2]

/-- shape of a successful `write_table` on a canonical table -/
theorem writeTable_canon {t : EncTable} {wd : List Nat} {m : Nat} (c : CanonTable t wd m) {desc : List Nat}
    (h : writeTable Enc.fseWeights t = .ok desc) :
    (wd.length - 1 ≤ 16 ∧ ∃ bs, desc = (wd.dropLast.length + 127) :: bs ∧ bs.length = (wd.dropLast.length + 1) / 2 ∧
        ∀ tail, nibbles wd.dropLast.length (bs ++ tail) = .ok wd.dropLast) ∨
    (16 < wd.length - 1 ∧ ∃ bytes, desc = bytes.length :: bytes ∧ Enc.fseWeights wd.dropLast = .ok bytes ∧
        bytes.length < 128) := by
  have k := c.kraft
  obtain ⟨_, _, _, _, hlt16⟩ := kraft_weights_good k
  have hwAll : weights t = .ok (encWeights t m) := weights_of_kraft k
  rw [c.encWeights_eq] at hlt16 hwAll
  have hdl' : wd.dropLast.length = wd.length - 1 := by simp
  unfold writeTable at h
  rw [hwAll] at h
  simp only at h
  by_cases hform : wd.length - 1 ≤ 16
  · left
    refine ⟨hform, ?_⟩
    have hnofse : Gen.hufUseFse wd.dropLast.length Gen.hufDirectMax = false := by
      simp only [Gen.hufUseFse, Gen.hufDirectMax]; exact decide_eq_false (by omega)
    obtain ⟨bs, hb1, hb2, hb3⟩ := nibbles_directBytes wd.dropLast hlt16
    simp only [hnofse, hb1, Bool.false_eq_true, if_false, Except.ok.injEq] at h
    exact ⟨bs, h.symm, hb2, hb3⟩
  · right
    refine ⟨by omega, ?_⟩
    have hfse : Gen.hufUseFse wd.dropLast.length Gen.hufDirectMax = true := by
      simp only [Gen.hufUseFse, Gen.hufDirectMax]; exact decide_eq_true (by omega)
    simp only [hfse, if_true] at h
    cases hf : Enc.fseWeights wd.dropLast with
    | error f => rw [hf] at h; cases h
    | ok bytes =>
      rw [hf] at h
      simp only at h
      by_cases hsm : bytes.length < 128
      · have : Gen.hufFseLenOk bytes.length Gen.hufFseLenBound = true := by
          simp only [Gen.hufFseLenOk, Gen.hufFseLenBound]; exact decide_eq_true hsm
        simp only [this, Bool.not_true, Bool.false_eq_true, if_false, Except.ok.injEq] at h
        exact ⟨bytes, h.symm, rfl, hsm⟩
      · have : Gen.hufFseLenOk bytes.length Gen.hufFseLenBound = false := by
          simp only [Gen.hufFseLenOk, Gen.hufFseLenBound]; exact decide_eq_false hsm
        simp only [this, Bool.not_false, if_true] at h
        cases h

/-- the direct form against the Spec -/
theorem spec_readWeights_direct (ws bs tail : List Nat) (hn1 : 1 ≤ ws.length) (hn2 : ws.length ≤ 128)
    (hlen : bs.length = (ws.length + 1) / 2) (hnib : nibbles ws.length (bs ++ tail) = .ok ws) :
    Spec.Huffman.readWeights ((ws.length + 127) :: (bs ++ tail)) = some (ws, 1 + bs.length) := by
  unfold Spec.Huffman.readWeights
  simp only
  rw [if_pos (by omega)]
  have hn : ws.length + 127 - 127 = ws.length := by omega
  rw [hn, if_neg (by simp only [List.length_append]; omega)]
  have := Zstd.Proofs.Blk.nibbles_eq (bs ++ tail) ws.length (by simp only [List.length_append]; omega)
  rw [hnib] at this
  simp only [Except.ok.injEq] at this
  simp only [Option.some.injEq, Prod.mk.injEq]
  exact ⟨this.symm, by omega⟩

/-- **The tree description against the strict Spec**: whatever `write_table` writes for a canonical
table, `Spec.Huffman.readTable` reads back (followed by any bytes), consuming exactly the description,
as a table that decodes the encoder's code. -/
theorem spec_readTable_written {t : EncTable} {wd : List Nat} {m : Nat} (c : CanonTable t wd m) {desc : List Nat}
    (h : writeTable Enc.fseWeights t = .ok desc) (tail : List Nat) :
    ∃ T, Spec.Huffman.readTable (desc ++ tail) = some (T, desc.length) ∧ T.maxBits = m ∧ SpecDecodes T t := by
  obtain ⟨T, hT, hm, sd⟩ := spec_table_of_canon c
  refine ⟨T, ?_, hm, sd⟩
  have hdl' : wd.dropLast.length = wd.length - 1 := by simp
  have hrw : Spec.Huffman.readWeights (desc ++ tail) = some (wd.dropLast, desc.length) := by
    rcases writeTable_canon c h with ⟨hform, bs, rfl, hbl, hnib⟩ | ⟨hform, bytes, rfl, hf, hsm⟩
    · have := spec_readWeights_direct wd.dropLast bs tail (by have := c.two; omega) (by omega) hbl (hnib tail)
      simp only [List.cons_append, List.length_cons]
      rw [this, Nat.add_comm]
    · have hle12 : ∀ w ∈ wd.dropLast, w ≤ 12 := by
        intro w hw
        have := c.le w (List.dropLast_subset wd hw)
        have := c.m11
        omega
      have := spec_readWeights_fse wd.dropLast bytes (by omega) (by have := c.len256; omega) hle12 hf hsm tail
      simp only [List.cons_append, List.length_cons]
      rw [this, Nat.add_comm]
  unfold Spec.Huffman.readTable
  rw [hrw]
  simp only [hT]

end Zstd.Proofs.LitCoder
