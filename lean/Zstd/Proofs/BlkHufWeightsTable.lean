import Zstd.Proofs.BlkHufRefDefs
import Zstd.Proofs.BlkSeqTables
import Zstd.Proofs.BlkFseSpec
import Zstd.Proofs.FseReadDesc
/-
C01, `read_weights`, the FSE table of FSE-compressed Huffman weights (`WeightsTableRefines`).

The Spec reads the table description from the `header` bytes that follow the header byte, with the
RFC's alphabet bound (weights `0..12`); the code reads it from everything that follows the header byte,
with `max_symbol = 255`, and checks the byte count afterwards.  Whenever the Spec's reader accepts, the
reader on the longer input with the larger alphabet bound accepts with the same result:

  * `readLE_append`, `readZeroRuns_append`, `readProbs_append`   the Spec readers on an extended bit
    list (and with more fuel / a larger alphabet bound) return the same value, and the extension is
    appended to the rest
  * `readDescription_extend`   `readDescription a maxLog ms = some r`, `ms ≤ ms'` ⇒
    `readDescription (a ++ b) maxLog ms' = some r`
  * `weightsTableRefines`      the statement of `Proofs/BlkHufRefDefs`
-/
namespace Zstd.Proofs.Blk
open Zstd Zstd.Model Zstd.Model.Fse Zstd.Proofs.BitIO
open Zstd.Proofs.FseReadDesc (decodeVal massOf spec_readProbs_succ readLE_some decodeVal_used)

/-- a successful forward read is not affected by appending bits -/
theorem readLE_append {n : Nat} {bits : List Bool} {v : Nat} {r : List Bool} (ext : List Bool)
    (h : Spec.readLE n bits = some (v, r)) : Spec.readLE n (bits ++ ext) = some (v, r ++ ext) := by
  rw [readLE_def] at h ⊢
  by_cases hlt : bits.length < n
  · rw [if_pos hlt] at h; cases h
  · rw [if_neg hlt] at h
    rw [if_neg (by rw [List.length_append]; omega)]
    simp only [Option.some.injEq, Prod.mk.injEq] at h
    obtain ⟨rfl, rfl⟩ := h
    rw [List.take_append_of_le_length (by omega), List.drop_append_of_le_length (by omega)]

/-- zero-run flags on an extended bit list, with at least as much fuel -/
theorem readZeroRuns_append (ext : List Bool) : ∀ (fuel : Nat) (bits : List Bool) (z : Nat) (r : List Bool),
    Spec.Fse.readZeroRuns fuel bits = some (z, r) →
    ∀ fuel', fuel ≤ fuel' → Spec.Fse.readZeroRuns fuel' (bits ++ ext) = some (z, r ++ ext) := by
  intro fuel
  induction fuel with
  | zero => intro bits z r h; simp [Spec.Fse.readZeroRuns] at h
  | succ fuel ih =>
    intro bits z r h fuel' hf
    obtain ⟨f, rfl⟩ : ∃ f, fuel' = f + 1 := ⟨fuel' - 1, by omega⟩
    rw [Spec.Fse.readZeroRuns] at h ⊢
    cases hrd : Spec.readLE 2 bits with
    | none => rw [hrd] at h; cases h
    | some q =>
      obtain ⟨v, rest1⟩ := q
      rw [hrd] at h
      rw [readLE_append ext hrd]
      simp only [] at h ⊢
      by_cases h3 : v = 3
      · rw [if_pos h3] at h ⊢
        cases hrec : Spec.Fse.readZeroRuns fuel rest1 with
        | none => rw [hrec] at h; cases h
        | some q2 =>
          obtain ⟨more, rest2⟩ := q2
          rw [hrec] at h
          rw [ih rest1 more rest2 hrec f (by omega)]
          simp only [Option.some.injEq, Prod.mk.injEq] at h ⊢
          obtain ⟨rfl, rfl⟩ := h
          exact ⟨rfl, rfl⟩
      · rw [if_neg h3] at h ⊢
        simp only [Option.some.injEq, Prod.mk.injEq] at h ⊢
        obtain ⟨rfl, rfl⟩ := h
        exact ⟨rfl, rfl⟩

/-- the probability loop on an extended bit list, with at least as much fuel and an alphabet bound
at least as large -/
theorem readProbs_append (ext : List Bool) : ∀ (fuel ms remaining : Nat) (bits : List Bool) (acc res : List Int)
    (r : List Bool),
    Spec.Fse.readProbs fuel ms remaining bits acc = some (res, r) →
    ∀ fuel' ms', fuel ≤ fuel' → ms ≤ ms' →
      Spec.Fse.readProbs fuel' ms' remaining (bits ++ ext) acc = some (res, r ++ ext) := by
  intro fuel
  induction fuel with
  | zero => intro ms remaining bits acc res r h; simp [Spec.Fse.readProbs] at h
  | succ fuel ih =>
    intro ms remaining bits acc res r h fuel' ms' hf hms
    obtain ⟨f, rfl⟩ : ∃ f, fuel' = f + 1 := ⟨fuel' - 1, by omega⟩
    rw [spec_readProbs_succ] at h ⊢
    by_cases hrem : remaining = 0
    · rw [if_pos hrem] at h ⊢
      simp only [Option.some.injEq, Prod.mk.injEq] at h ⊢
      obtain ⟨rfl, rfl⟩ := h
      exact ⟨rfl, rfl⟩
    · rw [if_neg hrem] at h ⊢
      by_cases hlen : acc.length > ms
      · rw [if_pos hlen] at h; cases h
      · rw [if_neg hlen] at h
        rw [if_neg (by omega)]
        cases hrd : Spec.readLE (Nat.log2 (remaining + 1) + 1) bits with
        | none => rw [hrd] at h; cases h
        | some q =>
          obtain ⟨v, rest0⟩ := q
          rw [hrd] at h
          rw [readLE_append ext hrd]
          simp only [] at h ⊢
          obtain ⟨hn, _, _⟩ := readLE_some hrd
          have hused : (decodeVal remaining v).2 ≤ bits.length := by
            rcases decodeVal_used remaining v with h1 | h1 <;> omega
          generalize decodeVal remaining v = d at h hused ⊢
          rw [List.drop_append_of_le_length hused]
          by_cases hmass : massOf d.1 > remaining
          · rw [if_pos hmass] at h; cases h
          · rw [if_neg hmass] at h ⊢
            by_cases hp0 : (d.1 : Int) - 1 = 0
            · rw [if_pos hp0] at h ⊢
              cases hz : Spec.Fse.readZeroRuns (ms + 2) (bits.drop d.2) with
              | none => rw [hz] at h; cases h
              | some qz =>
                obtain ⟨z, restz⟩ := qz
                rw [hz] at h
                rw [readZeroRuns_append ext _ _ _ _ hz (ms' + 2) (by omega)]
                simp only [] at h ⊢
                exact ih ms _ restz _ res r h f ms' (by omega) hms
            · rw [if_neg hp0] at h ⊢
              exact ih ms _ _ _ res r h f ms' (by omega) hms

/-- a table description the Spec accepts on a prefix, with a smaller alphabet bound, is accepted on the
whole input with the larger bound, with the same result (in particular the same byte count) -/
theorem readDescription_extend {a b : List Nat} {maxLog ms ms' al used : Nat} {probs : List Int}
    (hms : ms ≤ ms')
    (h : Spec.Fse.readDescription a maxLog ms = some (al, probs, used)) :
    Spec.Fse.readDescription (a ++ b) maxLog ms' = some (al, probs, used) := by
  unfold Spec.Fse.readDescription at h ⊢
  simp only [] at h ⊢
  rw [bitsLE_append]
  cases hrd : Spec.readLE 4 (Spec.bitsLE a) with
  | none => rw [hrd] at h; cases h
  | some q =>
    obtain ⟨x, rest⟩ := q
    rw [hrd] at h
    rw [readLE_append _ hrd]
    simp only [] at h ⊢
    obtain ⟨_, hrest, _⟩ := readLE_some hrd
    by_cases hal : x + 5 > maxLog
    · rw [if_pos hal] at h; cases h
    · rw [if_neg hal] at h ⊢
      cases hp : Spec.Fse.readProbs (ms + 3) ms (2 ^ (x + 5)) rest [] with
      | none => rw [hp] at h; cases h
      | some qp =>
        obtain ⟨ps, rest'⟩ := qp
        rw [hp] at h
        rw [readProbs_append _ _ _ _ _ _ _ _ hp (ms' + 3) ms' (by omega) hms]
        simp only [] at h ⊢
        by_cases hlen : ps.length > ms + 1
        · rw [if_pos hlen] at h; cases h
        · rw [if_neg hlen] at h
          rw [if_neg (by omega)]
          simp only [Option.some.injEq, Prod.mk.injEq] at h ⊢
          obtain ⟨rfl, rfl, rfl⟩ := h
          obtain ⟨_, _, h3⟩ := spec_readProbs_inv _ _ _ _ _ _ _ hp (by intro p hp; cases hp)
          have hl : rest.length ≤ (Spec.bitsLE a).length := by rw [hrest, List.length_drop]; omega
          refine ⟨rfl, rfl, ?_⟩
          simp only [List.length_append]
          omega

/-- **C01, `read_weights`, the FSE table of the weights**: the statement of `Proofs/BlkHufRefDefs` -/
theorem weightsTableRefines : WeightsTableRefines := by
  intro rest header al used probs T hb hrd hbt
  have hext : Spec.Fse.readDescription rest 6 255 = some (al, probs, used) := by
    have := readDescription_extend (b := rest.drop header) (ms' := 255) (by omega) hrd
    rwa [List.take_append_drop] at this
  obtain ⟨ft, h1, h2, _, h4, _⟩ :=
    buildDecoder_spec (Fse.DTable.new Gen.hufFseMaxSymbol) hb (maxLog := Gen.hufWeightsMaxLogDec)
      (maxCode := 255) (by decide) (by omega) rfl hext
  refine ⟨ft, h1, h2, ?_⟩
  rw [hbt] at h4
  exact Option.some.inj h4

end Zstd.Proofs.Blk
