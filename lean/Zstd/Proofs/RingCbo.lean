import Zstd.Proofs.RingMem
/-
Helper lemmas for C04, layer 2: `copy_bytes_overshooting`.
-/
namespace Zstd.Model
open Zstd

/-- effect of copying `k` bytes from `src` to `dst` (regions disjoint): inside `[dst, dst+k)` the
new cells are the old source cells, everything else is untouched, the allocation is the same -/
def Copied (m m' : Mem) (src dst k : Nat) : Prop :=
  m'.size = m.size ∧
  ∀ j, m'.cell j = if dst ≤ j ∧ j < dst + k then m.cell (src + (j - dst)) else m.cell j

theorem Copied.inside {m m' : Mem} {src dst k j : Nat} (h : Copied m m' src dst k)
    (hj : dst ≤ j ∧ j < dst + k) : m'.cell j = m.cell (src + (j - dst)) := by
  rw [h.2 j]; simp only [hj, and_self, ↓reduceIte]

theorem Copied.outside {m m' : Mem} {src dst k j : Nat} (h : Copied m m' src dst k)
    (hj : ¬ (dst ≤ j ∧ j < dst + k)) : m'.cell j = m.cell j := by
  rw [h.2 j]; simp only [hj, ↓reduceIte]

/-- one read-then-write of `k` bytes (no disjointness needed: the read completes first) -/
theorem copyOnce_ok {m : Mem} {s1 s2 : String} {src dst k : Nat}
    (hsrc : ∀ i, i < k → (m.cell (src + i)).isSome) (hdst : dst + k ≤ m.size) :
    ∃ m', (match m.readN s1 src k with
           | .error e => (.error e : Except Fault Mem)
           | .ok bs => Mem.writeL s2 m dst bs) = .ok m' ∧ Copied m m' src dst k := by
  rw [Mem.readN_ok hsrc]
  obtain ⟨m', h1, hs, hc⟩ := Mem.writeL_ok (site := s2) (l := m.vals src k) (m := m) (off := dst)
    (by rw [Mem.vals_length]; exact hdst)
  refine ⟨m', h1, hs, ?_⟩
  intro j
  rw [hc j, Mem.vals_length]
  split
  · rename_i hj
    rw [Mem.getD_vals (by omega)]
    exact (Mem.cell_eq_some_val (hsrc (j - dst) (by omega))).symm
  · rfl

theorem cboChunks_ok {C : Nat} : ∀ (k : Nat) {m : Mem} {src dst : Nat},
    (∀ i, i < k * C → (m.cell (src + i)).isSome) → dst + k * C ≤ m.size →
    (src + k * C ≤ dst ∨ dst + k * C ≤ src) →
    ∃ m', cboChunks C k m src dst = .ok m' ∧ Copied m m' src dst (k * C)
  | 0, m, src, dst, _, _, _ => ⟨m, rfl, rfl, fun j => by simp; omega⟩
  | k + 1, m, src, dst, hsrc, hdst, hdisj => by
    rw [Nat.succ_mul] at hsrc hdst hdisj
    obtain ⟨m1, h1, hs1, hc1⟩ := copyOnce_ok (m := m)
      (s1 := "ringbuffer.rs:copy_bytes_overshooting:chunk-read")
      (s2 := "ringbuffer.rs:copy_bytes_overshooting:chunk-write") (src := src) (dst := dst) (k := C)
      (fun i hi => hsrc i (by omega)) (by omega)
    have hsrc1 : ∀ i, i < k * C → (m1.cell (src + C + i)).isSome := by
      intro i hi
      rw [hc1]
      have : ¬ (dst ≤ src + C + i ∧ src + C + i < dst + C) := by omega
      simp only [this, ↓reduceIte]
      have := hsrc (C + i) (by omega)
      rwa [← Nat.add_assoc] at this
    obtain ⟨m2, h2, hs2, hc2⟩ := cboChunks_ok k (m := m1) (src := src + C) (dst := dst + C)
      hsrc1 (by omega) (by omega)
    refine ⟨m2, ?_, by omega, ?_⟩
    · simp only [cboChunks]
      split
      · rename_i e he; rw [he] at h1; cases h1
      · rename_i bs hbs
        rw [hbs] at h1
        simp only [] at h1
        rw [h1]; exact h2
    · intro j
      rw [hc2 j, Nat.succ_mul]
      by_cases hj2 : dst + C ≤ j ∧ j < dst + C + k * C
      · have hj : dst ≤ j ∧ j < dst + (k * C + C) := by omega
        simp only [hj2, hj, and_self, ↓reduceIte]
        rw [hc1]
        have : ¬ (dst ≤ src + C + (j - (dst + C)) ∧ src + C + (j - (dst + C)) < dst + C) := by omega
        simp only [this, ↓reduceIte]
        congr 1; omega
      · simp only [hj2, ↓reduceIte]
        rw [hc1 j]
        by_cases hj1 : dst ≤ j ∧ j < dst + C
        · have hj : dst ≤ j ∧ j < dst + (k * C + C) := by omega
          simp only [hj1, hj, and_self, ↓reduceIte]
        · have hj : ¬ (dst ≤ j ∧ j < dst + (k * C + C)) := by omega
          simp only [hj1, hj, ↓reduceIte]

/-- what the callers of `copy_bytes_overshooting` owe it: `src` is an initialised region (only its first
`min srcLen dstLen` bytes can ever be read), `dst` a region inside the allocation, the two are
disjoint, and the requested length fits both -/
structure CboPre (m : Mem) (c : CboCall) : Prop where
  srcInit : ∀ i, i < min c.srcLen c.dstLen → (m.cell (c.srcOff + i)).isSome
  dstIn : c.dstOff + c.dstLen ≤ m.size
  disj : c.srcOff + c.srcLen ≤ c.dstOff ∨ c.dstOff + c.dstLen ≤ c.srcOff
  nSrc : c.n ≤ c.srcLen
  nDst : c.n ≤ c.dstLen

theorem cboCopy_ok {C : Nat} (hC : 0 < C) {m : Mem} {c : CboCall} (h : CboPre m c) :
    ∃ m' k, cboCopy C m c = .ok m' ∧ c.n ≤ k ∧ k ≤ c.srcLen ∧ k ≤ c.dstLen ∧
      Copied m m' c.srcOff c.dstOff k := by
  obtain ⟨hsrc, hdst, hdisj, hn1, hn2⟩ := h
  unfold cboCopy
  simp only [gen_cboOneChunkMin, gen_cboOneChunkN, gen_cboMultiMin]
  split
  · -- one chunk
    rename_i hc
    obtain ⟨m', h1, h2⟩ := cboChunks_ok (C := C) 1 (m := m) (src := c.srcOff) (dst := c.dstOff)
      (fun i hi => hsrc i (by omega)) (by omega) (by omega)
    rw [Nat.one_mul] at h2
    exact ⟨m', C, h1, by omega, by omega, by omega, h2⟩
  · split
    · -- next_multiple_of in chunks
      rename_i hc
      have hge := nextMultipleOf_ge c.n C
      have hdvd := nextMultipleOf_dvd c.n C hC
      have hk : nextMultipleOf c.n C / C * C = nextMultipleOf c.n C := by
        have := Nat.div_add_mod (nextMultipleOf c.n C) C
        rw [hdvd, Nat.add_zero, Nat.mul_comm] at this
        exact this
      obtain ⟨m', h1, h2⟩ := cboChunks_ok (C := C) (nextMultipleOf c.n C / C) (m := m)
        (src := c.srcOff) (dst := c.dstOff)
        (fun i hi => hsrc i (by omega)) (by omega) (by omega)
      rw [hk] at h2
      exact ⟨m', nextMultipleOf c.n C, h1, hge, by omega, by omega, h2⟩
    · -- exact copy
      obtain ⟨m', h1, h2⟩ := copyOnce_ok (m := m)
        (s1 := "ringbuffer.rs:copy_bytes_overshooting:memcpy-read")
        (s2 := "ringbuffer.rs:copy_bytes_overshooting:memcpy-write")
        (src := c.srcOff) (dst := c.dstOff) (k := c.n)
        (fun i hi => hsrc i (by omega)) (by omega)
      exact ⟨m', c.n, h1, Nat.le_refl _, hn1, hn2, h2⟩

/-- `copy_bytes_overshooting` under its contract: no fault (so every byte read was an initialised
byte of the source region and every byte written lies in the destination region), at least `n` and
at most `min srcLen dstLen` bytes moved, nothing outside the destination region changed, and the
trailing `debug_assert_eq!` holds. -/
theorem cbo_ok {C : Nat} (hC : 0 < C) {m : Mem} {c : CboCall} (h : CboPre m c) :
    ∃ m' k, cbo C m c = .ok m' ∧ c.n ≤ k ∧ k ≤ c.srcLen ∧ k ≤ c.dstLen ∧
      Copied m m' c.srcOff c.dstOff k := by
  obtain ⟨m', k, h1, hk1, hk2, hk3, hs, hc⟩ := cboCopy_ok hC h
  obtain ⟨hsrc, hdst, hdisj, hn1, hn2⟩ := h
  refine ⟨m', k, ?_, hk1, hk2, hk3, hs, hc⟩
  have hsrc' : ∀ i, i < c.n → m'.cell (c.srcOff + i) = m.cell (c.srcOff + i) := by
    intro i hi
    rw [hc]
    have : ¬ (c.dstOff ≤ c.srcOff + i ∧ c.srcOff + i < c.dstOff + k) := by omega
    simp only [this, ↓reduceIte]
  have hdst' : ∀ i, i < c.n → m'.cell (c.dstOff + i) = m.cell (c.srcOff + i) := by
    intro i hi
    rw [hc]
    have : c.dstOff ≤ c.dstOff + i ∧ c.dstOff + i < c.dstOff + k := by omega
    simp only [this, and_self, ↓reduceIte]
    congr 1; omega
  have r1 := Mem.readN_ok (m := m') (site := "ringbuffer.rs:copy_bytes_overshooting:assert-src")
    (n := c.n) (off := c.srcOff) (fun i hi => by rw [hsrc' i hi]; exact hsrc i (by omega))
  have r2 := Mem.readN_ok (m := m') (site := "ringbuffer.rs:copy_bytes_overshooting:assert-dst")
    (n := c.n) (off := c.dstOff) (fun i hi => by rw [hdst' i hi]; exact hsrc i (by omega))
  have heq : m'.vals c.srcOff c.n = m'.vals c.dstOff c.n := by
    unfold Mem.vals
    apply List.map_congr_left
    intro i hi
    have hi' : i < c.n := by simpa using hi
    unfold Mem.val
    rw [hsrc' i hi', hdst' i hi']
  unfold cbo
  rw [h1, ok_bind, r1, ok_bind, r2, ok_bind, check_ok heq, ok_bind, pure_eq_ok]

end Zstd.Model
