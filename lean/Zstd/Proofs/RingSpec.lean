import Zstd.Model.DecodeBuffer
/-
Specification vocabulary for C04 (definitions only, no proofs): the invariant documented at
`ringbuffer.rs:5-21`, the abstraction function, the abstract byte queue, the byte-by-byte
overlapping copy, and operation sequences.
-/
namespace Zstd.Model
open Zstd

namespace RingBuffer

/-- physical index of logical position `i` (position `0` is `head`) -/
def phys (r : RingBuffer) (i : Nat) : Nat :=
  if r.head + i < r.cap then r.head + i else r.head + i - r.cap

/-- the physical cell `j` belongs to the occupied region: `head..tail` if `tail ≥ head`,
else `head..` and `..tail` (invariant 2 a/b) -/
def occupied (r : RingBuffer) (j : Nat) : Prop :=
  if r.tail ≥ r.head then r.head ≤ j ∧ j < r.tail else (r.head ≤ j ∧ j < r.cap) ∨ j < r.tail

/-- The safety invariants documented on the structure (`ringbuffer.rs:5-21`).
* `alloc`  — 1 a/b: `buf` is an allocation of exactly `cap` cells (none at all when `cap = 0`).  Since the
  raw accessors fault outside `[0, mem.size)`, this also says that no cell outside the allocation is
  ever written.
* `init`   — 2 a/b: the occupied region is initialised memory.
* `bounds` — 3 and 4: `head` and `tail` are in bounds (`< cap`; `tail` is never `cap`).  As documented the
  invariant would be violated by `new()` (`cap = 0`, `head = tail = 0`); that state is the extra disjunct. -/
structure Inv (r : RingBuffer) : Prop where
  alloc : r.mem.size = r.cap
  init : ∀ j, r.occupied j → (r.mem.cell j).isSome
  bounds : (r.cap = 0 ∧ r.head = 0 ∧ r.tail = 0) ∨ (r.head < r.cap ∧ r.tail < r.cap)

/-- abstraction: the `len` cells from `head` on, in order -/
def abs (r : RingBuffer) : List Byte := (List.range r.len).map (fun i => r.mem.val (r.phys i))

end RingBuffer

/-- the `copy_bytes_overshooting` calls `extend_from_within_unchecked(start, len)` makes in state `r`,
as a function of `(cap, head, tail, start, len)` alone (one or two calls; five call sites).
`efwu_calls_logged` (Proofs/RingWithin) shows these are exactly the calls the model executes. -/
def efwuCalls (r : RingBuffer) (start len : Nat) : List CboCall :=
  if r.head < r.tail then
    let afterTail := min len (r.cap - r.tail)
    let c1 : CboCall := ⟨r.head + start, r.tail - r.head - start, r.tail, r.cap - r.tail, afterTail⟩
    if afterTail < len then
      [c1, ⟨r.head + start + afterTail, r.tail - r.head - start - afterTail, 0, r.head, len - afterTail⟩]
    else [c1]
  else if r.head + start > r.cap then
    [⟨r.head + start - r.cap, r.tail - (r.head + start - r.cap), r.tail, r.head - r.tail, len⟩]
  else
    let afterStart := min len (r.cap - r.head - start)
    let c1 : CboCall := ⟨r.head + start, r.cap - r.head - start, r.tail, r.head - r.tail, afterStart⟩
    if afterStart < len then
      [c1, ⟨0, r.tail, r.tail + afterStart, r.head - r.tail - afterStart, len - afterStart⟩]
    else [c1]

/-- what a call site owes `copy_bytes_overshooting`, in terms of the ring's geometry only: every source
byte the routine may read (`min srcLen dstLen` of them) is an occupied — hence initialised — cell; the
WHOLE destination region handed over lies inside the allocation and consists of free cells only (so
the over-copy can only hit free cells, and source and destination cannot overlap); the requested length
fits both regions.  A miscalculated region length (the historical bug) violates `dstFree`/`srcOcc`. -/
structure CallGeom (r : RingBuffer) (c : CboCall) : Prop where
  srcOcc : ∀ i, i < min c.srcLen c.dstLen → r.occupied (c.srcOff + i)
  dstFree : ∀ i, i < c.dstLen → c.dstOff + i < r.cap ∧ ¬ r.occupied (c.dstOff + i)
  nSrc : c.n ≤ c.srcLen
  nDst : c.n ≤ c.dstLen

/-! ### the abstract byte queue -/
namespace Queue

def append (q data : List Byte) : List Byte := q ++ data
def fill (q : List Byte) (b : Byte) (n : Nat) : List Byte := q ++ List.replicate n b
/-- copy `len` bytes starting at `start` to the end (source entirely inside the old content) -/
def copyWithin (q : List Byte) (start len : Nat) : List Byte := q ++ (q.drop start).take len
def dropFront (q : List Byte) (n : Nat) : List Byte := q.drop n
def clear (_ : List Byte) : List Byte := []

end Queue

/-- the format's match copy: `n` times "append the byte that is `offset` positions before the end".
Overlapping (`n > offset`) repeats the pattern.  Meaningful for `0 < offset ≤ l.length`. -/
def overlapCopy (l : List Byte) (offset : Nat) : Nat → List Byte
  | 0 => l
  | n + 1 => overlapCopy (l ++ [l.getD (l.length - offset) 0]) offset n

/-! ### operation sequences (the calls the decoder makes on the ring) -/

inductive RingOp where
  | reserve (n : Nat)
  | extend (data : List Byte)
  | pushBack (b : Byte)
  | extendAndFill (b : Byte) (n : Nat)
  /-- `extend_from_reader(reader holding avail, n)` -/
  | extendFromReader (avail : List Byte) (n : Nat)
  /-- checked `extend_from_within` -/
  | extendFromWithin (start len : Nat)
  /-- `reserve(len)` followed by `extend_from_within_unchecked(start, len)`, as `DecodeBuffer::repeat` does -/
  | reserveThenUnchecked (start len : Nat)
  | dropFirstN (n : Nat)
  | clear

/-- one operation on the model -/
def RingOp.apply (C : Nat) (r : RingBuffer) : RingOp → Except Fault RingBuffer
  | .reserve n => r.reserve n
  | .extend d => r.extend d
  | .pushBack b => r.pushBack b
  | .extendAndFill b n => r.extendAndFill b n
  | .extendFromReader a n => r.extendFromReader a n >>= fun res => pure res.1
  | .extendFromWithin s l => r.extendFromWithin C s l
  | .reserveThenUnchecked s l => r.reserve l >>= fun r => r.extendFromWithinUnchecked C s l
  | .dropFirstN n => r.dropFirstN n
  | .clear => pure r.clear

/-- the same operation on the abstract queue; `none` = outside the contract: the documented panic /
`SAFETY` precondition (`start + len ≤ len()`, `amount ≤ len()`), and — for the three operations that
end in `% self.cap` without reserving anything first — a buffer that holds at least one byte (on a
never-allocated buffer, `cap = 0`, they divide by zero; the decoder only calls them on non-empty
buffers: `repeat` with `0 < offset ≤ len`, `DrainGuard` with `amount ≠ 0`). -/
def RingOp.applyQ (q : List Byte) : RingOp → Option (List Byte)
  | .reserve _ => some q
  | .extend d => some (Queue.append q d)
  | .pushBack b => some (Queue.append q [b])
  | .extendAndFill b n => some (Queue.fill q b n)
  | .extendFromReader a n => some (if n ≤ a.length then Queue.append q (a.take n) else q)
  | .extendFromWithin s l => if s + l ≤ q.length ∧ 0 < q.length then some (Queue.copyWithin q s l) else none
  | .reserveThenUnchecked s l => if s + l ≤ q.length ∧ 0 < q.length then some (Queue.copyWithin q s l) else none
  | .dropFirstN n => if n ≤ q.length ∧ 0 < q.length then some (Queue.dropFront q n) else none
  | .clear => some (Queue.clear q)

/-- how many bytes of room the operation asks `reserve` for -/
def RingOp.request : RingOp → Nat
  | .reserve n => n
  | .extend d => d.length
  | .pushBack _ => 1
  | .extendAndFill _ n => n
  | .extendFromReader _ n => n
  | .extendFromWithin _ l => l
  | .reserveThenUnchecked _ l => l
  | .dropFirstN _ => 0
  | .clear => 0

/-- the largest `len + requested` over a run of the abstract queue -/
def peakQueue : List RingOp → List Byte → Nat
  | [], _ => 0
  | op :: ops, q =>
    max (q.length + op.request) (match op.applyQ q with | some q' => peakQueue ops q' | none => 0)

def runRing (C : Nat) : List RingOp → RingBuffer → Except Fault RingBuffer
  | [], r => .ok r
  | op :: ops, r =>
    match op.apply C r with
    | .error e => .error e
    | .ok r' => runRing C ops r'

def runQueue : List RingOp → List Byte → Option (List Byte)
  | [], q => some q
  | op :: ops, q =>
    match op.applyQ q with
    | none => none
    | some q' => runQueue ops q'

/-! ### operation sequences on the decode buffer (every `pub` entry point the decoder uses) -/

inductive DbOp where
  | reset (ws : Nat)
  /-- assignment to the `pub dict_content` field (`DecoderScratch::init_from_dict`) -/
  | setDict (dict : List Byte)
  | push (data : List Byte)
  | «repeat» (offset ml : Nat)
  | extendAndFill (b : Byte) (n : Nat)
  | extendFromReader (avail : List Byte) (n : Nat)
  | drain
  | drainToWindowSize
  | drainToWriter (script : List SinkAns)
  | drainToWindowSizeWriter (script : List SinkAns)
  | read (targetLen : Nat)
  | readAll (targetLen : Nat)

/-- what `execute_sequences` guarantees of its calls: `repeat` only with `offset > 0` -/
def DbOp.fromDecoder : DbOp → Prop
  | .repeat offset _ => 0 < offset
  | _ => True

/-- one operation on the model (outputs dropped, a Rust `Err` is an ordinary return) -/
def DbOp.apply (C : Nat) (d : DecodeBuffer) : DbOp → Except Fault DecodeBuffer
  | .reset ws => d.reset ws
  | .setDict dict => pure { d with dict := dict }
  | .push data => d.push data
  | .repeat o m => d.repeat C o m >>= fun res => pure res.1
  | .extendAndFill b n => d.extendAndFill b n
  | .extendFromReader a n => d.extendFromReader a n >>= fun res => pure res.1
  | .drain => d.drain >>= fun res => pure res.1
  | .drainToWindowSize => d.drainToWindowSize >>= fun res => pure res.1
  | .drainToWriter sc => d.drainToWriter { script := sc } >>= fun res => pure res.1
  | .drainToWindowSizeWriter sc => d.drainToWindowSizeWriter { script := sc } >>= fun res => pure res.1
  | .read t => d.read t >>= fun res => pure res.1
  | .readAll t => d.readAll t >>= fun res => pure res.1

/-- how many bytes of room the operation asks `reserve` for -/
def DbOp.request : DbOp → Nat
  | .reset ws => ws
  | .push data => data.length
  | .repeat _ ml => ml
  | .extendAndFill _ n => n
  | .extendFromReader _ n => n
  | _ => 0

/-- the largest `len + requested` over a run of the model -/
def peakDb (C : Nat) : List DbOp → DecodeBuffer → Nat
  | [], _ => 0
  | op :: ops, d =>
    max (d.buffer.len + op.request) (match op.apply C d with | .ok d' => peakDb C ops d' | .error _ => 0)

def runDb (C : Nat) : List DbOp → DecodeBuffer → Except Fault DecodeBuffer
  | [], d => .ok d
  | op :: ops, d =>
    match op.apply C d with
    | .error e => .error e
    | .ok d' => runDb C ops d'

end Zstd.Model
