import Zstd.Proofs.HufLt128Bound
import Zstd.Proofs.HufLt128All
import Zstd.Proofs.HufRoundtripFse
import Zstd.Proofs.HufShape
/-
`fse_weights_lt_128`, lifted from the finite table to every histogram: the weights of a table that
`build_from_counts` returns are the shape for `n` spread over the used symbols, so the value histogram
of the transmitted weights is `shape n` + `z` zeros − the dropped weight — one of the evaluated cases.
-/
namespace Zstd.Proofs.Huf
open Zstd Zstd.Model Zstd.Model.Huf Zstd.Proofs.HufLt128 Zstd.Proofs.HufShape

/-! ### the scatter loop preserves the value counts -/

theorem setNat_count : ∀ (out : List Nat) (i v : Nat) (out' : List Nat), setNat out i v = .ok out' →
    out[i]? = some 0 → ∀ x, out'.count x + (if x = 0 then 1 else 0) = out.count x + (if v = x then 1 else 0)
  | [], _, _, _, h, _, _ => by simp [setNat] at h
  | c :: cs, 0, v, out', h, h0, x => by
    simp only [setNat, Except.ok.injEq] at h
    subst h
    simp only [List.getElem?_cons_zero, Option.some.injEq] at h0
    subst h0
    simp only [List.count_cons]
    by_cases hx : x = 0
    · subst hx; by_cases hv : v = 0 <;> simp [hv]
    · have h1 : ((0 : Nat) == x) = false := by simpa using (Ne.symm hx)
      have h1' : ¬ (0 = x) := fun hh => hx hh.symm
      by_cases hv : v = x
      · subst hv; simp [hx, h1']
      · have h2 : (v == x) = false := by simpa using hv
        simp [hx, h1, hv, h2]
  | c :: cs, i + 1, v, out', h, h0, x => by
    simp only [setNat] at h
    cases hr : setNat cs i v with
    | error f => rw [hr] at h; cases h
    | ok r =>
      rw [hr] at h
      simp only [Except.ok.injEq] at h
      subst h
      have := setNat_count cs i v r hr (by simpa using h0) x
      simp only [List.count_cons]
      omega

theorem scatter_count : ∀ (order : List (Nat × Bool)) (ws out wd : List Nat),
    order.Pairwise (fun a b => a.1 ≠ b.1) → (∀ p ∈ order, out[p.1]? = some 0) →
    (order.filter (fun p => !p.2)).length = ws.length →
    scatter order ws out = .ok wd →
    ∀ x, wd.count x + (if x = 0 then ws.length else 0) = out.count x + ws.count x
  | [], ws, out, wd, _, _, hcnt, h, x => by
    have : ws = [] := by simpa using hcnt.symm
    subst this
    simp only [scatter, Except.ok.injEq] at h
    subst h
    simp
  | (idx, true) :: rest, ws, out, wd, hnd, hin, hcnt, h, x => by
    rw [List.pairwise_cons] at hnd
    have h0 := hin (idx, true) List.mem_cons_self
    simp only at h0
    simp only [scatter] at h
    cases hs : setNat out idx 0 with
    | error f => rw [hs] at h; cases h
    | ok out' =>
      rw [hs] at h
      simp only at h
      have hlt : idx < out.length := by
        rcases Nat.lt_or_ge idx out.length with hh | hh
        · exact hh
        · rw [List.getElem?_eq_none hh] at h0; cases h0
      obtain ⟨out'', s1, _, _, s4, _⟩ := setNat_ok out idx 0 hlt
      rw [hs] at s1
      simp only [Except.ok.injEq] at s1
      subst s1
      have hc := setNat_count out idx 0 out' hs h0 x
      have ih := scatter_count rest ws out' wd hnd.2
        (fun p hp => by
          rw [s4 p.1 (fun hh => hnd.1 p hp hh.symm)]
          exact hin p (List.mem_cons_of_mem _ hp))
        (by simpa using hcnt) h x
      by_cases hx : x = 0
      · subst hx; simp only [if_true] at hc ih ⊢; omega
      · have : ¬ (0 = x) := fun hh => hx hh.symm
        simp only [hx, this, if_false] at hc ih ⊢; omega
  | (idx, false) :: rest, [], out, wd, _, _, hcnt, _, _ => by simp at hcnt
  | (idx, false) :: rest, w :: ws, out, wd, hnd, hin, hcnt, h, x => by
    rw [List.pairwise_cons] at hnd
    have h0 := hin (idx, false) List.mem_cons_self
    simp only at h0
    simp only [scatter] at h
    cases hs : setNat out idx w with
    | error f => rw [hs] at h; cases h
    | ok out' =>
      rw [hs] at h
      simp only at h
      have hlt : idx < out.length := by
        rcases Nat.lt_or_ge idx out.length with hh | hh
        · exact hh
        · rw [List.getElem?_eq_none hh] at h0; cases h0
      obtain ⟨out'', s1, _, _, s4, _⟩ := setNat_ok out idx w hlt
      rw [hs] at s1
      simp only [Except.ok.injEq] at s1
      subst s1
      have hc := setNat_count out idx w out' hs h0 x
      have ih := scatter_count rest ws out' wd hnd.2
        (fun p hp => by
          rw [s4 p.1 (fun hh => hnd.1 p hp hh.symm)]
          exact hin p (List.mem_cons_of_mem _ hp))
        (by simpa using hcnt) h x
      simp only [List.count_cons, List.length_cons]
      by_cases hx : x = 0
      · subst hx
        simp only [if_true] at hc ih ⊢
        by_cases hw : w = 0
        · subst hw; simp at hc ⊢; omega
        · have h1 : (w == 0) = false := by simpa using hw
          simp [hw, h1] at hc ⊢; omega
      · simp only [hx, if_false] at hc ih ⊢
        by_cases hw : w = x
        · subst hw; simp at hc ⊢; omega
        · have h1 : (w == x) = false := by simpa using hw
          simp [hw, h1] at hc ⊢; omega

/-! ### value histograms -/

theorem valueCounts_length (l : List Nat) : (valueCounts l).length = 12 := by simp [valueCounts]

theorem valueCounts_getD (l : List Nat) (x : Nat) (hx : x < 12) : (valueCounts l).getD x 0 = l.count x := by
  simp [valueCounts, List.getD_eq_getElem?_getD, List.getElem?_map, List.getElem?_range hx]

theorem list_ext_getD {a b : List Nat} (hlen : a.length = b.length)
    (h : ∀ x, x < a.length → a.getD x 0 = b.getD x 0) : a = b := by
  apply List.ext_getElem?
  intro x
  rcases Nat.lt_or_ge x a.length with hx | hx
  · have := h x hx
    rw [List.getD_eq_getElem?_getD, List.getD_eq_getElem?_getD, List.getElem?_eq_getElem hx,
      List.getElem?_eq_getElem (by omega)] at this
    rw [List.getElem?_eq_getElem hx, List.getElem?_eq_getElem (by omega)]
    simpa using this
  · rw [List.getElem?_eq_none hx, List.getElem?_eq_none (by omega)]

/-- the shape's values plus `z` zeros is the value histogram of the scattered weights -/
theorem withZeros_eq (ws wd : List Nat) (h0 : ws.count 0 = 0) (hc : ∀ x, x ≠ 0 → wd.count x = ws.count x) :
    withZeros (valueCounts ws) (wd.count 0) = valueCounts wd := by
  apply list_ext_getD
  · simp [withZeros, valueCounts]
  · intro x hx
    have hx12 : x < 12 := by simpa [withZeros, valueCounts] using hx
    rw [valueCounts_getD wd x hx12]
    cases x with
    | zero =>
      simp only [withZeros, List.getD_cons_zero]
      have : (valueCounts ws).headD 0 = ws.count 0 := by simp [valueCounts, List.range_succ_eq_map]
      rw [this, h0]; omega
    | succ x =>
      simp only [withZeros, List.getD_cons_succ]
      have : (valueCounts ws).tail.getD x 0 = (valueCounts ws).getD (x + 1) 0 := by
        cases hv : valueCounts ws with
        | nil => simp
        | cons a t => simp
      rw [this, valueCounts_getD ws (x + 1) hx12, hc (x + 1) (by omega)]

/-- dropping the last weight `d` lowers the count of `d` by one -/
theorem decAt_eq (wd' : List Nat) (d : Nat) (hd : d < 12) :
    HufLt128.decAt (valueCounts (wd' ++ [d])) d = valueCounts wd' := by
  apply list_ext_getD
  · simp [HufLt128.decAt, valueCounts]
  · intro x hx
    have hx12 : x < 12 := by simpa [HufLt128.decAt, valueCounts] using hx
    rw [valueCounts_getD wd' x hx12]
    simp only [HufLt128.decAt, List.getD_eq_getElem?_getD, List.getElem?_modify]
    have hget : (valueCounts (wd' ++ [d]))[x]? = some ((wd' ++ [d]).count x) := by
      have := valueCounts_getD (wd' ++ [d]) x hx12
      rw [List.getD_eq_getElem?_getD, List.getElem?_eq_getElem (by rw [valueCounts_length]; exact hx12)] at this
      rw [List.getElem?_eq_getElem (by rw [valueCounts_length]; exact hx12)]
      simpa using this
    rw [hget]
    by_cases hdx : d = x
    · subst hdx; simp [List.count_append]
    · have : (d == x) = false := by simpa using hdx
      simp [hdx, List.count_append, this]

theorem trimRev_zeros (k : Nat) (l : List Nat) : trimRev (List.replicate k 0 ++ l) = trimRev l := by
  induction k with
  | zero => rfl
  | succ k ih => simp only [List.replicate_succ, List.cons_append, trimRev, ih]

theorem trimRev_pos {x : Nat} (l : List Nat) (hx : 0 < x) : trimRev (x :: l) = x :: l := by
  cases x with
  | zero => omega
  | succ x => rfl

/-- `trim` undoes the zero padding of a histogram whose last entry is not zero -/
theorem trim_padded (H : List Nat) (k : Nat) (h2 : 2 ≤ H.length) (hlast : ∀ c, H.getLast? = some c → c > 0) :
    trim (H ++ List.replicate k 0) = H := by
  unfold trim
  rw [List.reverse_append, List.reverse_replicate, trimRev_zeros]
  have hne : H ≠ [] := by intro h; rw [h] at h2; simp at h2
  have hrev : H.reverse = H.getLast hne :: H.dropLast.reverse := by
    conv => lhs; rw [← List.dropLast_concat_getLast hne]
    simp
  have hpos := hlast (H.getLast hne) (List.getLast?_eq_some_getLast hne)
  rw [hrev, trimRev_pos _ hpos, ← hrev, List.reverse_reverse]
  match H, h2 with
  | a :: b :: r, _ => rfl

/-- the histogram `build_table_from_data` computes is the trimmed value histogram -/
theorem histogram_eq_trim (ws : List Nat) (hle : ∀ w ∈ ws, w ≤ 11) (hpos : ∃ w ∈ ws, 1 ≤ w) :
    Fse.histogram ws = trim (valueCounts ws) := by
  obtain ⟨h2, h12, hget, hmem, hlast⟩ := histogram_weights ws hle hpos
  have hpad : valueCounts ws = Fse.histogram ws ++ List.replicate (12 - (Fse.histogram ws).length) 0 := by
    apply list_ext_getD
    · simp [valueCounts]; omega
    · intro x hx
      have hx12 : x < 12 := by simpa [valueCounts] using hx
      rw [valueCounts_getD ws x hx12]
      rcases Nat.lt_or_ge x (Fse.histogram ws).length with hl | hl
      · rw [List.getD_eq_getElem?_getD, List.getElem?_append_left hl, ← List.getD_eq_getElem?_getD, hget x hl]
      · rw [List.getD_eq_getElem?_getD, List.getElem?_append_right hl, List.getElem?_replicate]
        have : ws.count x = 0 := by
          rw [List.count_eq_zero]
          intro hxm; have := hmem x hxm; omega
        rw [this]; split <;> rfl
  rw [hpad, trim_padded _ _ h2 hlast]

/-! ### reading the kernel-checked table -/

theorem checkD_spec (f : List Nat) : ∀ k, checkD f k = true → ∀ d, d < k → f.getD d 0 ≥ 1 →
    boundOf (trim (HufLt128.decAt f d)) ≤ 1023 := by
  intro k
  induction k with
  | zero => intro _ d hd; omega
  | succ k ih =>
    intro h d hd hf
    simp only [checkD, Bool.and_eq_true] at h
    by_cases hdk : d = k
    · subst hdk
      have := h.1
      rw [if_pos hf] at this
      simpa using this
    · exact ih h.2 d (by omega) hf

theorem sweep_spec (h : List Nat) : ∀ zmax, sweep h zmax = true → ∀ z, z ≤ zmax →
    checkD (withZeros h z) 12 = true := by
  intro zmax
  induction zmax with
  | zero => intro hs z hz; have : z = 0 := by omega
            subst this; simpa [sweep] using hs
  | succ zmax ih =>
    intro hs z hz
    simp only [sweep, Bool.and_eq_true] at hs
    by_cases hzz : z = zmax + 1
    · subst hzz; exact hs.1
    · exact ih hs.2 z (by omega)

/-- **the evaluated bound applies to every scatter of a shape**: if `wd` consists of the weights of
`shape n` and at most `256 − n` zeros, then the FSE coder's bound for `wd.dropLast` is below 1024 bits -/
theorem lt128_transmitted (n : Nat) (h1 : 2 ≤ n) (h2 : n ≤ 256) (ws : List Nat) (hs : shape n = .ok ws)
    (wd : List Nat) (hcount : ∀ x, x ≠ 0 → wd.count x = ws.count x) (hz : wd.count 0 ≤ 256 - n)
    (hle : ∀ w ∈ wd, w ≤ 11) (hne : wd ≠ []) (hpos : ∃ w ∈ wd.dropLast, 1 ≤ w) :
    boundOf (Fse.histogram wd.dropLast) ≤ 1023 := by
  obtain ⟨h, hh, hsw⟩ := lt128_all n h1 h2
  -- the literal histogram is the shape's
  have hvc : valueCounts ws = h := by
    unfold shapeHistIs at hh
    rw [hs] at hh
    simpa using hh
  -- the shape has no zero weight
  have h0 : ws.count 0 = 0 := by
    have hok := shapeOk_all n h1 h2
    unfold shapeOk at hok
    rw [hs] at hok
    simp only [Bool.and_eq_true] at hok
    obtain ⟨⟨⟨⟨⟨_, b⟩, _⟩, _⟩, _⟩, _⟩ := hok
    rw [List.count_eq_zero]
    intro hm
    have : ∀ (l : List Nat), allGe1 l = true → ∀ w ∈ l, 1 ≤ w := by
      intro l
      induction l with
      | nil => intro _ w hw; cases hw
      | cons x xs ih =>
        intro hb w hw
        simp only [allGe1, Bool.and_eq_true, decide_eq_true_eq] at hb
        rcases List.mem_cons.mp hw with rfl | hw
        · exact hb.1
        · exact ih hb.2 w hw
    have := this ws b 0 hm
    omega
  have hfull : withZeros h (wd.count 0) = valueCounts wd := by rw [← hvc]; exact withZeros_eq ws wd h0 hcount
  have hd : wd.getLast hne ∈ wd := List.getLast_mem hne
  have hd12 : wd.getLast hne < 12 := by have := hle _ hd; omega
  have hsplit : wd.dropLast ++ [wd.getLast hne] = wd := List.dropLast_concat_getLast hne
  have hck := sweep_spec h (256 - n) hsw (wd.count 0) hz
  have hb := checkD_spec _ 12 hck (wd.getLast hne) hd12 (by
    rw [hfull, valueCounts_getD wd _ hd12]
    exact List.count_pos_iff.mpr hd)
  rw [hfull] at hb
  have hdec : HufLt128.decAt (valueCounts wd) (wd.getLast hne) = valueCounts wd.dropLast := by
    have := decAt_eq wd.dropLast (wd.getLast hne) hd12
    rw [hsplit] at this
    exact this
  rw [hdec, ← histogram_eq_trim wd.dropLast (fun w hw => hle w (List.dropLast_subset _ hw)) hpos] at hb
  exact hb

/-! ### `write_table` is total on the tables `build_from_counts` returns -/

theorem shape_ok_range {n : Nat} {ws : List Nat} (h : shape n = .ok ws) : 2 ≤ n ∧ n ≤ 256 := by
  unfold shape distributeWeights at h
  by_cases h1 : Gen.hufAmountLoOk n Gen.hufAmountLo = true
  · by_cases h2 : Gen.hufAmountHiOk n Gen.hufAmountHi = true
    · simp only [Gen.hufAmountLoOk, Gen.hufAmountLo, Gen.hufAmountHiOk, Gen.hufAmountHi] at h1 h2
      exact ⟨of_decide_eq_true h1, of_decide_eq_true h2⟩
    · have : Gen.hufAmountHiOk n Gen.hufAmountHi = false := by simpa using h2
      simp [h1, this] at h
  · have : Gen.hufAmountLoOk n Gen.hufAmountLo = false := by simpa using h1
    simp [this] at h

/-- `HuffmanEncoder::weights` gives back the weight vector the table was built from, when that
vector contains the weight 1 (so that the longest code has `m` bits) -/
theorem weights_of_codesOk {t : EncTable} {wd : List Nat} {m : Nat} (ok : CodesOk wd m t.codes)
    (hone : 1 ∈ wd) (hle : ∀ w ∈ wd, w ≤ m) : weights t = .ok wd := by
  have hcode : ∀ (s : Nat) (cd : Nat × Nat), t.codes[s]? = some cd →
      ∃ (h : s < wd.length), cd.2 = (if wd[s] = 0 then 0 else m + 1 - wd[s]) := by
    intro s cd hc
    have hs' : s < wd.length := by
      rcases Nat.lt_or_ge s t.codes.length with h | h
      · rw [ok.len] at h; exact h
      · rw [List.getElem?_eq_none h] at hc; cases hc
    refine ⟨hs', ?_⟩
    by_cases h0 : wd[s] = 0
    · rw [ok.unused s hs' h0] at hc
      simp only [Option.some.injEq] at hc
      rw [← hc]; simp [h0]
    · obtain ⟨c', q1, _⟩ := ok.used s hs' (by omega)
      rw [q1] at hc
      simp only [Option.some.injEq] at hc
      rw [← hc]; simp [h0]
  have hmaxle : ∀ c ∈ t.codes, c.2 ≤ m := by
    intro cd hcd
    obtain ⟨s, hs'⟩ := List.mem_iff_getElem?.mp hcd
    obtain ⟨_, q⟩ := hcode s cd hs'
    rw [q]; split <;> omega
  have hhas : ∃ c ∈ t.codes, c.2 = m := by
    obtain ⟨s, hs'⟩ := List.mem_iff_getElem?.mp hone
    have hs'' : s < wd.length := by
      rcases Nat.lt_or_ge s wd.length with h | h
      · exact h
      · rw [List.getElem?_eq_none h] at hs'; cases hs'
    have hw1 : wd[s] = 1 := by rw [List.getElem?_eq_getElem hs''] at hs'; simpa using hs'
    obtain ⟨c', q1, _⟩ := ok.used s hs'' (by omega)
    refine ⟨_, List.mem_iff_getElem?.mpr ⟨s, q1⟩, ?_⟩
    simp only [hw1]; omega
  have hmax := foldl_max_eq t.codes m hmaxle 0 (Nat.zero_le _) (Or.inr hhas)
  unfold weights
  cases hc : t.codes with
  | nil =>
    obtain ⟨c, hcm, _⟩ := hhas
    rw [hc] at hcm; cases hcm
  | cons c cs =>
    simp only
    rw [← hc, hmax]
    congr 1
    apply List.ext_getElem?
    intro s
    rw [List.getElem?_map]
    rcases Nat.lt_or_ge s wd.length with h | h
    · have hcl : s < t.codes.length := by rw [ok.len]; exact h
      rw [List.getElem?_eq_getElem hcl, List.getElem?_eq_getElem h]
      obtain ⟨_, q2⟩ := hcode s t.codes[s] (List.getElem?_eq_getElem hcl)
      simp only [Option.map_some, Option.some.injEq, q2]
      have := hle wd[s] (List.getElem_mem _)
      by_cases h0 : wd[s] = 0
      · simp [h0]
      · rw [if_neg h0, if_neg (by omega)]; omega
    · rw [List.getElem?_eq_none (by rw [ok.len]; exact h), List.getElem?_eq_none h]; rfl

/-- **`write_table` is total on the compressor's tables**: for every histogram (at most 256 entries)
for which `build_from_counts` returns a table, `write_table` with the real FSE coder returns a
description — the `assert!(encoded_len < 128)` never fires, nor any other panic site. -/
theorem writeTable_total (counts : List Nat) (t : EncTable) (hlen : counts.length ≤ 256)
    (hb : buildFromCounts counts = .ok t) : ∃ desc, writeTable Enc.fseWeights t = .ok desc := by
  unfold buildFromCounts buildFromRank at hb
  have hlenok : Gen.hufCountsLenOk counts.length Gen.hufMaxCounts = true := by
    simp only [Gen.hufCountsLenOk, Gen.hufMaxCounts]; exact decide_eq_true hlen
  simp only [hlenok, Bool.not_true, Bool.false_eq_true, if_false] at hb
  cases hs : shape (counts.length - ((rankOrder counts).filter (·.2)).length) with
  | error f => rw [hs] at hb; cases hb
  | ok ws =>
    rw [hs] at hb
    simp only at hb
    cases hsc : scatter (rankOrder counts) ws (List.replicate counts.length 0) with
    | error f => rw [hsc] at hb; cases hb
    | ok wd =>
      rw [hsc] at hb
      simp only at hb
      obtain ⟨hn2, hn256⟩ := shape_ok_range hs
      -- what the finite shape table says about `ws`
      have hok := shapeOk_all _ hn2 hn256
      unfold shapeOk at hok
      rw [hs] at hok
      simp only [Bool.and_eq_true, beq_iff_eq, decide_eq_true_eq] at hok
      obtain ⟨⟨⟨⟨⟨hwl, hall1⟩, _⟩, hhead⟩, hpow⟩, hlog⟩ := hok
      have hge1 : ∀ w ∈ ws, 1 ≤ w := by
        have : ∀ (l : List Nat), allGe1 l = true → ∀ w ∈ l, 1 ≤ w := by
          intro l
          induction l with
          | nil => intro _ w hw; cases hw
          | cons x xs ih =>
            intro hb' w hw
            simp only [allGe1, Bool.and_eq_true, decide_eq_true_eq] at hb'
            rcases List.mem_cons.mp hw with rfl | hw
            · exact hb'.1
            · exact ih hb'.2 w hw
        exact this ws hall1
      have h11 : Gen.hufMaxNumBits = 11 := rfl
      rw [h11] at hlog
      obtain ⟨p1, p2, p3⟩ := rankOrder_props counts
      have hsum : weightSum ws = 2 ^ Nat.log2 (weightSum ws) := ((isPow2_iff.mp hpow).2).symm
      have hcnt : ((rankOrder counts).filter (fun p => !p.2)).length = ws.length := by
        rw [filter_not_length, p3, hwl]
      have hzero : ∀ p ∈ rankOrder counts, (List.replicate counts.length 0)[p.1]? = some 0 := by
        intro p hp; have := p2 p hp; simp [this]
      obtain ⟨wd', s1, s2, s3, s4⟩ := scatter_spec (rankOrder counts) ws (List.replicate counts.length 0) p1
        (fun p hp => ⟨by simpa using p2 p hp, hzero p hp⟩) hcnt
      rw [hsc] at s1
      simp only [Except.ok.injEq] at s1
      subst s1
      obtain ⟨_, _, w3, _⟩ := scatter_where (rankOrder counts) ws (List.replicate counts.length 0) p1
        (fun p hp => by simpa using p2 p hp) hcnt wd hsc
      have hcount := scatter_count (rankOrder counts) ws (List.replicate counts.length 0) wd p1 hzero hcnt hsc
      rw [weightSum_replicate_zero, Nat.zero_add] at s3
      have hone : 1 ∈ ws := List.mem_of_mem_head? (by rw [hhead]; rfl)
      have hwdle : ∀ w ∈ wd, w ≤ Nat.log2 (weightSum ws) := by
        intro w hw
        rcases s4 w hw with h | h | h
        · have := List.eq_of_mem_replicate h; omega
        · have h1 := weightSum_ge_of_mem hge1 h
          have : 2 ^ (w - 1) < 2 ^ Nat.log2 (weightSum ws) := by omega
          have := (Nat.pow_lt_pow_iff_right (by omega : 1 < 2)).mp this
          omega
        · omega
      have hwdlen : wd.length = counts.length := by rw [s2]; simp
      obtain ⟨t', b1, b2⟩ := buildFromWeights_ok wd (Nat.log2 (weightSum ws)) (by omega) (by omega) hwdle
        (by rw [s3]; exact hsum)
      rw [hb] at b1
      simp only [Except.ok.injEq] at b1
      subst b1
      have hweights : weights t = .ok wd := weights_of_codesOk b2 (w3 1 hone) hwdle
      have hlt16 : ∀ w ∈ wd.dropLast, w < 16 := fun w hw => by
        have := hwdle w (List.dropLast_subset _ hw); omega
      unfold writeTable
      rw [hweights]
      simp only
      by_cases hform : Gen.hufUseFse wd.dropLast.length Gen.hufDirectMax = true
      · rw [if_pos hform]
        simp only [Gen.hufUseFse, Gen.hufDirectMax] at hform
        have hform := of_decide_eq_true hform
        have hne : wd ≠ [] := by intro h; rw [h] at hform; simp at hform
        -- at least one transmitted weight is not zero
        have hpos : ∃ w ∈ wd.dropLast, 1 ≤ w := by
          apply exists_pos_of_weightSum_pos
          have hl : wd.getLast? = some (wd.getLast hne) := List.getLast?_eq_some_getLast hne
          have hsplit := weightSum_dropLast wd _ hl
          have hlm := hwdle _ (List.getLast_mem hne)
          have hm1 : 1 ≤ Nat.log2 (weightSum ws) := by
            have h1 := weightSum_ge_of_mem hge1 hone
            rcases Nat.eq_zero_or_pos (Nat.log2 (weightSum ws)) with h0 | h0
            · rw [h0] at hsum; omega
            · exact h0
          have hpw : (if wd.getLast hne > 0 then 2 ^ (wd.getLast hne - 1) else 0) ≤ 2 ^ (Nat.log2 (weightSum ws) - 1) := by
            split
            · exact Nat.pow_le_pow_right (by omega) (by omega)
            · exact Nat.zero_le _
          have hM2 : 2 ^ Nat.log2 (weightSum ws) = 2 * 2 ^ (Nat.log2 (weightSum ws) - 1) := by
            have : Nat.log2 (weightSum ws) = (Nat.log2 (weightSum ws) - 1) + 1 := by omega
            conv => lhs; rw [this, Nat.pow_succ]
            omega
          have := Nat.two_pow_pos (Nat.log2 (weightSum ws) - 1)
          rw [s3, hsum] at hsplit
          omega
        have hle11 : ∀ w ∈ wd.dropLast, w ≤ 11 := fun w hw => by
          have := hwdle w (List.dropLast_subset _ hw); omega
        have hdl : wd.dropLast.length = wd.length - 1 := by simp
        obtain ⟨bytes, hfse, _, _⟩ := fseWeights_roundtrip wd.dropLast (by omega) (by omega) hle11 hpos
        have hsize := fseWeights_size wd.dropLast (by omega) (by omega) hle11 hpos bytes hfse
        have hbound := lt128_transmitted _ hn2 hn256 ws hs wd
          (fun x hx => by
            have := hcount x
            simp only [hx, if_false, Nat.add_zero] at this
            rw [this, List.count_replicate]
            have : ¬ ((0 : Nat) == x) = true := by simpa using (Ne.symm hx)
            simp [this])
          (by
            have := hcount 0
            simp only [if_true] at this
            have hc0 : ws.count 0 = 0 := by
              rw [List.count_eq_zero]; intro hm; have := hge1 0 hm; omega
            rw [List.count_replicate, hc0] at this
            simp at this
            omega)
          (fun w hw => by have := hwdle w hw; omega) hne hpos
        have hsmall : bytes.length < 128 := by omega
        have hokl : Gen.hufFseLenOk bytes.length Gen.hufFseLenBound = true := by
          simp only [Gen.hufFseLenOk, Gen.hufFseLenBound]; exact decide_eq_true hsmall
        simp only [hfse, hokl, Bool.not_true, Bool.false_eq_true, if_false]
        exact ⟨_, rfl⟩
      · rw [if_neg hform]
        obtain ⟨bs, hb1, _, _⟩ := nibbles_directBytes wd.dropLast hlt16
        rw [hb1]
        exact ⟨_, rfl⟩

end Zstd.Proofs.Huf
