import Zstd.Proofs.DecodeBufApi
/-
Helper lemmas for C04, layer 7: operation sequences on the decode buffer.
-/
namespace Zstd.Model
open Zstd RingBuffer DecodeBuffer

theorem DbOp.apply_ok {C : Nat} (hC : 0 < C) (op : DbOp) {d : DecodeBuffer} (hI : d.Inv)
    (hop : op.fromDecoder) :
    ∃ d', op.apply C d = .ok d' ∧ d'.Inv ∧ CapStep d.buffer d'.buffer op.request := by
  cases op with
  | reset ws =>
    obtain ⟨d', e, hI', _, _, _, _, _, _, hcs⟩ := reset_ok hI ws
    exact ⟨d', e, hI', hcs⟩
  | setDict dict => exact ⟨_, rfl, hI, CapStep.of_eq rfl _⟩
  | push data =>
    obtain ⟨d', e, hI', _, _, _, _, _, hcs⟩ := push_ok hI data
    exact ⟨d', e, hI', hcs⟩
  | «repeat» o m =>
    obtain ⟨d', res, e, hI', _, hcs⟩ := repeat_noFault hC hI (offset := o) hop m
    exact ⟨d', by simp only [DbOp.apply]; rw [e, ok_bind, pure_eq_ok], hI', hcs⟩
  | extendAndFill b n =>
    obtain ⟨r', e, hI', _, _, hcs⟩ := extendAndFill_ok hI b n
    exact ⟨{ d with buffer := r' }, by simp only [DbOp.apply, DecodeBuffer.extendAndFill]; rw [e, ok_bind, pure_eq_ok], hI', hcs⟩
  | extendFromReader a n =>
    obtain ⟨r', ok, rest, e, hI', _, _, hcs⟩ := extendFromReader_ok hI a n
    exact ⟨{ d with buffer := r' }, by simp only [DbOp.apply, DecodeBuffer.extendFromReader]; rw [e, ok_bind, pure_eq_ok, ok_bind, pure_eq_ok], hI', hcs⟩
  | drain =>
    obtain ⟨d', e, hI', _, _, _, _, _, hcp⟩ := drain_ok hI
    exact ⟨d', by simp only [DbOp.apply]; rw [e, ok_bind, pure_eq_ok], hI', CapStep.of_eq hcp _⟩
  | drainToWindowSize =>
    by_cases h : d.abs.length ≤ d.windowSize
    · exact ⟨d, by simp only [DbOp.apply]; rw [(drainToWindowSize_ok hI).1 h, ok_bind, pure_eq_ok], hI,
        CapStep.of_eq rfl _⟩
    · obtain ⟨d', e, hI', _, _, hcp⟩ := (drainToWindowSize_ok hI).2 (by omega)
      exact ⟨d', by simp only [DbOp.apply]; rw [e, ok_bind, pure_eq_ok], hI', CapStep.of_eq hcp _⟩
  | drainToWriter sc =>
    obtain ⟨d', s', res, k, e, _, _, _, _, hI', _, hcp⟩ := drainToWriter_ok hI { script := sc }
    exact ⟨d', by simp only [DbOp.apply]; rw [e, ok_bind, pure_eq_ok], hI', CapStep.of_eq hcp _⟩
  | drainToWindowSizeWriter sc =>
    obtain ⟨d', s', res, k, e, _, _, _, _, hI', _, hcp⟩ := drainToWindowSizeWriter_ok hI { script := sc }
    exact ⟨d', by simp only [DbOp.apply]; rw [e, ok_bind, pure_eq_ok], hI', CapStep.of_eq hcp _⟩
  | read t =>
    obtain ⟨d', e, hI', _, _, _, _, _, hcp⟩ := read_ok hI t
    exact ⟨d', by simp only [DbOp.apply]; rw [e, ok_bind, pure_eq_ok], hI', CapStep.of_eq hcp _⟩
  | readAll t =>
    obtain ⟨d', e, hI', _, _, _, _, _, hcp⟩ := readAll_ok hI t
    exact ⟨d', by simp only [DbOp.apply]; rw [e, ok_bind, pure_eq_ok], hI', CapStep.of_eq hcp _⟩

/-- any run of decoder calls: no fault, invariant kept, and the allocation never exceeds
`2·peak + 2` cells where `peak` is the largest `len + requested` seen (unless it was bigger to start with) -/
theorem runDb_ok {C : Nat} (hC : 0 < C) : ∀ (ops : List DbOp) {d : DecodeBuffer}, d.Inv →
    (∀ op, op ∈ ops → op.fromDecoder) →
    ∃ d', runDb C ops d = .ok d' ∧ d'.Inv ∧ d'.buffer.cap ≤ max d.buffer.cap (2 * peakDb C ops d + 2)
  | [], d, hI, _ => ⟨d, rfl, hI, by omega⟩
  | op :: ops, d, hI, hops => by
    obtain ⟨d1, e1, hI1, hcs⟩ := op.apply_ok hC hI (hops op (List.mem_cons_self))
    obtain ⟨d', e', hI', hcap⟩ := runDb_ok hC ops hI1 (fun o ho => hops o (List.mem_cons_of_mem _ ho))
    refine ⟨d', by simp only [runDb, e1]; exact e', hI', ?_⟩
    simp only [peakDb, e1]
    have := hcs.mono; have := hcs.bound
    omega

end Zstd.Model
