import Zstd.Proofs.FrameDecoderConcat
/-
The full statements over frames the Spec accepts:
* `decode_all` on exactly one valid frame delivers exactly its content (`Segment.Valid` of a Spec-valid
  frame: closes C01 through the multi-frame entry point);
* documented programs over the WHOLE driver grammar (`runFull`: drains, `decode_blocks`,
  `StreamingDecoder::read`, `decode_from_to` with any chunking) — C06 `schedule_independent_full`.
-/
set_option linter.unusedSectionVars false
namespace Zstd.Model
open Zstd

variable {σ : Type} [BlockDec σ] [BlockContract σ] [RefinesSpec σ]

/-! ### `read` with a target at least as large as the buffer -/

/-- the amount `read` may take -/
def FState.avail (st : FState σ) : Nat :=
  if st.finished then st.buf.content.size else st.buf.canDrainToWindow.getD 0

theorem Decoder.read_some (d : Decoder σ) (st : FState σ) (hst : d.state = some st) (n : Nat) :
    d.read n = ({ d with state := some { st with buf := (st.buf.take (min st.avail n)).2 } },
                (st.buf.take (min st.avail n)).1) := by
  simp only [Decoder.read, hst, FState.avail]

theorem FState.avail_le (st : FState σ) : st.avail ≤ st.buf.content.size := by
  simp only [FState.avail, DBuf.canDrainToWindow]
  split
  · exact Nat.le_refl _
  · split <;> simp

theorem Decoder.read_all (d : Decoder σ) (st : FState σ) (hst : d.state = some st) (n : Nat)
    (hn : st.buf.content.size ≤ n) (hfin : d.isFinished = st.finished) :
    (d.read n).1.canCollect = 0 ∧ (d.read n).1.isFinished = d.isFinished ∧
    (d.read n).1.hashed = d.hashed ++ (d.read n).2 ∧ (d.read n).2.size ≤ st.buf.content.size ∧
    (d.isFinished = true → (d.read n).1.content = #[]) := by
  have hav := st.avail_le
  have hmin : min st.avail n = st.avail := by omega
  rw [Decoder.read_some d st hst n, hmin]
  have hif : ({ d with state := some { st with buf := (st.buf.take st.avail).2 } } : Decoder σ).isFinished = d.isFinished := by
    simp only [Decoder.isFinished, hst]
  refine ⟨?_, hif, ?_, ?_, ?_⟩
  · simp only [Decoder.canCollect, hif, hfin]
    cases hf : st.finished with
    | true =>
      simp only [if_true, DBuf.take_content_size, FState.avail, hf]
      omega
    | false =>
      simp only [Bool.false_eq_true, if_false, DBuf.canDrainToWindow, DBuf.take_content_size, DBuf.take_window,
        FState.avail, hf]
      split
      · simp only [Option.getD_some]
        rw [if_neg (by omega)]; rfl
      · simp only [Option.getD_none, Nat.sub_zero]
        rw [if_neg (by assumption)]; rfl
  · simp only [Decoder.hashed, hst, DBuf.take_hashed]
  · simp only [DBuf.take_fst_size]; omega
  · intro h
    rw [hfin] at h
    simp only [Decoder.content]
    apply Array.eq_empty_of_size_eq_zero
    simp only [DBuf.take_content_size, FState.avail, h, if_true]
    omega

/-! ### what `FrameInv` says about the observable state -/

theorem FrameInv.facts {out' : Array Nat} {sEnd : Src} {cons : Nat} {cks : Option Nat} {d : Decoder σ} {s : Src}
    (h : FrameInv out' sEnd cons cks d s) :
    ∃ st tail, d.state = some st ∧ d.isFinished = st.finished ∧ out' = st.buf.hashed ++ st.buf.content ++ tail ∧
      (st.finished = true → tail = #[] ∧ s = sEnd ∧ st.bytesRead = cons ∧ st.checksum = cks) := by
  obtain ⟨st, tail, hst, hpre⟩ := h.prefix
  obtain ⟨st', hst', hcase⟩ := h
  rw [hst] at hst'; cases hst'
  refine ⟨st, tail, hst, ?_, hpre, ?_⟩
  · rcases hcase with ⟨hnf, -⟩ | ⟨hfin, -, -, -, -, hif⟩
    · simp only [Decoder.isFinished, hst, hnf]; split <;> simp
    · rw [hif, hfin]
  · intro hfin
    rcases hcase with ⟨hnf, -⟩ | ⟨-, hstr, hs', hbr, hck, -⟩
    · rw [hfin] at hnf; cases hnf
    · refine ⟨?_, hs', hbr, hck⟩
      have := hpre
      rw [← hstr] at this
      have hsz := congrArg Array.size this
      simp only [Array.size_append] at hsz
      exact Array.eq_empty_of_size_eq_zero (by omega)

/-! ### `decode_all`'s per-frame loop on a frame the Spec accepts -/

/-- the per-frame loop of `decode_all`, started anywhere inside a frame the Spec accepts with a target
that has room for the rest of the content: it completes the frame, delivers exactly the rest of the
content (`X`), and hands back the source behind the frame -/
theorem decodeAllFrame_frameInv {out' : Array Nat} {sEnd : Src} {cons : Nat} {cks : Option Nat} (fuel : Nat)
    (d : Decoder σ) (s : Src) (room : Nat) (out : Array Nat)
    (h : FrameInv out' sEnd cons cks d s) (hnd : d.blocksDone = false) (hfuel : s.length < fuel)
    (hroom : out'.size ≤ d.hashed.size + room) :
    ∃ d2 X, decodeAllFrame fuel d s room out = (d2, .ok (sEnd, room - X.size, out ++ X)) ∧ d.hashed ++ X = out' ∧
      d2.dicts = d.dicts ∧ d2.maxWindow = d.maxWindow := by
  induction fuel generalizing d s room out with
  | zero => omega
  | succ fuel ih =>
    obtain ⟨d1, s1, fin, hdb, hinv1, hprog, hdi1, hmw1⟩ := h.blocks' hnd (.uptoBytes (1024 * 1024))
    have hh1 : d1.hashed = d.hashed := by
      have := (Decoder.decodeBlocks_dstep d s (.uptoBytes (1024 * 1024))).hashed
      rw [hdb] at this
      simpa using this
    obtain ⟨st1, tail1, hst1, hfin1, hpre1, hdone1⟩ := hinv1.facts
    have hsz1 : st1.buf.content.size ≤ room := by
      have hsz := congrArg Array.size hpre1
      simp only [Array.size_append] at hsz
      have : d1.hashed.size = st1.buf.hashed.size := by simp [Decoder.hashed, hst1]
      have hh1s := congrArg Array.size hh1
      omega
    obtain ⟨hcc, hif2, hh2, hgs, hempty⟩ := Decoder.read_all d1 st1 hst1 room hsz1 hfin1
    have hinv2 : FrameInv out' sEnd cons cks (d1.read room).1 s1 := hinv1.drain (.read room)
    have hcfg2 : (d1.read room).1.dicts = d1.dicts ∧ (d1.read room).1.maxWindow = d1.maxWindow := by
      rw [Decoder.read_some d1 st1 hst1 room]; exact ⟨rfl, rfl⟩
    rw [decodeAllFrame, hdb]
    simp only [hcc, ne_eq, not_true_eq_false, if_false]
    by_cases hfin : (d1.read room).1.isFinished = true
    · rw [if_pos hfin]
      rw [hif2, hfin1] at hfin
      obtain ⟨htail, hs1, -, -⟩ := hdone1 hfin
      refine ⟨_, (d1.read room).2, by rw [hs1], ?_, by rw [hcfg2.1, hdi1], by rw [hcfg2.2, hmw1]⟩
      -- everything is delivered: hashed = out'
      obtain ⟨st2, tail2, hst2, -, hpre2, -⟩ := hinv2.facts
      have hc2 : (d1.read room).1.content = #[] := hempty (by rw [hfin1, hfin])
      have hh2' : (d1.read room).1.hashed = st2.buf.hashed := by simp [Decoder.hashed, hst2]
      have hc2' : st2.buf.content = #[] := by simpa [Decoder.content, hst2] using hc2
      have ht2 : tail2 = #[] := by
        obtain ⟨st2', hst2', hcase⟩ := hinv2
        rw [hst2] at hst2'; cases hst2'
        rcases hcase with ⟨hnf, -⟩ | ⟨-, hstr, -⟩
        · have : (d1.read room).1.isFinished = true := by rw [hif2, hfin1, hfin]
          simp only [Decoder.isFinished, hst2, hnf] at this
          split at this <;> simp at this
        · have := hpre2
          rw [← hstr] at this
          have hsz := congrArg Array.size this
          simp only [Array.size_append] at hsz
          exact Array.eq_empty_of_size_eq_zero (by omega)
      rw [hpre2, hc2', ht2, ← hh2', hh2, hh1]; simp
    · rw [if_neg hfin]
      have hnf2 : (d1.read room).1.isFinished = false := by simpa using hfin
      have hlt : s1.length < s.length := by
        rcases hprog with h | h
        · exact h
        · rw [hif2] at hnf2; rw [h] at hnf2; cases hnf2
      have hnd2 : (d1.read room).1.blocksDone = false := by
        obtain ⟨st2, tail2, hst2, hfin2, -, -⟩ := hinv2.facts
        simp only [Decoder.blocksDone, hst2]
        rw [← hfin2]; exact hnf2
      have hroom2 : out'.size ≤ (d1.read room).1.hashed.size + (room - (d1.read room).2.size) := by
        rw [hh2, hh1, Array.size_append]; omega
      obtain ⟨d3, X, hrun, hX, hdi3, hmw3⟩ := ih (d1.read room).1 s1 (room - (d1.read room).2.size) (out ++ (d1.read room).2)
        hinv2 hnd2 (by omega) hroom2
      refine ⟨d3, (d1.read room).2 ++ X, ?_, ?_, by rw [hdi3, hcfg2.1, hdi1], by rw [hmw3, hcfg2.2, hmw1]⟩
      · rw [hrun, Array.size_append, Array.append_assoc, Nat.sub_sub]
      · rw [← hX, hh2, hh1, Array.append_assoc]

/-- **a frame the Spec accepts (the input being exactly the frame) is a valid segment for
`decode_all`** — ties `Segment.Valid` (C10's `decodeAll_concat`) to `Spec.decodeFrame` -/
theorem segment_valid_of_spec (d : Decoder σ) (sdicts : List Spec.Dict) (hdc : DictsCoupled d.dicts sdicts)
    (f : List Nat) (hb : ∀ x ∈ f, x < 256) (r : Spec.FrameResult)
    (hs : Spec.decodeFrame f sdicts = some r) (hlim : r.header.window ≤ d.maxWindow) (hcons : r.consumed = f.length) :
    (Segment.frame f r.content.toArray).Valid d.dicts d.maxWindow := by
  obtain ⟨d0, rest, hres, hh0, hinv⟩ := frameInv_of_decodeFrame d sdicts hdc f hb r hs hlim
  rcases Decoder.reset_cases d f with ⟨e, he⟩ | ⟨st, o, he, hrc⟩
  · rw [he] at hres; cases hres
  · rw [he] at hres
    simp only [Prod.mk.injEq] at hres
    obtain ⟨rfl, rfl⟩ := hres
    have hnd : ({ d with state := some st } : Decoder σ).blocksDone = false := by
      simp only [Decoder.blocksDone]
      exact (resetCore_replace _ _ _ _ _ hrc).1
    have hend : f.drop r.consumed = [] := by rw [hcons]; simp
    rw [hend] at hinv
    obtain ⟨d2, X, hrun, hX, -, -⟩ := decodeAllFrame_frameInv (rest.length + 2) _ rest r.content.toArray.size #[]
      hinv hnd (by omega) (by rw [hh0]; simp)
    rw [hh0, Array.empty_append] at hX
    subst hX
    refine ⟨st, rest, d2, hrc, ?_⟩
    have : ({ state := some st, dicts := d.dicts, maxWindow := d.maxWindow } : Decoder σ) = { d with state := some st } := rfl
    rw [this, hrun]
    simp

/-- **C01 through `decode_all`**: every frame the Spec accepts, given alone, is decoded by `decode_all`
to exactly its content, for every target at least that large -/
theorem Decoder.decodeAll_valid_frame (d : Decoder σ) (sdicts : List Spec.Dict) (hdc : DictsCoupled d.dicts sdicts)
    (f : List Nat) (hb : ∀ x ∈ f, x < 256) (r : Spec.FrameResult)
    (hs : Spec.decodeFrame f sdicts = some r) (hlim : r.header.window ≤ d.maxWindow) (hcons : r.consumed = f.length)
    (room : Nat) (hroom : r.content.length ≤ room) :
    ∃ d', d.decodeAll f room = (d', .ok r.content.toArray) := by
  have hv := segment_valid_of_spec d sdicts hdc f hb r hs hlim hcons
  have := Decoder.decodeAll_concat [Segment.frame f r.content.toArray] d
    (fun sg hsg => by simp only [List.mem_singleton] at hsg; rw [hsg]; exact hv) room
    (by simpa [totalContent, Segment.content] using hroom)
  simpa [totalBytes, totalContent, Segment.bytes, Segment.content] using this

/-- `collect()` on a finished decoder hands out everything that is buffered -/
theorem Decoder.collect_finished (d : Decoder σ) (st : FState σ) (hst : d.state = some st) (hfin : d.isFinished = true) :
    (d.collect).2 = some st.buf.content ∧ (d.collect).1.canCollect = 0 := by
  have hfin' := hfin
  simp only [Decoder.isFinished, hst] at hfin'
  constructor
  · simp [Decoder.collect, hst, hfin, DBuf.take]
  · simp only [Decoder.collect, hst, hfin, if_true, DBuf.take, Decoder.canCollect, Decoder.isFinished, hfin']
    simp

/-- **C01 through the block-level API**: `reset`, `decode_blocks(All)`, `collect()` on a frame the Spec
accepts: no error, the frame is reported finished, and `collect()` hands out exactly the content -/
theorem Decoder.reset_blocks_collect_valid_frame (d : Decoder σ) (sdicts : List Spec.Dict) (hdc : DictsCoupled d.dicts sdicts)
    (f : List Nat) (hb : ∀ x ∈ f, x < 256) (r : Spec.FrameResult)
    (hs : Spec.decodeFrame f sdicts = some r) (hlim : r.header.window ≤ d.maxWindow) :
    ∃ d0 rest d1, d.reset f = (d0, .ok rest) ∧ d0.decodeBlocks rest .all = (d1, .ok (f.drop r.consumed, true)) ∧
      d1.isFinished = true ∧ (d1.collect).2 = some r.content.toArray ∧ (d1.collect).1.canCollect = 0 := by
  obtain ⟨d0, d1, rest, st1, hres, hdb, hst1, hcont, hfin, -⟩ := decodeFrame_refines d sdicts hdc f hb r hs hlim
  obtain ⟨hc1, hc2⟩ := Decoder.collect_finished d1 st1 hst1 hfin
  refine ⟨d0, rest, d1, hres, hdb, hfin, ?_, hc2⟩
  rw [hc1, ← hcont]

/-! ### `decode_from_to` on a decoder that follows a Spec run -/

/-- what the block loop of `decode_from_to` does after the frame's last block: the frame is marked
finished; the checksum is taken if four more bytes are in the chunk, else it stays outstanding -/
def fromToFinish (st1 : FState σ) (s1 : Src) : FState σ :=
  if st1.header.checksumFlag ∧ 4 ≤ s1.length then
    { st1 with finished := true, bytesRead := st1.bytesRead + 4, checksum := some (leNat (s1.take 4)) }
  else { st1 with finished := true }

/-- the last block is in and the checksum `c` has been taken -/
def FState.withChecksum (st1 : FState σ) (c : Nat) : FState σ :=
  { st1 with finished := true, bytesRead := st1.bytesRead + 4, checksum := some c }

theorem drop_eq_drop_of_le {α : Type} (l : List α) (a b : Nat) (ha : a ≤ l.length) (hb : b ≤ l.length)
    (h : l.drop a = l.drop b) : a = b := by
  have := congrArg List.length h
  simp only [List.length_drop] at this
  omega

/-- the block loop of `decode_from_to`, given the chunk `bytes.take k` of the source, on a decoder that
follows a Spec run: it decodes the complete blocks the chunk holds and either stops at a block boundary
still following the run, or completes the frame's last block -/
theorem decodeFromToLoop_follows (fuelS fuel k : Nat) (bytes : List Nat)
    (hb : ∀ x ∈ bytes, x < 256) (e : Spec.Entropy) (st : FState σ) (out out' : Array Nat) (consumed consumed' : Nat)
    (hfuel : (bytes.take k).length < fuel) (hf : Follows st e out)
    (hs : Spec.decodeBlocks st.buf.window st.buf.dict fuelS bytes e out consumed = some (out', consumed')) :
    (∃ st1 n e1 out1 fuelS1, n ≤ k ∧ n ≤ bytes.length ∧
        decodeFromToLoop fuel st (bytes.take k) = (st1, .ok ()) ∧ Follows st1 e1 out1 ∧
        Spec.decodeBlocks st.buf.window st.buf.dict fuelS1 (bytes.drop n) e1 out1 (consumed + n) = some (out', consumed') ∧
        FollowStep st st1 n) ∨
    (∃ st' n, consumed' = consumed + n ∧ n ≤ k ∧ n ≤ bytes.length ∧
        decodeFromToLoop fuel st (bytes.take k) = (fromToFinish st' ((bytes.take k).drop n), .ok ()) ∧
        st'.buf.hashed ++ st'.buf.content = out' ∧ FollowStep st st' n) := by
  induction fuelS generalizing fuel k bytes e st out consumed with
  | zero => simp [Spec.decodeBlocks] at hs
  | succ fuelS ih =>
    obtain ⟨fuel, rfl⟩ : ∃ g, fuel = g + 1 := ⟨fuel - 1, by omega⟩
    have hs0 := hs
    rw [specDecodeBlocks_succ] at hs
    cases hstep : specBlockStep st.buf.window st.buf.dict bytes e out with
    | none => rw [hstep] at hs; cases hs
    | some p =>
      obtain ⟨out1, e1, n1, last⟩ := p
      rw [hstep] at hs
      simp only at hs
      obtain ⟨st1, bh, hdec, hlast, h3, hn1, hf1, hfs⟩ := decodeOneBlock_follows bytes hb e st out out1 e1 n1 last hf hstep
      obtain ⟨hlen, hdrop, hp, -, -, -⟩ := decodeOneBlock_ok _ _ _ _ _ hdec
      have hn1eq : n1 = 3 + bh.contentSize := drop_eq_drop_of_le bytes _ _ hn1 hlen hdrop
      have hstay : ∃ st1 n e1 out1 fuelS1, n ≤ k ∧ n ≤ bytes.length ∧
          (st, Out.ok ()) = (st1, Out.ok ()) ∧ Follows st1 e1 out1 ∧
          Spec.decodeBlocks st.buf.window st.buf.dict fuelS1 (bytes.drop n) e1 out1 (consumed + n) = some (out', consumed') ∧
          FollowStep st st1 n :=
        ⟨st, 0, e, out, fuelS + 1, Nat.zero_le _, Nat.zero_le _, rfl, hf, by simpa using hs0, FollowStep.refl st⟩
      rw [decodeFromToLoop_succ]
      by_cases hk3 : (bytes.take k).length < 3
      · rw [if_pos hk3]; exact Or.inl hstay
      · rw [if_neg hk3]
        have hk3' : 3 ≤ k := by rw [List.length_take] at hk3; omega
        rw [take_getD_lt _ _ _ (by omega), take_getD_lt _ _ _ (by omega), take_getD_lt _ _ _ (by omega)]
        simp only [hp]
        by_cases hkb : (bytes.take k).length < 3 + bh.contentSize
        · rw [if_pos hkb]; exact Or.inl hstay
        · rw [if_neg hkb]
          have hkn : n1 ≤ k := by rw [List.length_take] at hkb; omega
          have hfit := decodeOneBlock_take_fits st st1 bytes (bytes.drop n1) bh k hdec (by omega)
          rw [hfit]
          simp only
          have hdt : (bytes.drop n1).take (k - (3 + bh.contentSize)) = (bytes.take k).drop n1 := by
            rw [List.drop_take, hn1eq]
          by_cases hl : last = true
          · rw [if_pos hl] at hs
            simp only [Option.some.injEq, Prod.mk.injEq] at hs
            obtain ⟨rfl, rfl⟩ := hs
            right
            refine ⟨st1, n1, rfl, hkn, hn1, ?_, hf1.stream, hfs⟩
            rw [if_pos (by rw [hlast, hl]), hdt]
            simp only [fromToFinish]
            split <;> rfl
          · rw [if_neg hl] at hs
            have hl' : bh.last = false := by rw [hlast]; simpa using hl
            rw [if_neg (by rw [hl']; simp)]
            have hs' : Spec.decodeBlocks st1.buf.window st1.buf.dict fuelS (bytes.drop n1) e1 out1 (consumed + n1) = some (out', consumed') := by
              rw [hfs.window, hfs.dict]; exact hs
            have hfuel' : ((bytes.drop n1).take (k - n1)).length < fuel := by
              rw [List.length_take, List.length_drop]
              rw [List.length_take] at hfuel
              omega
            rw [← hn1eq]
            rcases ih fuel (k - n1) (bytes.drop n1) (fun x hx => hb x (List.mem_of_mem_drop hx)) e1 st1 out1 (consumed + n1)
              hfuel' hf1 hs' with ⟨st2, n, e2, out2, fS, hnk, hn, hrun, hf2, hs2, hfs2⟩ | ⟨st', n, hc, hnk, hn, hrun, hstr, hfs2⟩
            · left
              rw [List.length_drop] at hn
              refine ⟨st2, n1 + n, e2, out2, fS, by omega, by omega, hrun, hf2, ?_, hfs.trans hfs2⟩
              rw [List.drop_drop, hfs.window, hfs.dict, Nat.add_assoc] at hs2
              exact hs2
            · right
              rw [List.length_drop] at hn
              refine ⟨st', n1 + n, by omega, by omega, by omega, ?_, hstr, hfs.trans hfs2⟩
              rw [hrun, List.drop_take, List.drop_drop, List.drop_take]
              congr 3
              omega

/-! ### the invariant over the whole driver grammar -/

/-- the one state of a valid frame that `FrameInv` does not cover, reachable only through
`decode_from_to` with a chunk that ends between the last block and the checksum: all blocks are in, the
four checksum bytes are still in the source -/
def Pending (out' : Array Nat) (cons : Nat) (cks : Option Nat) (d : Decoder σ) (s : Src) : Prop :=
  ∃ st, d.state = some st ∧ st.finished = true ∧ st.checksum = none ∧ st.header.checksumFlag = true ∧
    st.buf.hashed ++ st.buf.content = out' ∧ s.length = 4 ∧ cks = some (leNat s) ∧ st.bytesRead + 4 = cons

/-- the invariant of a decoder working through a frame the Spec accepts, the input being exactly the
frame, under ANY mix of the four kinds of calls -/
def FullInv (out' : Array Nat) (cons : Nat) (cks : Option Nat) (d : Decoder σ) (s : Src) : Prop :=
  FrameInv out' [] cons cks d s ∨ Pending out' cons cks d s

theorem Pending.drain {out' : Array Nat} {cons : Nat} {cks : Option Nat} {d : Decoder σ} {s : Src}
    (h : Pending out' cons cks d s) (op : DrainOp) : Pending out' cons cks (applyDrain d op).1 s := by
  obtain ⟨st, hst, h1, h2, h3, h4, h5, h6, h7⟩ := h
  rcases applyDrain_take d op with ⟨hn, -⟩ | ⟨st', k, hs', hk, he⟩
  · rw [hst] at hn; cases hn
  · rw [hst] at hs'; cases hs'
    rw [he]
    refine ⟨_, rfl, h1, h2, h3, ?_, h5, h6, h7⟩
    simp only [DBuf.take_hashed]
    rw [Array.append_assoc, DBuf.take_partition]; exact h4

theorem FullInv.drain {out' : Array Nat} {cons : Nat} {cks : Option Nat} {d : Decoder σ} {s : Src}
    (h : FullInv out' cons cks d s) (op : DrainOp) : FullInv out' cons cks (applyDrain d op).1 s := by
  rcases h with h | h
  · exact Or.inl (h.drain op)
  · exact Or.inr (h.drain op)

theorem FullInv.prefix {out' : Array Nat} {cons : Nat} {cks : Option Nat} {d : Decoder σ} {s : Src}
    (h : FullInv out' cons cks d s) : ∃ tail, out' = d.hashed ++ d.content ++ tail := by
  rcases h with h | ⟨st, hst, -, -, -, h4, -⟩
  · obtain ⟨st, tail, hst, hpre⟩ := h.prefix
    exact ⟨tail, by simp only [Decoder.hashed, Decoder.content, hst]; exact hpre⟩
  · exact ⟨#[], by simp only [Decoder.hashed, Decoder.content, hst]; rw [h4]; simp⟩

theorem applyDrain_hashed (d : Decoder σ) (op : DrainOp) :
    (applyDrain d op).1.hashed = d.hashed ++ (applyDrain d op).2 := (applyDrain_dstep d op).hashed

theorem applyDrain_read (d : Decoder σ) (n : Nat) : applyDrain d (.read n) = d.read n := rfl

/-- `decode_blocks` while the last block is not in -/
theorem FullInv.blocks {out' : Array Nat} {cons : Nat} {cks : Option Nat} {d : Decoder σ} {s : Src}
    (h : FullInv out' cons cks d s) (hnd : d.blocksDone = false) (strat : Strategy) :
    ∃ d1 s1 fin, d.decodeBlocks s strat = (d1, .ok (s1, fin)) ∧ FullInv out' cons cks d1 s1 ∧ d1.hashed = d.hashed := by
  rcases h with h | ⟨st, hst, h1, -⟩
  · obtain ⟨d1, s1, fin, hd, hinv⟩ := h.blocks hnd strat
    refine ⟨d1, s1, fin, hd, Or.inl hinv, ?_⟩
    have := (Decoder.decodeBlocks_dstep d s strat).hashed
    rw [hd] at this
    simpa using this
  · simp [Decoder.blocksDone, hst, h1] at hnd

/-- the fill loop of `StreamingDecoder::read` -/
theorem FrameInv.streamingFill {out' : Array Nat} {sEnd : Src} {cons : Nat} {cks : Option Nat} (fuel : Nat)
    (d : Decoder σ) (s : Src) (n : Nat) (h : FrameInv out' sEnd cons cks d s) :
    ∃ d1 s1, streamingFill fuel d s n = (d1, .ok s1) ∧ FrameInv out' sEnd cons cks d1 s1 ∧ d1.hashed = d.hashed := by
  induction fuel generalizing d s with
  | zero => exact ⟨d, s, rfl, h, rfl⟩
  | succ fuel ih =>
    rw [Model.streamingFill]
    split
    · rename_i hc
      have hnf : d.isFinished = false := by simpa using hc.2
      obtain ⟨st, tail, hst, hfin, -, -⟩ := h.facts
      have hnd : d.blocksDone = false := by simp only [Decoder.blocksDone, hst]; rw [← hfin]; exact hnf
      obtain ⟨d1, s1, fin, hd, hinv⟩ := h.blocks hnd (.uptoBytes (n - d.canCollect))
      have hh : d1.hashed = d.hashed := by
        have := (Decoder.decodeBlocks_dstep d s (.uptoBytes (n - d.canCollect))).hashed
        rw [hd] at this
        simpa using this
      rw [hd]
      obtain ⟨d2, s2, h2, hinv2, hh2⟩ := ih d1 s1 hinv
      exact ⟨d2, s2, h2, hinv2, by rw [hh2, hh]⟩
    · exact ⟨d, s, rfl, h, rfl⟩

/-- `StreamingDecoder::read(buf)` anywhere in the frame (not in the checksum-outstanding state) -/
theorem FrameInv.streamingRead {out' : Array Nat} {sEnd : Src} {cons : Nat} {cks : Option Nat}
    (d : Decoder σ) (s : Src) (n : Nat) (h : FrameInv out' sEnd cons cks d s) :
    ∃ d1 s1 got, streamingRead d s n = (d1, .ok (s1, got)) ∧ FrameInv out' sEnd cons cks d1 s1 ∧
      d1.hashed = d.hashed ++ got := by
  simp only [Model.streamingRead]
  split
  · exact ⟨d, s, #[], rfl, h, by simp⟩
  · obtain ⟨d1, s1, hf, hinv, hh⟩ := h.streamingFill (s.length + 2) d s n
    rw [hf]
    refine ⟨(d1.read n).1, s1, (d1.read n).2, rfl, hinv.drain (.read n), ?_⟩
    rw [← hh]
    exact applyDrain_hashed d1 (.read n)

/-- `decode_from_to(&src[..chunk], target[..n])` anywhere in the frame, the caller advancing by the
reported count: never an error; the reported count is exactly what was consumed; the bytes written are
hashed; the invariant holds afterwards (possibly in the checksum-outstanding state) -/
theorem FullInv.fromTo {out' : Array Nat} {cons : Nat} {cks : Option Nat} {d : Decoder σ} {s : Src}
    (h : FullInv out' cons cks d s) (chunk n : Nat) :
    ∃ d1 rd got, d.decodeFromTo (s.take chunk) n = (d1, .ok (rd, got)) ∧ FullInv out' cons cks d1 (s.drop rd) ∧
      d1.hashed = d.hashed ++ got := by
  rcases h with h | ⟨st, hst, hfin, hck, hflag, hstr, hlen, hcks, hbr⟩
  · obtain ⟨st, hst, hcase⟩ := h
    rcases hcase with ⟨hnf, hcs, hb, e, out, fuelS, consumed, m, hf, hsp, hm, hc1, hc2⟩ | ⟨hfin, hstr, hs, hbr, hck, hif⟩
    · -- still following the block run
      have hnif : d.isFinished = false := by simp only [Decoder.isFinished, hst, hnf]; split <;> simp
      rw [Decoder.decodeFromTo_some d st _ n hst, hnif]
      simp only [Bool.false_eq_true, if_false, fromToCore]
      rw [if_neg (by rw [hnf]; simp)]
      have hrd : ∀ (st' : FState σ), ((({ d with state := some st' } : Decoder σ).read n).1.bytesRead) = st'.bytesRead := by
        intro st'
        obtain ⟨k, -, -, hr⟩ := Decoder.read_state { d with state := some st' } st' n rfl
        rw [hr]; rfl
      rcases decodeFromToLoop_follows fuelS ((s.take chunk).length + 1) chunk s hb e st out out' consumed (consumed + m)
          (Nat.lt_succ_self _) hf hsp with
        ⟨st1, k, e1, out1, fS1, hkc, hks, hrun, hf1, hs1, hfs⟩ | ⟨st', k, hck', hkc, hks, hrun, hstr', hfs⟩
      · rw [hrun]
        simp only
        have hge := specDecodeBlocks_consumed_ge _ _ _ _ _ _ _ _ _ hs1
        have hkm : k ≤ m := by omega
        have hinv1 : FrameInv out' [] cons cks ({ d with state := some st1 } : Decoder σ) (s.drop k) := by
          refine ⟨st1, rfl, Or.inl ⟨by rw [hfs.finished, hnf], by rw [hfs.checksum, hcs],
            fun x hx => hb x (List.mem_of_mem_drop hx), e1, out1, fS1, consumed + k, m - k, hf1, ?_, ?_, ?_, ?_⟩⟩
          · rw [hfs.window, hfs.dict, show consumed + k + (m - k) = consumed + m by omega]; exact hs1
          · rw [List.length_drop]; omega
          · intro hfl
            rw [hfs.header] at hfl
            obtain ⟨cb, hre, hck2, hbr⟩ := hc1 hfl
            refine ⟨cb, ?_, hck2, ?_⟩
            · rw [List.drop_drop, show k + (m - k) = m by omega]; exact hre
            · rw [hfs.bytesRead]; omega
          · intro hfl
            rw [hfs.header] at hfl
            obtain ⟨hse, hck2, hbr⟩ := hc2 hfl
            refine ⟨?_, hck2, ?_⟩
            · rw [List.drop_drop, show k + (m - k) = m by omega]; exact hse
            · rw [hfs.bytesRead]; omega
        refine ⟨_, _, _, rfl, ?_, ?_⟩
        · have hcount : (({ d with state := some st1 } : Decoder σ).read n).1.bytesRead - st.bytesRead = k := by
            rw [hrd, hfs.bytesRead]; omega
          rw [hcount]
          exact Or.inl (hinv1.drain (.read n))
        · have := applyDrain_hashed ({ d with state := some st1 } : Decoder σ) (.read n)
          rw [applyDrain_read] at this
          rw [this]
          simp only [Decoder.hashed, hst, hfs.hashed]
      · -- the last block is in
        have hkm : k = m := by omega
        subst hkm
        rw [hrun]
        simp only
        have hdt : (s.take chunk).drop k = (s.drop k).take (chunk - k) := by rw [List.drop_take]
        by_cases hfl : st.header.checksumFlag = true
        · obtain ⟨cb, hre, hck2, hbr2⟩ := hc1 hfl
          rw [readExact_eq_some] at hre
          obtain ⟨hl4, hcb, hnil⟩ := hre
          have hdl : (s.drop k).length = 4 := by
            have := congrArg List.length hnil
            simp only [List.length_drop, List.length_nil] at this hl4 ⊢
            omega
          by_cases h4 : 4 ≤ ((s.take chunk).drop k).length
          · -- checksum taken
            have hall : (s.take chunk).drop k = s.drop k := by
              rw [hdt]; apply List.take_of_length_le
              rw [hdt, List.length_take] at h4; omega
            have hst2 : fromToFinish st' ((s.take chunk).drop k) = st'.withChecksum (leNat ((s.drop k).take 4)) := by
              simp only [fromToFinish, FState.withChecksum]
              rw [if_pos ⟨by rw [hfs.header]; exact hfl, h4⟩, hall]
            rw [hst2]
            have hinv2 : FrameInv out' [] cons cks ({ d with state := some (st'.withChecksum (leNat ((s.drop k).take 4))) } : Decoder σ) (s.drop (k + 4)) := by
              refine ⟨_, rfl, Or.inr ⟨rfl, hstr', ?_, ?_, ?_, ?_⟩⟩
              · rw [← List.drop_drop]; exact hnil.symm
              · simp only [FState.withChecksum]; rw [hfs.bytesRead]; omega
              · simp only [FState.withChecksum]; rw [hck2, hcb]
              · simp [Decoder.isFinished, FState.withChecksum, hfs.header, hfl]
            refine ⟨_, _, _, rfl, ?_, ?_⟩
            · have hcount : (({ d with state := some (st'.withChecksum (leNat ((s.drop k).take 4))) } : Decoder σ).read n).1.bytesRead
                  - st.bytesRead = k + 4 := by
                rw [hrd]; simp only [FState.withChecksum]; rw [hfs.bytesRead]; omega
              rw [hcount]
              exact Or.inl (hinv2.drain (.read n))
            · have := applyDrain_hashed ({ d with state := some (st'.withChecksum (leNat ((s.drop k).take 4))) } : Decoder σ) (.read n)
              rw [applyDrain_read] at this
              rw [this]
              simp only [Decoder.hashed, hst, hfs.hashed, FState.withChecksum]
          · -- checksum outstanding
            have hst2 : fromToFinish st' ((s.take chunk).drop k) = { st' with finished := true } := by
              simp only [fromToFinish]
              rw [if_neg (fun hh => h4 hh.2)]
            rw [hst2]
            have hp2 : Pending out' cons cks ({ d with state := some { st' with finished := true } } : Decoder σ) (s.drop k) := by
              refine ⟨_, rfl, rfl, by simp only; rw [hfs.checksum, hcs], by simp only; rw [hfs.header]; exact hfl,
                hstr', hdl, ?_, ?_⟩
              · rw [hck2, hcb, List.take_of_length_le (by omega)]
              · simp only; rw [hfs.bytesRead]; omega
            refine ⟨_, _, _, rfl, ?_, ?_⟩
            · have hcount : (({ d with state := some { st' with finished := true } } : Decoder σ).read n).1.bytesRead
                  - st.bytesRead = k := by
                rw [hrd]; simp only; rw [hfs.bytesRead]; omega
              rw [hcount]
              exact Or.inr (hp2.drain (.read n))
            · have := applyDrain_hashed ({ d with state := some { st' with finished := true } } : Decoder σ) (.read n)
              rw [applyDrain_read] at this
              rw [this]
              simp only [Decoder.hashed, hst, hfs.hashed]
        · have hfl' : st.header.checksumFlag = false := by simpa using hfl
          obtain ⟨hse, hck2, hbr2⟩ := hc2 hfl'
          have hst2 : fromToFinish st' ((s.take chunk).drop k) = { st' with finished := true } := by
            simp only [fromToFinish]
            rw [if_neg (fun hh => by rw [hfs.header, hfl'] at hh; exact absurd hh.1 (by simp))]
          rw [hst2]
          have hinv2 : FrameInv out' [] cons cks ({ d with state := some { st' with finished := true } } : Decoder σ) (s.drop k) := by
            refine ⟨_, rfl, Or.inr ⟨rfl, hstr', hse, ?_, ?_, ?_⟩⟩
            · simp only; rw [hfs.bytesRead]; omega
            · simp only; rw [hfs.checksum, hcs, hck2]
            · simp [Decoder.isFinished, hfs.header, hfl']
          refine ⟨_, _, _, rfl, ?_, ?_⟩
          · have hcount : (({ d with state := some { st' with finished := true } } : Decoder σ).read n).1.bytesRead
                - st.bytesRead = k := by
              rw [hrd]; simp only; rw [hfs.bytesRead]; omega
            rw [hcount]
            exact Or.inl (hinv2.drain (.read n))
          · have := applyDrain_hashed ({ d with state := some { st' with finished := true } } : Decoder σ) (.read n)
            rw [applyDrain_read] at this
            rw [this]
            simp only [Decoder.hashed, hst, hfs.hashed]
    · -- finished: only draining
      rw [Decoder.decodeFromTo_some d st _ n hst, hif]
      simp only [if_true]
      refine ⟨_, _, _, rfl, ?_, ?_⟩
      · have hfi : FrameInv out' [] cons cks d s := ⟨st, hst, Or.inr ⟨hfin, hstr, hs, hbr, hck, hif⟩⟩
        exact Or.inl (hfi.drain (.read n))
      · exact applyDrain_hashed d (.read n)
  · -- the checksum is outstanding
    have hnif : d.isFinished = false := by simp [Decoder.isFinished, hst, hflag, hfin, hck]
    rw [Decoder.decodeFromTo_some d st _ n hst, hnif]
    simp only [Bool.false_eq_true, if_false, fromToCore]
    rw [if_pos ⟨hflag, hfin, by rw [hck]; rfl⟩]
    by_cases h4 : (s.take chunk).length ≥ 4
    · rw [if_pos h4]
      have hall : s.take chunk = s := by
        apply List.take_of_length_le
        rw [List.length_take] at h4; omega
      refine ⟨_, 4, #[], rfl, Or.inl ⟨_, rfl, Or.inr ⟨hfin, hstr, ?_, ?_, ?_, ?_⟩⟩, by simp [Decoder.hashed, hst]⟩
      · apply List.eq_nil_of_length_eq_zero; rw [List.length_drop]; omega
      · exact hbr
      · simp only; rw [hcks, hall, List.take_of_length_le (by omega)]
      · simp [Decoder.isFinished, hflag, hfin]
    · rw [if_neg h4]
      exact ⟨d, 0, #[], rfl, Or.inr ⟨st, hst, hfin, hck, hflag, hstr, hlen, hcks, hbr⟩, by simp⟩

/-! ### programs over the whole driver grammar -/

/-- every way of driving the decoder through a frame: the three drains, `decode_blocks`,
`StreamingDecoder::read(buf)` and `decode_from_to(&src[..chunk], target[..n])` (the caller advancing by
the reported count) -/
inductive FOp where
  | drain (o : DrainOp)
  | blocks (strat : Strategy)
  | sread (n : Nat)
  | fromTo (chunk n : Nat)

/-- run a program, threading the source; the run stops at the first decode error.  Result: decoder,
source left, bytes delivered (in order), the error that stopped the run -/
def runFull (d : Decoder σ) (s : Src) : List FOp → Decoder σ × Src × Array Nat × Option DErr
  | [] => (d, s, #[], none)
  | .drain o :: ops =>
    let r := runFull (applyDrain d o).1 s ops
    (r.1, r.2.1, (applyDrain d o).2 ++ r.2.2.1, r.2.2.2)
  | .blocks strat :: ops =>
    match d.decodeBlocks s strat with
    | (d1, .ok (s1, _)) => runFull d1 s1 ops
    | (d1, .err e) => (d1, s, #[], some e)
    | (d1, .fault _) => (d1, s, #[], none)
  | .sread n :: ops =>
    match streamingRead d s n with
    | (d1, .ok (s1, out)) => let r := runFull d1 s1 ops; (r.1, r.2.1, out ++ r.2.2.1, r.2.2.2)
    | (d1, .err e) => (d1, s, #[], some e)
    | (d1, .fault _) => (d1, s, #[], none)
  | .fromTo chunk n :: ops =>
    match d.decodeFromTo (s.take chunk) n with
    | (d1, .ok (rd, out)) => let r := runFull d1 (s.drop rd) ops; (r.1, r.2.1, out ++ r.2.2.1, r.2.2.2)
    | (d1, .err e) => (d1, s, #[], some e)
    | (d1, .fault _) => (d1, s, #[], none)

/-- documented use over the whole grammar: `decode_blocks` only while the frame's last block is not in;
`StreamingDecoder::read` not in the state "all blocks in, checksum still in the source" (which only a
`decode_from_to` call given a chunk ending right before the checksum leaves behind, and which only
`decode_from_to` knows how to continue from: `decode_blocks` — directly or through
`StreamingDecoder::read` — would take the checksum bytes for a block header).  Drains and
`decode_from_to` are always allowed. -/
def FullDocOk (d : Decoder σ) (s : Src) : List FOp → Prop
  | [] => True
  | .drain o :: ops => FullDocOk (applyDrain d o).1 s ops
  | .blocks strat :: ops =>
    d.blocksDone = false ∧
    match d.decodeBlocks s strat with
    | (d1, .ok (s1, _)) => FullDocOk d1 s1 ops
    | _ => True
  | .sread n :: ops =>
    (d.blocksDone = false ∨ d.isFinished = true) ∧
    match streamingRead d s n with
    | (d1, .ok (s1, _)) => FullDocOk d1 s1 ops
    | _ => True
  | .fromTo chunk n :: ops =>
    match d.decodeFromTo (s.take chunk) n with
    | (d1, .ok (rd, _)) => FullDocOk d1 (s.drop rd) ops
    | _ => True

/-- every documented program over the whole grammar on a frame the Spec accepts: no error, the invariant
holds at the end, the hasher has seen exactly the delivered bytes -/
theorem runFull_fullInv {out' : Array Nat} {cons : Nat} {cks : Option Nat} (d : Decoder σ) (s : Src)
    (ops : List FOp) (h : FullInv out' cons cks d s) (hdoc : FullDocOk d s ops) :
    (runFull d s ops).2.2.2 = none ∧ FullInv out' cons cks (runFull d s ops).1 (runFull d s ops).2.1 ∧
    (runFull d s ops).1.hashed = d.hashed ++ (runFull d s ops).2.2.1 := by
  induction ops generalizing d s with
  | nil => exact ⟨rfl, h, by simp [runFull]⟩
  | cons op ops ih =>
    cases op with
    | drain o =>
      simp only [FullDocOk] at hdoc
      obtain ⟨h1, h2, h3⟩ := ih _ _ (h.drain o) hdoc
      simp only [runFull]
      refine ⟨h1, h2, ?_⟩
      rw [h3, applyDrain_hashed, Array.append_assoc]
    | blocks strat =>
      simp only [FullDocOk] at hdoc
      obtain ⟨hnd, hrest⟩ := hdoc
      obtain ⟨d1, s1, fin, hd, hinv, hh⟩ := h.blocks hnd strat
      rw [hd] at hrest
      obtain ⟨h1, h2, h3⟩ := ih _ _ hinv hrest
      simp only [runFull, hd]
      exact ⟨h1, h2, by rw [h3, hh]⟩
    | sread n =>
      simp only [FullDocOk] at hdoc
      obtain ⟨hnp, hrest⟩ := hdoc
      have hfi : FrameInv out' [] cons cks d s := by
        rcases h with h | ⟨st, hst, hfin, hck, hflag, -⟩
        · exact h
        · rcases hnp with hnp | hnp
          · simp [Decoder.blocksDone, hst, hfin] at hnp
          · simp [Decoder.isFinished, hst, hflag, hfin, hck] at hnp
      obtain ⟨d1, s1, got, hd, hinv, hh⟩ := hfi.streamingRead d s n
      rw [hd] at hrest
      obtain ⟨h1, h2, h3⟩ := ih _ _ (Or.inl hinv) hrest
      simp only [runFull, hd]
      exact ⟨h1, h2, by rw [h3, hh, Array.append_assoc]⟩
    | fromTo chunk n =>
      simp only [FullDocOk] at hdoc
      obtain ⟨d1, rd, got, hd, hinv, hh⟩ := h.fromTo chunk n
      rw [hd] at hdoc
      obtain ⟨h1, h2, h3⟩ := ih _ _ hinv hdoc
      simp only [runFull, hd]
      exact ⟨h1, h2, by rw [h3, hh, Array.append_assoc]⟩

/-- **schedule independence over the whole API** — for EVERY frame the Spec accepts (the input being
exactly the frame) and EVERY documented program over drains, `decode_blocks`, `StreamingDecoder::read`
and `decode_from_to` with any chunking, after `reset`: no call fails; the bytes handed out, in order,
followed by what is still buffered are a prefix of the frame's content — nothing lost, duplicated or
reordered; and once the decoder `is_finished()`, delivered ++ buffered IS the content, the source is used
up and `bytes_read_from_source()` is the frame's length -/
theorem valid_frame_full_schedule (d : Decoder σ) (sdicts : List Spec.Dict) (hdc : DictsCoupled d.dicts sdicts)
    (f : List Nat) (hb : ∀ x ∈ f, x < 256) (r : Spec.FrameResult)
    (hs : Spec.decodeFrame f sdicts = some r) (hlim : r.header.window ≤ d.maxWindow) (hcons : r.consumed = f.length)
    (ops : List FOp) :
    ∃ d0 rest, d.reset f = (d0, .ok rest) ∧ (FullDocOk d0 rest ops →
      (runFull d0 rest ops).2.2.2 = none ∧
      (runFull d0 rest ops).1.hashed = (runFull d0 rest ops).2.2.1 ∧
      ∃ tail, r.content = ((runFull d0 rest ops).2.2.1 ++ (runFull d0 rest ops).1.content ++ tail).toList ∧
        ((runFull d0 rest ops).1.isFinished = true → tail = #[] ∧ (runFull d0 rest ops).2.1 = [] ∧
          (runFull d0 rest ops).1.bytesRead = r.consumed)) := by
  obtain ⟨d0, rest, hres, hh0, hinv⟩ := frameInv_of_decodeFrame d sdicts hdc f hb r hs hlim
  have hend : f.drop r.consumed = [] := by rw [hcons]; simp
  rw [hend] at hinv
  refine ⟨d0, rest, hres, fun hdoc => ?_⟩
  obtain ⟨h1, h2, h3⟩ := runFull_fullInv d0 rest ops (Or.inl hinv) hdoc
  rw [hh0, Array.empty_append] at h3
  obtain ⟨tail, hpre⟩ := h2.prefix
  refine ⟨h1, h3, tail, by rw [← h3, ← hpre], ?_⟩
  intro hfin
  rcases h2 with h2 | ⟨st, hst, hf, hck, hflag, -⟩
  · obtain ⟨st, tail', hst, hfin', hpre', hdone⟩ := h2.facts
    rw [hfin'] at hfin
    obtain ⟨ht, hs', hbr, -⟩ := hdone hfin
    refine ⟨?_, hs', by simp only [Decoder.bytesRead, hst]; exact hbr⟩
    have e1 : r.content.toArray = (runFull d0 rest ops).1.hashed ++ (runFull d0 rest ops).1.content ++ tail := hpre
    have e2 : r.content.toArray = (runFull d0 rest ops).1.hashed ++ (runFull d0 rest ops).1.content ++ tail' := by
      simp only [Decoder.hashed, Decoder.content, hst]; exact hpre'
    rw [ht] at e2
    have hsz := congrArg Array.size (e1.symm.trans e2)
    simp only [Array.size_append, Array.size_empty] at hsz
    exact Array.eq_empty_of_size_eq_zero (by omega)
  · simp [Decoder.isFinished, hst, hflag, hf, hck] at hfin

end Zstd.Model
