import Zstd.Proofs.SeqCoupled
import Zstd.Model.EncCoders
import Zstd.Spec.Block
import Zstd.Proofs.BitIO
import Zstd.Proofs.FseStream
/-
The three-state sequence bitstream of `encode_sequences` (`Model.Enc.encodeSequences`) is decoded by the
strict RFC decoder `Spec.decodeSeqLoop`, for ANY three pairs of coupled tables (`SeqCoupled.SCoupled`),
ALL sequences, and the backward stream is consumed exactly.

Everything happens on bit lists: the writer holds the bit list `W` (`WInv`), the Spec reads `W.reverse`
minus padding and marker.
-/
namespace Zstd.Proofs.SeqStream
open Zstd Zstd.Spec Zstd.Model.Fse Zstd.Model.BitIO Zstd.Proofs.BitIO Zstd.Proofs.SeqCoupled

/-! ### the backward reader reads back a written field -/

theorem readBE_field {n v : Nat} (hv : v < 2 ^ n) (rest : List Bool) :
    readBE n ((bitsOfLE n v).reverse ++ rest) = some (v, rest) := by
  have hlen : ((bitsOfLE n v).reverse).length = n := by simp
  rw [readBE_def, if_neg (by simp), List.take_left' hlen, List.drop_left' hlen, valBE_reverse_bitsOfLE hv]

/-! ### 1. the end mark and `backwardStream` -/

theorem dropWhile_zeros (k : Nat) (X : List Bool) :
    (List.replicate k false ++ true :: X).dropWhile (fun b => !b) = true :: X := by
  induction k with
  | zero => simp
  | succ k ih => simp [List.replicate_succ]

theorem byteBitsLE_zero : byteBitsLE 0 = List.replicate 8 false := by decide

/-- a byte string whose bits end in the end mark `1 0…0` (`m ≤ 8` bits): the Spec's backward stream is
everything before the mark, reversed -/
theorem backwardStream_of_mark {bytes : List Nat} {F : List Bool} {m : Nat} (hm1 : 1 ≤ m) (hm8 : m ≤ 8)
    (hbits : bitsLE bytes = F ++ bitsOfLE m 1) : backwardStream bytes = some F.reverse := by
  have hrev : (bitsLE bytes).reverse = List.replicate (m - 1) false ++ true :: F.reverse := by
    rw [hbits, FseStream.bitsOfLE_mark m hm1]
    simp [List.reverse_append]
  cases hl : bytes.getLast? with
  | none =>
    rw [List.getLast?_eq_none_iff] at hl
    subst hl
    have := congrArg List.length hrev
    simp [bitsLE] at this
  | some last =>
    obtain ⟨ys, hys⟩ := List.getLast?_eq_some_iff.1 hl
    have hnz : last ≠ 0 := by
      intro h0
      subst h0
      have hrev' : (bitsLE bytes).reverse = List.replicate 8 false ++ (bitsLE ys).reverse := by
        rw [hys, bitsLE_append, bitsLE, bitsLE, List.append_nil, List.reverse_append, byteBitsLE_zero]
        simp
      have h1 : (bitsLE bytes).reverse[m - 1]? = some true := by
        rw [hrev, List.getElem?_append_right (by simp)]
        simp
      have h2 : (bitsLE bytes).reverse[m - 1]? = some false := by
        rw [hrev', List.getElem?_append_left (by simp; omega), List.getElem?_replicate, if_pos (by omega)]
      rw [h1] at h2
      cases h2
    unfold backwardStream
    rw [hl]
    simp only []
    rw [if_neg hnz, hrev, dropWhile_zeros]
    rfl

/-! ### 2. one Spec step reads back one encoder step -/

theorem symbolOf_good {T : Spec.Fse.Table} {al s : Nat} {st : EState} (hg : SGood T al s st) :
    Spec.Fse.symbolOf T st.index = some s := by
  simp [Spec.Fse.symbolOf, hg.2.1, sEntryOf]

theorem spec_update_reads {T : Spec.Fse.Table} {al s : Nat} {nx : EState} {idx : Nat}
    (hgn : SGood T al s nx) (h1 : nx.baseline ≤ idx) (h2 : idx < nx.baseline + 2 ^ nx.numBits)
    (rest : List Bool) :
    Spec.Fse.updateState T nx.index ((bitsOfLE nx.numBits (idx - nx.baseline)).reverse ++ rest)
      = some (idx, rest) := by
  have hv : idx - nx.baseline < 2 ^ nx.numBits := by omega
  have hidx : nx.baseline + (idx - nx.baseline) = idx := by omega
  simp only [Spec.Fse.updateState, hgn.2.1, sEntryOf, readBE_field hv, hidx]

theorem spec_init_reads {T : Spec.Fse.Table} {al idx : Nat} (hal : T.accLog = al) (h : idx < 2 ^ al)
    (rest : List Bool) :
    Spec.Fse.initState T ((bitsOfLE al idx).reverse ++ rest) = some (idx, rest) := by
  rw [Spec.Fse.initState, hal, readBE_field h]

/-! ### 3. one sequence: its extra bits and its three state steps -/

/-- what is known about one coded sequence and the Spec sequence it stands for -/
structure CodedOk (uL uM uO : Nat → Prop) (c : Model.Enc.CodedSeq) (s : Spec.Seq) : Prop where
  ul : uL c.ll.1
  um : uM c.ml.1
  uo : uO c.of.1
  llRow : ∃ base, Spec.llCodeTable[c.ll.1]? = some (base, c.ll.2.2) ∧ s.ll = base + c.ll.2.1
  mlRow : ∃ base, Spec.mlCodeTable[c.ml.1]? = some (base, c.ml.2.2) ∧ s.ml = base + c.ml.2.1
  ofRow : c.of.2.2 = c.of.1 ∧ c.of.1 ≤ 31 ∧ s.ov = Spec.offsetValue c.of.1 c.of.2.1
  llFit : c.ll.2.1 < 2 ^ c.ll.2.2 ∧ c.ll.2.2 ≤ 16
  mlFit : c.ml.2.1 < 2 ^ c.ml.2.2 ∧ c.ml.2.2 ≤ 16
  ofFit : c.of.2.1 < 2 ^ c.of.2.2

/-- the extra bits of one sequence in writing order: LL, ML, OF -/
def extras (x : Model.Enc.CodedSeq) : List Bool :=
  bitsOfLE x.ll.2.2 x.ll.2.1 ++ (bitsOfLE x.ml.2.2 x.ml.2.1 ++ bitsOfLE x.of.2.2 x.of.2.1)

variable {uL uM uO : Nat → Prop}

theorem write_extras {x : Model.Enc.CodedSeq} {s : Spec.Seq} (hx : CodedOk uL uM uO x s)
    {w : BitWriter} {L : List Bool} (hw : WInv w L) :
    ∃ w1 w2 w3, w.writeBits x.ll.2.1 x.ll.2.2 = .ok w1 ∧ w1.writeBits x.ml.2.1 x.ml.2.2 = .ok w2 ∧
      w2.writeBits x.of.2.1 x.of.2.2 = .ok w3 ∧ WInv w3 (L ++ extras x) := by
  obtain ⟨w1, h1, i1⟩ := bitWriter_refines hw hx.llFit.1 (by have := hx.llFit.2; omega)
  obtain ⟨w2, h2, i2⟩ := bitWriter_refines i1 hx.mlFit.1 (by have := hx.mlFit.2; omega)
  obtain ⟨w3, h3, i3⟩ := bitWriter_refines i2 hx.ofFit (by have := hx.ofRow; omega)
  exact ⟨w1, w2, w3, h1, h2, h3, by simpa [extras, List.append_assoc] using i3⟩

variable {LL ML OF : Spec.Fse.Table} {alL alM alO : Nat}

/-- one iteration of the Spec's sequence loop on states of the codes of `x`, in front of the extra bits
of `x` (in backward reading order: OF, ML, LL) -/
theorem dec_iter {x : Model.Enc.CodedSeq} {s : Spec.Seq} (hx : CodedOk uL uM uO x s)
    {a b c : EState} (ha : SGood LL alL x.ll.1 a) (hb : SGood ML alM x.ml.1 b) (hc : SGood OF alO x.of.1 c)
    (n : Nat) (rest : List Bool) (acc : List Spec.Seq) :
    Spec.decodeSeqLoop LL OF ML (n + 1) a.index c.index b.index ((extras x).reverse ++ rest) acc =
      if n = 0 then some ((s :: acc).reverse, rest)
      else
        match Spec.Fse.updateState LL a.index rest with
        | none => none
        | some (sLL', b4) =>
          match Spec.Fse.updateState ML b.index b4 with
          | none => none
          | some (sML', b5) =>
            match Spec.Fse.updateState OF c.index b5 with
            | none => none
            | some (sOF', b6) => Spec.decodeSeqLoop LL OF ML n sLL' sOF' sML' b6 (s :: acc) := by
  obtain ⟨bl, hbl, hsl⟩ := hx.llRow
  obtain ⟨bm, hbm, hsm⟩ := hx.mlRow
  obtain ⟨ho1, ho2, hso⟩ := hx.ofRow
  have hs : s = ⟨bl + x.ll.2.1, bm + x.ml.2.1, Spec.offsetValue x.of.1 x.of.2.1⟩ := by
    cases s; simp_all
  have hofit : x.of.2.1 < 2 ^ x.of.1 := by have := hx.ofFit; rwa [ho1] at this
  have hbits : (extras x).reverse ++ rest =
      (bitsOfLE x.of.1 x.of.2.1).reverse ++ ((bitsOfLE x.ml.2.2 x.ml.2.1).reverse ++
        ((bitsOfLE x.ll.2.2 x.ll.2.1).reverse ++ rest)) := by
    simp only [extras, ho1, List.reverse_append, List.append_assoc]
  rw [Spec.decodeSeqLoop, hbits]
  simp only [symbolOf_good ha, symbolOf_good hb, symbolOf_good hc, hbl, hbm,
    if_neg (show ¬ x.of.1 > 31 by omega), readBE_field hofit, readBE_field hx.mlFit.1,
    readBE_field hx.llFit.1, ← hs]
  rfl

variable {llT mlT ofT : ETable}

/-- one step of the backward loop of `encode_sequences`, and the Spec iteration that undoes it -/
theorem seq_step (hL : SCoupled llT LL alL uL) (hM : SCoupled mlT ML alM uM) (hO : SCoupled ofT OF alO uO)
    {x : Model.Enc.CodedSeq} {s : Spec.Seq} (hx : CodedOk uL uM uO x s)
    {cl cm co : Nat} {a b c : EState} {w : BitWriter} {L : List Bool} (hw : WInv w L)
    (ha : SGood LL alL cl a) (hb : SGood ML alM cm b) (hc : SGood OF alO co c) :
    ∃ w' a' b' c' F, Model.Enc.seqStep llT mlT ofT w a b c x = .ok (w', a', b', c') ∧ WInv w' (L ++ F) ∧
      SGood LL alL x.ll.1 a' ∧ SGood ML alM x.ml.1 b' ∧ SGood OF alO x.of.1 c' ∧
      ∀ (rest : List Bool) (m : Nat) (acc : List Spec.Seq), m ≠ 0 →
        Spec.decodeSeqLoop LL OF ML (m + 1) a'.index c'.index b'.index (F.reverse ++ rest) acc
          = Spec.decodeSeqLoop LL OF ML m a.index c.index b.index rest (s :: acc) := by
  obtain ⟨c', hc', hc1, hc2, hgc⟩ := hO.next x.of.1 c.index hx.uo hc.1
  obtain ⟨w1, hw1, i1⟩ := bitWriter_refines (v := c.index - c'.baseline) (n := c'.numBits) hw (by omega)
    (by have := hgc.2.2; have := hO.al_le; omega)
  obtain ⟨b', hb', hb1, hb2, hgb⟩ := hM.next x.ml.1 b.index hx.um hb.1
  obtain ⟨w2, hw2, i2⟩ := bitWriter_refines (v := b.index - b'.baseline) (n := b'.numBits) i1 (by omega)
    (by have := hgb.2.2; have := hM.al_le; omega)
  obtain ⟨a', ha', ha1, ha2, hga⟩ := hL.next x.ll.1 a.index hx.ul ha.1
  obtain ⟨w3, hw3, i3⟩ := bitWriter_refines (v := a.index - a'.baseline) (n := a'.numBits) i2 (by omega)
    (by have := hga.2.2; have := hL.al_le; omega)
  obtain ⟨w4, w5, w6, hw4, hw5, hw6, i6⟩ := write_extras hx i3
  refine ⟨w6, a', b', c', bitsOfLE c'.numBits (c.index - c'.baseline) ++ (bitsOfLE b'.numBits (b.index - b'.baseline) ++
    (bitsOfLE a'.numBits (a.index - a'.baseline) ++ extras x)), ?_, ?_, hga, hgb, hgc, ?_⟩
  · simp only [Model.Enc.seqStep, encStep, hc', if_neg (show ¬ c.index < c'.baseline by omega), hw1,
      hb', if_neg (show ¬ b.index < b'.baseline by omega), hw2,
      ha', if_neg (show ¬ a.index < a'.baseline by omega), hw3, hw4, hw5, hw6]
  · simpa only [List.append_assoc] using i6
  · intro rest m acc hm
    have hbits : (bitsOfLE c'.numBits (c.index - c'.baseline) ++ (bitsOfLE b'.numBits (b.index - b'.baseline) ++
        (bitsOfLE a'.numBits (a.index - a'.baseline) ++ extras x))).reverse ++ rest =
        (extras x).reverse ++ ((bitsOfLE a'.numBits (a.index - a'.baseline)).reverse ++
          ((bitsOfLE b'.numBits (b.index - b'.baseline)).reverse ++
            ((bitsOfLE c'.numBits (c.index - c'.baseline)).reverse ++ rest))) := by
      simp only [List.reverse_append, List.append_assoc]
    rw [hbits, dec_iter hx hga hgb hgc, if_neg hm, spec_update_reads hga ha1 ha2]
    simp only [spec_update_reads hgb hb1 hb2, spec_update_reads hgc hc1 hc2]

/-- the backward loop of `encode_sequences` over the pairs `ps` (coded sequence, Spec sequence), and the
Spec loop that undoes it: continuation style, for every rest of the stream and every number `m ≥ 1` of
sequences still to come -/
theorem seq_loop (hL : SCoupled llT LL alL uL) (hM : SCoupled mlT ML alM uM) (hO : SCoupled ofT OF alO uO) :
    ∀ (ps : List (Model.Enc.CodedSeq × Spec.Seq)), (∀ p ∈ ps, CodedOk uL uM uO p.1 p.2) →
    ∀ (cl cm co : Nat) (a b c : EState) (w : BitWriter) (L : List Bool), WInv w L →
      SGood LL alL cl a → SGood ML alM cm b → SGood OF alO co c →
      ∃ w' a' b' c' F, Model.Enc.seqLoop llT mlT ofT (ps.map (·.1)) w a b c = .ok (w', a', b', c') ∧
        WInv w' (L ++ F) ∧ a'.index < 2 ^ alL ∧ b'.index < 2 ^ alM ∧ c'.index < 2 ^ alO ∧
        ∀ (rest : List Bool) (m : Nat) (acc : List Spec.Seq), 1 ≤ m →
          Spec.decodeSeqLoop LL OF ML (ps.length + m) a'.index c'.index b'.index (F.reverse ++ rest) acc
            = Spec.decodeSeqLoop LL OF ML m a.index c.index b.index rest (ps.map (·.2) ++ acc) := by
  intro ps
  induction ps with
  | nil =>
    intro _ cl cm co a b c w L hw ha hb hc
    refine ⟨w, a, b, c, [], rfl, by simpa using hw, ha.1, hb.1, hc.1, ?_⟩
    intro rest m acc _
    simp
  | cons p ps ih =>
    intro hps cl cm co a b c w L hw ha hb hc
    obtain ⟨w1, a1, b1, c1, F1, hstep, i1, hga, hgb, hgc, hdec1⟩ :=
      seq_step hL hM hO (hps p (List.mem_cons_self ..)) hw ha hb hc
    obtain ⟨w', a', b', c', F', hloop, i', hla, hlb, hlc, hdec'⟩ :=
      ih (fun q hq => hps q (List.mem_cons_of_mem _ hq)) _ _ _ a1 b1 c1 w1 _ i1 hga hgb hgc
    refine ⟨w', a', b', c', F1 ++ F', ?_, by simpa only [List.append_assoc] using i', hla, hlb, hlc, ?_⟩
    · simp only [List.map_cons, Model.Enc.seqLoop, hstep, hloop]
    · intro rest m acc hm
      have hlen : (p :: ps).length + m = ps.length + (m + 1) := by simp only [List.length_cons]; omega
      rw [hlen, List.reverse_append, List.append_assoc, hdec' _ (m + 1) acc (by omega),
        hdec1 rest m _ (by omega)]
      simp

/-! ### 4. the whole sequence bitstream -/

/-- **The sequence bitstream of `encode_sequences` is decoded by the Spec.**  For any three coupled table
pairs and any non-empty list of (coded sequence, Spec sequence) pairs related by `CodedOk`:
`encode_sequences` succeeds on any writer, leaves a byte-aligned writer, and what it wrote (`S`, taken as a
byte string of its own — the writer is byte aligned before it in `compress_block`) is accepted by the strict
RFC decoder: `backwardStream`, the three initial states (LL, OF, ML), then `decodeSeqLoop` returns exactly
the Spec sequences and has consumed the stream exactly. -/
theorem seq_stream_decodes (hL : SCoupled llT LL alL uL) (hM : SCoupled mlT ML alM uM)
    (hO : SCoupled ofT OF alO uO)
    (ps : List (Model.Enc.CodedSeq × Spec.Seq)) (hne : ps ≠ [])
    (hrel : ∀ p ∈ ps, CodedOk uL uM uO p.1 p.2)
    {w : BitWriter} {L : List Bool} (hw : WInv w L) :
    ∃ w' S, Model.Enc.encodeSequences llT mlT ofT w (ps.map (·.1)) = .ok w' ∧ WInv w' (L ++ S) ∧
      (L.length + S.length) % 8 = 0 ∧ S ≠ [] ∧
      ∀ (bytes : List Nat), Bytes bytes → Spec.bitsLE bytes = S →
        ∃ bits sLL b1 sOF b2 sML b3, Spec.backwardStream bytes = some bits ∧
          Spec.Fse.initState LL bits = some (sLL, b1) ∧ Spec.Fse.initState OF b1 = some (sOF, b2) ∧
          Spec.Fse.initState ML b2 = some (sML, b3) ∧
          Spec.decodeSeqLoop LL OF ML ps.length sLL sOF sML b3 [] = some (ps.map (·.2), []) := by
  obtain ⟨ini, pl, rfl⟩ : ∃ ini pl, ps = ini ++ [pl] :=
    ⟨ps.dropLast, ps.getLast hne, (List.dropLast_concat_getLast hne).symm⟩
  have hxl : CodedOk uL uM uO pl.1 pl.2 := hrel pl (by simp)
  obtain ⟨a0, ha0, hga0⟩ := hL.start pl.1.ll.1 hxl.ul
  obtain ⟨b0, hb0, hgb0⟩ := hM.start pl.1.ml.1 hxl.um
  obtain ⟨c0, hc0, hgc0⟩ := hO.start pl.1.of.1 hxl.uo
  obtain ⟨w1, w2, w3, hw1, hw2, hw3, i3⟩ := write_extras hxl hw
  obtain ⟨w4, a', b', c', F, hloop, i4, hla, hlb, hlc, hdec⟩ :=
    seq_loop hL hM hO ini.reverse (fun q hq => hrel q (by simp at hq ⊢; exact Or.inl hq))
      _ _ _ a0 b0 c0 w3 _ i3 hga0 hgb0 hgc0
  obtain ⟨w5, hw5, i5⟩ := bitWriter_refines (v := b'.index) (n := alM) i4 hlb (by have := hM.al_le; omega)
  obtain ⟨w6, hw6, i6⟩ := bitWriter_refines (v := c'.index) (n := alO) i5 hlc (by have := hO.al_le; omega)
  obtain ⟨w7, hw7, i7⟩ := bitWriter_refines (v := a'.index) (n := alL) i6 hla (by have := hL.al_le; omega)
  obtain ⟨w8, m, hw8, hm1, hm8, i8, hal8⟩ := FseStream.writeEndMark_ok i7
  refine ⟨w8, (extras pl.1 ++ (F ++ (bitsOfLE alM b'.index ++ (bitsOfLE alO c'.index ++ bitsOfLE alL a'.index)))) ++
    bitsOfLE m 1, ?_, by simpa only [List.append_assoc] using i8, ?_, ?_, ?_⟩
  · rw [List.map_reverse] at hloop
    simp only [Model.Enc.encodeSequences, List.map_append, List.map_cons, List.map_nil,
      List.getLast?_append, List.getLast?_singleton, Option.some_or, ha0, hb0, hc0, hw1, hw2, hw3,
      List.dropLast_concat, hloop, hM.encLog, hO.encLog, hL.encLog, hw5, hw6, hw7, hw8]
  · simp only [List.length_append, length_bitsOfLE] at hal8 ⊢; omega
  · intro h
    have := congrArg List.length h
    simp only [List.length_append, length_bitsOfLE, List.length_nil] at this
    omega
  · intro bytes _ hbits
    have hbs := backwardStream_of_mark hm1 hm8 hbits
    have hrevbits : (extras pl.1 ++ (F ++ (bitsOfLE alM b'.index ++ (bitsOfLE alO c'.index ++
        bitsOfLE alL a'.index)))).reverse =
        (bitsOfLE alL a'.index).reverse ++ ((bitsOfLE alO c'.index).reverse ++
          ((bitsOfLE alM b'.index).reverse ++ (F.reverse ++ ((extras pl.1).reverse ++ [])))) := by
      simp only [List.reverse_append, List.append_assoc, List.append_nil]
    rw [hrevbits] at hbs
    refine ⟨_, a'.index, _, c'.index, _, b'.index, _, hbs, spec_init_reads hL.specLog hla _,
      spec_init_reads hO.specLog hlc _, spec_init_reads hM.specLog hlb _, ?_⟩
    have hlen : (ini ++ [pl]).length = ini.reverse.length + 1 := by simp
    rw [hlen, hdec _ 1 [] (by omega), dec_iter hxl hga0 hgb0 hgc0 0, if_pos rfl]
    simp

end Zstd.Proofs.SeqStream
