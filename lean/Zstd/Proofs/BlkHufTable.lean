import Zstd.Proofs.BlkHufWeights
import Zstd.Proofs.HufDec
import Zstd.Proofs.HufCanon
/-
Parts C and D of `Proofs/BlkHuf`: a table that `build_table_from_weights` accepts is `HufBuilt`
(every one of its `2^max_num_bits` cells was written by the fill loop, with a code length between 1
and `max_num_bits`), and `build_decoder` never panics.
-/
namespace Zstd.Proofs.Blk
open Zstd Zstd.Model Zstd.Model.Huf Zstd.Model.Huf.Bits
open Zstd.Proofs.BitIO (Bytes)
open Zstd.Proofs.Huf

/-- **Coverage**: under the invariant of the finished fill loop every cell of the table belongs to
the block of some symbol of weight `w0 + 1` (`w0 < m`), hence has code length `m − w0 ∈ [1, m]`.
(The `numBits` projection of `table_eq_canonical`, without the bound on the number of symbols.) -/
theorem cells_covered (m : Nat) (all : List Nat) (hall : ∀ w ∈ all, w ≤ m)
    (ri : List Nat) (dec : Array Entry)
    (inv : FillInv m (bitsOf m all) (bitsOf m all) ri dec)
    (htotal : specOff all m = 2 ^ m) (i : Nat) (hi : i < 2 ^ m) :
    ∃ sym w0, w0 < m ∧ dec[i]? = some { symbol := sym % 256, numBits := m - w0 } := by
  have hi' : i < (specCells m all).length := by rw [specCells_length, htotal]; exact hi
  obtain ⟨w0, sym, j, hw0, hsym, hj, hpos, _⟩ := specCells_index m all i hi'
  have hsymlt : sym < all.length := by
    rcases Nat.lt_or_ge sym all.length with h | h
    · exact h
    · rw [List.getElem?_eq_none h] at hsym; cases hsym
  have hsymlt' : sym < (bitsOf m all).length := by simpa [bitsOf] using hsymlt
  have hw : all[sym] = w0 + 1 := by
    rw [List.getElem?_eq_getElem hsymlt] at hsym; simpa using hsym
  have hb : (bitsOf m all)[sym] = m - w0 := by
    simp only [bitsOf, List.getElem_map, hw]
    simp
  have e1 : m - (m - w0) = w0 := by omega
  have hcell := inv.cells sym hsymlt' (by rw [hb]; omega) j (by rw [hb, e1]; exact hj)
  have hposeq : cellPos m (bitsOf m all) ((bitsOf m all).take sym) (bitsOf m all)[sym] + j = i := by
    rw [hb, hpos]
    simp only [cellPos]
    rw [e1, riSum_eq_specOff m hall w0 (by omega), bitsOf_take]
    have e2 : m - w0 = m + 1 - (w0 + 1) := by omega
    rw [e2, countBits_bitsOf m (fun w hw => hall w (List.mem_of_mem_take hw)) (by omega) (by omega)]
  rw [hposeq, hb] at hcell
  exact ⟨sym, w0, hw0, hcell⟩

/-- **C.** What `build_table_from_weights` accepts is a built table. -/
theorem buildTableFromWeights_ok {t t' : DecTable} (hlen : t.weights.length ≤ 257)
    (h : buildTableFromWeights t = (t', .ok ())) : HufBuilt t' := by
  by_cases g : GoodWeights t.weights
  · obtain ⟨ri, dec, hbuild, hinv⟩ := buildTable_good t hlen g
    obtain ⟨_, _, _, _, hsum, hallle⟩ := good_facts g
    rw [hbuild] at h
    simp only [Prod.mk.injEq, and_true] at h
    subst h
    have h11 : Gen.hufMaxNumBits = 11 := rfl
    refine ⟨by simp [maxBitsOf], by have := g.maxBits; simp only [maxBitsOf]; omega, hinv.size, ?_⟩
    intro e he
    simp only at he ⊢
    obtain ⟨i, hi, hget⟩ := List.mem_iff_getElem.mp he
    rw [Array.length_toList, hinv.size] at hi
    have htotal : specOff (t.weights ++ [lastWeightOf t.weights]) (maxBitsOf t.weights) = 2 ^ maxBitsOf t.weights := by
      rw [← riSum_eq_specOff _ hallle _ (Nat.le_refl _), riSum_total, bitMass_bitsOf _ hallle, hsum]
    obtain ⟨sym, w0, hw0, hcell⟩ := cells_covered (maxBitsOf t.weights) (t.weights ++ [lastWeightOf t.weights])
      hallle ri dec hinv htotal i hi
    have : dec[i]? = some e := by
      rw [← hget]; simp
    rw [this] at hcell
    simp only [Option.some.injEq] at hcell
    subst hcell
    simp only
    omega
  · obtain ⟨e, he, _⟩ := buildTable_bad t hlen g
    rw [h] at he; cases he

/-- `build_table_from_weights` does not touch the weights (needed nowhere else, for completeness) and
never panics for at most 257 weights (= `Props.C13.build_table_never_panics`). -/
theorem buildTableFromWeights_no_fault (t : DecTable) (hlen : t.weights.length ≤ 257) (f : Fault) :
    (buildTableFromWeights t).2 ≠ .error (.fault f) := by
  by_cases g : GoodWeights t.weights
  · obtain ⟨_, _, h, _⟩ := buildTable_good t hlen g
    rw [h]; intro h'; cases h'
  · obtain ⟨e, he, _⟩ := buildTable_bad t hlen g
    rw [he]; intro h'; cases h'

/-! ### `build_decoder` -/

theorem hufBuildDecoder_spec (t : DecTable) (src : List Nat) (hb : Bytes src) :
    (∀ f, (buildDecoder t src).2 ≠ .error (.fault f)) ∧
    (∀ t' used, buildDecoder t src = (t', .ok used) → HufBuilt t' ∧ used ≤ src.length) := by
  unfold buildDecoder
  simp only []
  have hnf := readWeights_no_fault { t with decode := #[] } src hb
  have hok := fun t' used => readWeights_ok (t := { t with decode := #[] }) (src := src) hb (t' := t') (used := used)
  generalize readWeights { t with decode := #[] } src = rw at hnf hok
  obtain ⟨t1, r1⟩ := rw
  cases r1 with
  | error e =>
    simp only
    refine ⟨fun f h => hnf f (by simpa using h), fun t' used h => by simp at h⟩
  | ok used =>
    simp only
    obtain ⟨hlen, hused, _, _⟩ := hok t1 used rfl
    have hnf2 := buildTableFromWeights_no_fault t1 hlen
    have hok2 := fun t' => buildTableFromWeights_ok (t := t1) (t' := t') hlen
    generalize buildTableFromWeights t1 = bt at hnf2 hok2
    obtain ⟨t2, r2⟩ := bt
    cases r2 with
    | error e =>
      simp only
      refine ⟨fun f h => hnf2 f (by simpa using h), fun t' used h => by simp at h⟩
    | ok u =>
      simp only
      refine ⟨fun f h => by simp at h, fun t' used' h => ?_⟩
      simp only [Prod.mk.injEq, Except.ok.injEq] at h
      obtain ⟨h1, h2⟩ := h
      subst h1 h2
      exact ⟨hok2 t2 rfl, hused⟩

/-- **D.** -/
theorem hufBuildDecoder_no_fault (t : DecTable) (src : List Nat) (hb : Bytes src) (f : Fault) :
    (buildDecoder t src).2 ≠ .error (.fault f) := (hufBuildDecoder_spec t src hb).1 f

theorem hufBuildDecoder_ok {t : DecTable} {src : List Nat} (hb : Bytes src) {t' : DecTable} {used : Nat}
    (h : buildDecoder t src = (t', .ok used)) : HufBuilt t' ∧ used ≤ src.length :=
  (hufBuildDecoder_spec t src hb).2 t' used h

end Zstd.Proofs.Blk
