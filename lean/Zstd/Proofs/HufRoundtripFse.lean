import Zstd.Proofs.HufRoundtrip
import Zstd.Proofs.HufFseContract
/-
The description of a canonical table with more than 16 transmitted weights, written with the real
FSE coder (`Enc.fseWeights`, production parameters): never a panic other than the `assert!(< 128)`,
and read back exactly.
-/
namespace Zstd.Proofs.Huf
open Zstd Zstd.Model Zstd.Model.Huf

theorem exists_pos_of_weightSum_pos : ∀ (ws : List Nat), 0 < weightSum ws → ∃ w ∈ ws, 1 ≤ w
  | [], h => by simp [weightSum] at h
  | w :: ws, h => by
    by_cases hw : w > 0
    · exact ⟨w, List.mem_cons_self, hw⟩
    · simp only [weightSum, hw, if_false, Nat.zero_add] at h
      obtain ⟨x, hx, hx1⟩ := exists_pos_of_weightSum_pos ws h
      exact ⟨x, List.mem_cons_of_mem _ hx, hx1⟩

/-- the production FSE coder satisfies the contract on every weight vector `write_table` can hand it -/
theorem fseWeights_contract_on (ws bytes : List Nat) (h4 : 4 ≤ ws.length) (h257 : ws.length ≤ 257)
    (hle : ∀ w ∈ ws, w ≤ 11) (hpos : ∃ w ∈ ws, 1 ≤ w)
    (henc : Enc.fseWeights ws = .ok bytes) (hsmall : bytes.length < 128) :
    ∀ (st : DecTable) (tail : List Nat), (∀ b ∈ tail, b < 256) →
      readWeights st (bytes.length :: (bytes ++ tail)) = ({ st with weights := ws }, .ok (1 + bytes.length)) := by
  obtain ⟨bytes', h1, _, h3⟩ := fseWeights_roundtrip ws h4 h257 hle hpos
  rw [henc] at h1
  simp only [Except.ok.injEq] at h1
  subst h1
  exact h3 hsmall

/-- **FSE-compressed description of a canonical table**: the FSE coder never panics on the
transmitted weights; if its output has fewer than 128 bytes `write_table` writes size byte + payload
and the decoder reads the weights back; otherwise `write_table` panics at its `assert!`. -/
theorem descReads_fse {t : EncTable} {wd : List Nat} {m : Nat} (c : CanonTable t wd m) (hform : wd.length - 1 > 16) :
    ∃ bytes, Enc.fseWeights wd.dropLast = .ok bytes ∧
      (bytes.length < 128 → writeTable Enc.fseWeights t = .ok (bytes.length :: bytes) ∧
        DescReads (bytes.length :: bytes) wd.dropLast) ∧
      (128 ≤ bytes.length →
        writeTable Enc.fseWeights t = .error (.assert "huff0_encoder.rs:write_table:encoded_len<128")) := by
  have k := c.kraft
  obtain ⟨hgood, _, _, hdl, _⟩ := kraft_weights_good k
  have hwAll : weights t = .ok (encWeights t m) := weights_of_kraft k
  rw [c.encWeights_eq] at hgood hdl hwAll
  have hdl' : wd.dropLast.length = wd.length - 1 := by simp
  have hle11 : ∀ w ∈ wd.dropLast, w ≤ 11 := fun w hw => by
    have := c.le w (List.dropLast_subset _ hw); have := c.m11; omega
  have hpos : ∃ w ∈ wd.dropLast, 1 ≤ w :=
    exists_pos_of_weightSum_pos _ (Nat.pos_of_ne_zero hgood.pos)
  obtain ⟨bytes, h1, _, h3⟩ := fseWeights_roundtrip wd.dropLast (by omega) (by have := c.len256; omega) hle11 hpos
  have huse : Gen.hufUseFse wd.dropLast.length Gen.hufDirectMax = true := by
    simp only [Gen.hufUseFse, Gen.hufDirectMax]; exact decide_eq_true (by omega)
  refine ⟨bytes, h1, ?_, ?_⟩
  · intro hsmall
    have hok : Gen.hufFseLenOk bytes.length Gen.hufFseLenBound = true := by
      simp only [Gen.hufFseLenOk, Gen.hufFseLenBound]; exact decide_eq_true hsmall
    refine ⟨?_, ?_⟩
    · unfold writeTable
      rw [hwAll]
      simp only [huse, h1, hok, if_true, Bool.not_true, Bool.false_eq_true, if_false]
    · intro st tail htail
      have := h3 hsmall st tail htail
      simp only [List.cons_append, List.length_cons]
      rw [this, Nat.add_comm]
  · intro hbig
    have hok : Gen.hufFseLenOk bytes.length Gen.hufFseLenBound = false := by
      simp only [Gen.hufFseLenOk, Gen.hufFseLenBound]; exact decide_eq_false (by omega)
    unfold writeTable
    rw [hwAll]
    simp only [huse, h1, hok, if_true, Bool.not_false]

end Zstd.Proofs.Huf
