import Zstd.Proofs.FrameDecoderBlocks
/-
Helper lemmas for C01 at the level of sequence execution: the model's `execute_sequences` /
`DecodeBuffer::repeat` refine the Spec's `execSequences` / `matchCopy`.
-/
namespace Zstd.Model
open Zstd

/-- inside the output the Spec's byte-by-byte match copy is the model's `copyWithin` -/
theorem matchCopy_inBuffer (dict : Array Nat) (n off : Nat) (out : Array Nat) (h0 : 0 < off) (h : off ≤ out.size) :
    Spec.matchCopy dict n off out = some (copyWithin n off out) := by
  induction n generalizing out with
  | zero => simp [Spec.matchCopy, copyWithin]
  | succ n ih =>
    have hi : out.size - off < out.size := by omega
    rw [Spec.matchCopy, if_pos h, copyWithin]
    simp only [Array.getElem?_eq_getElem hi]
    have : out.getD (out.size - off) 0 = out[out.size - off] := by
      simp [Array.getD_eq_getD_getElem?, Array.getElem?_eq_getElem hi]
    rw [this]
    exact ih _ (by simp; omega)

/-- reaching into the dictionary: `n ≤ back` bytes come from consecutive dictionary positions -/
theorem matchCopy_dict (dict : Array Nat) (n off : Nat) (out : Array Nat)
    (hd : off - out.size ≤ dict.size) (hn : n ≤ off - out.size) :
    Spec.matchCopy dict n off out =
      some (out ++ dict.extract (dict.size - (off - out.size)) (dict.size - (off - out.size) + n)) := by
  induction n generalizing out with
  | zero => simp [Spec.matchCopy]
  | succ n ih =>
    have hi : dict.size - (off - out.size) < dict.size := by omega
    simp only [Spec.matchCopy, if_neg (show ¬ off ≤ out.size by omega), if_pos hd, Array.getElem?_eq_getElem hi]
    rw [ih _ (by simp only [Array.size_push]; omega) (by simp only [Array.size_push]; omega)]
    simp only [Array.size_push]
    congr 1
    apply Array.ext
    · simp only [Array.size_append, Array.size_push, Array.size_extract]; omega
    · intro i h1 h2
      simp only [Array.size_append, Array.size_push, Array.size_extract] at h1 h2
      simp only [Array.getElem_append, Array.size_push, Array.getElem_push, Array.getElem_extract]
      by_cases c1 : i < out.size
      · rw [dif_pos (by omega), dif_pos c1, dif_pos c1]
      · by_cases c2 : i = out.size
        · subst c2
          rw [dif_pos (by omega), dif_neg c1, dif_neg c1]
          simp
        · rw [dif_neg (by omega), dif_neg c1]
          congr 1
          omega

theorem matchCopy_append (dict : Array Nat) (n1 n2 off : Nat) (out : Array Nat) :
    Spec.matchCopy dict (n1 + n2) off out = (Spec.matchCopy dict n1 off out).bind (Spec.matchCopy dict n2 off) := by
  induction n1 generalizing out with
  | zero => simp [Spec.matchCopy]
  | succ n1 ih =>
    rw [show n1 + 1 + n2 = (n1 + n2) + 1 by omega]
    simp only [Spec.matchCopy]
    split
    · split
      · exact ih _
      · rfl
    · split
      · split
        · exact ih _
        · rfl
      · rfl

theorem matchCopy_size (dict : Array Nat) (n off : Nat) (out out2 : Array Nat)
    (h : Spec.matchCopy dict n off out = some out2) : out2.size = out.size + n := by
  induction n generalizing out with
  | zero => simp only [Spec.matchCopy, Option.some.injEq] at h; rw [← h]; rfl
  | succ n ih =>
    simp only [Spec.matchCopy] at h
    split at h
    · split at h
      · have := ih _ h; simp at this; omega
      · cases h
    · split at h
      · split at h
        · have := ih _ h; simp at this; omega
        · cases h
      · cases h


/-- `DecodeBuffer::repeat` (incl. `repeat_from_dict`) computes the Spec's match copy whenever the
Spec's reach-back rule allows the offset and `total_output_counter` does not over-count -/
theorem repeat_refines (b : DBuf) (off ml : Nat) (out2 : Array Nat) (h0 : 0 < off)
    (htot : b.totalOut ≤ b.content.size)
    (hreach : off > b.content.size → b.content.size ≤ b.window ∧ off - b.content.size ≤ b.dict.size)
    (hm : Spec.matchCopy b.dict ml off b.content = some out2) :
    ∃ b2, b.repeat off ml = .ok b2 ∧ b2.content = out2 ∧ b2.dict = b.dict ∧ b2.window = b.window ∧
      b2.hashed = b.hashed ∧ b2.totalOut ≤ b2.content.size := by
  by_cases hin : off ≤ b.content.size
  · rw [matchCopy_inBuffer _ _ _ _ h0 hin] at hm
    cases hm
    refine ⟨{ b with content := copyWithin ml off b.content, totalOut := b.totalOut + ml }, ?_, rfl, rfl, rfl, rfl, ?_⟩
    · simp only [DBuf.repeat, if_neg (show ¬ off > b.content.size by omega)]
    · simp only [copyWithin_size]; omega
  · obtain ⟨hw, hd⟩ := hreach (by omega)
    simp only [DBuf.repeat, if_pos (show off > b.content.size by omega), if_pos (show b.totalOut ≤ b.window by omega),
      if_neg (show ¬ off - b.content.size > b.dict.size by omega)]
    by_cases hlt : off - b.content.size < ml
    · simp only [if_pos hlt]
      have hsplit : ml = (off - b.content.size) + (ml - (off - b.content.size)) := by omega
      rw [hsplit, matchCopy_append, matchCopy_dict _ _ _ _ hd (Nat.le_refl _)] at hm
      simp only [Option.bind_some] at hm
      have he : b.dict.size - (off - b.content.size) + (off - b.content.size) = b.dict.size := by omega
      rw [he] at hm
      have hsz : (b.content ++ b.dict.extract (b.dict.size - (off - b.content.size)) b.dict.size).size = off := by
        simp only [Array.size_append, Array.size_extract]; omega
      rw [matchCopy_inBuffer _ _ _ _ h0 (by omega)] at hm
      cases hm
      rw [if_neg (by omega)]
      refine ⟨_, rfl, by simp only [hsz], rfl, rfl, rfl, ?_⟩
      simp only [copyWithin_size, hsz]; omega
    · simp only [if_neg hlt]
      rw [matchCopy_dict _ _ _ _ hd (by omega)] at hm
      cases hm
      refine ⟨_, rfl, rfl, rfl, rfl, rfl, ?_⟩
      simp only [Array.size_append, Array.size_extract]; omega


theorem finalSeqSum_ge (seqs : List Spec.Seq) (lits : List Nat) (q : Nat) : q ≤ finalSeqSum seqs lits q := by
  induction seqs generalizing lits q with
  | nil => simp [finalSeqSum]
  | cons s rest ih => have := ih (lits.drop s.ll) (q + s.ml + s.ll); simp only [finalSeqSum]; omega

theorem finalSeqSum_shift (seqs : List Spec.Seq) (lits : List Nat) (q : Nat) :
    finalSeqSum seqs lits q = q + finalSeqSum seqs lits 0 := by
  induction seqs generalizing lits q with
  | nil => simp [finalSeqSum]
  | cons s rest ih =>
    simp only [finalSeqSum]
    rw [ih _ (q + s.ml + s.ll), ih _ (0 + s.ml + s.ll)]; omega

/-- the Spec's executor regenerates exactly `Σ(ll + ml) + remaining literals` bytes -/
theorem execSequences_size (window : Nat) (dict : Array Nat) (seqs : List Spec.Seq) (lits : List Nat)
    (h h' : Spec.OffHist) (out out' : Array Nat)
    (hs : Spec.execSequences window dict seqs lits h out = some (out', h')) :
    out'.size = out.size + finalSeqSum seqs lits 0 := by
  induction seqs generalizing lits h out with
  | nil =>
    simp only [Spec.execSequences, Option.some.injEq, Prod.mk.injEq] at hs
    rw [← hs.1]; simp [finalSeqSum]
  | cons s rest ih =>
    simp only [Spec.execSequences] at hs
    have key : ∀ out2 h2, Spec.matchCopy dict s.ml (Spec.repeatOffsets s.ov (decide (s.ll = 0)) h).1
          (out ++ (lits.take s.ll).toArray) = some out2 → s.ll ≤ lits.length →
        Spec.execSequences window dict rest (lits.drop s.ll) h2 out2 = some (out', h') →
        out'.size = out.size + finalSeqSum (s :: rest) lits 0 := by
      intro out2 h2 hm hll hrec
      have h1 := matchCopy_size _ _ _ _ _ hm
      have h2' := ih _ _ _ hrec
      simp only [finalSeqSum]
      rw [finalSeqSum_shift _ _ (0 + s.ml + s.ll), h2', h1]
      simp only [Array.size_append, List.size_toArray, List.length_take]
      omega
    split at hs
    · cases hs
    · rename_i hll
      split at hs
      · cases hs
      · split at hs
        · split at hs
          · cases hs
          · split at hs
            · cases hs
            · exact key _ _ ‹_› (by omega) hs
        · split at hs
          · cases hs
          · split at hs
            · cases hs
            · exact key _ _ ‹_› (by omega) hs

theorem offsetHistory_eq_spec (ov ll : Nat) (h : Spec.OffHist) (hov : ov ≥ 1) :
    doOffsetHistory ov ll (h.r1, h.r2, h.r3) =
      .ok ((Spec.repeatOffsets ov (ll = 0) h).1,
           ((Spec.repeatOffsets ov (ll = 0) h).2.r1, (Spec.repeatOffsets ov (ll = 0) h).2.r2,
            (Spec.repeatOffsets ov (ll = 0) h).2.r3)) := by
  unfold doOffsetHistory Spec.repeatOffsets
  have h0 : ov ≠ 0 := by omega
  simp only [h0, ↓reduceIte]
  by_cases hll : ll = 0
  · subst hll
    by_cases h3 : ov > 3
    · have : ¬ ov = 1 := by omega
      have : ¬ ov = 2 := by omega
      have : ¬ ov = 3 := by omega
      simp [*]
    · have : ov = 1 ∨ ov = 2 ∨ ov = 3 := by omega
      rcases this with rfl | rfl | rfl <;> simp
  · have hpos : ll > 0 := by omega
    by_cases h3 : ov > 3
    · have : ¬ ov = 1 := by omega
      have : ¬ ov = 2 := by omega
      have : ¬ ov = 3 := by omega
      simp [*]
    · have : ov = 1 ∨ ov = 2 ∨ ov = 3 := by omega
      rcases this with rfl | rfl | rfl <;> simp [hpos, hll]



/-- the model's buffer `b'` holds what the Spec's executor returns (everything else untouched, counter
still not over-counting) -/
structure RefinesOut (b b' : DBuf) (out' : Array Nat) : Prop where
  content : b'.content = out'
  dict : b'.dict = b.dict
  window : b'.window = b.window
  hashed : b'.hashed = b.hashed
  totalOut : b'.totalOut ≤ b'.content.size

theorem executeSequences_refines_aux (seqs : List Spec.Seq) (lits : List Nat) (h h' : Spec.OffHist) (q : Nat)
    (b : DBuf) (out' : Array Nat)
    (hov : ∀ s ∈ seqs, s.ov ≥ 1) (htot : b.totalOut ≤ b.content.size)
    (hspec : Spec.execSequences b.window b.dict seqs lits h b.content = some (out', h'))
    (hsize : finalSeqSum seqs lits q ≤ Gen.maxBlockSize) :
    ∃ b', executeSequences seqs lits (h.r1, h.r2, h.r3) q b = ((b', (h'.r1, h'.r2, h'.r3)), .ok ()) ∧
      RefinesOut b b' out' := by
  induction seqs generalizing lits h q b with
  | nil =>
    simp only [Spec.execSequences, Option.some.injEq, Prod.mk.injEq] at hspec
    obtain ⟨rfl, rfl⟩ := hspec
    simp only [finalSeqSum] at hsize
    simp only [executeSequences]
    split
    · rename_i he
      have : lits = [] := by simpa using he
      subst this
      exact ⟨b, rfl, by simp, rfl, rfl, rfl, htot⟩
    · rw [if_neg (by omega)]
      exact ⟨_, rfl, rfl, rfl, rfl, rfl, by simp only [DBuf.push, Array.size_append]; omega⟩
  | cons s rest ih =>
    have hs1 : s.ov ≥ 1 := hov s List.mem_cons_self
    have hrest : ∀ s' ∈ rest, s'.ov ≥ 1 := fun s' hm => hov s' (List.mem_cons_of_mem _ hm)
    have hge := finalSeqSum_ge rest (lits.drop s.ll) (q + s.ml + s.ll)
    simp only [finalSeqSum] at hsize
    simp only [Spec.execSequences] at hspec
    simp only [executeSequences]
    rw [if_neg (by omega)]
    by_cases hll : s.ll > lits.length
    · rw [if_pos hll] at hspec; cases hspec
    · rw [if_neg hll] at hspec
      rw [if_neg hll, offsetHistory_eq_spec s.ov s.ll h hs1]
      simp only
      generalize hro : Spec.repeatOffsets s.ov (decide (s.ll = 0)) h = ro at hspec ⊢
      obtain ⟨off, hh⟩ := ro
      simp only at hspec ⊢
      by_cases hoff : off = 0
      · rw [if_pos hoff] at hspec; cases hspec
      · rw [if_neg hoff] at hspec
        rw [if_neg hoff]
        -- the buffer after the literals
        generalize hb1 : (if s.ll > 0 then b.push (lits.take s.ll).toArray else b) = b1
        have hb1c : b1.content = b.content ++ (lits.take s.ll).toArray ∧ b1.dict = b.dict ∧ b1.window = b.window ∧
            b1.hashed = b.hashed ∧ b1.totalOut ≤ b1.content.size := by
          rw [← hb1]
          split
          · exact ⟨rfl, rfl, rfl, rfl, by simp only [DBuf.push, Array.size_append]; omega⟩
          · rename_i h0
            have : s.ll = 0 := by omega
            exact ⟨by simp [this], rfl, rfl, rfl, htot⟩
        rw [← hb1c.1] at hspec
        -- the match
        have hmatch : ∃ out2, Spec.matchCopy b.dict s.ml off b1.content = some out2 ∧
            Spec.execSequences b.window b.dict rest (lits.drop s.ll) hh out2 = some (out', h') ∧
            (off > b1.content.size → b1.content.size ≤ b1.window ∧ off - b1.content.size ≤ b1.dict.size) := by
          split at hspec
          · rename_i hgt
            split at hspec
            · cases hspec
            · rename_i hc
              split at hspec
              · cases hspec
              · rename_i out2 hm
                exact ⟨out2, hm, hspec, fun _ => by rw [hb1c.2.2.1, hb1c.2.1]; omega⟩
          · rename_i hgt
            split at hspec
            · cases hspec
            · split at hspec
              · cases hspec
              · rename_i out2 hm
                exact ⟨out2, hm, hspec, fun h => absurd h hgt⟩
        obtain ⟨out2, hm, hrec, hreach⟩ := hmatch
        rw [← hb1c.2.1] at hm
        obtain ⟨b2, hr, hc2, hd2, hw2, hh2, ht2⟩ := repeat_refines b1 off s.ml out2 (by omega) hb1c.2.2.2.2 hreach hm
        have hr' : (if s.ml > 0 then b1.repeat off s.ml else Except.ok b1) = .ok
            (if s.ml > 0 then b2 else b1) := by
          split
          · exact hr
          · rfl
        rw [hr']
        simp only
        -- both candidates hold `out2`
        have hb2 : (if s.ml > 0 then b2 else b1).content = out2 ∧ (if s.ml > 0 then b2 else b1).dict = b.dict ∧
            (if s.ml > 0 then b2 else b1).window = b.window ∧ (if s.ml > 0 then b2 else b1).hashed = b.hashed ∧
            (if s.ml > 0 then b2 else b1).totalOut ≤ (if s.ml > 0 then b2 else b1).content.size := by
          split
          · exact ⟨hc2, hd2.trans hb1c.2.1, hw2.trans hb1c.2.2.1, hh2.trans hb1c.2.2.2.1, ht2⟩
          · rename_i h0
            have hml : s.ml = 0 := by omega
            rw [hml] at hm
            simp only [Spec.matchCopy, Option.some.injEq] at hm
            exact ⟨hm, hb1c.2.1, hb1c.2.2.1, hb1c.2.2.2.1, hb1c.2.2.2.2⟩
        generalize (if s.ml > 0 then b2 else b1) = b3 at hb2 ⊢
        obtain ⟨hc3, hd3, hw3, hh3, ht3⟩ := hb2
        obtain ⟨b', he, hr'⟩ := ih (lits.drop s.ll) hh (q + s.ml + s.ll) b3 hrest ht3
          (by rw [hw3, hd3, hc3]; exact hrec) hsize
        exact ⟨b', he, hr'.content, hr'.dict.trans hd3, hr'.window.trans hw3, hr'.hashed.trans hh3, hr'.totalOut⟩


end Zstd.Model
